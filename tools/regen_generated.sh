#!/bin/bash
# regenerates the files derived from /repo's sources (after /repo was restored to the clean tree)
cd /verif
# the translators themselves may have changed since they were last built
(cd harness && GOFLAGS=-mod=mod GOPROXY=off GOSUMDB=off GOTOOLCHAIN=local go build -o gox/gox.new ./gox && mv gox/gox.new gox/gox) >/dev/null 2>&1
./harness/constx/constx /repo coq/Model/Consts.v build/consts.json >/dev/null 2>&1
./harness/chainx/chainx /repo coq/Model/Chains.v
./harness/gox/gox /repo coq/Model/GoFns.v coq/Model/SrcText.v build/srctext.json coq/Model/GoData.v coq/Model/GoGrad.v coq/Model/GoWrap.v coq/Model/GoComp.v
