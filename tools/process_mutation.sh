#!/bin/bash
# process_mutation.sh <worktree> <mutation-dir> <prop>...  — confirm in the worktree, then run the quick checks of
# the given properties against /repo with the patch applied (serialised by a lock: /repo is shared), restore /repo.
W=$1; M=$2; shift 2
name=$(basename $W)-$M
out=/tmp/m3results/$name.log
(
flock 9
echo "== $name  props: $*"
/verif/tools/confirm_mutation.sh $W $M 2>&1 | tail -4
/verif/tools/try_mutation.sh $W/$M/patch.diff "$@" 2>&1
) 9>/tmp/m3results/.lock > $out 2>&1
cat $out
