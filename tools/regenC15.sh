cd /verif
E=GradActP.GradActExamples; G=GradChainP; X=GradChainP.GradChainExamples
tools/genauto.sh C15 \
 tanh_gradient=GradActP.tanh_grad relu_gradient=GradActP.relu_grad leaky_relu_gradient=GradActP.leaky_grad \
 sigmoid_gradient=GradActP.sigmoid_grad softmax_gradient_any_dim=GradSoftmaxP.softmax_grad \
 tanh_derivative_identity=GradActP.tanh_deriv_identity sigmoid_derivative_identity=GradActP.sigmoid_deriv_identity \
 tanh_gradient_instance=$E.tanh_grad_ex relu_order_instance=$E.relu_order_ex relu_gradient_instance=$E.relu_grad_ex \
 relu_tie_instance=$E.relu_tie_ex leaky_order_instance=$E.leaky_order_ex leaky_gradient_instance=$E.leaky_grad_ex \
 sigmoid_order_instance=$E.sigmoid_order_ex sigmoid_gradient_instance=$E.sigmoid_grad_ex \
 later_nodes_do_not_matter=$G.trunc_transfer \
 tanh_nodes_are_a_block_of_the_order=$G.tanh_block relu_nodes_are_a_block_of_the_order=$G.relu_block leaky_nodes_are_a_block_of_the_order=$G.leaky_block \
 sigmoid_nodes_are_a_block_of_the_order=$G.sigmoid_block softmax_nodes_are_a_block_of_the_order=$G.softmax_block \
 tanh_gradient_in_any_graph=$G.tanh_grad_in_graph relu_gradient_in_any_graph=$G.relu_grad_in_graph leaky_gradient_in_any_graph=$G.leaky_grad_in_graph \
 sigmoid_gradient_in_any_graph=$G.sigmoid_grad_in_graph softmax_gradient_in_any_graph=$G.softmax_grad_in_graph \
 tanh_in_graph_instance=$X.tanh_in_graph_ex tanh_two_consumers_instance=$X.tanh_two_consumers_ex relu_in_graph_instance=$X.relu_in_graph_ex sigmoid_in_graph_instance=$X.sigmoid_in_graph_ex \
 library_equality_threshold_at_most_1e_240=ConstsP.threshold_at_most_1e_240
