#!/bin/bash
# confirm_mutation.sh <worktree> <mutation-dir-name>   — confirms in the scratch worktree that the patch
# applies to a clean checkout, builds (with and without the verif tag), passes the unedited suite,
# and that the demo fails with it and passes without it.
export GOFLAGS=-mod=mod GOPROXY=off GOSUMDB=off GOTOOLCHAIN=local
W=$1; M=${2:-mutation}
cd $W || exit 2
git checkout -q -- . 2>/dev/null; git stash -q 2>/dev/null
git checkout -q -- .
if ! git apply --check $M/patch.diff 2>/dev/null; then echo "PATCH does not apply"; exit 1; fi
rundemo() { (cd $W/$M/demo && cp $W/go.sum . 2>/dev/null; if ls *_test.go >/dev/null 2>&1; then timeout 300 go test -count=1 ./... >/tmp/demo.out 2>&1; else timeout 300 go run $( [ -f RACE ] && echo -race ) . >/tmp/demo.out 2>&1; fi; echo $?); }
base=$(rundemo)
git apply $M/patch.diff
b1=$(go build ./... 2>&1 | tail -1); b2=$(go build -tags verif ./... 2>&1 | tail -1)
t=$(go test -vet=off -count=1 ./... 2>&1 | grep -v "no test files" | grep -vc "^ok")
mut=$(rundemo)
tail -3 /tmp/demo.out
git apply -R $M/patch.diff
echo "clean-demo-exit=$base build='$b1$b2' failing-test-packages=$t mutated-demo-exit=$mut"
if [ "$base" == "0" ] && [ -z "$b1$b2" ] && [ "$t" == "0" ] && [ "$mut" != "0" ]; then echo CONFIRMED; else echo NOT-CONFIRMED; fi
