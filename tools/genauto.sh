#!/bin/bash
# genauto.sh <Cxx> name=lemma ...  — generate coq/Properties/Cxx.v, retrying with explicit implicit
# arguments (@) for the theorems whose printed statement does not re-parse.
P=$1; shift
args=("$@")
for iter in $(seq 1 200); do
  python3 /verif/tools/genprops.py /verif/coq/Properties/$P.v /verif/tools/hdr/$P.hdr "${args[@]}" >/dev/null || exit 1
  out=$(cd /verif/coq && timeout 600 coqc -Q . Qeep Properties/$P.v 2>&1)
  line=$(echo "$out" | grep -o "Properties/$P.v\", line [0-9]*" | head -1 | grep -o "[0-9]*$")
  if [ -z "$line" ]; then echo "$P ok ($(grep -c '^Theorem' /verif/coq/Properties/$P.v) theorems)"; exit 0; fi
  thm=$(head -n $line /verif/coq/Properties/$P.v | grep "^Theorem" | tail -1 | awk '{print $2}')
  changed=0
  for i in "${!args[@]}"; do
    n=${args[$i]%%=*}
    if [ "$n" == "$thm" ] && [[ "${args[$i]}" != *@ ]]; then args[$i]="${args[$i]}@"; changed=1; fi
  done
  if [ $changed == 0 ]; then echo "$out" | tail -15; exit 1; fi
done
