#!/usr/bin/env python3
"""keep_mutation.py <worktree> <mutation-dir> <seeded-id> <property> <verdict> <needs...>  — copies a confirmed
mutation into /verif/seeded/<id>/ (patch.diff, demo/, NOTES.md, meta.json)."""
import sys, os, shutil, json, subprocess
w, m, sid, prop, verdict = sys.argv[1:6]
needs = " ".join(sys.argv[6:])
dst = "/verif/seeded/%s" % sid
shutil.rmtree(dst, ignore_errors=True)
os.makedirs(dst)
shutil.copy(os.path.join(w, m, "patch.diff"), dst)
if os.path.exists(os.path.join(w, m, "NOTES.md")):
    shutil.copy(os.path.join(w, m, "NOTES.md"), dst)
shutil.copytree(os.path.join(w, m, "demo"), os.path.join(dst, "demo"), ignore=shutil.ignore_patterns("go.sum"))
# the demo's replace directive pointed at the scratch worktree
gm = os.path.join(dst, "demo", "go.mod")
if os.path.exists(gm):
    s = open(gm).read().replace(w, "/repo")
    open(gm, "w").write(s)
meta = {"id": sid, "property": prop, "needs_to_manifest": needs,
        "confirmed": "tools/confirm_mutation.sh %s %s: applies to a clean checkout, builds with and without the verif tag, unedited suite passes, demo exit 0 without and non-zero with the patch" % (w, m),
        "check_result": verdict,
        "how_to_rerun": "git -C /repo apply /verif/seeded/%s/patch.diff && bin/check %s ; git -C /repo checkout -- ." % (sid, prop)}
json.dump(meta, open(os.path.join(dst, "meta.json"), "w"), indent=1)
print("kept", dst)
