#!/bin/bash
# sandbox.sh — the DRIVER ALONE (scenario generators + correspondence with the extracted model, no proofs) against a
# scratch copy of /repo's HEAD, optionally patched: seconds per run, used to try a generator change against the seeded
# change it is meant for and against several seeds of the unchanged tree before running the full check.
#   tools/sandbox.sh clean <prop> <seed>...          current driver sources vs. the unpatched copy
#   tools/sandbox.sh mut <patch.diff> <prop> [seed]  ... vs. the copy with the patch applied (C20: race build)
#   tools/sandbox.sh sweep <seed>...                 all properties C01..C19 on the unpatched copy
# Scratch directories live under /tmp/qeep-sandbox and are removed by `tools/sandbox.sh rm`.
set -e
export GOFLAGS=-mod=mod GOPROXY=off GOSUMDB=off GOTOOLCHAIN=local
S=/tmp/qeep-sandbox
prep() {  # $1 = repo copy to build against, $2 = build dir, $3 = extra go build flags
  mkdir -p $S
  [ -d $S/clean ] || { mkdir -p $S/clean && git -C /repo archive HEAD | tar -x -C $S/clean; }
  [ -x $S/qeep_model ] || cp /verif/ocaml/qeep_model $S/qeep_model
  mkdir -p $2 && rsync -a --exclude 'driver/driver' --exclude 'driver/driver_race' --exclude gox/gox --exclude chainx/chainx --exclude constx/constx /verif/harness/ $2/
  (cd $2 && sed -i "s#=> /repo#=> $1#" go.mod && go build $3 -o $2/drv ./driver)
}
summ() { python3 - "$1" <<'PY'
import json,sys
r=json.load(open(sys.argv[1])); v=r.get('violations') or []
print("violations",len(v),"known",len(r.get('known') or []),"probe findings",[x['key'] for x in (r.get('probe_findings') or [])],"scenarios",r['evaluations'])
for x in v[:2]: print("  ",json.dumps(x)[:400])
PY
}
run() { (cd $1 && mkdir -p out && ./drv -prop $2 -tier quick -seed $3 -model $S/qeep_model -out out/r.json -eqthr 1e-240 -corpus /verif/corpus > out/log.txt 2>&1; grep -c "DATA RACE" out/log.txt | sed 's/^/race reports: /'; summ out/r.json); }
case "$1" in
  clean) prep $S/clean $S/h "-tags verif"; p=$2; shift 2; for s in "$@"; do echo "== $p seed $s"; run $S/h $p $s; done ;;
  mut)   rm -rf $S/mut; prep $S/clean $S/h0 "-tags verif" >/dev/null; cp -r $S/clean $S/mut; (cd $S/mut && patch -p1 -s < $2)
         if [ "$3" == "C20" ]; then prep $S/mut $S/hm "-race"; else prep $S/mut $S/hm "-tags verif"; fi; run $S/hm $3 ${4:-1} ;;
  sweep) prep $S/clean $S/h "-tags verif"; shift; for p in C01 C02 C03 C04 C05 C06 C07 C08 C09 C10 C11 C12 C13 C14 C15 C16 C17 C18 C19; do for s in "$@"; do echo "== $p seed $s"; run $S/h $p $s; done; done ;;
  rm)    rm -rf $S ;;
  *)     sed -n 2,9p $0 ;;
esac
