#!/usr/bin/env python3
"""genprops.py <out.v> <header-file> <name=lemma>...   — writes a Properties file whose theorems restate the
given lemmas verbatim (statement printed by Coq with the header's imports in scope) and are closed by
`exact @lemma`, each followed by Print Assumptions."""
import subprocess, sys, re, os
out, header = sys.argv[1], sys.argv[2]
pairs = [a.split("=", 1) for a in sys.argv[3:]]
hdr = open(header).read()
imports = "\n".join(l for l in hdr.splitlines() if l.startswith(("From ", "Require ", "Import ", "Local Open", "Open Scope", "Set Printing", "Unset Printing")))
def chk(l):
    if l.endswith("@"):
        return 'Set Printing Implicit.\nCheck @%s.\nUnset Printing Implicit.\n' % l[:-1]
    return 'Check @%s.\n' % l
probe = imports + "\nSet Printing Width 110.\nSet Printing Depth 1000.\n" + "".join(chk(l) for _, l in pairs)
pairs = [(n, l.rstrip("@")) for n, l in pairs]
open("/tmp/genprops_probe.v", "w").write(probe)
r = subprocess.run("coqc -Q /verif/coq Qeep /tmp/genprops_probe.v", shell=True, capture_output=True, text=True)
if r.returncode != 0:
    print(r.stdout, r.stderr); sys.exit(1)
txt = r.stdout
# split on lines that start a new Check answer: "<name>" or "@<name>" at column 0 followed by newline "     : "
blocks = re.split(r"\n(?=@?[A-Za-z_][A-Za-z0-9_.']*\n\s+: )", "\n" + txt)
types = {}
for b in blocks:
    b = b.strip("\n")
    if not b: continue
    m = re.match(r"@?([A-Za-z_][A-Za-z0-9_.']*)\n\s+: (.*)", b, re.S)
    if m:
        types[m.group(1)] = m.group(2)
body = [hdr.rstrip() + "\n"]
for name, lemma in pairs:
    key = lemma
    parts = key.split(".")
    t = None
    for i in range(len(parts)):
        t = t or types.get(".".join(parts[i:]))
    if t is None:
        print("no type for", lemma); sys.exit(1)
    t = re.sub(r"\n\s{5,7}", "\n  ", t)
    body.append("Theorem %s :\n  %s.\nProof. exact @%s. Qed.\nPrint Assumptions %s.\n" % (name, t.strip(), lemma, name))
open(out, "w").write("\n".join(body))
print("wrote", out, len(pairs), "theorems")
