#!/bin/bash
# try_mutation.sh <patch.diff> <prop>...   — applies the patch to /repo, runs the quick checks of the given
# properties, restores /repo.  Prints the verdict lines.
P=$1; shift
rm -rf /tmp/evidence.bak && cp -r /verif/evidence /tmp/evidence.bak
cd /repo && git checkout -q -- . && git apply $P || { echo "apply failed"; exit 2; }
for prop in "$@"; do
  out=$(cd /verif && bin/check $prop 2>&1 | grep -E "^(VIOLATION|OK|KNOWN)" | cut -c1-220)
  echo "[$prop] $out"
done
cd /repo && git checkout -q -- . && git status --short | head -3
/verif/tools/regen_generated.sh
# evidence files must come from runs on the unchanged tree
rm -rf /verif/evidence && cp -r /tmp/evidence.bak /verif/evidence
