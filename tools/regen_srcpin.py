#!/usr/bin/env python3
"""regen_srcpin.py <srctext.json of a CLEAN checkout>  — (re)writes coq/Proofs/SrcPinP.v, coq/Properties/C??P.v and
tools/srcpin_expected.json: the canonical texts the model was written against, and per property the keys of the
declarations the property is anchored in (properties.jsonl anchors, refined to functions).  Run only when the
pinned texts are to be re-based (after a deliberate change of /repo such as a fix: commit)."""
import json, sys, fnmatch, os

src = json.load(open(sys.argv[1]))
T = "tensor/internal/"
CT, GT, VA = T + "cputensor/", T + "gradtrack/", T + "validator/"
A, L, LO = "component/layers/activations/", "component/layers/", "component/losses/"

def fns(path, *names):
    return [path + ":" + n for n in names]

GRAD_CORE = [GT + "back_propagation.go:*", GT + "types.go:*", GT + "gradtrack.go:*"]
PINS = {
 "C01": GRAD_CORE + [GT + "gradients.go:*", GT + "gradient_helpers.go:*", "tensor/tensor.go:BackPropagate"],
 "C02": [GT + "gradients.go:*", GT + "gradient_helpers.go:*", GT + "back_propagation.go:*"],
 "C03": fns(CT + "operators.go", "CPUTensor.scale", "CPUTensor.pow", "CPUTensor.exp", "CPUTensor.log", "CPUTensor.sin", "CPUTensor.cos",
            "CPUTensor.tan", "CPUTensor.sinh", "CPUTensor.cosh", "CPUTensor.tanh", "CPUTensor.eq", "CPUTensor.ne", "CPUTensor.gt",
            "CPUTensor.ge", "CPUTensor.lt", "CPUTensor.le", "CPUTensor.elmax", "CPUTensor.elmin", "CPUTensor.add", "CPUTensor.sub",
            "CPUTensor.mul", "CPUTensor.div", "CPUTensor.equals", "applyUnaryFuncOnTensorElemWise", "applyBinaryFuncOnTensorsElemWise",
            "const float64EqualityThreshold")
        + fns(CT + "cputensor_helpers.go", "targetBroadcastDims", "broadcastForBinaryOp")
        + fns(CT + "shape_modifiers.go", "CPUTensor.broadcast", "CPUTensor.broadcastElemGenerator")
        + fns(CT + "initializers.go", "CPUTensor.initWith") + fns(CT + "accessors.go", "CPUTensor.dataAt", "CPUTensor.numElems")
        + fns(CT + "reducers.go", "CPUTensor.sum", "CPUTensor.reduceByAssociativeFunc") + [CT + "types.go:*"],
 "C04": fns(CT + "operators.go", "CPUTensor.dot", "CPUTensor.matMul", "linearLast2DimsMatMulElemGenerator", "matMulDataOf2DInputs",
            "linearLastDimDotProductElemGenerator", "dotProductOf1DInputs", "matMulDims", "dotDims")
        + fns(CT + "cputensor_helpers.go", "broadcastForMatMul", "broadcastForBinaryOp", "targetBroadcastDims")
        + fns(CT + "shape_modifiers.go", "CPUTensor.transpose", "CPUTensor.transposeElemGenerator", "transposeDims", "CPUTensor.broadcast",
              "CPUTensor.broadcastElemGenerator")
        + fns(CT + "initializers.go", "CPUTensor.initWith", "eyeMatrix", "eyeElemGenerator") + fns(CT + "accessors.go", "CPUTensor.dataAt")
        + [CT + "types.go:*"],
 "C05": [CT + "reducers.go:*"] + fns(CT + "shape_modifiers.go", "squeezeDims")
        + fns(CT + "accessors.go", "CPUTensor.slice", "CPUTensor.copiedSliceOf", "completeIndex", "CPUTensor.numElems")
        + fns(CT + "initializers.go", "CPUTensor.initWith") + [CT + "types.go:*"],
 "C06": [CT + "accessors.go:*", CT + "shape_modifiers.go:*", CT + "types.go:*"]
        + fns(CT + "initializers.go", "CPUTensor.initWith", "constTensor", "eyeMatrix", "initTensorFromData", "initConcatResultTensor",
              "eyeElemGenerator", "getConcatDims")
        + fns(CT + "cputensor_helpers.go", "copiedIndex"),
 "C07": fns(GT + "gradients.go", "Broadcast") + fns(GT + "gradient_helpers.go", "*")
        + fns(CT + "cputensor_helpers.go", "broadcastForBinaryOp", "broadcastForMatMul", "targetBroadcastDims"),
 "C08": GRAD_CORE + [GT + "gradients.go:*"],
 "C09": [VA + "*.go:*", "tensor/validators.go:*", "tensor/tensor.go:*", "tensor/types.go:*"]
        + fns(CT + "cputensor_helpers.go", "assertCPUTensor", "assertCPUTensors") + fns(CT + "initializers.go", "initTensorFromData")
        + fns(CT + "accessors.go", "CPUTensor.dataAt")
        + ["component/*/*.go:toValid*", "component/*/*/*.go:toValid*", "component/*/*.go:*alidate*", "component/*/*/*.go:*alidate*",
           "component/*/*.go:New*", "component/*/*/*.go:New*", L + "input.go:*"],
 "C10": fns(CT + "initializers.go", "constTensor", "initTensorFromData", "uniformRandomTensor", "normalRandomTensor", "initConcatResultTensor", "CPUTensor.initWith")
        + fns(CT + "shape_modifiers.go", "CPUTensor.reshape", "CPUTensor.broadcast", "CPUTensor.transpose")
        + [CT + "accessors.go:*", CT + "types.go:*"] + fns(CT + "cputensor_helpers.go", "copiedIndex", "targetBroadcastDims", "broadcastForMatMul")
        + fns(GT + "gradients.go", "Slice", "Patch", "Concat") + fns(GT + "back_propagation.go", "accumulateGrad", "backward") + [GT + "types.go:*"],
 "C11": ["component/optimizers/sgd.go:*", L + "fc.go:*", L + "types.go:*"] + GRAD_CORE,
 "C12": [LO + "*.go:*"],
 "C13": [LO + "*.go:*", GT + "gradients.go:*", GT + "gradient_helpers.go:*", GT + "back_propagation.go:*"],
 "C14": [A + "*.go:*"],
 "C15": [A + "*.go:*", GT + "gradients.go:*", GT + "gradient_helpers.go:*", GT + "back_propagation.go:*"],
 "C16": [L + "fc.go:*", L + "types.go:*", L + "input.go:*"],
 "C17": ["component/optimizers/sgd.go:*", "component/optimizers/*.go:*"],
 "C18": ["component/initializers/*.go:*"]
        + fns(CT + "initializers.go", "uniformRandomTensor", "normalRandomTensor", "constTensor", "CPUTensor.initWith")
        + fns(VA + "initializers.go", "ValidateRandUParams", "ValidateRandNParams", "ValidateInputDims"),
 "C19": ["component/metrics/*.go:*"] + fns(CT + "operators.go", "CPUTensor.eq", "applyBinaryFuncOnTensorsElemWise", "const float64EqualityThreshold")
        + fns(CT + "reducers.go", "CPUTensor.sum", "CPUTensor.reduceByAssociativeFunc"),
 "C20": [CT + "*.go:*", GT + "gradients.go:*", GT + "gradtrack.go:*", GT + "types.go:*"],
}

def cq(s):
    out = ['"']
    for ch in s:
        if ch == '"':
            out.append('""')
        elif ord(ch) < 32 or ord(ch) > 126:
            out.append("?%x?" % ord(ch))
        else:
            out.append(ch)
    out.append('"')
    return "".join(out)

keys = {}
for p, pats in PINS.items():
    ks = set()
    for pat in pats:
        m = [k for k in src if fnmatch.fnmatchcase(k, pat)]
        if not m:
            print("WARNING: pattern matches nothing:", p, pat)
        ks.update(m)
    keys[p] = sorted(ks)
allk = sorted(set(k for ks in keys.values() for k in ks))
root = os.path.dirname(os.path.dirname(os.path.abspath(__file__)))
json.dump({"expected": {k: src[k] for k in allk}, "keys": keys}, open(os.path.join(root, "tools", "srcpin_expected.json"), "w"), indent=1)

v = ['(* SrcPinP.v — GENERATED by tools/regen_srcpin.py from a clean checkout of the pinned tree; committed.',
     '   [expected]: canonical text of the declarations the properties are anchored in, as they were when the model and',
     '   its proofs were written; [keys_Cxx]: which of them property Cxx depends on (properties.jsonl anchors refined to',
     '   functions).  Model/SrcText.v is REGENERATED from /repo on every run; the theorems [pins_Cxx] hold exactly when every',
     '   pinned declaration is token-for-token what it was.  This is a SYNTACTIC drift alarm behind the semantic ties',
     '   (ChainP/GoIR theorems): when it breaks, the check escalates its search for a failing input and reports. *)',
     'From Coq Require Import String List Bool.', 'From Qeep Require Model.SrcText.', 'Import ListNotations.', 'Local Open Scope string_scope.', '',
     'Fixpoint assoc (k : string) (l : list (string * string)) : option string :=',
     '  match l with [] => None | (k\', v) :: r => if String.eqb k k\' then Some v else assoc k r end.', '',
     'Definition pin_ok (src exp : list (string * string)) (keys : list string) : bool :=',
     '  forallb (fun k => match assoc k src, assoc k exp with Some a, Some b => String.eqb a b | _, _ => false end) keys.', '',
     'Definition expected : list (string * string) :=', '  [ ' + ";\n    ".join("(%s,\n     %s)" % (cq(k), cq(src[k])) for k in allk) + ' ].', '']
for p in sorted(keys):
    v.append('Definition keys_%s : list string :=\n  [ %s ].' % (p, ";\n    ".join(cq(k) for k in keys[p])))
    v.append('Lemma pins_%s : pin_ok SrcText.src_text expected keys_%s = true.\nProof. vm_compute. reflexivity. Qed.\n' % (p, p))
open(os.path.join(root, "coq", "Proofs", "SrcPinP.v"), "w").write("\n".join(v) + "\n")
for p in sorted(keys):
    body = '''(* %sP — syntactic source pin (drift alarm) for the declarations property %s is anchored in.  Statement only.
   Model/SrcText.v is regenerated from /repo's Go sources on every run (canonical text, comments and white space
   ignored); the theorem holds exactly when each of the %d pinned declarations (Proofs/SrcPinP.v: keys_%s) is
   token-for-token the text the model was written against.  NOT a semantic statement: a harmless rewrite breaks it
   too; when it breaks the check searches harder for a failing input and names this theorem in the replay.
   Closed under the global context. *)
From Coq Require Import String List Bool.
From Qeep Require Model.SrcText Proofs.SrcPinP.

Theorem anchored_source_is_the_pinned_text :
  SrcPinP.pin_ok SrcText.src_text SrcPinP.expected SrcPinP.keys_%s = true.
Proof. exact SrcPinP.pins_%s. Qed.
Print Assumptions anchored_source_is_the_pinned_text.
''' % (p, p, len(keys[p]), p, p, p)
    open(os.path.join(root, "coq", "Properties", p + "P.v"), "w").write(body)
print("pinned", len(allk), "declarations;", {p: len(k) for p, k in keys.items()})
