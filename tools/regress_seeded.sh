#!/bin/bash
# regress_seeded.sh [ids...] — applies every kept seeded change to /repo in turn, runs the quick check of the property
# it was seeded for, restores /repo; one line per change in /tmp/regress.out (CAUGHT / flagged-no-input / MISSED).
cd /verif
ids=${@:-$(ls seeded)}
for id in $ids; do
  prop=$(python3 -c "import json;print(json.load(open('seeded/$id/meta.json'))['property'])")
  (
  flock 9
  cd /repo && git checkout -q -- . && git apply /verif/seeded/$id/patch.diff || { echo "$id apply-failed"; exit; }
  out=$(cd /verif && bin/check $prop 2>&1 | grep -E "^(VIOLATION|OK)")
  cd /repo && git checkout -q -- .
  /verif/tools/regen_generated.sh
  if echo "$out" | grep -q "^VIOLATION" && echo "$out" | grep -v "no-failing-input-found" | grep -q "^VIOLATION"; then v=CAUGHT
  elif echo "$out" | grep -q "^VIOLATION"; then v=flagged-no-input
  else v=MISSED; fi
  echo "$id $prop $v"
  ) 9>/tmp/m3results/.lock
done
