package main

// Scenario families for the autograd properties: C02 (one rule at a time with an arbitrary
// upstream weighting), C07 (broadcast expansion), C01 (DAGs with reconvergence), C08 (tracking
// state machine over random histories).

import "fmt"

// weights the result with a fresh untracked tensor and back-propagates from the product:
// the upstream gradient reaching y is then exactly w
func (g *Gen) weightAndBackprop(y int) {
	if !g.isT(y) {
		return
	}
	ds := g.shapeOf(y)
	w := g.leafDistinct(ds, false, -2, 2)
	z, o := g.do(Cmd{Op: OpBin, K: 10, T: y, U: T(w)})
	if o.Kind != "tensor" {
		return
	}
	g.do(Cmd{Op: OpBackprop, U: T(z)})
}

func (g *Gen) trackedSubset(n int) []bool {
	out := make([]bool, n)
	any := false
	for i := range out {
		out[i] = g.chance(0.7)
		any = any || out[i]
	}
	if !any && !g.chance(0.1) {
		out[g.intn(n)] = true
	}
	return out
}

var vjpOps = []string{"slice", "patch", "transpose", "reshape", "unsqueeze", "squeeze", "flatten",
	"sum-along", "max-along", "min-along", "avg-along", "var-along", "std-along", "mean-along",
	"scale", "pow", "exp", "log", "sin", "cos", "tan", "sinh", "cosh", "tanh",
	"elmax", "elmin", "add", "sub", "mul", "div", "dot", "matmul", "concat", "reused-untracked-operand", "pow", "pow"}

func famVJP(g *Gen) {
	g.nontr = true
	op := vjpOps[g.intn(len(vjpOps))]
	g.vjpOne(op)
}

func (g *Gen) vjpOne(op string) {
	g.tag(op)
	ds := g.shape(0, 5, 3)
	switch op {
	case "slice":
		tr := g.trackedSubset(1)
		x := g.leafDistinct(ds, tr[0], -3, 3)
		y, _ := g.do(Cmd{Op: OpSlice, T: x, Ranges: g.sliceIndex(ds)})
		g.weightAndBackprop(y)
	case "patch":
		tr := g.trackedSubset(2)
		x := g.leafDistinct(ds, tr[0], -3, 3)
		src, idx := g.patchArgs(ds)
		p := g.leafDistinct(src, tr[1], 5, 9)
		y, _ := g.do(Cmd{Op: OpPatch, T: x, Ranges: idx, U: T(p)})
		g.weightAndBackprop(y)
	case "transpose":
		if len(ds) < 2 {
			ds = append([]int{1 + g.intn(3), 1 + g.intn(3)}, ds...)
		}
		x := g.leafDistinct(ds, g.trackedSubset(1)[0], -3, 3)
		y, _ := g.do(Cmd{Op: OpTranspose, T: x})
		g.weightAndBackprop(y)
	case "reshape":
		x := g.leafDistinct(ds, g.trackedSubset(1)[0], -3, 3)
		y, _ := g.do(Cmd{Op: OpReshape, T: x, Dims: []int{1, prod(ds)}})
		g.weightAndBackprop(y)
	case "unsqueeze":
		x := g.leafDistinct(ds, g.trackedSubset(1)[0], -3, 3)
		y, _ := g.do(Cmd{Op: OpUnsqueeze, T: x, Z: g.intn(len(ds) + 1)})
		g.weightAndBackprop(y)
	case "squeeze":
		k := g.intn(len(ds) + 1)
		ds = append(append(append([]int{}, ds[:k]...), 1), ds[k:]...)
		if len(ds) > 6 {
			ds = ds[len(ds)-6:]
			k = 0
			ds[0] = 1
		}
		x := g.leafDistinct(ds, g.trackedSubset(1)[0], -3, 3)
		y, _ := g.do(Cmd{Op: OpSqueeze, T: x, Z: k})
		g.weightAndBackprop(y)
	case "flatten":
		if len(ds) == 0 {
			ds = []int{2}
		}
		x := g.leafDistinct(ds, g.trackedSubset(1)[0], -3, 3)
		y, _ := g.do(Cmd{Op: OpFlatten, T: x, Z: g.intn(len(ds))})
		g.weightAndBackprop(y)
	case "sum-along", "max-along", "min-along", "avg-along", "var-along", "std-along", "mean-along":
		if len(ds) == 0 {
			ds = []int{1 + g.intn(3)}
		}
		k := map[string]int{"sum-along": 0, "max-along": 1, "min-along": 2, "avg-along": 3, "var-along": 4, "std-along": 5, "mean-along": 6}[op]
		dim := g.intn(len(ds))
		if op == "std-along" && ds[dim] == 1 && g.chance(0.7) {
			ds[dim] = 2 + g.intn(2)
		}
		x := g.leafDistinct(ds, g.trackedSubset(1)[0], -3, 3)
		y, _ := g.do(Cmd{Op: OpAlong, K: k, T: x, Z: dim})
		g.weightAndBackprop(y)
	case "scale":
		x := g.leafDistinct(ds, g.trackedSubset(1)[0], -3, 3)
		y, _ := g.do(Cmd{Op: OpScale, T: x, A: smallDec(g)})
		g.weightAndBackprop(y)
	case "pow":
		tr := g.trackedSubset(1)[0]
		var x int
		var a Dec
		if g.chance(0.5) {
			// integral exponents, base may be 0 for exponent 0, 1, 2
			a = Dec{int64(g.pick(0, 1, 2, 3, -1, -2)), 0}
			vals := g.valsDistinct(prod(ds), -3, 3)
			if a.M >= 0 && a.M <= 3 && len(vals) > 0 {
				vals[g.intn(len(vals))] = 0
				g.tag("pow-base-0")
			}
			x = g.leafVals(ds, vals, tr)
		} else {
			a = []Dec{{5, -1}, {15, -1}, {-5, -1}, {25, -1}}[g.intn(4)]
			x = g.leafDistinct(ds, tr, 0.2, 3)
		}
		y, _ := g.do(Cmd{Op: OpPow, T: x, A: a})
		g.weightAndBackprop(y)
	case "exp", "sin", "cos", "sinh", "cosh", "tanh":
		k := map[string]int{"exp": 0, "sin": 2, "cos": 3, "sinh": 5, "cosh": 6, "tanh": 7}[op]
		x := g.leafDistinct(ds, g.trackedSubset(1)[0], -3, 3)
		y, _ := g.do(Cmd{Op: OpMath, K: k, T: x})
		g.weightAndBackprop(y)
	case "log":
		x := g.leafDistinct(ds, g.trackedSubset(1)[0], 0.2, 4)
		y, _ := g.do(Cmd{Op: OpMath, K: 1, T: x})
		g.weightAndBackprop(y)
	case "tan":
		x := g.leafDistinct(ds, g.trackedSubset(1)[0], -1.2, 1.2)
		y, _ := g.do(Cmd{Op: OpMath, K: 4, T: x})
		g.weightAndBackprop(y)
	case "elmax", "elmin", "add", "sub", "mul", "div":
		k := map[string]int{"elmax": 6, "elmin": 7, "add": 8, "sub": 9, "mul": 10, "div": 11}[op]
		tr := g.trackedSubset(2)
		n := prod(ds)
		vals := g.valsDistinct(2*n, 0.3, 4) // distinct across both operands: no ties
		if op != "div" {
			for i := range vals {
				if g.chance(0.4) {
					vals[i] = -vals[i]
				}
			}
		}
		a := g.leafVals(ds, vals[:n], tr[0])
		b := g.leafVals(ds, vals[n:], tr[1])
		y, _ := g.do(Cmd{Op: OpBin, K: k, T: a, U: T(b)})
		g.weightAndBackprop(y)
	case "dot":
		ds = append(g.shape(0, 4, 3), 1+g.intn(3))
		tr := g.trackedSubset(2)
		a := g.leafDistinct(ds, tr[0], -3, 3)
		b := g.leafDistinct(ds, tr[1], -3, 3)
		y, _ := g.do(Cmd{Op: OpDot, T: a, U: T(b)})
		g.weightAndBackprop(y)
	case "matmul":
		batch := g.shape(0, 3, 3)
		m, n, k := 1+g.intn(3), 1+g.intn(3), 1+g.intn(3)
		tr := g.trackedSubset(2)
		a := g.leafDistinct(append(append([]int{}, batch...), m, n), tr[0], -3, 3)
		b := g.leafDistinct(append(append([]int{}, batch...), n, k), tr[1], -3, 3)
		y, _ := g.do(Cmd{Op: OpMatMul, T: a, U: T(b)})
		g.weightAndBackprop(y)
	case "concat":
		if len(ds) == 0 {
			ds = []int{2}
		}
		dim := g.intn(len(ds))
		n := 2 + g.intn(3)
		tr := g.trackedSubset(n)
		ts := []Targ{}
		for i := 0; i < n; i++ {
			s := append([]int{}, ds...)
			s[dim] = 1 + g.intn(3)
			ts = append(ts, T(g.leafDistinct(s, tr[i], -3, 3)))
		}
		y, _ := g.do(Cmd{Op: OpConcat, Targs: ts, Z: dim})
		g.weightAndBackprop(y)
	case "reused-untracked-operand":
		// an untracked constant is an operand of two INDEPENDENT applications, each with a fresh tracked operand, each
		// back-propagated on its own: the constant is not consumed by the first pass
		if len(ds) == 0 {
			ds = []int{2}
		}
		c := g.leafDistinct(ds, false, -3, 3)
		kind := g.intn(5)
		for pass := 0; pass < 2+g.intn(2); pass++ {
			x := g.leafDistinct(ds, true, -3, 3)
			var y int
			switch kind {
			case 0:
				y, _ = g.do(Cmd{Op: OpBin, K: g.pick(6, 7), T: x, U: T(c)})
			case 1:
				y, _ = g.do(Cmd{Op: OpBin, K: g.pick(6, 7), T: c, U: T(x)})
			case 2:
				if g.chance(0.5) {
					y, _ = g.do(Cmd{Op: OpPatch, T: x, Ranges: nil, U: T(c)})
				} else {
					y, _ = g.do(Cmd{Op: OpPatch, T: c, Ranges: nil, U: T(x)})
				}
			case 3:
				ts := []Targ{T(x), T(c)}
				if g.chance(0.5) {
					ts = []Targ{T(c), T(x)}
				}
				y, _ = g.do(Cmd{Op: OpConcat, Targs: ts, Z: g.intn(len(ds))})
			default:
				y, _ = g.do(Cmd{Op: OpBin, K: g.pick(8, 9, 10), T: x, U: T(c)})
			}
			g.weightAndBackprop(y)
		}
	default:
		panic("harness: unknown vjp op " + op)
	}
}

// C07
func famBroadcastGrad(g *Gen) {
	g.nontr = true
	src := g.shape(0, 4, 3)
	switch g.intn(7) {
	case 0:
		tgt := g.bcastTarget(src)
		if prod(tgt) == prod(src) {
			g.tag("factor-1")
		} else {
			g.tag("explicit-expanding")
		}
		x := g.leafDistinct(src, true, -3, 3)
		y, _ := g.do(Cmd{Op: OpBroadcast, T: x, Dims: tgt})
		g.weightAndBackprop(y)
	case 1, 2, 3, 4:
		k := 8 + g.intn(4)
		g.tag("implicit-" + binNames[k])
		ps := g.bcastPartner(src)
		tr := g.trackedSubset(2)
		a := g.leafDistinct(src, tr[0], 0.5, 3)
		b := g.leafDistinct(ps, tr[1], 0.5, 3)
		if g.chance(0.5) {
			a, b = b, a
		}
		y, _ := g.do(Cmd{Op: OpBin, K: k, T: a, U: T(b)})
		g.weightAndBackprop(y)
	case 5:
		g.tag("implicit-dot")
		l := 1 + g.intn(3)
		b1 := g.shape(0, 3, 3)
		b2 := g.bcastPartner(b1)
		tr := g.trackedSubset(2)
		a := g.leafDistinct(append(append([]int{}, b1...), l), tr[0], -3, 3)
		b := g.leafDistinct(append(append([]int{}, b2...), l), tr[1], -3, 3)
		y, _ := g.do(Cmd{Op: OpDot, T: a, U: T(b)})
		g.weightAndBackprop(y)
	default:
		g.tag("implicit-matmul")
		m, n, k := 1+g.intn(3), 1+g.intn(3), 1+g.intn(3)
		b1 := g.shape(0, 2, 3)
		b2 := g.bcastPartner(b1)
		tr := g.trackedSubset(2)
		a := g.leafDistinct(append(append([]int{}, b1...), m, n), tr[0], -3, 3)
		b := g.leafDistinct(append(append([]int{}, b2...), n, k), tr[1], -3, 3)
		if g.chance(0.5) {
			y, _ := g.do(Cmd{Op: OpMatMul, T: a, U: T(b)})
			g.weightAndBackprop(y)
		} else {
			y, _ := g.do(Cmd{Op: OpMatMul, T: a, U: T(b)})
			g.weightAndBackprop(y)
		}
	}
}

// ---------------------------------------------------------------------------------------
// C01: DAG programs.  All tensors of one program share a shape so that any two can be combined
// and reconvergence is frequent; values stay in a range where every op used is differentiable.

func (g *Gen) dagStep(pool []int, expanding bool) int {
	x := pool[g.intn(len(pool))]
	switch g.intn(11) {
	case 0:
		y, _ := g.do(Cmd{Op: OpScale, T: x, A: Dec{int64(g.pick(-1, 2, 5)), int64(g.pick(0, -1))}})
		return y
	case 1:
		y, _ := g.do(Cmd{Op: OpMath, K: g.pick(2, 3, 7), T: x}) // sin cos tanh: bounded
		return y
	case 2, 3, 4:
		u := pool[g.intn(len(pool))]
		y, _ := g.do(Cmd{Op: OpBin, K: g.pick(8, 9, 10), T: x, U: T(u)})
		return y
	case 5:
		y, _ := g.do(Cmd{Op: OpBin, K: 8, T: x, U: T(x)}) // same tensor twice
		return y
	case 6:
		u := pool[g.intn(len(pool))]
		y, _ := g.do(Cmd{Op: OpBin, K: 10, T: x, U: T(u)})
		return y
	case 7:
		// shape round trip through reshape/flatten
		ds := g.shapeOf(x)
		if len(ds) == 0 {
			y, _ := g.do(Cmd{Op: OpScale, T: x, A: Dec{1, 0}})
			return y
		}
		f, _ := g.do(Cmd{Op: OpFlatten, T: x, Z: 0})
		y, _ := g.do(Cmd{Op: OpReshape, T: f, Dims: ds})
		return y
	case 8:
		if expanding {
			// reduce then implicit expansion (meets the Broadcast back edge with factor > 1)
			ds := g.shapeOf(x)
			if len(ds) > 0 && prod(ds) > 1 {
				s, _ := g.do(Cmd{Op: OpAlong, K: 0, T: x, Z: 0})
				y, _ := g.do(Cmd{Op: OpBin, K: 8, T: x, U: T(s)})
				g.tag("expanding")
				return y
			}
		}
		y, _ := g.do(Cmd{Op: OpPow, T: x, A: Dec{2, 0}})
		return y
	case 9:
		// tiling: concatenate (possibly the SAME tensor several times, tracked and untracked mixed) along
		// dimension 0, fold the pieces back to the common shape by reshape + SumAlong(0)
		ds := g.shapeOf(x)
		if len(ds) == 0 || len(ds) > 5 {
			y, _ := g.do(Cmd{Op: OpScale, T: x, A: Dec{3, 0}})
			return y
		}
		u := pool[g.intn(len(pool))]
		parts := []Targ{T(x), T(x), T(u)}
		if g.chance(0.5) {
			parts = []Targ{T(u), T(x), T(pool[g.intn(len(pool))]), T(x)}
		}
		c, o := g.do(Cmd{Op: OpConcat, Targs: parts, Z: 0})
		if o.Kind != "tensor" {
			return c
		}
		g.tag("concat-tiling")
		// non-uniform weighting along the concatenated dimension
		w := g.leafDistinct(o.Dims, false, 0.5, 2)
		cw, _ := g.do(Cmd{Op: OpBin, K: 10, T: c, U: T(w)})
		r, _ := g.do(Cmd{Op: OpReshape, T: cw, Dims: append([]int{len(parts)}, ds...)})
		y, _ := g.do(Cmd{Op: OpAlong, K: 0, T: r, Z: 0})
		return y
	default:
		u := pool[g.intn(len(pool))]
		y, _ := g.do(Cmd{Op: OpBin, K: 6 + g.intn(2), T: x, U: T(u)}) // elmax / elmin (ties possible when x = u)
		if x == u {
			g.tag("elsel-tie")
		}
		return y
	}
}

func famDAG(g *Gen) {
	g.nontr = true
	ds := g.shape(0, 3, 3)
	nLeaves := 1 + g.intn(4)
	var pool []int
	for i := 0; i < nLeaves; i++ {
		pool = append(pool, g.leafDistinct(ds, g.chance(0.75), -1.5, 1.5))
	}
	expanding := g.chance(0.15)
	switch g.intn(6) {
	case 0:
		g.tag("diamond")
		x := pool[0]
		m, _ := g.do(Cmd{Op: OpScale, T: x, A: Dec{2, 0}})
		y, _ := g.do(Cmd{Op: OpBin, K: 8, T: m, U: T(m)})
		pool = append(pool, m, y)
	case 1:
		g.tag("ladder")
		a, b := pool[0], pool[len(pool)-1]
		for i := 0; i < 3+g.intn(4); i++ {
			na, _ := g.do(Cmd{Op: OpBin, K: 8, T: a, U: T(b)})
			nb, _ := g.do(Cmd{Op: OpBin, K: 10, T: a, U: T(b)})
			nb, _ = g.do(Cmd{Op: OpMath, K: 7, T: nb})
			a, b = na, nb
			pool = append(pool, a, b)
		}
	case 2:
		g.tag("fanout")
		x := pool[0]
		acc := x
		for i := 0; i < 2+g.intn(4); i++ {
			c, _ := g.do(Cmd{Op: OpMath, K: g.pick(2, 3, 7), T: x})
			acc, _ = g.do(Cmd{Op: OpBin, K: 8, T: acc, U: T(c)})
			pool = append(pool, c, acc)
		}
	default:
	}
	n := 2 + g.intn(12)
	for i := 0; i < n; i++ {
		y := g.dagStep(pool, expanding)
		if g.isT(y) {
			pool = append(pool, y)
		}
	}
	// back-propagate from one root (later tensors are more interesting), then optionally build
	// a second graph over the same leaves and back-propagate again
	root := pool[len(pool)-1-g.intn(min(3, len(pool)))]
	if g.chance(0.3) {
		// two graphs over the same leaves, BOTH built before any back-propagation, then back-propagated one after
		// the other: the contributions add up on the shared leaves (every gradient is read in between)
		g.tag("two-roots-built-before-backprop")
		poolB := append([]int{}, pool[:nLeaves]...)
		for i := 0; i < 1+g.intn(4); i++ {
			y := g.dagStep(poolB, false)
			if g.isT(y) {
				poolB = append(poolB, y)
			}
		}
		g.do(Cmd{Op: OpBackprop, U: T(root)})
		g.do(Cmd{Op: OpBackprop, U: T(poolB[len(poolB)-1])})
		if g.chance(0.5) {
			g.do(Cmd{Op: OpBackprop, U: T(pool[len(pool)-1-g.intn(min(3, len(pool)))])})
		}
		return
	}
	g.do(Cmd{Op: OpBackprop, U: T(root)})
	if g.chance(0.4) {
		g.tag("second-backprop-shared-leaves")
		pool2 := append([]int{}, pool[:nLeaves]...)
		for i := 0; i < 2+g.intn(5); i++ {
			y := g.dagStep(pool2, false)
			if g.isT(y) {
				pool2 = append(pool2, y)
			}
		}
		g.do(Cmd{Op: OpBackprop, U: T(pool2[len(pool2)-1])})
	} else if g.chance(0.5) {
		// the way a training loop continues: every leaf that received a gradient is replaced by
		// leaf - 0.1*gradient (computed from spent tensors), reset to a tracked leaf, and a second graph is
		// built over the replacements and back-propagated; the gradient tensors of the first pass are kept
		g.tag("update-reset-second-graph")
		var leaves2 []int
		for _, l := range pool[:nLeaves] {
			gr, o := g.do(Cmd{Op: OpGradOf, T: l})
			if o.Kind != "tensor" {
				leaves2 = append(leaves2, l)
				continue
			}
			d, _ := g.do(Cmd{Op: OpScale, T: gr, A: Dec{1, -1}})
			w, ow := g.do(Cmd{Op: OpBin, K: 9, T: l, U: T(d)})
			if ow.Kind != "tensor" {
				leaves2 = append(leaves2, l)
				continue
			}
			g.do(Cmd{Op: OpReset, T: w, Flag: true})
			leaves2 = append(leaves2, w)
		}
		pool3 := append([]int{}, leaves2...)
		for i := 0; i < 2+g.intn(5); i++ {
			y := g.dagStep(pool3, false)
			if g.isT(y) {
				pool3 = append(pool3, y)
			}
		}
		g.do(Cmd{Op: OpBackprop, U: T(pool3[len(pool3)-1])})
	}
}

// a deep chain of x_{i+1} = x_i + x_i: linear for a topological pass, exponential for a path walk
func famDeepChain(g *Gen) {
	g.nontr = true
	g.tag("doubling-chain")
	x := g.leafDistinct([]int{2}, true, 0.5, 1.5)
	depth := 40 + g.intn(80)
	for i := 0; i < depth; i++ {
		x, _ = g.do(Cmd{Op: OpBin, K: 8, T: x, U: T(x)})
	}
	g.do(Cmd{Op: OpBackprop, U: T(x)})
}

func min(a, b int) int {
	if a < b {
		return a
	}
	return b
}

// ---------------------------------------------------------------------------------------
// C08: tracking state machine.  The generator mirrors tracked/spent flags by the rule the
// property states, only in order to respect the provisos (a) and (b) of the property.

type mirror struct {
	tracked, spent, leaf map[int]bool
	parents              map[int][]int // back edges (only tracked results have them)
	operands             map[int][]int // everything the result was computed from
}

func (m *mirror) reach(root int) []int {
	var out []int
	seen := map[int]bool{}
	var visit func(int)
	visit = func(n int) {
		if !m.tracked[n] || seen[n] {
			return
		}
		seen[n] = true
		out = append(out, n)
		for _, p := range m.parents[n] {
			visit(p)
		}
	}
	visit(root)
	return out
}

// proviso (a): no back-propagation passes through a non-leaf tensor that an earlier one passed through
func (m *mirror) bpAllowed(root int) bool {
	for _, n := range m.reach(root) {
		if !m.leaf[n] && m.spent[n] {
			return false
		}
	}
	return true
}

// proviso (b): no tracked, not yet back-propagated result computed (directly or not) from x
func (m *mirror) resetAllowed(x int, all []int) bool {
	desc := map[int]bool{x: true}
	for _, n := range all { // creation order
		for _, p := range m.operands[n] {
			if desc[p] {
				desc[n] = true
			}
		}
	}
	for n := range desc {
		if n != x && m.tracked[n] && !m.spent[n] {
			return false
		}
	}
	return true
}

func famTracking(g *Gen) {
	g.nontr = true
	m := &mirror{tracked: map[int]bool{}, spent: map[int]bool{}, leaf: map[int]bool{}, parents: map[int][]int{}, operands: map[int][]int{}}
	ds := g.shape(0, 2, 2)
	var all []int
	isGrad := map[int]bool{}
	newLeaf := func() {
		tr := g.chance(0.6)
		x := g.leafDistinct(ds, tr, -1.5, 1.5)
		m.tracked[x], m.leaf[x] = tr, true
		all = append(all, x)
	}
	derive := func(y int, ok bool, diff bool, operands ...int) {
		if !ok {
			return
		}
		all = append(all, y)
		m.operands[y] = operands
		if !diff {
			return // comparison: untracked, not spent, no back edges
		}
		anySpent, anyTracked := false, false
		for _, p := range operands {
			anySpent = anySpent || m.spent[p]
			anyTracked = anyTracked || m.tracked[p]
		}
		if anySpent {
			m.spent[y] = true
		} else if anyTracked {
			m.tracked[y] = true
			m.parents[y] = operands
		}
	}
	for i := 0; i < 2; i++ {
		newLeaf()
	}
	if g.chance(0.3) {
		// forced pattern: a tensor computed from a spent tensor is reset (to tracked or to untracked) and then
		// combined with a fresh tracked leaf; the result must be tracked and reach both
		g.tag("forced-reset-of-spent-derived")
		w := g.leafDistinct(ds, true, -1.5, 1.5)
		m.tracked[w], m.leaf[w] = true, true
		all = append(all, w)
		y, o := g.do(Cmd{Op: OpScale, T: w, A: Dec{2, 0}})
		derive(y, o.Kind == "tensor", true, w)
		if o.Kind == "tensor" && m.bpAllowed(y) {
			g.do(Cmd{Op: OpBackprop, U: T(y)})
			for _, n := range m.reach(y) {
				m.spent[n] = true
			}
		}
		w2, o2 := g.do(Cmd{Op: OpScale, T: w, A: Dec{1, 0}})
		derive(w2, o2.Kind == "tensor", true, w)
		if o2.Kind == "tensor" && m.resetAllowed(w2, all) {
			tr := g.chance(0.5)
			g.do(Cmd{Op: OpReset, T: w2, Flag: tr})
			m.tracked[w2], m.spent[w2], m.leaf[w2], m.parents[w2] = tr, false, true, nil
			x := g.leafDistinct(ds, true, -1.5, 1.5)
			m.tracked[x], m.leaf[x] = true, true
			all = append(all, x)
			z, o3 := g.do(Cmd{Op: OpBin, K: 10, T: x, U: T(w2)})
			derive(z, o3.Kind == "tensor", true, x, w2)
			if o3.Kind == "tensor" && m.bpAllowed(z) {
				g.do(Cmd{Op: OpBackprop, U: T(z)})
				for _, n := range m.reach(z) {
					m.spent[n] = true
				}
			}
		}
	}
	steps := 8 + g.intn(30)
	for i := 0; i < steps; i++ {
		x := all[g.intn(len(all))]
		u := all[g.intn(len(all))]
		switch g.intn(12) {
		case 0:
			newLeaf()
		case 1:
			y, o := g.do(Cmd{Op: OpMath, K: g.intn(8), T: x})
			derive(y, o.Kind == "tensor", true, x)
		case 2:
			// every other one-operand method (same shape in, same shape out where possible)
			var y int
			var o Obs
			switch g.intn(8) {
			case 0:
				y, o = g.do(Cmd{Op: OpPow, T: x, A: Dec{int64(g.pick(0, 0, 1, 2, 3)), 0}})
				g.tag("pow")
			case 1:
				y, o = g.do(Cmd{Op: OpScale, T: x, A: Dec{int64(g.pick(0, 1, -1, 2)), 0}})
			case 2:
				y, o = g.do(Cmd{Op: OpSlice, T: x, Ranges: nil})
			case 3:
				y, o = g.do(Cmd{Op: OpReshape, T: x, Dims: ds})
			case 4:
				y, o = g.do(Cmd{Op: OpBroadcast, T: x, Dims: ds})
			case 5:
				y, o = g.do(Cmd{Op: OpUnsqueeze, T: x, Z: 0})
				if o.Kind == "tensor" {
					derive(y, true, true, x)
					x = y
					y, o = g.do(Cmd{Op: g.pick(OpSqueeze, OpAlong), K: g.intn(7), T: x, Z: 0})
				}
			case 6:
				if len(ds) >= 2 && ds[len(ds)-1] == ds[len(ds)-2] {
					y, o = g.do(Cmd{Op: OpTranspose, T: x})
				} else {
					y, o = g.do(Cmd{Op: OpFlatten, T: x, Z: 0})
					if o.Kind == "tensor" {
						derive(y, true, true, x)
						x = y
						y, o = g.do(Cmd{Op: OpReshape, T: x, Dims: ds})
					}
				}
			default:
				p := g.leafDistinct(ds, g.chance(0.5), -1, 1)
				m.tracked[p], m.leaf[p] = g.Cmds[p].Flag, true
				all = append(all, p)
				y, o = g.do(Cmd{Op: OpPatch, T: x, Ranges: nil, U: T(p)})
				derive(y, o.Kind == "tensor", true, x, p)
				continue
			}
			derive(y, o.Kind == "tensor", true, x)
		case 3, 4:
			y, o := g.do(Cmd{Op: OpBin, K: g.pick(8, 9, 10, 11, 6, 7), T: x, U: T(u)})
			derive(y, o.Kind == "tensor", true, x, u)
		case 5:
			// Dot / MatMul when the common shape allows it
			if len(ds) >= 1 {
				y, o := g.do(Cmd{Op: OpDot, T: x, U: T(u)})
				if o.Kind == "tensor" {
					derive(y, true, true, x, u)
					// back to the common shape
					if len(g.shapeOf(y)) < len(ds) {
						z, o2 := g.do(Cmd{Op: OpUnsqueeze, T: y, Z: len(ds) - 1})
						derive(z, o2.Kind == "tensor", true, y)
						if o2.Kind == "tensor" {
							z2, o3 := g.do(Cmd{Op: OpBroadcast, T: z, Dims: ds})
							derive(z2, o3.Kind == "tensor", true, z)
						}
					}
				}
			}
		case 6:
			y, o := g.do(Cmd{Op: OpBin, K: g.intn(6), T: x, U: T(u)})
			derive(y, o.Kind == "tensor", false, x, u)
			g.tag("comparison")
		case 7:
			if len(ds) > 0 {
				w := all[g.intn(len(all))]
				y, o := g.do(Cmd{Op: OpConcat, Targs: []Targ{T(x), T(u), T(w)}, Z: 0})
				if o.Kind == "tensor" {
					// bring it back to the common shape
					back := make([][2]int, len(ds))
					back[0] = [2]int{0, ds[0]}
					derive(y, true, true, x, u, w)
					z, o2 := g.do(Cmd{Op: OpSlice, T: y, Ranges: back})
					derive(z, o2.Kind == "tensor", true, y)
					g.tag("n-ary")
				}
			}
		case 8, 9:
			if m.bpAllowed(x) {
				g.do(Cmd{Op: OpBackprop, U: T(x)})
				for _, n := range m.reach(x) {
					m.spent[n] = true
				}
				g.tag("backprop")
				if !m.tracked[x] {
					g.tag("backprop-untracked-root")
				}
			}
		case 10:
			// a tensor returned by Gradient() is not reset: repeated Gradient() calls return the SAME object, which the
			// model represents by separate nodes (resetting one would show on the other; not a defect of the library)
			if !isGrad[x] && m.resetAllowed(x, all) {
				tr := g.chance(0.5)
				g.do(Cmd{Op: OpReset, T: x, Flag: tr})
				m.tracked[x], m.spent[x], m.leaf[x], m.parents[x] = tr, false, true, nil
				g.tag("reset")
			}
		default:
			y, o := g.do(Cmd{Op: OpGradOf, T: x})
			if o.Kind == "tensor" {
				// gradient tensors are spent and untracked
				m.parents[y], m.tracked[y], m.spent[y], m.leaf[y] = nil, false, true, true
				isGrad[y] = true
				all = append(all, y)
				g.tag("gradient-tensor-used")
			}
		}
	}
	// probing phase: back-propagate from every tensor in a fixed order where the provisos allow
	for _, x := range all {
		if g.isT(x) && m.bpAllowed(x) {
			g.do(Cmd{Op: OpBackprop, U: T(x)})
			for _, n := range m.reach(x) {
				m.spent[n] = true
			}
		}
	}
}

var _ = fmt.Sprint
