package main

// Generator helpers.  Generation is interleaved with execution on the real library, so that
// each next command can be chosen from the actual shapes of the tensors created so far.

import (
	"fmt"
	"math"

	"github.com/sahandsafizadeh/qeep/component/losses"
	"github.com/sahandsafizadeh/qeep/tensor"
	xrand "golang.org/x/exp/rand"
)

func (g *Gen) intn(n int) int { return g.rng.Intn(n) }
func (g *Gen) chance(p float64) bool { return g.rng.Float64() < p }
func (g *Gen) pick(xs ...int) int { return xs[g.intn(len(xs))] }

// value pools
func (g *Gen) valGeneral() float64 {
	switch g.intn(12) {
	case 0:
		return 0
	case 1:
		return 1
	case 2:
		return -1
	case 3:
		return math.Copysign(0, -1)
	case 4:
		return float64(g.intn(7)-3) * 0.5
	}
	return math.Round((g.rng.Float64()*6-3)*1000) / 1000
}

// distinct values per position (so that a permuted mapping is visible)
func (g *Gen) valsDistinct(n int, lo, hi float64) []float64 {
	seen := map[float64]bool{}
	out := make([]float64, 0, n)
	scale := 1000.0
	for float64(n)*4 > (hi-lo)*scale {
		scale *= 10 // enough distinct grid points for long tensors
	}
	for len(out) < n {
		v := math.Round((lo+g.rng.Float64()*(hi-lo))*scale) / scale
		if seen[v] {
			continue
		}
		seen[v] = true
		out = append(out, v)
	}
	return out
}

func (g *Gen) valsGeneral(n int) []float64 {
	out := make([]float64, n)
	for i := range out {
		out[i] = g.valGeneral()
	}
	return out
}

func (g *Gen) shape(minRank, maxRank, maxSize int) []int {
	r := minRank + g.intn(maxRank-minRank+1)
	ds := make([]int, r)
	for i := range ds {
		ds[i] = 1 + g.intn(maxSize)
		if g.chance(0.05) {
			ds[i] = g.pick(4, 5)
		}
	}
	// keep tensors small
	for prod(ds) > 96 {
		ds[g.intn(len(ds))] = 1
	}
	return ds
}

func (g *Gen) leafVals(ds []int, vals []float64, tracked bool) int {
	g.Do(Cmd{Op: OpLeaf, Dims: ds, Vals: vals, Flag: tracked})
	return len(g.Cmds) - 1
}
func (g *Gen) leaf(ds []int, tracked bool) int { return g.leafVals(ds, g.valsGeneral(prod(ds)), tracked) }
func (g *Gen) leafDistinct(ds []int, tracked bool, lo, hi float64) int {
	return g.leafVals(ds, g.valsDistinct(prod(ds), lo, hi), tracked)
}

func (g *Gen) do(c Cmd) (int, Obs) { o := g.Do(c); return len(g.Cmds) - 1, o }

func (g *Gen) isT(i int) bool { return i >= 0 && i < len(g.env) && g.env[i].kind == "tensor" }
func (g *Gen) shapeOf(i int) []int { return g.env[i].t.Shape() }

func (g *Gen) tensors() []int {
	var o []int
	for i := range g.env {
		if g.env[i].kind == "tensor" {
			o = append(o, i)
		}
	}
	return o
}

// a shape that src broadcasts to
func (g *Gen) bcastTarget(src []int) []int {
	extra := g.intn(3)
	out := make([]int, 0, len(src)+extra)
	for i := 0; i < extra; i++ {
		out = append(out, 1+g.intn(3))
	}
	for _, d := range src {
		if d == 1 && g.chance(0.6) {
			out = append(out, 1+g.intn(3))
		} else {
			out = append(out, d)
		}
	}
	return out
}

// a shape broadcast-compatible with s (either may be the smaller one)
func (g *Gen) bcastPartner(s []int) []int {
	// start from s, randomly set dims to 1 or drop leading dims, or add leading dims
	out := append([]int{}, s...)
	for i := range out {
		switch g.intn(4) {
		case 0:
			out[i] = 1
		case 1:
			if out[i] == 1 {
				out[i] = 1 + g.intn(3)
			}
		}
	}
	switch g.intn(3) {
	case 0:
		k := g.intn(len(out) + 1)
		out = out[k:]
	case 1:
		lead := []int{}
		for i := 0; i < g.intn(3); i++ {
			lead = append(lead, 1+g.intn(3))
		}
		out = append(lead, out...)
	}
	return out
}

func smallDec(g *Gen) Dec {
	switch g.intn(8) {
	case 0:
		return Dec{0, 0}
	case 1:
		return Dec{1, 0}
	case 2:
		return Dec{-1, 0}
	case 3:
		return Dec{2, 0}
	case 4:
		return Dec{5, -1}
	case 5:
		return Dec{-15, -1}
	case 6:
		return Dec{3, 0}
	}
	return Dec{int64(g.intn(4001) - 2000), -3}
}

// random ranges for Slice on a shape: explicit, omitted (short index) and {0,0} mixed
func (g *Gen) sliceIndex(ds []int) [][2]int {
	n := g.intn(len(ds) + 1)
	idx := make([][2]int, n)
	for i := 0; i < n; i++ {
		switch g.intn(4) {
		case 0:
			idx[i] = [2]int{0, 0}
		case 1:
			idx[i] = [2]int{0, ds[i]}
		default:
			f := g.intn(ds[i])
			t := f + 1 + g.intn(ds[i]-f)
			idx[i] = [2]int{f, t}
		}
	}
	return idx
}

// a source shape and index for Patch into target shape ds
func (g *Gen) patchArgs(ds []int) (src []int, idx [][2]int) {
	src = make([]int, len(ds))
	n := g.intn(len(ds) + 1)
	idx = make([][2]int, n)
	for i := range ds {
		if i < n && !g.chance(0.25) {
			f := g.intn(ds[i])
			t := f + 1 + g.intn(ds[i]-f)
			idx[i] = [2]int{f, t}
			src[i] = t - f
		} else {
			if i < n {
				idx[i] = [2]int{0, 0}
			}
			src[i] = 1 + g.intn(ds[i]) // written at offset 0
		}
	}
	return
}

// occasionally a tensor large enough to cross typical "fast path" thresholds (64, 256, 1024, 4096 elements)
func (g *Gen) shapeBig() []int {
	switch g.intn(6) {
	case 0:
		return []int{32, 33}
	case 1:
		return []int{1025, 2}
	case 2:
		return []int{2, 1030}
	case 3:
		return []int{4, 4, 4, 4, 5}
	case 4:
		return []int{9, 8}
	}
	return []int{70}
}

// values with a large common offset relative to their spread (cancellation-prone)
func (g *Gen) valsOffset(n int) []float64 {
	base := []float64{1e8, -7e9, 4e10, 2e8, 1e6}[g.intn(5)]
	out := make([]float64, n)
	for i := range out {
		out[i] = base + float64(g.intn(9))
	}
	return out
}

// every fibre along the last dimension at its own large offset (columns of a feature table: a ratio, a temperature,
// a timestamp): the spread statistics of a fibre do not depend on where the OTHER fibres sit
func (g *Gen) valsFibreOffsets(ds []int) []float64 {
	n := prod(ds)
	out := make([]float64, n)
	last := 1
	if len(ds) > 0 {
		last = ds[len(ds)-1]
	}
	offs := []float64{0.5, 273, 1.7e9, 52000, -3e6, 8e11}
	for i := range out {
		out[i] = offs[(i%last)%len(offs)] + float64(g.intn(200))*0.5
	}
	return out
}

// directVar checks Var/Std (whole tensor: dim < 0, or along dim) of tensor a against the defining two-pass
// formula evaluated here (the specification the model is proved equal to), for tensors too large for the
// model's expression trees.
func (g *Gen) directVar(a int, std bool, dim int) {
	t := g.env[a].t
	ds, vals := readTensor(t)
	spec := func(xs []float64) float64 {
		n := float64(len(xs))
		s := 0.
		for _, x := range xs {
			s = s + x
		}
		mean := s / n
		q := 0.
		for _, x := range xs {
			q = q + math.Pow(x-mean, 2)
		}
		v := 0.
		if n > 1 {
			v = q / (n - 1)
		}
		if std {
			return math.Sqrt(v)
		}
		return v
	}
	name := "Var"
	if std {
		name = "Std"
	}
	ev := &evaluator{}
	if dim < 0 {
		var got float64
		if std {
			got = t.Std()
		} else {
			got = t.Var()
		}
		if exp := spec(vals); !ev.same(got, exp, false) {
			g.directs = append(g.directs, Mismatch{Cmd: a, What: name + "() of a large tensor differs from the two-pass definition",
				Observed: fmt.Sprint(got), Expected: fmt.Sprint(exp)})
		}
		g.tag("direct-" + name)
		return
	}
	var r interface {
		Shape() []int
		At(...int) (float64, error)
	}
	var err error
	if std {
		r, err = t.StdAlong(dim)
	} else {
		r, err = t.VarAlong(dim)
	}
	if err != nil {
		g.directs = append(g.directs, Mismatch{Cmd: a, What: name + "Along returned an error on a valid dim", Observed: err.Error()})
		return
	}
	// strides
	inner := 1
	for i := dim + 1; i < len(ds); i++ {
		inner *= ds[i]
	}
	outer := prod(ds) / (inner * ds[dim])
	rs := r.Shape()
	idx := make([]int, len(rs))
	for o := 0; o < outer; o++ {
		for in := 0; in < inner; in++ {
			fib := make([]float64, ds[dim])
			for k := 0; k < ds[dim]; k++ {
				fib[k] = vals[(o*ds[dim]+k)*inner+in]
			}
			// multi-index of (o, in) in the result shape
			pos := o*inner + in
			for i := len(rs) - 1; i >= 0; i-- {
				idx[i] = pos % rs[i]
				pos /= rs[i]
			}
			got, _ := r.At(idx...)
			if exp := spec(fib); !ev.same(got, exp, false) {
				g.directs = append(g.directs, Mismatch{Cmd: a, What: fmt.Sprintf("%sAlong(%d) of a large tensor differs from the two-pass definition at %v", name, dim, idx),
					Observed: fmt.Sprint(got), Expected: fmt.Sprint(exp)})
				return
			}
		}
	}
	g.tag("direct-" + name + "Along")
}


// ---------------------------------------------------------------------------------------------
// Direct specification oracles for tensors too large for the model's expression trees (the extracted
// model computes with unary naturals).  Each compares the real library with the specification the model
// is PROVED equal to (Properties/C05.v: left folds over the row-major sequence; C12: the MSE formula;
// C18: element k is the affine image of draw k of the global source), evaluated here with the same
// float operations in the same order.  Tensors used here are not part of the scenario's command list.

func specReduce(k int, xs []float64) float64 {
	switch k {
	case 0: // sum
		s := 0.
		for _, x := range xs {
			s = s + x
		}
		return s
	case 1: // max
		m := math.Inf(-1)
		for _, x := range xs {
			if m > x {
			} else {
				m = x
			}
		}
		return m
	case 2: // min
		m := math.Inf(1)
		for _, x := range xs {
			if m < x {
			} else {
				m = x
			}
		}
		return m
	case 3, 6: // avg, mean
		return specReduce(0, xs) / float64(len(xs))
	case 4, 5: // var, std
		mean := specReduce(3, xs)
		q := 0.
		for _, x := range xs {
			q = q + math.Pow(x-mean, 2)
		}
		v := 0.
		if float64(len(xs)) > 1 {
			v = q / (float64(len(xs)) - 1)
		}
		if k == 5 {
			return math.Sqrt(v)
		}
		return v
	}
	panic("specReduce")
}

// directReduceBig builds a fresh large tensor outside the scenario and checks all seven reducers, whole and
// along every dimension, against specReduce.
func (g *Gen) directReduceBig(ds []int, vals []float64) {
	t := makeLeaf(ds, vals, false)
	ev := &evaluator{}
	whole := []func() float64{t.Sum, t.Max, t.Min, t.Avg, t.Var, t.Std, t.Mean}
	for k, f := range whole {
		if got, exp := f(), specReduce(k, vals); !ev.same(got, exp, false) {
			g.directs = append(g.directs, Mismatch{Cmd: -1, What: fmt.Sprintf("%s() of a tensor of shape %v differs from the left fold over the row-major sequence", redNames[k], ds),
				Observed: fmt.Sprint(got), Expected: fmt.Sprint(exp)})
			return
		}
	}
	type alongF func(int) (tensor.Tensor, error)
	along := []alongF{t.SumAlong, t.MaxAlong, t.MinAlong, t.AvgAlong, t.VarAlong, t.StdAlong, t.MeanAlong}
	for dim := range ds {
		inner := 1
		for i := dim + 1; i < len(ds); i++ {
			inner *= ds[i]
		}
		outer := prod(ds) / (inner * ds[dim])
		for k, f := range along {
			r, err := f(dim)
			if err != nil {
				g.directs = append(g.directs, Mismatch{Cmd: -1, What: fmt.Sprintf("%sAlong(%d) on shape %v returned an error", redNames[k], dim, ds), Observed: err.Error()})
				return
			}
			_, rv := readTensor(r)
			if len(rv) != outer*inner {
				g.directs = append(g.directs, Mismatch{Cmd: -1, What: fmt.Sprintf("%sAlong(%d) on shape %v has %d elements", redNames[k], dim, ds, len(rv)), Expected: fmt.Sprint(outer * inner)})
				return
			}
			fib := make([]float64, ds[dim])
			for o := 0; o < outer; o++ {
				for in := 0; in < inner; in++ {
					for j := 0; j < ds[dim]; j++ {
						fib[j] = vals[(o*ds[dim]+j)*inner+in]
					}
					if got, exp := rv[o*inner+in], specReduce(k, fib); !ev.same(got, exp, false) {
						g.directs = append(g.directs, Mismatch{Cmd: -1, What: fmt.Sprintf("%sAlong(%d) on shape %v differs from the fold over the fibre at flat position %d", redNames[k], dim, ds, o*inner+in),
							Observed: fmt.Sprint(got), Expected: fmt.Sprint(exp)})
						return
					}
				}
			}
		}
	}
	g.tag("direct-big-reduce")
}

// directMSEBig: MSE over a batch too large for the model: mean over the batch of (t - p)^2, summed in order
func (g *Gen) directMSEBig(n int) {
	pv, tv := g.probVals(n, true), g.probVals(n, true)
	p, t := makeLeaf([]int{n}, pv, false), makeLeaf([]int{n}, tv, false)
	l, err := losses.NewMSE().Compute(p, t)
	if err != nil {
		g.directs = append(g.directs, Mismatch{Cmd: -1, What: fmt.Sprintf("MSE on a batch of %d returned an error", n), Observed: err.Error()})
		return
	}
	s := 0.
	for i := range pv {
		s = s + math.Pow(tv[i]-pv[i], 2)
	}
	exp := s / float64(n)
	_, lv := readTensor(l)
	if len(lv) != 1 || !(&evaluator{}).same(lv[0], exp, false) {
		g.directs = append(g.directs, Mismatch{Cmd: -1, What: fmt.Sprintf("MSE on a batch of %d differs from mean((t-p)^2)", n), Observed: fmt.Sprint(lv), Expected: fmt.Sprint(exp)})
	}
	g.tag("direct-big-mse")
}

// directInitBig: a large random tensor; element k (row-major) must be the affine image of draw k of the global
// source.  Self-contained: reseeds the source before the call and again before replaying the raw draws; must be
// the LAST thing a scenario does (Runner.Finish replays the scenario's own draws from its own seed).
func (g *Gen) directInitBig(ds []int) {
	seed := uint64(g.rng.Int63())
	normal := g.chance(0.5)
	a, b := -0.5+g.rng.Float64(), 0.25+g.rng.Float64()
	xrand.Seed(seed)
	var t tensor.Tensor
	var err error
	if normal {
		t, err = tensor.RandN(ds, a, b, &tensor.Config{Device: tensor.CPU})
	} else {
		t, err = tensor.RandU(ds, a, a+b, &tensor.Config{Device: tensor.CPU})
	}
	if err != nil {
		g.directs = append(g.directs, Mismatch{Cmd: -1, What: fmt.Sprintf("random constructor on shape %v returned an error", ds), Observed: err.Error()})
		return
	}
	_, vals := readTensor(t)
	xrand.Seed(seed)
	for k := range vals {
		var exp float64
		if normal {
			exp = xrand.NormFloat64()*b + a
		} else {
			exp = xrand.Float64()*((a+b)-a) + a
		}
		if vals[k] != exp {
			g.directs = append(g.directs, Mismatch{Cmd: -1, What: fmt.Sprintf("element %d of a random tensor of shape %v (normal=%v) is not the affine image of draw %d of the global source", k, ds, normal, k),
				Observed: fmt.Sprint(vals[k]), Expected: fmt.Sprint(exp)})
			return
		}
	}
	g.tag("direct-big-init")
}


// reprobe: at the end of every scenario, look again at tensors created earlier (shape, element count and a full
// copy through Slice(nil)).  An operation that changed an existing tensor behind the caller's back (an aliased
// dims slice written in place, a memo carried over to a copy, ...) shows up here as a difference from the model,
// in which values are immutable.
func (g *Gen) reprobe() {
	ts := g.tensors()
	if len(ts) == 0 {
		return
	}
	budget := 10
	// later commands may panic on a corrupted tensor: that is an observation too (recover() in the runner)
	for len(ts) > 0 && budget > 0 {
		k := g.intn(len(ts))
		i := ts[k]
		ts = append(ts[:k], ts[k+1:]...)
		if prod(g.shapeSafe(i)) > 400 {
			continue
		}
		budget--
		g.do(Cmd{Op: OpShape, T: i})
		g.do(Cmd{Op: OpSlice, T: i, Ranges: nil})
	}
	g.tag("reprobe")
}

func (g *Gen) shapeSafe(i int) (ds []int) {
	defer func() {
		if recover() != nil {
			ds = nil
		}
	}()
	return g.env[i].t.Shape()
}

// interfere: use x as an operand of a few other operations first (results discarded).  A later operation on x
// must not be affected by what was done with x before (memoised values, dims slices written in place by a
// shape helper, cached rows, ...): in the model x is an immutable value.
func (g *Gen) interfere(x int) {
	if !g.isT(x) {
		return
	}
	n := 1 + g.intn(3)
	for i := 0; i < n; i++ {
		ds := g.shapeSafe(x)
		r := len(ds)
		switch g.intn(9) {
		case 0, 1:
			if r >= 2 && prod(ds) <= 200 {
				// right operand of lower or equal rank whose batch dims are covered by x's; k <= n (<= m often)
				nn := ds[r-1]
				k := 1 + g.intn(nn)
				rb := g.intn(r - 1) // number of batch dims of the right operand
				ws := append([]int{}, ds[r-2-rb:r-2]...)
				for j := range ws {
					if g.chance(0.3) {
						ws[j] = 1
					}
				}
				ws = append(ws, nn, k)
				w := g.leafDistinct(ws, false, -1, 1)
				g.do(Cmd{Op: OpMatMul, T: x, U: T(w)})
				g.tag("interfere-matmul")
			} else if r >= 1 {
				v := g.leafDistinct([]int{ds[r-1]}, false, -1, 1)
				g.do(Cmd{Op: OpDot, T: x, U: T(v)})
			}
		case 2:
			if r >= 2 {
				g.do(Cmd{Op: OpTranspose, T: x})
			}
		case 3:
			if r >= 1 {
				g.do(Cmd{Op: OpAlong, K: g.intn(7), T: x, Z: g.intn(r)})
			}
		case 4:
			g.do(Cmd{Op: OpReduce, K: g.intn(7), T: x})
		case 5:
			g.do(Cmd{Op: OpUnsqueeze, T: x, Z: g.intn(r + 1)})
			if r >= 1 {
				g.do(Cmd{Op: OpFlatten, T: x, Z: g.intn(r)})
			}
		case 6:
			if prod(ds) <= 100 {
				g.do(Cmd{Op: OpBroadcast, T: x, Dims: g.bcastTarget(ds)})
			}
		case 7:
			if r >= 1 {
				src, pidx := g.patchArgs(ds)
				p := g.leafDistinct(src, false, 30, 40)
				g.do(Cmd{Op: OpPatch, T: x, Ranges: pidx, U: T(p)})
			}
		default:
			g.do(Cmd{Op: OpBin, K: 8 + g.intn(4), T: x, U: T(x)})
		}
	}
	g.tag("interference-prefix")
}
