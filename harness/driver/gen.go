package main

// Generator helpers.  Generation is interleaved with execution on the real library, so that
// each next command can be chosen from the actual shapes of the tensors created so far.

import (
	"fmt"
	"math"
)

func (g *Gen) intn(n int) int { return g.rng.Intn(n) }
func (g *Gen) chance(p float64) bool { return g.rng.Float64() < p }
func (g *Gen) pick(xs ...int) int { return xs[g.intn(len(xs))] }

// value pools
func (g *Gen) valGeneral() float64 {
	switch g.intn(12) {
	case 0:
		return 0
	case 1:
		return 1
	case 2:
		return -1
	case 3:
		return math.Copysign(0, -1)
	case 4:
		return float64(g.intn(7)-3) * 0.5
	}
	return math.Round((g.rng.Float64()*6-3)*1000) / 1000
}

// distinct values per position (so that a permuted mapping is visible)
func (g *Gen) valsDistinct(n int, lo, hi float64) []float64 {
	seen := map[float64]bool{}
	out := make([]float64, 0, n)
	for len(out) < n {
		v := math.Round((lo+g.rng.Float64()*(hi-lo))*1000) / 1000
		if seen[v] {
			continue
		}
		seen[v] = true
		out = append(out, v)
	}
	return out
}

func (g *Gen) valsGeneral(n int) []float64 {
	out := make([]float64, n)
	for i := range out {
		out[i] = g.valGeneral()
	}
	return out
}

func (g *Gen) shape(minRank, maxRank, maxSize int) []int {
	r := minRank + g.intn(maxRank-minRank+1)
	ds := make([]int, r)
	for i := range ds {
		ds[i] = 1 + g.intn(maxSize)
		if g.chance(0.05) {
			ds[i] = g.pick(4, 5)
		}
	}
	// keep tensors small
	for prod(ds) > 96 {
		ds[g.intn(len(ds))] = 1
	}
	return ds
}

func (g *Gen) leafVals(ds []int, vals []float64, tracked bool) int {
	g.Do(Cmd{Op: OpLeaf, Dims: ds, Vals: vals, Flag: tracked})
	return len(g.Cmds) - 1
}
func (g *Gen) leaf(ds []int, tracked bool) int { return g.leafVals(ds, g.valsGeneral(prod(ds)), tracked) }
func (g *Gen) leafDistinct(ds []int, tracked bool, lo, hi float64) int {
	return g.leafVals(ds, g.valsDistinct(prod(ds), lo, hi), tracked)
}

func (g *Gen) do(c Cmd) (int, Obs) { o := g.Do(c); return len(g.Cmds) - 1, o }

func (g *Gen) isT(i int) bool { return i >= 0 && i < len(g.env) && g.env[i].kind == "tensor" }
func (g *Gen) shapeOf(i int) []int { return g.env[i].t.Shape() }

func (g *Gen) tensors() []int {
	var o []int
	for i := range g.env {
		if g.env[i].kind == "tensor" {
			o = append(o, i)
		}
	}
	return o
}

// a shape that src broadcasts to
func (g *Gen) bcastTarget(src []int) []int {
	extra := g.intn(3)
	out := make([]int, 0, len(src)+extra)
	for i := 0; i < extra; i++ {
		out = append(out, 1+g.intn(3))
	}
	for _, d := range src {
		if d == 1 && g.chance(0.6) {
			out = append(out, 1+g.intn(3))
		} else {
			out = append(out, d)
		}
	}
	return out
}

// a shape broadcast-compatible with s (either may be the smaller one)
func (g *Gen) bcastPartner(s []int) []int {
	// start from s, randomly set dims to 1 or drop leading dims, or add leading dims
	out := append([]int{}, s...)
	for i := range out {
		switch g.intn(4) {
		case 0:
			out[i] = 1
		case 1:
			if out[i] == 1 {
				out[i] = 1 + g.intn(3)
			}
		}
	}
	switch g.intn(3) {
	case 0:
		k := g.intn(len(out) + 1)
		out = out[k:]
	case 1:
		lead := []int{}
		for i := 0; i < g.intn(3); i++ {
			lead = append(lead, 1+g.intn(3))
		}
		out = append(lead, out...)
	}
	return out
}

func smallDec(g *Gen) Dec {
	switch g.intn(8) {
	case 0:
		return Dec{0, 0}
	case 1:
		return Dec{1, 0}
	case 2:
		return Dec{-1, 0}
	case 3:
		return Dec{2, 0}
	case 4:
		return Dec{5, -1}
	case 5:
		return Dec{-15, -1}
	case 6:
		return Dec{3, 0}
	}
	return Dec{int64(g.intn(4001) - 2000), -3}
}

// random ranges for Slice on a shape: explicit, omitted (short index) and {0,0} mixed
func (g *Gen) sliceIndex(ds []int) [][2]int {
	n := g.intn(len(ds) + 1)
	idx := make([][2]int, n)
	for i := 0; i < n; i++ {
		switch g.intn(4) {
		case 0:
			idx[i] = [2]int{0, 0}
		case 1:
			idx[i] = [2]int{0, ds[i]}
		default:
			f := g.intn(ds[i])
			t := f + 1 + g.intn(ds[i]-f)
			idx[i] = [2]int{f, t}
		}
	}
	return idx
}

// a source shape and index for Patch into target shape ds
func (g *Gen) patchArgs(ds []int) (src []int, idx [][2]int) {
	src = make([]int, len(ds))
	n := g.intn(len(ds) + 1)
	idx = make([][2]int, n)
	for i := range ds {
		if i < n && !g.chance(0.25) {
			f := g.intn(ds[i])
			t := f + 1 + g.intn(ds[i]-f)
			idx[i] = [2]int{f, t}
			src[i] = t - f
		} else {
			if i < n {
				idx[i] = [2]int{0, 0}
			}
			src[i] = 1 + g.intn(ds[i]) // written at offset 0
		}
	}
	return
}

// occasionally a tensor large enough to cross typical "fast path" thresholds (64, 256, 1024, 4096 elements)
func (g *Gen) shapeBig() []int {
	switch g.intn(6) {
	case 0:
		return []int{32, 33}
	case 1:
		return []int{1025, 2}
	case 2:
		return []int{2, 1030}
	case 3:
		return []int{4, 4, 4, 4, 5}
	case 4:
		return []int{9, 8}
	}
	return []int{70}
}

// values with a large common offset relative to their spread (cancellation-prone)
func (g *Gen) valsOffset(n int) []float64 {
	base := []float64{1e8, -7e9, 4e10, 2e8, 1e6}[g.intn(5)]
	out := make([]float64, n)
	for i := range out {
		out[i] = base + float64(g.intn(9))
	}
	return out
}

// directVar checks Var/Std (whole tensor: dim < 0, or along dim) of tensor a against the defining two-pass
// formula evaluated here (the specification the model is proved equal to), for tensors too large for the
// model's expression trees.
func (g *Gen) directVar(a int, std bool, dim int) {
	t := g.env[a].t
	ds, vals := readTensor(t)
	spec := func(xs []float64) float64 {
		n := float64(len(xs))
		s := 0.
		for _, x := range xs {
			s = s + x
		}
		mean := s / n
		q := 0.
		for _, x := range xs {
			q = q + math.Pow(x-mean, 2)
		}
		v := 0.
		if n > 1 {
			v = q / (n - 1)
		}
		if std {
			return math.Sqrt(v)
		}
		return v
	}
	name := "Var"
	if std {
		name = "Std"
	}
	ev := &evaluator{}
	if dim < 0 {
		var got float64
		if std {
			got = t.Std()
		} else {
			got = t.Var()
		}
		if exp := spec(vals); !ev.same(got, exp, false) {
			g.directs = append(g.directs, Mismatch{Cmd: a, What: name + "() of a large tensor differs from the two-pass definition",
				Observed: fmt.Sprint(got), Expected: fmt.Sprint(exp)})
		}
		g.tag("direct-" + name)
		return
	}
	var r interface {
		Shape() []int
		At(...int) (float64, error)
	}
	var err error
	if std {
		r, err = t.StdAlong(dim)
	} else {
		r, err = t.VarAlong(dim)
	}
	if err != nil {
		g.directs = append(g.directs, Mismatch{Cmd: a, What: name + "Along returned an error on a valid dim", Observed: err.Error()})
		return
	}
	// strides
	inner := 1
	for i := dim + 1; i < len(ds); i++ {
		inner *= ds[i]
	}
	outer := prod(ds) / (inner * ds[dim])
	rs := r.Shape()
	idx := make([]int, len(rs))
	for o := 0; o < outer; o++ {
		for in := 0; in < inner; in++ {
			fib := make([]float64, ds[dim])
			for k := 0; k < ds[dim]; k++ {
				fib[k] = vals[(o*ds[dim]+k)*inner+in]
			}
			// multi-index of (o, in) in the result shape
			pos := o*inner + in
			for i := len(rs) - 1; i >= 0; i-- {
				idx[i] = pos % rs[i]
				pos /= rs[i]
			}
			got, _ := r.At(idx...)
			if exp := spec(fib); !ev.same(got, exp, false) {
				g.directs = append(g.directs, Mismatch{Cmd: a, What: fmt.Sprintf("%sAlong(%d) of a large tensor differs from the two-pass definition at %v", name, dim, idx),
					Observed: fmt.Sprint(got), Expected: fmt.Sprint(exp)})
				return
			}
		}
	}
	g.tag("direct-" + name + "Along")
}
