package main

// Scenario language shared with the Coq model (coq/Corr/Codec.v, coq/Model/Scenario.v).
// A command is encoded as a list of integers; the opcode numbering and the layout of every
// command must match pCmd in Codec.v.

import (
	"fmt"
	"strconv"
	"strings"
)

type Dec struct{ M, E int64 }

func (d Dec) F() float64 {
	f, err := strconv.ParseFloat(fmt.Sprintf("%de%d", d.M, d.E), 64)
	if err != nil {
		panic(err)
	}
	return f
}
func (d Dec) String() string { return fmt.Sprintf("%de%d", d.M, d.E) }

type Cfg struct {
	Dev   int
	Track bool
}

type Targ = *int // nil = a nil tensor

func T(i int) Targ { return &i }

type Nd struct {
	Leaf bool
	K    int // index of the value
	Kids []*Nd
}

type InitSpec struct {
	Kind   int // 0 full 1 uniform 2 normal 3 heU 4 heN 5 xavU 6 xavN
	Nil    bool
	D1, D2 Dec
	Z1, Z2 int
}

// optional map entry of FCConfig.Initializers: Absent, or present with a nil / non-nil value
type OptInit struct {
	Absent bool
	NilVal bool
	Spec   InitSpec
}

const (
	OpLeaf = iota
	OpCtor
	OpEye
	OpRandU
	OpRandN
	OpTensorOf
	OpScale
	OpPow
	OpMath
	OpBin
	OpEquals
	OpTranspose
	OpReshape
	OpBroadcast
	OpUnsqueeze
	OpSqueeze
	OpFlatten
	OpAlong
	OpReduce
	OpAt
	OpSlice
	OpPatch
	OpConcat
	OpNElems
	OpShape
	OpBackprop
	OpReset
	OpGradOf
	OpFCNew
	OpFCSet
	OpFCForward
	OpInputForward
	OpAct
	OpLoss
	OpSGDNew
	OpSGDUpdate
	OpCellNew
	OpAccNew
	OpAccumulate
	OpAccResult
	OpInit
	OpNop
	OpDot
	OpMatMul
)

var opNames = []string{"leaf", "ctor", "eye", "randu", "randn", "tensorof", "scale", "pow", "math", "bin", "equals",
	"transpose", "reshape", "broadcast", "unsqueeze", "squeeze", "flatten", "along", "reduce", "at", "slice", "patch",
	"concat", "nelems", "shape", "backprop", "reset", "gradof", "fc-new", "fc-set", "fc-forward", "input-forward",
	"act", "loss", "sgd-new", "sgd-update", "cell-new", "acc-new", "accumulate", "acc-result", "init", "nop", "dot", "matmul"}

var mathNames = []string{"exp", "log", "sin", "cos", "tan", "sinh", "cosh", "tanh"}
var binNames = []string{"eq", "ne", "gt", "ge", "lt", "le", "elmax", "elmin", "add", "sub", "mul", "div"}
var redNames = []string{"sum", "max", "min", "avg", "var", "std", "mean"}
var actNames = []string{"relu", "sigmoid", "tanh", "leaky", "softmax"}
var lossNames = []string{"mse", "bce", "ce"}
var ctorNames = []string{"full", "zeros", "ones"}
var initNames = []string{"full", "uniform", "normal", "heuniform", "henormal", "xavieruniform", "xaviernormal"}

type Cmd struct {
	Op      int
	K       int // sub-kind: ctor kind / math fn / binary / reducer / act kind / loss kind / cell ref kind
	Dims    []int
	Flag    bool // leaf tracked / reset tracked / fc-set bias
	A, B    Dec
	HasA    bool
	Cfg     *Cfg
	T       int
	U       Targ
	Z       int
	HasZ    bool
	Ranges  [][2]int
	Targs   []Targ
	Data    *Nd
	Vals    []float64 // leaf / tensorof values (harness side only)
	SeedSet bool
	WI, BI  OptInit
	Init    InitSpec
	// caller-side slice mutation (C10): scribble over the slices passed to / returned by command
	// MutOf after this command has run (MutOf = own index: right after the call)
	Mut   bool
	MutOf int
}

func encTarg(t Targ) []int64 {
	if t == nil {
		return []int64{0}
	}
	return []int64{1, int64(*t)}
}
func encInts(l []int) []int64 {
	o := []int64{int64(len(l))}
	for _, x := range l {
		o = append(o, int64(x))
	}
	return o
}
func encBool(b bool) int64 {
	if b {
		return 1
	}
	return 0
}
func encCfg(c *Cfg) []int64 {
	if c == nil {
		return []int64{0}
	}
	return []int64{1, int64(c.Dev), encBool(c.Track)}
}
func encRanges(r [][2]int) []int64 {
	o := []int64{int64(len(r))}
	for _, x := range r {
		o = append(o, int64(x[0]), int64(x[1]))
	}
	return o
}
func encNd(n *Nd) []int64 {
	if n.Leaf {
		return []int64{0, int64(n.K)}
	}
	o := []int64{1, int64(len(n.Kids))}
	for _, k := range n.Kids {
		o = append(o, encNd(k)...)
	}
	return o
}
func encInit(s InitSpec) []int64 {
	o := []int64{int64(s.Kind)}
	if s.Nil {
		return append(o, 0)
	}
	o = append(o, 1)
	switch s.Kind {
	case 0:
		o = append(o, s.D1.M, s.D1.E)
	case 1, 2:
		o = append(o, s.D1.M, s.D1.E, s.D2.M, s.D2.E)
	case 3, 4:
		o = append(o, int64(s.Z1))
	default:
		o = append(o, int64(s.Z1), int64(s.Z2))
	}
	return o
}
func encOptInit(s OptInit) []int64 {
	if s.Absent {
		return []int64{0}
	}
	if s.NilVal {
		return []int64{1, 0}
	}
	return append([]int64{1, 1}, encInit(s.Spec)...)
}

func (c Cmd) Encode() []int64 {
	o := []int64{int64(c.Op)}
	switch c.Op {
	case OpLeaf:
		o = append(o, encInts(c.Dims)...)
		o = append(o, encBool(c.Flag))
	case OpCtor:
		o = append(o, int64(c.K))
		o = append(o, encInts(c.Dims)...)
		o = append(o, c.A.M, c.A.E)
		o = append(o, encCfg(c.Cfg)...)
	case OpEye:
		o = append(o, int64(c.Z))
		o = append(o, encCfg(c.Cfg)...)
	case OpRandU, OpRandN:
		o = append(o, encInts(c.Dims)...)
		o = append(o, c.A.M, c.A.E, c.B.M, c.B.E)
		o = append(o, encCfg(c.Cfg)...)
	case OpTensorOf:
		o = append(o, encNd(c.Data)...)
		o = append(o, encCfg(c.Cfg)...)
	case OpScale, OpPow:
		o = append(o, int64(c.T), c.A.M, c.A.E)
	case OpMath:
		o = append(o, int64(c.K), int64(c.T))
	case OpBin:
		o = append(o, int64(c.K), int64(c.T))
		o = append(o, encTarg(c.U)...)
	case OpEquals, OpDot, OpMatMul:
		o = append(o, int64(c.T))
		o = append(o, encTarg(c.U)...)
	case OpTranspose, OpNElems, OpShape, OpGradOf:
		o = append(o, int64(c.T))
	case OpReshape, OpBroadcast, OpAt:
		o = append(o, int64(c.T))
		o = append(o, encInts(c.Dims)...)
	case OpUnsqueeze, OpSqueeze, OpFlatten:
		o = append(o, int64(c.T), int64(c.Z))
	case OpAlong:
		o = append(o, int64(c.K), int64(c.T), int64(c.Z))
	case OpReduce:
		o = append(o, int64(c.K), int64(c.T))
	case OpSlice:
		o = append(o, int64(c.T))
		o = append(o, encRanges(c.Ranges)...)
	case OpPatch:
		o = append(o, int64(c.T))
		o = append(o, encRanges(c.Ranges)...)
		o = append(o, encTarg(c.U)...)
	case OpConcat:
		o = append(o, int64(len(c.Targs)))
		for _, t := range c.Targs {
			o = append(o, encTarg(t)...)
		}
		o = append(o, int64(c.Z))
	case OpBackprop, OpCellNew:
		o = append(o, encTarg(c.U)...)
	case OpReset:
		o = append(o, int64(c.T), encBool(c.Flag))
	case OpFCNew:
		o = append(o, int64(c.Dims[0]), int64(c.Dims[1]))
		o = append(o, encOptInit(c.WI)...)
		o = append(o, encOptInit(c.BI)...)
	case OpFCSet:
		o = append(o, int64(c.T), encBool(c.Flag), int64(c.Z))
	case OpFCForward:
		o = append(o, int64(c.T), int64(len(c.Targs)))
		for _, t := range c.Targs {
			o = append(o, encTarg(t)...)
		}
	case OpInputForward:
		if c.SeedSet {
			o = append(o, 1)
			o = append(o, encTarg(c.U)...)
		} else {
			o = append(o, 0)
		}
		o = append(o, int64(len(c.Targs)))
		for _, t := range c.Targs {
			o = append(o, encTarg(t)...)
		}
	case OpAct:
		o = append(o, int64(c.K))
		if c.K == 3 {
			if c.HasA {
				o = append(o, 1, c.A.M, c.A.E)
			} else {
				o = append(o, 0)
			}
		} else if c.K == 4 {
			if c.HasZ {
				o = append(o, 1, int64(c.Z))
			} else {
				o = append(o, 0)
			}
		}
		o = append(o, int64(len(c.Targs)))
		for _, t := range c.Targs {
			o = append(o, encTarg(t)...)
		}
	case OpLoss:
		o = append(o, int64(c.K))
		o = append(o, encTarg(c.Targs[0])...)
		o = append(o, encTarg(c.Targs[1])...)
	case OpSGDNew:
		if c.HasA {
			o = append(o, 1, c.A.M, c.A.E)
		} else {
			o = append(o, 0)
		}
	case OpSGDUpdate:
		o = append(o, int64(c.T), int64(c.K))
		if c.K != 3 {
			o = append(o, int64(c.Z))
		}
	case OpAccNew, OpNop:
	case OpAccumulate:
		o = append(o, int64(c.T))
		o = append(o, encTarg(c.Targs[0])...)
		o = append(o, encTarg(c.Targs[1])...)
	case OpAccResult:
		o = append(o, int64(c.T))
	case OpInit:
		o = append(o, encInit(c.Init)...)
		o = append(o, encInts(c.Dims)...)
	default:
		panic("encode: unknown op")
	}
	return o
}

func targStr(t Targ) string {
	if t == nil {
		return "nil"
	}
	return fmt.Sprintf("t%d", *t)
}
func targsStr(ts []Targ) string {
	s := []string{}
	for _, t := range ts {
		s = append(s, targStr(t))
	}
	return "(" + strings.Join(s, " ") + ")"
}
func cfgStr(c *Cfg) string {
	if c == nil {
		return "nilcfg"
	}
	return fmt.Sprintf("(dev %d track %v)", c.Dev, c.Track)
}
func ndStr(n *Nd, vals []float64) string {
	if n.Leaf {
		if n.K < len(vals) {
			return fmt.Sprint(vals[n.K])
		}
		return fmt.Sprintf("v%d", n.K)
	}
	s := []string{}
	for _, k := range n.Kids {
		s = append(s, ndStr(k, vals))
	}
	return "[" + strings.Join(s, " ") + "]"
}
func initStr(s InitSpec) string {
	if s.Nil {
		return initNames[s.Kind] + "(nilcfg)"
	}
	switch s.Kind {
	case 0:
		return fmt.Sprintf("full(%v)", s.D1)
	case 1, 2:
		return fmt.Sprintf("%s(%v,%v)", initNames[s.Kind], s.D1, s.D2)
	case 3, 4:
		return fmt.Sprintf("%s(%d)", initNames[s.Kind], s.Z1)
	}
	return fmt.Sprintf("%s(%d,%d)", initNames[s.Kind], s.Z1, s.Z2)
}
func optInitStr(s OptInit) string {
	if s.Absent {
		return "default"
	}
	if s.NilVal {
		return "nil-initializer"
	}
	return initStr(s.Spec)
}

// human-readable form, used in replay files and evidence samples
func (c Cmd) String() string {
	mut := ""
	if c.Mut {
		mut = fmt.Sprintf(" +mutate-slices-of(%d)", c.MutOf)
	}
	switch c.Op {
	case OpLeaf:
		return fmt.Sprintf("(leaf %v tracked=%v vals=%v)", c.Dims, c.Flag, c.Vals) + mut
	case OpCtor:
		return fmt.Sprintf("(ctor %s %v %v %s)", ctorNames[c.K], c.Dims, c.A, cfgStr(c.Cfg)) + mut
	case OpEye:
		return fmt.Sprintf("(eye %d %s)", c.Z, cfgStr(c.Cfg))
	case OpRandU:
		return fmt.Sprintf("(randu %v %v %v %s)", c.Dims, c.A, c.B, cfgStr(c.Cfg)) + mut
	case OpRandN:
		return fmt.Sprintf("(randn %v %v %v %s)", c.Dims, c.A, c.B, cfgStr(c.Cfg)) + mut
	case OpTensorOf:
		return fmt.Sprintf("(tensorof %s %s)", ndStr(c.Data, c.Vals), cfgStr(c.Cfg)) + mut
	case OpScale:
		return fmt.Sprintf("(scale t%d %v)", c.T, c.A)
	case OpPow:
		return fmt.Sprintf("(pow t%d %v)", c.T, c.A)
	case OpMath:
		return fmt.Sprintf("(%s t%d)", mathNames[c.K], c.T)
	case OpBin:
		return fmt.Sprintf("(%s t%d %s)", binNames[c.K], c.T, targStr(c.U))
	case OpEquals, OpDot, OpMatMul:
		return fmt.Sprintf("(%s t%d %s)", opNames[c.Op], c.T, targStr(c.U))
	case OpTranspose:
		return fmt.Sprintf("(transpose t%d)", c.T)
	case OpReshape:
		return fmt.Sprintf("(reshape t%d %v)", c.T, c.Dims) + mut
	case OpBroadcast:
		return fmt.Sprintf("(broadcast t%d %v)", c.T, c.Dims) + mut
	case OpUnsqueeze, OpSqueeze, OpFlatten:
		return fmt.Sprintf("(%s t%d %d)", opNames[c.Op], c.T, c.Z)
	case OpAlong:
		return fmt.Sprintf("(%s-along t%d %d)", redNames[c.K], c.T, c.Z)
	case OpReduce:
		return fmt.Sprintf("(%s t%d)", redNames[c.K], c.T)
	case OpAt:
		return fmt.Sprintf("(at t%d %v)", c.T, c.Dims) + mut
	case OpSlice:
		return fmt.Sprintf("(slice t%d %v)", c.T, c.Ranges) + mut
	case OpPatch:
		return fmt.Sprintf("(patch t%d %v %s)", c.T, c.Ranges, targStr(c.U)) + mut
	case OpConcat:
		return fmt.Sprintf("(concat %s %d)", targsStr(c.Targs), c.Z) + mut
	case OpNElems, OpShape, OpGradOf:
		return fmt.Sprintf("(%s t%d)", opNames[c.Op], c.T) + mut
	case OpBackprop:
		return fmt.Sprintf("(backprop %s)", targStr(c.U))
	case OpCellNew:
		return fmt.Sprintf("(cell-new %s)", targStr(c.U))
	case OpReset:
		return fmt.Sprintf("(reset t%d %v)", c.T, c.Flag)
	case OpFCNew:
		return fmt.Sprintf("(fc-new in=%d out=%d w=%s b=%s)", c.Dims[0], c.Dims[1], optInitStr(c.WI), optInitStr(c.BI))
	case OpFCSet:
		return fmt.Sprintf("(fc-set fc%d bias=%v t%d)", c.T, c.Flag, c.Z)
	case OpFCForward:
		return fmt.Sprintf("(fc-forward fc%d %s)", c.T, targsStr(c.Targs))
	case OpInputForward:
		if c.SeedSet {
			return fmt.Sprintf("(input-forward seed=%s %s)", targStr(c.U), targsStr(c.Targs))
		}
		return fmt.Sprintf("(input-forward seed=unset %s)", targsStr(c.Targs))
	case OpAct:
		p := ""
		if c.K == 3 {
			if c.HasA {
				p = " m=" + c.A.String()
			} else {
				p = " nilcfg"
			}
		}
		if c.K == 4 {
			if c.HasZ {
				p = fmt.Sprintf(" dim=%d", c.Z)
			} else {
				p = " nilcfg"
			}
		}
		return fmt.Sprintf("(act %s%s %s)", actNames[c.K], p, targsStr(c.Targs))
	case OpLoss:
		return fmt.Sprintf("(loss %s %s %s)", lossNames[c.K], targStr(c.Targs[0]), targStr(c.Targs[1]))
	case OpSGDNew:
		if c.HasA {
			return fmt.Sprintf("(sgd-new lr=%v)", c.A)
		}
		return "(sgd-new nilcfg)"
	case OpSGDUpdate:
		ref := []string{"fc-weight", "fc-bias", "cell", "nil-pointer"}[c.K]
		return fmt.Sprintf("(sgd-update sgd%d %s %d)", c.T, ref, c.Z)
	case OpAccNew:
		return "(acc-new)"
	case OpAccumulate:
		return fmt.Sprintf("(accumulate acc%d %s %s)", c.T, targStr(c.Targs[0]), targStr(c.Targs[1]))
	case OpAccResult:
		return fmt.Sprintf("(acc-result acc%d)", c.T)
	case OpInit:
		return fmt.Sprintf("(init %s %v)", initStr(c.Init), c.Dims) + mut
	case OpNop:
		return "(nop)" + mut
	}
	return "(?)"
}

func scenarioString(cs []Cmd) string {
	var sb strings.Builder
	for i, c := range cs {
		fmt.Fprintf(&sb, "  %d: %s\n", i, c.String())
	}
	return sb.String()
}

func encodeScenario(variant int, cs []Cmd) string {
	var sb strings.Builder
	sb.WriteString(strconv.Itoa(variant))
	for _, c := range cs {
		for _, x := range c.Encode() {
			sb.WriteByte(' ')
			sb.WriteString(strconv.FormatInt(x, 10))
		}
	}
	return sb.String()
}
