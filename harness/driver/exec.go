package main

// Executes scenario commands against the real library (public API only) and records every
// API-visible observable.

import (
	"fmt"
	"math"

	"github.com/sahandsafizadeh/qeep/component/initializers"
	"github.com/sahandsafizadeh/qeep/component/layers"
	"github.com/sahandsafizadeh/qeep/component/layers/activations"
	"github.com/sahandsafizadeh/qeep/component/losses"
	"github.com/sahandsafizadeh/qeep/component/metrics"
	"github.com/sahandsafizadeh/qeep/component/optimizers"
	"github.com/sahandsafizadeh/qeep/tensor"
	xrand "golang.org/x/exp/rand"
)

type GradObs struct {
	Name int
	Nil  bool
	Dims []int
	Vals []float64
}

type Obs struct {
	Kind  string // err panic ok nil int ints scalar bool tensor grads
	Int   int
	Ints  []int
	F     float64
	B     bool
	Dims  []int
	Vals  []float64
	Grads []GradObs
	Rules int
	Msg   string
}

type obj struct {
	kind string // "", tensor, fc, sgd, acc, cell
	t    tensor.Tensor
	fc   *layers.FC
	sgd  *optimizers.SGD
	acc  *metrics.Accuracy
	cell *tensor.Tensor
}

type rndUse struct {
	normal bool
	n      int
}

type Runner struct {
	Cmds     []Cmd
	Obs      []Obs
	env      []obj
	vals     map[int][]float64
	gvals    map[[2]int][]float64
	rndLog   []rndUse
	draws    []float64
	rngSeed  uint64
	retained map[int][]any // slices handed to / received from the library by each command
	// component objects are created once per scenario and configuration and reused by later commands,
	// the way a model object is used across the steps of a training loop (the model is stateless per object)
	layerCache map[string]fwdLayer
	lossCache  map[int]lossFn
}

type fwdLayer interface {
	Forward(xs ...tensor.Tensor) (tensor.Tensor, error)
}
type lossFn interface {
	Compute(yp tensor.Tensor, yt tensor.Tensor) (tensor.Tensor, error)
}

func NewRunner(rngSeed uint64) *Runner {
	xrand.Seed(rngSeed)
	return &Runner{vals: map[int][]float64{}, gvals: map[[2]int][]float64{}, rngSeed: rngSeed, retained: map[int][]any{},
		layerCache: map[string]fwdLayer{}, lossCache: map[int]lossFn{}}
}

// replays the raw draws the library consumed, in order
func (r *Runner) Finish() {
	xrand.Seed(r.rngSeed)
	r.draws = nil
	for _, u := range r.rndLog {
		for i := 0; i < u.n; i++ {
			if u.normal {
				r.draws = append(r.draws, xrand.NormFloat64())
			} else {
				r.draws = append(r.draws, xrand.Float64())
			}
		}
	}
}

func prod(ds []int) int {
	n := 1
	for _, d := range ds {
		n *= d
	}
	return n
}

func readTensor(t tensor.Tensor) (dims []int, vals []float64) {
	dims = t.Shape()
	n := prod(dims)
	vals = make([]float64, 0, n)
	idx := make([]int, len(dims))
	for k := 0; k < n; k++ {
		v, err := t.At(idx...)
		if err != nil {
			panic(fmt.Sprintf("harness: At failed while reading a tensor: %v", err))
		}
		vals = append(vals, v)
		for i := len(dims) - 1; i >= 0; i-- {
			idx[i]++
			if idx[i] < dims[i] {
				break
			}
			idx[i] = 0
		}
	}
	return
}

func (c *Cfg) real() *tensor.Config {
	if c == nil {
		return nil
	}
	return &tensor.Config{Device: tensor.Device(c.Dev), GradTrack: c.Track}
}

func cp(l []int) []int {
	if l == nil {
		return nil
	}
	o := make([]int, len(l))
	copy(o, l)
	return o
}

func nest1(vals []float64) []float64 { o := make([]float64, len(vals)); copy(o, vals); return o }

// builds the typed nested slice of the given depth from Nd
func ndTo1(n *Nd, vals []float64) []float64 {
	o := make([]float64, len(n.Kids))
	for i, k := range n.Kids {
		o[i] = vals[k.K]
	}
	return o
}
func ndTo2(n *Nd, vals []float64) [][]float64 {
	o := make([][]float64, len(n.Kids))
	for i, k := range n.Kids {
		o[i] = ndTo1(k, vals)
	}
	return o
}
func ndTo3(n *Nd, vals []float64) [][][]float64 {
	o := make([][][]float64, len(n.Kids))
	for i, k := range n.Kids {
		o[i] = ndTo2(k, vals)
	}
	return o
}
func ndTo4(n *Nd, vals []float64) [][][][]float64 {
	o := make([][][][]float64, len(n.Kids))
	for i, k := range n.Kids {
		o[i] = ndTo3(k, vals)
	}
	return o
}
func ndDepth(n *Nd) int {
	if n.Leaf {
		return 0
	}
	if len(n.Kids) == 0 {
		return -1 // unknown below; fixed by the generator through Cmd.Z
	}
	d := ndDepth(n.Kids[0])
	if d < 0 {
		return -1
	}
	return d + 1
}

func rectNd(dims []int, k *int) *Nd {
	if len(dims) == 0 {
		n := &Nd{Leaf: true, K: *k}
		*k++
		return n
	}
	n := &Nd{}
	for i := 0; i < dims[0]; i++ {
		n.Kids = append(n.Kids, rectNd(dims[1:], k))
	}
	return n
}

func tensorOfNd(n *Nd, depth int, vals []float64, conf *tensor.Config) (tensor.Tensor, any, error) {
	switch depth {
	case 0:
		t, err := tensor.TensorOf(vals[n.K], conf)
		return t, nil, err
	case 1:
		d := ndTo1(n, vals)
		t, err := tensor.TensorOf(d, conf)
		return t, d, err
	case 2:
		d := ndTo2(n, vals)
		t, err := tensor.TensorOf(d, conf)
		return t, d, err
	case 3:
		d := ndTo3(n, vals)
		t, err := tensor.TensorOf(d, conf)
		return t, d, err
	case 4:
		d := ndTo4(n, vals)
		t, err := tensor.TensorOf(d, conf)
		return t, d, err
	}
	panic("harness: bad data depth")
}

func makeLeaf(dims []int, vals []float64, tracked bool) tensor.Tensor {
	if len(dims) <= 4 {
		k := 0
		n := rectNd(dims, &k)
		t, _, err := tensorOfNd(n, len(dims), vals, &tensor.Config{Device: tensor.CPU, GradTrack: tracked})
		if err != nil {
			panic(fmt.Sprintf("harness: leaf construction failed: %v", err))
		}
		return t
	}
	t, err := tensor.TensorOf(nest1(vals), &tensor.Config{Device: tensor.CPU})
	if err != nil {
		panic(err)
	}
	t, err = t.Reshape(cp(dims))
	if err != nil {
		panic(err)
	}
	t.ResetGradContext(tracked)
	return t
}

func toRanges(r [][2]int) []tensor.Range {
	if r == nil {
		return nil
	}
	o := make([]tensor.Range, len(r))
	for i, x := range r {
		o[i] = tensor.Range{From: x[0], To: x[1]}
	}
	return o
}

type userInit struct{ f func([]int) (tensor.Tensor, error) }

func (u userInit) Init(shape []int) (tensor.Tensor, error) { return u.f(shape) }

func buildInit(s InitSpec) (layers.Initializer, error) {
	switch s.Kind {
	case 0:
		if s.Nil {
			return initializers.NewFull(nil), nil
		}
		return initializers.NewFull(&initializers.FullConfig{Value: s.D1.F()}), nil
	case 1:
		if s.Nil {
			return initializers.NewUniform(nil)
		}
		return initializers.NewUniform(&initializers.UniformConfig{Lower: s.D1.F(), Upper: s.D2.F()})
	case 2:
		if s.Nil {
			return initializers.NewNormal(nil)
		}
		return initializers.NewNormal(&initializers.NormalConfig{Mean: s.D1.F(), StdDev: s.D2.F()})
	case 3:
		if s.Nil {
			return initializers.NewHeUniform(nil)
		}
		return initializers.NewHeUniform(&initializers.HeUniformConfig{FanIn: s.Z1})
	case 4:
		if s.Nil {
			return initializers.NewHeNormal(nil)
		}
		return initializers.NewHeNormal(&initializers.HeNormalConfig{FanIn: s.Z1})
	case 5:
		if s.Nil {
			return initializers.NewXavierUniform(nil)
		}
		return initializers.NewXavierUniform(&initializers.XavierUniformConfig{FanIn: s.Z1, FanOut: s.Z2})
	default:
		if s.Nil {
			return initializers.NewXavierNormal(nil)
		}
		return initializers.NewXavierNormal(&initializers.XavierNormalConfig{FanIn: s.Z1, FanOut: s.Z2})
	}
}

func isNilInit(i layers.Initializer, err error) bool { return err != nil }

func (r *Runner) tens(i int) tensor.Tensor {
	if i < 0 || i >= len(r.env) || r.env[i].kind != "tensor" {
		panic(fmt.Sprintf("harness: t%d is not a tensor", i))
	}
	return r.env[i].t
}
func (r *Runner) targ(t Targ) tensor.Tensor {
	if t == nil {
		return nil
	}
	return r.tens(*t)
}
func (r *Runner) targs(ts []Targ) []tensor.Tensor {
	o := make([]tensor.Tensor, len(ts))
	for i, t := range ts {
		o[i] = r.targ(t)
	}
	return o
}

func scribble(x any) {
	switch v := x.(type) {
	case []int:
		for i := range v {
			v[i] = v[i]*7 + 13
		}
	case []tensor.Range:
		for i := range v {
			v[i] = tensor.Range{From: v[i].To + 2, To: v[i].To + 4}
		}
	case []tensor.Tensor:
		for i := range v {
			v[i] = nil
		}
	case []float64:
		for i := range v {
			v[i] = v[i]*3 + 1000
		}
	case [][]float64:
		for i := range v {
			scribble(v[i])
		}
		if len(v) > 1 {
			v[0], v[len(v)-1] = v[len(v)-1], v[0]
		}
	case [][][]float64:
		for i := range v {
			scribble(v[i])
		}
	case [][][][]float64:
		for i := range v {
			scribble(v[i])
		}
	}
}

// Do executes one command; the result object (if any) takes the name len(env)
func (r *Runner) Do(c Cmd) (ob Obs) {
	idx := len(r.Cmds)
	r.Cmds = append(r.Cmds, c)
	var res obj
	func() {
		defer func() {
			if p := recover(); p != nil {
				msg := fmt.Sprint(p)
				if len(msg) > 8 && msg[:8] == "harness:" {
					panic(p)
				}
				ob = Obs{Kind: "panic", Msg: msg}
				res = obj{}
			}
		}()
		ob, res = r.exec(idx, c)
	}()
	r.env = append(r.env, res)
	if res.kind == "tensor" && ob.Kind == "tensor" {
		r.vals[idx] = ob.Vals
	}
	if c.Op == OpLeaf || c.Op == OpTensorOf {
		r.vals[idx] = c.Vals // input values (for a valid tensor identical to the result's row-major values)
	}
	if c.Mut {
		for _, s := range r.retained[c.MutOf] {
			scribble(s)
		}
	}
	r.Obs = append(r.Obs, ob)
	return ob
}

func errObs(err error) Obs { return Obs{Kind: "err", Msg: err.Error()} }

func (r *Runner) tensorResult(t tensor.Tensor, err error) (Obs, obj) {
	if err != nil {
		return errObs(err), obj{}
	}
	if t == nil {
		return Obs{Kind: "nil"}, obj{}
	}
	d, v := readTensor(t)
	return Obs{Kind: "tensor", Dims: d, Vals: v}, obj{kind: "tensor", t: t}
}

func (r *Runner) keep(idx int, xs ...any) { r.retained[idx] = append(r.retained[idx], xs...) }

func (r *Runner) exec(idx int, c Cmd) (Obs, obj) {
	switch c.Op {
	case OpLeaf:
		t := makeLeaf(c.Dims, c.Vals, c.Flag)
		return r.tensorResult(t, nil)
	case OpCtor:
		dims := cp(c.Dims)
		r.keep(idx, dims)
		var t tensor.Tensor
		var err error
		switch c.K {
		case 0:
			t, err = tensor.Full(dims, c.A.F(), c.Cfg.real())
		case 1:
			t, err = tensor.Zeros(dims, c.Cfg.real())
		default:
			t, err = tensor.Ones(dims, c.Cfg.real())
		}
		return r.tensorResult(t, err)
	case OpEye:
		t, err := tensor.Eye(c.Z, c.Cfg.real())
		return r.tensorResult(t, err)
	case OpRandU, OpRandN:
		dims := cp(c.Dims)
		r.keep(idx, dims)
		var t tensor.Tensor
		var err error
		if c.Op == OpRandU {
			t, err = tensor.RandU(dims, c.A.F(), c.B.F(), c.Cfg.real())
		} else {
			t, err = tensor.RandN(dims, c.A.F(), c.B.F(), c.Cfg.real())
		}
		if err == nil {
			r.rndLog = append(r.rndLog, rndUse{c.Op == OpRandN, t.NElems()})
		}
		return r.tensorResult(t, err)
	case OpTensorOf:
		t, d, err := tensorOfNd(c.Data, c.Z, c.Vals, c.Cfg.real())
		if d != nil {
			r.keep(idx, d)
		}
		return r.tensorResult(t, err)
	case OpScale:
		return r.tensorResult(r.tens(c.T).Scale(c.A.F()), nil)
	case OpPow:
		return r.tensorResult(r.tens(c.T).Pow(c.A.F()), nil)
	case OpMath:
		x := r.tens(c.T)
		var t tensor.Tensor
		switch c.K {
		case 0:
			t = x.Exp()
		case 1:
			t = x.Log()
		case 2:
			t = x.Sin()
		case 3:
			t = x.Cos()
		case 4:
			t = x.Tan()
		case 5:
			t = x.Sinh()
		case 6:
			t = x.Cosh()
		default:
			t = x.Tanh()
		}
		return r.tensorResult(t, nil)
	case OpBin:
		x, u := r.tens(c.T), r.targ(c.U)
		var t tensor.Tensor
		var err error
		switch c.K {
		case 0:
			t, err = x.Eq(u)
		case 1:
			t, err = x.Ne(u)
		case 2:
			t, err = x.Gt(u)
		case 3:
			t, err = x.Ge(u)
		case 4:
			t, err = x.Lt(u)
		case 5:
			t, err = x.Le(u)
		case 6:
			t, err = x.ElMax(u)
		case 7:
			t, err = x.ElMin(u)
		case 8:
			t, err = x.Add(u)
		case 9:
			t, err = x.Sub(u)
		case 10:
			t, err = x.Mul(u)
		default:
			t, err = x.Div(u)
		}
		return r.tensorResult(t, err)
	case OpEquals:
		b, err := r.tens(c.T).Equals(r.targ(c.U))
		if err != nil {
			return errObs(err), obj{}
		}
		return Obs{Kind: "bool", B: b}, obj{}
	case OpDot:
		return r.tensorResult(r.tens(c.T).Dot(r.targ(c.U)))
	case OpMatMul:
		return r.tensorResult(r.tens(c.T).MatMul(r.targ(c.U)))
	case OpTranspose:
		return r.tensorResult(r.tens(c.T).Transpose())
	case OpReshape:
		d := cp(c.Dims)
		r.keep(idx, d)
		return r.tensorResult(r.tens(c.T).Reshape(d))
	case OpBroadcast:
		d := cp(c.Dims)
		r.keep(idx, d)
		return r.tensorResult(r.tens(c.T).Broadcast(d))
	case OpUnsqueeze:
		return r.tensorResult(r.tens(c.T).UnSqueeze(c.Z))
	case OpSqueeze:
		return r.tensorResult(r.tens(c.T).Squeeze(c.Z))
	case OpFlatten:
		return r.tensorResult(r.tens(c.T).Flatten(c.Z))
	case OpAlong:
		x := r.tens(c.T)
		var t tensor.Tensor
		var err error
		switch c.K {
		case 0:
			t, err = x.SumAlong(c.Z)
		case 1:
			t, err = x.MaxAlong(c.Z)
		case 2:
			t, err = x.MinAlong(c.Z)
		case 3:
			t, err = x.AvgAlong(c.Z)
		case 4:
			t, err = x.VarAlong(c.Z)
		case 5:
			t, err = x.StdAlong(c.Z)
		default:
			t, err = x.MeanAlong(c.Z)
		}
		return r.tensorResult(t, err)
	case OpReduce:
		x := r.tens(c.T)
		var f float64
		switch c.K {
		case 0:
			f = x.Sum()
		case 1:
			f = x.Max()
		case 2:
			f = x.Min()
		case 3:
			f = x.Avg()
		case 4:
			f = x.Var()
		case 5:
			f = x.Std()
		default:
			f = x.Mean()
		}
		return Obs{Kind: "scalar", F: f}, obj{}
	case OpAt:
		d := cp(c.Dims)
		r.keep(idx, d)
		f, err := r.tens(c.T).At(d...)
		if err != nil {
			return errObs(err), obj{}
		}
		return Obs{Kind: "scalar", F: f}, obj{}
	case OpSlice:
		rg := toRanges(c.Ranges)
		r.keep(idx, rg)
		return r.tensorResult(r.tens(c.T).Slice(rg))
	case OpPatch:
		rg := toRanges(c.Ranges)
		r.keep(idx, rg)
		return r.tensorResult(r.tens(c.T).Patch(rg, r.targ(c.U)))
	case OpConcat:
		ts := r.targs(c.Targs)
		r.keep(idx, ts)
		return r.tensorResult(tensor.Concat(ts, c.Z))
	case OpNElems:
		return Obs{Kind: "int", Int: r.tens(c.T).NElems()}, obj{}
	case OpShape:
		s := r.tens(c.T).Shape()
		r.keep(idx, s)
		return Obs{Kind: "ints", Ints: cp(s)}, obj{}
	case OpBackprop:
		before := ruleCount()
		err := tensor.BackPropagate(r.targ(c.U))
		after := ruleCount()
		if err != nil {
			return errObs(err), obj{}
		}
		ob := Obs{Kind: "grads", Rules: int(after - before)}
		for n, o := range r.env {
			if o.kind != "tensor" {
				continue
			}
			g := o.t.Gradient()
			if g == nil {
				ob.Grads = append(ob.Grads, GradObs{Name: n, Nil: true})
			} else {
				d, v := readTensor(g)
				ob.Grads = append(ob.Grads, GradObs{Name: n, Dims: d, Vals: v})
				r.gvals[[2]int{n, idx}] = v
			}
		}
		return ob, obj{}
	case OpReset:
		r.tens(c.T).ResetGradContext(c.Flag)
		return Obs{Kind: "ok"}, obj{}
	case OpGradOf:
		g := r.tens(c.T).Gradient()
		if g == nil {
			return Obs{Kind: "nil"}, obj{}
		}
		return r.tensorResult(g, nil)
	case OpFCNew:
		conf := &layers.FCConfig{Inputs: c.Dims[0], Outputs: c.Dims[1]}
		for k, oi := range map[string]OptInit{"Weight": c.WI, "Bias": c.BI} {
			if oi.Absent {
				continue
			}
			if conf.Initializers == nil {
				conf.Initializers = map[string]layers.Initializer{}
			}
			if oi.NilVal {
				conf.Initializers[k] = nil
				continue
			}
			in, err := buildInit(oi.Spec)
			if err != nil {
				return errObs(err), obj{}
			}
			conf.Initializers[k] = in
		}
		// the weight initializer runs before the bias initializer: record draws in that order
		fc, err := layers.NewFC(conf)
		if err != nil {
			return errObs(err), obj{}
		}
		for i, oi := range []OptInit{c.WI, c.BI} {
			random := false
			normal := false
			if oi.Absent {
				random = i == 0 // default weight initializer is XavierUniform, default bias is Full
			} else {
				random = oi.Spec.Kind != 0
				normal = oi.Spec.Kind == 2 || oi.Spec.Kind == 4 || oi.Spec.Kind == 6
			}
			if random {
				r.rndLog = append(r.rndLog, rndUse{normal, c.Dims[1]})
			}
		}
		// the configuration struct stays the caller's
		conf.Inputs, conf.Outputs = 991, 997
		return Obs{Kind: "ok"}, obj{kind: "fc", fc: fc}
	case OpFCSet:
		fc := r.env[c.T].fc
		scribbleWeights(fc.Weights())
		ws := fc.Weights()
		if c.Flag {
			*ws[1].Value = r.tens(c.Z)
		} else {
			*ws[0].Value = r.tens(c.Z)
		}
		return Obs{Kind: "ok"}, obj{}
	case OpFCForward:
		return r.tensorResult(r.env[c.T].fc.Forward(r.targs(c.Targs)...))
	case OpInputForward:
		in := layers.NewInput()
		if c.SeedSet {
			seed := r.targ(c.U)
			in.SeedFunc = func() tensor.Tensor { return seed }
		}
		y, err := in.Forward(r.targs(c.Targs)...)
		if err != nil {
			return errObs(err), obj{}
		}
		if y == nil {
			return Obs{Kind: "nil"}, obj{}
		}
		return r.tensorResult(y, nil)
	case OpAct:
		xs := r.targs(c.Targs)
		key := fmt.Sprintf("%d|%v|%s|%v|%d", c.K, c.HasA, c.A.String(), c.HasZ, c.Z)
		a, ok := r.layerCache[key]
		if !ok {
			switch c.K {
			case 0:
				a = activations.NewRelu()
			case 1:
				a = activations.NewSigmoid()
			case 2:
				a = activations.NewTanh()
			case 3:
				var conf *activations.LeakyReluConfig
				if c.HasA {
					conf = &activations.LeakyReluConfig{M: c.A.F()}
				}
				a = activations.NewLeakyRelu(conf)
			default:
				var conf *activations.SoftmaxConfig
				if c.HasZ {
					conf = &activations.SoftmaxConfig{Dim: c.Z}
				}
				sm, err := activations.NewSoftmax(conf)
				if err != nil {
					return errObs(err), obj{}
				}
				a = sm
			}
			r.layerCache[key] = a
		}
		return r.tensorResult(a.Forward(xs...))
	case OpLoss:
		yp, yt := r.targ(c.Targs[0]), r.targ(c.Targs[1])
		l, ok := r.lossCache[c.K]
		if !ok {
			switch c.K {
			case 0:
				l = losses.NewMSE()
			case 1:
				l = losses.NewBCE()
			default:
				l = losses.NewCE()
			}
			r.lossCache[c.K] = l
		}
		return r.tensorResult(l.Compute(yp, yt))
	case OpSGDNew:
		var conf *optimizers.SGDConfig
		if c.HasA {
			conf = &optimizers.SGDConfig{LearningRate: c.A.F()}
		}
		sgd := optimizers.NewSGD(conf)
		if conf != nil {
			// the configuration struct stays the caller's: scribbling over it afterwards must not matter
			conf.LearningRate = 977.25
		}
		return Obs{Kind: "ok"}, obj{kind: "sgd", sgd: sgd}
	case OpSGDUpdate:
		sgd := r.env[c.T].sgd
		var ptr *tensor.Tensor
		if c.K == 0 || c.K == 1 {
			scribbleWeights(r.env[c.Z].fc.Weights())
		}
		switch c.K {
		case 0:
			ptr = r.env[c.Z].fc.Weights()[0].Value
		case 1:
			ptr = r.env[c.Z].fc.Weights()[1].Value
		case 2:
			ptr = r.env[c.Z].cell
		}
		var old tensor.Tensor
		if ptr != nil {
			old = *ptr
		}
		err := sgd.Update(ptr)
		if err != nil {
			if ptr != nil && *ptr != old {
				return Obs{Kind: "err", Msg: "harness-note: cell replaced although Update returned an error"}, obj{kind: "tensor", t: *ptr}
			}
			return errObs(err), obj{}
		}
		return r.tensorResult(*ptr, nil)
	case OpCellNew:
		t := r.targ(c.U)
		return Obs{Kind: "ok"}, obj{kind: "cell", cell: &t}
	case OpAccNew:
		return Obs{Kind: "ok"}, obj{kind: "acc", acc: metrics.NewAccuracy()}
	case OpAccumulate:
		err := r.env[c.T].acc.Accumulate(r.targ(c.Targs[0]), r.targ(c.Targs[1]))
		if err != nil {
			return errObs(err), obj{}
		}
		return Obs{Kind: "ok"}, obj{}
	case OpAccResult:
		f, err := r.env[c.T].acc.Result()
		if err != nil {
			return errObs(err), obj{}
		}
		return Obs{Kind: "scalar", F: f}, obj{}
	case OpInit:
		in, err := buildInit(c.Init)
		if err != nil {
			return errObs(err), obj{}
		}
		d := cp(c.Dims)
		r.keep(idx, d)
		t, err := in.Init(d)
		if err == nil && t != nil && c.Init.Kind != 0 {
			k := c.Init.Kind
			r.rndLog = append(r.rndLog, rndUse{k == 2 || k == 4 || k == 6, t.NElems()})
		}
		return r.tensorResult(t, err)
	case OpNop:
		return Obs{Kind: "ok"}, obj{}
	}
	panic("harness: unknown op")
}


var _ = math.Inf


// the list returned by Weights() belongs to the caller: reordering / truncating it must not affect the layer
func scribbleWeights(ws []layers.Weight) {
	if len(ws) >= 2 {
		ws[0], ws[1] = ws[1], ws[0]
		ws[0].Trainable = !ws[0].Trainable
	}
	for i := range ws {
		ws[i].Value = nil
	}
}
