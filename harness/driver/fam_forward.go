package main

// Scenario families for the forward properties C03 (element-wise / broadcasting),
// C04 (MatMul, Dot, Transpose), C05 (reductions), C06 (indexing, reshaping, construction).

func famElementwise(g *Gen) {
	g.nontr = true
	ds := g.shape(0, 6, 3)
	if g.chance(0.06) {
		ds = g.shapeBig()
		g.tag("large-tensor")
	}
	a := g.leafDistinct(ds, false, -3, 3)
	if g.chance(0.3) {
		g.interfere(a)
	}
	// unary
	for i := 0; i < 2; i++ {
		switch g.intn(3) {
		case 0:
			g.do(Cmd{Op: OpScale, T: a, A: smallDec(g)})
			g.tag("scale")
		case 1:
			g.do(Cmd{Op: OpPow, T: a, A: Dec{int64(g.pick(0, 1, 2, 3, -1, -2)), 0}})
			g.tag("pow")
		default:
			g.do(Cmd{Op: OpMath, K: g.intn(8), T: a})
			g.tag("math")
		}
	}
	// arithmetic with a broadcast-compatible partner
	ps := g.bcastPartner(ds)
	b := g.leafDistinct(ps, false, -3, 3)
	if len(ps) != len(ds) || prod(ps) != prod(ds) {
		g.tag("implicit-broadcast")
	}
	x, y := a, b
	if g.chance(0.5) {
		x, y = b, a
	}
	k := 8 + g.intn(4)
	r, o := g.do(Cmd{Op: OpBin, K: k, T: x, U: T(y)})
	g.tag(binNames[k])
	if o.Kind == "tensor" {
		// identical to broadcasting explicitly first
		bx, _ := g.do(Cmd{Op: OpBroadcast, T: x, Dims: o.Dims})
		by, _ := g.do(Cmd{Op: OpBroadcast, T: y, Dims: o.Dims})
		if g.isT(bx) && g.isT(by) {
			e, _ := g.do(Cmd{Op: OpBin, K: k, T: bx, U: T(by)})
			if g.isT(e) {
				g.do(Cmd{Op: OpEquals, T: r, U: T(e)})
			}
		}
	}
	// comparisons, elmax/elmin, equals on same-shape operands with ties
	vals := g.valsGeneral(prod(ds))
	c := g.leafVals(ds, vals, false)
	vals2 := append([]float64{}, vals...)
	for i := range vals2 {
		if g.chance(0.5) {
			vals2[i] = vals2[i] + float64(g.pick(-1, 1))*0.25
		}
	}
	d := g.leafVals(ds, vals2, false)
	for i := 0; i < 3; i++ {
		k := g.intn(8)
		g.do(Cmd{Op: OpBin, K: k, T: c, U: T(d)})
		g.tag(binNames[k])
	}
	g.do(Cmd{Op: OpEquals, T: c, U: T(d)})
	g.do(Cmd{Op: OpEquals, T: c, U: T(c)})
	if g.chance(0.2) {
		// magnitudes far below any tolerance (subnormals included): the order comparisons are exact there too, and
		// distinct values that close are still distinct for >, >=, <, <=
		g.tag("tiny-magnitudes")
		pool := []float64{0, 1e-250, -1e-250, 3e-300, 1e-300, -2e-310, -1e-310, 5e-324, -5e-324, 1e-241, 2e-241, 1e-239, -1e-239, 4e-26, 5e-26, 3e-30}
		n := prod(ds)
		tv := make([]float64, n)
		tw := make([]float64, n)
		for i := range tv {
			tv[i] = pool[g.intn(len(pool))]
			tw[i] = pool[g.intn(len(pool))]
		}
		e := g.leafVals(ds, tv, false)
		f := g.leafVals(ds, tw, false)
		for k := 0; k < 8; k++ {
			g.do(Cmd{Op: OpBin, K: k, T: e, U: T(f)})
		}
		g.do(Cmd{Op: OpBin, K: 8 + g.intn(3), T: e, U: T(f)})
	}
}

func famBroadcastPairs(g *Gen) {
	g.nontr = true
	ds := g.shape(0, 5, 3)
	ps := g.bcastPartner(ds)
	a := g.leafDistinct(ds, false, 0.5, 3)
	b := g.leafDistinct(ps, false, 0.5, 3)
	for k := 8; k < 12; k++ {
		g.do(Cmd{Op: OpBin, K: k, T: a, U: T(b)})
	}
	// an incompatible pair must be an error
	if len(ds) > 0 {
		bad := append([]int{}, ds...)
		i := g.intn(len(bad))
		bad[i] = bad[i] + 1 + g.intn(2)
		if ds[i] != 1 {
			c := g.leafDistinct(bad, false, 0.5, 3)
			g.do(Cmd{Op: OpBin, K: 8 + g.intn(4), T: a, U: T(c)})
			g.tag("incompatible")
		}
	}
	g.do(Cmd{Op: OpBin, K: 8, T: a, U: nil})
}

func famLinalg(g *Gen) {
	g.nontr = true
	m, n, k := 1+g.intn(3), 1+g.intn(3), 1+g.intn(3)
	batch := g.shape(0, 3, 3)
	b1 := append([]int{}, batch...)
	b2 := g.bcastPartner(batch)
	if g.chance(0.3) {
		b1, b2 = b2, b1
	}
	s1 := append(append([]int{}, b1...), m, n)
	s2 := append(append([]int{}, b2...), n, k)
	if prod(s1) > 150 || prod(s2) > 150 || len(s1) > 6 || len(s2) > 6 {
		s1, s2 = []int{m, n}, []int{n, k}
	}
	if g.chance(0.08) {
		// matrices large enough to cross blocking / packing thresholds
		m, n, k = 3+g.intn(8), 8+g.intn(4), 8+g.intn(4)
		s1, s2 = []int{m, n}, []int{n, k}
		if g.chance(0.4) {
			s1, s2 = []int{2, m, n}, []int{n, k}
		}
		g.tag("large-matrices")
	}
	if g.chance(0.1) {
		// entries far below any tolerance against huge ones: every term of the sum of products counts
		g.tag("tiny-times-huge")
		tiny := []float64{1e-250, -5e-300, 2e-260, 1e-245, 3}
		huge := []float64{1e260, -3e270, 1e255, 2e250, 0.5}
		va := make([]float64, prod(s1))
		for i := range va {
			va[i] = tiny[g.intn(len(tiny))]
		}
		vb := make([]float64, prod(s2))
		for i := range vb {
			vb[i] = huge[g.intn(len(huge))]
		}
		ta := g.leafVals(s1, va, false)
		tb := g.leafVals(s2, vb, false)
		g.do(Cmd{Op: OpMatMul, T: ta, U: T(tb)})
		tbt, o := g.do(Cmd{Op: OpTranspose, T: tb})
		tat, o2 := g.do(Cmd{Op: OpTranspose, T: ta})
		if o.Kind == "tensor" && o2.Kind == "tensor" && len(s1) == 2 && len(s2) == 2 {
			g.do(Cmd{Op: OpMatMul, T: tbt, U: T(tat)})
		}
	}
	if g.chance(0.12) {
		// high ranks and unequal ranks: batch ranks 4..6 against 1..6 (slice growth / capacity effects in the
		// shape helpers depend on the rank), sizes 1..2 so the tensors stay small
		r1 := 4 + g.intn(3)
		r2 := r1
		if g.chance(0.6) {
			r2 = 1 + g.intn(r1)
		}
		bb1 := make([]int, r1)
		for i := range bb1 {
			bb1[i] = 1 + g.intn(2)
		}
		bb2 := make([]int, r2)
		for i := range bb2 {
			bb2[i] = bb1[r1-r2+i]
			if g.chance(0.3) {
				bb2[i] = 1
			} else if g.chance(0.2) {
				bb1[r1-r2+i] = 1
			}
		}
		if g.chance(0.5) {
			bb1, bb2 = bb2, bb1
		}
		m, n, k = 1+g.intn(3), 1+g.intn(3), 1+g.intn(3)
		s1 = append(append([]int{}, bb1...), m, n)
		s2 = append(append([]int{}, bb2...), n, k)
		g.tag("high-rank-matmul")
	}
	a := g.leafDistinct(s1, false, -2, 2)
	b := g.leafDistinct(s2, false, -2, 2)
	ab, o := g.do(Cmd{Op: OpMatMul, T: a, U: T(b)})
	if o.Kind == "tensor" && g.chance(0.5) {
		// the operands are used again after the product (their shapes and elements must be what they were)
		g.do(Cmd{Op: OpScale, T: a, A: Dec{2, 0}})
		g.do(Cmd{Op: OpShape, T: a})
		g.do(Cmd{Op: OpBin, K: 8, T: b, U: T(b)})
		g.tag("operands-reused-after-matmul")
	}
	if len(s1) != len(s2) {
		g.tag("matmul-rank-mismatch")
	}
	if o.Kind == "tensor" {
		g.tag("matmul-ok")
		// (A.B)^T = B^T.A^T when batch shapes agree
		at, _ := g.do(Cmd{Op: OpTranspose, T: a})
		bt, _ := g.do(Cmd{Op: OpTranspose, T: b})
		abt, _ := g.do(Cmd{Op: OpTranspose, T: ab})
		btat, o2 := g.do(Cmd{Op: OpMatMul, T: bt, U: T(at)})
		if o2.Kind == "tensor" {
			g.do(Cmd{Op: OpEquals, T: abt, U: T(btat)})
		}
		// A.I = A
		eye, _ := g.do(Cmd{Op: OpEye, Z: n, Cfg: nil})
		ai, _ := g.do(Cmd{Op: OpMatMul, T: a, U: T(eye)})
		g.do(Cmd{Op: OpEquals, T: ai, U: T(a)})
		if g.chance(0.4) {
			// matrices DERIVED from an identity (an entry patched, scaled, transposed, sliced in full) are ordinary
			// matrices: their products are the sums of products of their own entries
			g.tag("derived-from-identity")
			var e2 int
			switch g.intn(4) {
			case 0:
				src := g.leafVals([]int{1, 1}, []float64{float64(2 + g.intn(5))}, false)
				i, j := g.intn(n), g.intn(n)
				e2, _ = g.do(Cmd{Op: OpPatch, T: eye, Ranges: [][2]int{{i, i + 1}, {j, j + 1}}, U: T(src)})
			case 1:
				e2, _ = g.do(Cmd{Op: OpScale, T: eye, A: Dec{3, 0}})
			case 2:
				src := g.leafDistinct([]int{n, n}, false, -2, 2)
				e2, _ = g.do(Cmd{Op: OpPatch, T: eye, Ranges: nil, U: T(src)})
			default:
				e2, _ = g.do(Cmd{Op: OpSlice, T: eye, Ranges: nil})
			}
			if g.isT(e2) {
				g.do(Cmd{Op: OpMatMul, T: a, U: T(e2)})
				at2, _ := g.do(Cmd{Op: OpTranspose, T: a})
				if g.isT(at2) {
					g.do(Cmd{Op: OpMatMul, T: e2, U: T(at2)})
				}
			}
		}
	}
	// dot
	l := 1 + g.intn(3)
	d1 := append(append([]int{}, b1...), l)
	d2 := append(append([]int{}, b2...), l)
	if prod(d1) > 150 || prod(d2) > 150 || len(d1) > 6 || len(d2) > 6 {
		d1, d2 = []int{l}, []int{l}
	}
	p := g.leafDistinct(d1, false, -2, 2)
	q := g.leafDistinct(d2, false, -2, 2)
	g.do(Cmd{Op: OpDot, T: p, U: T(q)})
	g.tag("dot")
	// invalid: inner sizes differ / rank too small
	if g.chance(0.3) {
		bad := g.leafDistinct([]int{n + 1, k}, false, -2, 2)
		g.do(Cmd{Op: OpMatMul, T: a, U: T(bad)})
		v := g.leafDistinct([]int{n}, false, -2, 2)
		g.do(Cmd{Op: OpMatMul, T: a, U: T(v)})
		sc := g.leafDistinct([]int{}, false, -2, 2)
		g.do(Cmd{Op: OpDot, T: sc, U: T(sc)})
		g.do(Cmd{Op: OpTranspose, T: v})
		g.tag("linalg-invalid")
	}
}

func famReduce(g *Gen) {
	g.nontr = true
	ds := g.shape(0, 6, 3)
	var a int
	if g.chance(0.12) {
		ds = g.shapeBig()
		g.tag("large-tensor")
	} else if g.chance(0.1) {
		// long vectors / long innermost rows (blocked or unrolled reductions start at sizes like 32, 128, 1024)
		ds = [][]int{{129}, {300}, {1025}, {3, 36}, {2, 64}, {2, 130}, {5, 1, 32}}[g.intn(7)]
		g.tag("long-row")
	}
	if g.chance(0.06) {
		// beyond the sizes the model can carry (thresholds like 1<<14): checked against the specification directly
		bds := [][]int{{20001}, {16390}, {3, 16385}, {130, 129}, {2, 70, 128}}[g.intn(5)]
		g.directReduceBig(bds, g.valsDistinct(prod(bds), -3, 3))
	}
	if g.chance(0.08) {
		// fibres whose elements are all -Inf (or all +Inf), produced by the library itself (log 0): the maximum of
		// such a fibre is -Inf, not a finite sentinel
		g.tag("all-infinite-fibres")
		z := g.leafVals(ds, make([]float64, prod(ds)), false)
		inf, _ := g.do(Cmd{Op: OpMath, K: 1, T: z})
		if g.chance(0.5) {
			inf, _ = g.do(Cmd{Op: OpScale, T: inf, A: Dec{-1, 0}})
		}
		for _, k := range []int{0, 1, 2} {
			g.do(Cmd{Op: OpReduce, K: k, T: inf})
			if len(ds) > 0 {
				g.do(Cmd{Op: OpAlong, K: k, T: inf, Z: g.intn(len(ds))})
			}
		}
	}
	if g.chance(0.12) && len(ds) >= 2 {
		a = g.leafVals(ds, g.valsFibreOffsets(ds), false)
		g.tag("per-fibre-offsets")
	} else if g.chance(0.15) {
		a = g.leafVals(ds, g.valsOffset(prod(ds)), false)
		g.tag("large-offset-values")
	} else if g.chance(0.3) {
		// ties
		vals := make([]float64, prod(ds))
		for i := range vals {
			vals[i] = float64(g.intn(3))
		}
		a = g.leafVals(ds, vals, false)
		g.tag("ties")
	} else {
		a = g.leafDistinct(ds, false, -3, 3)
	}
	big := prod(ds) > 200
	for k := 0; k < 7; k++ {
		if big && (k == 4 || k == 5) {
			// the model's expression for Var/Std is quadratic in the element count (the mean is repeated
			// inside every term): large tensors are checked against the specification directly
			g.directVar(a, k == 5, -1)
			continue
		}
		g.do(Cmd{Op: OpReduce, K: k, T: a})
	}
	for i := 0; i < 4; i++ {
		dim := 0
		if len(ds) > 0 {
			dim = g.intn(len(ds))
		}
		k := g.intn(7)
		if big && (k == 4 || k == 5) {
			g.directVar(a, k == 5, dim)
			continue
		}
		g.do(Cmd{Op: OpAlong, K: k, T: a, Z: dim})
		g.tag(redNames[k] + "-along")
	}
	g.do(Cmd{Op: OpAlong, K: g.intn(7), T: a, Z: len(ds)})
	g.do(Cmd{Op: OpAlong, K: g.intn(7), T: a, Z: -1})
	// tensors DERIVED from the one that has just been reduced (a patched copy, a full slice, a reshape, a scaled
	// copy) are reduced in turn: their statistics are those of their own elements, not of the tensor they came from
	if !big && g.chance(0.5) {
		g.tag("derived-after-reduce")
		for j := 0; j < 1+g.intn(3); j++ {
			var y int
			var o Obs
			switch g.intn(5) {
			case 0, 1:
				if len(ds) > 0 {
					src, pidx := g.patchArgs(ds)
					p := g.leafDistinct(src, false, 10, 20)
					y, o = g.do(Cmd{Op: OpPatch, T: a, Ranges: pidx, U: T(p)})
				} else {
					y, o = g.do(Cmd{Op: OpScale, T: a, A: Dec{3, 0}})
				}
			case 2:
				y, o = g.do(Cmd{Op: OpSlice, T: a, Ranges: nil})
			case 3:
				y, o = g.do(Cmd{Op: OpReshape, T: a, Dims: []int{prod(ds)}})
			default:
				y, o = g.do(Cmd{Op: OpBin, K: 8, T: a, U: T(a)})
			}
			if o.Kind != "tensor" {
				continue
			}
			for k := 0; k < 7; k++ {
				if g.chance(0.6) {
					g.do(Cmd{Op: OpReduce, K: k, T: y})
				}
			}
			if yd := g.shapeOf(y); len(yd) > 0 {
				g.do(Cmd{Op: OpAlong, K: g.intn(7), T: y, Z: g.intn(len(yd))})
			}
		}
	}
}

func famIndexing(g *Gen) {
	g.nontr = true
	ds := g.shape(0, 6, 3)
	if g.chance(0.05) {
		ds = g.shapeBig()
		g.tag("large-tensor")
	}
	a := g.leafDistinct(ds, false, -9, 9)
	if g.chance(0.2) {
		g.interfere(a)
	}
	g.do(Cmd{Op: OpNElems, T: a})
	g.do(Cmd{Op: OpShape, T: a})
	// At
	idx := make([]int, len(ds))
	for i := range idx {
		idx[i] = g.intn(ds[i])
	}
	g.do(Cmd{Op: OpAt, T: a, Dims: idx})
	// Slice
	for i := 0; i < 2; i++ {
		g.do(Cmd{Op: OpSlice, T: a, Ranges: g.sliceIndex(ds)})
	}
	g.do(Cmd{Op: OpSlice, T: a, Ranges: nil})
	// Patch and slicing back what was patched
	src, pidx := g.patchArgs(ds)
	p := g.leafDistinct(src, false, 10, 20)
	pt, o := g.do(Cmd{Op: OpPatch, T: a, Ranges: pidx, U: T(p)})
	if o.Kind == "tensor" {
		g.tag("patch-ok")
		back := make([][2]int, len(ds))
		for i := range ds {
			if i < len(pidx) && !(pidx[i][0] == 0 && pidx[i][1] == 0) {
				back[i] = pidx[i]
			} else {
				back[i] = [2]int{0, src[i]}
			}
		}
		sb, _ := g.do(Cmd{Op: OpSlice, T: pt, Ranges: back})
		g.do(Cmd{Op: OpEquals, T: sb, U: T(p)})
	}
	// reshape family
	if len(ds) > 0 {
		g.do(Cmd{Op: OpFlatten, T: a, Z: g.intn(len(ds))})
		g.do(Cmd{Op: OpUnsqueeze, T: a, Z: g.intn(len(ds) + 1)})
		for i, d := range ds {
			if d == 1 {
				g.do(Cmd{Op: OpSqueeze, T: a, Z: i})
				g.tag("squeeze")
				break
			}
		}
		g.do(Cmd{Op: OpReshape, T: a, Dims: []int{prod(ds)}})
		// a random factorisation
		n := prod(ds)
		var fs []int
		for n > 1 {
			f := 2
			for n%f != 0 {
				f++
			}
			if len(fs) > 0 && g.chance(0.4) {
				fs[len(fs)-1] *= f
			} else {
				fs = append(fs, f)
			}
			n /= f
		}
		if g.chance(0.5) {
			fs = append(fs, 1)
		}
		g.do(Cmd{Op: OpReshape, T: a, Dims: fs})
	} else {
		g.do(Cmd{Op: OpUnsqueeze, T: a, Z: 0})
		g.do(Cmd{Op: OpReshape, T: a, Dims: []int{1, 1}})
	}
	if len(ds) >= 2 {
		g.do(Cmd{Op: OpTranspose, T: a})
	}
	// chains of shape operations on RESULTS of shape operations (a result's dims slice may have been built by
	// append and carry spare capacity), looking at the intermediate tensors again afterwards
	if len(ds) <= 4 && g.chance(0.5) {
		cur := a
		var chain []int
		for i := 0; i < 2+g.intn(4); i++ {
			cds := g.shapeOf(cur)
			var y int
			var o Obs
			switch g.intn(5) {
			case 0, 1:
				y, o = g.do(Cmd{Op: OpUnsqueeze, T: cur, Z: g.intn(len(cds) + 1)})
			case 2:
				if len(cds) > 0 {
					y, o = g.do(Cmd{Op: OpFlatten, T: cur, Z: g.intn(len(cds))})
				} else {
					y, o = g.do(Cmd{Op: OpUnsqueeze, T: cur, Z: 0})
				}
			case 3:
				sq := -1
				for j, d := range cds {
					if d == 1 && (sq < 0 || g.chance(0.5)) {
						sq = j
					}
				}
				if sq >= 0 {
					y, o = g.do(Cmd{Op: OpSqueeze, T: cur, Z: sq})
				} else {
					y, o = g.do(Cmd{Op: OpUnsqueeze, T: cur, Z: len(cds)})
				}
			default:
				if len(cds) > 0 {
					y, o = g.do(Cmd{Op: OpAlong, K: 0, T: cur, Z: g.intn(len(cds))})
				} else {
					y, o = g.do(Cmd{Op: OpUnsqueeze, T: cur, Z: 0})
				}
			}
			if o.Kind != "tensor" {
				break
			}
			chain = append(chain, y)
			cur = y
		}
		for _, y := range chain {
			g.do(Cmd{Op: OpShape, T: y})
			g.do(Cmd{Op: OpSlice, T: y, Ranges: nil})
		}
		g.tag("shape-op-chain")
	}
	g.do(Cmd{Op: OpBroadcast, T: a, Dims: g.bcastTarget(ds)})
	// concat
	if len(ds) > 0 {
		dim := g.intn(len(ds))
		n := 2 + g.intn(3)
		ts := []Targ{T(a)}
		for i := 1; i < n; i++ {
			s := append([]int{}, ds...)
			s[dim] = 1 + g.intn(3)
			ts = append(ts, T(g.leafDistinct(s, false, 20+float64(10*i), 29+float64(10*i))))
		}
		cc, o := g.do(Cmd{Op: OpConcat, Targs: ts, Z: dim})
		if o.Kind == "tensor" {
			g.tag("concat-ok")
			// slicing the concatenation returns the first piece
			back := make([][2]int, len(ds))
			back[dim] = [2]int{0, ds[dim]}
			sb, _ := g.do(Cmd{Op: OpSlice, T: cc, Ranges: back})
			g.do(Cmd{Op: OpEquals, T: sb, U: T(a)})
		}
	}
	// constructors
	cds := g.shape(0, 5, 3)
	g.do(Cmd{Op: OpCtor, K: g.intn(3), Dims: cds, A: smallDec(g), Cfg: nil})
	g.do(Cmd{Op: OpEye, Z: 1 + g.intn(4), Cfg: &Cfg{Dev: 1, Track: g.chance(0.5)}})
	// TensorOf with rectangular data of depth 0..4
	depth := g.intn(5)
	tds := g.shape(depth, depth, 3)
	k := 0
	nd := rectNd(tds, &k)
	g.do(Cmd{Op: OpTensorOf, Data: nd, Z: depth, Vals: g.valsDistinct(prod(tds), -9, 9), Cfg: nil})
}

