package main

// The replay inputs of the defects found in the pinned tree (DESIGN.md §1), as corpus
// scenarios: they run first on every check of the properties they belong to.

import (
	"encoding/json"
	"os"
)

func leafC(ds []int, vals []float64, tracked bool) Cmd {
	return Cmd{Op: OpLeaf, Dims: ds, Vals: vals, Flag: tracked}
}

func writeCorpus(dir string) {
	os.MkdirAll(dir, 0o755)
	put := func(name, props string, cmds []Cmd) {
		b, _ := json.MarshalIndent(replayFile{Property: props, Tokens: encodeScenario(0, cmds), RngSeed: 1, Cmds: cmds}, "", " ")
		os.WriteFile(dir+"/"+name+".json", b, 0o644)
	}
	// D1: diamond x; m = 2x; y = m + m
	put("D1-diamond", "C01,C08,C11,C15", []Cmd{
		leafC([]int{2}, []float64{3, 5}, true),
		{Op: OpScale, T: 0, A: Dec{2, 0}},
		{Op: OpBin, K: 8, T: 1, U: T(1)},
		{Op: OpBackprop, U: T(2)},
	})
	// D1 through BCE: prediction [0.25,0.5], target [1,0]
	put("D1-bce", "C13,C01", []Cmd{
		leafC([]int{2}, []float64{0.25, 0.5}, true),
		leafC([]int{2}, []float64{1, 0}, false),
		{Op: OpLoss, K: 1, Targs: []Targ{T(0), T(1)}},
		{Op: OpBackprop, U: T(2)},
	})
	// D1 complexity: doubling chain of depth 60
	chain := []Cmd{leafC([]int{2}, []float64{1, 0.5}, true)}
	for i := 0; i < 60; i++ {
		chain = append(chain, Cmd{Op: OpBin, K: 8, T: i, U: T(i)})
	}
	chain = append(chain, Cmd{Op: OpBackprop, U: T(60)})
	put("D1-doubling-chain", "C01", chain)
	// D2: [1,2] broadcast to [3,2]
	put("D2-broadcast-avg", "C07,C01", []Cmd{
		leafC([]int{2}, []float64{1, 2}, true),
		{Op: OpBroadcast, T: 0, Dims: []int{3, 2}},
		{Op: OpBackprop, U: T(1)},
	})
	// D3: Dot of rank 2
	put("D3-dot", "C02", []Cmd{
		leafC([]int{2, 2}, []float64{1, 2, 3, 4}, true),
		leafC([]int{2, 2}, []float64{7, 8, 10, 20}, true),
		{Op: OpDot, T: 0, U: T(1)},
		leafC([]int{2}, []float64{10, 10}, false),
		{Op: OpBin, K: 10, T: 2, U: T(3)},
		{Op: OpBackprop, U: T(4)},
		leafC([]int{2, 3}, []float64{1, 2, 3, 4, 5, 6}, true),
		leafC([]int{2, 3}, []float64{6, 5, 4, 3, 2, 1}, true),
		{Op: OpDot, T: 6, U: T(7)},
		{Op: OpBackprop, U: T(8)},
	})
	// D4: Patch with an omitted range and a smaller source
	put("D4-patch", "C02", []Cmd{
		leafC([]int{3, 3}, []float64{1, 2, 3, 4, 5, 6, 7, 8, 9}, true),
		leafC([]int{2, 2}, []float64{10, 20, 30, 40}, true),
		{Op: OpPatch, T: 0, Ranges: [][2]int{{1, 3}}, U: T(1)},
		{Op: OpBackprop, U: T(2)},
	})
	// D5: Pow(0) at base 0; Sigmoid at 0; BCE at prediction 0
	put("D5-pow0", "C02,C13,C15", []Cmd{
		leafC([]int{2}, []float64{0, 2}, true),
		{Op: OpPow, T: 0, A: Dec{0, 0}},
		{Op: OpBackprop, U: T(1)},
		leafC([]int{2}, []float64{0, 1.5}, true),
		{Op: OpAct, K: 1, Targs: []Targ{T(3)}},
		{Op: OpBackprop, U: T(4)},
		leafC([]int{2}, []float64{0, 1}, true),
		leafC([]int{2}, []float64{1, 0}, false),
		{Op: OpLoss, K: 1, Targs: []Targ{T(6), T(7)}},
		{Op: OpBackprop, U: T(8)},
	})
	// D6: Softmax Dim 1
	put("D6-softmax", "C14,C15,C09", []Cmd{
		leafC([]int{2, 3}, []float64{1, 2, 3, 0, -1, 0.5}, true),
		{Op: OpAct, K: 4, HasZ: true, Z: 1, Targs: []Targ{T(0)}},
		{Op: OpAlong, K: 0, T: 1, Z: 1},
		leafC([]int{2, 2}, []float64{1, 2, 3, 0}, true),
		{Op: OpAct, K: 4, HasZ: true, Z: 1, Targs: []Targ{T(3)}},
	})
	// D7: ragged data of depth 3
	put("D7-ragged", "C09", []Cmd{
		{Op: OpTensorOf, Z: 3, Vals: []float64{1, 2, 3}, Data: &Nd{Kids: []*Nd{
			{Kids: []*Nd{{Kids: []*Nd{{Leaf: true, K: 0}, {Leaf: true, K: 1}}}}},
			{Kids: []*Nd{{Kids: []*Nd{{Leaf: true, K: 2}}}}},
		}}},
	})
	// D8: Input.Forward with unset SeedFunc
	put("D8-input", "C09", []Cmd{{Op: OpInputForward}})
	// D9: caller mutates the index between Slice and BackPropagate
	put("D9-alias", "C10", []Cmd{
		leafC([]int{4}, []float64{1, 2, 3, 4}, true),
		{Op: OpSlice, T: 0, Ranges: [][2]int{{0, 2}}},
		{Op: OpNop, Mut: true, MutOf: 1},
		{Op: OpBackprop, U: T(1)},
	})
}
