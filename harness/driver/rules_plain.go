//go:build !verif

package main

// built without the verif tag (the race-detector binary of C20: the hook's atomic counter would add
// synchronisation between goroutines and could hide races in the back-propagation code)
func ruleCount() int64 { return 0 }
