package main

// C20: goroutines run forward programs on shared tensors (including shared tracked
// parameters) and build / back-propagate private graphs that share only untracked tensors.
// The driver is built with -race for this property; every goroutine's observables are compared
// with a sequential dry run (bitwise) and with the model (which is the sequential semantics).

import (
	"fmt"
	mrand "math/rand"
	"sync"

	"github.com/sahandsafizadeh/qeep/tensor"
)

type concProgram struct {
	cmds []Cmd
	dry  []Obs
}

// forward-only work on shared tensors (any of them, tracked or not)
func (g *Gen) concForward(shared []int, fc int) {
	x := shared[g.intn(len(shared))]
	switch g.intn(10) {
	case 8:
		// error paths interleaved with ordinary work: a product whose SECOND operand cannot be broadcast (and one
		// whose first cannot), then implicitly broadcasting operations on private and shared tensors
		a := g.leafDistinct([]int{3, 2, 4}, false, -2, 2)
		b := g.leafDistinct([]int{2, 4, 5}, false, -2, 2)
		g.do(Cmd{Op: OpMatMul, T: a, U: T(b)})
		if g.chance(0.3) {
			g.do(Cmd{Op: OpMatMul, T: b, U: T(a)})
		}
		col := g.leafDistinct([]int{3, 1}, false, -2, 2)
		row := g.leafDistinct([]int{1, 4}, false, -2, 2)
		s1, _ := g.do(Cmd{Op: OpBin, K: 8, T: col, U: T(row)})
		if g.isT(s1) {
			s2, _ := g.do(Cmd{Op: OpBin, K: 10, T: s1, U: T(row)})
			if g.isT(s2) {
				pr := g.leafDistinct([]int{4, 2}, false, -2, 2)
				g.do(Cmd{Op: OpMatMul, T: s2, U: T(pr)})
			}
		}
		if len(g.shapeOf(x)) > 0 {
			sc := g.leafDistinct([]int{1}, false, -2, 2)
			g.do(Cmd{Op: OpBin, K: 8 + g.intn(3), T: x, U: T(sc)})
		}
	case 0:
		g.do(Cmd{Op: OpMath, K: g.pick(2, 3, 7, 0), T: x})
	case 1:
		u := shared[g.intn(len(shared))]
		g.do(Cmd{Op: OpBin, K: 8 + g.intn(3), T: x, U: T(u)})
	case 2:
		g.do(Cmd{Op: OpReduce, K: g.intn(7), T: x})
	case 3:
		if len(g.shapeOf(x)) > 0 {
			g.do(Cmd{Op: OpAlong, K: g.intn(7), T: x, Z: g.intn(len(g.shapeOf(x)))})
		}
	case 4:
		g.do(Cmd{Op: OpSlice, T: x, Ranges: g.sliceIndex(g.shapeOf(x))})
	case 5:
		if len(g.shapeOf(x)) == 2 {
			y, _ := g.do(Cmd{Op: OpFCForward, T: fc, Targs: []Targ{T(x)}})
			if g.isT(y) {
				a, _ := g.do(Cmd{Op: OpAct, K: g.intn(4), Targs: []Targ{T(y)}})
				if g.isT(a) {
					f, _ := g.do(Cmd{Op: OpFlatten, T: a, Z: 0})
					t := g.leafVals(g.shapeOf(f), g.probVals(prod(g.shapeOf(f)), false), false)
					g.do(Cmd{Op: OpLoss, K: g.intn(2), Targs: []Targ{T(f), T(t)}})
				}
			}
		}
	case 6:
		g.do(Cmd{Op: OpShape, T: x})
		g.do(Cmd{Op: OpNElems, T: x})
	case 7:
		if len(g.shapeOf(x)) >= 2 {
			t, _ := g.do(Cmd{Op: OpTranspose, T: x})
			if g.isT(t) {
				g.do(Cmd{Op: OpMatMul, T: x, U: T(t)})
			}
		}
	default:
		u := shared[g.intn(len(shared))]
		g.do(Cmd{Op: OpBin, K: g.intn(8), T: x, U: T(u)})
	}
}

// a private graph over own tracked leaves and shared UNTRACKED tensors, then back-propagation
func (g *Gen) concPrivateGraph(sharedUntracked []int) {
	if len(sharedUntracked) == 0 {
		return
	}
	s := sharedUntracked[g.intn(len(sharedUntracked))]
	if len(sharedUntracked) > 1 && g.chance(0.6) {
		// several goroutines should meet on the SAME shared tensor: prefer one of them
		s = sharedUntracked[1]
	}
	ds := g.shapeOf(s)
	w := g.leafDistinct(ds, true, -1.5, 1.5)
	pool := []int{w, s}
	direct := -1
	if g.chance(0.6) {
		// the shared untracked tensor as a DIRECT operand (back-edge target) next to a tracked one
		var y int
		switch g.intn(4) {
		case 0:
			y, _ = g.do(Cmd{Op: OpBin, K: 6, T: w, U: T(s)})
		case 1:
			y, _ = g.do(Cmd{Op: OpBin, K: 7, T: s, U: T(w)})
		case 2:
			if len(ds) > 0 {
				c, o := g.do(Cmd{Op: OpConcat, Targs: []Targ{T(s), T(w), T(s)}, Z: 0})
				if o.Kind == "tensor" {
					y, _ = g.do(Cmd{Op: OpAlong, K: 0, T: c, Z: 0})
				}
			}
		default:
			if len(ds) > 0 {
				y, _ = g.do(Cmd{Op: OpPatch, T: w, Ranges: nil, U: T(s)})
				if g.isT(y) {
					y, _ = g.do(Cmd{Op: OpBin, K: 10, T: y, U: T(w)})
				}
			}
		}
		if g.isT(y) && len(g.shapeOf(y)) == len(ds) && prod(g.shapeOf(y)) == prod(ds) {
			pool = append(pool, y)
			direct = y
		}
	}
	for i := 0; i < 2+g.intn(5); i++ {
		y := g.dagStep(pool, false)
		if g.isT(y) {
			pool = append(pool, y)
		}
	}
	root := pool[len(pool)-1]
	if direct >= 0 && root != direct {
		// make sure the back-propagation reaches the node that has the shared tensor as a direct back-edge target
		if r2, o := g.do(Cmd{Op: OpBin, K: 8, T: root, U: T(direct)}); o.Kind == "tensor" {
			root = r2
		}
	}
	g.do(Cmd{Op: OpBackprop, U: T(root)})
	g.do(Cmd{Op: OpGradOf, T: w})
	if g.chance(0.5) {
		g.do(Cmd{Op: OpReset, T: w, Flag: true})
	}
}

func runConcurrent(seed int64, tier string) ([]*Scenario, []string) {
	var problems []string
	var scens []*Scenario
	rounds := 12
	if tier == "thorough" {
		rounds = 150
	}
	top := mrand.New(mrand.NewSource(seed*7919 + 17))
	for round := 0; round < rounds; round++ {
		rs := top.Uint64()
		// ---- shared prefix ----
		g0 := &Gen{Runner: NewRunner(rs), rng: mrand.New(mrand.NewSource(int64(rs))), tags: map[string]bool{}, tier: tier}
		in, out, batch := 1+g0.intn(3), 1+g0.intn(3), 1+g0.intn(3)
		fc, _ := g0.do(Cmd{Op: OpFCNew, Dims: []int{in, out}, WI: OptInit{Spec: InitSpec{Kind: 0, D1: Dec{5, -1}}}, BI: OptInit{Spec: InitSpec{Kind: 0, D1: Dec{25, -2}}}})
		var shared, sharedUntracked []int
		xb := g0.leafDistinct([]int{batch, in}, false, -1.5, 1.5)
		shared = append(shared, xb)
		sharedUntracked = append(sharedUntracked, xb)
		ds := g0.shape(1, 3, 3)
		for i := 0; i < 2+g0.intn(3); i++ {
			tr := g0.chance(0.5)
			t := g0.leafDistinct(ds, tr, -1.5, 1.5)
			shared = append(shared, t)
			if !tr {
				sharedUntracked = append(sharedUntracked, t)
			}
		}
		// matrices large enough for blocked / packed fast paths
		big1 := g0.leafDistinct([]int{6 + g0.intn(4), 8 + g0.intn(3)}, g0.chance(0.5), -1.5, 1.5)
		shared = append(shared, big1)
		if !g0.Cmds[big1].Flag {
			sharedUntracked = append(sharedUntracked, big1)
		}
		// a left operand and two different right operands with >= 512 elements each (packing buffers, block caches)
		var wideA, wideB []int
		if round%3 == 0 {
			wideA = append(wideA, g0.leafDistinct([]int{4 + g0.intn(4), 32}, g0.chance(0.5), -1, 1))
			wideB = append(wideB, g0.leafDistinct([]int{32, 16 + g0.intn(3)}, false, -1, 1), g0.leafDistinct([]int{32, 16 + g0.intn(3)}, false, -1, 1))
		}
		prefix := append([]Cmd{}, g0.Cmds...)
		prefixObs := append([]Obs{}, g0.Obs...)
		// ---- programs by sequential dry run on private copies of the shared tensors ----
		nThreads := 2 + top.Intn(5)
		progs := make([]concProgram, nThreads)
		for t := 0; t < nThreads; t++ {
			ps := top.Uint64()
			g := &Gen{Runner: NewRunner(rs), rng: mrand.New(mrand.NewSource(int64(ps))), tags: map[string]bool{}, tier: tier}
			for _, c := range prefix {
				g.Do(c)
			}
			n := 4 + g.intn(10)
			for i := 0; i < n; i++ {
				switch {
				case len(wideA) > 0 && g.chance(0.4):
					g.do(Cmd{Op: OpMatMul, T: wideA[0], U: T(wideB[(t+i)%2])})
				case g.chance(0.3):
					g.concPrivateGraph(sharedUntracked)
				case g.chance(0.35):
					// products of the large shared matrix (above typical blocking / packing thresholds), forward and backward
					bt, _ := g.do(Cmd{Op: OpTranspose, T: big1})
					if g.isT(bt) {
						p1, _ := g.do(Cmd{Op: OpMatMul, T: big1, U: T(bt)})
						if g.isT(p1) && !g.Cmds[big1].Flag && g.chance(0.5) {
							w := g.leafDistinct(g.shapeOf(bt), true, -1, 1)
							p2, _ := g.do(Cmd{Op: OpMatMul, T: big1, U: T(w)})
							if g.isT(p2) {
								g.do(Cmd{Op: OpBackprop, U: T(p2)})
							}
						}
					}
				default:
					g.concForward(shared, fc)
				}
			}
			progs[t] = concProgram{cmds: append([]Cmd{}, g.Cmds[len(prefix):]...), dry: append([]Obs{}, g.Obs[len(prefix):]...)}
		}
		// ---- concurrent execution on the really shared objects ----
		runners := make([]*Runner, nThreads)
		var wg sync.WaitGroup
		startGate := make(chan struct{})
		for t := 0; t < nThreads; t++ {
			r := &Runner{vals: map[int][]float64{}, gvals: map[[2]int][]float64{}, rngSeed: rs, retained: map[int][]any{}, layerCache: map[string]fwdLayer{}, lossCache: map[int]lossFn{}}
			r.Cmds = append([]Cmd{}, prefix...)
			r.Obs = append([]Obs{}, prefixObs...)
			r.env = append([]obj{}, g0.env...)
			for k, v := range g0.vals {
				r.vals[k] = v
			}
			runners[t] = r
			wg.Add(1)
			go func(t int, r *Runner) {
				defer wg.Done()
				<-startGate
				for i, c := range progs[t].cmds {
					r.Do(c)
					// random constructors may be called concurrently as well (shape and support only)
					// only in every other round: the global source's lock synchronises the goroutines, which can hide
					// races elsewhere from the detector
					if round%2 == 0 && i%3 == 0 {
						u, err := tensor.RandU([]int{2, 2}, -1, 1, nil)
						if err != nil || u.NElems() != 4 || u.Max() >= 1 || u.Min() < -1 {
							panic("harness-conc: RandU violated shape/support under concurrency")
						}
						if _, err := tensor.RandN([]int{3}, 0, 1, nil); err != nil {
							panic("harness-conc: RandN failed under concurrency")
						}
					}
				}
			}(t, r)
		}
		close(startGate)
		wg.Wait()
		for t, r := range runners {
			// bitwise agreement with the sequential dry run
			for i, o := range r.Obs[len(prefix):] {
				d := progs[t].dry[i]
				d.Rules, o.Rules = 0, 0 // the counter is global: not meaningful per goroutine
				if fmt.Sprintf("%v", d) != fmt.Sprintf("%v", o) {
					problems = append(problems, fmt.Sprintf("round %d goroutine %d command %d (%s): concurrent result %s differs from sequential result %s",
						round, t, len(prefix)+i, progs[t].cmds[i].String(), obsString(o), obsString(d)))
				}
			}
			r.Finish()
			scens = append(scens, &Scenario{Family: "concurrent", R: r, Nontrivial: true, Tags: []string{fmt.Sprintf("goroutines-%d", nThreads)}})
		}
	}
	return scens, problems
}
