package main

// Evaluates the model's observables (integer-encoded expression trees over observed operand
// values, see coq/Corr/Codec.v encObs/encTerm) with Go's own float64 arithmetic and compares
// them with what the library returned.  This file is the only place where float semantics are
// interpreted.

import (
	"fmt"
	"math"
)

type Mismatch struct {
	Cmd      int    `json:"cmd"`
	What     string `json:"what"`
	Observed string `json:"observed"`
	Expected string `json:"expected"`
}

type evaluator struct {
	r       *Runner
	thr     float64
	tok     []int64
	p       int
	missing bool
	inexact int // compared equal within tolerance but not bit-identical
	values  int // element comparisons made
}

func (e *evaluator) next() int64 {
	if e.p >= len(e.tok) {
		panic("harness: truncated model output")
	}
	v := e.tok[e.p]
	e.p++
	return v
}

func b2f(b bool) float64 {
	if b {
		return 1
	}
	return 0
}

// returns the value and whether the expression is a bare reference / literal
func (e *evaluator) term() (float64, bool) {
	switch e.next() {
	case 0:
		n, k := int(e.next()), int(e.next())
		v, ok := e.r.vals[n]
		if !ok || k >= len(v) {
			e.missing = true
			return math.NaN(), true
		}
		return v[k], true
	case 1:
		n, c, k := int(e.next()), int(e.next()), int(e.next())
		v, ok := e.r.gvals[[2]int{n, c}]
		if !ok || k >= len(v) {
			e.missing = true
			return math.NaN(), true
		}
		return v[k], true
	case 2:
		m, ex := e.next(), e.next()
		return Dec{m, ex}.F(), true
	case 3:
		return float64(e.next()), true
	case 4:
		return math.Inf(-1), true
	case 5:
		return math.Inf(1), true
	case 6:
		_ = e.next()
		k := int(e.next())
		if k >= len(e.r.draws) {
			e.missing = true
			return math.NaN(), true
		}
		return e.r.draws[k], true
	case 7:
		code := e.next()
		a, _ := e.term()
		switch code {
		case 0:
			return math.Exp(a), false
		case 1:
			return math.Log(a), false
		case 2:
			return math.Sin(a), false
		case 3:
			return math.Cos(a), false
		case 4:
			return math.Tan(a), false
		case 5:
			return math.Sinh(a), false
		case 6:
			return math.Cosh(a), false
		case 7:
			return math.Tanh(a), false
		case 8:
			return math.Sqrt(a), false
		case 9:
			return float64(int(a)), false
		}
	case 8:
		code := e.next()
		a, _ := e.term()
		b, _ := e.term()
		switch code {
		case 0:
			return a + b, false
		case 1:
			return a - b, false
		case 2:
			return a * b, false
		case 3:
			return a / b, false
		case 4:
			return math.Pow(a, b), false
		case 5:
			return math.Max(a, b), false
		case 6:
			return math.Min(a, b), false
		case 7:
			if a > b {
				return a, false
			}
			return b, false
		case 8:
			if a < b {
				return a, false
			}
			return b, false
		case 9:
			return b2f(math.Abs(a-b) <= e.thr), false
		case 10:
			return b2f(!(math.Abs(a-b) <= e.thr)), false
		case 11:
			return b2f(a > b), false
		case 12:
			return b2f(a >= b), false
		case 13:
			return b2f(a < b), false
		case 14:
			return b2f(a <= b), false
		case 15:
			return b2f(a >= b), false
		}
	}
	panic("harness: bad term encoding in model output")
}

func (e *evaluator) same(obs, exp float64, bare bool) bool {
	e.values++
	if math.IsNaN(obs) || math.IsNaN(exp) {
		return math.IsNaN(obs) && math.IsNaN(exp)
	}
	if math.IsInf(obs, 0) || math.IsInf(exp, 0) {
		return obs == exp
	}
	if obs == exp {
		return true
	}
	if bare {
		return false
	}
	if math.Abs(obs-exp) <= 1e-9*math.Max(1, math.Max(math.Abs(obs), math.Abs(exp))) {
		e.inexact++
		return true
	}
	return false
}

func (e *evaluator) ints() []int {
	n := int(e.next())
	o := make([]int, n)
	for i := range o {
		o[i] = int(e.next())
	}
	return o
}

func eqInts(a, b []int) bool {
	if len(a) != len(b) {
		return false
	}
	for i := range a {
		if a[i] != b[i] {
			return false
		}
	}
	return true
}

// shaped values: rank dims.. n terms..
func (e *evaluator) shaped(obsDims []int, obsVals []float64, have bool) (ok bool, detail string) {
	ds := e.ints()
	n := int(e.next())
	exp := make([]float64, n)
	bare := make([]bool, n)
	for i := 0; i < n; i++ {
		exp[i], bare[i] = e.term()
	}
	if !have {
		return false, fmt.Sprintf("shape %v values %v", ds, exp)
	}
	if !eqInts(ds, obsDims) {
		return false, fmt.Sprintf("shape %v values %v", ds, exp)
	}
	if len(obsVals) != n {
		return false, fmt.Sprintf("shape %v values %v", ds, exp)
	}
	for i := 0; i < n; i++ {
		if !e.same(obsVals[i], exp[i], bare[i]) {
			return false, fmt.Sprintf("shape %v values %v (first difference at element %d)", ds, exp, i)
		}
	}
	return true, ""
}

func obsString(o Obs) string {
	switch o.Kind {
	case "tensor":
		return fmt.Sprintf("tensor shape %v values %v", o.Dims, o.Vals)
	case "scalar":
		return fmt.Sprintf("scalar %v", o.F)
	case "bool":
		return fmt.Sprintf("bool %v", o.B)
	case "int":
		return fmt.Sprintf("int %d", o.Int)
	case "ints":
		return fmt.Sprintf("ints %v", o.Ints)
	case "err":
		return "error: " + o.Msg
	case "panic":
		return "PANIC: " + o.Msg
	case "grads":
		s := fmt.Sprintf("rule evaluations %d;", o.Rules)
		for _, g := range o.Grads {
			if g.Nil {
				s += fmt.Sprintf(" t%d:nil", g.Name)
			} else {
				s += fmt.Sprintf(" t%d:%v%v", g.Name, g.Dims, g.Vals)
			}
		}
		return s
	}
	return o.Kind
}

// compares one command's model observable (tokens) with the library's
func (e *evaluator) compare(cmd int, o Obs, tok []int64, checkRules bool) *Mismatch {
	e.tok, e.p, e.missing = tok, 0, false
	mm := func(what, exp string) *Mismatch {
		return &Mismatch{Cmd: cmd, What: what, Observed: obsString(o), Expected: exp}
	}
	code := e.next()
	simple := map[int64]string{0: "err", 1: "panic", 2: "ok", 3: "nil"}
	if k, ok := simple[code]; ok {
		if o.Kind != k {
			return mm("outcome", k)
		}
		return nil
	}
	switch code {
	case 4:
		z := int(e.next())
		if o.Kind != "int" || o.Int != z {
			return mm("integer result", fmt.Sprintf("int %d", z))
		}
	case 5:
		l := e.ints()
		if o.Kind != "ints" || !eqInts(l, o.Ints) {
			return mm("shape result", fmt.Sprintf("ints %v", l))
		}
	case 6:
		v, bare := e.term()
		if o.Kind != "scalar" || e.missing || !e.same(o.F, v, bare) {
			return mm("scalar result", fmt.Sprintf("scalar %v", v))
		}
	case 7:
		v, _ := e.term()
		if o.Kind != "bool" || e.missing || o.B != (v != 0) {
			return mm("boolean result", fmt.Sprintf("bool %v", v != 0))
		}
	case 8:
		ok, detail := e.shaped(o.Dims, o.Vals, o.Kind == "tensor")
		if !ok || e.missing {
			return mm("tensor result", "tensor "+detail)
		}
	case 9:
		rules := int(e.next())
		n := int(e.next())
		if o.Kind != "grads" {
			// consume nothing further; structure mismatch
			return mm("outcome", "gradients assigned")
		}
		byName := map[int]GradObs{}
		for _, g := range o.Grads {
			byName[g.Name] = g
		}
		seen := 0
		for i := 0; i < n; i++ {
			name := int(e.next())
			has := e.next() == 1
			g, present := byName[name]
			if present {
				seen++
			}
			if !has {
				if !present || !g.Nil {
					return mm(fmt.Sprintf("gradient of t%d", name), "nil")
				}
				continue
			}
			ok, detail := e.shaped(g.Dims, g.Vals, present && !g.Nil)
			if !ok || e.missing {
				return mm(fmt.Sprintf("gradient of t%d", name), detail)
			}
		}
		if seen != len(o.Grads) {
			return mm("set of tensors", fmt.Sprintf("%d tensors", n))
		}
		if checkRules && rules != o.Rules {
			return mm("number of backward rule evaluations", fmt.Sprintf("%d", rules))
		}
	case 10:
		return mm("scenario rejected by the model (harness bug)", "bad scenario")
	default:
		return mm("model output undecodable", "?")
	}
	return nil
}
