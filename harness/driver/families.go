package main

func familiesFor(prop string) []Family {
	switch prop {
	case "C03":
		return []Family{{"elementwise", 3, famElementwise}, {"broadcast-pairs", 2, famBroadcastPairs}}
	case "C04":
		return []Family{{"linalg", 4, famLinalg}}
	case "C05":
		return []Family{{"reduce", 4, famReduce}}
	case "C06":
		return []Family{{"indexing", 4, famIndexing}}
	}
	return nil
}
