package main

func familiesFor(prop string) []Family {
	switch prop {
	case "C03":
		return []Family{{"elementwise", 3, famElementwise}, {"broadcast-pairs", 2, famBroadcastPairs}}
	case "C04":
		return []Family{{"linalg", 4, famLinalg}}
	case "C05":
		return []Family{{"reduce", 4, famReduce}}
	case "C06":
		return []Family{{"indexing", 4, famIndexing}}
	case "C01":
		return []Family{{"dag", 5, famDAG}, {"deep-chain", 1, famDeepChain}}
	case "C02":
		return []Family{{"vjp", 8, famVJP}}
	case "C07":
		return []Family{{"broadcast-grad", 5, famBroadcastGrad}}
	case "C08":
		return []Family{{"tracking", 4, famTracking}}
	case "C09":
		return []Family{{"total", 5, famTotal}}
	case "C10":
		return []Family{{"alias", 4, famAlias}, {"frame", 2, famFrame}}
	case "C11":
		return []Family{{"train", 4, famTrain}}
	case "C12":
		return []Family{{"loss-value", 5, famLossValue}}
	case "C13":
		return []Family{{"loss-grad", 5, famLossGrad}}
	case "C14":
		return []Family{{"act-value", 5, famActValue}}
	case "C15":
		return []Family{{"act-grad", 5, famActGrad}}
	case "C16":
		return []Family{{"fc", 4, famFC}}
	case "C17":
		return []Family{{"sgd", 4, famSGD}}
	case "C18":
		return []Family{{"init", 5, famInit}}
	case "C19":
		return []Family{{"accuracy", 4, famAccuracy}}
	}
	return nil
}
