//go:build verif

package main

import "github.com/sahandsafizadeh/qeep/tensor"

// the rule-evaluation counter of the verif hook (bounded number of rule applications, C01)
func ruleCount() int64 { return tensor.VerifRuleCount() }
