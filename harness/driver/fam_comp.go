package main

// Scenario families for the component properties: C11 (training loop), C12/C13 (losses),
// C14/C15 (activations), C16 (FC), C17 (SGD), C18 (initializers), C19 (accuracy).

import "math"

// ---------- upstream computations: the input of a component as the result of earlier tracked ops ----------
// returns a tensor of the given shape computed from a tracked leaf through 0..3 ops
func (g *Gen) upstream(ds []int, lo, hi float64, depth int) (leaf, out int) {
	leaf = g.leafDistinct(ds, true, lo, hi)
	out = leaf
	for i := 0; i < depth; i++ {
		switch g.intn(3) {
		case 0:
			// x * 1 + 0 through another untracked tensor
			o := g.leafVals(ds, constVals(prod(ds), 1), false)
			out, _ = g.do(Cmd{Op: OpBin, K: 10, T: out, U: T(o)})
		case 1:
			z := g.leafVals(ds, constVals(prod(ds), 0), false)
			out, _ = g.do(Cmd{Op: OpBin, K: 8, T: out, U: T(z)})
		default:
			// reshape round trip
			if len(ds) > 0 {
				f, _ := g.do(Cmd{Op: OpFlatten, T: out, Z: 0})
				out, _ = g.do(Cmd{Op: OpReshape, T: f, Dims: ds})
			} else {
				out, _ = g.do(Cmd{Op: OpScale, T: out, A: Dec{1, 0}})
			}
		}
	}
	return
}

func constVals(n int, v float64) []float64 {
	o := make([]float64, n)
	for i := range o {
		o[i] = v
	}
	return o
}

// ---------- losses ----------
func (g *Gen) probVals(n int, withBounds bool) []float64 {
	out := make([]float64, n)
	for i := range out {
		switch {
		case withBounds && g.chance(0.12):
			out[i] = 0
		case withBounds && g.chance(0.12):
			out[i] = 1
		default:
			out[i] = math.Round((0.02+0.96*g.rng.Float64())*1000) / 1000
		}
	}
	return out
}

func (g *Gen) wildVals(n int) []float64 {
	pool := []float64{0, 1, -1, 2, 0.5, 1e6, -1e6, 1e-12, 1 - 1e-12, 1e-13, 1 - 1e-13, 2e-12, 1 + 1e-12, -1e-12, 0.25, 0.999, 1e-6, 37.5}
	out := make([]float64, n)
	for i := range out {
		if g.chance(0.6) {
			out[i] = pool[g.intn(len(pool))]
		} else {
			out[i] = math.Round((g.rng.Float64()*3-1)*1000) / 1000
		}
	}
	return out
}

func famLossValue(g *Gen) {
	g.nontr = true
	k := g.intn(3)
	g.tag(lossNames[k])
	b := 1 + g.intn(5)
	if k == 0 && g.chance(0.1) {
		b = g.pick(1030, 129, 300)
		g.tag("large-batch")
	}
	if k == 0 && g.chance(0.08) {
		// an epoch-sized batch: the mean runs over tens of thousands of terms (checked against the formula directly)
		g.directMSEBig(g.pick(16390, 20000, 40000))
	}
	ds := []int{b}
	if k == 2 {
		ds = []int{b, 1 + g.intn(5)}
	}
	n := prod(ds)
	var pv, tv []float64
	if g.chance(0.5) {
		pv, tv = g.wildVals(n), g.wildVals(n)
		g.tag("wild-values")
	} else {
		pv, tv = g.probVals(n, true), g.probVals(n, true)
	}
	tr := g.chance(0.5)
	p := g.leafVals(ds, pv, tr)
	t := g.leafVals(ds, tv, g.chance(0.3))
	l, _ := g.do(Cmd{Op: OpLoss, K: k, Targs: []Targ{T(p), T(t)}})
	// does not depend on tracking: same values, flipped tracking
	p2 := g.leafVals(ds, pv, !tr)
	t2 := g.leafVals(ds, tv, false)
	l2, _ := g.do(Cmd{Op: OpLoss, K: k, Targs: []Targ{T(p2), T(t2)}})
	if g.isT(l) && g.isT(l2) {
		g.do(Cmd{Op: OpEquals, T: l, U: T(l2)})
	}
	// predictions that reproduce the targets exactly (soft labels included), as two tensors and as one: the loss
	// of a perfect prediction is the loss formula at p = t (for BCE / CE: the entropy of the labels, not 0)
	if g.chance(0.3) {
		g.tag("prediction-equals-target")
		sv := g.probVals(n, g.chance(0.5))
		ps := g.leafVals(ds, sv, g.chance(0.5))
		ts := g.leafVals(ds, append([]float64{}, sv...), false)
		g.do(Cmd{Op: OpLoss, K: k, Targs: []Targ{T(ps), T(ts)}})
		g.do(Cmd{Op: OpLoss, K: k, Targs: []Targ{T(ts), T(ts)}})
	}
	// the same loss object over an epoch: batch sizes grow and SHRINK (a short last batch), values incl. <= 0 and >= 1
	if g.chance(0.5) {
		g.tag("epoch-of-batches")
		sizes := []int{b + 1 + g.intn(3), b, 1 + g.intn(b), b + 2, 1}
		for _, bb := range sizes[:2+g.intn(4)] {
			dsb := []int{bb}
			if k == 2 {
				dsb = []int{bb, ds[1]}
			}
			nb := prod(dsb)
			pvb := g.wildVals(nb)
			if g.chance(0.5) {
				pvb = g.probVals(nb, true)
			}
			pvb[g.intn(nb)] = float64(g.pick(0, -1, 1, 2))
			pb := g.leafVals(dsb, pvb, g.chance(0.5))
			tb := g.leafVals(dsb, g.probVals(nb, true), false)
			g.do(Cmd{Op: OpLoss, K: k, Targs: []Targ{T(pb), T(tb)}})
		}
	}
	// invalid inputs
	if g.chance(0.3) {
		g.tag("invalid")
		g.do(Cmd{Op: OpLoss, K: k, Targs: []Targ{nil, T(t)}})
		g.do(Cmd{Op: OpLoss, K: k, Targs: []Targ{T(p), nil}})
		w := g.leaf(append(append([]int{}, ds...), 2), false)
		g.do(Cmd{Op: OpLoss, K: k, Targs: []Targ{T(p), T(w)}})
		ds2 := append([]int{}, ds...)
		ds2[len(ds2)-1]++
		w2 := g.leaf(ds2, false)
		g.do(Cmd{Op: OpLoss, K: k, Targs: []Targ{T(w2), T(t)}})
		sc := g.leaf([]int{}, false)
		g.do(Cmd{Op: OpLoss, K: k, Targs: []Targ{T(sc), T(sc)}})
	}
}

func famLossGrad(g *Gen) {
	g.nontr = true
	k := g.intn(3)
	g.tag(lossNames[k])
	b := 1 + g.intn(4)
	ds := []int{b}
	if k == 2 {
		ds = []int{b, 1 + g.intn(4)}
	}
	n := prod(ds)
	pass := func() {
		depth := g.intn(4)
		if depth > 0 {
			g.tag("upstream")
		}
		pv := g.probVals(n, k != 0)
		if k != 0 && g.chance(0.35) {
			// strictly inside the clipping interval but close to a bound (the property excludes only the bounds)
			near := []float64{1.5e-12, 1 - 1.5e-12, 3e-12, 1 - 3e-12, 1e-9, 1 - 1e-9, 1e-6}
			for j := 0; j < 1+g.intn(2); j++ {
				pv[g.intn(n)] = near[g.intn(len(near))]
			}
			g.tag("near-bound")
		}
		leaf := g.leafVals(ds, pv, g.chance(0.9))
		p := leaf
		for i := 0; i < depth; i++ {
			switch g.intn(3) {
			case 0:
				o := g.leafVals(ds, constVals(n, 1), false)
				p, _ = g.do(Cmd{Op: OpBin, K: 10, T: p, U: T(o)})
			case 1:
				z := g.leafVals(ds, constVals(n, 0), false)
				p, _ = g.do(Cmd{Op: OpBin, K: 8, T: p, U: T(z)})
			default:
				p, _ = g.do(Cmd{Op: OpScale, T: p, A: Dec{1, 0}})
			}
		}
		t := g.leafVals(ds, g.probVals(n, true), g.chance(0.2))
		l, _ := g.do(Cmd{Op: OpLoss, K: k, Targs: []Targ{T(p), T(t)}})
		if g.isT(l) {
			g.do(Cmd{Op: OpBackprop, U: T(l)})
		}
	}
	if g.chance(0.25) {
		// the way training continues: prediction and target of the NEXT step are both derived from tensors of a graph
		// that was already back-propagated (an update p - 0.1*grad, a scaled copy), then re-declared as a tracked leaf
		// and a frozen target (in either order), and the loss of the two is back-propagated
		g.tag("inputs-derived-from-trained-tensors")
		p0 := g.leafVals(ds, g.probVals(n, false), true)
		q0 := g.leafVals(ds, g.probVals(n, false), true)
		l0, _ := g.do(Cmd{Op: OpLoss, K: k, Targs: []Targ{T(p0), T(q0)}})
		if g.isT(l0) {
			g.do(Cmd{Op: OpBackprop, U: T(l0)})
			derive := func(x int) int {
				if gr, o := g.do(Cmd{Op: OpGradOf, T: x}); o.Kind == "tensor" && g.chance(0.6) {
					d, _ := g.do(Cmd{Op: OpScale, T: gr, A: Dec{1, -3}})
					if y, oy := g.do(Cmd{Op: OpBin, K: 9, T: x, U: T(d)}); oy.Kind == "tensor" {
						return y
					}
				}
				y, _ := g.do(Cmd{Op: OpScale, T: x, A: Dec{1, 0}})
				return y
			}
			p1, q1 := derive(p0), derive(q0)
			if g.isT(p1) && g.isT(q1) {
				if g.chance(0.5) {
					g.do(Cmd{Op: OpReset, T: p1, Flag: true})
					g.do(Cmd{Op: OpReset, T: q1, Flag: false})
				} else {
					g.do(Cmd{Op: OpReset, T: q1, Flag: false})
					g.do(Cmd{Op: OpReset, T: p1, Flag: true})
				}
				l1, _ := g.do(Cmd{Op: OpLoss, K: k, Targs: []Targ{T(p1), T(q1)}})
				if g.isT(l1) {
					g.do(Cmd{Op: OpBackprop, U: T(l1)})
				}
			}
		}
	}
	pass()
	if g.chance(0.45) {
		// further batches of the same size through the SAME loss object
		g.tag("second-pass-same-loss")
		pass()
		if g.chance(0.3) {
			pass()
		}
	}
}

// ---------- activations ----------
func (g *Gen) actCmd(k int, x Targ) Cmd {
	c := Cmd{Op: OpAct, K: k, Targs: []Targ{x}}
	return c
}

func (g *Gen) actVals(n int, k int) []float64 {
	out := make([]float64, n)
	for i := range out {
		switch g.intn(10) {
		case 0:
			out[i] = 0
		case 1:
			out[i] = math.Copysign(0, -1)
		case 2:
			if k == 4 {
				out[i] = float64(g.pick(-700, 700, 30, -30))
			} else {
				out[i] = float64(g.pick(-700, 700, 1e6, -1e6))
			}
		default:
			out[i] = math.Round((g.rng.Float64()*8-4)*1000) / 1000
		}
	}
	if k == 4 && g.chance(0.15) {
		// whole regions of the input far apart (one block of logits near +400, another near -400, within the
		// property's |x| <= 700): every slice is normalised on its own
		for i := range out {
			base := float64(g.pick(400, -400, 0, 390))
			if i < n/2 {
				base = -base
			}
			out[i] = base + math.Round(g.rng.Float64()*8*1000)/1000
		}
		return out
	}
	if k == 4 {
		// keep e^x finite relative to each other: avoid mixing +700 and the rest in one fibre overflow
		for i := range out {
			if out[i] == 700 && g.chance(0.7) {
				out[i] = 3
			}
		}
	}
	return out
}

func famActValue(g *Gen) {
	g.nontr = true
	k := g.intn(5)
	g.tag(actNames[k])
	ds := g.shape(0, 5, 3)
	c := Cmd{Op: OpAct, K: k}
	if k == 3 {
		if g.chance(0.7) {
			c.HasA = true
			c.A = []Dec{{5, -1}, {1, -1}, {0, 0}, {2, 0}, {-3, -1}, {1, -2}}[g.intn(6)]
		} else {
			g.tag("leaky-nilcfg")
		}
	}
	if k == 4 {
		if len(ds) == 0 {
			ds = []int{1 + g.intn(3)}
		}
		if g.chance(0.8) {
			c.HasZ = true
			c.Z = g.intn(len(ds))
			if c.Z > 0 {
				g.tag("softmax-dim>0")
			}
		} else {
			g.tag("softmax-nilcfg")
		}
	}
	x := g.leafVals(ds, g.actVals(prod(ds), k), g.chance(0.5))
	c.Targs = []Targ{T(x)}
	y, o := g.do(c)
	if k == 4 && o.Kind == "tensor" {
		// sums to one along the dimension
		dim := 0
		if c.HasZ {
			dim = c.Z
		}
		g.do(Cmd{Op: OpAlong, K: 0, T: y, Z: dim})
	}
	// the same layer object on inputs of other ranks and shapes afterwards (lower rank with the same trailing
	// dimensions, higher rank, other sizes): the result depends on the current input only
	if g.chance(0.5) {
		g.tag("layer-reused-on-other-shapes")
		for j := 0; j < 1+g.intn(3); j++ {
			var ds2 []int
			switch g.intn(4) {
			case 0:
				if len(ds) > 1 {
					ds2 = append([]int{}, ds[1+g.intn(len(ds)-1):]...)
				} else {
					ds2 = []int{}
				}
			case 1:
				ds2 = append([]int{1 + g.intn(3)}, ds...)
			case 2:
				ds2 = append([]int{}, ds...)
				if len(ds2) > 0 {
					ds2[0] = 1 + g.intn(4)
				}
			default:
				ds2 = g.shape(0, 4, 3)
			}
			if k == 4 {
				dim := 0
				if c.HasZ {
					dim = c.Z
				}
				if len(ds2) <= dim || len(ds2) > 5 {
					continue
				}
			}
			if len(ds2) > 5 {
				continue
			}
			x2 := g.leafVals(ds2, g.actVals(prod(ds2), k), g.chance(0.5))
			c2 := c
			c2.Targs = []Targ{T(x2)}
			g.do(c2)
		}
	}
	if g.chance(0.25) {
		g.tag("invalid")
		c2 := c
		c2.Targs = nil
		g.do(c2)
		c2.Targs = []Targ{T(x), T(x)}
		g.do(c2)
		c2.Targs = []Targ{nil}
		g.do(c2)
		if k == 4 {
			c3 := c
			c3.HasZ, c3.Z = true, len(ds)+g.intn(2)
			g.do(c3)
			c3.Z = -1
			g.do(c3)
		}
	}
}

func famActGrad(g *Gen) {
	g.nontr = true
	k := g.intn(5)
	g.tag(actNames[k])
	ds := g.shape(0, 4, 3)
	c := Cmd{Op: OpAct, K: k}
	if k == 3 && g.chance(0.75) {
		c.HasA = true
		c.A = []Dec{{5, -1}, {1, -1}, {2, 0}, {1, -2}, {1, 0}, {0, 0}, {-5, -1}, {3, 0}}[g.intn(8)]
		if c.A == (Dec{1, 0}) || c.A == (Dec{0, 0}) {
			g.tag("leaky-slope-0-or-1")
		}
	}
	if k == 4 {
		if len(ds) == 0 {
			ds = []int{1 + g.intn(3)}
		}
		if g.chance(0.85) {
			c.HasZ = true
			c.Z = g.intn(len(ds))
		}
	}
	n := prod(ds)
	pass := func(first bool) {
		vals := g.valsDistinct(n, -3, 3)
		if (k == 0 || k == 1 || k == 3) && n > 0 && g.chance(0.5) {
			vals[g.intn(n)] = 0
			g.tag("input-0")
		}
		depth := g.intn(4)
		leaf := g.leafVals(ds, vals, g.chance(0.9))
		x := leaf
		for i := 0; i < depth; i++ {
			switch g.intn(4) {
			case 0:
				o := g.leafVals(ds, constVals(n, 1), false)
				x, _ = g.do(Cmd{Op: OpBin, K: 10, T: x, U: T(o)})
			case 1:
				z := g.leafVals(ds, constVals(n, 0), false)
				x, _ = g.do(Cmd{Op: OpBin, K: 8, T: x, U: T(z)})
			case 2:
				// identity-like and ordinary scalings of a tracked intermediate
				x, _ = g.do(Cmd{Op: OpScale, T: x, A: []Dec{{1, 0}, {1, 0}, {2, 0}, {-1, 0}, {5, -1}}[g.intn(5)]})
				g.tag("upstream-scale")
			default:
				x, _ = g.do(Cmd{Op: OpPow, T: x, A: Dec{1, 0}})
			}
		}
		if depth > 0 {
			g.tag("upstream")
		}
		cc := c
		cc.Targs = []Targ{T(x)}
		y, _ := g.do(cc)
		if g.isT(y) && g.chance(0.3) {
			// the activation output feeds a deeper graph before the root
			y, _ = g.do(Cmd{Op: OpScale, T: y, A: []Dec{{1, 0}, {3, 0}, {-2, 0}}[g.intn(3)]})
			g.tag("downstream")
		}
		g.weightAndBackprop(y)
		if first && g.chance(0.5) {
			// the way a training loop continues: reset the leaf, go through the same layer again
			g.do(Cmd{Op: OpReset, T: leaf, Flag: true})
		}
	}
	pass(true)
	if g.chance(0.45) {
		// a second (third) forward/backward pass through the SAME layer object with the same input shape
		g.tag("second-pass-same-layer")
		pass(false)
		if g.chance(0.3) {
			pass(false)
		}
	}
}

// ---------- FC ----------
func famFC(g *Gen) {
	g.nontr = true
	in, out, batch := 1+g.intn(4), 1+g.intn(4), 1+g.intn(4)
	if g.chance(0.12) {
		// wide inputs: the layer sums every row over its features (unrolled / blocked row sums start at 32 or 64)
		in = g.pick(32, 36, 64, 33, 100)
		g.tag("wide-input")
	}
	c := Cmd{Op: OpFCNew, Dims: []int{in, out}, WI: OptInit{Absent: true}, BI: OptInit{Absent: true}}
	if g.chance(0.4) {
		c.WI = OptInit{Spec: g.validInit()}
		g.tag("custom-weight-init")
	}
	if g.chance(0.4) {
		c.BI = OptInit{Spec: g.validInit()}
		g.tag("custom-bias-init")
	}
	fc, _ := g.do(c)
	x := g.leafDistinct([]int{batch, in}, g.chance(0.6), -2, 2)
	g.do(Cmd{Op: OpFCForward, T: fc, Targs: []Targ{T(x)}})
	// replace the parameters through the Weights() pointers, several times
	var w, b int
	for i := 0; i < 1+g.intn(3); i++ {
		w = g.leafDistinct([]int{out}, g.chance(0.85), -2, 2)
		b = g.leafDistinct([]int{out}, g.chance(0.85), -2, 2)
		g.do(Cmd{Op: OpFCSet, T: fc, Flag: false, Z: w})
		if g.chance(0.8) {
			g.do(Cmd{Op: OpFCSet, T: fc, Flag: true, Z: b})
		}
		g.tag("replace")
	}
	y, _ := g.do(Cmd{Op: OpFCForward, T: fc, Targs: []Targ{T(x)}})
	// rows are independent: a batch made of one row gives that row of the output
	if batch > 1 && g.isT(y) {
		r := g.intn(batch)
		xr, _ := g.do(Cmd{Op: OpSlice, T: x, Ranges: [][2]int{{r, r + 1}}})
		yr, _ := g.do(Cmd{Op: OpFCForward, T: fc, Targs: []Targ{T(xr)}})
		ys, _ := g.do(Cmd{Op: OpSlice, T: y, Ranges: [][2]int{{r, r + 1}}})
		if g.isT(yr) && g.isT(ys) {
			g.do(Cmd{Op: OpEquals, T: yr, U: T(ys)})
		}
	}
	if g.isT(y) && g.chance(0.35) {
		// the layer's output feeds TWO consumers (y * tanh(y), or a softmax whose exponentials are used twice): the
		// parameters receive the contributions of both paths
		g.tag("output-with-two-consumers")
		var z int
		if g.chance(0.5) {
			th, _ := g.do(Cmd{Op: OpMath, K: 7, T: y})
			if g.chance(0.5) {
				z, _ = g.do(Cmd{Op: OpBin, K: 10, T: y, U: T(th)})
			} else {
				z, _ = g.do(Cmd{Op: OpBin, K: 10, T: th, U: T(y)})
			}
		} else {
			z, _ = g.do(Cmd{Op: OpAct, K: 4, HasZ: true, Z: 1, Targs: []Targ{T(y)}})
		}
		if g.isT(z) {
			g.weightAndBackprop(z)
		}
	} else if g.isT(y) {
		g.weightAndBackprop(y)
	}
	if g.isT(y) && g.isT(w) && g.isT(b) && g.chance(0.5) {
		// gradient probing twice on the same layer object and the same (un-replaced) parameter tensors, with a
		// reset of their gradient contexts in between
		g.tag("probe-reset-probe")
		for pass := 0; pass < 2+g.intn(2); pass++ {
			yy, _ := g.do(Cmd{Op: OpFCForward, T: fc, Targs: []Targ{T(x)}})
			g.weightAndBackprop(yy)
			g.do(Cmd{Op: OpReset, T: w, Flag: true})
			g.do(Cmd{Op: OpReset, T: b, Flag: true})
			if g.chance(0.5) {
				g.do(Cmd{Op: OpReset, T: x, Flag: g.chance(0.7)})
			}
		}
	}
	if g.chance(0.3) {
		g.tag("invalid")
		g.do(Cmd{Op: OpFCForward, T: fc, Targs: nil})
		g.do(Cmd{Op: OpFCForward, T: fc, Targs: []Targ{T(x), T(x)}})
		g.do(Cmd{Op: OpFCForward, T: fc, Targs: []Targ{nil}})
		v := g.leaf([]int{in}, false)
		g.do(Cmd{Op: OpFCForward, T: fc, Targs: []Targ{T(v)}})
		g.do(Cmd{Op: OpFCNew, Dims: []int{g.pick(0, -1, 2), g.pick(0, -2, 3)}, WI: OptInit{Absent: true}, BI: OptInit{Absent: true}})
		g.do(Cmd{Op: OpFCNew, Dims: []int{2, 2}, WI: OptInit{NilVal: true}, BI: OptInit{Absent: true}})
		g.do(Cmd{Op: OpFCNew, Dims: []int{2, 2}, WI: OptInit{Absent: true}, BI: OptInit{NilVal: true}})
	}
}

func (g *Gen) validInit() InitSpec {
	switch g.intn(7) {
	case 0:
		return InitSpec{Kind: 0, D1: smallDec(g)}
	case 1:
		return InitSpec{Kind: 1, D1: Dec{-2, 0}, D2: Dec{int64(1 + g.intn(5)), 0}}
	case 2:
		return InitSpec{Kind: 2, D1: smallDec(g), D2: Dec{int64(1 + g.intn(30)), -1}}
	case 3:
		return InitSpec{Kind: 3, Z1: 1 + g.intn(6)}
	case 4:
		return InitSpec{Kind: 4, Z1: 1 + g.intn(6)}
	case 5:
		return InitSpec{Kind: 5, Z1: 1 + g.intn(6), Z2: 1 + g.intn(6)}
	}
	return InitSpec{Kind: 6, Z1: 1 + g.intn(6), Z2: 1 + g.intn(6)}
}

// ---------- SGD ----------
func famSGD(g *Gen) {
	g.nontr = true
	ds := g.shape(0, 5, 3)
	if g.chance(0.1) {
		// a weight of realistic height (chunked / parallel element-wise paths start at 64 rows)
		ds = [][]int{{100, 3}, {70}, {65, 2}, {129}}[g.intn(4)]
		g.tag("tall-weight")
	}
	c := Cmd{Op: OpSGDNew}
	if g.chance(0.8) {
		c.HasA = true
		c.A = []Dec{{1, -1}, {0, 0}, {-5, -1}, {2, 0}, {1, -3}, {25, -2}}[g.intn(6)]
	} else {
		g.tag("default-lr")
	}
	sgd, _ := g.do(c)
	w := g.leafDistinct(ds, true, -2, 2)
	// a gradient produced by a back-propagated graph
	pool := []int{w, g.leafDistinct(ds, false, -2, 2)}
	for i := 0; i < 1+g.intn(5); i++ {
		y := g.dagStep(pool, false)
		if g.isT(y) {
			pool = append(pool, y)
		}
	}
	cell, _ := g.do(Cmd{Op: OpCellNew, U: T(w)})
	// before any back-propagation: no gradient -> error, nothing replaced
	if g.chance(0.4) {
		g.do(Cmd{Op: OpSGDUpdate, T: sgd, K: 2, Z: cell})
		g.tag("no-gradient")
	}
	g.do(Cmd{Op: OpBackprop, U: T(pool[len(pool)-1])})
	g.do(Cmd{Op: OpGradOf, T: w})
	g.do(Cmd{Op: OpSGDUpdate, T: sgd, K: 2, Z: cell})
	// the previous tensor object and its gradient are unchanged
	g.do(Cmd{Op: OpGradOf, T: w})
	g.do(Cmd{Op: OpSlice, T: w, Ranges: nil})
	if g.chance(0.4) {
		g.tag("invalid")
		g.do(Cmd{Op: OpSGDUpdate, T: sgd, K: 3})
		nc, _ := g.do(Cmd{Op: OpCellNew, U: nil})
		g.do(Cmd{Op: OpSGDUpdate, T: sgd, K: 2, Z: nc})
		// second update of the same cell: the new tensor has no gradient
		g.do(Cmd{Op: OpSGDUpdate, T: sgd, K: 2, Z: cell})
	}
}

// ---------- training loop ----------
func famTrain(g *Gen) {
	g.nontr = true
	in, out, batch := 1+g.intn(4), 1+g.intn(4), 1+g.intn(4)
	act := g.intn(5)
	loss := g.intn(3)
	g.tag("act-" + actNames[act])
	g.tag("loss-" + lossNames[loss])
	fc, _ := g.do(Cmd{Op: OpFCNew, Dims: []int{in, out}, WI: OptInit{Spec: InitSpec{Kind: 1, D1: Dec{-1, 0}, D2: Dec{1, 0}}}, BI: OptInit{Spec: InitSpec{Kind: 1, D1: Dec{-5, -1}, D2: Dec{5, -1}}}})
	lr := []Dec{{1, -1}, {5, -2}, {3, -1}}[g.intn(3)]
	sgd, _ := g.do(Cmd{Op: OpSGDNew, HasA: true, A: lr})
	x := g.leafDistinct([]int{batch, in}, false, -1, 1)
	var tds []int
	if loss == 2 {
		tds = []int{batch, out}
	} else {
		tds = []int{batch * out}
	}
	t := g.leafVals(tds, g.probVals(prod(tds), false), false)
	steps := 1 + g.intn(4)
	skipReset := g.chance(0.25)
	if skipReset {
		g.tag("missing-reset")
	}
	for s := 0; s < steps; s++ {
		y, _ := g.do(Cmd{Op: OpFCForward, T: fc, Targs: []Targ{T(x)}})
		ac := Cmd{Op: OpAct, K: act, Targs: []Targ{T(y)}}
		if act == 4 {
			ac.HasZ, ac.Z = true, 1
		}
		a, _ := g.do(ac)
		p := a
		if loss != 2 {
			p, _ = g.do(Cmd{Op: OpFlatten, T: a, Z: 0})
		}
		l, _ := g.do(Cmd{Op: OpLoss, K: loss, Targs: []Targ{T(p), T(t)}})
		if !g.isT(l) {
			return
		}
		g.do(Cmd{Op: OpBackprop, U: T(l)})
		_, o1 := g.do(Cmd{Op: OpSGDUpdate, T: sgd, K: 0, Z: fc})
		_, o2 := g.do(Cmd{Op: OpSGDUpdate, T: sgd, K: 1, Z: fc})
		if o1.Kind != "tensor" || o2.Kind != "tensor" {
			// (expected when the reset was skipped in the previous step)
			return
		}
		if !(skipReset && s == 0) {
			wname, bname := len(g.Cmds)-2, len(g.Cmds)-1
			if g.chance(0.3) {
				// an evaluation pass on the freshly updated (still spent) weights before they are reset
				g.do(Cmd{Op: OpFCForward, T: fc, Targs: []Targ{T(x)}})
				g.tag("eval-forward-before-reset")
			}
			g.do(Cmd{Op: OpReset, T: wname, Flag: true})
			g.do(Cmd{Op: OpReset, T: bname, Flag: true})
		}
	}
}

// ---------- initializers ----------
func famInit(g *Gen) {
	g.nontr = true
	n := 1 + g.intn(4)
	for i := 0; i < n; i++ {
		var s InitSpec
		if g.chance(0.8) {
			s = g.validInit()
		} else {
			// nil configs and invalid parameters
			s = InitSpec{Kind: g.intn(7), Nil: g.chance(0.5)}
			if !s.Nil {
				s.D1, s.D2 = Dec{int64(g.intn(3)), 0}, Dec{int64(g.intn(3) - 1), 0}
				s.Z1, s.Z2 = g.intn(3)-1, g.intn(3)-1
			}
			g.tag("nil-or-invalid-config")
		}
		g.tag(initNames[s.Kind])
		ds := g.shape(0, 4, 3)
		if g.chance(0.1) {
			ds = append(ds, g.pick(0, -1))
		} else if g.chance(0.04) {
			ds = [][]int{{33, 34}, {1100}}[g.intn(2)]
			g.tag("large-init")
		}
		g.do(Cmd{Op: OpInit, Init: s, Dims: ds})
	}
	// random constructors interleaved
	if g.chance(0.6) {
		rds := g.shape(0, 3, 3)
		g.do(Cmd{Op: OpRandU, Dims: rds, A: Dec{-1, 0}, B: Dec{int64(g.pick(1, 3, -1, -2)), 0}, Cfg: &Cfg{Dev: 1, Track: g.chance(0.5)}})
		g.do(Cmd{Op: OpRandN, Dims: g.shape(0, 3, 3), A: smallDec(g), B: Dec{int64(g.pick(1, 2, 0, -1)), 0}, Cfg: nil})
		g.tag("randu/randn")
	}
	if g.chance(0.08) {
		// a weight matrix of realistic size (parallel / blocked fill paths start around 1<<14 elements)
		g.directInitBig([][]int{{128, 130}, {256, 128}, {20000}, {4, 70, 64}}[g.intn(4)])
	}
}

// ---------- accuracy ----------
func famAccuracy(g *Gen) {
	g.nontr = true
	acc, _ := g.do(Cmd{Op: OpAccNew})
	g.do(Cmd{Op: OpAccResult, T: acc})
	nb := 1 + g.intn(5)
	var allP, allT []float64
	long := g.chance(0.2)
	if long {
		g.tag("long-batch")
	}
	for i := 0; i < nb; i++ {
		b := 1 + g.intn(6)
		if long && i == nb/2 {
			// evaluation over a whole data set in one call
			b = g.pick(129, 200, 257, 513, 1000)
		}
		pv, tv := make([]float64, b), make([]float64, b)
		tiny := g.chance(0.15)
		if tiny {
			// scores of very small magnitude that differ (3e-30 against 0, 4e-26 against 5e-26) are different values
			g.tag("tiny-magnitudes")
		}
		for j := range pv {
			pv[j] = float64(g.intn(4))
			if g.chance(0.6) || (long && j == b-1) {
				tv[j] = pv[j]
			} else {
				tv[j] = float64(g.intn(4)) + float64(g.pick(0, 0, 1))*0.5
			}
			if tiny {
				pool := []float64{0, 3e-30, 4e-26, 5e-26, 1e-200, -1e-200, 2e-239, 1e-100}
				pv[j] = pool[g.intn(len(pool))]
				tv[j] = pool[g.intn(len(pool))]
			}
		}
		allP, allT = append(allP, pv...), append(allT, tv...)
		p := g.leafVals([]int{b}, pv, false)
		t := g.leafVals([]int{b}, tv, false)
		g.do(Cmd{Op: OpAccumulate, T: acc, Targs: []Targ{T(p), T(t)}})
		if g.chance(0.35) {
			g.tag("invalid-interleaved")
			switch g.intn(4) {
			case 0:
				g.do(Cmd{Op: OpAccumulate, T: acc, Targs: []Targ{nil, T(t)}})
			case 1:
				m := g.leaf([]int{b, 1}, false)
				g.do(Cmd{Op: OpAccumulate, T: acc, Targs: []Targ{T(m), T(t)}})
			case 2:
				m := g.leaf([]int{b + 1}, false)
				g.do(Cmd{Op: OpAccumulate, T: acc, Targs: []Targ{T(p), T(m)}})
			default:
				m := g.leaf([]int{}, false)
				g.do(Cmd{Op: OpAccumulate, T: acc, Targs: []Targ{T(m), T(m)}})
			}
		}
		if g.chance(0.5) {
			g.do(Cmd{Op: OpAccResult, T: acc})
		}
	}
	g.do(Cmd{Op: OpAccResult, T: acc})
	// a re-partition of the same data gives the same result
	acc2, _ := g.do(Cmd{Op: OpAccNew})
	for len(allP) > 0 {
		b := 1 + g.intn(len(allP))
		p := g.leafVals([]int{b}, allP[:b], false)
		t := g.leafVals([]int{b}, allT[:b], false)
		g.do(Cmd{Op: OpAccumulate, T: acc2, Targs: []Targ{T(p), T(t)}})
		allP, allT = allP[b:], allT[b:]
	}
	g.do(Cmd{Op: OpAccResult, T: acc2})
	g.tag("repartition")
}
