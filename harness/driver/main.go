package main

// driver: generates scenarios for a property (every random choice derives from -seed), runs
// them on the real library, runs the same scenarios through the extracted Coq model
// (both variants of the Broadcast back edge), compares, and writes a result file for bin/check.

import (
	"bufio"
	"bytes"
	"encoding/json"
	"flag"
	"fmt"
	"hash/fnv"
	"math"
	mrand "math/rand"
	"os"
	"os/exec"
	"sort"
	"strconv"
	"strings"
	"time"
)

type Scenario struct {
	Family     string
	R          *Runner
	Nontrivial bool
	Tags       []string
	Directs    []Mismatch
}

type Gen struct {
	*Runner
	rng   *mrand.Rand
	tags  map[string]bool
	nontr bool
	tier  string
	directs []Mismatch // mismatches against a directly evaluated specification
}

func (g *Gen) tag(s string) { g.tags[s] = true }

type Family struct {
	Name   string
	Weight int // scenarios per unit of volume
	Gen    func(g *Gen)
}

type Violation struct {
	Family   string     `json:"family"`
	Index    int        `json:"index"`
	Scenario string     `json:"scenario"`
	Tokens   string     `json:"tokens"`
	RngSeed  uint64     `json:"rng_seed"`
	Mismatch *Mismatch  `json:"mismatch"`
	AvgModel *Mismatch  `json:"mismatch_against_avg_variant,omitempty"`
	Kind     string     `json:"kind"` // violation | known:D2
	Cmds     []Cmd      `json:"Cmds"`
}

type Result struct {
	Property         string         `json:"property"`
	Tier             string         `json:"tier"`
	Seed             int64          `json:"seed"`
	Evaluations      int            `json:"evaluations"`
	DistinctNontriv  int            `json:"distinct_nontrivial"`
	Commands         int            `json:"commands"`
	ValuesCompared   int            `json:"values_compared"`
	InexactMatches   int            `json:"values_equal_within_tolerance_not_bitwise"`
	Families         map[string]int `json:"families"`
	Tags             map[string]int `json:"tags"`
	OutcomeKinds     map[string]int `json:"outcome_kinds"`
	Samples          []string       `json:"samples"`
	Violations       []Violation    `json:"violations"`
	Known            []Violation    `json:"known"`
	AgreeSum         int            `json:"scenarios_agreeing_with_sum_variant"`
	AgreeAvgOnly     int            `json:"scenarios_agreeing_only_with_avg_variant"`
	Hangs            int            `json:"hangs"`
	ProbeFindings    []ProbeFinding `json:"probe_findings"`
	WallS            float64        `json:"wall_s"`
	SampleTokens     []string       `json:"-"`
	SampleOutputs    [][]string     `json:"-"`
}

func hash(s string) uint64 { h := fnv.New64a(); h.Write([]byte(s)); return h.Sum64() }

func runModel(modelBin string, lines []string) ([][][]int64, error) {
	cmd := exec.Command(modelBin)
	cmd.Stdin = strings.NewReader(strings.Join(lines, "\n") + "\n")
	var out bytes.Buffer
	cmd.Stdout = &out
	cmd.Stderr = os.Stderr
	if err := cmd.Run(); err != nil {
		return nil, fmt.Errorf("model binary failed: %w", err)
	}
	var res [][][]int64
	var cur [][]int64
	sc := bufio.NewScanner(&out)
	sc.Buffer(make([]byte, 1<<20), 1<<28)
	for sc.Scan() {
		line := strings.TrimSpace(sc.Text())
		if line == "." {
			res = append(res, cur)
			cur = nil
			continue
		}
		fs := strings.Fields(line)
		toks := make([]int64, len(fs))
		for i, f := range fs {
			v, err := strconv.ParseInt(f, 10, 64)
			if err != nil {
				return nil, err
			}
			toks[i] = v
		}
		cur = append(cur, toks)
	}
	if len(res) != len(lines) {
		return nil, fmt.Errorf("model binary answered %d scenarios, expected %d", len(res), len(lines))
	}
	return res, nil
}

func compareScenario(s *Scenario, out [][]int64, thr float64, checkRules bool) (*Mismatch, int, int) {
	ev := &evaluator{r: s.R, thr: thr}
	if len(out) == 1 && len(out[0]) == 1 && out[0][0] == -1 {
		return &Mismatch{Cmd: -1, What: "scenario undecodable by the model (harness bug)"}, 0, 0
	}
	if len(out) != len(s.R.Obs) {
		return &Mismatch{Cmd: -1, What: fmt.Sprintf("model produced %d observables for %d commands", len(out), len(s.R.Obs))}, 0, 0
	}
	for i, o := range s.R.Obs {
		if m := ev.compare(i, o, out[i], checkRules); m != nil {
			return m, ev.values, ev.inexact
		}
	}
	return nil, ev.values, ev.inexact
}

func main() {
	prop := flag.String("prop", "", "property id")
	tier := flag.String("tier", "quick", "quick|thorough")
	seed := flag.Int64("seed", 1, "seed")
	modelBin := flag.String("model", "", "extracted model binary")
	outPath := flag.String("out", "", "result json")
	samplePath := flag.String("sample", "", "cases_sample.v to write")
	sampleN := flag.Int("samplen", 24, "scenarios in the kernel-path sample")
	thrStr := flag.String("eqthr", "1e-240", "library equality threshold")
	replay := flag.String("replay", "", "replay file")
	volume := flag.Int("volume", 0, "override volume")
	corpusDir := flag.String("corpus", "", "corpus directory")
	mkCorpus := flag.String("mkcorpus", "", "write the built-in corpus to this directory and exit")
	flag.Parse()
	thr, _ := strconv.ParseFloat(*thrStr, 64)
	start := time.Now()

	if *mkCorpus != "" {
		writeCorpus(*mkCorpus)
		return
	}
	if *replay != "" {
		os.Exit(doReplay(*replay, *modelBin, thr))
	}

	fams := familiesFor(*prop)
	concurrent := *prop == "C20"
	if len(fams) == 0 && !concurrent {
		fmt.Fprintf(os.Stderr, "no scenario families for %s\n", *prop)
		os.Exit(2)
	}
	vol := 40
	if *tier == "thorough" {
		vol = 600
	}
	if *volume > 0 {
		vol = *volume
	}
	res := &Result{Property: *prop, Tier: *tier, Seed: *seed, Families: map[string]int{}, Tags: map[string]int{}, OutcomeKinds: map[string]int{}}
	var scens []*Scenario
	rng := mrand.New(mrand.NewSource(*seed*1000003 + int64(hash(*prop)%100000)))

	// corpus first
	for _, s := range loadCorpus(*corpusDir, *prop) {
		scens = append(scens, s)
	}
	if concurrent {
		cs, problems := runConcurrent(*seed, *tier)
		scens = append(scens, cs...)
		for i, p := range problems {
			if i >= 5 {
				break
			}
			res.Violations = append(res.Violations, Violation{Family: "concurrent", Kind: "violation",
				Mismatch: &Mismatch{Cmd: -1, What: "a goroutine's result differs from the sequential result", Observed: p}})
		}
	}
	for _, f := range fams {
		n := f.Weight * vol
		for i := 0; i < n; i++ {
			rs := rng.Uint64()
			s := generate(f, rs, *tier)
			if s == nil {
				res.Hangs++
				v := Violation{Family: f.Name, Index: i, RngSeed: rs, Kind: "violation",
					Mismatch: &Mismatch{Cmd: -1, What: "scenario did not finish within 20 s (hang or super-polynomial back-propagation)"}}
				res.Violations = append(res.Violations, v)
				continue
			}
			scens = append(scens, s)
		}
	}

	lines := make([]string, 0, 2*len(scens))
	for _, s := range scens {
		lines = append(lines, encodeScenario(0, s.R.Cmds), encodeScenario(1, s.R.Cmds))
	}
	outs, err := runModel(*modelBin, lines)
	if err != nil {
		fmt.Fprintln(os.Stderr, err)
		os.Exit(3)
	}
	distinct := map[uint64]bool{}
	for i, s := range scens {
		res.Evaluations++
		res.Commands += len(s.R.Cmds)
		res.Families[s.Family]++
		for _, t := range s.Tags {
			res.Tags[t]++
		}
		for _, o := range s.R.Obs {
			res.OutcomeKinds[o.Kind]++
		}
		key := hash(lines[2*i])
		if s.Nontrivial && !distinct[key] {
			distinct[key] = true
			res.DistinctNontriv++
		}
		for di := range s.Directs {
			d := s.Directs[di]
			res.Violations = append(res.Violations, Violation{Family: s.Family + "/direct-spec-oracle", Index: i, Scenario: scenarioString(s.R.Cmds),
				Tokens: lines[2*i], RngSeed: s.R.rngSeed, Mismatch: &d, Kind: "violation"})
		}
		m0, vals, inex := compareScenario(s, outs[2*i], thr, !concurrent)
		res.ValuesCompared += vals
		res.InexactMatches += inex
		if m0 == nil {
			res.AgreeSum++
		} else {
			m1, _, _ := compareScenario(s, outs[2*i+1], thr, !concurrent)
			v := Violation{Family: s.Family, Index: i, Scenario: scenarioString(s.R.Cmds), Tokens: lines[2*i], RngSeed: s.R.rngSeed, Mismatch: m0, AvgModel: m1, Cmds: s.R.Cmds}
			if m1 == nil {
				res.AgreeAvgOnly++
				v.Kind = "known:D2"
				res.Known = append(res.Known, v)
			} else {
				v.Kind = "violation"
				res.Violations = append(res.Violations, v)
			}
		}
		if len(res.Samples) < 6 && s.Nontrivial && i%7 == 0 {
			res.Samples = append(res.Samples, s.Family+":\n"+scenarioString(s.R.Cmds))
		}
	}
	if len(res.Samples) == 0 && len(scens) > 0 {
		res.Samples = append(res.Samples, scens[0].Family+":\n"+scenarioString(scens[0].R.Cmds))
	}
	// keep reports small
	if len(res.Violations) > 5 {
		res.Violations = res.Violations[:5]
	}
	for i := range res.Violations {
		shrink(&res.Violations[i], *modelBin, thr)
	}
	if len(res.Known) > 3 {
		res.Known = res.Known[:3]
	}
	res.ProbeFindings = probesFor(*prop)
	res.WallS = time.Since(start).Seconds()

	if *samplePath != "" {
		writeSample(*samplePath, lines, outs, *sampleN)
	}
	b, _ := json.MarshalIndent(res, "", " ")
	if err := os.WriteFile(*outPath, b, 0o644); err != nil {
		fmt.Fprintln(os.Stderr, err)
		os.Exit(3)
	}
}

func generate(f Family, rngSeed uint64, tier string) *Scenario {
	done := make(chan *Scenario, 1)
	go func() {
		g := &Gen{Runner: NewRunner(rngSeed), rng: mrand.New(mrand.NewSource(int64(rngSeed))), tags: map[string]bool{}, tier: tier}
		func() {
			// a generator that refers to the result of an earlier command as a tensor when the library did not
			// return one (possible only when the library misbehaves) stops there: the commands executed so far are
			// still compared with the model, which is where the misbehaviour shows
			defer func() {
				if p := recover(); p != nil {
					msg := fmt.Sprint(p)
					if len(msg) > 8 && msg[:8] == "harness:" {
						g.Cmds = g.Cmds[:len(g.env)]
						g.tags["generator-stopped-early"] = true
						return
					}
					panic(p)
				}
			}()
			f.Gen(g)
			g.reprobe()
		}()
		g.Finish()
		tags := []string{}
		for t := range g.tags {
			tags = append(tags, t)
		}
		sort.Strings(tags)
		done <- &Scenario{Family: f.Name, R: g.Runner, Nontrivial: g.nontr, Tags: tags, Directs: g.directs}
	}()
	select {
	case s := <-done:
		return s
	case <-time.After(20 * time.Second):
		return nil
	}
}

// re-executes a list of commands (values and structure fixed) on the library
func rerun(cmds []Cmd, rngSeed uint64) *Scenario {
	done := make(chan *Scenario, 1)
	go func() {
		defer func() {
			if p := recover(); p != nil {
				done <- nil
			}
		}()
		r := NewRunner(rngSeed)
		for _, c := range cmds {
			r.Do(c)
		}
		r.Finish()
		done <- &Scenario{Family: "replay", R: r}
	}()
	select {
	case s := <-done:
		return s
	case <-time.After(20 * time.Second):
		return nil
	}
}

// greedy shrinking: cut the scenario after the failing command, then drop trailing-unreferenced
// commands one at a time (names are positions, so only a suffix can be dropped safely), then
// replace non-essential commands by nops.
func shrink(v *Violation, modelBin string, thr float64) {
	if v.Cmds == nil || v.Mismatch == nil || v.Mismatch.Cmd < 0 {
		return
	}
	cmds := append([]Cmd{}, v.Cmds[:v.Mismatch.Cmd+1]...)
	fails := func(cs []Cmd) *Mismatch {
		s := rerun(cs, v.RngSeed)
		if s == nil {
			return nil
		}
		outs, err := runModel(modelBin, []string{encodeScenario(0, cs)})
		if err != nil {
			return nil
		}
		m, _, _ := compareScenario(s, outs[0], thr, true)
		return m
	}
	best := fails(cmds)
	if best == nil {
		return
	}
	for i := len(cmds) - 2; i >= 0; i-- {
		if cmds[i].Op == OpNop {
			continue
		}
		trial := append([]Cmd{}, cmds...)
		trial[i] = Cmd{Op: OpNop}
		if refsName(trial, i) {
			continue
		}
		if m := fails(trial); m != nil && m.Cmd == len(trial)-1 {
			cmds = trial
			best = m
		}
	}
	v.Scenario = scenarioString(cmds)
	v.Tokens = encodeScenario(0, cmds)
	v.Mismatch = best
	v.Cmds = cmds
}

// does any command refer to name i?
func refsName(cs []Cmd, i int) bool {
	for _, c := range cs {
		for _, n := range namesUsed(c) {
			if n == i {
				return true
			}
		}
	}
	return false
}

func namesUsed(c Cmd) []int {
	var o []int
	add := func(t Targ) {
		if t != nil {
			o = append(o, *t)
		}
	}
	switch c.Op {
	case OpScale, OpPow, OpMath, OpTranspose, OpReshape, OpBroadcast, OpUnsqueeze, OpSqueeze, OpFlatten, OpAlong, OpReduce,
		OpAt, OpSlice, OpNElems, OpShape, OpReset, OpGradOf, OpAccResult:
		o = append(o, c.T)
	case OpBin, OpEquals, OpPatch, OpDot, OpMatMul:
		o = append(o, c.T)
		add(c.U)
	case OpConcat, OpAct, OpLoss:
		for _, t := range c.Targs {
			add(t)
		}
	case OpBackprop, OpCellNew:
		add(c.U)
	case OpFCSet:
		o = append(o, c.T, c.Z)
	case OpFCForward, OpAccumulate:
		o = append(o, c.T)
		for _, t := range c.Targs {
			add(t)
		}
	case OpInputForward:
		add(c.U)
		for _, t := range c.Targs {
			add(t)
		}
	case OpSGDUpdate:
		o = append(o, c.T)
		if c.K != 3 {
			o = append(o, c.Z)
		}
	}
	if c.Mut {
		o = append(o, c.MutOf)
	}
	return o
}

func writeSample(path string, lines []string, outs [][][]int64, n int) {
	var sb strings.Builder
	sb.WriteString("(* GENERATED: kernel-path sample of the correspondence run.  Each case pairs a scenario\n   (integer encoding) with what the extracted binary printed for it; Coq re-evaluates the\n   interpreter with vm_compute and compares. *)\n")
	sb.WriteString("From Coq Require Import List ZArith Bool.\nFrom Qeep Require Import Corr.Codec Corr.Sample.\nImport ListNotations.\nOpen Scope Z_scope.\n")
	cnt := 0
	step := 1
	if len(lines) > n {
		step = len(lines) / n
	}
	for i := 0; i < len(lines) && cnt < n; i += step {
		// keep the kernel-path sample to scenarios of moderate size (the parser's stack is finite)
		sz := len(lines[i])
		for _, ob := range outs[i] {
			sz += 4 * len(ob)
		}
		if sz > 60000 {
			continue
		}
		sb.WriteString(fmt.Sprintf("Definition case%d : list Z * list (list Z) :=\n  ([", cnt) + strings.Join(strings.Fields(lines[i]), ";") + "],\n   [")
		for j, ob := range outs[i] {
			if j > 0 {
				sb.WriteString(";")
			}
			parts := make([]string, len(ob))
			for k, x := range ob {
				parts[k] = strconv.FormatInt(x, 10)
			}
			sb.WriteString("[" + strings.Join(parts, ";") + "]")
		}
		sb.WriteString("]).\n")
		cnt++
	}
	names := make([]string, cnt)
	for i := range names {
		names[i] = fmt.Sprintf("case%d", i)
	}
	sb.WriteString("Definition verdicts := Eval vm_compute in check_cases [" + strings.Join(names, "; ") + "].\nPrint verdicts.\n")
	os.WriteFile(path, []byte(sb.String()), 0o644)
}

type replayFile struct {
	Property string  `json:"property"`
	Tokens   string  `json:"scenario_tokens"`
	RngSeed  uint64  `json:"rng_seed"`
	Cmds     []Cmd   `json:"commands"`
	Note     string  `json:"note,omitempty"`
}

func doReplay(path, modelBin string, thr float64) int {
	b, err := os.ReadFile(path)
	if err != nil {
		fmt.Println(err)
		return 2
	}
	var rf replayFile
	if err := json.Unmarshal(b, &rf); err != nil {
		fmt.Println(err)
		return 2
	}
	s := rerun(rf.Cmds, rf.RngSeed)
	if s == nil {
		fmt.Println("replay: scenario hangs or the harness rejected it")
		return 1
	}
	outs, err := runModel(modelBin, []string{encodeScenario(0, rf.Cmds), encodeScenario(1, rf.Cmds)})
	if err != nil {
		fmt.Println(err)
		return 2
	}
	fmt.Print(scenarioString(rf.Cmds))
	m0, _, _ := compareScenario(s, outs[0], thr, true)
	if m0 == nil {
		fmt.Println("replay: library agrees with the model (property's variant): no violation")
		return 0
	}
	fmt.Printf("replay: at command %d, %s\n  observed: %s\n  specified: %s\n", m0.Cmd, m0.What, m0.Observed, m0.Expected)
	if m1, _, _ := compareScenario(s, outs[1], thr, true); m1 == nil {
		fmt.Println("replay: library agrees with the averaging variant of the Broadcast back edge (known finding D2)")
	}
	return 1
}

func loadCorpus(dir, prop string) []*Scenario {
	if dir == "" {
		return nil
	}
	ents, err := os.ReadDir(dir)
	if err != nil {
		return nil
	}
	var out []*Scenario
	for _, e := range ents {
		if !strings.HasSuffix(e.Name(), ".json") {
			continue
		}
		b, err := os.ReadFile(dir + "/" + e.Name())
		if err != nil {
			continue
		}
		var rf replayFile
		if json.Unmarshal(b, &rf) != nil {
			continue
		}
		ok := rf.Property == prop || rf.Property == "*"
		if !ok {
			for _, p := range strings.Split(rf.Property, ",") {
				if p == prop {
					ok = true
				}
			}
		}
		if !ok {
			continue
		}
		if s := rerun(rf.Cmds, rf.RngSeed); s != nil {
			s.Family = "corpus/" + e.Name()
			s.Nontrivial = true
			out = append(out, s)
		}
	}
	return out
}

var _ = math.Pi
