package main

// Direct probes of recorded findings that the model-vs-library comparison cannot show because
// the model reproduces the library's behaviour there (the theorem carries a guard instead).
// A probe runs a fixed scenario on the real library and compares with what the PROPERTY demands.

import "fmt"

type ProbeFinding struct {
	Key      string `json:"key"`
	What     string `json:"what"`
	Scenario string `json:"scenario"`
	Observed string `json:"observed"`
	Expected string `json:"expected"`
}

func probesFor(prop string) []ProbeFinding {
	var out []ProbeFinding
	switch prop {
	case "C02":
		// ElMax(a, b) with 0 < a - b <= 1e-240: differentiable, d/da = 1
		r := NewRunner(1)
		r.Do(leafC([]int{1}, []float64{1e-241}, true))
		r.Do(leafC([]int{1}, []float64{0}, false))
		r.Do(Cmd{Op: OpBin, K: 6, T: 0, U: T(1)})
		o := r.Do(Cmd{Op: OpBackprop, U: T(2)})
		if o.Kind == "grads" {
			for _, g := range o.Grads {
				if g.Name == 0 && !g.Nil && len(g.Vals) == 1 && g.Vals[0] != 1 {
					out = append(out, ProbeFinding{Key: "D10", What: "near-tie within the equality threshold halves the ElMax gradient",
						Scenario: scenarioString(r.Cmds), Observed: fmt.Sprint(g.Vals), Expected: "[1]"})
				}
			}
		}
	case "C15":
		// Relu at x = 1e-241 (away from 0): derivative 1
		r := NewRunner(1)
		r.Do(leafC([]int{1}, []float64{1e-241}, true))
		r.Do(Cmd{Op: OpAct, K: 0, Targs: []Targ{T(0)}})
		o := r.Do(Cmd{Op: OpBackprop, U: T(1)})
		if o.Kind == "grads" {
			for _, g := range o.Grads {
				if g.Name == 0 && !g.Nil && len(g.Vals) == 1 && g.Vals[0] != 1 {
					out = append(out, ProbeFinding{Key: "D10", What: "Relu at an input within 1e-240 of 0 gets the tie gradient 1/2 instead of 1",
						Scenario: scenarioString(r.Cmds), Observed: fmt.Sprint(g.Vals), Expected: "[1]"})
				}
			}
		}
	}
	return out
}
