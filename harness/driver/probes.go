package main

// Direct probes of recorded findings that the model-vs-library comparison cannot show because
// the model reproduces the library's behaviour there (the theorem carries a guard instead).
// A probe runs a fixed scenario on the real library and compares with what the PROPERTY demands.

import "fmt"

type ProbeFinding struct {
	Key      string `json:"key"`
	What     string `json:"what"`
	Scenario string `json:"scenario"`
	Observed string `json:"observed"`
	Expected string `json:"expected"`
}

func probesFor(prop string) []ProbeFinding {
	var out []ProbeFinding
	switch prop {
	case "C02":
		// ElMax(a, b) with 0 < a - b <= 1e-240: differentiable, d/da = 1
		r := NewRunner(1)
		r.Do(leafC([]int{1}, []float64{1e-241}, true))
		r.Do(leafC([]int{1}, []float64{0}, false))
		r.Do(Cmd{Op: OpBin, K: 6, T: 0, U: T(1)})
		o := r.Do(Cmd{Op: OpBackprop, U: T(2)})
		if o.Kind == "grads" {
			for _, g := range o.Grads {
				if g.Name == 0 && !g.Nil && len(g.Vals) == 1 && g.Vals[0] != 1 {
					// the recorded finding is the HALVED gradient; any other value there is a different violation
					key, what := "D10", "near-tie within the equality threshold halves the ElMax gradient"
					if g.Vals[0] != 0.5 {
						key, what = "near-tie-gradient-neither-1-nor-half", "ElMax(a,b) with 0 < a-b <= 1e-240: the gradient of a is neither the derivative 1 nor the recorded 1/2"
					}
					out = append(out, ProbeFinding{Key: key, What: what,
						Scenario: scenarioString(r.Cmds), Observed: fmt.Sprint(g.Vals), Expected: "[1]"})
				}
			}
		}
		// outside the recorded range (|a-b| far above 1e-240): must be exactly the derivative — a wider tie band is
		// a different violation than the recorded one
		for _, d := range []float64{1e-200, 1e-30, 1.5e-12, 1e-9} {
			r := NewRunner(1)
			r.Do(leafC([]int{1}, []float64{d}, true))
			r.Do(leafC([]int{1}, []float64{0}, false))
			r.Do(Cmd{Op: OpBin, K: 6, T: 0, U: T(1)})
			o := r.Do(Cmd{Op: OpBackprop, U: T(2)})
			if o.Kind == "grads" {
				for _, g := range o.Grads {
					if g.Name == 0 && !g.Nil && len(g.Vals) == 1 && g.Vals[0] != 1 {
						out = append(out, ProbeFinding{Key: "tie-band-wider-than-1e-240", What: fmt.Sprintf("ElMax(a,b) with a-b = %g (far above 1e-240) does not give a the full gradient", d),
							Scenario: scenarioString(r.Cmds), Observed: fmt.Sprint(g.Vals), Expected: "[1]"})
					}
				}
			}
		}
	case "C13":
		// predictions strictly inside the clipping interval, close to a bound: full analytic gradient
		for k := 1; k <= 2; k++ {
			for _, pv := range []float64{1.5e-12, 1 - 1.5e-12} {
				r := NewRunner(1)
				ds := []int{1}
				if k == 2 {
					ds = []int{1, 1}
				}
				r.Do(leafC(ds, []float64{pv}, true))
				r.Do(leafC(ds, []float64{1}, false))
				r.Do(Cmd{Op: OpLoss, K: k, Targs: []Targ{T(0), T(1)}})
				o := r.Do(Cmd{Op: OpBackprop, U: T(2)})
				want := -1 / pv // BCE with t = 1: ((1-1)/(1-p) - 1/p)/1 ; CE: -(1/p)/1
				if o.Kind == "grads" {
					for _, g := range o.Grads {
						if g.Name == 0 && !g.Nil && len(g.Vals) == 1 && !(g.Vals[0] > want*(1+1e-9) && g.Vals[0] < want*(1-1e-9)) {
							out = append(out, ProbeFinding{Key: "clip-tie-band", What: fmt.Sprintf("%s gradient at prediction %g (strictly inside the clipping interval), target 1", lossNames[k], pv),
								Scenario: scenarioString(r.Cmds), Observed: fmt.Sprint(g.Vals), Expected: fmt.Sprint([]float64{want})})
						}
					}
				}
			}
		}
	case "C15":
		for _, d := range []float64{1e-200, 1e-30, 1e-9} {
			r := NewRunner(1)
			r.Do(leafC([]int{1}, []float64{d}, true))
			r.Do(Cmd{Op: OpAct, K: 0, Targs: []Targ{T(0)}})
			o := r.Do(Cmd{Op: OpBackprop, U: T(1)})
			if o.Kind == "grads" {
				for _, g := range o.Grads {
					if g.Name == 0 && !g.Nil && len(g.Vals) == 1 && g.Vals[0] != 1 {
						out = append(out, ProbeFinding{Key: "tie-band-wider-than-1e-240", What: fmt.Sprintf("Relu at x = %g (far above 1e-240) does not pass the full gradient", d),
							Scenario: scenarioString(r.Cmds), Observed: fmt.Sprint(g.Vals), Expected: "[1]"})
					}
				}
			}
		}
		// Relu at x = 1e-241 (away from 0): derivative 1
		r := NewRunner(1)
		r.Do(leafC([]int{1}, []float64{1e-241}, true))
		r.Do(Cmd{Op: OpAct, K: 0, Targs: []Targ{T(0)}})
		o := r.Do(Cmd{Op: OpBackprop, U: T(1)})
		if o.Kind == "grads" {
			for _, g := range o.Grads {
				if g.Name == 0 && !g.Nil && len(g.Vals) == 1 && g.Vals[0] != 1 {
					key, what := "D10", "Relu at an input within 1e-240 of 0 gets the tie gradient 1/2 instead of 1"
					if g.Vals[0] != 0.5 {
						key, what = "near-tie-gradient-neither-1-nor-half", "Relu at an input within 1e-240 of 0: the gradient is neither the derivative 1 nor the recorded 1/2"
					}
					out = append(out, ProbeFinding{Key: key, What: what,
						Scenario: scenarioString(r.Cmds), Observed: fmt.Sprint(g.Vals), Expected: "[1]"})
				}
			}
		}
	}
	return out
}
