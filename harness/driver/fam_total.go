package main

// C09: hostile arguments for every public entry point; C10: caller-side slice mutations.

func (g *Gen) hostileInt() int { return g.intn(9) - 2 } // [-2, 6]

func (g *Gen) hostileInts(maxLen int) []int {
	n := g.intn(maxLen + 1)
	o := make([]int, n)
	for i := range o {
		if g.chance(0.7) {
			o[i] = 1 + g.intn(3)
		} else {
			o[i] = g.hostileInt()
		}
	}
	return o
}

func (g *Gen) hostileRanges(maxLen int) [][2]int {
	n := g.intn(maxLen + 1)
	if n == 0 && g.chance(0.5) {
		return nil
	}
	o := make([][2]int, n)
	for i := range o {
		switch g.intn(4) {
		case 0:
			o[i] = [2]int{0, 0}
		case 1:
			f := g.intn(3)
			o[i] = [2]int{f, f + 1 + g.intn(2)}
		default:
			o[i] = [2]int{g.hostileInt(), g.hostileInt()}
		}
	}
	return o
}

func (g *Gen) hostileCfg() *Cfg {
	switch g.intn(5) {
	case 0:
		return nil
	case 1:
		return &Cfg{Dev: g.pick(0, 2, -1, 7), Track: g.chance(0.5)}
	}
	return &Cfg{Dev: 1, Track: g.chance(0.5)}
}

// ragged / empty nested data of a fixed depth
func (g *Gen) raggedNd(depth int, k *int, ragged bool) *Nd {
	if depth == 0 {
		n := &Nd{Leaf: true, K: *k}
		*k++
		return n
	}
	n := &Nd{}
	cnt := 1 + g.intn(3)
	if ragged && g.chance(0.15) {
		cnt = 0
	}
	var first *Nd
	for i := 0; i < cnt; i++ {
		var kid *Nd
		if first != nil && !(ragged && g.chance(0.3)) {
			kid = cloneShape(first, k)
		} else {
			kid = g.raggedNd(depth-1, k, ragged)
		}
		if first == nil {
			first = kid
		}
		n.Kids = append(n.Kids, kid)
	}
	return n
}

func cloneShape(n *Nd, k *int) *Nd {
	if n.Leaf {
		c := &Nd{Leaf: true, K: *k}
		*k++
		return c
	}
	c := &Nd{}
	for _, kid := range n.Kids {
		c.Kids = append(c.Kids, cloneShape(kid, k))
	}
	return c
}

func famTotal(g *Gen) {
	g.nontr = true
	ds := g.shape(0, 5, 3)
	a := g.leaf(ds, g.chance(0.5))
	b := g.leaf(g.shape(0, 5, 3), g.chance(0.5))
	if g.chance(0.2) {
		// totality over a HISTORY: back-propagate, turn an interior tensor into a fresh leaf (tracked or not),
		// back-propagate again from the same root, then from the interior tensor: every call returns, none panics
		g.tag("backprop-reset-backprop")
		l := g.leafDistinct([]int{2}, true, -1, 1)
		h, _ := g.do(Cmd{Op: OpScale, T: l, A: Dec{2, 0}})
		h2, _ := g.do(Cmd{Op: OpMath, K: 7, T: h})
		out, _ := g.do(Cmd{Op: OpBin, K: 10, T: h2, U: T(h)})
		g.do(Cmd{Op: OpBackprop, U: T(out)})
		g.do(Cmd{Op: OpReset, T: g.pick(h, h2), Flag: g.chance(0.5)})
		g.do(Cmd{Op: OpBackprop, U: T(out)})
		g.do(Cmd{Op: OpGradOf, T: l})
		g.do(Cmd{Op: OpBackprop, U: T(h)})
		g.do(Cmd{Op: OpBackprop, U: nil})
	}
	n := 10 + g.intn(10)
	for i := 0; i < n; i++ {
		x := a
		if g.chance(0.3) {
			x = b
		}
		var u Targ
		switch g.intn(6) {
		case 0:
			u = nil
		case 1:
			u = T(a)
		case 2:
			u = T(b)
		default:
			u = T(g.leaf(g.bcastPartner(g.shapeOf(x)), false))
		}
		switch g.intn(24) {
		case 0:
			g.do(Cmd{Op: OpCtor, K: g.intn(3), Dims: g.hostileInts(5), A: smallDec(g), Cfg: g.hostileCfg()})
			g.tag("ctor")
		case 1:
			g.do(Cmd{Op: OpEye, Z: g.hostileInt(), Cfg: g.hostileCfg()})
			g.tag("eye")
		case 2:
			g.do(Cmd{Op: OpRandU, Dims: g.hostileInts(4), A: Dec{int64(g.intn(5) - 2), 0}, B: Dec{int64(g.intn(5) - 2), 0}, Cfg: g.hostileCfg()})
			g.tag("randu")
		case 3:
			g.do(Cmd{Op: OpRandN, Dims: g.hostileInts(4), A: Dec{int64(g.intn(5) - 2), 0}, B: Dec{int64(g.intn(5) - 2), 0}, Cfg: g.hostileCfg()})
			g.tag("randn")
		case 4:
			depth := g.intn(5)
			k := 0
			nd := g.raggedNd(depth, &k, g.chance(0.7))
			g.do(Cmd{Op: OpTensorOf, Data: nd, Z: depth, Vals: g.valsGeneral(k + 1), Cfg: g.hostileCfg()})
			g.tag("tensorof")
			// a tensor that was accepted must be readable everywhere
			if t := len(g.Cmds) - 1; g.isT(t) {
				g.do(Cmd{Op: OpSlice, T: t, Ranges: nil})
			}
		case 5:
			g.do(Cmd{Op: OpAt, T: x, Dims: g.hostileInts(len(g.shapeOf(x)) + 1)})
			g.tag("at")
		case 6:
			g.do(Cmd{Op: OpSlice, T: x, Ranges: g.hostileRanges(len(g.shapeOf(x)) + 1)})
			g.tag("slice")
		case 7:
			if g.chance(0.5) {
				// source sizes around the target's, ranges mostly {0,0} / omitted: the size check must hold for them too
				xs := g.shapeOf(x)
				src := make([]int, len(xs))
				for j := range xs {
					src[j] = xs[j] + g.pick(-1, 0, 0, 1, 2)
					if src[j] < 1 {
						src[j] = 1
					}
				}
				idx := make([][2]int, g.intn(len(xs)+1))
				for j := range idx {
					if !g.chance(0.7) {
						f := g.intn(xs[j])
						idx[j] = [2]int{f, f + src[j]}
					}
				}
				g.do(Cmd{Op: OpPatch, T: x, Ranges: idx, U: T(g.leaf(src, false))})
				g.tag("patch-size-mismatch")
			} else {
				g.do(Cmd{Op: OpPatch, T: x, Ranges: g.hostileRanges(len(g.shapeOf(x)) + 1), U: u})
			}
			g.tag("patch")
		case 8:
			g.do(Cmd{Op: OpTranspose, T: x})
		case 9:
			g.do(Cmd{Op: OpReshape, T: x, Dims: g.hostileInts(4)})
			g.tag("reshape")
		case 10:
			g.do(Cmd{Op: OpBroadcast, T: x, Dims: g.hostileInts(6)})
			g.tag("broadcast")
		case 11:
			g.do(Cmd{Op: g.pick(OpUnsqueeze, OpSqueeze, OpFlatten), T: x, Z: g.hostileInt()})
			g.tag("squeeze-family")
		case 12:
			g.do(Cmd{Op: OpAlong, K: g.intn(7), T: x, Z: g.hostileInt()})
			g.tag("along")
		case 13:
			g.do(Cmd{Op: OpBin, K: g.intn(12), T: x, U: u})
			g.tag("binary")
		case 14:
			g.do(Cmd{Op: g.pick(OpDot, OpMatMul), T: x, U: u})
			g.tag("dot/matmul")
		case 15:
			g.do(Cmd{Op: OpEquals, T: x, U: u})
		case 16:
			cnt := g.intn(4)
			ts := make([]Targ, cnt)
			for j := range ts {
				switch g.intn(5) {
				case 0:
					ts[j] = nil
				case 1:
					ts[j] = T(b)
				default:
					ts[j] = T(a)
				}
			}
			g.do(Cmd{Op: OpConcat, Targs: ts, Z: g.hostileInt()})
			g.tag("concat")
		case 17:
			if g.chance(0.5) {
				g.do(Cmd{Op: OpBackprop, U: nil})
			} else {
				g.do(Cmd{Op: OpBackprop, U: T(g.leaf(g.shape(0, 3, 2), g.chance(0.5)))})
			}
			g.tag("backprop")
		case 18:
			s := InitSpec{Kind: g.intn(7), Nil: g.chance(0.3), D1: Dec{int64(g.intn(5) - 2), 0}, D2: Dec{int64(g.intn(5) - 2), 0}, Z1: g.hostileInt(), Z2: g.hostileInt()}
			g.do(Cmd{Op: OpInit, Init: s, Dims: g.hostileInts(4)})
			g.tag("init")
		case 19:
			c := Cmd{Op: OpAct, K: g.intn(5)}
			if c.K == 4 && g.chance(0.8) {
				c.HasZ, c.Z = true, g.hostileInt()
			}
			cnt := g.intn(3)
			for j := 0; j < cnt; j++ {
				if g.chance(0.2) {
					c.Targs = append(c.Targs, nil)
				} else {
					c.Targs = append(c.Targs, T(x))
				}
			}
			g.do(c)
			g.tag("activation")
		case 20:
			g.do(Cmd{Op: OpLoss, K: g.intn(3), Targs: []Targ{u, T(x)}})
			g.do(Cmd{Op: OpLoss, K: g.intn(3), Targs: []Targ{T(x), u}})
			g.tag("loss")
		case 21:
			fc, o := g.do(Cmd{Op: OpFCNew, Dims: []int{g.hostileInt(), g.hostileInt()}, WI: OptInit{Absent: g.chance(0.7), NilVal: true}, BI: OptInit{Absent: g.chance(0.7), NilVal: true}})
			if o.Kind == "ok" {
				cnt := g.intn(3)
				var ts []Targ
				for j := 0; j < cnt; j++ {
					if g.chance(0.2) {
						ts = append(ts, nil)
					} else {
						ts = append(ts, T(x))
					}
				}
				g.do(Cmd{Op: OpFCForward, T: fc, Targs: ts})
			}
			g.tag("fc")
		case 22:
			c := Cmd{Op: OpInputForward, SeedSet: g.chance(0.6)}
			if c.SeedSet && g.chance(0.8) {
				c.U = T(x)
			}
			if g.chance(0.3) {
				c.Targs = []Targ{T(x)}
			}
			g.do(c)
			g.tag("input")
		default:
			acc, _ := g.do(Cmd{Op: OpAccNew})
			g.do(Cmd{Op: OpAccumulate, T: acc, Targs: []Targ{u, T(x)}})
			g.do(Cmd{Op: OpAccResult, T: acc})
			sgd, _ := g.do(Cmd{Op: OpSGDNew})
			g.do(Cmd{Op: OpSGDUpdate, T: sgd, K: 3})
			cell, _ := g.do(Cmd{Op: OpCellNew, U: u})
			g.do(Cmd{Op: OpSGDUpdate, T: sgd, K: 2, Z: cell})
			g.tag("metric/optimizer")
		}
	}
}

// C10: the caller scribbles over every slice it passed in or was handed, right after the call
// or between the forward call and the back-propagation; every tensor involved is re-read.
func famAlias(g *Gen) {
	g.nontr = true
	ds := g.shape(1, 4, 3)
	x := g.leafDistinct(ds, true, -3, 3)
	late := g.chance(0.5) // mutate between forward and backward
	if late {
		g.tag("mutate-before-backprop")
	} else {
		g.tag("mutate-after-call")
	}
	var y int
	kind := g.intn(9)
	var c Cmd
	switch kind {
	case 0:
		idx := g.sliceIndex(ds)
		for len(idx) == 0 {
			idx = g.sliceIndex(ds)
		}
		c = Cmd{Op: OpSlice, T: x, Ranges: idx}
		g.tag("slice-index")
	case 1:
		src, idx := g.patchArgs(ds)
		p := g.leafDistinct(src, true, 5, 9)
		c = Cmd{Op: OpPatch, T: x, Ranges: idx, U: T(p)}
		g.tag("patch-index")
	case 2:
		c = Cmd{Op: OpReshape, T: x, Dims: []int{prod(ds), 1}}
		g.tag("reshape-dims")
	case 3:
		c = Cmd{Op: OpBroadcast, T: x, Dims: g.bcastTarget(ds)}
		g.tag("broadcast-dims")
	case 4:
		o := g.leafDistinct(ds, true, -3, 3)
		c = Cmd{Op: OpConcat, Targs: []Targ{T(x), T(o)}, Z: g.intn(len(ds))}
		g.tag("concat-list")
	case 5:
		c = Cmd{Op: OpCtor, K: 0, Dims: ds, A: smallDec(g), Cfg: &Cfg{Dev: 1, Track: true}}
		g.tag("ctor-dims")
	case 6:
		depth := 1 + g.intn(4)
		tds := g.shape(depth, depth, 3)
		k := 0
		c = Cmd{Op: OpTensorOf, Data: rectNd(tds, &k), Z: depth, Vals: g.valsDistinct(prod(tds), -9, 9), Cfg: &Cfg{Dev: 1, Track: true}}
		g.tag("tensorof-data")
	case 7:
		c = Cmd{Op: OpInit, Init: g.validInit(), Dims: ds}
		g.tag("init-shape")
	default:
		c = Cmd{Op: OpShape, T: x}
		g.tag("shape-result")
	}
	if !late {
		c.Mut, c.MutOf = true, len(g.Cmds)
	}
	y, _ = g.do(c)
	if kind == 8 {
		g.do(Cmd{Op: OpShape, T: x})
		g.do(Cmd{Op: OpSlice, T: x, Ranges: nil})
		return
	}
	if !g.isT(y) {
		return
	}
	// some more work on the result
	z, _ := g.do(Cmd{Op: OpScale, T: y, A: Dec{2, 0}})
	if late {
		g.do(Cmd{Op: OpNop, Mut: true, MutOf: y})
	}
	// every tensor is unchanged
	g.do(Cmd{Op: OpSlice, T: y, Ranges: nil})
	g.do(Cmd{Op: OpShape, T: y})
	g.do(Cmd{Op: OpSlice, T: x, Ranges: nil})
	// and the back-propagation is unaffected
	g.weightAndBackprop(z)
}

// C10, first sentence: no operation, back-propagation or update changes the shape or elements of any EXISTING
// tensor.  A pool of tensors with compatible shapes goes through a random history of operations of every kind;
// at the end every tensor of the history is looked at again (shape and a full copy).
func famFrame(g *Gen) {
	g.nontr = true
	m, n, k := 1+g.intn(3), 1+g.intn(3), 1+g.intn(3)
	if g.chance(0.5) {
		// m >= n >= k, not all equal
		m, n, k = 3, 2+g.intn(2), 1+g.intn(2)
	}
	b := 1 + g.intn(2)
	tr := func() bool { return g.chance(0.5) }
	pool := []int{
		g.leafDistinct([]int{m, n}, tr(), -2, 2),
		g.leafDistinct([]int{n, k}, tr(), -2, 2),
		g.leafDistinct([]int{n}, tr(), -2, 2),
		g.leafDistinct([]int{b, m, n}, tr(), -2, 2),
		g.leafDistinct([]int{}, tr(), 1, 2),
	}
	pickT := func() int { return pool[g.intn(len(pool))] }
	if g.chance(0.3) {
		// gradient tensors handed out after one back-propagation stay what they were when a later back-propagation
		// over a graph sharing the trunk adds to the same contexts (fan-out: several contributions per pass)
		g.tag("kept-gradients-across-passes")
		x := g.leafDistinct([]int{2, 2}, true, -1, 1)
		c := g.leafDistinct([]int{2, 2}, false, -1, 1)
		h, _ := g.do(Cmd{Op: OpBin, K: 8, T: x, U: T(c)})
		h3, _ := g.do(Cmd{Op: OpScale, T: h, A: Dec{3, 0}})
		h5, _ := g.do(Cmd{Op: OpScale, T: h, A: Dec{5, 0}})
		h2, _ := g.do(Cmd{Op: OpScale, T: h, A: Dec{2, 0}})
		l1a, _ := g.do(Cmd{Op: OpBin, K: 8, T: h3, U: T(h5)})
		l1, _ := g.do(Cmd{Op: OpBin, K: 8, T: l1a, U: T(h2)})
		l2, _ := g.do(Cmd{Op: OpScale, T: h, A: Dec{7, 0}})
		g.do(Cmd{Op: OpBackprop, U: T(l1)})
		gh, _ := g.do(Cmd{Op: OpGradOf, T: h})
		gx, _ := g.do(Cmd{Op: OpGradOf, T: x})
		g.do(Cmd{Op: OpBackprop, U: T(l2)})
		for _, t := range []int{gh, gx, h, x} {
			if g.isT(t) {
				g.do(Cmd{Op: OpShape, T: t})
				g.do(Cmd{Op: OpSlice, T: t, Ranges: nil})
			}
		}
		g.do(Cmd{Op: OpGradOf, T: x})
		pool = append(pool, x, h)
	}
	steps := 6 + g.intn(12)
	for i := 0; i < steps; i++ {
		x := pickT()
		ds := g.shapeSafe(x)
		r := len(ds)
		var y int
		var o Obs
		switch g.intn(16) {
		case 0, 1:
			// a matrix product with some tensor of the pool as the right operand (valid only for matching sizes)
			y, o = g.do(Cmd{Op: OpMatMul, T: x, U: T(pickT())})
		case 2:
			y, o = g.do(Cmd{Op: OpDot, T: x, U: T(pickT())})
		case 3, 4:
			y, o = g.do(Cmd{Op: OpBin, K: 8 + g.intn(4), T: x, U: T(pickT())})
		case 5:
			y, o = g.do(Cmd{Op: OpMath, K: g.pick(2, 3, 7), T: x})
		case 6:
			if r >= 1 {
				y, o = g.do(Cmd{Op: OpAlong, K: g.intn(7), T: x, Z: g.intn(r)})
			} else {
				y, o = g.do(Cmd{Op: OpReduce, K: g.intn(7), T: x})
			}
		case 7:
			if r >= 2 {
				y, o = g.do(Cmd{Op: OpTranspose, T: x})
			} else {
				y, o = g.do(Cmd{Op: OpUnsqueeze, T: x, Z: 0})
			}
		case 8:
			y, o = g.do(Cmd{Op: OpUnsqueeze, T: x, Z: g.intn(r + 1)})
		case 9:
			if r >= 1 {
				y, o = g.do(Cmd{Op: OpFlatten, T: x, Z: g.intn(r)})
			} else {
				y, o = g.do(Cmd{Op: OpScale, T: x, A: Dec{3, 0}})
			}
		case 10:
			if r >= 1 {
				src, pidx := g.patchArgs(ds)
				p := g.leafDistinct(src, tr(), 30, 40)
				y, o = g.do(Cmd{Op: OpPatch, T: x, Ranges: pidx, U: T(p)})
			} else {
				y, o = g.do(Cmd{Op: OpPow, T: x, A: Dec{2, 0}})
			}
		case 11:
			if r >= 1 {
				y, o = g.do(Cmd{Op: OpConcat, Targs: []Targ{T(x), T(x)}, Z: g.intn(r)})
			} else {
				y, o = g.do(Cmd{Op: OpReduce, K: 0, T: x})
			}
		case 12:
			if prod(ds) <= 60 {
				y, o = g.do(Cmd{Op: OpBroadcast, T: x, Dims: g.bcastTarget(ds)})
			}
		case 13:
			y, o = g.do(Cmd{Op: OpReduce, K: g.intn(7), T: x})
		case 14:
			g.do(Cmd{Op: OpBackprop, U: T(x)})
			continue
		default:
			y, o = g.do(Cmd{Op: OpGradOf, T: x})
		}
		if o.Kind == "tensor" && g.isT(y) && prod(g.shapeSafe(y)) <= 200 {
			pool = append(pool, y)
		}
	}
	g.tag("frame-history")
	// every tensor of the history, in creation order
	for _, i := range g.tensors() {
		if prod(g.shapeSafe(i)) > 400 {
			continue
		}
		g.do(Cmd{Op: OpShape, T: i})
		g.do(Cmd{Op: OpSlice, T: i, Ranges: nil})
	}
}
