package main

// The method layer (tensor/internal/cputensor/cputensor.go): every public method is a fixed
// sequence  validation calls ; data-layer operation ; gradtrack.<F>(result, operands...) ; return.
// chainx writes each body as the list of its statements in canonical text (error-check blocks
// folded into the statement they guard).  Proofs/ChainP.v pins the list against the wiring the
// model was written for (method_wiring_expected): which validators run, in which order, which
// data operation computes the value, which gradtrack constructor receives which operands.
// This tie is syntactic (a drift alarm), unlike the interpreted chains of the composition layer.

import (
	"fmt"
	"go/ast"
	"sort"
	"strings"
)

func emitMethods(sb *strings.Builder, get func(string) (*ast.File, map[string]fnSig, error)) {
	f, _, err := get("tensor/internal/cputensor/cputensor.go")
	sb.WriteString("\n(* the method layer: statements of every function of cputensor.go, canonical text *)\n")
	if err != nil {
		fmt.Fprintf(sb, "Definition method_wiring : list (string * list string) := [(%s, [])].\n", q("MISSING: "+err.Error()))
		return
	}
	type ent struct {
		name  string
		stmts []string
	}
	var ents []ent
	for _, d := range f.Decls {
		fd, ok := d.(*ast.FuncDecl)
		if !ok || fd.Body == nil {
			continue
		}
		var out []string
		for _, s := range fd.Body.List {
			if ifs, ok := s.(*ast.IfStmt); ok && isErrCheck(ifs) && len(out) > 0 {
				out[len(out)-1] += " ?"
				continue
			}
			out = append(out, flatStmt(s))
		}
		ents = append(ents, ent{fd.Name.Name, out})
	}
	sort.SliceStable(ents, func(i, j int) bool { return ents[i].name < ents[j].name })
	sb.WriteString("Definition method_wiring : list (string * list string) :=\n  [ ")
	for i, e := range ents {
		if i > 0 {
			sb.WriteString(";\n    ")
		}
		var qs []string
		for _, s := range e.stmts {
			qs = append(qs, q(s))
		}
		fmt.Fprintf(sb, "(%s, [%s])", q(e.name), strings.Join(qs, "; "))
	}
	sb.WriteString(" ].\n")
}

// one statement as text; nested blocks are rendered recursively so that nothing is hidden
func flatStmt(s ast.Stmt) string {
	switch v := s.(type) {
	case *ast.IfStmt:
		var b []string
		for _, x := range v.Body.List {
			b = append(b, flatStmt(x))
		}
		r := "if " + exprText(v.Cond) + " { " + strings.Join(b, "; ") + " }"
		if v.Else != nil {
			r += " else " + flatStmt(v.Else)
		}
		return r
	case *ast.BlockStmt:
		var b []string
		for _, x := range v.List {
			b = append(b, flatStmt(x))
		}
		return "{ " + strings.Join(b, "; ") + " }"
	case *ast.ForStmt, *ast.RangeStmt:
		return "for " + nodeText(s)
	case *ast.AssignStmt, *ast.ReturnStmt, *ast.ExprStmt:
		return stmtText(s)
	}
	return nodeText(s)
}

func exprText(e ast.Expr) string { return nodeText(e) }
