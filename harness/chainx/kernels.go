package main

// Scalar kernels of the data layer: the function literals that operators.go passes to the
// element-wise traversals, the fold functions / identities of reducers.go and the formulas of
// avg/_var/std/mean/equals.  Written as `sx` expressions (Model/ChainIR.v) into Chains.v; the
// theorems of Proofs/ChainP.v state that their interpretation over an arbitrary Scalar IS the
// scalar function the model applies (unaryF, binaryF, the reducers' fold functions).

import (
	"fmt"
	"go/ast"
	"go/token"
	"go/types"
	"strings"
)

func sxOf(e ast.Expr) string {
	switch v := e.(type) {
	case *ast.Ident:
		return "XV " + q(v.Name)
	case *ast.BasicLit:
		if v.Kind == token.INT {
			return "XZ (" + v.Value + ")"
		}
		if v.Kind == token.FLOAT {
			if d, ok := decOf(v.Value, false); ok {
				return "XD" + strings.TrimPrefix(d, "AD")
			}
		}
	case *ast.ParenExpr:
		return sxOf(v.X)
	case *ast.UnaryExpr:
		if v.Op == token.SUB {
			return "XNeg (" + sxOf(v.X) + ")"
		}
		if v.Op == token.ADD {
			return sxOf(v.X)
		}
	case *ast.BinaryExpr:
		switch v.Op {
		case token.ADD, token.SUB, token.MUL, token.QUO:
			return fmt.Sprintf("XBin %s (%s) (%s)", q(v.Op.String()), sxOf(v.X), sxOf(v.Y))
		case token.GTR, token.GEQ, token.LSS, token.LEQ, token.EQL, token.NEQ:
			return fmt.Sprintf("XCmp %s (%s) (%s)", q(v.Op.String()), sxOf(v.X), sxOf(v.Y))
		}
	case *ast.CallExpr:
		name := types.ExprString(v.Fun)
		// a function literal argument (reduceByAssociativeFunc(func..., identity)) is named, not inlined
		var args []string
		if n := len(v.Args); n >= 1 && strings.HasPrefix(name, "apply") {
			if fl, ok := v.Args[n-1].(*ast.FuncLit); ok {
				var ts []string
				for _, a := range v.Args[:n-1] {
					ts = append(ts, q(types.ExprString(a)))
				}
				return fmt.Sprintf("XTrav %s [%s] %s", q(name), strings.Join(ts, "; "), q(funcLitKey(fl)))
			}
		}
		for _, a := range v.Args {
			if fl, ok := a.(*ast.FuncLit); ok {
				args = append(args, "(XFunRef "+q(funcLitKey(fl))+")")
				continue
			}
			args = append(args, "("+sxOf(a)+")")
		}
		switch len(args) {
		case 0:
			return "XCall0 " + q(name)
		case 1:
			return "XCall1 " + q(name) + " " + args[0]
		case 2:
			return "XCall2 " + q(name) + " " + args[0] + " " + args[1]
		}
	}
	return "XOther " + q(types.ExprString(e))
}

var funcLitNames = map[*ast.FuncLit]string{}

func funcLitKey(fl *ast.FuncLit) string {
	if n, ok := funcLitNames[fl]; ok {
		return n
	}
	return "?"
}

// a function body as one expression: [x := e]* ; (return e | if c { return e1 } else { return e2 })
func bodySx(stmts []ast.Stmt) string {
	if len(stmts) == 0 {
		return "XOther " + q("empty body")
	}
	s := stmts[0]
	rest := stmts[1:]
	switch v := s.(type) {
	case *ast.AssignStmt:
		if len(v.Lhs) == 1 && len(v.Rhs) == 1 {
			if id, ok := v.Lhs[0].(*ast.Ident); ok {
				return fmt.Sprintf("XLet %s (%s) (%s)", q(id.Name), sxOf(v.Rhs[0]), bodySx(rest))
			}
		}
	case *ast.ReturnStmt:
		if len(v.Results) == 1 && len(rest) == 0 {
			return sxOf(v.Results[0])
		}
	case *ast.IfStmt:
		if v.Init == nil && v.Else != nil && len(rest) == 0 {
			if eb, ok := v.Else.(*ast.BlockStmt); ok {
				return fmt.Sprintf("XIf (%s) (%s) (%s)", sxOf(v.Cond), bodySx(v.Body.List), bodySx(eb.List))
			}
		}
	}
	return "XOther " + q(stmtText(s))
}

func paramNames(ft *ast.FuncType) []string {
	var out []string
	if ft.Params != nil {
		for _, f := range ft.Params.List {
			for _, n := range f.Names {
				out = append(out, q(n.Name))
			}
		}
	}
	return out
}

func emitKernels(sb *strings.Builder, get func(string) (*ast.File, map[string]fnSig, error)) {
	type spec struct{ file, method string }
	specs := []spec{}
	for _, m := range []string{"scale", "pow", "exp", "log", "sin", "cos", "tan", "sinh", "cosh", "tanh",
		"eq", "ne", "gt", "ge", "lt", "le", "elmax", "elmin", "add", "sub", "mul", "div", "equals"} {
		specs = append(specs, spec{"tensor/internal/cputensor/operators.go", m})
	}
	for _, m := range []string{"sum", "max", "min", "avg", "_var", "std", "mean"} {
		specs = append(specs, spec{"tensor/internal/cputensor/reducers.go", m})
	}
	sb.WriteString("\n(* scalar kernels of the data layer (operators.go, reducers.go) *)\n")
	var names []string
	for _, sp := range specs {
		coq := "k_" + strings.TrimPrefix(sp.method, "_")
		f, _, err := get(sp.file)
		if err != nil {
			fmt.Fprintf(sb, "Definition %s : kfun := mkKfun [] (XOther %s) [].\n", coq, q("MISSING: "+err.Error()))
			continue
		}
		fd := findFunc(f, "CPUTensor", sp.method)
		if fd == nil || fd.Body == nil {
			fmt.Fprintf(sb, "Definition %s : kfun := mkKfun [] (XOther %s) [].\n", coq, q("MISSING"))
			continue
		}
		// name the function literals of this method: <method>#<k>
		var lits []*ast.FuncLit
		ast.Inspect(fd.Body, func(n ast.Node) bool {
			if fl, ok := n.(*ast.FuncLit); ok {
				funcLitNames[fl] = fmt.Sprintf("%s#%d", sp.method, len(lits))
				lits = append(lits, fl)
				return false
			}
			return true
		})
		var subs []string
		for _, fl := range lits {
			subs = append(subs, fmt.Sprintf("(%s, ([%s], %s))", q(funcLitNames[fl]), strings.Join(paramNames(fl.Type), "; "), bodySx(fl.Body.List)))
		}
		fmt.Fprintf(sb, "Definition %s : kfun := mkKfun [%s]\n  (%s)\n  [%s].\n", coq, strings.Join(paramNames(fd.Type), "; "),
			bodySx(fd.Body.List), strings.Join(subs, ";\n   "))
		names = append(names, coq)
	}
}
