package main

// chainx: TRANSLATOR for the composition layer of qeep.  The component entry points
// (activations, losses, FC, SGD) and the back-edge closures of gradtrack/gradients.go are
// straight-line chains of public Tensor method calls.  This tool reads them out of /repo's
// Go sources (go/ast, no execution, no type checker) and writes them as Gallina data
// (coq/Model/Chains.v: one `cfun` per function or closure).  Proofs/ChainP.v interprets these
// chains with the model's own operations and proves, for ALL heaps and arguments, that the
// interpretation IS the model's definition of that component / rule.  A source edit therefore
// changes Chains.v on the next run and breaks the proof obligation unless it is semantically the
// same chain.
//
// Supported statement forms (anything else becomes SOther and makes the chain uninterpretable):
//   v := e | v = e | v, err := e | v, err = e | *p, err = e        e a (nested) method/function call or a variable
//   err = f(...)                                                    a validation call (SGuard)
//   a, b, err := c.f(...)                                           several results (SBind)
//   n := <non-tensor expression>                                    SLet, canonical text
//   if err != nil { [err = fmt.Errorf(...);] return }               marks the preceding call as checked
//   return | return e | return e, nil | return nil

import (
	"bytes"
	"fmt"
	"go/ast"
	"go/printer"
	"go/parser"
	"go/token"
	"go/types"
	"math/big"
	"os"
	"path/filepath"
	"sort"
	"strings"
)

type target struct {
	coqName string
	file    string
	recv    string // receiver type name ("" for plain functions)
	fn      string
	edge    int // >= 0: the edge-th gradFn closure of the returned GradContext literal
}

var targets = []target{
	{"relu_forward", "component/layers/activations/relu.go", "Relu", "forward", -1},
	{"leaky_forward", "component/layers/activations/leaky_relu.go", "LeakyRelu", "forward", -1},
	{"sigmoid_forward", "component/layers/activations/sigmoid.go", "Sigmoid", "forward", -1},
	{"tanh_forward", "component/layers/activations/tanh.go", "Tanh", "forward", -1},
	{"softmax_forward", "component/layers/activations/softmax.go", "Softmax", "forward", -1},
	{"fc_forward", "component/layers/fc.go", "FC", "forward", -1},
	{"mse_compute", "component/losses/mse.go", "MSE", "Compute", -1},
	{"bce_compute", "component/losses/bce.go", "BCE", "Compute", -1},
	{"ce_compute", "component/losses/ce.go", "CE", "Compute", -1},
	{"clip", "component/losses/ce.go", "", "clip", -1},
	{"sgd_update", "component/optimizers/sgd.go", "SGD", "Update", -1},
	{"g_toZeros", "tensor/internal/gradtrack/gradient_helpers.go", "", "toZeros", -1},
	{"g_toOnes", "tensor/internal/gradtrack/gradient_helpers.go", "", "toOnes", -1},
	{"g_reducerBroadcasted", "tensor/internal/gradtrack/gradient_helpers.go", "", "reducerBroadcasted", -1},
}

// back-edge closures: function name in gradients.go -> number of edges to extract
var ruleFns = []struct {
	fn    string
	edges int
}{
	{"Slice", 1}, {"Patch", 2}, {"Transpose", 1}, {"Reshape", 1}, {"UnSqueeze", 1}, {"Squeeze", 1}, {"Flatten", 1},
	{"SumAlong", 1}, {"MaxAlong", 1}, {"MinAlong", 1}, {"AvgAlong", 1}, {"MeanAlong", 1}, {"VarAlong", 1}, {"StdAlong", 1},
	{"Scale", 1}, {"Pow", 1}, {"Exp", 1}, {"Log", 1}, {"Sin", 1}, {"Cos", 1}, {"Tan", 1}, {"Sinh", 1}, {"Cosh", 1}, {"Tanh", 1},
	{"ElMax", 2}, {"ElMin", 2}, {"Add", 2}, {"Sub", 2}, {"Mul", 2}, {"Div", 2}, {"Dot", 2}, {"MatMul", 2},
}

type methodSig struct {
	tensorResult bool
	hasErr       bool
}

var tensorMethods = map[string]methodSig{}

type fnSig struct {
	params       []param
	tensorResult bool
	nresults     int
}
type param struct {
	name     string
	isTensor bool
}

func isTensorType(e ast.Expr) bool {
	s := types.ExprString(e)
	return s == "tensor.Tensor" || s == "Tensor"
}

func loadInterface(repo string) error {
	fset := token.NewFileSet()
	f, err := parser.ParseFile(fset, filepath.Join(repo, "tensor/internal/tensor/types.go"), nil, 0)
	if err != nil {
		return err
	}
	for _, d := range f.Decls {
		gd, ok := d.(*ast.GenDecl)
		if !ok {
			continue
		}
		for _, sp := range gd.Specs {
			ts, ok := sp.(*ast.TypeSpec)
			if !ok || ts.Name.Name != "Tensor" {
				continue
			}
			it, ok := ts.Type.(*ast.InterfaceType)
			if !ok {
				continue
			}
			for _, m := range it.Methods.List {
				ft, ok := m.Type.(*ast.FuncType)
				if !ok || len(m.Names) == 0 {
					continue
				}
				sig := methodSig{}
				if ft.Results != nil {
					for i, r := range ft.Results.List {
						if i == 0 && isTensorType(r.Type) {
							sig.tensorResult = true
						}
						if types.ExprString(r.Type) == "error" {
							sig.hasErr = true
						}
					}
				}
				tensorMethods[m.Names[0].Name] = sig
			}
		}
	}
	if len(tensorMethods) < 40 {
		return fmt.Errorf("Tensor interface not found")
	}
	return nil
}

// ---------------------------------------------------------------------------------------------

type emitter struct {
	tvars  map[string]bool // tensor-valued variables in scope
	fns    map[string]fnSig
	stmts  []string
	ntemp  int
	ret    string
	named  []string // named results
	lastCk int      // index in stmts of the last error-returning call awaiting its check, -1 if none
	starDst string  // "*p" if the function assigned through a pointer parameter (SGD.Update)
}

func q(s string) string { return "\"" + strings.ReplaceAll(s, "\"", "'") + "\"" }

func decOf(lit string, neg bool) (string, bool) {
	s := lit
	if strings.HasSuffix(s, ".") {
		s += "0"
	}
	r, ok := new(big.Rat).SetString(s)
	if !ok {
		return "", false
	}
	if neg {
		r.Neg(r)
	}
	// r = m * 10^e with m an integer not divisible by 10 (or 0)
	e := 0
	den := new(big.Int).Set(r.Denom())
	num := new(big.Int).Set(r.Num())
	ten := big.NewInt(10)
	for den.Cmp(big.NewInt(1)) != 0 {
		num.Mul(num, ten)
		e--
		g := new(big.Int).GCD(nil, nil, new(big.Int).Abs(num), den)
		num.Div(num, g)
		den.Div(den, g)
		if e < -400 {
			return "", false
		}
	}
	if num.Sign() == 0 {
		return "AD 0 0", true
	}
	for {
		qq, m := new(big.Int).QuoRem(num, ten, new(big.Int))
		if m.Sign() != 0 {
			break
		}
		num = qq
		e++
	}
	return fmt.Sprintf("AD (%s) (%d)", num.String(), e), true
}

func (em *emitter) temp() string {
	em.ntemp++
	return fmt.Sprintf("%%%d", em.ntemp)
}

// arg translates an argument expression; nested tensor calls are flattened into temporaries
func (em *emitter) arg(e ast.Expr) string {
	switch v := e.(type) {
	case *ast.Ident:
		if em.tvars[v.Name] {
			return "AV " + q(v.Name)
		}
		return "AX " + q(v.Name)
	case *ast.BasicLit:
		if v.Kind == token.INT {
			return "AZ (" + v.Value + ")"
		}
		if v.Kind == token.FLOAT {
			if d, ok := decOf(v.Value, false); ok {
				return d
			}
		}
	case *ast.UnaryExpr:
		if v.Op == token.SUB {
			if bl, ok := v.X.(*ast.BasicLit); ok {
				if bl.Kind == token.INT {
					return "AZ (-" + bl.Value + ")"
				}
				if d, ok := decOf(bl.Value, true); ok {
					return d
				}
			}
		}
	case *ast.ParenExpr:
		return em.arg(v.X)
	case *ast.CallExpr:
		if em.isTensorCall(v) {
			t := em.temp()
			em.call(t, v, false)
			return "AV " + q(t)
		}
	}
	return "AX " + q(types.ExprString(e))
}

func (em *emitter) isTensorCall(c *ast.CallExpr) bool {
	switch f := c.Fun.(type) {
	case *ast.SelectorExpr:
		if sig, ok := tensorMethods[f.Sel.Name]; ok && sig.tensorResult && em.isTensorExpr(f.X) {
			return true
		}
	case *ast.Ident:
		if sig, ok := em.fns[f.Name]; ok && sig.tensorResult {
			return true
		}
	}
	return false
}

func (em *emitter) isTensorExpr(e ast.Expr) bool {
	switch v := e.(type) {
	case *ast.Ident:
		return em.tvars[v.Name]
	case *ast.CallExpr:
		return em.isTensorCall(v)
	case *ast.ParenExpr:
		return em.isTensorExpr(v.X)
	case *ast.StarExpr:
		return false
	case *ast.SelectorExpr: // c.Weight, c.Bias
		s := types.ExprString(v)
		return em.tvars[s]
	}
	return false
}

// call emits one SCall for the tensor-valued call c with destination dst
func (em *emitter) call(dst string, c *ast.CallExpr, witherr bool) {
	var recv, meth string
	var args []string
	switch f := c.Fun.(type) {
	case *ast.SelectorExpr:
		meth = f.Sel.Name
		switch x := f.X.(type) {
		case *ast.Ident:
			recv = x.Name
		case *ast.CallExpr:
			t := em.temp()
			em.call(t, x, false)
			recv = t
		case *ast.SelectorExpr:
			recv = types.ExprString(x)
		default:
			recv = "?" + types.ExprString(f.X)
		}
	case *ast.Ident:
		recv = ""
		meth = f.Name
	}
	for _, a := range c.Args {
		args = append(args, em.arg(a))
	}
	em.stmts = append(em.stmts, fmt.Sprintf("SCall %s %s %s [%s] %v CHECKED", q(dst), q(recv), q(meth), strings.Join(args, "; "), witherr))
	if witherr {
		em.lastCk = len(em.stmts) - 1
	} else {
		em.stmts[len(em.stmts)-1] = strings.Replace(em.stmts[len(em.stmts)-1], "CHECKED", "true", 1)
	}
	em.tvars[dst] = true
}

func (em *emitter) settle(checked bool) {
	if em.lastCk >= 0 {
		v := "false"
		if checked {
			v = "true"
		}
		em.stmts[em.lastCk] = strings.Replace(em.stmts[em.lastCk], "CHECKED", v, 1)
		em.lastCk = -1
	}
}

func lhsName(e ast.Expr) string {
	switch v := e.(type) {
	case *ast.Ident:
		return v.Name
	case *ast.StarExpr:
		return "*" + types.ExprString(v.X)
	}
	return "?" + types.ExprString(e)
}

func isErrCheck(s *ast.IfStmt) bool {
	if s.Init != nil || s.Else != nil {
		return false
	}
	if types.ExprString(s.Cond) != "err != nil" {
		return false
	}
	n := len(s.Body.List)
	if n == 0 || n > 2 {
		return false
	}
	if r, ok := s.Body.List[n-1].(*ast.ReturnStmt); !ok || len(r.Results) != 0 {
		return false
	}
	if n == 2 {
		a, ok := s.Body.List[0].(*ast.AssignStmt)
		if !ok || len(a.Lhs) != 1 || lhsName(a.Lhs[0]) != "err" || !strings.HasPrefix(types.ExprString(a.Rhs[0]), "fmt.Errorf(") {
			return false
		}
	}
	return true
}

func (em *emitter) stmt(s ast.Stmt) {
	if ifs, ok := s.(*ast.IfStmt); ok && isErrCheck(ifs) {
		if em.lastCk >= 0 {
			em.settle(true)
		} else if n := len(em.stmts); n > 0 && (strings.HasPrefix(em.stmts[n-1], "SGuard") || strings.HasPrefix(em.stmts[n-1], "SBind")) &&
			strings.HasSuffix(em.stmts[n-1], "PENDING") {
			em.stmts[n-1] = strings.TrimSuffix(em.stmts[n-1], "PENDING") + "true"
		} else {
			em.stmts = append(em.stmts, "SOther "+q("stray error check"))
		}
		return
	}
	// an unchecked error-returning call followed by something else
	em.settle(false)
	if ifs, ok := s.(*ast.IfStmt); ok && ifs.Init == nil && ifs.Else == nil && len(ifs.Body.List) > 0 {
		if _, isRet := ifs.Body.List[len(ifs.Body.List)-1].(*ast.ReturnStmt); isRet {
			nested := false
			for _, b := range ifs.Body.List {
				if _, ok := b.(*ast.IfStmt); ok {
					nested = true
				}
			}
			if !nested {
				at := len(em.stmts)
				em.stmts = append(em.stmts, "")
				saved := map[string]bool{}
				for k, v := range em.tvars {
					saved[k] = v
				}
				for _, b := range ifs.Body.List {
					em.stmt(b)
				}
				em.settle(false)
				em.tvars = saved
				em.stmts[at] = fmt.Sprintf("SIf %s %d", q(types.ExprString(ifs.Cond)), len(em.stmts)-at-1)
				return
			}
		}
	}
	if n := len(em.stmts); n > 0 && strings.HasSuffix(em.stmts[n-1], "PENDING") {
		em.stmts[n-1] = strings.TrimSuffix(em.stmts[n-1], "PENDING") + "false"
	}
	switch v := s.(type) {
	case *ast.AssignStmt:
		if len(v.Rhs) != 1 {
			break
		}
		rhs := v.Rhs[0]
		var lhs []string
		for _, l := range v.Lhs {
			lhs = append(lhs, lhsName(l))
		}
		witherr := len(lhs) >= 2 && lhs[len(lhs)-1] == "err"
		if len(lhs) == 1 && lhs[0] == "err" {
			em.stmts = append(em.stmts, "SGuard "+q(types.ExprString(rhs))+" PENDING")
			return
		}
		nval := len(lhs)
		if witherr {
			nval--
		}
		if nval == 1 {
			if c, ok := rhs.(*ast.CallExpr); ok && em.isTensorCall(c) {
				em.call(lhs[0], c, witherr)
				if strings.HasPrefix(lhs[0], "*") {
					em.starDst = lhs[0]
				}
				return
			}
			if em.isTensorExpr(rhs) && !witherr {
				em.stmts = append(em.stmts, fmt.Sprintf("SCopy %s %s", q(lhs[0]), q(types.ExprString(rhs))))
				em.tvars[lhs[0]] = true
				return
			}
			if !witherr {
				em.stmts = append(em.stmts, fmt.Sprintf("SLet %s %s", q(lhs[0]), q(types.ExprString(rhs))))
				delete(em.tvars, lhs[0])
				return
			}
		}
		if nval >= 1 && witherr {
			var ds []string
			for _, l := range lhs[:nval] {
				ds = append(ds, q(l))
				em.tvars[l] = true // results of a validation helper are the validated tensors
			}
			em.stmts = append(em.stmts, fmt.Sprintf("SBind [%s] %s PENDING", strings.Join(ds, "; "), q(types.ExprString(rhs))))
			return
		}
	case *ast.ReturnStmt:
		switch len(v.Results) {
		case 0:
			if len(em.named) > 0 {
				em.ret = em.named[0]
			}
			em.stmts = append(em.stmts, "SRet "+q(em.ret))
			return
		case 1, 2:
			r0 := v.Results[0]
			if len(v.Results) == 2 && types.ExprString(v.Results[1]) != "nil" {
				break
			}
			if c, ok := r0.(*ast.CallExpr); ok && em.isTensorCall(c) {
				witherr := false
				if f, ok := c.Fun.(*ast.SelectorExpr); ok {
					witherr = tensorMethods[f.Sel.Name].hasErr
				} else if f, ok := c.Fun.(*ast.Ident); ok {
					witherr = em.fns[f.Name].nresults == 2
				}
				if witherr == (len(v.Results) == 2) && witherr {
					break // (T, error) call with an extra nil: does not type-check in Go anyway
				}
				em.call("%ret", c, witherr)
				em.settle(true) // returned directly: the error is propagated
				em.stmts = append(em.stmts, "SRet "+q("%ret"))
				return
			}
			if types.ExprString(r0) == "nil" && len(v.Results) == 1 {
				em.stmts = append(em.stmts, "SRet "+q(em.starDst))
				return
			}
			if em.isTensorExpr(r0) {
				em.stmts = append(em.stmts, "SRet "+q(types.ExprString(r0)))
				return
			}
		}
	}
	em.stmts = append(em.stmts, "SOther "+q(stmtText(s)))
}

func stmtText(s ast.Stmt) string {
	switch v := s.(type) {
	case *ast.AssignStmt:
		var l, r []string
		for _, e := range v.Lhs {
			l = append(l, types.ExprString(e))
		}
		for _, e := range v.Rhs {
			r = append(r, types.ExprString(e))
		}
		return strings.Join(l, ", ") + " " + v.Tok.String() + " " + strings.Join(r, ", ")
	case *ast.ReturnStmt:
		var r []string
		for _, e := range v.Results {
			r = append(r, types.ExprString(e))
		}
		return "return " + strings.Join(r, ", ")
	case *ast.IfStmt:
		return "if " + types.ExprString(v.Cond) + " {...}"
	case *ast.ExprStmt:
		return types.ExprString(v.X)
	}
	return fmt.Sprintf("%T", s)
}

func fieldNames(fl *ast.FieldList, onlyTensor bool) (names []string, ps []param) {
	if fl == nil {
		return
	}
	for _, f := range fl.List {
		for _, n := range f.Names {
			t := isTensorType(f.Type)
			ps = append(ps, param{n.Name, t})
			if !onlyTensor || t {
				names = append(names, n.Name)
			}
		}
	}
	return
}

func translate(coqName string, ft *ast.FuncType, body *ast.BlockStmt, outer *ast.FuncType, recvName string, fns map[string]fnSig) string {
	em := &emitter{tvars: map[string]bool{}, fns: fns, lastCk: -1}
	var params []string
	addParams := func(t *ast.FuncType) {
		if t == nil {
			return
		}
		_, ps := fieldNames(t.Params, false)
		for _, p := range ps {
			if p.isTensor {
				em.tvars[p.name] = true
			}
			params = append(params, q(p.name))
		}
	}
	addParams(outer)
	addParams(ft)
	if recvName != "" { // tensor-valued fields of the receiver (FC)
		em.tvars[recvName+".Weight"] = true
		em.tvars[recvName+".Bias"] = true
	}
	if ft.Results != nil {
		for _, f := range ft.Results.List {
			for _, n := range f.Names {
				em.named = append(em.named, n.Name)
			}
		}
	}
	for _, s := range body.List {
		em.stmt(s)
	}
	em.settle(false)
	var sb strings.Builder
	fmt.Fprintf(&sb, "Definition %s : cfun := mkCfun [%s]\n  [ ", coqName, strings.Join(params, "; "))
	sb.WriteString(strings.Join(em.stmts, ";\n    "))
	sb.WriteString(" ].\n")
	return sb.String()
}

func findFunc(f *ast.File, recv, name string) *ast.FuncDecl {
	for _, d := range f.Decls {
		fd, ok := d.(*ast.FuncDecl)
		if !ok || fd.Name.Name != name {
			continue
		}
		if recv == "" && fd.Recv == nil {
			return fd
		}
		if recv != "" && fd.Recv != nil && len(fd.Recv.List) == 1 {
			t := types.ExprString(fd.Recv.List[0].Type)
			if t == "*"+recv || t == recv {
				return fd
			}
		}
	}
	return nil
}

func pkgFns(files []*ast.File) map[string]fnSig {
	m := map[string]fnSig{}
	for _, f := range files {
		for _, d := range f.Decls {
			fd, ok := d.(*ast.FuncDecl)
			if !ok || fd.Recv != nil {
				continue
			}
			sig := fnSig{}
			_, sig.params = fieldNames(fd.Type.Params, false)
			if fd.Type.Results != nil {
				for i, r := range fd.Type.Results.List {
					k := len(r.Names)
					if k == 0 {
						k = 1
					}
					sig.nresults += k
					if i == 0 && isTensorType(r.Type) {
						sig.tensorResult = true
					}
				}
			}
			m[fd.Name.Name] = sig
		}
	}
	return m
}

// gradFn closures of the GradContext literal returned by fd, in source order
func closures(fd *ast.FuncDecl) []*ast.FuncLit {
	var out []*ast.FuncLit
	ast.Inspect(fd.Body, func(n ast.Node) bool {
		kv, ok := n.(*ast.KeyValueExpr)
		if ok {
			if id, ok := kv.Key.(*ast.Ident); ok && id.Name == "gradFn" {
				if fl, ok := kv.Value.(*ast.FuncLit); ok {
					out = append(out, fl)
					return false
				}
			}
		}
		return true
	})
	return out
}

// the three-way test every function of gradients.go starts with, as canonical text
func prologue(fd *ast.FuncDecl) string {
	var parts []string
	for _, s := range fd.Body.List {
		ifs, ok := s.(*ast.IfStmt)
		if !ok {
			break
		}
		body := ""
		if len(ifs.Body.List) == 1 {
			body = stmtText(ifs.Body.List[0])
		}
		parts = append(parts, "if "+types.ExprString(ifs.Cond)+" { "+body+" }")
	}
	return strings.Join(parts, " ")
}

func main() {
	if len(os.Args) < 3 {
		fmt.Fprintln(os.Stderr, "usage: chainx <repo> <out.v>")
		os.Exit(2)
	}
	repo, out := os.Args[1], os.Args[2]
	if err := loadInterface(repo); err != nil {
		fmt.Fprintln(os.Stderr, "chainx:", err)
		os.Exit(1)
	}
	var sb strings.Builder
	sb.WriteString("(* GENERATED by harness/chainx from /repo's Go sources on every run — do not edit.\n   One cfun per component function / back-edge closure: its straight-line chain of Tensor method calls. *)\n")
	sb.WriteString("From Coq Require Import String List ZArith.\nFrom Qeep Require Import Model.ChainIR.\nImport ListNotations.\nLocal Open Scope string_scope.\nLocal Open Scope Z_scope.\n\n")
	parsed := map[string]*ast.File{}
	dirFns := map[string]map[string]fnSig{}
	get := func(rel string) (*ast.File, map[string]fnSig, error) {
		if f, ok := parsed[rel]; ok {
			return f, dirFns[filepath.Dir(rel)], nil
		}
		dir := filepath.Join(repo, filepath.Dir(rel))
		fset := token.NewFileSet()
		pkgs, err := parser.ParseDir(fset, dir, func(fi os.FileInfo) bool { return !strings.HasSuffix(fi.Name(), "_test.go") }, 0)
		if err != nil {
			return nil, nil, err
		}
		var files []*ast.File
		for _, p := range pkgs {
			var names []string
			for n := range p.Files {
				names = append(names, n)
			}
			sort.Strings(names)
			for _, n := range names {
				files = append(files, p.Files[n])
				r, _ := filepath.Rel(repo, n)
				parsed[r] = p.Files[n]
			}
		}
		dirFns[filepath.Dir(rel)] = pkgFns(files)
		f, ok := parsed[rel]
		if !ok {
			return nil, nil, fmt.Errorf("file %s not found", rel)
		}
		return f, dirFns[filepath.Dir(rel)], nil
	}
	missing := func(name, why string) {
		fmt.Fprintf(&sb, "Definition %s : cfun := mkCfun [] [ SOther %s ].\n", name, q("MISSING: "+why))
	}
	for _, t := range targets {
		f, fns, err := get(t.file)
		if err != nil {
			missing(t.coqName, err.Error())
			continue
		}
		fd := findFunc(f, t.recv, t.fn)
		if fd == nil || fd.Body == nil {
			missing(t.coqName, "function not found")
			continue
		}
		rn := ""
		if fd.Recv != nil && len(fd.Recv.List[0].Names) == 1 {
			rn = fd.Recv.List[0].Names[0].Name
		}
		sb.WriteString(translate(t.coqName, fd.Type, fd.Body, nil, rn, fns))
	}
	gfile := "tensor/internal/gradtrack/gradients.go"
	f, fns, err := get(gfile)
	var prologues []string
	for _, r := range ruleFns {
		for k := 0; k < r.edges; k++ {
			name := fmt.Sprintf("back_%s_%d", r.fn, k)
			if err != nil {
				missing(name, err.Error())
				continue
			}
			fd := findFunc(f, "", r.fn)
			if fd == nil {
				missing(name, "function not found")
				continue
			}
			cl := closures(fd)
			if len(cl) != r.edges {
				missing(name, fmt.Sprintf("expected %d gradFn closures, found %d", r.edges, len(cl)))
				continue
			}
			sb.WriteString(translate(name, cl[k].Type, cl[k].Body, fd.Type, "", fns))
		}
		if err == nil {
			if fd := findFunc(f, "", r.fn); fd != nil {
				prologues = append(prologues, fmt.Sprintf("(%s, %s)", q(r.fn), q(prologue(fd))))
			}
		}
	}
	emitKernels(&sb, get)
	emitMethods(&sb, get)
	fmt.Fprintf(&sb, "\nDefinition rule_prologues : list (string * string) :=\n  [ %s ].\n", strings.Join(prologues, ";\n    "))
	// write only when changed (keeps make incremental)
	old, _ := os.ReadFile(out)
	if string(old) != sb.String() {
		if err := os.WriteFile(out, []byte(sb.String()), 0o644); err != nil {
			fmt.Fprintln(os.Stderr, "chainx:", err)
			os.Exit(1)
		}
	}
}

func nodeText(n ast.Node) string {
	var b bytes.Buffer
	printer.Fprint(&b, token.NewFileSet(), n)
	return strings.Join(strings.Fields(b.String()), " ")
}
