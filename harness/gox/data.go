package main

// Translation of the DATA layer of tensor/internal/cputensor (functions over `any` data: float64 leaves and []any
// rows, recursive closures with pointer parameters) into DataIR programs (coq/Model/DataIR.v), written to
// coq/Model/GoData.v.  See the header of DataIR.v for the semantics (two-level environments, copy-in/copy-out for
// pointer parameters, the oracle for calls that leave the program).
//
// A *CPUTensor receiver / parameter / named result x is represented by two variables "x.dims" and "x.data"; any
// other tensor-valued expression (an element of a []*CPUTensor, the result of an outside call) by the pair
// [dims, data], so that e.dims = e[0] and e.data = e[1].
//
// Refused (TUnsupported): anything outside the fragment; a call that passes the same root variable by reference
// twice; a closure whose body mentions a variable that some call passes to it by reference.

import (
	"fmt"
	"go/ast"
	"go/token"
	"os"
	"strings"
)

type dtarget struct {
	coq  string
	file string
	recv string
	fn   string
}

var dtargets = []dtarget{
	{"d_dataAt", cdir + "accessors.go", "CPUTensor", "dataAt"},
	{"d_copiedSliceOf", cdir + "accessors.go", "CPUTensor", "copiedSliceOf"},
	{"d_copiedWithPatchOf", cdir + "accessors.go", "CPUTensor", "copiedWithPatchOf"},
	{"d_applyUnary", cdir + "operators.go", "", "applyUnaryFuncOnTensorElemWise"},
	{"d_applyBinary", cdir + "operators.go", "", "applyBinaryFuncOnTensorsElemWise"},
	{"d_dotProductOf1DInputs", cdir + "operators.go", "", "dotProductOf1DInputs"},
	{"d_matMulDataOf2DInputs", cdir + "operators.go", "", "matMulDataOf2DInputs"},
	{"d_reduceByAssociativeFunc", cdir + "reducers.go", "CPUTensor", "reduceByAssociativeFunc"},
	{"d_initWith", cdir + "initializers.go", "CPUTensor", "initWith"},
	{"d_initConcatResultTensor", cdir + "initializers.go", "", "initConcatResultTensor"},
}

type dtr struct {
	mapVars    map[string]bool   // map[K]bool used as a set: held as the list of its keys
	tensorVars map[string]bool   // x : *CPUTensor represented as x.dims / x.data
	floatVars  map[string]bool   // variables holding float64
	funcVars   map[string]bool   // parameters of function type (suf, sbf, af, initFunc)
	closures   map[string]*ast.FuncLit
	closureSig map[string][]bool // pointer-ness of the closure's parameters
	results    []resv
	extFns     map[string]bool // calls that leave the program
}

func (t *dtr) fail(why string) { panic(unsupported{why}) }

func (t *dtr) isFloatExpr(e ast.Expr) bool {
	switch v := e.(type) {
	case *ast.BasicLit:
		return v.Kind == token.FLOAT
	case *ast.Ident:
		return t.floatVars[v.Name]
	case *ast.ParenExpr:
		return t.isFloatExpr(v.X)
	case *ast.TypeAssertExpr:
		return typeText(v.Type) == "float64"
	case *ast.BinaryExpr:
		return t.isFloatExpr(v.X) || t.isFloatExpr(v.Y)
	case *ast.CallExpr:
		if id, ok := v.Fun.(*ast.Ident); ok && t.funcVars[id.Name] {
			return true
		}
	}
	return false
}

func floatLit(s string) (string, bool) {
	// 0.  1.  2.5  -> mantissa, exponent
	s = strings.TrimSpace(s)
	if strings.ContainsAny(s, "eExXpP_") {
		return "", false
	}
	parts := strings.SplitN(s, ".", 2)
	frac := ""
	if len(parts) == 2 {
		frac = strings.TrimRight(parts[1], "0")
	}
	m := strings.TrimLeft(parts[0]+frac, "0")
	if m == "" {
		m = "0"
	}
	return fmt.Sprintf("XFLit %s (%d)", m, -len(frac)), true
}

func (t *dtr) exprs(es []ast.Expr) string {
	var out []string
	for _, e := range es {
		out = append(out, t.expr(e))
	}
	return "[" + strings.Join(out, "; ") + "]"
}

func (t *dtr) optExpr(e ast.Expr) string {
	if e == nil {
		return "None"
	}
	return "(Some (" + t.expr(e) + "))"
}

func (t *dtr) expr(e ast.Expr) string {
	switch v := e.(type) {
	case *ast.BasicLit:
		if v.Kind == token.INT {
			return "XInt " + v.Value
		}
		if v.Kind == token.FLOAT {
			if s, ok := floatLit(v.Value); ok {
				return s
			}
		}
	case *ast.Ident:
		if v.Name == "nil" {
			return "XNilSlice"
		}
		if v.Name == "true" {
			return "XBool true"
		}
		if v.Name == "false" {
			return "XBool false"
		}
		if v.Name == "_" {
			break
		}
		return "XVar " + q(v.Name)
	case *ast.ParenExpr:
		return t.expr(v.X)
	case *ast.StarExpr: // *p : the pointee is the variable p (copy-in)
		if id, ok := v.X.(*ast.Ident); ok {
			return "XVar " + q(id.Name)
		}
	case *ast.TypeAssertExpr:
		switch typeText(v.Type) {
		case "float64":
			return "XAssertF (" + t.expr(v.X) + ")"
		case "[]any":
			return "XAssertL (" + t.expr(v.X) + ")"
		}
	case *ast.SelectorExpr:
		switch v.Sel.Name {
		case "From":
			return "XFrom (" + t.expr(v.X) + ")"
		case "To":
			return "XTo (" + t.expr(v.X) + ")"
		case "dims", "data":
			if id, ok := v.X.(*ast.Ident); ok && t.tensorVars[id.Name] {
				return "XVar " + q(id.Name+"."+v.Sel.Name)
			}
			ix := "0"
			if v.Sel.Name == "data" {
				ix = "1"
			}
			return "XIdx (" + t.expr(v.X) + ") (XInt " + ix + ")"
		}
	case *ast.IndexExpr:
		if id, ok := v.X.(*ast.Ident); ok && t.mapVars[id.Name] {
			return "XMember (XVar " + q(id.Name) + ") (" + t.expr(v.Index) + ")"
		}
		return "XIdx (" + t.expr(v.X) + ") (" + t.expr(v.Index) + ")"
	case *ast.CompositeLit:
		if typeText(v.Type) == "tensor.Range" && len(v.Elts) == 2 {
			var f, to ast.Expr
			for _, el := range v.Elts {
				if kv, ok := el.(*ast.KeyValueExpr); ok {
					switch nodeText(kv.Key) {
					case "From":
						f = kv.Value
					case "To":
						to = kv.Value
					}
				}
			}
			if f != nil && to != nil {
				return "XMkRange (" + t.expr(f) + ") (" + t.expr(to) + ")"
			}
		}
	case *ast.SliceExpr:
		if !v.Slice3 {
			return "XSub (" + t.expr(v.X) + ") " + t.optExpr(v.Low) + " " + t.optExpr(v.High)
		}
	case *ast.UnaryExpr:
		if v.Op == token.NOT {
			return "XNot (" + t.expr(v.X) + ")"
		}
	case *ast.BinaryExpr:
		if v.Op == token.LAND {
			return "XAnd (" + t.expr(v.X) + ") (" + t.expr(v.Y) + ")"
		}
		if v.Op == token.LOR {
			return "XOr (" + t.expr(v.X) + ") (" + t.expr(v.Y) + ")"
		}
		if (v.Op == token.EQL || v.Op == token.NEQ) && (isNil(v.X) || isNil(v.Y)) {
			other := v.X
			if isNil(v.X) {
				other = v.Y
			}
			var c string
			if id, ok := other.(*ast.Ident); ok && id.Name == "err" {
				c = "XBin GoIR.OEq (XVar \"err\") (XInt 0)"
			} else {
				c = "XIsNil (" + t.expr(other) + ")"
			}
			if v.Op == token.NEQ {
				return "XNot (" + c + ")"
			}
			return c
		}
		if t.isFloatExpr(v.X) || t.isFloatExpr(v.Y) {
			op := map[token.Token]string{token.ADD: "FAdd", token.SUB: "FSub", token.MUL: "FMul", token.QUO: "FDiv"}[v.Op]
			if op != "" {
				return "XFBin " + op + " (" + t.expr(v.X) + ") (" + t.expr(v.Y) + ")"
			}
			break
		}
		if o := binop(v.Op); o != "" {
			return "XBin GoIR." + o + " (" + t.expr(v.X) + ") (" + t.expr(v.Y) + ")"
		}
	case *ast.CallExpr:
		name := nodeText(v.Fun)
		switch name {
		case "len":
			if len(v.Args) == 1 {
				return "XLen (" + t.expr(v.Args[0]) + ")"
			}
		case "make":
			tt := typeText(v.Args[0])
			if tt == "[]int" && len(v.Args) == 2 {
				return "XMakeInts (" + t.expr(v.Args[1]) + ")"
			}
			if (tt == "[]any" || strings.HasPrefix(tt, "[]*")) && len(v.Args) == 2 {
				return "XMakeAny (" + t.expr(v.Args[1]) + ")"
			}
			if tt == "[]tensor.Range" && len(v.Args) == 2 {
				return "XMakeRanges (" + t.expr(v.Args[1]) + ")"
			}
			if strings.HasPrefix(tt, "map[") && len(v.Args) == 1 {
				return "XNilSlice"
			}
			if tt == "[]any" && len(v.Args) == 3 && nodeText(v.Args[1]) == "0" {
				return "XMakeAnyCap (" + t.expr(v.Args[2]) + ")"
			}
		case "append":
			if v.Ellipsis.IsValid() && len(v.Args) == 2 {
				return "XAppendAll (" + t.expr(v.Args[0]) + ") (" + t.expr(v.Args[1]) + ")"
			}
			if !v.Ellipsis.IsValid() && len(v.Args) >= 1 {
				return "XAppend (" + t.expr(v.Args[0]) + ") " + t.exprs(v.Args[1:])
			}
		}
		if id, ok := v.Fun.(*ast.Ident); ok && t.funcVars[id.Name] && len(v.Args) > 0 {
			return "XFApp " + q(id.Name) + " " + t.exprs(v.Args)
		}
	}
	t.fail("expression: " + nodeText(e))
	return ""
}

func dseq(ss []string) string {
	if len(ss) == 0 {
		return "TSkip"
	}
	if len(ss) == 1 {
		return ss[0]
	}
	return "tseq [" + strings.Join(ss, ";\n      ") + "]"
}

func (t *dtr) block(b *ast.BlockStmt) string {
	if b == nil {
		return "TSkip"
	}
	var out []string
	for _, s := range b.List {
		if c := t.stmt(s); c != "" {
			out = append(out, c)
		}
	}
	return dseq(out)
}

// assignment target: x, *p, x[i], x.dims / x.data of a tensor variable
func (t *dtr) setTarget(lhs ast.Expr, rhs string) string { return t.setTargetD(lhs, rhs, false) }

func (t *dtr) setTargetD(lhs ast.Expr, rhs string, define bool) string {
	if ix, ok := lhs.(*ast.IndexExpr); ok {
		if id, ok := ix.X.(*ast.Ident); ok && t.mapVars[id.Name] {
			if rhs != "XBool true" {
				t.fail("map used as a set: only m[k] = true is supported")
			}
			return "TSet " + q(id.Name) + " (XAppend (XVar " + q(id.Name) + ") [" + t.expr(ix.Index) + "])"
		}
	}
	switch v := lhs.(type) {
	case *ast.Ident:
		if v.Name != "_" {
			if define {
				return "TDef " + q(v.Name) + " (" + rhs + ")"
			}
			return "TSet " + q(v.Name) + " (" + rhs + ")"
		}
	case *ast.StarExpr:
		if id, ok := v.X.(*ast.Ident); ok {
			return "TSet " + q(id.Name) + " (" + rhs + ")"
		}
	case *ast.IndexExpr:
		if id, ok := v.X.(*ast.Ident); ok {
			return "TSetIdx " + q(id.Name) + " (" + t.expr(v.Index) + ") (" + rhs + ")"
		}
	case *ast.SelectorExpr:
		if id, ok := v.X.(*ast.Ident); ok && t.tensorVars[id.Name] && (v.Sel.Name == "dims" || v.Sel.Name == "data") {
			return "TSet " + q(id.Name+"."+v.Sel.Name) + " (" + rhs + ")"
		}
	}
	t.fail("assignment target: " + nodeText(lhs))
	return ""
}

func rootOfRef(e ast.Expr) string {
	u, ok := e.(*ast.UnaryExpr)
	if !ok || u.Op != token.AND {
		return ""
	}
	switch v := u.X.(type) {
	case *ast.Ident:
		return v.Name
	case *ast.IndexExpr:
		if id, ok := v.X.(*ast.Ident); ok {
			return id.Name
		}
	case *ast.SelectorExpr:
		return nodeText(v)
	}
	return ""
}

func (t *dtr) arg(e ast.Expr) string {
	if u, ok := e.(*ast.UnaryExpr); ok && u.Op == token.AND {
		switch v := u.X.(type) {
		case *ast.Ident:
			return "ARefVar " + q(v.Name)
		case *ast.IndexExpr:
			if id, ok := v.X.(*ast.Ident); ok {
				return "ARefIdx " + q(id.Name) + " (" + t.expr(v.Index) + ")"
			}
		case *ast.SelectorExpr:
			if id, ok := v.X.(*ast.Ident); ok && t.tensorVars[id.Name] {
				return "ARefVar " + q(id.Name+"."+v.Sel.Name)
			}
		}
		t.fail("reference argument: " + nodeText(e))
	}
	return "AVal (" + t.expr(e) + ")"
}

// arguments of a call that leaves the program: a tensor variable is passed as its two components
func (t *dtr) extArgs(c *ast.CallExpr) string {
	var out []string
	if sel, ok := c.Fun.(*ast.SelectorExpr); ok {
		if id, ok := sel.X.(*ast.Ident); ok && t.tensorVars[id.Name] {
			out = append(out, "XVar "+q(id.Name+".dims"), "XVar "+q(id.Name+".data"))
		} else if _, isPkg := sel.X.(*ast.Ident); !isPkg || true {
			if id, ok := sel.X.(*ast.Ident); !(ok && (id.Name == "math" || id.Name == "fmt")) {
				out = append(out, t.expr(sel.X))
			}
		}
	}
	for _, a := range c.Args {
		if id, ok := a.(*ast.Ident); ok && t.tensorVars[id.Name] {
			out = append(out, "XVar "+q(id.Name+".dims"), "XVar "+q(id.Name+".data"))
			continue
		}
		out = append(out, t.expr(a))
	}
	return "[" + strings.Join(out, "; ") + "]"
}

func extName(c *ast.CallExpr) string {
	switch v := c.Fun.(type) {
	case *ast.Ident:
		return v.Name
	case *ast.SelectorExpr:
		return v.Sel.Name
	}
	return nodeText(c.Fun)
}

func (t *dtr) stmt(s ast.Stmt) (res string) {
	defer func() {
		if r := recover(); r != nil {
			if u, ok := r.(unsupported); ok {
				res = "TUnsupported " + q(u.why)
				return
			}
			panic(r)
		}
	}()
	switch v := s.(type) {
	case *ast.EmptyStmt:
		return "TSkip"
	case *ast.BlockStmt:
		return t.block(v)
	case *ast.DeclStmt:
		gd, ok := v.Decl.(*ast.GenDecl)
		if !ok || gd.Tok != token.VAR {
			t.fail("declaration: " + nodeText(s))
		}
		var out []string
		for _, sp := range gd.Specs {
			vs := sp.(*ast.ValueSpec)
			if len(vs.Values) != 0 || vs.Type == nil {
				t.fail("declaration: " + nodeText(s))
			}
			tt := typeText(vs.Type)
			if strings.HasPrefix(tt, "func(") {
				continue // the closure variable; its definition follows
			}
			for _, n := range vs.Names {
				switch {
				case tt == "int":
					out = append(out, "TDef "+q(n.Name)+" (XInt 0)")
				case strings.HasPrefix(tt, "[]"):
					out = append(out, "TDef "+q(n.Name)+" XNilSlice")
				case tt == "any":
					out = append(out, "TDef "+q(n.Name)+" XNilAny")
				default:
					t.fail("declaration: " + nodeText(s))
				}
			}
		}
		return dseq(out)
	case *ast.ExprStmt:
		c, ok := v.X.(*ast.CallExpr)
		if !ok {
			t.fail("statement: " + nodeText(s))
		}
		name := nodeText(c.Fun)
		if name == "copy" && len(c.Args) == 2 {
			switch d := c.Args[0].(type) {
			case *ast.Ident:
				return "TCopy " + q(d.Name) + " (" + t.expr(c.Args[1]) + ")"
			case *ast.SelectorExpr:
				if id, ok := d.X.(*ast.Ident); ok && t.tensorVars[id.Name] {
					return "TCopy " + q(id.Name+"."+d.Sel.Name) + " (" + t.expr(c.Args[1]) + ")"
				}
			}
		}
		if id, ok := c.Fun.(*ast.Ident); ok && t.closures[id.Name] != nil {
			// aliasing: no root variable twice by reference
			seen := map[string]bool{}
			var args []string
			for _, a := range c.Args {
				if r := rootOfRef(a); r != "" {
					if seen[r] {
						t.fail("the same variable is passed by reference twice: " + nodeText(s))
					}
					seen[r] = true
				}
				args = append(args, t.arg(a))
			}
			return "TCall " + q(id.Name) + " [" + strings.Join(args, "; ") + "]"
		}
		t.fail("statement: " + nodeText(s))
	case *ast.IncDecStmt:
		op := "GoIR.OAdd"
		if v.Tok == token.DEC {
			op = "GoIR.OSub"
		}
		return t.setTarget(v.X, "XBin "+op+" ("+t.expr(v.X)+") (XInt 1)")
	case *ast.AssignStmt:
		switch v.Tok {
		case token.ADD_ASSIGN, token.SUB_ASSIGN, token.MUL_ASSIGN:
			if len(v.Lhs) == 1 && len(v.Rhs) == 1 {
				if t.isFloatExpr(v.Lhs[0]) || t.isFloatExpr(v.Rhs[0]) {
					op := map[token.Token]string{token.ADD_ASSIGN: "FAdd", token.SUB_ASSIGN: "FSub", token.MUL_ASSIGN: "FMul"}[v.Tok]
					return t.setTarget(v.Lhs[0], "XFBin "+op+" ("+t.expr(v.Lhs[0])+") ("+t.expr(v.Rhs[0])+")")
				}
				op := map[token.Token]string{token.ADD_ASSIGN: "OAdd", token.SUB_ASSIGN: "OSub", token.MUL_ASSIGN: "OMul"}[v.Tok]
				return t.setTarget(v.Lhs[0], "XBin GoIR."+op+" ("+t.expr(v.Lhs[0])+") ("+t.expr(v.Rhs[0])+")")
			}
		case token.ASSIGN, token.DEFINE:
			if len(v.Lhs) == 1 && len(v.Rhs) == 1 {
				// closure definition
				if fl, ok := v.Rhs[0].(*ast.FuncLit); ok {
					if id, ok := v.Lhs[0].(*ast.Ident); ok && t.closures[id.Name] == fl {
						return ""
					}
					t.fail("function literal: " + nodeText(v.Lhs[0]))
				}
				// o = new(CPUTensor)
				if c, ok := v.Rhs[0].(*ast.CallExpr); ok && nodeText(c.Fun) == "new" {
					if id, ok := v.Lhs[0].(*ast.Ident); ok && t.tensorVars[id.Name] {
						return "TSkip"
					}
				}
				// a call that leaves the program
				if c, ok := v.Rhs[0].(*ast.CallExpr); ok {
					nm := extName(c)
					if t.extFns[nm] || (func() bool { id, ok := c.Fun.(*ast.Ident); return ok && t.funcVars[id.Name] && len(c.Args) == 0 })() {
						var xs []string
						switch l := v.Lhs[0].(type) {
						case *ast.Ident:
							if t.tensorVars[l.Name] {
								xs = []string{q(l.Name + ".dims"), q(l.Name + ".data")}
							} else {
								xs = []string{q(l.Name)}
							}
						case *ast.StarExpr:
							xs = []string{q(nodeText(l.X))}
						case *ast.SelectorExpr:
							if id, ok := l.X.(*ast.Ident); ok && t.tensorVars[id.Name] {
								xs = []string{q(id.Name + "." + l.Sel.Name)}
							}
						}
						if xs == nil {
							t.fail("assignment target: " + nodeText(v.Lhs[0]))
						}
						def := "false"
						if v.Tok == token.DEFINE {
							def = "true"
						}
						return "TExt " + def + " [" + strings.Join(xs, "; ") + "] " + q(nm) + " " + t.extArgs(c)
					}
				}
				if id, ok := v.Lhs[0].(*ast.Ident); ok && v.Tok == token.DEFINE && t.isFloatExpr(v.Rhs[0]) {
					t.floatVars[id.Name] = true
				}
				if id, ok := v.Lhs[0].(*ast.Ident); ok {
					if c, ok := v.Rhs[0].(*ast.CallExpr); ok && nodeText(c.Fun) == "make" && strings.HasPrefix(typeText(c.Args[0]), "map[") {
						if t.mapVars == nil {
							t.mapVars = map[string]bool{}
						}
						t.mapVars[id.Name] = true
					}
				}
				return t.setTargetD(v.Lhs[0], t.expr(v.Rhs[0]), v.Tok == token.DEFINE)
			}
		}
		t.fail("assignment: " + nodeText(s))
	case *ast.IfStmt:
		if v.Init != nil {
			t.fail("if with init")
		}
		els := "TSkip"
		if v.Else != nil {
			els = t.stmt(v.Else)
		}
		return "TIf (" + t.expr(v.Cond) + ")\n      (" + t.block(v.Body) + ")\n      (" + els + ")"
	case *ast.ForStmt:
		if v.Cond == nil {
			t.fail("for without condition")
		}
		post := "TSkip"
		if v.Post != nil {
			post = t.stmt(v.Post)
		}
		loop := "TFor (" + t.expr(v.Cond) + ") (" + post + ")\n      (" + t.block(v.Body) + ")"
		if v.Init != nil {
			return dseq([]string{t.stmt(v.Init), loop})
		}
		return loop
	case *ast.RangeStmt:
		k, x := "_", "_"
		if v.Key != nil {
			k = nodeText(v.Key)
		}
		if v.Value != nil {
			x = nodeText(v.Value)
		}
		if x != "_" {
			if id, ok := v.X.(*ast.Ident); ok && writesTo(v.Body, id.Name) {
				t.fail("range by value over a slice modified in the loop: " + id.Name)
			}
		}
		return "TRange " + q(k) + " " + q(x) + " (" + t.expr(v.X) + ")\n      (" + t.block(v.Body) + ")"
	case *ast.BranchStmt:
		if v.Label == nil && v.Tok == token.BREAK {
			return "TBreak"
		}
		if v.Label == nil && v.Tok == token.CONTINUE {
			return "TContinue"
		}
	case *ast.ReturnStmt:
		if len(v.Results) == 0 {
			var rs []string
			for _, r := range t.results {
				if r.typ == "*CPUTensor" {
					rs = append(rs, "XVar "+q(r.name+".dims"), "XVar "+q(r.name+".data"))
				} else {
					rs = append(rs, "XVar "+q(r.name))
				}
			}
			return "TRet [" + strings.Join(rs, "; ") + "]"
		}
		var rs []string
		for i, r := range v.Results {
			if isNil(r) && i < len(t.results) && t.results[i].typ == "error" {
				rs = append(rs, "XInt 0")
				continue
			}
			if id, ok := r.(*ast.Ident); ok && t.tensorVars[id.Name] {
				rs = append(rs, "XVar "+q(id.Name+".dims"), "XVar "+q(id.Name+".data"))
				continue
			}
			rs = append(rs, t.expr(r))
		}
		return "TRet [" + strings.Join(rs, "; ") + "]"
	}
	t.fail("statement: " + nodeText(s))
	return ""
}

func identsIn(n ast.Node) map[string]bool {
	out := map[string]bool{}
	ast.Inspect(n, func(m ast.Node) bool {
		switch v := m.(type) {
		case *ast.Ident:
			out[v.Name] = true
		case *ast.SelectorExpr:
			out[nodeText(v)] = true
		}
		return true
	})
	return out
}

func emitData(repo, outV string) error {
	var sb strings.Builder
	sb.WriteString("(* GENERATED by harness/gox from /repo's Go sources on every run — do not edit.\n   The data layer of tensor/internal/cputensor as DataIR programs. *)\n")
	sb.WriteString("From Coq Require Import String List ZArith.\nFrom Qeep Require Model.GoIR.\nFrom Qeep Require Import Model.DataIR.\nImport ListNotations.\nLocal Open Scope string_scope.\nLocal Open Scope Z_scope.\n\n")
	parsed := map[string]*ast.File{}
	get := func(rel string) *ast.File {
		if f, ok := parsed[rel]; ok {
			return f
		}
		f, err := parseFile(repo, rel)
		if err != nil {
			parsed[rel] = nil
			return nil
		}
		parsed[rel] = f
		return f
	}
	for _, tg := range dtargets {
		f := get(tg.file)
		var fd *ast.FuncDecl
		if f != nil {
			fd = findFunc(f, tg.recv, tg.fn)
		}
		if fd == nil || fd.Body == nil {
			fmt.Fprintf(&sb, "Definition %s : dprog := mkProg (mkD [] (TUnsupported %s)) [].\n\n", tg.coq, q("MISSING: function not found"))
			continue
		}
		t := &dtr{tensorVars: map[string]bool{}, floatVars: map[string]bool{}, funcVars: map[string]bool{},
			closures: map[string]*ast.FuncLit{}, closureSig: map[string][]bool{},
			extFns: map[string]bool{"slice": true, "getConcatDims": true, "completeIndex": true}}
		var params []string
		addParam := func(name, tt string) {
			switch {
			case tt == "*CPUTensor":
				t.tensorVars[name] = true
				params = append(params, fmt.Sprintf("(%s, false); (%s, false)", q(name+".dims"), q(name+".data")))
			case tt == "float64":
				t.floatVars[name] = true
				params = append(params, fmt.Sprintf("(%s, false)", q(name)))
			case strings.HasPrefix(tt, "scalar") || strings.HasSuffix(tt, "Func") || strings.HasPrefix(tt, "func("):
				t.funcVars[name] = true // not a value: interpreted by [fapp] / [ext]
			default:
				params = append(params, fmt.Sprintf("(%s, false)", q(name)))
			}
		}
		if fd.Recv != nil {
			for _, fl := range fd.Recv.List {
				for _, n := range fl.Names {
					addParam(n.Name, "*CPUTensor")
				}
			}
		}
		for _, fl := range fd.Type.Params.List {
			for _, n := range fl.Names {
				addParam(n.Name, typeText(fl.Type))
			}
		}
		var prelude []string
		if fd.Type.Results != nil {
			for _, fl := range fd.Type.Results.List {
				tt := typeText(fl.Type)
				for _, n := range fl.Names {
					t.results = append(t.results, resv{n.Name, tt})
					switch {
					case tt == "*CPUTensor":
						t.tensorVars[n.Name] = true
						prelude = append(prelude, "TDef "+q(n.Name+".dims")+" XNilSlice", "TDef "+q(n.Name+".data")+" XNilAny")
					case tt == "float64":
						t.floatVars[n.Name] = true
						prelude = append(prelude, "TDef "+q(n.Name)+" (XFLit 0 0)")
					case tt == "any":
						prelude = append(prelude, "TDef "+q(n.Name)+" XNilAny")
					case tt == "int":
						prelude = append(prelude, "TDef "+q(n.Name)+" (XInt 0)")
					case strings.HasPrefix(tt, "[]"):
						prelude = append(prelude, "TDef "+q(n.Name)+" XNilSlice")
					}
				}
			}
		}
		// closures: var F func(...) ; F = func(...) {...}
		for _, s := range fd.Body.List {
			if as, ok := s.(*ast.AssignStmt); ok && len(as.Lhs) == 1 && len(as.Rhs) == 1 {
				if fl, ok := as.Rhs[0].(*ast.FuncLit); ok {
					if id, ok := as.Lhs[0].(*ast.Ident); ok {
						t.closures[id.Name] = fl
					}
				}
			}
		}
		// reference roots passed to each closure anywhere in the function
		refRoots := map[string]map[string]bool{}
		ast.Inspect(fd.Body, func(m ast.Node) bool {
			if c, ok := m.(*ast.CallExpr); ok {
				if id, ok := c.Fun.(*ast.Ident); ok && t.closures[id.Name] != nil {
					for _, a := range c.Args {
						if r := rootOfRef(a); r != "" {
							if refRoots[id.Name] == nil {
								refRoots[id.Name] = map[string]bool{}
							}
							refRoots[id.Name][r] = true
						}
					}
				}
			}
			return true
		})
		writtenParams := computeWrittenParams(t.closures)
		var locals []string
		for name, fl := range t.closures {
			var ps []string
			own := map[string]bool{}
			for _, f := range fl.Type.Params.List {
				tt := typeText(f.Type)
				for _, n := range f.Names {
					own[n.Name] = true
					ps = append(ps, fmt.Sprintf("(%s, %v)", q(n.Name), strings.HasPrefix(tt, "*")))
					if tt == "float64" {
						t.floatVars[n.Name] = true
					}
				}
			}
			// locals of the closure (defined inside) may be passed by reference to the recursive call
			ast.Inspect(fl.Body, func(m ast.Node) bool {
				if as, ok := m.(*ast.AssignStmt); ok && as.Tok == token.DEFINE {
					for _, l := range as.Lhs {
						if id, ok := l.(*ast.Ident); ok {
							own[id.Name] = true
						}
					}
				}
				return true
			})
			body := ""
			used := identsIn(fl.Body)
			for r := range refRoots[name] {
				if used[r] && !own[r] {
					body = "TUnsupported " + q("closure "+name+" mentions "+r+", which is passed to it by reference")
				}
			}
			if body == "" {
				saved := t.results
				t.results = nil
				body = t.block(fl.Body)
				t.results = saved
				// slice aliasing idiom:  X := (*p).([]any)  with p a pointer parameter, X never reassigned, elements of X
				// written afterwards (X[i] = .. or &X[i] passed on) and p not mentioned again: in Go the writes are visible
				// through *p because X shares its backing array and *p's slice header is unchanged.  Value semantics plus a
				// write-back  *p = X  at the end of the closure is the same thing; any other use of such an alias is refused.
				for x, pp := range ptrAliases(fl) {
					switch aliasUseOK(fl, x, pp, writtenParams) {
					case "":
						if returnsAfterDef(fl, x) {
							body = "TUnsupported " + q("alias "+x+" of *"+pp+" with a return after the alias was taken")
						} else {
							body = "tseq [" + body + ";\n      TSet " + q(pp) + " (XVar " + q(x) + ") (* write-back of the alias *)]"
						}
					case "readonly":
					default:
						body = "TUnsupported " + q("alias "+x+" of *"+pp+": "+aliasUseOK(fl, x, pp, writtenParams))
					}
				}
			}
			locals = append(locals, fmt.Sprintf("(%s, mkD [%s]\n      (%s))", q(name), strings.Join(ps, "; "), body))
		}
		var ss []string
		ss = append(ss, prelude...)
		for _, s := range fd.Body.List {
			if c := t.stmt(s); c != "" {
				ss = append(ss, c)
			}
		}
		fmt.Fprintf(&sb, "(* %s: %s *)\nDefinition %s : dprog := mkProg\n  (mkD [%s]\n    (%s))\n  [%s].\n\n",
			tg.file, tg.fn, tg.coq, strings.Join(params, "; "), dseq(ss), strings.Join(locals, ";\n   "))
	}
	old, _ := os.ReadFile(outV)
	if string(old) != sb.String() {
		return os.WriteFile(outV, []byte(sb.String()), 0o644)
	}
	return nil
}


// variables defined as  X := (*p).([]any)  with p a pointer parameter of the closure
func ptrAliases(fl *ast.FuncLit) map[string]string {
	ptr := map[string]bool{}
	for _, f := range fl.Type.Params.List {
		if strings.HasPrefix(typeText(f.Type), "*") {
			for _, n := range f.Names {
				ptr[n.Name] = true
			}
		}
	}
	out := map[string]string{}
	ast.Inspect(fl.Body, func(m ast.Node) bool {
		as, ok := m.(*ast.AssignStmt)
		if !ok || as.Tok != token.DEFINE || len(as.Lhs) != 1 || len(as.Rhs) != 1 {
			return true
		}
		id, ok := as.Lhs[0].(*ast.Ident)
		ta, ok2 := as.Rhs[0].(*ast.TypeAssertExpr)
		if !ok || !ok2 || typeText(ta.Type) != "[]any" {
			return true
		}
		x := ta.X
		if pe, ok := x.(*ast.ParenExpr); ok {
			x = pe.X
		}
		if st, ok := x.(*ast.StarExpr); ok {
			if pid, ok := st.X.(*ast.Ident); ok && ptr[pid.Name] {
				out[id.Name] = pid.Name
			}
		}
		return true
	})
	return out
}

// which pointer parameters a closure writes through: *p = .., or elements of an alias X := (*p).([]any) assigned, or
// &X[i] passed at a written position of a closure call (least fixpoint)
func computeWrittenParams(closures map[string]*ast.FuncLit) map[string][]bool {
	out := map[string][]bool{}
	names := map[string][]string{}
	for n, fl := range closures {
		var ps []string
		for _, f := range fl.Type.Params.List {
			for _, nn := range f.Names {
				ps = append(ps, nn.Name)
			}
		}
		names[n] = ps
		out[n] = make([]bool, len(ps))
	}
	for changed := true; changed; {
		changed = false
		for n, fl := range closures {
			al := ptrAliases(fl)
			mark := func(pname string) {
				for k, pn := range names[n] {
					if pn == pname && !out[n][k] {
						out[n][k] = true
						changed = true
					}
				}
			}
			ast.Inspect(fl.Body, func(m ast.Node) bool {
				switch v := m.(type) {
				case *ast.AssignStmt:
					for _, l := range v.Lhs {
						if st, ok := l.(*ast.StarExpr); ok {
							if id, ok := st.X.(*ast.Ident); ok {
								mark(id.Name)
							}
						}
						if ix, ok := l.(*ast.IndexExpr); ok {
							if id, ok := ix.X.(*ast.Ident); ok && al[id.Name] != "" {
								mark(al[id.Name])
							}
						}
					}
				case *ast.CallExpr:
					if id, ok := v.Fun.(*ast.Ident); ok && closures[id.Name] != nil {
						for k, a := range v.Args {
							if k < len(out[id.Name]) && out[id.Name][k] {
								if r := rootOfRef(a); r != "" && al[r] != "" {
									mark(al[r])
								}
							}
						}
					}
				}
				return true
			})
		}
	}
	return out
}

func returnsAfterDef(fl *ast.FuncLit, x string) bool {
	after, bad := false, false
	for _, st := range fl.Body.List {
		if after {
			ast.Inspect(st, func(m ast.Node) bool {
				if _, ok := m.(*ast.ReturnStmt); ok {
					bad = true
				}
				return true
			})
		}
		if as, ok := st.(*ast.AssignStmt); ok && as.Tok == token.DEFINE && len(as.Lhs) == 1 {
			if id, ok := as.Lhs[0].(*ast.Ident); ok && id.Name == x {
				after = true
			}
		}
	}
	return bad
}

// "" = elements of x are written and the write-back is sound; "readonly" = x is only read; otherwise the reason to refuse
func aliasUseOK(fl *ast.FuncLit, x, p string, written map[string][]bool) string {
	w := writesTo(fl.Body, x)
	// &x[i] passed at a position the callee writes through counts as a write
	ast.Inspect(fl.Body, func(m ast.Node) bool {
		if c, ok := m.(*ast.CallExpr); ok {
			if id, ok := c.Fun.(*ast.Ident); ok && written[id.Name] != nil {
				for k, a := range c.Args {
					if rootOfRef(a) == x && k < len(written[id.Name]) && written[id.Name][k] {
						w = true
					}
				}
			}
		}
		return true
	})
	written2 := w
	if !written2 {
		return "readonly"
	}
	defs, puses := 0, 0
	reassigned := false
	ast.Inspect(fl.Body, func(m ast.Node) bool {
		switch v := m.(type) {
		case *ast.AssignStmt:
			for _, l := range v.Lhs {
				if id, ok := l.(*ast.Ident); ok && id.Name == x {
					if v.Tok == token.DEFINE {
						defs++
					} else {
						reassigned = true
					}
				}
			}
		case *ast.Ident:
			if v.Name == p {
				puses++
			}
		}
		return true
	})
	if defs != 1 || reassigned {
		return "the alias is reassigned"
	}
	// p may be mentioned in the base case (*p = ..., (*p).(float64)) and in the alias definition; a conservative
	// syntactic bound: it must not occur after the alias definition
	after := false
	bad := false
	for _, st := range fl.Body.List {
		if after {
			ast.Inspect(st, func(m ast.Node) bool {
				if id, ok := m.(*ast.Ident); ok && id.Name == p {
					bad = true
				}
				return true
			})
		}
		if as, ok := st.(*ast.AssignStmt); ok && as.Tok == token.DEFINE && len(as.Lhs) == 1 {
			if id, ok := as.Lhs[0].(*ast.Ident); ok && id.Name == x {
				after = true
			}
		}
	}
	_ = puses
	if bad {
		return "the pointer is used again after the alias was taken"
	}
	return ""
}
