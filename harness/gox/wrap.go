package main

// Translation of the thin WRAPPERS of tensor/internal/cputensor — the functions that only compose a shape helper, an
// element generator and initWith (transpose, reshape, broadcast, unSqueeze, squeeze, flatten, slice, patch, dot, matMul,
// reduceDimUsingFunc, constTensor, eyeMatrix) — into DataIR programs, written to coq/Model/GoWrap.v.
// A *CPUTensor variable x is the pair of variables "x.dims", "x.data".  Every call of another function or method of
// the package is a call of the oracle (Model/DataExt.v), named after the callee; tensor arguments are passed as
// their two components, a tensor result comes back as two values.  A function literal passed as an argument is the
// oracle call "<its canonical text>" applied to its free variables.  What the oracle entries mean (the model's
// functions) is justified callee by callee by the theorems about the translated callees (GoFns / GoData).

import (
	"fmt"
	"go/ast"
	"go/token"
	"os"
	"sort"
	"strings"
)

type wtr struct {
	*dtr
	ntmp        int
	pre         []string
	retsTensor  map[string]bool // callee name -> returns *CPUTensor
	localVars   map[string]bool
}

func (w *wtr) tmp() string {
	w.ntmp++
	return fmt.Sprintf("$%d", w.ntmp)
}

func (w *wtr) flatArgs(args []ast.Expr) []string {
	var out []string
	for _, a := range args {
		a = w.hoist(a)
		if id, ok := a.(*ast.Ident); ok && w.tensorVars[id.Name] {
			out = append(out, "XVar "+q(id.Name+".dims"), "XVar "+q(id.Name+".data"))
			continue
		}
		out = append(out, w.dtr.expr(a))
	}
	return out
}

func builtin(name string) bool {
	switch name {
	case "len", "make", "append", "copy", "new", "cap":
		return true
	}
	return false
}

// the oracle call for c; returns the names that receive the results
func (w *wtr) extCall(c *ast.CallExpr, def bool, results []string) {
	var name string
	var args []string
	switch f := c.Fun.(type) {
	case *ast.Ident:
		name = f.Name
		args = w.flatArgs(c.Args)
	case *ast.SelectorExpr:
		name = f.Sel.Name
		args = append(w.flatArgs([]ast.Expr{f.X}), w.flatArgs(c.Args)...)
	default:
		w.fail("call: " + nodeText(c))
	}
	d := "false"
	if def {
		d = "true"
	}
	var qs []string
	for _, r := range results {
		qs = append(qs, q(r))
	}
	w.pre = append(w.pre, fmt.Sprintf("TExt %s [%s] %s [%s]", d, strings.Join(qs, "; "), q(name), strings.Join(args, "; ")))
}

func (w *wtr) calleeName(c *ast.CallExpr) string {
	switch f := c.Fun.(type) {
	case *ast.Ident:
		return f.Name
	case *ast.SelectorExpr:
		return f.Sel.Name
	}
	return ""
}

func (w *wtr) isPkgCall(e ast.Expr) (*ast.CallExpr, bool) {
	c, ok := e.(*ast.CallExpr)
	if !ok {
		return nil, false
	}
	if id, ok := c.Fun.(*ast.Ident); ok {
		if builtin(id.Name) {
			return nil, false
		}
		return c, true
	}
	if sel, ok := c.Fun.(*ast.SelectorExpr); ok {
		if id, ok := sel.X.(*ast.Ident); ok && (id.Name == "math" || id.Name == "fmt" || id.Name == "distuv") {
			return nil, false
		}
		return c, true
	}
	return nil, false
}

// hoist package calls and function literals out of e (non-tensor results only)
func (w *wtr) hoist(e ast.Expr) ast.Expr {
	switch v := e.(type) {
	case nil:
		return nil
	case *ast.FuncLit:
		free := identsIn(v.Body)
		var names []string
		for n := range free {
			if w.localVars[n] {
				names = append(names, n)
			}
		}
		sort.Strings(names)
		var args []string
		for _, n := range names {
			if w.tensorVars[n] {
				args = append(args, "XVar "+q(n+".dims"), "XVar "+q(n+".data"))
			} else {
				args = append(args, "XVar "+q(n))
			}
		}
		t := w.tmp()
		w.pre = append(w.pre, fmt.Sprintf("TExt true [%s] %s [%s]", q(t), q(nodeText(v)), strings.Join(args, "; ")))
		return ident(t)
	case *ast.ParenExpr:
		return &ast.ParenExpr{X: w.hoist(v.X)}
	case *ast.BinaryExpr:
		x := w.hoist(v.X)
		y := w.hoist(v.Y)
		return &ast.BinaryExpr{Op: v.Op, X: x, Y: y}
	case *ast.IndexExpr:
		return &ast.IndexExpr{X: w.hoist(v.X), Index: w.hoist(v.Index)}
	case *ast.SliceExpr:
		return &ast.SliceExpr{X: w.hoist(v.X), Low: w.hoist(v.Low), High: w.hoist(v.High)}
	case *ast.CompositeLit:
		if typeText(v.Type) == "[]int" {
			var es []ast.Expr
			for _, el := range v.Elts {
				es = append(es, w.hoist(el))
			}
			return listLit(es)
		}
	case *ast.CallExpr:
		if c, ok := w.isPkgCall(v); ok {
			if w.retsTensor[w.calleeName(c)] {
				w.fail("tensor-valued call inside an expression: " + nodeText(c))
			}
			t := w.tmp()
			w.extCall(c, true, []string{t})
			return ident(t)
		}
		nv := &ast.CallExpr{Fun: v.Fun, Ellipsis: v.Ellipsis}
		for _, a := range v.Args {
			nv.Args = append(nv.Args, w.hoist(a))
		}
		return nv
	}
	return e
}

func (w *wtr) flush(main string) string {
	out := append(append([]string{}, w.pre...), main)
	w.pre = nil
	if main == "" {
		out = out[:len(out)-1]
	}
	return dseq(out)
}

func (w *wtr) stmt(s ast.Stmt) (res string) {
	defer func() {
		if r := recover(); r != nil {
			if u, ok := r.(unsupported); ok {
				w.pre = nil
				res = "TUnsupported " + q(u.why)
				return
			}
			panic(r)
		}
	}()
	switch v := s.(type) {
	case *ast.ExprStmt:
		if c, ok := w.isPkgCall(v.X); ok {
			// o.initWith(gen): the method fills the receiver's data
			if sel, ok := c.Fun.(*ast.SelectorExpr); ok && sel.Sel.Name == "initWith" {
				if id, ok := sel.X.(*ast.Ident); ok && w.tensorVars[id.Name] {
					args := append([]string{"XVar " + q(id.Name+".dims")}, w.flatArgs(c.Args)...)
					main := fmt.Sprintf("TExt false [%s] \"initWith\" [%s]", q(id.Name+".data"), strings.Join(args, "; "))
					return w.flush(main)
				}
			}
			w.fail("statement: " + nodeText(s))
		}
		return w.dtr.stmt(s)
	case *ast.AssignStmt:
		// t1, t2 := t, u
		if v.Tok == token.DEFINE && len(v.Lhs) == len(v.Rhs) && len(v.Lhs) >= 1 {
			all := true
			for _, r := range v.Rhs {
				id, ok := r.(*ast.Ident)
				if !ok || !w.tensorVars[id.Name] {
					all = false
				}
			}
			if all {
				var out []string
				for i, l := range v.Lhs {
					ln := l.(*ast.Ident).Name
					rn := v.Rhs[i].(*ast.Ident).Name
					w.tensorVars[ln] = true
					w.localVars[ln] = true
					out = append(out, "TDef "+q(ln+".dims")+" (XVar "+q(rn+".dims")+")", "TDef "+q(ln+".data")+" (XVar "+q(rn+".data")+")")
				}
				return dseq(out)
			}
		}
		if len(v.Lhs) == 1 && len(v.Rhs) == 1 {
			// o = new(CPUTensor)
			if c, ok := v.Rhs[0].(*ast.CallExpr); ok && nodeText(c.Fun) == "new" {
				if id, ok := v.Lhs[0].(*ast.Ident); ok {
					w.tensorVars[id.Name] = true
					w.localVars[id.Name] = true
					return dseq([]string{"TDef " + q(id.Name+".dims") + " XNilSlice", "TDef " + q(id.Name+".data") + " XNilAny"})
				}
			}
			if id, ok := v.Lhs[0].(*ast.Ident); ok {
				w.localVars[id.Name] = true
			}
			if c, ok := w.isPkgCall(v.Rhs[0]); ok {
				def := v.Tok == token.DEFINE
				if w.retsTensor[w.calleeName(c)] {
					id, ok := v.Lhs[0].(*ast.Ident)
					if !ok {
						w.fail("tensor result target: " + nodeText(v.Lhs[0]))
					}
					w.tensorVars[id.Name] = true
					w.extCall(c, def, []string{id.Name + ".dims", id.Name + ".data"})
					return w.flush("")
				}
				switch l := v.Lhs[0].(type) {
				case *ast.Ident:
					w.extCall(c, def, []string{l.Name})
					return w.flush("")
				case *ast.SelectorExpr:
					if id, ok := l.X.(*ast.Ident); ok && w.tensorVars[id.Name] {
						w.extCall(c, false, []string{id.Name + "." + l.Sel.Name})
						return w.flush("")
					}
				}
				w.fail("assignment target: " + nodeText(v.Lhs[0]))
			}
		}
		nv := &ast.AssignStmt{Tok: v.Tok, Lhs: v.Lhs}
		for _, r := range v.Rhs {
			nv.Rhs = append(nv.Rhs, w.hoist(r))
		}
		return w.flush(w.dtr.stmt(nv))
	case *ast.ReturnStmt:
		if len(v.Results) == 1 {
			if c, ok := w.isPkgCall(v.Results[0]); ok && w.retsTensor[w.calleeName(c)] {
				w.extCall(c, true, []string{"$r.dims", "$r.data"})
				return w.flush("TRet [XVar \"$r.dims\"; XVar \"$r.data\"]")
			}
		}
		nv := &ast.ReturnStmt{}
		for _, r := range v.Results {
			nv.Results = append(nv.Results, w.hoist(r))
		}
		return w.flush(w.dtr.stmt(nv))
	}
	return w.dtr.stmt(s)
}

func emitWrap(repo, outV string) error {
	var sb strings.Builder
	sb.WriteString("(* GENERATED by harness/gox from /repo's Go sources on every run — do not edit.\n   The wrappers of tensor/internal/cputensor (shape helper + element generator + initWith) as DataIR programs whose\n   calls of other functions of the package go through the oracle Model/DataExt.v. *)\n")
	sb.WriteString("From Coq Require Import String List ZArith.\nFrom Qeep Require Model.GoIR.\nFrom Qeep Require Import Model.DataIR.\nImport ListNotations.\nLocal Open Scope string_scope.\nLocal Open Scope Z_scope.\n\n")
	files := []string{"accessors.go", "shape_modifiers.go", "operators.go", "reducers.go", "initializers.go", "cputensor_helpers.go"}
	parsed := map[string]*ast.File{}
	rets := map[string]bool{}
	for _, fn := range files {
		f, err := parseFile(repo, cdir+fn)
		if err != nil {
			continue
		}
		parsed[fn] = f
		for _, d := range f.Decls {
			if fd, ok := d.(*ast.FuncDecl); ok && fd.Type.Results != nil && len(fd.Type.Results.List) == 1 &&
				typeText(fd.Type.Results.List[0].Type) == "*CPUTensor" {
				rets[fd.Name.Name] = true
			}
		}
	}
	type wt struct{ coq, file, recv, fn string }
	targets := []wt{
		{"w_transpose", "shape_modifiers.go", "CPUTensor", "transpose"}, {"w_reshape", "shape_modifiers.go", "CPUTensor", "reshape"},
		{"w_broadcast", "shape_modifiers.go", "CPUTensor", "broadcast"}, {"w_unSqueeze", "shape_modifiers.go", "CPUTensor", "unSqueeze"},
		{"w_squeeze", "shape_modifiers.go", "CPUTensor", "squeeze"}, {"w_flatten", "shape_modifiers.go", "CPUTensor", "flatten"},
		{"w_slice", "accessors.go", "CPUTensor", "slice"}, {"w_patch", "accessors.go", "CPUTensor", "patch"},
		{"w_dot", "operators.go", "CPUTensor", "dot"}, {"w_matMul", "operators.go", "CPUTensor", "matMul"},
		{"w_reduceDimUsingFunc", "reducers.go", "CPUTensor", "reduceDimUsingFunc"},
		{"w_constTensor", "initializers.go", "", "constTensor"}, {"w_eyeMatrix", "initializers.go", "", "eyeMatrix"},
		{"w_uniformRandomTensor", "initializers.go", "", "uniformRandomTensor"}, {"w_normalRandomTensor", "initializers.go", "", "normalRandomTensor"},
	}
	for _, tg := range targets {
		f := parsed[tg.file]
		var fd *ast.FuncDecl
		if f != nil {
			fd = findFunc(f, tg.recv, tg.fn)
		}
		if fd == nil || fd.Body == nil {
			fmt.Fprintf(&sb, "Definition %s : dprog := mkProg (mkD [] (TUnsupported %s)) [].\n\n", tg.coq, q("MISSING: function not found"))
			continue
		}
		t := &dtr{tensorVars: map[string]bool{}, floatVars: map[string]bool{}, funcVars: map[string]bool{},
			closures: map[string]*ast.FuncLit{}, closureSig: map[string][]bool{}, mapVars: map[string]bool{}, extFns: map[string]bool{}}
		w := &wtr{dtr: t, retsTensor: rets, localVars: map[string]bool{}}
		var params []string
		addParam := func(name, tt string) {
			w.localVars[name] = true
			switch {
			case tt == "*CPUTensor":
				t.tensorVars[name] = true
				params = append(params, fmt.Sprintf("(%s, false); (%s, false)", q(name+".dims"), q(name+".data")))
			case tt == "float64":
				t.floatVars[name] = true
				params = append(params, fmt.Sprintf("(%s, false)", q(name)))
			case strings.HasSuffix(tt, "Func") || strings.HasPrefix(tt, "func("):
				// a function parameter is a value the oracle interprets (e.g. the reducer of reduceDimUsingFunc)
				params = append(params, fmt.Sprintf("(%s, false)", q(name)))
			default:
				params = append(params, fmt.Sprintf("(%s, false)", q(name)))
			}
		}
		if fd.Recv != nil {
			for _, fl := range fd.Recv.List {
				for _, n := range fl.Names {
					addParam(n.Name, "*CPUTensor")
				}
			}
		}
		for _, fl := range fd.Type.Params.List {
			for _, n := range fl.Names {
				addParam(n.Name, typeText(fl.Type))
			}
		}
		var prelude []string
		if fd.Type.Results != nil {
			for _, fl := range fd.Type.Results.List {
				tt := typeText(fl.Type)
				for _, n := range fl.Names {
					t.results = append(t.results, resv{n.Name, tt})
					if tt == "*CPUTensor" {
						t.tensorVars[n.Name] = true
						w.localVars[n.Name] = true
						prelude = append(prelude, "TDef "+q(n.Name+".dims")+" XNilSlice", "TDef "+q(n.Name+".data")+" XNilAny")
					}
				}
			}
		}
		var ss []string
		ss = append(ss, prelude...)
		for _, s := range fd.Body.List {
			if c := w.stmt(s); c != "" {
				ss = append(ss, c)
			}
		}
		fmt.Fprintf(&sb, "(* %s: %s *)\nDefinition %s : dprog := mkProg\n  (mkD [%s]\n    (%s))\n  [].\n\n",
			tg.file, tg.fn, tg.coq, strings.Join(params, "; "), dseq(ss))
	}
	if f := parsed["initializers.go"]; f != nil {
		emitFromData(&sb, f)
	} else {
		sb.WriteString("Definition w_initTensorFromData_rank0 : dprog := mkProg (mkD [] (TUnsupported \"MISSING: initializers.go\")) [].\n\n")
	}
	old, _ := os.ReadFile(outV)
	if string(old) != sb.String() {
		return os.WriteFile(outV, []byte(sb.String()), 0o644)
	}
	return nil
}

// ---- initTensorFromData: one program per case of its type switch ----

// Go's block scoping: a range statement nested in another one that declares the same key variable (for i, v0 := range v
// { for i, v1 := range v0 {...}; data0[i] = ... }) declares a NEW variable; DataIR's top-level frame is flat, so the
// inner declarations are renamed (i, i_1, i_2, ...), innermost first.
func renameShadowedRangeKeys(body []ast.Stmt) {
	var fix func(n ast.Node, level int)
	renameIn := func(n ast.Node, from, to string) {
		ast.Inspect(n, func(m ast.Node) bool {
			if id, ok := m.(*ast.Ident); ok && id.Name == from {
				id.Name = to
			}
			return true
		})
	}
	fix = func(n ast.Node, level int) {
		ast.Inspect(n, func(m ast.Node) bool {
			rs, ok := m.(*ast.RangeStmt)
			if !ok || m == n {
				return true
			}
			fix(rs.Body, level+1)
			if k, ok := rs.Key.(*ast.Ident); ok && k.Name != "_" && level > 0 {
				nn := fmt.Sprintf("%s_%d", k.Name, level)
				old := k.Name
				renameIn(rs.Body, old, nn)
				k.Name = nn
			}
			return false
		})
	}
	for _, st := range body {
		if rs, ok := st.(*ast.RangeStmt); ok {
			fix(rs.Body, 1)
		} else {
			fix(st, 0)
		}
	}
}

func emitFromData(sb *strings.Builder, f *ast.File) {
	fd := findFunc(f, "", "initTensorFromData")
	var ts *ast.TypeSwitchStmt
	var ret *ast.ReturnStmt
	if fd != nil && fd.Body != nil {
		for _, st := range fd.Body.List {
			switch v := st.(type) {
			case *ast.TypeSwitchStmt:
				ts = v
			case *ast.ReturnStmt:
				ret = v
			}
		}
	}
	kinds := []string{"float64", "[]float64", "[][]float64", "[][][]float64", "[][][][]float64"}
	for rank, kind := range kinds {
		name := fmt.Sprintf("w_initTensorFromData_rank%d", rank)
		var clause *ast.CaseClause
		if ts != nil {
			for _, c := range ts.Body.List {
				cc := c.(*ast.CaseClause)
				if len(cc.List) == 1 && typeText(cc.List[0]) == kind {
					clause = cc
				}
			}
		}
		// the function must end in  return &CPUTensor{data: tensorData, dims: dims}
		okRet := false
		var dimsE, dataE ast.Expr
		if ret != nil && len(ret.Results) == 1 {
			if u, ok := ret.Results[0].(*ast.UnaryExpr); ok && u.Op == token.AND {
				if cl, ok := u.X.(*ast.CompositeLit); ok && typeText(cl.Type) == "CPUTensor" {
					for _, el := range cl.Elts {
						if kv, ok := el.(*ast.KeyValueExpr); ok {
							switch nodeText(kv.Key) {
							case "dims":
								dimsE = kv.Value
							case "data":
								dataE = kv.Value
							}
						}
					}
					okRet = dimsE != nil && dataE != nil
				}
			}
		}
		if clause == nil || !okRet {
			fmt.Fprintf(sb, "Definition %s : dprog := mkProg (mkD [] (TUnsupported %s)) [].\n\n", name, q("MISSING: case "+kind+" of initTensorFromData / final return not found"))
			continue
		}
		renameShadowedRangeKeys(clause.Body)
		t := &dtr{tensorVars: map[string]bool{}, floatVars: map[string]bool{}, funcVars: map[string]bool{},
			closures: map[string]*ast.FuncLit{}, closureSig: map[string][]bool{}, mapVars: map[string]bool{}, extFns: map[string]bool{}}
		w := &wtr{dtr: t, retsTensor: map[string]bool{}, localVars: map[string]bool{}}
		var ss []string
		// the declarations that precede the switch
		for _, st := range fd.Body.List {
			if _, ok := st.(*ast.DeclStmt); ok {
				ss = append(ss, w.stmt(st))
			}
		}
		// v := data.(T): the parameter itself, of the case's type
		vname := "v"
		if as, ok := ts.Assign.(*ast.AssignStmt); ok && len(as.Lhs) == 1 {
			vname = nodeText(as.Lhs[0])
		}
		ss = append(ss, "TDef "+q(vname)+" (XVar \"data\")")
		for _, st := range clause.Body {
			if c := w.stmt(st); c != "" {
				ss = append(ss, c)
			}
		}
		ss = append(ss, "TRet ["+t.expr(dimsE)+"; "+t.expr(dataE)+"]")
		fmt.Fprintf(sb, "(* initializers.go: initTensorFromData, case %s *)\nDefinition %s : dprog := mkProg\n  (mkD [(\"data\", false)]\n    (%s))\n  [].\n\n", kind, name, dseq(ss))
	}
}
