package main

// gox: TRANSLATOR for the integer / shape logic of qeep's tensor package.
// It reads, from /repo's current Go sources (go/ast only, nothing is executed), the validators of
// tensor/internal/validator, the shape helpers of tensor/internal/cputensor and the bodies of the
// element generators (the carry loops over the multi-index state), and writes them as programs of the
// small imperative language of coq/Model/GoIR.v into coq/Model/GoFns.v.  Proofs/Go*P.v run these programs
// with GoIR's big-step semantics and prove, for ALL inputs, that they compute the hand-written model's
// functions (Model/Valid.v, Model/Data.v, Model/Fill.v).  A source edit therefore changes GoFns.v on the
// next run and breaks the proof obligation unless the edited function still computes the same thing in a
// way the existing proof script can follow.
//
// What is NOT translated stays visible: a statement outside the fragment becomes `SUnsupported "<text>"`
// (which panics in the semantics, so no theorem about that function can hold), and inside generator
// closures the statements that handle tensor data (t.dataAt(state), return elem, ...) are kept as
// `IOpaque "<text>"` items in source order, which the theorems pin as text.
//
// Value semantics without aliasing: the translator REFUSES (SUnsupported) a function that writes through a
// variable that aliases another slice, writes into a slice parameter, or ranges by value over a slice it
// modifies in the loop body.

import (
	"bytes"
	"fmt"
	"go/ast"
	"go/parser"
	"go/printer"
	"go/token"
	"os"
	"path/filepath"
	"sort"
	"strings"
)

type target struct {
	coq  string // Coq name
	file string
	recv string
	fn   string
	gen  bool // generator: outer body as items + closure body as items
}

const vdir = "tensor/internal/validator/"
const cdir = "tensor/internal/cputensor/"

var targets = []target{
	{"ValidateAtIndexAgainstDims", vdir + "accessors.go", "", "ValidateAtIndexAgainstDims", false},
	{"ValidateSliceIndexAgainstDims", vdir + "accessors.go", "", "ValidateSliceIndexAgainstDims", false},
	{"ValidatePatchIndexAgainstDims", vdir + "accessors.go", "", "ValidatePatchIndexAgainstDims", false},
	{"ValidateInputDims", vdir + "initializers.go", "", "ValidateInputDims", false},
	{"ValidateConcatTensorsDimsAlongDim", vdir + "initializers.go", "", "ValidateConcatTensorsDimsAlongDim", false},
	{"ValidateBinaryFuncDimsMatch", vdir + "operators.go", "", "ValidateBinaryFuncDimsMatch", false},
	{"ValidateDotProductDims", vdir + "operators.go", "", "ValidateDotProductDims", false},
	{"ValidateMatMulDims", vdir + "operators.go", "", "ValidateMatMulDims", false},
	{"ValidateReducedDimAgainstDims", vdir + "reducers.go", "", "ValidateReducedDimAgainstDims", false},
	{"ValidateTransposeDims", vdir + "shape_modifiers.go", "", "ValidateTransposeDims", false},
	{"ValidateReshapeSourceDimsAgainstTargetDims", vdir + "shape_modifiers.go", "", "ValidateReshapeSourceDimsAgainstTargetDims", false},
	{"ValidateUnSqueezeDimAgainstDims", vdir + "shape_modifiers.go", "", "ValidateUnSqueezeDimAgainstDims", false},
	{"ValidateSqueezeDimAgainstDims", vdir + "shape_modifiers.go", "", "ValidateSqueezeDimAgainstDims", false},
	{"ValidateFlattenDimAgainstDims", vdir + "shape_modifiers.go", "", "ValidateFlattenDimAgainstDims", false},
	{"ValidateBroadcastSourceDimsAgainstTargetDims", vdir + "shape_modifiers.go", "", "ValidateBroadcastSourceDimsAgainstTargetDims", false},
	{"dimsToNumElems", vdir + "shape_modifiers.go", "", "dimsToNumElems", false},

	{"numElems", cdir + "accessors.go", "CPUTensor", "numElems", false},
	{"completeIndex", cdir + "accessors.go", "", "completeIndex", false},
	{"transposeDims", cdir + "shape_modifiers.go", "", "transposeDims", false},
	{"unsqueezeDims", cdir + "shape_modifiers.go", "", "unsqueezeDims", false},
	{"squeezeDims", cdir + "shape_modifiers.go", "", "squeezeDims", false},
	{"flattenDims", cdir + "shape_modifiers.go", "", "flattenDims", false},
	{"targetBroadcastDims", cdir + "cputensor_helpers.go", "", "targetBroadcastDims", false},
	{"dotDims", cdir + "operators.go", "", "dotDims", false},
	{"matMulDims", cdir + "operators.go", "", "matMulDims", false},
	{"getConcatDims", cdir + "initializers.go", "", "getConcatDims", false},

	{"linearElemGenerator", cdir + "shape_modifiers.go", "CPUTensor", "linearElemGenerator", true},
	{"transposeElemGenerator", cdir + "shape_modifiers.go", "CPUTensor", "transposeElemGenerator", true},
	{"broadcastElemGenerator", cdir + "shape_modifiers.go", "CPUTensor", "broadcastElemGenerator", true},
	{"linearElemGeneratorWithReducedDim", cdir + "reducers.go", "CPUTensor", "linearElemGeneratorWithReducedDim", true},
	{"linearLastDimDotProductElemGenerator", cdir + "operators.go", "", "linearLastDimDotProductElemGenerator", true},
	{"linearLast2DimsMatMulElemGenerator", cdir + "operators.go", "", "linearLast2DimsMatMulElemGenerator", true},
	{"eyeElemGenerator", cdir + "initializers.go", "", "eyeElemGenerator", true},
	{"broadcastForMatMul", cdir + "cputensor_helpers.go", "", "broadcastForMatMul", true},
}

func q(s string) string { return "\"" + strings.ReplaceAll(s, "\"", "'") + "\"" }

func nodeText(n ast.Node) string {
	var b bytes.Buffer
	printer.Fprint(&b, token.NewFileSet(), n)
	return strings.Join(strings.Fields(b.String()), " ")
}

// ---------------------------------------------------------------------------------------------

type tr struct {
	known      map[string]bool // translated plain functions (callable with SCall)
	tensorVars map[string]bool // receiver / parameters of type *CPUTensor:  x.dims is the variable "x.dims"
	results    []resv          // named results
	ntemp      int
	bad        []string // reasons collected (aliasing etc.)
}

type resv struct {
	name string
	typ  string
}

type unsupported struct{ why string }

func (t *tr) fail(why string) { panic(unsupported{why}) }

func typeText(e ast.Expr) string { return nodeText(e) }

func zeroOf(typ string) string {
	switch {
	case typ == "int":
		return "EInt 0"
	case typ == "error":
		return "EInt 0"
	case strings.HasPrefix(typ, "[]"):
		return "ENil"
	}
	return ""
}

func isNil(e ast.Expr) bool {
	id, ok := e.(*ast.Ident)
	return ok && id.Name == "nil"
}

func binop(op token.Token) string {
	switch op {
	case token.ADD:
		return "OAdd"
	case token.SUB:
		return "OSub"
	case token.MUL:
		return "OMul"
	case token.REM:
		return "ORem"
	case token.EQL:
		return "OEq"
	case token.NEQ:
		return "ONe"
	case token.LSS:
		return "OLt"
	case token.LEQ:
		return "OLe"
	case token.GTR:
		return "OGt"
	case token.GEQ:
		return "OGe"
	}
	return ""
}

func (t *tr) exprs(es []ast.Expr) string {
	var out []string
	for _, e := range es {
		out = append(out, t.expr(e))
	}
	return "[" + strings.Join(out, "; ") + "]"
}

func (t *tr) optExpr(e ast.Expr) string {
	if e == nil {
		return "None"
	}
	return "(Some (" + t.expr(e) + "))"
}

func (t *tr) expr(e ast.Expr) string {
	switch v := e.(type) {
	case *ast.BasicLit:
		if v.Kind == token.INT {
			return "EInt " + v.Value
		}
	case *ast.Ident:
		if v.Name == "nil" {
			return "ENil"
		}
		if v.Name == "true" || v.Name == "false" || v.Name == "_" {
			break
		}
		return "EVar " + q(v.Name)
	case *ast.ParenExpr:
		return t.expr(v.X)
	case *ast.SelectorExpr:
		switch v.Sel.Name {
		case "From":
			return "EFrom (" + t.expr(v.X) + ")"
		case "To":
			return "ETo (" + t.expr(v.X) + ")"
		case "dims":
			if id, ok := v.X.(*ast.Ident); ok && t.tensorVars[id.Name] {
				return "EVar " + q(id.Name+".dims")
			}
			// an element of a []*CPUTensor: a tensor is represented by its dims
			return t.expr(v.X)
		}
	case *ast.IndexExpr:
		return "EIdx (" + t.expr(v.X) + ") (" + t.expr(v.Index) + ")"
	case *ast.SliceExpr:
		if v.Slice3 {
			break
		}
		return "ESub (" + t.expr(v.X) + ") " + t.optExpr(v.Low) + " " + t.optExpr(v.High)
	case *ast.UnaryExpr:
		if v.Op == token.NOT {
			return "ENot (" + t.expr(v.X) + ")"
		}
		if v.Op == token.SUB {
			return "EBin OSub (EInt 0) (" + t.expr(v.X) + ")"
		}
	case *ast.BinaryExpr:
		if v.Op == token.LAND {
			return "EAnd (" + t.expr(v.X) + ") (" + t.expr(v.Y) + ")"
		}
		if v.Op == token.LOR {
			return "EOr (" + t.expr(v.X) + ") (" + t.expr(v.Y) + ")"
		}
		if o := binop(v.Op); o != "" {
			// err != nil / err == nil: errors are integers (0 = nil)
			if isNil(v.Y) {
				if id, ok := v.X.(*ast.Ident); ok && id.Name == "err" {
					return "EBin " + o + " (EVar \"err\") (EInt 0)"
				}
				break
			}
			return "EBin " + o + " (" + t.expr(v.X) + ") (" + t.expr(v.Y) + ")"
		}
	case *ast.CompositeLit:
		tt := typeText(v.Type)
		if tt == "tensor.Range" && len(v.Elts) == 2 {
			var f, to ast.Expr
			for _, el := range v.Elts {
				kv, ok := el.(*ast.KeyValueExpr)
				if !ok {
					t.fail("composite literal: " + nodeText(e))
				}
				switch nodeText(kv.Key) {
				case "From":
					f = kv.Value
				case "To":
					to = kv.Value
				}
			}
			if f != nil && to != nil {
				return "ERange (" + t.expr(f) + ") (" + t.expr(to) + ")"
			}
		}
		if tt == "[]int" {
			return "EAppend ENil " + t.exprs(v.Elts)
		}
	case *ast.CallExpr:
		name := nodeText(v.Fun)
		switch name {
		case "len":
			if len(v.Args) == 1 {
				return "ELen (" + t.expr(v.Args[0]) + ")"
			}
		case "make":
			if len(v.Args) == 2 {
				switch typeText(v.Args[0]) {
				case "[]int":
					return "EMakeInts (" + t.expr(v.Args[1]) + ")"
				case "[]tensor.Range":
					return "EMakeRanges (" + t.expr(v.Args[1]) + ")"
				case "[][]int":
					return "EMakeLists (" + t.expr(v.Args[1]) + ")"
				}
			}
		case "append":
			if len(v.Args) >= 1 {
				if v.Ellipsis.IsValid() && len(v.Args) == 2 {
					return "EAppendAll (" + t.expr(v.Args[0]) + ") (" + t.expr(v.Args[1]) + ")"
				}
				if !v.Ellipsis.IsValid() {
					return "EAppend (" + t.expr(v.Args[0]) + ") " + t.exprs(v.Args[1:])
				}
			}
		case "fmt.Errorf":
			if len(v.Args) >= 1 {
				return "EErrorf " + t.exprs(v.Args[1:])
			}
		}
	}
	t.fail("expression: " + nodeText(e))
	return ""
}

func (t *tr) temp() string {
	t.ntemp++
	return fmt.Sprintf("tmp%d", t.ntemp)
}

func seq(ss []string) string {
	if len(ss) == 0 {
		return "SSkip"
	}
	if len(ss) == 1 {
		return ss[0]
	}
	return "sseq [" + strings.Join(ss, ";\n      ") + "]"
}

func (t *tr) block(b *ast.BlockStmt) string {
	if b == nil {
		return "SSkip"
	}
	var out []string
	for _, s := range b.List {
		out = append(out, t.stmt(s))
	}
	return seq(out)
}

// a call to a translated plain function (or method t.numElems())
func (t *tr) knownCall(e ast.Expr) (string, []ast.Expr, bool) {
	c, ok := e.(*ast.CallExpr)
	if !ok {
		return "", nil, false
	}
	name := nodeText(c.Fun)
	if i := strings.LastIndex(name, "."); i >= 0 {
		name = name[i+1:]
	}
	if t.known[name] {
		return name, c.Args, true
	}
	return "", nil, false
}

func (t *tr) lhsName(e ast.Expr) string {
	if id, ok := e.(*ast.Ident); ok {
		return id.Name
	}
	t.fail("assignment target: " + nodeText(e))
	return ""
}

// x[i] or x[i].From / x[i].To as an assignment target
func (t *tr) setTarget(lhs ast.Expr, rhs string) string {
	switch v := lhs.(type) {
	case *ast.Ident:
		if v.Name == "_" {
			t.fail("blank assignment")
		}
		return "SSet " + q(v.Name) + " (" + rhs + ")"
	case *ast.IndexExpr:
		if id, ok := v.X.(*ast.Ident); ok {
			return "SSetIdx " + q(id.Name) + " (" + t.expr(v.Index) + ") (" + rhs + ")"
		}
	case *ast.SelectorExpr:
		if ix, ok := v.X.(*ast.IndexExpr); ok {
			if id, ok := ix.X.(*ast.Ident); ok && (v.Sel.Name == "From" || v.Sel.Name == "To") {
				to := "false"
				if v.Sel.Name == "To" {
					to = "true"
				}
				return "SSetFld " + q(id.Name) + " (" + t.expr(ix.Index) + ") " + to + " (" + rhs + ")"
			}
		}
	}
	t.fail("assignment target: " + nodeText(lhs))
	return ""
}

func (t *tr) stmt(s ast.Stmt) (res string) {
	defer func() {
		if r := recover(); r != nil {
			if u, ok := r.(unsupported); ok {
				res = "SUnsupported " + q(u.why)
				return
			}
			panic(r)
		}
	}()
	switch v := s.(type) {
	case *ast.EmptyStmt:
		return "SSkip"
	case *ast.BlockStmt:
		return t.block(v)
	case *ast.DeclStmt:
		gd, ok := v.Decl.(*ast.GenDecl)
		if !ok || gd.Tok != token.VAR {
			t.fail("declaration: " + nodeText(s))
		}
		var out []string
		for _, sp := range gd.Specs {
			vs := sp.(*ast.ValueSpec)
			if len(vs.Values) != 0 || vs.Type == nil {
				t.fail("declaration: " + nodeText(s))
			}
			z := zeroOf(typeText(vs.Type))
			if z == "" {
				t.fail("declaration: " + nodeText(s))
			}
			for _, n := range vs.Names {
				out = append(out, "SSet "+q(n.Name)+" ("+z+")")
			}
		}
		return seq(out)
	case *ast.ExprStmt:
		if c, ok := v.X.(*ast.CallExpr); ok && nodeText(c.Fun) == "copy" && len(c.Args) == 2 {
			if id, ok := c.Args[0].(*ast.Ident); ok {
				return "SCopy " + q(id.Name) + " (" + t.expr(c.Args[1]) + ")"
			}
		}
		t.fail("statement: " + nodeText(s))
	case *ast.IncDecStmt:
		op := "OAdd"
		if v.Tok == token.DEC {
			op = "OSub"
		}
		return t.setTarget(v.X, "EBin "+op+" ("+t.expr(v.X)+") (EInt 1)")
	case *ast.AssignStmt:
		switch v.Tok {
		case token.ADD_ASSIGN, token.SUB_ASSIGN, token.MUL_ASSIGN:
			op := map[token.Token]string{token.ADD_ASSIGN: "OAdd", token.SUB_ASSIGN: "OSub", token.MUL_ASSIGN: "OMul"}[v.Tok]
			if len(v.Lhs) == 1 && len(v.Rhs) == 1 {
				return t.setTarget(v.Lhs[0], "EBin "+op+" ("+t.expr(v.Lhs[0])+") ("+t.expr(v.Rhs[0])+")")
			}
		case token.ASSIGN, token.DEFINE:
			if len(v.Rhs) == 1 {
				if f, args, ok := t.knownCall(v.Rhs[0]); ok {
					var xs []string
					for _, l := range v.Lhs {
						xs = append(xs, q(t.lhsName(l)))
					}
					return "SCall [" + strings.Join(xs, "; ") + "] " + q(f) + " " + t.exprs(args)
				}
			}
			if len(v.Lhs) == 1 && len(v.Rhs) == 1 {
				// err = fmt.Errorf(..) / x = e ; a nil on the right of an error variable is 0
				if isNil(v.Rhs[0]) {
					if id, ok := v.Lhs[0].(*ast.Ident); ok && id.Name == "err" {
						return "SSet \"err\" (EInt 0)"
					}
				}
				return t.setTarget(v.Lhs[0], t.expr(v.Rhs[0]))
			}
			if len(v.Lhs) == len(v.Rhs) && len(v.Lhs) == 2 {
				// parallel assignment: operands first, then the assignments left to right
				t1, t2 := t.temp(), t.temp()
				return seq([]string{
					"SSet " + q(t1) + " (" + t.expr(v.Rhs[0]) + ")",
					"SSet " + q(t2) + " (" + t.expr(v.Rhs[1]) + ")",
					t.setTarget(v.Lhs[0], "EVar "+q(t1)),
					t.setTarget(v.Lhs[1], "EVar "+q(t2)),
				})
			}
		}
		t.fail("assignment: " + nodeText(s))
	case *ast.IfStmt:
		if v.Init != nil {
			t.fail("if with init: " + nodeText(v.Init))
		}
		els := "SSkip"
		if v.Else != nil {
			els = t.stmt(v.Else)
		}
		return "SIf (" + t.expr(v.Cond) + ")\n      (" + t.block(v.Body) + ")\n      (" + els + ")"
	case *ast.ForStmt:
		if v.Cond == nil {
			t.fail("for without condition")
		}
		post := "SSkip"
		if v.Post != nil {
			post = t.stmt(v.Post)
		}
		loop := "SFor (" + t.expr(v.Cond) + ") (" + post + ")\n      (" + t.block(v.Body) + ")"
		if v.Init != nil {
			return seq([]string{t.stmt(v.Init), loop})
		}
		return loop
	case *ast.RangeStmt:
		k, x := "_", "_"
		if v.Key != nil {
			k = t.lhsName(v.Key)
		}
		if v.Value != nil {
			x = t.lhsName(v.Value)
		}
		if x != "_" {
			if id, ok := v.X.(*ast.Ident); ok && writesTo(v.Body, id.Name) {
				t.fail("range by value over a slice modified in the loop: " + id.Name)
			}
		}
		return "SRange " + q(k) + " " + q(x) + " (" + t.expr(v.X) + ")\n      (" + t.block(v.Body) + ")"
	case *ast.BranchStmt:
		if v.Label == nil && v.Tok == token.BREAK {
			return "SBreak"
		}
		if v.Label == nil && v.Tok == token.CONTINUE {
			return "SContinue"
		}
		t.fail("branch: " + nodeText(s))
	case *ast.ReturnStmt:
		if len(v.Results) == 0 {
			var rs []string
			for _, r := range t.results {
				rs = append(rs, "EVar "+q(r.name))
			}
			return "SRet [" + strings.Join(rs, "; ") + "]"
		}
		var rs []string
		for i, r := range v.Results {
			if isNil(r) && i < len(t.results) && t.results[i].typ == "error" {
				rs = append(rs, "EInt 0")
				continue
			}
			rs = append(rs, t.expr(r))
		}
		return "SRet [" + strings.Join(rs, "; ") + "]"
	case *ast.SwitchStmt:
		// switch <ident> { case e: ...; default: ... }  (no fallthrough) as nested ifs
		tag, ok := v.Tag.(*ast.Ident)
		if v.Init != nil || !ok {
			t.fail("switch: " + nodeText(s))
		}
		type arm struct {
			cond string
			body string
		}
		var arms []arm
		def := "SSkip"
		for _, c := range v.Body.List {
			cc := c.(*ast.CaseClause)
			var body []string
			for _, b := range cc.Body {
				if br, ok := b.(*ast.BranchStmt); ok && br.Tok == token.FALLTHROUGH {
					t.fail("fallthrough")
				}
				if br, ok := b.(*ast.BranchStmt); ok && br.Tok == token.BREAK {
					t.fail("break inside switch")
				}
				body = append(body, t.stmt(b))
			}
			if cc.List == nil {
				def = seq(body)
				continue
			}
			var cs []string
			for _, e := range cc.List {
				cs = append(cs, "EBin OEq (EVar "+q(tag.Name)+") ("+t.expr(e)+")")
			}
			cond := cs[0]
			for _, c2 := range cs[1:] {
				cond = "EOr (" + cond + ") (" + c2 + ")"
			}
			arms = append(arms, arm{cond, seq(body)})
		}
		out := def
		for i := len(arms) - 1; i >= 0; i-- {
			out = "SIf (" + arms[i].cond + ")\n      (" + arms[i].body + ")\n      (" + out + ")"
		}
		return out
	}
	t.fail("statement: " + nodeText(s))
	return ""
}

// does the block assign into elements of variable x (x[i] = .., x[i].F = .., x[i]++, copy(x, ..))?
func writesTo(n ast.Node, x string) bool {
	found := false
	rootOf := func(e ast.Expr) string {
		for {
			switch v := e.(type) {
			case *ast.IndexExpr:
				e = v.X
				continue
			case *ast.SelectorExpr:
				if _, ok := v.X.(*ast.IndexExpr); ok {
					e = v.X
					continue
				}
				return ""
			case *ast.Ident:
				return v.Name
			}
			return ""
		}
	}
	ast.Inspect(n, func(m ast.Node) bool {
		switch v := m.(type) {
		case *ast.AssignStmt:
			for _, l := range v.Lhs {
				if _, isId := l.(*ast.Ident); !isId && rootOf(l) == x {
					found = true
				}
			}
		case *ast.IncDecStmt:
			if _, isId := v.X.(*ast.Ident); !isId && rootOf(v.X) == x {
				found = true
			}
		case *ast.CallExpr:
			if nodeText(v.Fun) == "copy" && len(v.Args) == 2 {
				if id, ok := v.Args[0].(*ast.Ident); ok && id.Name == x {
					found = true
				}
			}
		}
		return true
	})
	return found
}

// aliasing check over a whole function body: variables bound to an existing slice (y := x, y := x[a:b],
// y := t.dims, y = append(x, ..) with y != x) must not be written through, nor may their source; slice
// parameters must not be written into (captured generator state is exempt: [state] lists the exempt names).
func aliasProblems(body ast.Node, params map[string]bool, exempt map[string]bool) []string {
	type pair struct{ y, x string }
	var aliases []pair
	srcOf := func(e ast.Expr) string {
		switch v := e.(type) {
		case *ast.Ident:
			if v.Name != "nil" {
				return v.Name
			}
		case *ast.SliceExpr:
			return nodeText(v.X)
		case *ast.SelectorExpr:
			if v.Sel.Name == "dims" {
				return nodeText(e)
			}
		case *ast.CallExpr:
			if nodeText(v.Fun) == "append" && len(v.Args) >= 1 {
				return nodeText(v.Args[0])
			}
		}
		return ""
	}
	ast.Inspect(body, func(m ast.Node) bool {
		if as, ok := m.(*ast.AssignStmt); ok && len(as.Lhs) == len(as.Rhs) {
			for i := range as.Lhs {
				if id, ok := as.Lhs[i].(*ast.Ident); ok {
					if x := srcOf(as.Rhs[i]); x != "" && x != id.Name {
						aliases = append(aliases, pair{id.Name, x})
					}
				}
			}
		}
		return true
	})
	var out []string
	for _, p := range aliases {
		if writesTo(body, p.y) {
			out = append(out, "writes through "+p.y+" which aliases "+p.x)
		}
		if writesTo(body, p.x) {
			out = append(out, "writes into "+p.x+" which is aliased by "+p.y)
		}
	}
	for p := range params {
		if !exempt[p] && writesTo(body, p) {
			out = append(out, "writes into parameter "+p)
		}
	}
	sort.Strings(out)
	return out
}

// ---------------------------------------------------------------------------------------------

func parseFile(repo, rel string) (*ast.File, error) {
	fset := token.NewFileSet()
	return parser.ParseFile(fset, filepath.Join(repo, rel), nil, 0)
}

func findFunc(f *ast.File, recv, name string) *ast.FuncDecl {
	for _, d := range f.Decls {
		fd, ok := d.(*ast.FuncDecl)
		if !ok || fd.Name.Name != name {
			continue
		}
		r := ""
		if fd.Recv != nil && len(fd.Recv.List) == 1 {
			r = strings.TrimPrefix(nodeText(fd.Recv.List[0].Type), "*")
		}
		if r == recv {
			return fd
		}
	}
	return nil
}

func (t *tr) setSignature(fd *ast.FuncDecl) (params []string, prelude []string) {
	t.tensorVars = map[string]bool{}
	t.results = nil
	if fd.Recv != nil {
		for _, f := range fd.Recv.List {
			for _, n := range f.Names {
				t.tensorVars[n.Name] = true
				params = append(params, n.Name+".dims")
			}
		}
	}
	for _, f := range fd.Type.Params.List {
		tt := typeText(f.Type)
		for _, n := range f.Names {
			if tt == "*CPUTensor" {
				t.tensorVars[n.Name] = true
				params = append(params, n.Name+".dims")
			} else {
				params = append(params, n.Name)
			}
		}
	}
	if fd.Type.Results != nil {
		for _, f := range fd.Type.Results.List {
			tt := typeText(f.Type)
			for _, n := range f.Names {
				t.results = append(t.results, resv{n.Name, tt})
				if z := zeroOf(tt); z != "" {
					prelude = append(prelude, "SSet "+q(n.Name)+" ("+z+")")
				}
			}
		}
	}
	return
}

func qlist(xs []string) string {
	var out []string
	for _, x := range xs {
		out = append(out, q(x))
	}
	return "[" + strings.Join(out, "; ") + "]"
}

// items of a body: maximal runs of translatable statements become one ICode, the rest IOpaque text
func (t *tr) items(stmts []ast.Stmt) string {
	var out []string
	var run []string
	flush := func() {
		if len(run) > 0 {
			out = append(out, "ICode ("+seq(run)+")")
			run = nil
		}
	}
	for _, s := range stmts {
		if rs, ok := s.(*ast.ReturnStmt); ok && len(rs.Results) == 1 {
			if _, isLit := rs.Results[0].(*ast.FuncLit); isLit {
				flush()
				out = append(out, "IOpaque "+q("return <closure>"))
				continue
			}
		}
		c := t.stmt(s)
		hasRet := false
		ast.Inspect(s, func(m ast.Node) bool {
			if _, ok := m.(*ast.ReturnStmt); ok {
				hasRet = true
			}
			return true
		})
		if hasRet || strings.Contains(c, "SUnsupported") {
			flush()
			out = append(out, "IOpaque "+q(nodeText(s)))
			continue
		}
		run = append(run, c)
	}
	flush()
	return "[" + strings.Join(out, ";\n    ") + "]"
}

func main() {
	if len(os.Args) < 3 {
		fmt.Fprintln(os.Stderr, "usage: gox <repo> <GoFns.v> [<SrcText.v> [<srctext.json> [<GoData.v> [<GoGrad.v> [<GoWrap.v> [<GoComp.v>]]]]]]")
		os.Exit(2)
	}
	repo, out := os.Args[1], os.Args[2]
	if len(os.Args) >= 4 {
		js := ""
		if len(os.Args) >= 5 {
			js = os.Args[4]
		}
		if err := emitSrcText(repo, os.Args[3], js); err != nil {
			fmt.Fprintln(os.Stderr, "gox:", err)
			os.Exit(1)
		}
	}
	if len(os.Args) >= 9 {
		if err := emitComp(repo, os.Args[8]); err != nil {
			fmt.Fprintln(os.Stderr, "gox:", err)
			os.Exit(1)
		}
	}
	if len(os.Args) >= 8 {
		if err := emitWrap(repo, os.Args[7]); err != nil {
			fmt.Fprintln(os.Stderr, "gox:", err)
			os.Exit(1)
		}
	}
	if len(os.Args) >= 7 {
		if err := emitGrad(repo, os.Args[6]); err != nil {
			fmt.Fprintln(os.Stderr, "gox:", err)
			os.Exit(1)
		}
	}
	if len(os.Args) >= 6 {
		if err := emitData(repo, os.Args[5]); err != nil {
			fmt.Fprintln(os.Stderr, "gox:", err)
			os.Exit(1)
		}
	}
	var sb strings.Builder
	sb.WriteString("(* GENERATED by harness/gox from /repo's Go sources on every run — do not edit.\n   The integer / shape logic of tensor/internal/validator and tensor/internal/cputensor as GoIR programs. *)\n")
	sb.WriteString("From Coq Require Import String List ZArith.\nFrom Qeep Require Import Model.GoIR.\nImport ListNotations.\nLocal Open Scope string_scope.\nLocal Open Scope Z_scope.\n\n")
	parsed := map[string]*ast.File{}
	get := func(rel string) *ast.File {
		if f, ok := parsed[rel]; ok {
			return f
		}
		fset := token.NewFileSet()
		f, err := parser.ParseFile(fset, filepath.Join(repo, rel), nil, 0)
		if err != nil {
			parsed[rel] = nil
			return nil
		}
		parsed[rel] = f
		return f
	}
	known := map[string]bool{}
	for _, tg := range targets {
		if !tg.gen {
			known[tg.fn] = true
		}
	}
	var tab []string
	for _, tg := range targets {
		t := &tr{known: known}
		f := get(tg.file)
		var fd *ast.FuncDecl
		if f != nil {
			fd = findFunc(f, tg.recv, tg.fn)
		}
		if fd == nil || fd.Body == nil {
			if tg.gen {
				fmt.Fprintf(&sb, "Definition %s_outer : list item := [IOpaque %s].\nDefinition %s_step : list item := [IOpaque %s].\n\n", tg.coq, q("MISSING"), tg.coq, q("MISSING"))
			} else {
				fmt.Fprintf(&sb, "Definition %s : fn := mkFn [] (SUnsupported %s).\n\n", tg.coq, q("MISSING: function not found"))
				tab = append(tab, fmt.Sprintf("(%s, %s)", q(tg.fn), tg.coq))
			}
			continue
		}
		params, prelude := t.setSignature(fd)
		pm := map[string]bool{}
		for _, f := range fd.Type.Params.List {
			if strings.HasPrefix(typeText(f.Type), "[]") {
				for _, n := range f.Names {
					pm[n.Name] = true
				}
			}
		}
		if !tg.gen {
			probs := aliasProblems(fd.Body, pm, nil)
			var body string
			if len(probs) > 0 {
				body = "SUnsupported " + q("aliasing: "+strings.Join(probs, "; "))
			} else {
				var ss []string
				ss = append(ss, prelude...)
				for _, s := range fd.Body.List {
					ss = append(ss, t.stmt(s))
				}
				body = seq(ss)
			}
			fmt.Fprintf(&sb, "(* %s: %s *)\nDefinition %s : fn := mkFn %s\n  (%s).\n\n", tg.file, tg.fn, tg.coq, qlist(params), body)
			tab = append(tab, fmt.Sprintf("(%s, %s)", q(tg.fn), tg.coq))
			continue
		}
		// generator: outer statements (state initialisation), then the returned closure's statements
		var lit *ast.FuncLit
		for _, s := range fd.Body.List {
			if rs, ok := s.(*ast.ReturnStmt); ok && len(rs.Results) == 1 {
				if fl, ok := rs.Results[0].(*ast.FuncLit); ok {
					lit = fl
				}
			}
		}
		probs := aliasProblems(fd.Body, pm, nil)
		if len(probs) > 0 {
			fmt.Fprintf(&sb, "Definition %s_outer : list item := [IOpaque %s].\nDefinition %s_step : list item := [IOpaque %s].\n\n",
				tg.coq, q("aliasing: "+strings.Join(probs, "; ")), tg.coq, q("aliasing"))
			continue
		}
		fmt.Fprintf(&sb, "(* %s: %s — free variables %s *)\nDefinition %s_outer : list item :=\n  %s.\n", tg.file, tg.fn, strings.Join(params, ", "), tg.coq, t.items(fd.Body.List))
		if lit != nil {
			t.results = nil
			fmt.Fprintf(&sb, "Definition %s_step : list item :=\n  %s.\n\n", tg.coq, t.items(lit.Body.List))
		} else {
			fmt.Fprintf(&sb, "Definition %s_step : list item := [].\n\n", tg.coq)
		}
	}
	fmt.Fprintf(&sb, "Definition ftab : ftable :=\n  [ %s ].\n", strings.Join(tab, ";\n    "))
	old, _ := os.ReadFile(out)
	if string(old) != sb.String() {
		if err := os.WriteFile(out, []byte(sb.String()), 0o644); err != nil {
			fmt.Fprintln(os.Stderr, "gox:", err)
			os.Exit(1)
		}
	}
}
