package main

// Translation of tensor/internal/gradtrack (the autograd core) into DataIR programs, written to coq/Model/GoGrad.v:
//   * back_propagation.go: backward, topologicalOrder (with its recursive closure visit), accumulateGrad
//   * gradtrack.go: anyIsBPDirty, nonIsTracked
//   * gradients.go: every gradient-context constructor (Concat ... MatMul): the three-way prologue and the list of
//     back edges (target operand, which closure, which locals the closure captures), and the body of the Broadcast
//     closure (loops over the dimensions).
// Tensors and gradient contexts are node ids (DI n).  Everything that touches a tensor or a context goes through the
// oracle [ext] of DataIR, whose meaning over the model's heap is Model/HeapExt.v:
//     gradContextOf(t)                         -> ext "gradContextOf" [t]
//     c.tracked / c.bpdirty / c.gradient / c.backEdges (read)   -> ext "get.<field>" [c]
//     c.<field> = e                            -> ext "set.<field>" [c; e]
//     e.target / e.gradFn()                    -> e[0] / ext "gradFn" [e]
//     x.M(args) for a tensor x                 -> ext "M" [x; args]
//     anyIsBPDirty(a, b) / nonIsTracked(xs...) -> ext "<name>" [[a; b]] / [xs]   (inside constructors)
// Sub-expressions of these forms are hoisted into temporaries ($1, $2, ...) in evaluation order before the statement
// that contains them.  A gradient context VALUE built by a constructor is the triple [tracked; bpdirty; edges], an
// edge is [target; closure number; captured locals...].

import (
	"fmt"
	"go/ast"
	"go/token"
	"os"
	"strings"
)

const gdir = "tensor/internal/gradtrack/"

var ctxFields = map[string]bool{"tracked": true, "bpdirty": true, "gradient": true, "backEdges": true}

type gtr struct {
	*dtr
	ntmp     int
	pre      []string
	tensors  map[string]bool // identifiers of tensor type (method calls on them are oracle calls)
	lits     map[*ast.FuncLit]int
	bodyVars map[string]bool // locals of the enclosing constructor (captured by edge closures)
}

func (g *gtr) tmp() string {
	g.ntmp++
	return fmt.Sprintf("$%d", g.ntmp)
}

func (g *gtr) emitExt(def bool, xs []string, name string, args []ast.Expr) {
	var as []string
	for _, a := range args {
		as = append(as, g.dtr.expr(a))
	}
	d := "false"
	if def {
		d = "true"
	}
	var qs []string
	for _, x := range xs {
		qs = append(qs, q(x))
	}
	g.pre = append(g.pre, fmt.Sprintf("TExt %s [%s] %s [%s]", d, strings.Join(qs, "; "), q(name), strings.Join(as, "; ")))
}

func ident(n string) *ast.Ident { return &ast.Ident{Name: n} }

func listLit(es []ast.Expr) ast.Expr {
	// append([]T(nil), es...) as the expression form XAppend XNilSlice [...]
	return &ast.CallExpr{Fun: ident("append"), Args: append([]ast.Expr{ident("nil")}, es...)}
}

func boolLit(b bool) ast.Expr {
	if b {
		return ident("$true")
	}
	return ident("$false")
}

// hoist rewrites e so that it contains no oracle-level sub-expression; the oracle calls are appended to g.pre
func (g *gtr) hoist(e ast.Expr) ast.Expr {
	switch v := e.(type) {
	case nil:
		return nil
	case *ast.ParenExpr:
		return &ast.ParenExpr{X: g.hoist(v.X)}
	case *ast.UnaryExpr:
		if v.Op == token.AND {
			if cl, ok := v.X.(*ast.CompositeLit); ok {
				return g.hoist(cl)
			}
		}
		return &ast.UnaryExpr{Op: v.Op, X: g.hoist(v.X)}
	case *ast.BinaryExpr:
		x := g.hoist(v.X)
		y := g.hoist(v.Y)
		return &ast.BinaryExpr{Op: v.Op, X: x, Y: y}
	case *ast.IndexExpr:
		return &ast.IndexExpr{X: g.hoist(v.X), Index: g.hoist(v.Index)}
	case *ast.SliceExpr:
		return &ast.SliceExpr{X: g.hoist(v.X), Low: g.hoist(v.Low), High: g.hoist(v.High)}
	case *ast.SelectorExpr:
		if ctxFields[v.Sel.Name] {
			x := g.hoist(v.X)
			t := g.tmp()
			g.emitExt(true, []string{t}, "get."+v.Sel.Name, []ast.Expr{x})
			return ident(t)
		}
		if v.Sel.Name == "target" {
			return &ast.IndexExpr{X: g.hoist(v.X), Index: &ast.BasicLit{Kind: token.INT, Value: "0"}}
		}
		return v
	case *ast.CompositeLit:
		tt := typeText(v.Type)
		switch {
		case tt == "GradContext":
			tracked, edges := boolLit(false), ast.Expr(ident("nil"))
			for _, el := range v.Elts {
				kv := el.(*ast.KeyValueExpr)
				switch nodeText(kv.Key) {
				case "tracked":
					tracked = g.hoist(kv.Value)
				case "backEdges":
					edges = g.hoist(kv.Value)
				}
			}
			return listLit([]ast.Expr{tracked, boolLit(false), edges})
		case tt == "[]*backwardEdge":
			var es []ast.Expr
			for _, el := range v.Elts {
				es = append(es, g.hoist(el))
			}
			return listLit(es)
		case tt == "backwardEdge" || tt == "":
			var target ast.Expr
			var fl *ast.FuncLit
			for _, el := range v.Elts {
				kv, ok := el.(*ast.KeyValueExpr)
				if !ok {
					return v
				}
				switch nodeText(kv.Key) {
				case "target":
					target = g.hoist(kv.Value)
				case "gradFn":
					fl, _ = kv.Value.(*ast.FuncLit)
				}
			}
			if target == nil || fl == nil {
				return v
			}
			parts := []ast.Expr{target, &ast.BasicLit{Kind: token.INT, Value: fmt.Sprint(g.lits[fl])}}
			// the constructor's locals the closure captures, in order of first use
			seen := map[string]bool{}
			ast.Inspect(fl.Body, func(m ast.Node) bool {
				if id, ok := m.(*ast.Ident); ok && g.bodyVars[id.Name] && !seen[id.Name] {
					seen[id.Name] = true
					parts = append(parts, ident(id.Name))
				}
				return true
			})
			return listLit(parts)
		}
		return v
	case *ast.CallExpr:
		name := nodeText(v.Fun)
		switch name {
		case "gradContextOf":
			a := g.hoist(v.Args[0])
			t := g.tmp()
			g.emitExt(true, []string{t}, "gradContextOf", []ast.Expr{a})
			return ident(t)
		case "anyIsBPDirty", "nonIsTracked":
			var arg ast.Expr
			if v.Ellipsis.IsValid() && len(v.Args) == 1 {
				arg = g.hoist(v.Args[0])
			} else {
				var es []ast.Expr
				for _, a := range v.Args {
					es = append(es, g.hoist(a))
				}
				arg = listLit(es)
			}
			t := g.tmp()
			g.emitExt(true, []string{t}, name, []ast.Expr{arg})
			return ident(t)
		case "NewDirtyGradContext":
			return listLit([]ast.Expr{boolLit(false), boolLit(true), ident("nil")})
		case "NewGradContext":
			return listLit([]ast.Expr{g.hoist(v.Args[0]), boolLit(false), ident("nil")})
		}
		if sel, ok := v.Fun.(*ast.SelectorExpr); ok {
			// e.gradFn() and single-result tensor methods used as values (x.Shape(), y.Gradient())
			recv := g.hoist(sel.X)
			args := []ast.Expr{recv}
			for _, a := range v.Args {
				args = append(args, g.hoist(a))
			}
			t := g.tmp()
			g.emitExt(true, []string{t}, sel.Sel.Name, args)
			return ident(t)
		}
		nv := &ast.CallExpr{Fun: v.Fun, Ellipsis: v.Ellipsis}
		for _, a := range v.Args {
			nv.Args = append(nv.Args, g.hoist(a))
		}
		return nv
	}
	return e
}

func (g *gtr) flush(main string) string {
	if len(g.pre) == 0 {
		return main
	}
	out := append(append([]string{}, g.pre...), main)
	g.pre = nil
	return dseq(out)
}

func (g *gtr) block(b *ast.BlockStmt) string {
	if b == nil {
		return "TSkip"
	}
	var out []string
	for _, s := range b.List {
		if c := g.stmt(s); c != "" {
			out = append(out, c)
		}
	}
	return dseq(out)
}

func isMethodCall(e ast.Expr) (*ast.CallExpr, *ast.SelectorExpr, bool) {
	c, ok := e.(*ast.CallExpr)
	if !ok {
		return nil, nil, false
	}
	sel, ok := c.Fun.(*ast.SelectorExpr)
	if !ok {
		return nil, nil, false
	}
	if id, ok := sel.X.(*ast.Ident); ok && (id.Name == "fmt" || id.Name == "math") {
		return nil, nil, false
	}
	return c, sel, true
}

func (g *gtr) stmt(s ast.Stmt) (res string) {
	defer func() {
		if r := recover(); r != nil {
			if u, ok := r.(unsupported); ok {
				g.pre = nil
				res = "TUnsupported " + q(u.why)
				return
			}
			panic(r)
		}
	}()
	switch v := s.(type) {
	case *ast.BlockStmt:
		return g.block(v)
	case *ast.ExprStmt:
		if c, ok := v.X.(*ast.CallExpr); ok {
			name := nodeText(c.Fun)
			if name == "noteRule" {
				return "TExt false [] \"noteRule\" []"
			}
			if id, ok := c.Fun.(*ast.Ident); ok && g.closures[id.Name] != nil {
				nc := &ast.CallExpr{Fun: c.Fun}
				for _, a := range c.Args {
					nc.Args = append(nc.Args, g.hoist(a))
				}
				return g.flush(g.dtr.stmt(&ast.ExprStmt{X: nc}))
			}
		}
	case *ast.AssignStmt:
		// field writes
		if len(v.Lhs) == 1 && len(v.Rhs) == 1 {
			if sel, ok := v.Lhs[0].(*ast.SelectorExpr); ok && ctxFields[sel.Sel.Name] {
				x := g.hoist(sel.X)
				r := g.hoist(v.Rhs[0])
				g.emitExt(false, nil, "set."+sel.Sel.Name, []ast.Expr{x, r})
				out := g.pre
				g.pre = nil
				return dseq(out)
			}
		}
		// x, err := recv.M(args)  /  c.gradient, err = c.gradient.Add(grad)
		if len(v.Rhs) == 1 {
			if c, sel, ok := isMethodCall(v.Rhs[0]); ok && !ctxFields[sel.Sel.Name] {
				recv := g.hoist(sel.X)
				args := []ast.Expr{recv}
				for _, a := range c.Args {
					args = append(args, g.hoist(a))
				}
				var xs []string
				var post []string
				for _, l := range v.Lhs {
					switch lv := l.(type) {
					case *ast.Ident:
						xs = append(xs, lv.Name)
					case *ast.SelectorExpr:
						if ctxFields[lv.Sel.Name] {
							t := g.tmp()
							xs = append(xs, t)
							holder := g.hoistNoEmit(lv.X)
							post = append(post, fmt.Sprintf("TExt false [] %s [%s; XVar %s]", q("set."+lv.Sel.Name), g.dtr.expr(holder), q(t)))
							continue
						}
						g.fail("assignment target: " + nodeText(l))
					default:
						g.fail("assignment target: " + nodeText(l))
					}
				}
				// temporaries introduced for targets are new variables; named targets follow the token
				def := v.Tok == token.DEFINE
				g.emitExt(def, xs, sel.Sel.Name, args)
				out := append(g.pre, post...)
				g.pre = nil
				return dseq(out)
			}
		}
		nv := &ast.AssignStmt{Tok: v.Tok, Lhs: v.Lhs}
		for _, r := range v.Rhs {
			nv.Rhs = append(nv.Rhs, g.hoist(r))
		}
		var nl []ast.Expr
		for _, l := range v.Lhs {
			if ix, ok := l.(*ast.IndexExpr); ok {
				nl = append(nl, &ast.IndexExpr{X: ix.X, Index: g.hoist(ix.Index)})
			} else {
				nl = append(nl, l)
			}
		}
		nv.Lhs = nl
		if len(nv.Lhs) == 2 && len(nv.Rhs) == 2 {
			// parallel assignment: both right-hand sides first
			t1, t2 := g.tmp(), g.tmp()
			a1 := "TDef " + q(t1) + " (" + g.dtr.expr(nv.Rhs[0]) + ")"
			a2 := "TDef " + q(t2) + " (" + g.dtr.expr(nv.Rhs[1]) + ")"
			s1 := g.dtr.setTargetD(nv.Lhs[0], "XVar "+q(t1), v.Tok == token.DEFINE)
			s2 := g.dtr.setTargetD(nv.Lhs[1], "XVar "+q(t2), v.Tok == token.DEFINE)
			return g.flush(dseq([]string{a1, a2, s1, s2}))
		}
		return g.flush(g.dtr.stmt(nv))
	case *ast.IfStmt:
		if v.Init != nil {
			g.fail("if with init")
		}
		c := g.hoist(v.Cond)
		pre := g.pre
		g.pre = nil
		els := "TSkip"
		if v.Else != nil {
			els = g.stmt(v.Else)
		}
		main := "TIf (" + g.dtr.expr(c) + ")\n      (" + g.block(v.Body) + ")\n      (" + els + ")"
		return dseq(append(pre, main))
	case *ast.ForStmt:
		if v.Cond == nil {
			g.fail("for without condition")
		}
		c := g.hoist(v.Cond)
		if len(g.pre) > 0 {
			g.fail("loop condition with an oracle call")
		}
		post := "TSkip"
		if v.Post != nil {
			post = g.stmt(v.Post)
		}
		loop := "TFor (" + g.dtr.expr(c) + ") (" + post + ")\n      (" + g.block(v.Body) + ")"
		if v.Init != nil {
			return dseq([]string{g.stmt(v.Init), loop})
		}
		return loop
	case *ast.RangeStmt:
		x := g.hoist(v.X)
		pre := g.pre
		g.pre = nil
		k, xv := "_", "_"
		if v.Key != nil {
			k = nodeText(v.Key)
		}
		if v.Value != nil {
			xv = nodeText(v.Value)
		}
		main := "TRange " + q(k) + " " + q(xv) + " (" + g.dtr.expr(x) + ")\n      (" + g.block(v.Body) + ")"
		return dseq(append(pre, main))
	case *ast.ReturnStmt:
		nv := &ast.ReturnStmt{}
		for _, r := range v.Results {
			nv.Results = append(nv.Results, g.hoist(r))
		}
		return g.flush(g.dtr.stmt(nv))
	case *ast.IncDecStmt, *ast.DeclStmt, *ast.BranchStmt, *ast.EmptyStmt:
		return g.dtr.stmt(s)
	}
	g.fail("statement: " + nodeText(s))
	return ""
}

// like hoist for a holder expression that needs no oracle call (an identifier)
func (g *gtr) hoistNoEmit(e ast.Expr) ast.Expr {
	if id, ok := e.(*ast.Ident); ok {
		return id
	}
	g.fail("field holder: " + nodeText(e))
	return nil
}

type gtarget struct {
	coq, file, fn string
	closureBody   bool // translate the body of the FIRST edge closure instead of the function (Broadcast)
}

func emitGrad(repo, outV string) error {
	var sb strings.Builder
	sb.WriteString("(* GENERATED by harness/gox from /repo's Go sources on every run — do not edit.\n   tensor/internal/gradtrack (back-propagation, tracking helpers, gradient-context constructors) as DataIR programs;\n   tensors and contexts are node ids, everything that touches them goes through the oracle (Model/HeapExt.v). *)\n")
	sb.WriteString("From Coq Require Import String List ZArith.\nFrom Qeep Require Model.GoIR.\nFrom Qeep Require Import Model.DataIR.\nImport ListNotations.\nLocal Open Scope string_scope.\nLocal Open Scope Z_scope.\n\n")
	var targets []gtarget
	for _, n := range []string{"backward", "topologicalOrder", "accumulateGrad"} {
		targets = append(targets, gtarget{"g_" + n, gdir + "back_propagation.go", n, false})
	}
	for _, n := range []string{"anyIsBPDirty", "nonIsTracked"} {
		targets = append(targets, gtarget{"g_" + n, gdir + "gradtrack.go", n, false})
	}
	gf, err := parseFile(repo, gdir+"gradients.go")
	var ctors []string
	if err == nil {
		for _, d := range gf.Decls {
			if fd, ok := d.(*ast.FuncDecl); ok && fd.Recv == nil && fd.Type.Results != nil && len(fd.Type.Results.List) == 1 &&
				typeText(fd.Type.Results.List[0].Type) == "*GradContext" {
				targets = append(targets, gtarget{"c_" + fd.Name.Name, gdir + "gradients.go", fd.Name.Name, false})
				ctors = append(ctors, fd.Name.Name)
			}
		}
	}
	targets = append(targets, gtarget{"r_Broadcast_closure", gdir + "gradients.go", "Broadcast", true})
	parsed := map[string]*ast.File{}
	for _, tg := range targets {
		f, ok := parsed[tg.file]
		if !ok {
			f, _ = parseFile(repo, tg.file)
			parsed[tg.file] = f
		}
		var fd *ast.FuncDecl
		if f != nil {
			fd = findFunc(f, "", tg.fn)
		}
		if fd == nil || fd.Body == nil {
			fmt.Fprintf(&sb, "Definition %s : dprog := mkProg (mkD [] (TUnsupported %s)) [].\n\n", tg.coq, q("MISSING: function not found"))
			continue
		}
		t := &dtr{tensorVars: map[string]bool{}, floatVars: map[string]bool{}, funcVars: map[string]bool{},
			closures: map[string]*ast.FuncLit{}, closureSig: map[string][]bool{}, mapVars: map[string]bool{},
			extFns: map[string]bool{"topologicalOrder": true, "accumulateGrad": true}}
		g := &gtr{dtr: t, tensors: map[string]bool{}, lits: map[*ast.FuncLit]int{}, bodyVars: map[string]bool{}}
		var params []string
		for _, fl := range fd.Type.Params.List {
			for _, n := range fl.Names {
				params = append(params, fmt.Sprintf("(%s, false)", q(n.Name)))
			}
		}
		body := fd.Body
		ftype := fd.Type
		if tg.closureBody {
			var first *ast.FuncLit
			ast.Inspect(fd.Body, func(m ast.Node) bool {
				if fl, ok := m.(*ast.FuncLit); ok && first == nil {
					first = fl
					return false
				}
				return true
			})
			if first == nil {
				fmt.Fprintf(&sb, "Definition %s : dprog := mkProg (mkD [] (TUnsupported %s)) [].\n\n", tg.coq, q("MISSING: closure not found"))
				continue
			}
			body, ftype = first.Body, first.Type
		}
		var prelude []string
		if ftype.Results != nil {
			for _, fl := range ftype.Results.List {
				tt := typeText(fl.Type)
				for _, n := range fl.Names {
					t.results = append(t.results, resv{n.Name, tt})
					switch tt {
					case "error":
						prelude = append(prelude, "TDef "+q(n.Name)+" (XInt 0)")
					case "bool":
						prelude = append(prelude, "TDef "+q(n.Name)+" (XBool false)")
					default:
						if strings.HasPrefix(tt, "[]") {
							prelude = append(prelude, "TDef "+q(n.Name)+" XNilSlice")
						} else {
							prelude = append(prelude, "TDef "+q(n.Name)+" XNilAny")
						}
					}
				}
			}
		}
		// closures of the function: local recursive closure (visit) vs edge closures (numbered)
		k := 0
		for _, s := range body.List {
			if as, ok := s.(*ast.AssignStmt); ok && len(as.Lhs) == 1 && len(as.Rhs) == 1 {
				if fl, ok := as.Rhs[0].(*ast.FuncLit); ok {
					if id, ok := as.Lhs[0].(*ast.Ident); ok {
						t.closures[id.Name] = fl
					}
				}
			}
		}
		if !tg.closureBody {
			ast.Inspect(body, func(m ast.Node) bool {
				if fl, ok := m.(*ast.FuncLit); ok {
					isLocal := false
					for _, c := range t.closures {
						if c == fl {
							isLocal = true
						}
					}
					if !isLocal {
						g.lits[fl] = k
						k++
						return false
					}
				}
				return true
			})
		}
		ast.Inspect(body, func(m ast.Node) bool {
			switch v := m.(type) {
			case *ast.FuncLit:
				if _, edge := g.lits[v]; edge {
					return false
				}
			case *ast.AssignStmt:
				if v.Tok == token.DEFINE {
					for _, l := range v.Lhs {
						if id, ok := l.(*ast.Ident); ok {
							g.bodyVars[id.Name] = true
						}
					}
				}
			}
			return true
		})
		// maps used as sets
		ast.Inspect(body, func(m ast.Node) bool {
			if as, ok := m.(*ast.AssignStmt); ok && len(as.Lhs) == 1 && len(as.Rhs) == 1 {
				if c, ok := as.Rhs[0].(*ast.CallExpr); ok && nodeText(c.Fun) == "make" && len(c.Args) >= 1 && strings.HasPrefix(typeText(c.Args[0]), "map[") {
					if id, ok := as.Lhs[0].(*ast.Ident); ok {
						t.mapVars[id.Name] = true
					}
				}
			}
			return true
		})
		var locals []string
		for name, fl := range t.closures {
			var ps []string
			for _, f := range fl.Type.Params.List {
				for _, n := range f.Names {
					ps = append(ps, fmt.Sprintf("(%s, %v)", q(n.Name), strings.HasPrefix(typeText(f.Type), "*any")))
				}
			}
			saved := t.results
			t.results = nil
			cb := g.block(fl.Body)
			t.results = saved
			locals = append(locals, fmt.Sprintf("(%s, mkD [%s]\n      (%s))", q(name), strings.Join(ps, "; "), cb))
		}
		var ss []string
		ss = append(ss, prelude...)
		for _, s := range body.List {
			if c := g.stmt(s); c != "" {
				ss = append(ss, c)
			}
		}
		if tg.closureBody {
			params = []string{"(\"x\", false)", "(\"y\", false)"}
		}
		fmt.Fprintf(&sb, "(* %s: %s *)\nDefinition %s : dprog := mkProg\n  (mkD [%s]\n    (%s))\n  [%s].\n\n",
			tg.file, tg.fn, tg.coq, strings.Join(params, "; "), dseq(ss), strings.Join(locals, ";\n   "))
	}
	var cs []string
	for _, c := range ctors {
		cs = append(cs, fmt.Sprintf("(%s, c_%s)", q(c), c))
	}
	fmt.Fprintf(&sb, "Definition ctor_table : list (string * dprog) :=\n  [ %s ].\n", strings.Join(cs, ";\n    "))
	out := strings.ReplaceAll(sb.String(), "XVar \"$true\"", "XBool true")
	out = strings.ReplaceAll(out, "XVar \"$false\"", "XBool false")
	old, _ := os.ReadFile(outV)
	if string(old) != out {
		return os.WriteFile(outV, []byte(out), 0o644)
	}
	return nil
}
