package main

// Translation of the COMPONENT layer's own logic — input validators, config validators, constructors, the scale
// formulas of the initializers and the Accuracy counters (component/{metrics,losses,optimizers,layers,
// layers/activations,initializers}) — into DataIR programs, written to coq/Model/GoComp.v.
//
// Representation (the meaning of the oracle calls is Model/CompExt.v):
//   * a tensor.Tensor interface value is DNil (nil) or a node id DI n; every method called on one is an oracle call
//     named after the method, the receiver first ("Shape", "Gradient", "Eq", "Sum", ...);
//   * a []tensor.Tensor / variadic parameter is the list of such values; a *tensor.Tensor is DNil or DL [value];
//   * the receiver c *T of a method is flattened into the variables "c.<field>" (pointer parameters: their final
//     values are the receiver after the call);
//   * any other pointer to a struct of the package (configs, constructed components) is DNil or the list of its
//     field values in declaration order; new(T) is the list of zero values, &T{..} the list of the given values,
//     *conf = *iconf copies the list (a nil iconf panics);
//   * an error is 0 (nil) or 1 (non-nil): fmt.Errorf(..) is 1;
//   * float comparisons are the oracle calls "f<", "f>", "f<=", "f>=" (a float64 is an abstract scalar);
//     float64(n) of an int is the oracle call "float64"; math.Sqrt is the scalar function "math.Sqrt";
//     int(f) of a float is the scalar function "int" (strunc) and a Go int that receives such a value
//     (Accuracy.correct) is carried as a float, as in the hand-written model;
//   * calls of other functions (sibling methods "T.m" with the receiver's fields first, package functions, functions
//     of package tensor) are oracle calls named after the callee;
//   * package-level constants are inlined.
// Calls may not be hoisted out of the right operand of && / || (the translation fails instead).

import (
	"fmt"
	"go/ast"
	"go/token"
	"os"
	"strings"
)

type sfield struct{ name, typ string }

type cpkg struct {
	structs map[string][]sfield
	consts  map[string]ast.Expr
	results map[string][]string // "T.m" or "f" -> result types
	files   []*ast.File
	intTypes map[string]bool // type X int
	mapKeys map[string]int // string constants used as keys of map[string]T fields: slot index, in declaration order
}

type ctr struct {
	p          *cpkg
	ntmp       int
	pre        []string
	recv       string
	recvType   string
	floatVars  map[string]bool
	structVars map[string]string // variable -> struct type (pointer-to-struct values)
	results    []resv
	inCond     int
	floatCoded map[string]bool // "T.field"
}

func (c *ctr) fail(why string) { panic(unsupported{why}) }

func (c *ctr) tmp() string {
	c.ntmp++
	return fmt.Sprintf("$%d", c.ntmp)
}

func loadPkg(repo, dir string) *cpkg {
	p := &cpkg{structs: map[string][]sfield{}, consts: map[string]ast.Expr{}, results: map[string][]string{}, mapKeys: map[string]int{}, intTypes: map[string]bool{}}
	ents, err := os.ReadDir(repo + "/" + dir)
	if err != nil {
		return p
	}
	for _, e := range ents {
		n := e.Name()
		if !strings.HasSuffix(n, ".go") || strings.HasSuffix(n, "_test.go") {
			continue
		}
		src, err := os.ReadFile(repo + "/" + dir + "/" + n)
		if err != nil || hasVerifTag(src) {
			continue
		}
		f, err := parseFile(repo, dir+"/"+n)
		if err != nil {
			continue
		}
		p.files = append(p.files, f)
		for _, d := range f.Decls {
			switch v := d.(type) {
			case *ast.GenDecl:
				for _, sp := range v.Specs {
					switch s := sp.(type) {
					case *ast.TypeSpec:
						if id, ok := s.Type.(*ast.Ident); ok && id.Name == "int" {
							p.intTypes[s.Name.Name] = true
						}
						if st, ok := s.Type.(*ast.StructType); ok {
							var fs []sfield
							for _, fl := range st.Fields.List {
								for _, nm := range fl.Names {
									fs = append(fs, sfield{nm.Name, typeText(fl.Type)})
								}
							}
							p.structs[s.Name.Name] = fs
						}
					case *ast.ValueSpec:
						if v.Tok == token.CONST {
							for i, nm := range s.Names {
								if i < len(s.Values) {
									p.consts[nm.Name] = s.Values[i]
									// iota: the index of the spec in its const block
									if strings.Contains(nodeText(s.Values[i]), "iota") {
										idx := 0
										for k, sp2 := range v.Specs {
											if sp2 == sp {
												idx = k
											}
										}
										val := replaceIota(s.Values[i], idx)
										p.consts[nm.Name] = val
									}
									if bl, ok := s.Values[i].(*ast.BasicLit); ok && bl.Kind == token.STRING {
										p.mapKeys[nm.Name] = len(p.mapKeys)
									}
								}
							}
						}
					}
				}
			case *ast.FuncDecl:
				name := v.Name.Name
				if v.Recv != nil && len(v.Recv.List) == 1 {
					name = strings.TrimPrefix(typeText(v.Recv.List[0].Type), "*") + "." + name
				}
				var rs []string
				if v.Type.Results != nil {
					for _, fl := range v.Type.Results.List {
						k := len(fl.Names)
						if k == 0 {
							k = 1
						}
						for i := 0; i < k; i++ {
							rs = append(rs, typeText(fl.Type))
						}
					}
				}
				p.results[name] = rs
			}
		}
	}
	return p
}

func replaceIota(e ast.Expr, idx int) ast.Expr {
	switch v := e.(type) {
	case *ast.Ident:
		if v.Name == "iota" {
			return &ast.BasicLit{Kind: token.INT, Value: fmt.Sprint(idx)}
		}
	case *ast.BinaryExpr:
		return &ast.BinaryExpr{Op: v.Op, X: replaceIota(v.X, idx), Y: replaceIota(v.Y, idx)}
	case *ast.ParenExpr:
		return &ast.ParenExpr{X: replaceIota(v.X, idx)}
	}
	return e
}

// the struct type behind a type expression text ("T" or "*T")
func (p *cpkg) structOf(tt string) (string, bool) {
	tt = strings.TrimPrefix(tt, "*")
	_, ok := p.structs[tt]
	return tt, ok
}

func (c *ctr) fieldIndex(st, f string) (int, string) {
	for i, fl := range c.p.structs[st] {
		if fl.name == f {
			return i, fl.typ
		}
	}
	c.fail("unknown field " + st + "." + f)
	return 0, ""
}

// a map[string]T field whose keys are the package's string constants: nil, or one slot per key constant
// (a slot is nil = absent, or a one-element list holding the value)
func (c *ctr) mapField(e ast.Expr) (string, bool) {
	sel, ok := e.(*ast.SelectorExpr)
	if !ok {
		return "", false
	}
	id, ok := sel.X.(*ast.Ident)
	if !ok {
		return "", false
	}
	st, ok := c.structVars[id.Name]
	if !ok {
		return "", false
	}
	i, tt := c.fieldIndex(st, sel.Sel.Name)
	if !strings.HasPrefix(tt, "map[string]") {
		return "", false
	}
	return fmt.Sprintf("XIdx (XVar %s) (XInt %d)", q(id.Name), i), true
}

func (c *ctr) mapKey(e ast.Expr) int {
	if id, ok := e.(*ast.Ident); ok {
		if k, ok := c.p.mapKeys[id.Name]; ok {
			return k
		}
	}
	c.fail("map key is not a string constant of the package: " + nodeText(e))
	return 0
}

// v, ok := m[k]   (v = zero value and ok = false when the map is nil or the key absent)
func (c *ctr) mapRead(m string, k int, v, ok string) {
	slot := fmt.Sprintf("XIdx (%s) (XInt %d)", m, k)
	c.pre = append(c.pre, "TDef "+q(v)+" (XNilAny)", "TDef "+q(ok)+" (XBool false)",
		fmt.Sprintf("TIf (XNot (XIsNil (%s)))\n      (TIf (XNot (XIsNil (%s)))\n      (tseq [TSet %s (XIdx (%s) (XInt 0)); TSet %s (XBool true)])\n      (TSkip))\n      (TSkip)", m, slot, q(v), slot, q(ok)))
}

// m[k] = value   (panics on a nil map, like Go)
func (c *ctr) mapWrite(lhs *ast.IndexExpr, value string) string {
	m, ok := c.mapField(lhs.X)
	if !ok {
		c.fail("assignment target: " + nodeText(lhs))
	}
	sel := lhs.X.(*ast.SelectorExpr)
	id := sel.X.(*ast.Ident)
	fi, _ := c.fieldIndex(c.structVars[id.Name], sel.Sel.Name)
	k := c.mapKey(lhs.Index)
	t := c.tmp()
	return dseq([]string{"TDef " + q(t) + " (" + m + ")",
		fmt.Sprintf("TSetIdx %s (XInt %d) (XAppend XNilSlice [%s])", q(t), k, value),
		fmt.Sprintf("TSetIdx %s (XInt %d) (XVar %s)", q(id.Name), fi, q(t))})
}

func zeroFor(typ string) string {
	switch typ {
	case "int":
		return "XInt 0"
	case "float64":
		return "XFLit 0 (0)"
	case "bool":
		return "XBool false"
	}
	return "XNilAny"
}

// zero value of a declared type: int-based named types are 0, a struct VALUE is the list of its fields' zero values
func (c *ctr) zeroOfType(tt string) string {
	if c.p.intTypes[tt] {
		return "XInt 0"
	}
	if fs, ok := c.p.structs[tt]; ok {
		var vals []string
		for _, fl := range fs {
			vals = append(vals, c.zeroOfType(fl.typ))
		}
		return listOf(vals)
	}
	return zeroFor(tt)
}

// panic(..): an expression that has no value (index 0 of the empty list)
const explicitPanic = "TDef \"$panic\" (XIdx XNilSlice (XInt 0))"

func listOf(es []string) string {
	if len(es) == 0 {
		return "XNilSlice"
	}
	return "XAppend XNilSlice [" + strings.Join(es, "; ") + "]"
}

var floatMethods = map[string]bool{"Sum": true, "Max": true, "Min": true, "Avg": true, "Var": true, "Std": true, "Mean": true}

func (c *ctr) isFloat(e ast.Expr) bool {
	switch v := e.(type) {
	case *ast.BasicLit:
		return v.Kind == token.FLOAT
	case *ast.Ident:
		if c.floatVars[v.Name] {
			return true
		}
		if ce, ok := c.p.consts[v.Name]; ok {
			return c.isFloat(ce)
		}
	case *ast.ParenExpr:
		return c.isFloat(v.X)
	case *ast.UnaryExpr:
		if v.Op == token.SUB || v.Op == token.ADD {
			return c.isFloat(v.X)
		}
	case *ast.BinaryExpr:
		switch v.Op {
		case token.ADD, token.SUB, token.MUL, token.QUO:
			return c.isFloat(v.X) || c.isFloat(v.Y)
		}
	case *ast.SelectorExpr:
		if id, ok := v.X.(*ast.Ident); ok {
			if id.Name == c.recv && c.recvType != "" {
				_, tt := c.fieldIndex(c.recvType, v.Sel.Name)
				return tt == "float64" || c.floatCoded[c.recvType+"."+v.Sel.Name]
			}
			if st, ok := c.structVars[id.Name]; ok {
				_, tt := c.fieldIndex(st, v.Sel.Name)
				return tt == "float64"
			}
		}
	case *ast.CallExpr:
		switch f := v.Fun.(type) {
		case *ast.Ident:
			return f.Name == "float64" || (f.Name == "int" && len(v.Args) == 1 && c.isFloat(v.Args[0]))
		case *ast.SelectorExpr:
			if id, ok := f.X.(*ast.Ident); ok && id.Name == "math" {
				return true
			}
			return floatMethods[f.Sel.Name]
		}
	}
	return false
}

// the oracle call for a call expression; returns nothing, appends to pre
func (c *ctr) emitCall(call *ast.CallExpr, def bool, targets []string) {
	if c.inCond > 0 {
		c.fail("call under && / ||: " + nodeText(call))
	}
	var name string
	var args []string
	switch f := call.Fun.(type) {
	case *ast.Ident:
		name = f.Name
	case *ast.SelectorExpr:
		if id, ok := f.X.(*ast.Ident); ok && id.Name == c.recv && c.recvType != "" {
			if _, ok := c.p.results[c.recvType+"."+f.Sel.Name]; ok {
				name = c.recvType + "." + f.Sel.Name
				for _, fl := range c.p.structs[c.recvType] {
					args = append(args, "XVar "+q(c.recv+"."+fl.name))
				}
				break
			}
		}
		if id, ok := f.X.(*ast.Ident); ok && id.Name == c.recv && c.recvType != "" {
			// a call of a function-typed FIELD of the receiver (c.SeedFunc()): the oracle applies the field's value
			for _, fl := range c.p.structs[c.recvType] {
				if fl.name == f.Sel.Name {
					name = "call"
					args = append(args, "XVar "+q(c.recv+"."+fl.name))
				}
			}
			if name != "" {
				break
			}
		}
		if id, ok := f.X.(*ast.Ident); ok && (id.Name == "tensor" || id.Name == "initializers" || id.Name == "cputensor" || id.Name == "gradtrack") {
			name = id.Name + "." + f.Sel.Name
			break
		}
		name = f.Sel.Name
		args = append(args, c.cx(f.X))
	default:
		c.fail("call: " + nodeText(call))
	}
	for _, a := range call.Args {
		args = append(args, c.cx(a))
	}
	d := "false"
	if def {
		d = "true"
	}
	var qs []string
	for _, t := range targets {
		qs = append(qs, q(t))
	}
	c.pre = append(c.pre, fmt.Sprintf("TExt %s [%s] %s [%s]", d, strings.Join(qs, "; "), q(name), strings.Join(args, "; ")))
}

func (c *ctr) calleeResults(call *ast.CallExpr) []string {
	switch f := call.Fun.(type) {
	case *ast.Ident:
		return c.p.results[f.Name]
	case *ast.SelectorExpr:
		if id, ok := f.X.(*ast.Ident); ok && id.Name == c.recv && c.recvType != "" {
			return c.p.results[c.recvType+"."+f.Sel.Name]
		}
	}
	return nil
}

func (c *ctr) structLit(v *ast.CompositeLit) string {
	st := typeText(v.Type)
	fs, ok := c.p.structs[st]
	if !ok {
		c.fail("composite literal: " + nodeText(v))
	}
	vals := make([]string, len(fs))
	for i, fl := range fs {
		vals[i] = c.zeroOfType(fl.typ)
	}
	for _, el := range v.Elts {
		kv, ok := el.(*ast.KeyValueExpr)
		if !ok {
			c.fail("composite literal: " + nodeText(v))
		}
		i, tt := c.fieldIndex(st, nodeText(kv.Key))
		vals[i] = c.cxAs(kv.Value, tt == "float64")
	}
	return listOf(vals)
}

// translate e; wantFloat turns an untyped integer constant into a float literal
func (c *ctr) cxAs(e ast.Expr, wantFloat bool) string {
	if wantFloat && !c.isFloat(e) {
		switch v := e.(type) {
		case *ast.BasicLit:
			if v.Kind == token.INT {
				return "XFLit " + v.Value + " (0)"
			}
		case *ast.Ident:
			if ce, ok := c.p.consts[v.Name]; ok {
				return c.cxAs(ce, true)
			}
		case *ast.ParenExpr:
			return c.cxAs(v.X, true)
		case *ast.UnaryExpr:
			if v.Op == token.SUB {
				return "XFBin FSub (XFLit 0 (0)) (" + c.cxAs(v.X, true) + ")"
			}
		}
	}
	return c.cx(e)
}

func (c *ctr) cx(e ast.Expr) string {
	switch v := e.(type) {
	case *ast.BasicLit:
		if v.Kind == token.INT {
			return "XInt " + v.Value
		}
		if v.Kind == token.FLOAT {
			if s, ok := floatLit(v.Value); ok {
				return s
			}
		}
	case *ast.Ident:
		switch v.Name {
		case "nil":
			return "XNilAny"
		case "true":
			return "XBool true"
		case "false":
			return "XBool false"
		case "_":
			c.fail("blank identifier")
		}
		if ce, ok := c.p.consts[v.Name]; ok {
			return c.cx(ce)
		}
		return "XVar " + q(v.Name)
	case *ast.ParenExpr:
		return c.cx(v.X)
	case *ast.SelectorExpr:
		if id, ok := v.X.(*ast.Ident); ok {
			if ce, ok := c.p.consts[id.Name+"."+v.Sel.Name]; ok {
				return c.cx(ce)
			}
			if id.Name == c.recv && c.recvType != "" {
				c.fieldIndex(c.recvType, v.Sel.Name)
				return "XVar " + q(c.recv+"."+v.Sel.Name)
			}
			if st, ok := c.structVars[id.Name]; ok {
				i, _ := c.fieldIndex(st, v.Sel.Name)
				return fmt.Sprintf("XIdx (XVar %s) (XInt %d)", q(id.Name), i)
			}
		}
	case *ast.StarExpr:
		if id, ok := v.X.(*ast.Ident); ok {
			if _, ok := c.structVars[id.Name]; ok {
				return "XAssertL (XVar " + q(id.Name) + ")"
			}
			return "XIdx (XVar " + q(id.Name) + ") (XInt 0)"
		}
	case *ast.UnaryExpr:
		switch v.Op {
		case token.NOT:
			return "XNot (" + c.cx(v.X) + ")"
		case token.SUB:
			if bl, ok := v.X.(*ast.BasicLit); ok && bl.Kind == token.FLOAT {
				// a negated literal is a constant: -0.05 is the literal (-5) * 10^-2
				if s, ok := floatLit(bl.Value); ok {
					parts := strings.SplitN(strings.TrimPrefix(s, "XFLit "), " ", 2)
					return "XFLit (-" + parts[0] + ") " + parts[1]
				}
			}
			if c.isFloat(v.X) {
				return "XFBin FSub (XFLit 0 (0)) (" + c.cx(v.X) + ")"
			}
			if bl, ok := v.X.(*ast.BasicLit); ok && bl.Kind == token.INT {
				return "XInt (-" + bl.Value + ")"
			}
			return "XBin GoIR.OSub (XInt 0) (" + c.cx(v.X) + ")"
		case token.AND:
			if cl, ok := v.X.(*ast.CompositeLit); ok {
				return c.structLit(cl)
			}
		}
	case *ast.CompositeLit:
		if _, ok := c.p.structs[typeText(v.Type)]; ok {
			return c.structLit(v)
		}
		if typeText(v.Type) == "[]int" {
			var es []string
			for _, el := range v.Elts {
				es = append(es, c.cx(el))
			}
			return listOf(es)
		}
	case *ast.IndexExpr:
		if m, ok := c.mapField(v.X); ok {
			if c.inCond > 0 {
				c.fail("map read under && / ||")
			}
			t := c.tmp()
			c.mapRead(m, c.mapKey(v.Index), t, t+"ok")
			return "XVar " + q(t)
		}
		return "XIdx (" + c.cx(v.X) + ") (" + c.cx(v.Index) + ")"
	case *ast.BinaryExpr:
		if v.Op == token.LAND || v.Op == token.LOR {
			x := c.cx(v.X)
			c.inCond++
			y := c.cx(v.Y)
			c.inCond--
			if v.Op == token.LAND {
				return "XAnd (" + x + ") (" + y + ")"
			}
			return "XOr (" + x + ") (" + y + ")"
		}
		if (v.Op == token.EQL || v.Op == token.NEQ) && (isNil(v.X) || isNil(v.Y)) {
			other := v.X
			if isNil(v.X) {
				other = v.Y
			}
			var s string
			if id, ok := other.(*ast.Ident); ok && id.Name == "err" {
				s = "XBin GoIR.OEq (XVar \"err\") (XInt 0)"
			} else {
				s = "XIsNil (" + c.cx(other) + ")"
			}
			if v.Op == token.NEQ {
				return "XNot (" + s + ")"
			}
			return s
		}
		if c.isFloat(v.X) || c.isFloat(v.Y) {
			if op := map[token.Token]string{token.ADD: "FAdd", token.SUB: "FSub", token.MUL: "FMul", token.QUO: "FDiv"}[v.Op]; op != "" {
				return "XFBin " + op + " (" + c.cxAs(v.X, true) + ") (" + c.cxAs(v.Y, true) + ")"
			}
			if op := map[token.Token]string{token.LSS: "f<", token.GTR: "f>", token.LEQ: "f<=", token.GEQ: "f>="}[v.Op]; op != "" {
				if c.inCond > 0 {
					c.fail("float comparison under && / ||: " + nodeText(v))
				}
				x, y := c.cxAs(v.X, true), c.cxAs(v.Y, true)
				t := c.tmp()
				c.pre = append(c.pre, fmt.Sprintf("TExt true [%s] %s [%s; %s]", q(t), q(op), x, y))
				return "XVar " + q(t)
			}
			break
		}
		if o := binop(v.Op); o != "" {
			return "XBin GoIR." + o + " (" + c.cx(v.X) + ") (" + c.cx(v.Y) + ")"
		}
	case *ast.CallExpr:
		switch f := v.Fun.(type) {
		case *ast.Ident:
			switch f.Name {
			case "len":
				return "XLen (" + c.cx(v.Args[0]) + ")"
			case "make":
				if strings.HasPrefix(typeText(v.Args[0]), "map[string]") && len(v.Args) == 1 {
					slots := make([]string, len(c.p.mapKeys))
					for i := range slots {
						slots[i] = "XNilAny"
					}
					return listOf(slots)
				}
			case "new":
				fs, ok := c.p.structs[typeText(v.Args[0])]
				if !ok {
					c.fail("new: " + nodeText(v))
				}
				var vals []string
				for _, fl := range fs {
					if c.floatCoded[typeText(v.Args[0])+"."+fl.name] {
						vals = append(vals, "XFLit 0 (0)")
					} else {
						vals = append(vals, zeroFor(fl.typ))
					}
				}
				return listOf(vals)
			case "float64":
				if c.isFloat(v.Args[0]) {
					return c.cx(v.Args[0])
				}
				if c.inCond > 0 {
					c.fail("conversion under && / ||")
				}
				t := c.tmp()
				c.floatVars[t] = true
				c.pre = append(c.pre, fmt.Sprintf("TExt true [%s] \"float64\" [%s]", q(t), c.cx(v.Args[0])))
				return "XVar " + q(t)
			case "int":
				if c.isFloat(v.Args[0]) {
					return "XFApp \"int\" [" + c.cx(v.Args[0]) + "]"
				}
				return c.cx(v.Args[0])
			}
		case *ast.SelectorExpr:
			if id, ok := f.X.(*ast.Ident); ok {
				if id.Name == "fmt" && f.Sel.Name == "Errorf" {
					return "XInt 1"
				}
				if id.Name == "math" {
					var as []string
					for _, a := range v.Args {
						as = append(as, c.cxAs(a, true))
					}
					return "XFApp " + q("math."+f.Sel.Name) + " [" + strings.Join(as, "; ") + "]"
				}
			}
		}
		// any other call: an oracle call with one result
		t := c.tmp()
		if c.isFloat(v) {
			c.floatVars[t] = true
		}
		if rs := c.calleeResults(v); len(rs) == 1 {
			if st, ok := c.p.structOf(rs[0]); ok {
				c.structVars[t] = st
			}
		}
		c.emitCall(v, true, []string{t})
		return "XVar " + q(t)
	}
	c.fail("expression: " + nodeText(e))
	return ""
}

func (c *ctr) flush(main string) string {
	out := append([]string{}, c.pre...)
	c.pre = nil
	if main != "" {
		out = append(out, main)
	}
	return dseq(out)
}

func (c *ctr) target(e ast.Expr) string {
	switch v := e.(type) {
	case *ast.Ident:
		if v.Name == "_" {
			return "$_"
		}
		return v.Name
	case *ast.SelectorExpr:
		if id, ok := v.X.(*ast.Ident); ok && id.Name == c.recv && c.recvType != "" {
			c.fieldIndex(c.recvType, v.Sel.Name)
			return c.recv + "." + v.Sel.Name
		}
	}
	c.fail("assignment target: " + nodeText(e))
	return ""
}

func (c *ctr) noteType(name string, rhs ast.Expr) {
	if c.isFloat(rhs) {
		c.floatVars[name] = true
	}
	switch v := rhs.(type) {
	case *ast.CallExpr:
		if id, ok := v.Fun.(*ast.Ident); ok && id.Name == "new" {
			if _, ok := c.p.structs[typeText(v.Args[0])]; ok {
				c.structVars[name] = typeText(v.Args[0])
			}
		}
	case *ast.UnaryExpr:
		if cl, ok := v.X.(*ast.CompositeLit); ok && v.Op == token.AND {
			if _, ok := c.p.structs[typeText(cl.Type)]; ok {
				c.structVars[name] = typeText(cl.Type)
			}
		}
	}
}

func (c *ctr) block(b *ast.BlockStmt) string {
	var ss []string
	for _, s := range b.List {
		if x := c.stmt(s); x != "" {
			ss = append(ss, x)
		}
	}
	return dseq(ss)
}

func (c *ctr) assign1(lhs ast.Expr, rhs ast.Expr, define bool) string {
	kw := "TSet"
	if define {
		kw = "TDef"
	}
	switch l := lhs.(type) {
	case *ast.IndexExpr:
		if _, ok := c.mapField(l.X); ok {
			v := c.cx(rhs)
			return c.flush(c.mapWrite(l, v))
		}
	case *ast.StarExpr:
		if id, ok := l.X.(*ast.Ident); ok {
			if _, ok := c.structVars[id.Name]; ok {
				return c.flush("TSet " + q(id.Name) + " (" + c.cx(rhs) + ")")
			}
		}
		c.fail("assignment through a pointer: " + nodeText(lhs))
	case *ast.SelectorExpr:
		if id, ok := l.X.(*ast.Ident); ok {
			if st, ok := c.structVars[id.Name]; ok && !(id.Name == c.recv && c.recvType != "") {
				i, tt := c.fieldIndex(st, l.Sel.Name)
				return c.flush(fmt.Sprintf("TSetIdx %s (XInt %d) (%s)", q(id.Name), i, c.cxAs(rhs, tt == "float64")))
			}
		}
	}
	name := c.target(lhs)
	if call, ok := rhs.(*ast.CallExpr); ok && c.isOracleCall(call) {
		if rs := c.calleeResults(call); len(rs) == 1 {
			if st, ok := c.p.structOf(rs[0]); ok {
				c.structVars[name] = st
			}
		}
		if c.isFloat(call) {
			c.floatVars[name] = true
		}
		c.emitCall(call, define, []string{name})
		return c.flush("")
	}
	c.noteType(name, rhs)
	return c.flush(kw + " " + q(name) + " (" + c.cxAs(rhs, c.floatVars[name]) + ")")
}

func (c *ctr) isOracleCall(call *ast.CallExpr) bool {
	switch f := call.Fun.(type) {
	case *ast.Ident:
		switch f.Name {
		case "len", "new", "float64", "int", "make", "append":
			return false
		}
		return true
	case *ast.SelectorExpr:
		if id, ok := f.X.(*ast.Ident); ok && (id.Name == "fmt" || id.Name == "math") {
			return false
		}
		return true
	}
	return false
}

func (c *ctr) stmt(s ast.Stmt) (res string) {
	defer func() {
		if r := recover(); r != nil {
			if u, ok := r.(unsupported); ok {
				c.pre = nil
				res = "TUnsupported " + q(u.why)
				return
			}
			panic(r)
		}
	}()
	switch v := s.(type) {
	case *ast.EmptyStmt:
		return "TSkip"
	case *ast.BlockStmt:
		return c.block(v)
	case *ast.DeclStmt:
		gd, ok := v.Decl.(*ast.GenDecl)
		if !ok || gd.Tok != token.VAR {
			c.fail("declaration: " + nodeText(s))
		}
		var out []string
		for _, sp := range gd.Specs {
			vs := sp.(*ast.ValueSpec)
			if len(vs.Values) == 0 && vs.Type != nil {
				for _, n := range vs.Names {
					out = append(out, "TDef "+q(n.Name)+" ("+c.zeroOfType(typeText(vs.Type))+")")
				}
				continue
			}
			if len(vs.Values) != len(vs.Names) {
				c.fail("declaration: " + nodeText(s))
			}
			for i, n := range vs.Names {
				out = append(out, c.assign1(n, vs.Values[i], true))
			}
		}
		return dseq(out)
	case *ast.AssignStmt:
		switch v.Tok {
		case token.ADD_ASSIGN, token.SUB_ASSIGN:
			if len(v.Lhs) == 1 && len(v.Rhs) == 1 {
				name := c.target(v.Lhs[0])
				if c.isFloat(v.Lhs[0]) || c.isFloat(v.Rhs[0]) {
					op := map[token.Token]string{token.ADD_ASSIGN: "FAdd", token.SUB_ASSIGN: "FSub"}[v.Tok]
					r := c.cxAs(v.Rhs[0], true)
					return c.flush("TSet " + q(name) + " (XFBin " + op + " (XVar " + q(name) + ") (" + r + "))")
				}
				op := map[token.Token]string{token.ADD_ASSIGN: "OAdd", token.SUB_ASSIGN: "OSub"}[v.Tok]
				r := c.cx(v.Rhs[0])
				return c.flush("TSet " + q(name) + " (XBin GoIR." + op + " (XVar " + q(name) + ") (" + r + "))")
			}
		case token.ASSIGN, token.DEFINE:
			if len(v.Rhs) == 1 && len(v.Lhs) > 1 {
				call, ok := v.Rhs[0].(*ast.CallExpr)
				if !ok || !c.isOracleCall(call) {
					c.fail("assignment: " + nodeText(s))
				}
				var ts []string
				var post []string
				rs := c.calleeResults(call)
				for i, l := range v.Lhs {
					if st, ok := l.(*ast.StarExpr); ok {
						// *p, err = f(..) for a pointer to an interface value (p is nil or a one-element list)
						id, isId := st.X.(*ast.Ident)
						if _, isStruct := c.structVars[nodeText(st.X)]; !isId || isStruct {
							c.fail("assignment through a pointer: " + nodeText(l))
						}
						t := c.tmp()
						ts = append(ts, t)
						post = append(post, fmt.Sprintf("TSetIdx %s (XInt 0) (XVar %s)", q(id.Name), q(t)))
						continue
					}
					if ix, ok := l.(*ast.IndexExpr); ok {
						if _, ok := c.mapField(ix.X); ok {
							t := c.tmp()
							ts = append(ts, t)
							post = append(post, c.mapWrite(ix, "XVar "+q(t)))
							continue
						}
					}
					n := c.target(l)
					ts = append(ts, n)
					if i < len(rs) {
						if st, ok := c.p.structOf(rs[i]); ok {
							c.structVars[n] = st
						}
					}
				}
				c.emitCall(call, v.Tok == token.DEFINE || len(post) > 0, ts)
				if len(post) == 0 {
					return c.flush("")
				}
				return c.flush(dseq(post))
			}
			if len(v.Lhs) == len(v.Rhs) {
				var out []string
				for i := range v.Lhs {
					out = append(out, c.assign1(v.Lhs[i], v.Rhs[i], v.Tok == token.DEFINE))
				}
				return dseq(out)
			}
		}
		c.fail("assignment: " + nodeText(s))
	case *ast.IfStmt:
		if v.Init != nil {
			as, ok := v.Init.(*ast.AssignStmt)
			okForm := ok && as.Tok == token.DEFINE && len(as.Lhs) == 2 && len(as.Rhs) == 1
			var ix *ast.IndexExpr
			if okForm {
				ix, okForm = as.Rhs[0].(*ast.IndexExpr)
			}
			if !okForm {
				c.fail("if with init: " + nodeText(v.Init))
			}
			m, isMap := c.mapField(ix.X)
			if !isMap {
				c.fail("if with init: " + nodeText(v.Init))
			}
			c.mapRead(m, c.mapKey(ix.Index), c.target(as.Lhs[0]), c.target(as.Lhs[1]))
		}
		cond := c.cx(v.Cond)
		pre := c.pre
		c.pre = nil
		els := "TSkip"
		if v.Else != nil {
			els = c.stmt(v.Else)
		}
		body := "TIf (" + cond + ")\n      (" + c.block(v.Body) + ")\n      (" + els + ")"
		return dseq(append(pre, body))
	case *ast.ExprStmt:
		if call, ok := v.X.(*ast.CallExpr); ok && nodeText(call.Fun) == "panic" {
			return explicitPanic
		}
		c.fail("statement: " + nodeText(s))
	case *ast.SwitchStmt:
		// switch tag { case K: ...; default: ... }  (no fallthrough): a chain of comparisons in source order
		if v.Init != nil || v.Tag == nil {
			c.fail("switch: " + nodeText(s))
		}
		tag := c.cx(v.Tag)
		pre := c.pre
		c.pre = nil
		deflt := "TSkip"
		type arm struct{ cond, body string }
		var arms []arm
		for _, cl := range v.Body.List {
			cc := cl.(*ast.CaseClause)
			body := c.block(&ast.BlockStmt{List: cc.Body})
			if cc.List == nil {
				deflt = body
				continue
			}
			var conds []string
			for _, e := range cc.List {
				conds = append(conds, "XBin GoIR.OEq ("+tag+") ("+c.cx(e)+")")
			}
			cond := conds[0]
			for _, x := range conds[1:] {
				cond = "XOr (" + cond + ") (" + x + ")"
			}
			arms = append(arms, arm{cond, body})
		}
		out := deflt
		for i := len(arms) - 1; i >= 0; i-- {
			out = "TIf (" + arms[i].cond + ")\n      (" + arms[i].body + ")\n      (" + out + ")"
		}
		return dseq(append(pre, out))
	case *ast.TypeSwitchStmt:
		// switch x.(type) { case *cputensor.CPUTensor: ..; case nil: ..; default: .. }: the oracle call "typeof"
		// classifies the interface value (0 = *cputensor.CPUTensor, 1 = nil, 2 = anything else)
		es, ok := v.Assign.(*ast.ExprStmt)
		if !ok || v.Init != nil {
			c.fail("type switch: " + nodeText(s))
		}
		ta, ok := es.X.(*ast.TypeAssertExpr)
		if !ok {
			c.fail("type switch: " + nodeText(s))
		}
		subj := c.cx(ta.X)
		t := c.tmp()
		c.pre = append(c.pre, fmt.Sprintf("TExt true [%s] \"typeof\" [%s]", q(t), subj))
		pre := c.pre
		c.pre = nil
		deflt := "TSkip"
		type arm struct{ cond, body string }
		var arms []arm
		for _, cl := range v.Body.List {
			cc := cl.(*ast.CaseClause)
			body := c.block(&ast.BlockStmt{List: cc.Body})
			if cc.List == nil {
				deflt = body
				continue
			}
			if len(cc.List) != 1 {
				c.fail("type switch case: " + nodeText(cc))
			}
			var code int
			switch nodeText(cc.List[0]) {
			case "*cputensor.CPUTensor":
				code = 0
			case "nil":
				code = 1
			default:
				c.fail("type switch case: " + nodeText(cc.List[0]))
			}
			arms = append(arms, arm{fmt.Sprintf("XBin GoIR.OEq (XVar %s) (XInt %d)", q(t), code), body})
		}
		out := deflt
		for i := len(arms) - 1; i >= 0; i-- {
			out = "TIf (" + arms[i].cond + ")\n      (" + arms[i].body + ")\n      (" + out + ")"
		}
		return dseq(append(pre, out))
	case *ast.RangeStmt:
		k, x := "_", "_"
		if v.Key != nil {
			k = nodeText(v.Key)
		}
		if v.Value != nil {
			x = nodeText(v.Value)
		}
		rng := c.cx(v.X)
		pre := c.pre
		c.pre = nil
		return dseq(append(pre, "TRange "+q(k)+" "+q(x)+" ("+rng+")\n      ("+c.block(v.Body)+")"))
	case *ast.ReturnStmt:
		if len(v.Results) == 0 {
			var rs []string
			for _, r := range c.results {
				rs = append(rs, "XVar "+q(r.name))
			}
			return "TRet [" + strings.Join(rs, "; ") + "]"
		}
		if len(v.Results) == 1 && len(c.results) > 1 {
			call, ok := v.Results[0].(*ast.CallExpr)
			if !ok {
				c.fail("return: " + nodeText(s))
			}
			var ts, rs []string
			for i := range c.results {
				t := fmt.Sprintf("$r%d", i)
				ts = append(ts, t)
				rs = append(rs, "XVar "+q(t))
			}
			c.emitCall(call, true, ts)
			return c.flush("TRet [" + strings.Join(rs, "; ") + "]")
		}
		var rs []string
		for i, r := range v.Results {
			if isNil(r) && i < len(c.results) && c.results[i].typ == "error" {
				rs = append(rs, "XInt 0")
				continue
			}
			wantF := i < len(c.results) && c.results[i].typ == "float64"
			rs = append(rs, c.cxAs(r, wantF))
		}
		return c.flush("TRet [" + strings.Join(rs, "; ") + "]")
	}
	c.fail("statement: " + nodeText(s))
	return ""
}

type ctarget struct{ coq, dir, recv, fn string }

func compTargets() []ctarget {
	var ts []ctarget
	add := func(prefix, dir, recv string, fns ...string) {
		for _, fn := range fns {
			ts = append(ts, ctarget{"c_" + prefix + "_" + fn, dir, recv, fn})
		}
	}
	add("Accuracy", "component/metrics", "", "NewAccuracy")
	add("Accuracy", "component/metrics", "Accuracy", "Accumulate", "Result", "validateInputs")
	add("MSE", "component/losses", "MSE", "validateInputs")
	add("BCE", "component/losses", "BCE", "validateInputs")
	add("CE", "component/losses", "CE", "validateInputs")
	add("SGD", "component/optimizers", "", "NewSGD", "toValidSGDConfig")
	add("SGD", "component/optimizers", "SGD", "toValidInputs", "Update")
	add("FC", "component/layers", "FC", "Forward", "toValidInputs")
	add("FC", "component/layers", "", "validateInitializedWeights", "NewFC", "toValidFCConfig")
	add("Input", "component/layers", "", "NewInput")
	add("Input", "component/layers", "Input", "Forward", "validateInputs")
	add("tensor", "tensor", "", "Full", "Zeros", "Ones", "Eye", "RandU", "RandN", "TensorOf", "Concat", "BackPropagate",
		"prepareConfig", "validateConfig", "validateTensorDevice", "validateTensorsDeviceUnity")
	for _, a := range []string{"Relu", "LeakyRelu", "Sigmoid", "Tanh", "Softmax"} {
		add(a, "component/layers/activations", a, "Forward", "toValidInputs")
	}
	add("LeakyRelu", "component/layers/activations", "", "NewLeakyRelu", "toValidLeakyReluConfig")
	add("Softmax", "component/layers/activations", "", "NewSoftmax", "toValidSoftmaxConfig")
	add("initializers", "component/initializers", "", "tensorInitConf")
	for _, a := range []string{"Full", "Uniform", "Normal", "HeUniform", "HeNormal", "XavierUniform", "XavierNormal"} {
		add(a, "component/initializers", "", "New"+a, "toValid"+a+"Config")
		add(a, "component/initializers", a, "Init")
	}
	return ts
}

func emitComp(repo, outV string) error {
	var sb strings.Builder
	sb.WriteString("(* GENERATED by harness/gox from /repo's Go sources on every run — do not edit.\n   The component layer's own logic (input and config validators, constructors, initializer scale formulas, the\n   Accuracy counters) as DataIR programs; calls of tensor methods and of other functions go through the oracle\n   Model/CompExt.v.  See harness/gox/comp.go for the representation. *)\n")
	sb.WriteString("From Coq Require Import String List ZArith.\nFrom Qeep Require Model.GoIR.\nFrom Qeep Require Import Model.DataIR.\nImport ListNotations.\nLocal Open Scope string_scope.\nLocal Open Scope Z_scope.\n\n")
	pkgs := map[string]*cpkg{}
	for _, tg := range compTargets() {
		p := pkgs[tg.dir]
		if p == nil {
			p = loadPkg(repo, tg.dir)
			if tg.dir == "component/initializers" {
				// &tensor.Config{Device: tensor.CPU, ..}: the struct and the constants of package tensor, qualified
				tp := loadPkg(repo, "tensor")
				for name, fs := range tp.structs {
					p.structs["tensor."+name] = fs
				}
				for name, e := range tp.consts {
					p.consts["tensor."+name] = e
				}
				for name := range tp.intTypes {
					p.intTypes[name] = true
				}
			}
			if tg.dir == "component/layers" {
				// struct literals of the initializers package (&initializers.XavierUniformConfig{..})
				for name, fs := range loadPkg(repo, "component/initializers").structs {
					p.structs["initializers."+name] = fs
				}
			}
			pkgs[tg.dir] = p
		}
		var fd *ast.FuncDecl
		for _, f := range p.files {
			if d := findFunc(f, tg.recv, tg.fn); d != nil {
				fd = d
			}
		}
		if fd == nil || fd.Body == nil {
			fmt.Fprintf(&sb, "Definition %s : dprog := mkProg (mkD [] (TUnsupported %s)) [].\n\n", tg.coq, q("MISSING: function not found"))
			continue
		}
		// Go ints that receive int(<float>) are carried as floats
		fc := map[string]bool{}
		for _, f := range p.files {
			ast.Inspect(f, func(n ast.Node) bool {
				as, ok := n.(*ast.AssignStmt)
				if !ok || len(as.Lhs) != 1 || len(as.Rhs) != 1 {
					return true
				}
				sel, ok := as.Lhs[0].(*ast.SelectorExpr)
				if !ok {
					return true
				}
				if call, ok := as.Rhs[0].(*ast.CallExpr); ok && nodeText(call.Fun) == "int" {
					for st, fs := range p.structs {
						for _, fl := range fs {
							if fl.name == sel.Sel.Name && fl.typ == "int" {
								fc[st+"."+fl.name] = true
							}
						}
					}
				}
				return true
			})
		}
		c := &ctr{p: p, floatVars: map[string]bool{}, structVars: map[string]string{}, floatCoded: fc}
		var params []string
		if fd.Recv != nil && len(fd.Recv.List) == 1 && len(fd.Recv.List[0].Names) == 1 {
			c.recv = fd.Recv.List[0].Names[0].Name
			c.recvType = strings.TrimPrefix(typeText(fd.Recv.List[0].Type), "*")
			for _, fl := range p.structs[c.recvType] {
				params = append(params, fmt.Sprintf("(%s, true)", q(c.recv+"."+fl.name)))
				if fl.typ == "float64" || fc[c.recvType+"."+fl.name] {
					c.floatVars[c.recv+"."+fl.name] = true
				}
			}
		}
		for _, fl := range fd.Type.Params.List {
			tt := typeText(fl.Type)
			for _, n := range fl.Names {
				params = append(params, fmt.Sprintf("(%s, false)", q(n.Name)))
				if tt == "float64" {
					c.floatVars[n.Name] = true
				}
				if st, ok := p.structOf(tt); ok {
					c.structVars[n.Name] = st
				}
			}
		}
		var ss []string
		if fd.Type.Results != nil {
			for _, fl := range fd.Type.Results.List {
				tt := typeText(fl.Type)
				for _, n := range fl.Names {
					c.results = append(c.results, resv{n.Name, tt})
					if tt == "float64" {
						c.floatVars[n.Name] = true
					}
					if st, ok := p.structOf(tt); ok {
						c.structVars[n.Name] = st
					}
					z := c.zeroOfType(tt)
					if tt == "error" {
						z = "XInt 0"
					}
					// a named result that is also a parameter name cannot occur in Go
					ss = append(ss, "TDef "+q(n.Name)+" ("+z+")")
				}
			}
		}
		for _, s := range fd.Body.List {
			if x := c.stmt(s); x != "" {
				ss = append(ss, x)
			}
		}
		fmt.Fprintf(&sb, "(* %s: %s%s *)\nDefinition %s : dprog := mkProg\n  (mkD [%s]\n    (%s))\n  [].\n\n",
			tg.dir, func() string {
				if tg.recv != "" {
					return tg.recv + "."
				}
				return ""
			}(), tg.fn, tg.coq, strings.Join(params, "; "), dseq(ss))
	}
	old, _ := os.ReadFile(outV)
	if string(old) != sb.String() {
		return os.WriteFile(outV, []byte(sb.String()), 0o644)
	}
	return nil
}
