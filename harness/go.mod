module qeepverif

go 1.22

require (
	github.com/sahandsafizadeh/qeep v0.0.0
	golang.org/x/exp v0.0.0-20231110203233-9a3e6036ecaa
)

require gonum.org/v1/gonum v0.15.1 // indirect

replace github.com/sahandsafizadeh/qeep => /repo
