(* main.ml — glue around the extracted model: one scenario per input line (space separated
   integers), one output line per command observable, a line "." after each scenario.
   No logic: integer <-> extracted Z conversion only. *)
open Model

let rec pos_of_int (n : int) : positive =
  if n = 1 then XH
  else if n land 1 = 0 then XO (pos_of_int (n lsr 1))
  else XI (pos_of_int (n lsr 1))

let z_of_int (n : int) : z =
  if n = 0 then Z0 else if n > 0 then Zpos (pos_of_int n) else Zneg (pos_of_int (-n))

let rec int_of_pos (p : positive) : int =
  match p with XH -> 1 | XO q -> 2 * int_of_pos q | XI q -> 2 * int_of_pos q + 1

let int_of_z (x : z) : int =
  match x with Z0 -> 0 | Zpos p -> int_of_pos p | Zneg p -> - (int_of_pos p)

let () =
  let buf = Buffer.create 65536 in
  (try
     while true do
       let line = input_line stdin in
       let toks = List.filter (fun s -> s <> "") (String.split_on_char ' ' (String.trim line)) in
       if toks <> [] then begin
         let zs = List.map (fun s -> z_of_int (int_of_string s)) toks in
         let out = run_encoded zs in
         List.iter (fun obs ->
             List.iter (fun x -> Buffer.add_string buf (string_of_int (int_of_z x)); Buffer.add_char buf ' ') obs;
             Buffer.add_char buf '\n') out;
         Buffer.add_string buf ".\n";
         if Buffer.length buf > 60000 then (print_string (Buffer.contents buf); Buffer.clear buf)
       end
     done
   with End_of_file -> ());
  print_string (Buffer.contents buf)
