(* ConstsP.v — side conditions on the constants read from /repo's sources (Model/Consts.v is
   regenerated on every run).  Decided by computation on the decimal literals. *)
From Coq Require Import ZArith Bool.
From Qeep Require Import Model.Components Model.Consts.

Definition dec_le (a b : dec) : bool := negb (dec_lt b a).

(* the tie test of the ElMax/ElMin back edges uses the library's absolute equality threshold: the
   properties' guards (and the recorded finding D10) are stated for 1e-240, far below the spacing
   of doubles at the losses' clipping bounds (2^-92 at 1e-12) *)
Lemma threshold_at_most_1e_240 : dec_le c_eq_threshold (1, -240)%Z = true.
Proof. vm_compute. reflexivity. Qed.
Lemma threshold_nonnegative : dec_le (0, 0)%Z c_eq_threshold = true.
Proof. vm_compute. reflexivity. Qed.

(* hypotheses of the loss-gradient formulas: 0 < eps < 1 - eps < 1, thr < eps, (1 - eps) + thr < 1 *)
Lemma loss_constants_ordered :
  dec_lt (0, 0)%Z c_epsilon && dec_lt c_epsilon c_one_minus_epsilon && dec_lt c_one_minus_epsilon (1, 0)%Z
  && dec_lt c_eq_threshold c_epsilon = true.
Proof. vm_compute. reflexivity. Qed.
Lemma epsilon_is_1e_12 : c_epsilon = (1, -12)%Z /\ c_one_minus_epsilon = (999999999999, -12)%Z.
Proof. split; reflexivity. Qed.
