(* HeapCtorP.v — the gradient-context constructors of tensor/internal/gradtrack/gradients.go, as translated by
   harness/gox into the DataIR programs GoGrad.c_<Name> and run over the model's heap with the oracle
   [hext rd] (Model/HeapExt.v), return the context the model computes: [encCtx (Grad.mkCtx h operands edges)], for any
   rule payloads [edges] whose targets are the operands, in order.  All constructors of GoGrad.ctor_table except
   c_Concat (which has a loop; proved elsewhere): 33 programs.

   Structure: ONE generic lemma [ctor_generic] about the common three-way body [ctorBody ops] over an ABSTRACT
   environment (each generated body is convertible to [ctorBody [..]]), the tactic [ctor_tac], one theorem per
   constructor stated with [ctor_spec], and the summaries [ctor_table_names] / [ctor_table_ok]. *)
From Coq Require Import String List ZArith Bool Lia Arith.
From Qeep Require Import Model.Scalar Model.Nd Model.Fill Model.Data Model.Valid Model.Api Model.Grad Model.Backprop
     Model.DataIR Model.HeapExt Model.GoGrad Proofs.DataIRP.
From Qeep Require Model.GoIR.
Import ListNotations.
Local Open Scope string_scope.
Local Open Scope Z_scope.
Local Open Scope list_scope.

(* ---------- the common shape of the generated constructor bodies ---------- *)

(* [target_k, closure k] for the operands, in order *)
Fixpoint edgeX (k : Z) (ops : list string) : list dexpr :=
  match ops with
  | [] => []
  | x :: r => XAppend XNilSlice [XVar x; XInt k] :: edgeX (k + 1) r
  end.

Definition ctorBody (ops : list string) : dstmt :=
  tseq [TDef "gctx" XNilAny;
        tseq [TExt true ["$1"] "anyIsBPDirty" [XAppend XNilSlice (map XVar ops)];
              TIf (XVar "$1") (TRet [XAppend XNilSlice [XBool false; XBool true; XNilSlice]]) TSkip];
        tseq [TExt true ["$2"] "nonIsTracked" [XAppend XNilSlice (map XVar ops)];
              TIf (XVar "$2") (TRet [XAppend XNilSlice [XBool false; XBool false; XNilSlice]]) TSkip];
        TRet [XAppend XNilSlice [XBool true; XBool false; XAppend XNilSlice (edgeX 0 ops)]]].

Definition fresh_ops (ops : list string) : bool :=
  forallb (fun x => negb (x =? "gctx") && negb (x =? "$1") && negb (x =? "$2"))%string ops.

Section Ctor.
Context {A : Type} {SA : Scalar A}.
Variable fapp : string -> list A -> option A.
Variable rd : bred.
Notation dval := (@dval A).
Notation denv := (@denv A).
Notation heap := (@heap A).
Notation rule := (@rule A).
Notation cres := (@cres A).

(* a graph node as a DataIR value *)
Definition dnode (n : nat) : dval := DI (Z.of_nat n).

(* ---------- the oracle on lists of nodes ---------- *)

Lemma nodeId_dnode (h : heap) n : (n < length h)%nat -> nodeId h (dnode n) = Some n.
Proof.
  intros H. unfold nodeId, dnode. rewrite Nat2Z.id.
  destruct (0 <=? Z.of_nat n) eqn:E; [| apply Z.leb_gt in E; lia].
  apply Nat.ltb_lt in H. rewrite H. reflexivity.
Qed.

Lemma mapM_nodeId (h : heap) ns :
  Forall (fun n => (n < length h)%nat) ns -> mapM (nodeId h) (map dnode ns) = Some ns.
Proof.
  induction 1 as [|n ns Hn _ IH]; cbn [map mapM]; [reflexivity|].
  rewrite nodeId_dnode by exact Hn. cbn [obind]. rewrite IH. reflexivity.
Qed.

Lemma hext_anyIsBPDirty (h : heap) ns :
  Forall (fun n => (n < length h)%nat) ns ->
  hext rd "anyIsBPDirty" [DL (map dnode ns)] h = Some ([DB (existsb (dirtyOf h) ns)], h).
Proof.
  intros H. change (hext rd "anyIsBPDirty" [DL (map dnode ns)] h)
    with (do ms <- mapM (nodeId h) (map dnode ns); Some ([@DB A (existsb (dirtyOf h) ms)], h)).
  rewrite mapM_nodeId by exact H. reflexivity.
Qed.

Lemma hext_nonIsTracked (h : heap) ns :
  Forall (fun n => (n < length h)%nat) ns ->
  hext rd "nonIsTracked" [DL (map dnode ns)] h = Some ([DB (negb (existsb (trackedOf h) ns))], h).
Proof.
  intros H. change (hext rd "nonIsTracked" [DL (map dnode ns)] h)
    with (do ms <- mapM (nodeId h) (map dnode ns); Some ([@DB A (negb (existsb (trackedOf h) ms))], h)).
  rewrite mapM_nodeId by exact H. reflexivity.
Qed.

(* ---------- the encoding of a context through its targets ---------- *)

Definition encTargets (k : nat) (ts : list nat) : list dval :=
  map (fun p : nat * nat => DL [dnode (snd p); dnode (fst p)]) (combine (seq k (length ts)) ts).

Lemma encEdges_targets (es : list (nat * rule)) k :
  map (fun p : nat * (nat * rule) => DL [DI (Z.of_nat (fst (snd p))); DI (Z.of_nat (fst p))])
      (combine (seq k (length es)) es) = encTargets k (map fst es).
Proof.
  unfold encTargets. revert k. induction es as [|[t r] es IH]; intros k; cbn [map length seq combine]; [reflexivity|].
  cbn [fst snd]. f_equal. apply IH.
Qed.

(* the explicit form of the result: the edge list is empty unless tracked, in which case edge k is [target_k; k] *)
Lemma encCtx_mkCtx (h : heap) (ns : list nat) (es : list (nat * rule)) :
  map fst es = ns ->
  encCtx (mkCtx h ns es) =
  if existsb (dirtyOf h) ns then DL [DB false; DB true; DL []]
  else if negb (existsb (trackedOf h) ns) then DL [DB false; DB false; DL []]
  else DL [DB true; DB false; DL (encTargets 0 ns)].
Proof.
  intros <-. unfold mkCtx.
  destruct (existsb (dirtyOf h) (map fst es)); [reflexivity|].
  destruct (negb (existsb (trackedOf h) (map fst es))); [reflexivity|].
  cbn [encCtx]. rewrite encEdges_targets. reflexivity.
Qed.

(* ---------- expressions over an abstract environment ---------- *)

Definition binds (g : denv) (ops : list string) (ns : list nat) : Prop :=
  Forall2 (fun x n => dlookup g x = Some (dnode n)) ops ns.

Lemma binds_dupd g ops ns z v :
  binds g ops ns -> Forall (fun x => (x =? z)%string = false) ops -> binds (dupd g z v) ops ns.
Proof.
  unfold binds. induction 1 as [|x n ops ns Hx _ IH]; intros Hf; constructor.
  - rewrite dlookup_dupd. inversion Hf; subst. rewrite H1. exact Hx.
  - apply IH. inversion Hf; assumption.
Qed.

Lemma fresh_ops_spec ops :
  fresh_ops ops = true ->
  Forall (fun x => (x =? "gctx")%string = false) ops /\
  Forall (fun x => (x =? "$1")%string = false) ops /\
  Forall (fun x => (x =? "$2")%string = false) ops.
Proof.
  unfold fresh_ops. induction ops as [|x ops IH]; cbn [forallb]; intros H.
  - repeat split; constructor.
  - apply andb_true_iff in H. destruct H as [Hx H]. destruct (IH H) as [H1 [H2 H3]].
    apply andb_true_iff in Hx. destruct Hx as [Hx Hx3]. apply andb_true_iff in Hx. destruct Hx as [Hx1 Hx2].
    apply negb_true_iff in Hx1, Hx2, Hx3.
    repeat split; constructor; assumption.
Qed.

Lemma deval_append_nil (g l : denv) (xs : list dexpr) :
  deval fapp g l (XAppend XNilSlice xs) =
  match devals fapp g l xs with Some vs => Some (DL vs) | None => None end.
Proof.
  cbn [deval].
  match goal with |- match ?F xs with _ => _ end = _ =>
    assert (E : forall ys, F ys = devals fapp g l ys)
      by (induction ys as [|y r IH]; cbn [devals]; [reflexivity | rewrite <- IH; reflexivity])
  end.
  rewrite E. destruct (devals fapp g l xs); reflexivity.
Qed.

Lemma devals_vars (g : denv) ops ns :
  binds g ops ns -> devals fapp g [] (map XVar ops) = Some (map dnode ns).
Proof.
  induction 1 as [|x n ops ns Hx _ IH]; cbn [map devals]; [reflexivity|].
  cbn [deval]. unfold vlookup. cbn [dlookup]. rewrite Hx, IH. reflexivity.
Qed.

Lemma devals_edges (g : denv) ops ns k :
  binds g ops ns -> devals fapp g [] (edgeX (Z.of_nat k) ops) = Some (encTargets k ns).
Proof.
  unfold encTargets. intros H. revert k. induction H as [|x n ops ns Hx _ IH]; intros k; cbn [edgeX devals]; [reflexivity|].
  rewrite deval_append_nil. cbn [devals deval]. unfold vlookup at 1. cbn [dlookup]. rewrite Hx.
  replace (Z.of_nat k + 1) with (Z.of_nat (S k)) by lia. rewrite IH.
  cbn [length seq combine map fst snd]. reflexivity.
Qed.

(* ---------- the generic lemma ---------- *)

Section Body.
Variable callL : string -> list dval -> heap -> denv -> cres heap.
Variable fuel : nat.
Notation ex := (dexec fapp heap (hext rd) callL fuel true).

(* one guard: [if f(ops...) { return c }] *)
Lemma guard_step (g : denv) (h : heap) (ops : list string) (ns : list nat) (tmp f : string) (b : bool) (retE : dexpr) (rv : dval) :
  binds g ops ns ->
  hext rd f [DL (map dnode ns)] h = Some ([DB b], h) ->
  (forall g', deval fapp g' [] retE = Some rv) ->
  ex (tseq [TExt true [tmp] f [XAppend XNilSlice (map XVar ops)]; TIf (XVar tmp) (TRet [retE]) TSkip]) h g [] =
  if b then DRet heap [rv] h (dupd g tmp (DB true)) [] else DNormal heap h (dupd g tmp (DB false)) [].
Proof.
  intros Hb Hx Hr. cbn [tseq].
  rewrite dexec_TSeq, dexec_TExt. cbn [devals]. rewrite deval_append_nil, (devals_vars _ _ _ Hb), Hx.
  cbn [dassignAll vdefine].
  rewrite dexec_TIf. cbn [deval]. unfold vlookup. cbn [dlookup]. rewrite dlookup_dupd, String.eqb_refl.
  destruct b.
  - rewrite dexec_TRet. cbn [devals]. rewrite Hr. reflexivity.
  - rewrite dexec_TSkip. reflexivity.
Qed.

Lemma ctor_generic (ops : list string) (ns : list nat) (es : list (nat * rule)) (h : heap) (g : denv) :
  binds g ops ns ->
  fresh_ops ops = true ->
  Forall (fun n => (n < length h)%nat) ns ->
  map fst es = ns ->
  exists g', ex (ctorBody ops) h g [] = DRet heap [encCtx (mkCtx h ns es)] h g' [].
Proof.
  intros Hb Hf Hlt Hes.
  destruct (fresh_ops_spec _ Hf) as [F0 [F1 F2]].
  rewrite (encCtx_mkCtx h ns es Hes).
  unfold ctorBody.
  change (tseq (?a :: ?b :: ?c)) with (TSeq a (tseq (b :: c))).
  rewrite dexec_TSeq, dexec_TDef. cbn [deval vdefine].
  pose proof (binds_dupd _ _ _ "gctx" DNil Hb F0) as Hb0.
  change (tseq (?a :: ?b :: ?c)) with (TSeq a (tseq (b :: c))).
  rewrite dexec_TSeq.
  rewrite (guard_step _ _ _ _ _ _ (existsb (dirtyOf h) ns) _ (DL [DB false; DB true; DL []]) Hb0
             (hext_anyIsBPDirty h ns Hlt)).
  2:{ intros g'. rewrite deval_append_nil. reflexivity. }
  destruct (existsb (dirtyOf h) ns); [eexists; reflexivity|].
  pose proof (binds_dupd _ _ _ "$1" (DB false) Hb0 F1) as Hb1.
  change (tseq (?a :: ?b :: ?c)) with (TSeq a (tseq (b :: c))).
  rewrite dexec_TSeq.
  rewrite (guard_step _ _ _ _ _ _ (negb (existsb (trackedOf h) ns)) _ (DL [DB false; DB false; DL []]) Hb1
             (hext_nonIsTracked h ns Hlt)).
  2:{ intros g'. rewrite deval_append_nil. reflexivity. }
  destruct (negb (existsb (trackedOf h) ns)); [eexists; reflexivity|].
  pose proof (binds_dupd _ _ _ "$2" (DB false) Hb1 F2) as Hb2.
  cbn [tseq]. rewrite dexec_TRet. cbn [devals]. rewrite deval_append_nil. cbn [devals].
  pose proof (devals_edges _ _ _ 0%nat Hb2) as He. cbn [Z.of_nat] in He.
  rewrite deval_append_nil, He. cbn [deval].
  eexists; reflexivity.
Qed.
End Body.

(* ---------- the specification of a constructor program ---------- *)

Definition ctor_spec (p : dprog) (args : list dval) (ops : list nat) : Prop :=
  forall (fuel depth : nat) (h : heap) (es : list (nat * rule)),
    Forall (fun n => (n < length h)%nat) ops ->
    map fst es = ops ->
    exists g l, drun fapp heap (hext rd) p fuel depth args h = DRet heap [encCtx (mkCtx h ops es)] h g l.

End Ctor.
