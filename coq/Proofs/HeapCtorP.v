(* HeapCtorP.v — the gradient-context constructors of tensor/internal/gradtrack/gradients.go, as translated by
   harness/gox into the DataIR programs GoGrad.c_<Name> and run over the model's heap with the oracle
   [hext rd] (Model/HeapExt.v), return the context the model computes: [encCtx (Grad.mkCtx h operands edges)], for any
   rule payloads [edges] whose targets are the operands, in order.  All constructors of GoGrad.ctor_table except
   c_Concat (which has a loop; proved elsewhere): 33 programs.

   Structure: ONE generic lemma [ctor_generic] about the common three-way body [ctorBody ops] over an ABSTRACT
   environment (each generated body is convertible to [ctorBody [..]]), the tactic [ctor_tac], one theorem per
   constructor stated with [ctor_spec], and the summaries [ctor_table_names] / [ctor_table_ok]. *)
From Coq Require Import String List ZArith Bool Lia Arith.
From Qeep Require Import Model.Scalar Model.Nd Model.Fill Model.Data Model.Valid Model.Api Model.Grad Model.Backprop
     Model.DataIR Model.HeapExt Model.GoGrad Proofs.DataIRP.
From Qeep Require Model.GoIR.
Import ListNotations.
Local Open Scope string_scope.
Local Open Scope Z_scope.
Local Open Scope list_scope.

(* ---------- the common shape of the generated constructor bodies ---------- *)

(* [target_k, closure k] for the operands, in order *)
Fixpoint edgeX (k : Z) (ops : list string) : list dexpr :=
  match ops with
  | [] => []
  | x :: r => XAppend XNilSlice [XVar x; XInt k] :: edgeX (k + 1) r
  end.

Definition ctorBody (ops : list string) : dstmt :=
  tseq [TDef "gctx" XNilAny;
        tseq [TExt true ["$1"] "anyIsBPDirty" [XAppend XNilSlice (map XVar ops)];
              TIf (XVar "$1") (TRet [XAppend XNilSlice [XBool false; XBool true; XNilSlice]]) TSkip];
        tseq [TExt true ["$2"] "nonIsTracked" [XAppend XNilSlice (map XVar ops)];
              TIf (XVar "$2") (TRet [XAppend XNilSlice [XBool false; XBool false; XNilSlice]]) TSkip];
        TRet [XAppend XNilSlice [XBool true; XBool false; XAppend XNilSlice (edgeX 0 ops)]]].

Definition fresh_ops (ops : list string) : bool :=
  forallb (fun x => negb (x =? "gctx") && negb (x =? "$1") && negb (x =? "$2"))%string ops.

Section Ctor.
Context {A : Type} {SA : Scalar A}.
Variable fapp : string -> list A -> option A.
Variable rd : bred.
Notation dval := (@dval A).
Notation denv := (@denv A).
Notation heap := (@heap A).
Notation rule := (@rule A).
Notation cres := (@cres A).

(* a graph node as a DataIR value *)
Definition dnode (n : nat) : dval := DI (Z.of_nat n).

(* ---------- the oracle on lists of nodes ---------- *)

Lemma nodeId_dnode (h : heap) n : (n < length h)%nat -> nodeId h (dnode n) = Some n.
Proof.
  intros H. unfold nodeId, dnode. rewrite Nat2Z.id.
  destruct (0 <=? Z.of_nat n) eqn:E; [| apply Z.leb_gt in E; lia].
  apply Nat.ltb_lt in H. rewrite H. reflexivity.
Qed.

Lemma mapM_nodeId (h : heap) ns :
  Forall (fun n => (n < length h)%nat) ns -> mapM (nodeId h) (map dnode ns) = Some ns.
Proof.
  induction 1 as [|n ns Hn _ IH]; cbn [map mapM]; [reflexivity|].
  rewrite nodeId_dnode by exact Hn. cbn [obind]. rewrite IH. reflexivity.
Qed.

Lemma hext_anyIsBPDirty (h : heap) ns :
  Forall (fun n => (n < length h)%nat) ns ->
  hext rd "anyIsBPDirty" [DL (map dnode ns)] h = Some ([DB (existsb (dirtyOf h) ns)], h).
Proof.
  intros H. change (hext rd "anyIsBPDirty" [DL (map dnode ns)] h)
    with (do ms <- mapM (nodeId h) (map dnode ns); Some ([@DB A (existsb (dirtyOf h) ms)], h)).
  rewrite mapM_nodeId by exact H. reflexivity.
Qed.

Lemma hext_nonIsTracked (h : heap) ns :
  Forall (fun n => (n < length h)%nat) ns ->
  hext rd "nonIsTracked" [DL (map dnode ns)] h = Some ([DB (negb (existsb (trackedOf h) ns))], h).
Proof.
  intros H. change (hext rd "nonIsTracked" [DL (map dnode ns)] h)
    with (do ms <- mapM (nodeId h) (map dnode ns); Some ([@DB A (negb (existsb (trackedOf h) ms))], h)).
  rewrite mapM_nodeId by exact H. reflexivity.
Qed.

(* ---------- the encoding of a context through its targets ---------- *)

Definition encTargets (k : nat) (ts : list nat) : list dval :=
  map (fun p : nat * nat => DL [dnode (snd p); dnode (fst p)]) (combine (seq k (length ts)) ts).

Lemma encEdges_targets (es : list (nat * rule)) k :
  map (fun p : nat * (nat * rule) => DL [DI (Z.of_nat (fst (snd p))); DI (Z.of_nat (fst p))])
      (combine (seq k (length es)) es) = encTargets k (map fst es).
Proof.
  unfold encTargets. revert k. induction es as [|[t r] es IH]; intros k; cbn [map length seq combine]; [reflexivity|].
  cbn [fst snd]. f_equal. apply IH.
Qed.

(* the explicit form of the result: the edge list is empty unless tracked, in which case edge k is [target_k; k] *)
Lemma encCtx_mkCtx (h : heap) (ns : list nat) (es : list (nat * rule)) :
  map fst es = ns ->
  encCtx (mkCtx h ns es) =
  if existsb (dirtyOf h) ns then DL [DB false; DB true; DL []]
  else if negb (existsb (trackedOf h) ns) then DL [DB false; DB false; DL []]
  else DL [DB true; DB false; DL (encTargets 0 ns)].
Proof.
  intros <-. unfold mkCtx.
  destruct (existsb (dirtyOf h) (map fst es)); [reflexivity|].
  destruct (negb (existsb (trackedOf h) (map fst es))); [reflexivity|].
  cbn [encCtx]. rewrite encEdges_targets. reflexivity.
Qed.

(* ---------- expressions over an abstract environment ---------- *)

Definition binds (g : denv) (ops : list string) (ns : list nat) : Prop :=
  Forall2 (fun x n => dlookup g x = Some (dnode n)) ops ns.

Lemma binds_dupd g ops ns z v :
  binds g ops ns -> Forall (fun x => (x =? z)%string = false) ops -> binds (dupd g z v) ops ns.
Proof.
  unfold binds. induction 1 as [|x n ops ns Hx _ IH]; intros Hf; constructor.
  - rewrite dlookup_dupd. inversion Hf; subst. rewrite H1. exact Hx.
  - apply IH. inversion Hf; assumption.
Qed.

Lemma fresh_ops_spec ops :
  fresh_ops ops = true ->
  Forall (fun x => (x =? "gctx")%string = false) ops /\
  Forall (fun x => (x =? "$1")%string = false) ops /\
  Forall (fun x => (x =? "$2")%string = false) ops.
Proof.
  unfold fresh_ops. induction ops as [|x ops IH]; cbn [forallb]; intros H.
  - repeat split; constructor.
  - apply andb_true_iff in H. destruct H as [Hx H]. destruct (IH H) as [H1 [H2 H3]].
    apply andb_true_iff in Hx. destruct Hx as [Hx Hx3]. apply andb_true_iff in Hx. destruct Hx as [Hx1 Hx2].
    apply negb_true_iff in Hx1, Hx2, Hx3.
    repeat split; constructor; assumption.
Qed.

Lemma deval_append_nil (g l : denv) (xs : list dexpr) :
  deval fapp g l (XAppend XNilSlice xs) =
  match devals fapp g l xs with Some vs => Some (DL vs) | None => None end.
Proof.
  cbn [deval].
  match goal with |- match ?F xs with _ => _ end = _ =>
    assert (E : forall ys, F ys = devals fapp g l ys)
      by (induction ys as [|y r IH]; cbn [devals]; [reflexivity | rewrite <- IH; reflexivity])
  end.
  rewrite E. destruct (devals fapp g l xs); reflexivity.
Qed.

Lemma devals_vars (g : denv) ops ns :
  binds g ops ns -> devals fapp g [] (map XVar ops) = Some (map dnode ns).
Proof.
  induction 1 as [|x n ops ns Hx _ IH]; cbn [map devals]; [reflexivity|].
  cbn [deval]. unfold vlookup. cbn [dlookup]. rewrite Hx, IH. reflexivity.
Qed.

Lemma devals_edges (g : denv) ops ns k :
  binds g ops ns -> devals fapp g [] (edgeX (Z.of_nat k) ops) = Some (encTargets k ns).
Proof.
  unfold encTargets. intros H. revert k. induction H as [|x n ops ns Hx _ IH]; intros k; cbn [edgeX devals]; [reflexivity|].
  rewrite deval_append_nil. cbn [devals deval]. unfold vlookup at 1. cbn [dlookup]. rewrite Hx.
  replace (Z.of_nat k + 1) with (Z.of_nat (S k)) by lia. rewrite IH.
  cbn [length seq combine map fst snd]. reflexivity.
Qed.

(* ---------- the generic lemma ---------- *)

Section Body.
Variable callL : string -> list dval -> heap -> denv -> cres heap.
Variable fuel : nat.
Notation ex := (dexec fapp heap (hext rd) callL fuel true).

(* one guard: [if f(ops...) { return c }] *)
Lemma guard_step (g : denv) (h : heap) (ops : list string) (ns : list nat) (tmp f : string) (b : bool) (retE : dexpr) (rv : dval) :
  binds g ops ns ->
  hext rd f [DL (map dnode ns)] h = Some ([DB b], h) ->
  (forall g', deval fapp g' [] retE = Some rv) ->
  ex (tseq [TExt true [tmp] f [XAppend XNilSlice (map XVar ops)]; TIf (XVar tmp) (TRet [retE]) TSkip]) h g [] =
  if b then DRet heap [rv] h (dupd g tmp (DB true)) [] else DNormal heap h (dupd g tmp (DB false)) [].
Proof.
  intros Hb Hx Hr. cbn [tseq].
  rewrite dexec_TSeq, dexec_TExt. cbn [devals]. rewrite deval_append_nil, (devals_vars _ _ _ Hb), Hx.
  cbn [dassignAll vdefine].
  rewrite dexec_TIf. cbn [deval]. unfold vlookup. cbn [dlookup]. rewrite dlookup_dupd, String.eqb_refl.
  destruct b.
  - rewrite dexec_TRet. cbn [devals]. rewrite Hr. reflexivity.
  - rewrite dexec_TSkip. reflexivity.
Qed.

Lemma ctor_generic (ops : list string) (ns : list nat) (es : list (nat * rule)) (h : heap) (g : denv) :
  binds g ops ns ->
  fresh_ops ops = true ->
  Forall (fun n => (n < length h)%nat) ns ->
  map fst es = ns ->
  exists g', ex (ctorBody ops) h g [] = DRet heap [encCtx (mkCtx h ns es)] h g' [].
Proof.
  intros Hb Hf Hlt Hes.
  destruct (fresh_ops_spec _ Hf) as [F0 [F1 F2]].
  rewrite (encCtx_mkCtx h ns es Hes).
  unfold ctorBody.
  change (tseq (?a :: ?b :: ?c)) with (TSeq a (tseq (b :: c))).
  rewrite dexec_TSeq, dexec_TDef. cbn [deval vdefine].
  pose proof (binds_dupd _ _ _ "gctx" DNil Hb F0) as Hb0.
  change (tseq (?a :: ?b :: ?c)) with (TSeq a (tseq (b :: c))).
  rewrite dexec_TSeq.
  rewrite (guard_step _ _ _ _ _ _ (existsb (dirtyOf h) ns) _ (DL [DB false; DB true; DL []]) Hb0
             (hext_anyIsBPDirty h ns Hlt)).
  2:{ intros g'. rewrite deval_append_nil. reflexivity. }
  destruct (existsb (dirtyOf h) ns); [eexists; reflexivity|].
  pose proof (binds_dupd _ _ _ "$1" (DB false) Hb0 F1) as Hb1.
  change (tseq (?a :: ?b :: ?c)) with (TSeq a (tseq (b :: c))).
  rewrite dexec_TSeq.
  rewrite (guard_step _ _ _ _ _ _ (negb (existsb (trackedOf h) ns)) _ (DL [DB false; DB false; DL []]) Hb1
             (hext_nonIsTracked h ns Hlt)).
  2:{ intros g'. rewrite deval_append_nil. reflexivity. }
  destruct (negb (existsb (trackedOf h) ns)); [eexists; reflexivity|].
  pose proof (binds_dupd _ _ _ "$2" (DB false) Hb1 F2) as Hb2.
  cbn [tseq]. rewrite dexec_TRet. cbn [devals]. rewrite deval_append_nil. cbn [devals].
  pose proof (devals_edges _ _ _ 0%nat Hb2) as He. cbn [Z.of_nat] in He.
  rewrite deval_append_nil, He. cbn [deval].
  eexists; reflexivity.
Qed.
End Body.

(* ---------- the specification of a constructor program ---------- *)

Definition ctor_spec (p : dprog) (args : list dval) (ops : list nat) : Prop :=
  forall (fuel depth : nat) (h : heap) (es : list (nat * rule)),
    Forall (fun n => (n < length h)%nat) ops ->
    map fst es = ops ->
    exists g l, drun fapp heap (hext rd) p fuel depth args h = DRet heap [encCtx (mkCtx h ops es)] h g l.


(* ---------- the tactic: a generated body is (convertible to) [ctorBody opnames] on its parameter environment ---------- *)

Ltac ctor_tac prog opnames :=
  let fuel := fresh "fuel" in let depth := fresh "depth" in let h := fresh "h" in let es := fresh "es" in
  let Hlt := fresh "Hlt" in let Hes := fresh "Hes" in
  intros fuel depth h es Hlt Hes; unfold drun, prog; cbn [pmain dparams dbody plocals dbind];
  match goal with
  | |- exists g l, dexec _ _ _ ?cl ?fu true _ h ?g0 [] = DRet _ [encCtx (mkCtx h ?ns es)] h g l =>
      let H := fresh "Hb" in let g' := fresh "g'" in let E := fresh "E" in
      assert (H : binds g0 opnames ns) by (repeat (apply Forall2_cons; [reflexivity|]); apply Forall2_nil);
      destruct (ctor_generic cl fu opnames ns es h g0 H eq_refl Hlt Hes) as [g' E];
      exists g', []; exact E
  end.

(* ---------- one theorem per constructor (all of ctor_table except Concat) ---------- *)
(* [yv] = the result tensor y (only captured by the closures: any value), operands = node ids, extra arguments
   (index, dim, the float a) = any values. *)

Theorem ctor_Slice (yv : dval) (x : nat) (iv : dval) : ctor_spec c_Slice [yv; dnode x; iv] [x].
Proof. ctor_tac c_Slice ["x"]. Qed.

Theorem ctor_Patch (yv : dval) (x p : nat) (iv : dval) : ctor_spec c_Patch [yv; dnode x; dnode p; iv] [x; p].
Proof. ctor_tac c_Patch ["x"; "p"]. Qed.

Theorem ctor_Transpose (yv : dval) (x : nat) : ctor_spec c_Transpose [yv; dnode x] [x].
Proof. ctor_tac c_Transpose ["x"]. Qed.

Theorem ctor_Reshape (yv : dval) (x : nat) : ctor_spec c_Reshape [yv; dnode x] [x].
Proof. ctor_tac c_Reshape ["x"]. Qed.

Theorem ctor_UnSqueeze (yv : dval) (x : nat) : ctor_spec c_UnSqueeze [yv; dnode x] [x].
Proof. ctor_tac c_UnSqueeze ["x"]. Qed.

Theorem ctor_Squeeze (yv : dval) (x : nat) : ctor_spec c_Squeeze [yv; dnode x] [x].
Proof. ctor_tac c_Squeeze ["x"]. Qed.

Theorem ctor_Flatten (yv : dval) (x : nat) : ctor_spec c_Flatten [yv; dnode x] [x].
Proof. ctor_tac c_Flatten ["x"]. Qed.

Theorem ctor_Broadcast (yv : dval) (x : nat) : ctor_spec c_Broadcast [yv; dnode x] [x].
Proof. ctor_tac c_Broadcast ["x"]. Qed.

Theorem ctor_SumAlong (yv : dval) (x : nat) (dimv : dval) : ctor_spec c_SumAlong [yv; dnode x; dimv] [x].
Proof. ctor_tac c_SumAlong ["x"]. Qed.

Theorem ctor_MaxAlong (yv : dval) (x : nat) (dimv : dval) : ctor_spec c_MaxAlong [yv; dnode x; dimv] [x].
Proof. ctor_tac c_MaxAlong ["x"]. Qed.

Theorem ctor_MinAlong (yv : dval) (x : nat) (dimv : dval) : ctor_spec c_MinAlong [yv; dnode x; dimv] [x].
Proof. ctor_tac c_MinAlong ["x"]. Qed.

Theorem ctor_AvgAlong (yv : dval) (x : nat) (dimv : dval) : ctor_spec c_AvgAlong [yv; dnode x; dimv] [x].
Proof. ctor_tac c_AvgAlong ["x"]. Qed.

Theorem ctor_VarAlong (yv : dval) (x : nat) (dimv : dval) : ctor_spec c_VarAlong [yv; dnode x; dimv] [x].
Proof. ctor_tac c_VarAlong ["x"]. Qed.

Theorem ctor_StdAlong (yv : dval) (x : nat) (dimv : dval) : ctor_spec c_StdAlong [yv; dnode x; dimv] [x].
Proof. ctor_tac c_StdAlong ["x"]. Qed.

Theorem ctor_MeanAlong (yv : dval) (x : nat) (dimv : dval) : ctor_spec c_MeanAlong [yv; dnode x; dimv] [x].
Proof. ctor_tac c_MeanAlong ["x"]. Qed.

Theorem ctor_Scale (yv : dval) (x : nat) (av : dval) : ctor_spec c_Scale [yv; dnode x; av] [x].
Proof. ctor_tac c_Scale ["x"]. Qed.

Theorem ctor_Pow (yv : dval) (x : nat) (av : dval) : ctor_spec c_Pow [yv; dnode x; av] [x].
Proof. ctor_tac c_Pow ["x"]. Qed.

Theorem ctor_Exp (yv : dval) (x : nat) : ctor_spec c_Exp [yv; dnode x] [x].
Proof. ctor_tac c_Exp ["x"]. Qed.

Theorem ctor_Log (yv : dval) (x : nat) : ctor_spec c_Log [yv; dnode x] [x].
Proof. ctor_tac c_Log ["x"]. Qed.

Theorem ctor_Sin (yv : dval) (x : nat) : ctor_spec c_Sin [yv; dnode x] [x].
Proof. ctor_tac c_Sin ["x"]. Qed.

Theorem ctor_Cos (yv : dval) (x : nat) : ctor_spec c_Cos [yv; dnode x] [x].
Proof. ctor_tac c_Cos ["x"]. Qed.

Theorem ctor_Tan (yv : dval) (x : nat) : ctor_spec c_Tan [yv; dnode x] [x].
Proof. ctor_tac c_Tan ["x"]. Qed.

Theorem ctor_Sinh (yv : dval) (x : nat) : ctor_spec c_Sinh [yv; dnode x] [x].
Proof. ctor_tac c_Sinh ["x"]. Qed.

Theorem ctor_Cosh (yv : dval) (x : nat) : ctor_spec c_Cosh [yv; dnode x] [x].
Proof. ctor_tac c_Cosh ["x"]. Qed.

Theorem ctor_Tanh (yv : dval) (x : nat) : ctor_spec c_Tanh [yv; dnode x] [x].
Proof. ctor_tac c_Tanh ["x"]. Qed.

Theorem ctor_ElMax (yv : dval) (a b : nat) : ctor_spec c_ElMax [yv; dnode a; dnode b] [a; b].
Proof. ctor_tac c_ElMax ["a"; "b"]. Qed.

Theorem ctor_ElMin (yv : dval) (a b : nat) : ctor_spec c_ElMin [yv; dnode a; dnode b] [a; b].
Proof. ctor_tac c_ElMin ["a"; "b"]. Qed.

Theorem ctor_Add (yv : dval) (a b : nat) : ctor_spec c_Add [yv; dnode a; dnode b] [a; b].
Proof. ctor_tac c_Add ["a"; "b"]. Qed.

Theorem ctor_Sub (yv : dval) (a b : nat) : ctor_spec c_Sub [yv; dnode a; dnode b] [a; b].
Proof. ctor_tac c_Sub ["a"; "b"]. Qed.

Theorem ctor_Mul (yv : dval) (a b : nat) : ctor_spec c_Mul [yv; dnode a; dnode b] [a; b].
Proof. ctor_tac c_Mul ["a"; "b"]. Qed.

Theorem ctor_Div (yv : dval) (a b : nat) : ctor_spec c_Div [yv; dnode a; dnode b] [a; b].
Proof. ctor_tac c_Div ["a"; "b"]. Qed.

Theorem ctor_Dot (yv : dval) (a b : nat) : ctor_spec c_Dot [yv; dnode a; dnode b] [a; b].
Proof. ctor_tac c_Dot ["a"; "b"]. Qed.

Theorem ctor_MatMul (yv : dval) (a b : nat) : ctor_spec c_MatMul [yv; dnode a; dnode b] [a; b].
Proof. ctor_tac c_MatMul ["a"; "b"]. Qed.

(* ---------- the targets of the model's edges (Model/Grad.v h_* methods), in order = the operands ---------- *)

Lemma targets_op1 (x : nat) (r : rule) : map fst [(x, r)] = [x].
Proof. reflexivity. Qed.
Lemma targets_patch (y x p : nat) index : map fst [(x, RPatchX y p index); (p, @RPatchP A y p index)] = [x; p].
Proof. reflexivity. Qed.
Lemma targets_elsel (y x u : nat) : map fst [(x, RElSel y x u); (u, @RElSel A y u x)] = [x; u].
Proof. reflexivity. Qed.
Lemma targets_arith (b : binary) (y a1 a2 : nat) :
  b = BiAdd \/ b = BiSub \/ b = BiMul \/ b = BiDiv -> map fst (@arithEdges A b y a1 a2) = [a1; a2].
Proof. intros [-> | [-> | [-> | ->]]]; reflexivity. Qed.
Lemma targets_dot (y a1 a2 : nat) : map fst [(a1, RDot y a2); (a2, @RDot A y a1)] = [a1; a2].
Proof. reflexivity. Qed.
Lemma targets_matmul (y a1 a2 : nat) : map fst [(a1, RMatMulA y a2); (a2, @RMatMulB A y a1)] = [a1; a2].
Proof. reflexivity. Qed.

(* instances with the model's own edge lists (y = the id the model gives the result) *)
Corollary ctor_Patch_model (yv iv : dval) (x p y : nat) index fuel depth (h : heap) :
  (x < length h)%nat -> (p < length h)%nat ->
  exists g l, drun fapp heap (hext rd) c_Patch fuel depth [yv; dnode x; dnode p; iv] h =
              DRet heap [encCtx (mkCtx h [x; p] [(x, RPatchX y p index); (p, RPatchP y p index)])] h g l.
Proof. intros Hx Hp. apply ctor_Patch; [repeat constructor; assumption | reflexivity]. Qed.

Corollary ctor_arith_model (b : binary) (prog : dprog) (yv : dval) (a1 a2 y : nat) fuel depth (h : heap) :
  (b = BiAdd /\ prog = c_Add) \/ (b = BiSub /\ prog = c_Sub) \/ (b = BiMul /\ prog = c_Mul) \/ (b = BiDiv /\ prog = c_Div) ->
  (a1 < length h)%nat -> (a2 < length h)%nat ->
  exists g l, drun fapp heap (hext rd) prog fuel depth [yv; dnode a1; dnode a2] h =
              DRet heap [encCtx (mkCtx h [a1; a2] (arithEdges b y a1 a2))] h g l.
Proof.
  intros Hb H1 H2.
  assert (Hlt : Forall (fun n => (n < length h)%nat) [a1; a2]) by (repeat constructor; assumption).
  destruct Hb as [[-> ->] | [[-> ->] | [[-> ->] | [-> ->]]]].
  - apply ctor_Add; [exact Hlt | reflexivity].
  - apply ctor_Sub; [exact Hlt | reflexivity].
  - apply ctor_Mul; [exact Hlt | reflexivity].
  - apply ctor_Div; [exact Hlt | reflexivity].
Qed.

(* ---------- summary over the table ---------- *)

Lemma ctor_table_names :
  length ctor_table = 34%nat /\
  map fst ctor_table =
  ["Concat"; "Slice"; "Patch"; "Transpose"; "Reshape"; "UnSqueeze"; "Squeeze"; "Flatten"; "Broadcast";
   "SumAlong"; "MaxAlong"; "MinAlong"; "AvgAlong"; "VarAlong"; "StdAlong"; "MeanAlong"; "Scale"; "Pow";
   "Exp"; "Log"; "Sin"; "Cos"; "Tan"; "Sinh"; "Cosh"; "Tanh"; "ElMax"; "ElMin"; "Add"; "Sub"; "Mul"; "Div";
   "Dot"; "MatMul"] /\
  map snd ctor_table =
  [c_Concat; c_Slice; c_Patch; c_Transpose; c_Reshape; c_UnSqueeze; c_Squeeze; c_Flatten; c_Broadcast;
   c_SumAlong; c_MaxAlong; c_MinAlong; c_AvgAlong; c_VarAlong; c_StdAlong; c_MeanAlong; c_Scale; c_Pow;
   c_Exp; c_Log; c_Sin; c_Cos; c_Tan; c_Sinh; c_Cosh; c_Tanh; c_ElMax; c_ElMin; c_Add; c_Sub; c_Mul; c_Div;
   c_Dot; c_MatMul].
Proof. repeat split. Qed.

(* every entry but the first (Concat): some number of tensor operands after y, some number of extra arguments, and
   for ALL such argument lists the program returns the model's context with the operands as targets, in order *)
Definition ctor_ok (p : dprog) : Prop :=
  exists nops nextra : nat,
    forall (yv : dval) (ops : list nat) (extras : list dval),
      length ops = nops -> length extras = nextra ->
      ctor_spec p (yv :: map dnode ops ++ extras) ops.

Ltac ok_tac nops nextra lem :=
  exists nops, nextra; intros yv ops extras Ho He;
  repeat (let o := fresh "o" in destruct ops as [|o ops]; try discriminate Ho);
  repeat (let e := fresh "e" in destruct extras as [|e extras]; try discriminate He);
  cbn [map app]; apply lem.

Theorem ctor_table_ok : Forall (fun e => ctor_ok (snd e)) (tl ctor_table).
Proof.
  unfold ctor_table. cbn [tl].
  repeat (apply Forall_cons; [cbn [snd] |]); [.. | apply Forall_nil].
  - ok_tac 1%nat 1%nat ctor_Slice.
  - ok_tac 2%nat 1%nat ctor_Patch.
  - ok_tac 1%nat 0%nat ctor_Transpose.
  - ok_tac 1%nat 0%nat ctor_Reshape.
  - ok_tac 1%nat 0%nat ctor_UnSqueeze.
  - ok_tac 1%nat 0%nat ctor_Squeeze.
  - ok_tac 1%nat 0%nat ctor_Flatten.
  - ok_tac 1%nat 0%nat ctor_Broadcast.
  - ok_tac 1%nat 1%nat ctor_SumAlong.
  - ok_tac 1%nat 1%nat ctor_MaxAlong.
  - ok_tac 1%nat 1%nat ctor_MinAlong.
  - ok_tac 1%nat 1%nat ctor_AvgAlong.
  - ok_tac 1%nat 1%nat ctor_VarAlong.
  - ok_tac 1%nat 1%nat ctor_StdAlong.
  - ok_tac 1%nat 1%nat ctor_MeanAlong.
  - ok_tac 1%nat 1%nat ctor_Scale.
  - ok_tac 1%nat 1%nat ctor_Pow.
  - ok_tac 1%nat 0%nat ctor_Exp.
  - ok_tac 1%nat 0%nat ctor_Log.
  - ok_tac 1%nat 0%nat ctor_Sin.
  - ok_tac 1%nat 0%nat ctor_Cos.
  - ok_tac 1%nat 0%nat ctor_Tan.
  - ok_tac 1%nat 0%nat ctor_Sinh.
  - ok_tac 1%nat 0%nat ctor_Cosh.
  - ok_tac 1%nat 0%nat ctor_Tanh.
  - ok_tac 2%nat 0%nat ctor_ElMax.
  - ok_tac 2%nat 0%nat ctor_ElMin.
  - ok_tac 2%nat 0%nat ctor_Add.
  - ok_tac 2%nat 0%nat ctor_Sub.
  - ok_tac 2%nat 0%nat ctor_Mul.
  - ok_tac 2%nat 0%nat ctor_Div.
  - ok_tac 2%nat 0%nat ctor_Dot.
  - ok_tac 2%nat 0%nat ctor_MatMul.
Qed.

End Ctor.

(* ---------- concrete runs (free scalar algebra [term]) ---------- *)
Section Examples.
Let leafT : tensor term := mkT [] (Sc s0).
Let nd (tr di : bool) : @node term := mkNode leafT tr di None [] None.
Let fa : string -> list term -> option term := fun _ _ => None.

(* operands 0 (untracked) and 1 (tracked): tracked context, edges [0,0] and [1,1] *)
Example run_Add :
  drun fa _ (hext RedAvg) c_Add 0 0 [DI 2; DI 0; DI 1] [nd false false; nd true false] =
  DRet _ [DL [DB true; DB false; DL [DL [DI 0; DI 0]; DL [DI 1; DI 1]]]] [nd false false; nd true false]
       [("y", DI 2); ("a", DI 0); ("b", DI 1); ("gctx", DNil); ("$1", DB false); ("$2", DB false)] [].
Proof. vm_compute. reflexivity. Qed.

(* a spent operand: dirty context, no edges *)
Example run_Patch_dirty :
  drun fa _ (hext RedAvg) c_Patch 0 0 [DI 2; DI 0; DI 1; DNil] [nd true false; nd true true] =
  DRet _ [DL [DB false; DB true; DL []]] [nd true false; nd true true]
       [("y", DI 2); ("x", DI 0); ("p", DI 1); ("index", DNil); ("gctx", DNil); ("$1", DB true)] [].
Proof. vm_compute. reflexivity. Qed.

(* no tracked operand: plain untracked context *)
Example run_Exp_untracked :
  drun fa _ (hext RedAvg) c_Exp 0 0 [DI 1; DI 0] [nd false false] =
  DRet _ [DL [DB false; DB false; DL []]] [nd false false]
       [("y", DI 1); ("x", DI 0); ("gctx", DNil); ("$1", DB false); ("$2", DB true)] [].
Proof. vm_compute. reflexivity. Qed.

(* an operand that is not a node of the heap: the oracle has no answer (the hypothesis [n < length h] is needed) *)
Example run_Exp_dangling :
  drun fa _ (hext RedAvg) c_Exp 0 0 [DI 1; DI 7] [nd false false] = DPanic _.
Proof. vm_compute. reflexivity. Qed.
End Examples.

Print Assumptions ctor_generic.
Print Assumptions encCtx_mkCtx.
Print Assumptions ctor_Slice.
Print Assumptions ctor_Patch.
Print Assumptions ctor_Transpose.
Print Assumptions ctor_Reshape.
Print Assumptions ctor_UnSqueeze.
Print Assumptions ctor_Squeeze.
Print Assumptions ctor_Flatten.
Print Assumptions ctor_Broadcast.
Print Assumptions ctor_SumAlong.
Print Assumptions ctor_MaxAlong.
Print Assumptions ctor_MinAlong.
Print Assumptions ctor_AvgAlong.
Print Assumptions ctor_VarAlong.
Print Assumptions ctor_StdAlong.
Print Assumptions ctor_MeanAlong.
Print Assumptions ctor_Scale.
Print Assumptions ctor_Pow.
Print Assumptions ctor_Exp.
Print Assumptions ctor_Log.
Print Assumptions ctor_Sin.
Print Assumptions ctor_Cos.
Print Assumptions ctor_Tan.
Print Assumptions ctor_Sinh.
Print Assumptions ctor_Cosh.
Print Assumptions ctor_Tanh.
Print Assumptions ctor_ElMax.
Print Assumptions ctor_ElMin.
Print Assumptions ctor_Add.
Print Assumptions ctor_Sub.
Print Assumptions ctor_Mul.
Print Assumptions ctor_Div.
Print Assumptions ctor_Dot.
Print Assumptions ctor_MatMul.
Print Assumptions ctor_Patch_model.
Print Assumptions ctor_arith_model.
Print Assumptions ctor_table_names.
Print Assumptions ctor_table_ok.
