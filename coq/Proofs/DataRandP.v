(* DataRandP.v — the random-tensor wrappers of tensor/internal/cputensor/initializers.go (uniformRandomTensor,
   normalRandomTensor) as translated by harness/gox into Model/GoWrap.v, run with the oracle Model/RandExt.v ([rext]:
   the state is the position in the stream of raw draws), return the model's tensor (Model/Data.v) AND consume exactly
   prod(dims) draws, starting at the current position, in row-major order.
   The decoding lemmas ([unnatsV_nats], [dcopyInto_nats], ...) are re-proved here (they are also in
   Proofs/DataWrapP.v) so that this file depends only on the model, Model/GoWrap.v, Model/RandExt.v and the
   infrastructure files Proofs/NdP.v, Proofs/FillP.v, Proofs/DataIRP.v. *)
From Coq Require Import String List ZArith Bool Lia Arith.
From Qeep Require Import Model.Scalar Model.Nd Model.Fill Model.Data Model.DataIR Model.HeapExt Model.DataExt
     Model.RandExt Model.GoWrap Proofs.NdP Proofs.FillP Proofs.DataIRP.
From Qeep Require Model.GoIR.
Import ListNotations.
Local Open Scope string_scope.
Local Open Scope Z_scope.
Local Open Scope list_scope.

Section DataRand.
Context {A : Type} {SA : Scalar A}.
Variable fapp : string -> list A -> option A.
Notation T := (tensor A).
Notation dval := (@dval A).
Notation denv := (@denv A).
Notation NL l := (@DL A (map (fun n : nat => @DI A (Z.of_nat n)) l)).

(* ================= the fill of a counting generator ================= *)

Lemma iter_S (k : nat) : forall p : nat, iter nat S k p = (p + k)%nat.
Proof. induction k as [|k IH]; intros p; cbn [iter]; [lia | rewrite IH; lia]. Qed.

(* a generator that emits [outA p] at position p and moves to position p+1 *)
Lemma fill_counting (outA : nat -> A) (ds : list nat) (pos : nat) :
  fill ds (fun p : nat => Some (Sc (outA p), S p)) pos =
  Some (tab ds (fun idx => outA (pos + flatIdx ds idx)%nat), (pos + prodn ds)%nat).
Proof.
  rewrite (fill_spec A nat (fun p : nat => Some (Sc (outA p), S p)) (fun p => Sc (outA p)) S (fun _ => True));
    [ | intros; reflexivity | auto | exact I].
  rewrite iter_S. f_equal. f_equal.
  rewrite (tabS_tab A nat (fun p => Sc (outA p)) S outA); [|reflexivity].
  apply tab_ext. intros idx _. rewrite iter_S. reflexivity.
Qed.

(* ---- row-major reading of such a tabulation: its k-th flattened element is [f (pos + k)] ---- *)

Lemma map_seq_shift {B : Type} (m : nat) :
  forall (G : nat -> B) (a : nat), map G (seq a m) = map (fun j => G (a + j)%nat) (seq 0 m).
Proof.
  induction m as [|m IH]; intros G a; [reflexivity|].
  cbn [seq map]. f_equal; [f_equal; lia|].
  rewrite (IH G (S a)), (IH (fun j => G (a + j)%nat) 1%nat). apply map_ext. intros j. f_equal. lia.
Qed.

Lemma flat_list_blocks (h : nat -> nd A) (G : nat -> A) (m : nat) :
  (forall k, flat (h k) = map (fun j => G (k * m + j)%nat) (seq 0 m)) ->
  forall d, flat_list A (map h (seq 0 d)) = map G (seq 0 (d * m)).
Proof.
  intros Hh d. induction d as [|d IH]; [reflexivity|].
  rewrite seq_S, map_app. cbn [Nat.add map].
  assert (Happ : forall l1 l2 : list (nd A), flat_list A (l1 ++ l2) = flat_list A l1 ++ flat_list A l2).
  { intros l1 l2. induction l1 as [|y l1 IH1]; [reflexivity|]. cbn [app flat_list]. rewrite IH1, app_assoc. reflexivity. }
  rewrite Happ, IH. cbn [flat_list]. rewrite app_nil_r, Hh.
  replace (S d * m)%nat with (d * m + m)%nat by lia.
  rewrite seq_app, map_app. cbn [Nat.add]. f_equal.
  symmetry. apply map_seq_shift.
Qed.

Lemma flat_tab_rowmajor (f : nat -> A) (ds : list nat) :
  forall pos : nat,
  flat (tab ds (fun idx => f (pos + flatIdx ds idx)%nat)) = map (fun k => f (pos + k)%nat) (seq 0 (prodn ds)).
Proof.
  induction ds as [|d r IH]; intros pos.
  - cbn. reflexivity.
  - cbn [tab]. rewrite flat_Vec. cbn [prodn fold_right]. fold (prodn r).
    apply (flat_list_blocks (fun k => tab r (fun i => f (pos + flatIdx (d :: r) (k :: i))%nat))
                            (fun k => f (pos + k)%nat) (prodn r)).
    intros k.
    rewrite (tab_ext A r (fun i => f (pos + flatIdx (d :: r) (k :: i))%nat)
                       (fun i => f ((pos + k * prodn r) + flatIdx r i)%nat)).
    2:{ intros idx _. cbn [flatIdx]. f_equal. lia. }
    rewrite IH. apply map_ext. intros j. f_equal. lia.
Qed.

(* ================= TASK 1: value and final state of the two fills ================= *)

Theorem fill_uniform_state (l u : A) (ds : list nat) (pos : nat) :
  fill ds (uniformGen l u) pos =
  Some (tab ds (fun idx => sadd (smul (srnd false (pos + flatIdx ds idx)%nat) (ssub u l)) l), (pos + prodn ds)%nat).
Proof. exact (fill_counting (fun p => sadd (smul (srnd false p) (ssub u l)) l) ds pos). Qed.

Theorem fill_normal_state (u s : A) (ds : list nat) (pos : nat) :
  fill ds (normalGen u s) pos =
  Some (tab ds (fun idx => sadd (smul (srnd true (pos + flatIdx ds idx)%nat) s) u), (pos + prodn ds)%nat).
Proof. exact (fill_counting (fun p => sadd (smul (srnd true p) s) u) ds pos). Qed.

(* the same, read in row-major order: element k of the flattened value is made from draw number pos + k, and there
   are exactly prodn ds of them *)
Theorem fill_uniform_rowmajor (l u : A) (ds : list nat) (pos : nat) :
  exists d, fill ds (uniformGen l u) pos = Some (d, (pos + prodn ds)%nat) /\ wfnd ds d /\
            flat d = map (fun k => sadd (smul (srnd false (pos + k)%nat) (ssub u l)) l) (seq 0 (prodn ds)).
Proof.
  eexists. split; [apply fill_uniform_state|]. split; [apply wfnd_tab|].
  apply (flat_tab_rowmajor (fun p => sadd (smul (srnd false p) (ssub u l)) l)).
Qed.

Theorem fill_normal_rowmajor (u s : A) (ds : list nat) (pos : nat) :
  exists d, fill ds (normalGen u s) pos = Some (d, (pos + prodn ds)%nat) /\ wfnd ds d /\
            flat d = map (fun k => sadd (smul (srnd true (pos + k)%nat) s) u) (seq 0 (prodn ds)).
Proof.
  eexists. split; [apply fill_normal_state|]. split; [apply wfnd_tab|].
  apply (flat_tab_rowmajor (fun p => sadd (smul (srnd true p) s) u)).
Qed.

(* the model's constructors are these fills *)
Lemma uniformRandomTensor_eq (l u : A) (ds : list nat) (pos : nat) :
  uniformRandomTensor l u ds pos =
  Some (mkT ds (tab ds (fun idx => sadd (smul (srnd false (pos + flatIdx ds idx)%nat) (ssub u l)) l))).
Proof. unfold uniformRandomTensor, initWith. rewrite fill_uniform_state. reflexivity. Qed.

Lemma normalRandomTensor_eq (u s : A) (ds : list nat) (pos : nat) :
  normalRandomTensor u s ds pos =
  Some (mkT ds (tab ds (fun idx => sadd (smul (srnd true (pos + flatIdx ds idx)%nat) s) u))).
Proof. unfold normalRandomTensor, initWith. rewrite fill_normal_state. reflexivity. Qed.

(* ================= decoding lemmas (as in Proofs/DataWrapP.v) ================= *)

Lemma Zle0_nat (n : nat) : (0 <=? Z.of_nat n) = true.
Proof. apply Z.leb_le. lia. Qed.

Lemma unnats_nats (l : list nat) : unnats (map (fun n => @DI A (Z.of_nat n)) l) = Some l.
Proof.
  induction l as [|n l IH]; [reflexivity|].
  cbn [map unnats]. rewrite Zle0_nat, IH, Nat2Z.id. reflexivity.
Qed.

Lemma unnatsV_nats (l : list nat) : unnatsV (NL l) = Some l.
Proof. cbn [unnatsV]. apply unnats_nats. Qed.

Lemma unnatsV_dnats (l : list nat) : unnatsV (@dnats A l) = Some l.
Proof. apply unnatsV_nats. Qed.

Lemma dcopyInto_full (v : dval) (src : list dval) : dcopyInto (repeat v (length src)) src = src.
Proof. induction src as [|a src IH]; [reflexivity|]. cbn [length repeat dcopyInto]. now rewrite IH. Qed.

Lemma dcopyInto_nats (v : dval) (l : list nat) :
  dcopyInto (repeat v (length l)) (map (fun n : nat => @DI A (Z.of_nat n)) l) = map (fun n : nat => @DI A (Z.of_nat n)) l.
Proof. rewrite <- (map_length (fun n : nat => @DI A (Z.of_nat n)) l) at 1. apply dcopyInto_full. Qed.

(* ================= the oracle entries, one equation each ================= *)

Lemma rext_uniGen (l u : A) (pos : nat) :
  rext "func() any { return distuv.Uniform{Min: l, Max: u}.Rand() }" [DF l; DF u] pos =
  Some ([DL [DI 8; DF l; DF u]], pos).
Proof. reflexivity. Qed.

(* the translator passes the free variables of the literal in alphabetical order: s, then u *)
Lemma rext_norGen (u s : A) (pos : nat) :
  rext "func() any { return distuv.Normal{Mu: u, Sigma: s}.Rand() }" [DF s; DF u] pos =
  Some ([DL [DI 9; DF u; DF s]], pos).
Proof. reflexivity. Qed.

Lemma rext_initWith_uni (ds : list nat) (l u : A) (pos : nat) :
  rext "initWith" [NL ds; DL [DI 8; DF l; DF u]] pos =
  do r <- fill ds (uniformGen l u) pos; Some ([emb (fst r)], snd r).
Proof.
  change (rext "initWith" [NL ds; DL [DI 8; DF l; DF u]] pos)
    with (do ds' <- unnatsV (NL ds); do r <- fill ds' (uniformGen l u) pos; Some ([emb (fst r)], snd r)).
  rewrite unnatsV_nats. reflexivity.
Qed.

Lemma rext_initWith_nor (ds : list nat) (u s : A) (pos : nat) :
  rext "initWith" [NL ds; DL [DI 9; DF u; DF s]] pos =
  do r <- fill ds (normalGen u s) pos; Some ([emb (fst r)], snd r).
Proof.
  change (rext "initWith" [NL ds; DL [DI 9; DF u; DF s]] pos)
    with (do ds' <- unnatsV (NL ds); do r <- fill ds' (normalGen u s) pos; Some ([emb (fst r)], snd r)).
  rewrite unnatsV_nats. reflexivity.
Qed.

Ltac rlen :=
  match goal with
  | |- context [dlen (map _ _)] => rewrite !dlen_map, ?Zle0_nat, ?Nat2Z.id
  | |- context [dcopyInto _ _] => rewrite dcopyInto_nats
  end.
Ltac rxt :=
  lazymatch goal with
  | |- context [rext "func() any { return distuv.Uniform{Min: l, Max: u}.Rand() }" _ _] => rewrite rext_uniGen
  | |- context [rext "func() any { return distuv.Normal{Mu: u, Sigma: s}.Rand() }" _ _] => rewrite rext_norGen
  | |- context [rext "initWith" [_; DL [DI 8; _; _]] _] => rewrite rext_initWith_uni, fill_uniform_state
  | |- context [rext "initWith" [_; DL [DI 9; _; _]] _] => rewrite rext_initWith_nor, fill_normal_state
  end.
Ltac rx := repeat (progress (dxs; try unfold dnats; repeat rlen; try rxt; cbn [obind fst snd dims data app])).

(* ================= TASK 2, 3: the wrappers ================= *)

(* the explicit form: value, dims and final state *)
Lemma w_uniformRandomTensor_run_tab fuel depth (l u : A) (ds : list nat) (pos : nat) :
  exists g l0,
    drun fapp nat rext w_uniformRandomTensor fuel depth [DF l; DF u; dnats ds] pos =
    DRet nat [dnats ds; emb (tab ds (fun idx => sadd (smul (srnd false (pos + flatIdx ds idx)%nat) (ssub u l)) l))]
         (pos + prodn ds)%nat g l0.
Proof.
  unfold drun, w_uniformRandomTensor. cbn [pmain dbody plocals dparams dbind]. rx. eauto.
Qed.

Lemma w_normalRandomTensor_run_tab fuel depth (u s : A) (ds : list nat) (pos : nat) :
  exists g l0,
    drun fapp nat rext w_normalRandomTensor fuel depth [DF u; DF s; dnats ds] pos =
    DRet nat [dnats ds; emb (tab ds (fun idx => sadd (smul (srnd true (pos + flatIdx ds idx)%nat) s) u))]
         (pos + prodn ds)%nat g l0.
Proof.
  unfold drun, w_normalRandomTensor. cbn [pmain dbody plocals dparams dbind]. rx. eauto.
Qed.

Theorem w_uniformRandomTensor_run fuel depth (l u : A) (ds : list nat) (pos : nat) :
  exists t, uniformRandomTensor l u ds pos = Some t /\ dims t = ds /\
            data t = tab ds (fun idx => sadd (smul (srnd false (pos + flatIdx ds idx)%nat) (ssub u l)) l) /\
  exists g l0,
    drun fapp nat rext w_uniformRandomTensor fuel depth [DF l; DF u; dnats ds] pos =
    DRet nat [dnats (dims t); emb (data t)] (pos + prodn ds)%nat g l0.
Proof.
  eexists. split; [apply uniformRandomTensor_eq|]. cbn [dims data]. split; [reflexivity|]. split; [reflexivity|].
  apply w_uniformRandomTensor_run_tab.
Qed.

Theorem w_normalRandomTensor_run fuel depth (u s : A) (ds : list nat) (pos : nat) :
  exists t, normalRandomTensor u s ds pos = Some t /\ dims t = ds /\
            data t = tab ds (fun idx => sadd (smul (srnd true (pos + flatIdx ds idx)%nat) s) u) /\
  exists g l0,
    drun fapp nat rext w_normalRandomTensor fuel depth [DF u; DF s; dnats ds] pos =
    DRet nat [dnats (dims t); emb (data t)] (pos + prodn ds)%nat g l0.
Proof.
  eexists. split; [apply normalRandomTensor_eq|]. cbn [dims data]. split; [reflexivity|]. split; [reflexivity|].
  apply w_normalRandomTensor_run_tab.
Qed.

(* ================= TASK 4: sequencing ================= *)

(* whatever state the first run returns, it is pos + prodn ds1; the second run, started there, returns the model's
   tensor drawn from that position and ends at pos + prodn ds1 + prodn ds2: the two runs read the disjoint draw
   ranges [pos, pos + prodn ds1) and [pos + prodn ds1, pos + prodn ds1 + prodn ds2). *)
Theorem uniform_then_normal_draws fuel1 depth1 fuel2 depth2 (l u m s : A) (ds1 ds2 : list nat) (pos : nat) :
  exists t1 g1 l1,
    uniformRandomTensor l u ds1 pos = Some t1 /\
    drun fapp nat rext w_uniformRandomTensor fuel1 depth1 [DF l; DF u; dnats ds1] pos =
      DRet nat [dnats (dims t1); emb (data t1)] (pos + prodn ds1)%nat g1 l1 /\
    forall vs pos1 g1' l1',
      drun fapp nat rext w_uniformRandomTensor fuel1 depth1 [DF l; DF u; dnats ds1] pos = DRet nat vs pos1 g1' l1' ->
      pos1 = (pos + prodn ds1)%nat /\
      exists t2 g2 l2,
        normalRandomTensor m s ds2 pos1 = Some t2 /\
        drun fapp nat rext w_normalRandomTensor fuel2 depth2 [DF m; DF s; dnats ds2] pos1 =
          DRet nat [dnats (dims t2); emb (data t2)] (pos + prodn ds1 + prodn ds2)%nat g2 l2 /\
        flat (data t1) = map (fun k => sadd (smul (srnd false (pos + k)%nat) (ssub u l)) l) (seq 0 (prodn ds1)) /\
        flat (data t2) = map (fun k => sadd (smul (srnd true (pos + prodn ds1 + k)%nat) s) m) (seq 0 (prodn ds2)).
Proof.
  destruct (w_uniformRandomTensor_run fuel1 depth1 l u ds1 pos) as (t1 & Ht1 & Hd1 & Hx1 & g1 & l1 & Hrun1).
  exists t1, g1, l1. split; [exact Ht1|]. split; [exact Hrun1|].
  intros vs pos1 g1' l1' Hrun. rewrite Hrun1 in Hrun. inversion Hrun; subst pos1. split; [reflexivity|].
  destruct (w_normalRandomTensor_run fuel2 depth2 m s ds2 (pos + prodn ds1)%nat) as (t2 & Ht2 & Hd2 & Hx2 & g2 & l2 & Hrun2).
  exists t2, g2, l2. split; [exact Ht2|]. split; [exact Hrun2|]. split.
  - rewrite Hx1. apply (flat_tab_rowmajor (fun p => sadd (smul (srnd false p) (ssub u l)) l)).
  - rewrite Hx2. apply (flat_tab_rowmajor (fun p => sadd (smul (srnd true p) s) m)).
Qed.

End DataRand.

Print Assumptions fill_uniform_state.
Print Assumptions fill_normal_state.
Print Assumptions fill_uniform_rowmajor.
Print Assumptions fill_normal_rowmajor.
Print Assumptions w_uniformRandomTensor_run.
Print Assumptions w_normalRandomTensor_run.
Print Assumptions uniform_then_normal_draws.

(* ---- concrete runs over the free term algebra ---- *)
Definition rx_fapp : string -> list term -> option term := fun _ _ => None.
Definition rx_l : term := TVal 0 0.
Definition rx_u : term := TVal 0 1.
Definition rx_uni (k : nat) : term := TBin BAdd (TBin BMul (TRnd false k) (TBin BSub rx_u rx_l)) rx_l.
Definition rx_nor (k : nat) : term := TBin BAdd (TBin BMul (TRnd true k) rx_u) rx_l.

(* dims [2;2] from position 3: the four draws TRnd false 3..6, row-major, final state 7 *)
Example uniform_example :
  match drun rx_fapp nat rext w_uniformRandomTensor 0 0 [DF rx_l; DF rx_u; dnats [2; 2]%nat] 3%nat with
  | DRet _ [d; v] p _ _ =>
      d = dnats [2; 2]%nat /\
      v = emb (Vec [Vec [Sc (rx_uni 3); Sc (rx_uni 4)]; Vec [Sc (rx_uni 5); Sc (rx_uni 6)]]) /\
      p = 7%nat
  | _ => False
  end.
Proof. vm_compute. repeat split; reflexivity. Qed.

(* normalRandomTensor(u = rx_l, s = rx_u, [3]) from the state 7 the first run returned: draws TRnd true 7..9, state 10 *)
Example normal_after_uniform_example :
  match drun rx_fapp nat rext w_uniformRandomTensor 0 0 [DF rx_l; DF rx_u; dnats [2; 2]%nat] 3%nat with
  | DRet _ _ p _ _ =>
      match drun rx_fapp nat rext w_normalRandomTensor 0 0 [DF rx_l; DF rx_u; dnats [3]%nat] p with
      | DRet _ [d; v] q _ _ =>
          d = dnats [3]%nat /\ v = emb (Vec [Sc (rx_nor 7); Sc (rx_nor 8); Sc (rx_nor 9)]) /\ q = 10%nat
      | _ => False
      end
  | _ => False
  end.
Proof. vm_compute. repeat split; reflexivity. Qed.
