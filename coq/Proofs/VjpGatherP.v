(* VjpGatherP.v — the backward rules of the "gather" operations are vector-Jacobian products
   (properties C02 and C07).  Every output element of a gather operation is a copy of one
   operand element, y_j = x_{sigma(j)} (Slice, Reshape/UnSqueeze/Squeeze/Flatten, Transpose,
   Broadcast, Concat per operand) or of one of two operands (Patch).  For such an operation the
   vector-Jacobian product is  g_i = Σ_{j : sigma(j) = i} gy_j.
   Instance: the reals, [R_scalar thr draw] for arbitrary thr, draw.
   Contents: 1. vjp_gather(_opt)(_inv)  2. vjp_slice  3. vjp_reshape  4. bcastBack_char, vjp_broadcast_sum,
   broadcast_avg_char, broadcast_avg_refuted (known finding D2)  5. vjp_patch_src/_tgt, vjp_concat(_edge),
   vjp_transpose  6. the same under "the forward call returned Ok" (…_fwd)  7. examples.
   Every theorem also concludes that the rule evaluates to Ok (never Err, never Panic). *)
From Coq Require Import List Arith ZArith Bool Lia ZifyBool Reals Lra.
From Coquelicot Require Import Coquelicot.
From Qeep Require Import Model.Scalar Model.Nd Model.Fill Model.Data Model.Valid Model.Api Model.Grad.
From Qeep Require Import Spec.RScalar Spec.VjpSpec.
From Qeep Require Import Proofs.NdP Proofs.ElemP Proofs.SliceP Proofs.OdometerP Proofs.ReshapeP
  Proofs.BroadcastP Proofs.ReduceP Proofs.TransposeP.
Import ListNotations.
Local Open Scope R_scope.

(* ====================================================================== *)
(* 1. the generic lemma                                                   *)
(* ====================================================================== *)

Lemma sumIdx_zero ds : sumIdx ds (fun _ => 0) = 0.
Proof. unfold sumIdx. apply sum_zero. Qed.

Lemma idx_eqb_refl a : idx_eqb a a = true.
Proof. apply idx_eqb_eq. reflexivity. Qed.

Lemma idx_eqb_neq a b : a <> b -> idx_eqb a b = false.
Proof. intros H. destruct (idx_eqb a b) eqn:E; [|reflexivity]. apply idx_eqb_eq in E. contradiction. Qed.

(* an output element is a copy of the operand element [sigma j], or does not depend on the
   operand at all ([sigma j = None]: a constant [c j], e.g. an element of another operand) *)
Definition gatherF (sigma : list nat -> option (list nat)) (c : assignment) : assignment -> assignment :=
  fun a j => match sigma j with Some k => a k | None => c j end.

Definition hits (sigma : list nat -> option (list nat)) (j i : list nat) : bool :=
  match sigma j with Some k => idx_eqb k i | None => false end.

Lemma gather_partial sigma c x i j :
  is_partial (gatherF sigma c) x i j (if hits sigma j i then 1 else 0).
Proof.
  unfold is_partial, gatherF, hits, perturb. destruct (sigma j) as [k|].
  - destruct (idx_eqb k i).
    + auto_derive; [exact I|ring].
    + auto_derive; [exact I|ring].
  - auto_derive; [exact I|ring].
Qed.

Theorem vjp_gather_opt dsx dsy sigma c (x gy g : assignment) :
  (forall i, validIdx dsx i -> g i = sumIdx dsy (fun j => if hits sigma j i then gy j else 0)) ->
  is_vjp dsx dsy (gatherF sigma c) x gy g.
Proof.
  intros H i Hi. exists (fun j => if hits sigma j i then 1 else 0). split.
  - intros j _. apply gather_partial.
  - rewrite (H i Hi). apply sumIdx_ext. intros j _. destruct (hits sigma j i); ring.
Qed.

(* the converse: the partial derivatives are unique, so a vector-Jacobian product of a gather
   operation IS the sum of the upstream gradient over the copies *)
Theorem vjp_gather_opt_inv dsx dsy sigma c (x gy g : assignment) :
  is_vjp dsx dsy (gatherF sigma c) x gy g ->
  forall i, validIdx dsx i -> g i = sumIdx dsy (fun j => if hits sigma j i then gy j else 0).
Proof.
  intros H i Hi. destruct (H i Hi) as (D & HD & Hg). rewrite Hg. apply sumIdx_ext. intros j Hj.
  pose proof (is_derive_unique _ _ _ (HD j Hj)) as E1.
  pose proof (is_derive_unique _ _ _ (gather_partial sigma c x i j)) as E2.
  unfold is_partial in *. rewrite <- E1, E2. destruct (hits sigma j i); ring.
Qed.

(* total version: y_j = x_{sigma j} *)
Theorem vjp_gather dsx dsy (sigma : list nat -> list nat) (x gy g : assignment) :
  (forall i, validIdx dsx i -> g i = sumIdx dsy (fun j => if idx_eqb (sigma j) i then gy j else 0)) ->
  is_vjp dsx dsy (fun a j => a (sigma j)) x gy g.
Proof.
  intros H. apply (vjp_gather_opt dsx dsy (fun j => Some (sigma j)) (fun _ => 0)). exact H.
Qed.

Theorem vjp_gather_inv dsx dsy (sigma : list nat -> list nat) (x gy g : assignment) :
  is_vjp dsx dsy (fun a j => a (sigma j)) x gy g ->
  forall i, validIdx dsx i -> g i = sumIdx dsy (fun j => if idx_eqb (sigma j) i then gy j else 0).
Proof.
  intros H. apply (vjp_gather_opt_inv dsx dsy (fun j => Some (sigma j)) (fun _ => 0) x). exact H.
Qed.

(* the sum over the copies when there is exactly one copy / no copy *)
Lemma sum_hits_one dsy (hit : list nat -> bool) (gy : assignment) j0 :
  validIdx dsy j0 -> hit j0 = true -> (forall j, validIdx dsy j -> hit j = true -> j = j0) ->
  sumIdx dsy (fun j => if hit j then gy j else 0) = gy j0.
Proof.
  intros Hv H0 Hu. rewrite <- (sumIdx_single dsy j0 gy Hv). apply sumIdx_ext. intros j Hj.
  destruct (hit j) eqn:E.
  - rewrite (Hu j Hj E), idx_eqb_refl. reflexivity.
  - destruct (idx_eqb j j0) eqn:E'; [|reflexivity]. apply idx_eqb_eq in E'. subst j. congruence.
Qed.

Lemma sum_hits_none dsy (hit : list nat -> bool) (gy : assignment) :
  (forall j, validIdx dsy j -> hit j = false) ->
  sumIdx dsy (fun j => if hit j then gy j else 0) = 0.
Proof.
  intros H. transitivity (sumIdx dsy (fun _ => 0)); [|apply sumIdx_zero].
  apply sumIdx_ext. intros j Hj. rewrite (H j Hj). reflexivity.
Qed.

(* corollary for an injective sigma *)
Corollary vjp_gather_inj dsx dsy (sigma : list nat -> list nat) (x gy g : assignment) :
  (forall j j', validIdx dsy j -> validIdx dsy j' -> sigma j = sigma j' -> j = j') ->
  (forall j, validIdx dsy j -> g (sigma j) = gy j) ->
  (forall i, validIdx dsx i -> (forall j, validIdx dsy j -> sigma j <> i) -> g i = 0) ->
  (forall i, validIdx dsx i -> (exists j, validIdx dsy j /\ sigma j = i) \/ (forall j, validIdx dsy j -> sigma j <> i)) ->
  is_vjp dsx dsy (fun a j => a (sigma j)) x gy g.
Proof.
  intros Hinj Hhit Hmiss Hdec. apply vjp_gather. intros i Hi.
  destruct (Hdec i Hi) as [(j0 & Hj0 & E)|Hn].
  - rewrite (sum_hits_one dsy (fun j => idx_eqb (sigma j) i) gy j0 Hj0).
    + rewrite <- E. apply Hhit, Hj0.
    + apply idx_eqb_eq, E.
    + intros j Hj Ej. apply idx_eqb_eq in Ej. apply Hinj; [exact Hj|exact Hj0|congruence].
  - rewrite sum_hits_none; [apply Hmiss; assumption|].
    intros j Hj. apply idx_eqb_neq, Hn, Hj.
Qed.

(* ====================================================================== *)
(* the instance                                                           *)
(* ====================================================================== *)
Section Inst.
Variables (thr : R) (draw : bool -> nat -> R).
Local Instance RS : Scalar R := R_scalar thr draw.

Lemma smul_R a b : smul a b = a * b.  Proof. reflexivity. Qed.
Lemma sadd_R a b : sadd a b = a + b.  Proof. reflexivity. Qed.
Lemma sdiv_R a b : sdiv a b = a / b.  Proof. reflexivity. Qed.
Lemma s0_R : s0 = 0.                  Proof. reflexivity. Qed.
Lemma sofnat_R n : sofnat n = INR n.  Proof. reflexivity. Qed.
Lemma szero_R : sconst 0 0 = 0.
Proof. cbn. unfold dec2R. cbn. ring. Qed.

(* a tensor of reals, read through [elt], at a given shape *)
Definition repr (t : tensor R) (ds : list nat) (f : assignment) : Prop :=
  dims t = ds /\ wf t /\ forall i, validIdx ds i -> elt t i = f i.

Lemma elt_get (t : tensor R) idx : wf t -> validIdx (dims t) idx -> get (data t) idx = Some (elt t idx).
Proof.
  intros [Hw _] Hv. unfold elt. destruct (get_wf R _ _ _ Hw Hv) as (a & ->). reflexivity.
Qed.

Lemma repr_self (t : tensor R) : wf t -> repr t (dims t) (elt t).
Proof. intros H. split; [reflexivity|]. split; [exact H|]. reflexivity. Qed.

Lemma heap_gy (h : heap) y (gy : tensor R) : gradOf h y = Some gy -> gy_of h y = Ok gy.
Proof. intros E. unfold gy_of. rewrite E. reflexivity. Qed.
Lemma heap_val (h : heap) x (xv : tensor R) : valOf h x = Some xv -> val_of h x = Ok xv.
Proof. intros E. unfold val_of. rewrite E. reflexivity. Qed.

(* toZeros: never fails, same shape, every element 0 * x_i = 0 *)
Lemma toZeros_spec (t : tensor R) : wf t ->
  exists z, toZeros t = Ok z /\ repr z (dims t) (fun _ => 0).
Proof.
  intros Hw. unfold toZeros. destruct (v_unary_spec (UScale (sconst 0 0)) t Hw) as (z & Ez & Hd & Hwz & Hg).
  exists z. split; [exact Ez|]. split; [exact Hd|]. split; [exact Hwz|].
  intros i Hi. unfold elt. rewrite (Hg i Hi), (elt_get t i Hw Hi). cbn [option_map unaryF].
  rewrite smul_R, szero_R. ring.
Qed.

(* ====================================================================== *)
(* 3. Reshape / UnSqueeze / Squeeze / Flatten: gy.Reshape(x.Shape())      *)
(* ====================================================================== *)

Lemma unflatIdx_flatIdx ds i : validIdx ds i -> unflatIdx ds (flatIdx ds i) = i.
Proof.
  intros Hv. pose proof (OdometerP.validIdx_pos ds i Hv) as Hp.
  apply (flatIdx_inj ds); [apply unflatIdx_valid, Hp|exact Hv|].
  apply flatIdx_unflatIdx; [exact Hp|apply flatIdx_lt, Hv].
Qed.

(* a reshaped tensor, element by element *)
Lemma reshaped_elt (t r : tensor R) shape : wf t -> reshaped R t r shape -> prodn shape = prodn (dims t) ->
  forall i, validIdx shape i -> elt r i = elt t (unflatIdx (dims t) (flatIdx shape i)).
Proof.
  intros Hwt (Hd & Hwr & Hf) Hn i Hi. unfold elt.
  destruct Hwr as [Hwr _]. rewrite Hd in Hwr. destruct Hwt as [Hwt Hpt].
  pose proof (flatIdx_lt shape i Hi) as Hk. rewrite Hn in Hk.
  rewrite <- (flat_nth R shape (data r) i Hwr Hi), Hf.
  rewrite <- (flat_nth R (dims t) (data t) _ Hwt (unflatIdx_valid (dims t) _ Hpt)).
  rewrite flatIdx_unflatIdx by assumption. reflexivity.
Qed.

Theorem vjp_reshape (rd : bred) (h : heap) (y x : nat) (xv gy : tensor R) :
  valOf h x = Some xv -> gradOf h y = Some gy -> wf xv -> wf gy ->
  prodn (dims gy) = prodn (dims xv) ->
  exists g, eval_rule rd h (RReshape y x) = Ok g /\ dims g = dims xv /\ wf g /\
    (forall i, validIdx (dims xv) i -> elt g i = elt gy (unflatIdx (dims gy) (flatIdx (dims xv) i))) /\
    is_vjp (dims xv) (dims gy) (fun a j => a (unflatIdx (dims xv) (flatIdx (dims gy) j)))
           (elt xv) (elt gy) (elt g).
Proof.
  intros Ex Ey Hwx Hwg Hn. cbn [eval_rule]. rewrite (heap_gy h y gy Ey), (heap_val h x xv Ex). cbn [res_bind].
  destruct (v_reshape_spec R gy (zdims xv) Hwg) as [H1 _].
  destruct H1 as (g & Eg & Hr).
  { apply validateReshape_iff. exists (dims xv). split; [reflexivity|]. split; [exact (proj2 Hwx)|]. lia. }
  unfold zdims in Hr at 1. rewrite natsOf_of_nat in Hr.
  exists g. split; [exact Eg|]. destruct Hr as (Hd & Hwr & Hf). split; [exact Hd|]. split; [exact Hwr|].
  assert (Hel : forall i, validIdx (dims xv) i -> elt g i = elt gy (unflatIdx (dims gy) (flatIdx (dims xv) i))).
  { apply (reshaped_elt gy g (dims xv) Hwg); [split; [exact Hd|split; [exact Hwr|exact Hf]]|lia]. }
  split; [exact Hel|].
  apply vjp_gather. intros i Hi. rewrite (Hel i Hi).
  pose proof (flatIdx_lt _ _ Hi) as Hk. rewrite <- Hn in Hk.
  set (j0 := unflatIdx (dims gy) (flatIdx (dims xv) i)).
  assert (Hj0 : validIdx (dims gy) j0) by (apply unflatIdx_valid, Hwg).
  assert (Ej0 : flatIdx (dims gy) j0 = flatIdx (dims xv) i) by (apply flatIdx_unflatIdx; [apply Hwg|exact Hk]).
  symmetry. apply (sum_hits_one (dims gy) (fun j => idx_eqb (unflatIdx (dims xv) (flatIdx (dims gy) j)) i) (elt gy) j0 Hj0).
  - apply idx_eqb_eq. rewrite Ej0. apply unflatIdx_flatIdx, Hi.
  - intros j Hj E. apply idx_eqb_eq in E.
    apply (flatIdx_inj (dims gy)); [exact Hj|exact Hj0|]. rewrite Ej0, <- E.
    symmetry. apply flatIdx_unflatIdx; [apply Hwx|]. rewrite <- Hn. apply flatIdx_lt, Hj.
Qed.

(* ====================================================================== *)
(* 2. Slice: toZeros(x).Patch(index, gy)                                  *)
(* ====================================================================== *)

(* completing an index against the shape of the slice it produces gives the same ranges: an
   omitted range means "the whole dimension" for the Slice and for the Patch of the back edge *)
Lemma completeIndex_sizes index : forall ds,
  completeIndex index (sizes (completeIndex index ds)) = completeIndex index ds.
Proof.
  intros ds. revert index. induction ds as [|d ds IH]; intros [|[f t] index]; cbn [completeIndex sizes map]; try reflexivity.
  - fold (sizes (completeIndex [] ds)). rewrite IH. cbn [fst snd]. rewrite Nat.sub_0_r. reflexivity.
  - fold (sizes (completeIndex index ds)). rewrite IH.
    destruct ((f =? 0) && (t =? 0))%nat eqn:E; cbn [fst snd]; rewrite ?E, ?Nat.sub_0_r; reflexivity.
Qed.

(* the Patch validator accepts the Slice index against the slice's own shape *)
Lemma zslice_patch_ok : forall ds index, zsliceOk index ds ->
  Forall2 le (sizes (completeIndex (rangesOf index) ds)) ds /\
  zpatchOk index (sizes (completeIndex (rangesOf index) ds)) ds.
Proof.
  induction ds as [|d ds IH]; intros [|[f t] index] H; cbn [rangesOf map completeIndex sizes fst snd].
  - split; [constructor|exact I].
  - cbn in H. contradiction.
  - destruct (IH [] I) as [IH1 _]. split; [|exact I]. constructor; [lia|exact IH1].
  - cbn [zsliceOk] in H. destruct H as [H0 H]. destruct (IH index H) as [IH1 IH2].
    fold (rangesOf index). fold (sizes (completeIndex (rangesOf index) ds)).
    destruct ((Z.to_nat f =? 0) && (Z.to_nat t =? 0))%nat eqn:E; cbn [fst snd zpatchOk].
    + split; [constructor; [lia|exact IH1]|]. split; [|exact IH2]. lia.
    + split; [constructor; [lia|exact IH1]|]. split; [|exact IH2]. lia.
Qed.

Lemma inBlock_unshift : forall ci dus dts, region ci dus dts -> forall i, validIdx dts i ->
  inBlock ci dus i = true -> validIdx dus (unshift i ci) /\ shift (unshift i ci) ci = i.
Proof.
  induction ci as [|[f t] ci IH]; intros [|du dus] [|dt dts] H i Hv Hb; cbn in H; try contradiction.
  - apply validIdx_nil in Hv. subst i. split; [constructor|reflexivity].
  - destruct H as [[H1 H2] H]. apply validIdx_cons in Hv as (k & r & -> & Hk & Hr).
    cbn [inBlock] in Hb. apply andb_true_iff in Hb as [Hb Hb3]. apply andb_true_iff in Hb as [Hb1 Hb2].
    apply Nat.leb_le in Hb1. apply Nat.ltb_lt in Hb2.
    destruct (IH dus dts H r Hr Hb3) as [Ha Hc]. rewrite unshift_cons, shift_cons, Hc. split.
    + constructor; [lia|exact Ha].
    + f_equal. lia.
Qed.

(* the sum of the upstream gradient over the copies of element i, for a block copy
   y_j = x_{j + From}: the one element of gy at i - From inside the block, nothing outside *)
Lemma sum_hits_shift ci dus dts (gy : assignment) i : region ci dus dts -> validIdx dts i ->
  sumIdx dus (fun j => if idx_eqb (shift j ci) i then gy j else 0) =
  if inBlock ci dus i then gy (unshift i ci) else 0.
Proof.
  intros Hreg Hi. destruct (inBlock ci dus i) eqn:Eb.
  - destruct (inBlock_unshift ci dus dts Hreg i Hi Eb) as [Hv Hs].
    apply (sum_hits_one dus (fun j => idx_eqb (shift j ci) i) gy (unshift i ci) Hv).
    + apply idx_eqb_eq, Hs.
    + intros j Hj E. apply idx_eqb_eq in E. destruct (region_shift ci dus dts Hreg j Hj) as (_ & _ & Hu).
      rewrite <- E. symmetry. exact Hu.
  - apply sum_hits_none. intros j Hj. apply idx_eqb_neq. intros E.
    destruct (region_shift ci dus dts Hreg j Hj) as (_ & Hb & _). rewrite E in Hb. congruence.
Qed.

Theorem vjp_slice (rd : bred) (h : heap) (y x : nat) (index : list zrange) (xv gy : tensor R) :
  valOf h x = Some xv -> gradOf h y = Some gy -> wf xv ->
  validateSliceIndexAgainstDims index (zdims xv) = true ->
  wf gy -> dims gy = sizes (completeIndex (rangesOf index) (dims xv)) ->
  exists g, eval_rule rd h (RSliceX y x index) = Ok g /\ dims g = dims xv /\ wf g /\
    (forall i, validIdx (dims xv) i ->
       elt g i = if inBlock (completeIndex (rangesOf index) (dims xv)) (dims gy) i
                 then elt gy (unshift i (completeIndex (rangesOf index) (dims xv))) else 0) /\
    is_vjp (dims xv) (dims gy)
           (fun a j => a (shift j (completeIndex (rangesOf index) (dims xv))))
           (elt xv) (elt gy) (elt g).
Proof.
  intros Ex Ey Hwx V Hwg Hdg. cbn [eval_rule]. rewrite (heap_gy h y gy Ey), (heap_val h x xv Ex). cbn [res_bind].
  destruct (toZeros_spec xv Hwx) as (z & Ez & Hdz & Hwz & Hz). rewrite Ez. cbn [res_bind].
  unfold zdims in V. apply validateSlice_iff in V.
  destruct (zslice_patch_ok (dims xv) index V) as [HF Hzp].
  set (ci := completeIndex (rangesOf index) (dims xv)) in *.
  rewrite <- Hdg in HF, Hzp.
  destruct (v_patch_spec z gy index Hwz Hwg) as [H1 _].
  destruct H1 as (g & Eg & Hd & Hwr & Hg).
  { unfold zdims. rewrite Hdz. apply validatePatch_iff. split; assumption. }
  assert (Eci : completeIndex (rangesOf index) (dims gy) = ci).
  { rewrite Hdg. apply completeIndex_sizes. }
  rewrite Eci, Hdz in Hg. rewrite Hdz in Hd.
  assert (Hreg : region ci (dims gy) (dims xv)).
  { rewrite <- Eci. apply completeIndex_region; [exact HF|]. apply zpatchOk_nat, Hzp. }
  exists g. split; [exact Eg|]. split; [exact Hd|]. split; [exact Hwr|].
  assert (Hel : forall i, validIdx (dims xv) i ->
            elt g i = if inBlock ci (dims gy) i then elt gy (unshift i ci) else 0).
  { intros i Hi. unfold elt at 1. rewrite (Hg i Hi). destruct (inBlock ci (dims gy) i) eqn:Eb.
    - reflexivity.
    - exact (Hz i Hi). }
  split; [exact Hel|].
  apply vjp_gather. intros i Hi. rewrite (Hel i Hi). symmetry.
  apply (sum_hits_shift ci (dims gy) (dims xv)); assumption.
Qed.

(* ====================================================================== *)
(* 4. Broadcast (C07)                                                     *)
(* ====================================================================== *)

(* ---------- finite sums ---------- *)
Definition lsum {X} (l : list X) (h : X -> R) : R := fold_right Rplus 0 (map h l).
Definition sumN (n : nat) (h : nat -> R) : R := lsum (seq 0 n) h.

Lemma lsum_ext_in {X} (l : list X) f g : (forall x, In x l -> f x = g x) -> lsum l f = lsum l g.
Proof.
  unfold lsum. induction l as [|a l IH]; intros H; cbn; [reflexivity|].
  rewrite (H a (or_introl eq_refl)), IH; [reflexivity|]. intros x Hx. apply H. right. exact Hx.
Qed.

Lemma lsum_zero {X} (l : list X) : lsum l (fun _ => 0) = 0.
Proof. unfold lsum. induction l as [|a l IH]; cbn; [reflexivity|rewrite IH; ring]. Qed.

Lemma lsum_plus {X} (l : list X) f g : lsum l (fun x => f x + g x) = lsum l f + lsum l g.
Proof. unfold lsum. induction l as [|a l IH]; cbn; [ring|rewrite IH; ring]. Qed.

Lemma lsum_app {X} (l1 l2 : list X) f : lsum (l1 ++ l2) f = lsum l1 f + lsum l2 f.
Proof. unfold lsum. induction l1 as [|a l1 IH]; cbn; [ring|rewrite IH; ring]. Qed.

Lemma lsum_map {X Y} (u : X -> Y) (l : list X) f : lsum (map u l) f = lsum l (fun x => f (u x)).
Proof. unfold lsum. rewrite map_map. reflexivity. Qed.

Lemma lsum_swap {X Y} (l1 : list X) (l2 : list Y) (hh : X -> Y -> R) :
  lsum l1 (fun x => lsum l2 (fun y => hh x y)) = lsum l2 (fun y => lsum l1 (fun x => hh x y)).
Proof.
  induction l1 as [|a l1 IH].
  - cbn. symmetry. apply lsum_zero.
  - change (lsum (a :: l1) (fun x => lsum l2 (fun y => hh x y)))
      with (lsum l2 (fun y => hh a y) + lsum l1 (fun x => lsum l2 (fun y => hh x y))).
    rewrite IH, <- lsum_plus. apply lsum_ext_in. intros y _. reflexivity.
Qed.

Lemma lsum_single_nat (l : list nat) a (c : nat -> R) : NoDup l -> In a l ->
  lsum l (fun k => if (k =? a)%nat then c k else 0) = c a.
Proof.
  unfold lsum. induction l as [|b l IH]; intros Hnd Hin; [destruct Hin|].
  inversion Hnd as [|? ? Hna Hnd']; subst. cbn [map fold_right]. destruct Hin as [->|Hin].
  - rewrite Nat.eqb_refl.
    assert (Z : lsum l (fun k => if (k =? a)%nat then c k else 0) = 0).
    { transitivity (lsum l (fun _ : nat => 0)); [|apply lsum_zero]. apply lsum_ext_in. intros x Hx.
      destruct (Nat.eqb_spec x a) as [->|_]; [contradiction|reflexivity]. }
    unfold lsum in Z. rewrite Z. ring.
  - destruct (Nat.eqb_spec b a) as [->|_]; [contradiction|]. rewrite IH by assumption. ring.
Qed.

Lemma sumN_single n a (c : nat -> R) : (a < n)%nat -> sumN n (fun k => if (k =? a)%nat then c k else 0) = c a.
Proof. intros H. apply lsum_single_nat; [apply seq_NoDup|apply in_seq; lia]. Qed.

Lemma sumN_ext n f g : (forall k, (k < n)%nat -> f k = g k) -> sumN n f = sumN n g.
Proof. intros H. apply lsum_ext_in. intros k Hk. apply in_seq in Hk. apply H. lia. Qed.

Lemma sumIdx_swap ds1 ds2 (hh : list nat -> list nat -> R) :
  sumIdx ds1 (fun i => sumIdx ds2 (fun j => hh i j)) = sumIdx ds2 (fun j => sumIdx ds1 (fun i => hh i j)).
Proof. apply (lsum_swap (allIdx ds1) (allIdx ds2)). Qed.

Lemma sumIdx_cons d ds (f : assignment) :
  sumIdx (d :: ds) f = sumN d (fun k => sumIdx ds (fun r => f (k :: r))).
Proof.
  unfold sumIdx, sumN. cbn [allIdx]. fold (lsum (flat_map (fun i => map (cons i) (allIdx ds)) (seq 0 d)) f).
  generalize (seq 0 d) as l. induction l as [|a l IH]; [reflexivity|].
  cbn [flat_map]. rewrite lsum_app, IH, lsum_map. reflexivity.
Qed.

Lemma fold_left_Rplus l : forall a, fold_left Rplus l a = a + lsum l (fun x => x).
Proof.
  unfold lsum. induction l as [|b l IH]; intros a; cbn [fold_left map fold_right]; [ring|].
  rewrite IH. ring.
Qed.

Lemma idx_eqb_sym a b : idx_eqb a b = idx_eqb b a.
Proof.
  destruct (idx_eqb b a) eqn:E.
  - apply idx_eqb_eq in E. subst. apply idx_eqb_refl.
  - apply idx_eqb_neq. intros ->. rewrite idx_eqb_refl in E. discriminate.
Qed.

Lemma bool_eq_iff (a b : bool) : (a = true <-> b = true) -> a = b.
Proof. destruct a, b; intros [H1 H2]; try reflexivity; [symmetry; apply H1; reflexivity|apply H2; reflexivity]. Qed.

Lemma idx_eqb_cons a l b m : idx_eqb (a :: l) (b :: m) = (a =? b)%nat && idx_eqb l m.
Proof.
  apply bool_eq_iff. rewrite andb_true_iff, Nat.eqb_eq, !idx_eqb_eq. split.
  - intros H. inversion H. auto.
  - intros [-> ->]. reflexivity.
Qed.

(* ---------- the pushforward of an assignment along an index map ---------- *)
Definition push (ds : list nat) (p : list nat -> list nat) (g : assignment) : assignment :=
  fun i => sumIdx ds (fun j => if idx_eqb (p j) i then g j else 0).

Lemma push_ext ds p p' g g' i :
  (forall j, validIdx ds j -> p j = p' j) -> (forall j, validIdx ds j -> g j = g' j) ->
  push ds p g i = push ds p' g' i.
Proof. intros Hp Hg. apply sumIdx_ext. intros j Hj. rewrite (Hp j Hj), (Hg j Hj). reflexivity. Qed.

Lemma push_scal ds p c g i : push ds p (fun j => c * g j) i = c * push ds p g i.
Proof.
  unfold push. rewrite <- sumIdx_scal. apply sumIdx_ext. intros j _. destruct (idx_eqb (p j) i); ring.
Qed.

Lemma push_id ds g i : validIdx ds i -> push ds (fun j => j) g i = g i.
Proof. intros H. apply sumIdx_single, H. Qed.

Lemma push_comp ds ds' p1 p2 g i : (forall j, validIdx ds j -> validIdx ds' (p1 j)) ->
  push ds' p2 (push ds p1 g) i = push ds (fun j => p2 (p1 j)) g i.
Proof.
  intros Hv. unfold push.
  transitivity (sumIdx ds' (fun j' => sumIdx ds (fun j =>
                  if idx_eqb (p2 j') i then (if idx_eqb (p1 j) j' then g j else 0) else 0))).
  { apply sumIdx_ext. intros j' _. destruct (idx_eqb (p2 j') i); [reflexivity|]. symmetry. apply sumIdx_zero. }
  rewrite sumIdx_swap. apply sumIdx_ext. intros j Hj.
  rewrite <- (sumIdx_single ds' (p1 j) (fun j' => if idx_eqb (p2 j') i then g j else 0) (Hv j Hj)).
  apply sumIdx_ext. intros j' _. rewrite (idx_eqb_sym (p1 j) j').
  destruct (idx_eqb (p2 j') i); destruct (idx_eqb j' (p1 j)); reflexivity.
Qed.

(* ---------- deleting / inserting an index component ---------- *)
Lemma validIdx_del dim : forall ds j, validIdx ds j -> validIdx (del dim ds) (del dim j).
Proof.
  induction dim as [|dim IH]; intros ds j H; destruct H as [|k d j ds Hk H].
  - constructor.
  - rewrite !del_0. exact H.
  - constructor.
  - rewrite !del_S. constructor; [exact Hk|apply IH, H].
Qed.

Lemma validIdx_ins dim : forall ds i k, (dim < length ds)%nat -> validIdx (del dim ds) i -> (k < nth dim ds 0%nat)%nat ->
  validIdx ds (ins dim k i).
Proof.
  induction dim as [|dim IH]; intros [|d ds] i k Hl Hv Hk; cbn [length] in Hl; try lia.
  - rewrite del_0 in Hv. rewrite ins_0. constructor; [exact Hk|exact Hv].
  - rewrite del_S in Hv. apply validIdx_cons in Hv as (a & r & -> & Ha & Hr). rewrite ins_S.
    constructor; [exact Ha|]. apply IH; [lia|exact Hr|exact Hk].
Qed.

Lemma del_app_exact {X} (a : list X) v q n : length a = n -> del n (a ++ v :: q) = a ++ q.
Proof. intros <-. induction a as [|x a IH]; [reflexivity|]. cbn [app length]. rewrite del_S, IH. reflexivity. Qed.

Lemma ins_app_exact {X} (a : list X) v q n : length a = n -> ins n v (a ++ q) = a ++ v :: q.
Proof. intros <-. induction a as [|x a IH]; [apply ins_0|]. cbn [app length]. rewrite ins_S, IH. reflexivity. Qed.

Lemma validIdx_app_inv ds1 ds2 j : validIdx (ds1 ++ ds2) j ->
  exists a q, j = a ++ q /\ validIdx ds1 a /\ validIdx ds2 q.
Proof.
  intros H. apply Forall2_app_inv_r in H as (a & q & Ha & Hq & ->). exists a, q. auto.
Qed.

(* the sum over the positions that collapse onto i' when component [dim] is deleted *)
Lemma sum_del dim : forall ds (f : assignment) i', (dim < length ds)%nat -> validIdx (del dim ds) i' ->
  push ds (del dim) f i' = sumN (nth dim ds 0%nat) (fun k => f (ins dim k i')).
Proof.
  unfold push. induction dim as [|dim IH]; intros [|d ds] f i' Hl Hv; cbn [length] in Hl; try lia.
  - rewrite del_0 in Hv. rewrite sumIdx_cons. cbn [nth]. apply sumN_ext. intros k _.
    rewrite ins_0. rewrite <- (sumIdx_single ds i' (fun r => f (k :: r)) Hv).
    apply sumIdx_ext. intros r _. rewrite del_0. reflexivity.
  - rewrite del_S in Hv. apply validIdx_cons in Hv as (a & i'' & -> & Ha & Hr).
    rewrite sumIdx_cons. cbn [nth].
    transitivity (sumN d (fun k => if (k =? a)%nat
                    then sumIdx ds (fun r => if idx_eqb (del dim r) i'' then f (k :: r) else 0) else 0)).
    { apply sumN_ext. intros k _. destruct (k =? a)%nat eqn:E.
      - apply sumIdx_ext. intros r _. rewrite del_S, idx_eqb_cons, E. reflexivity.
      - transitivity (sumIdx ds (fun _ => 0)); [|apply sumIdx_zero].
        apply sumIdx_ext. intros r _. rewrite del_S, idx_eqb_cons, E. reflexivity. }
    rewrite (sumN_single d a _ Ha). rewrite (IH ds (fun r => f (a :: r)) i'' ltac:(lia) Hr).
    apply sumN_ext. intros k _. rewrite ins_S. reflexivity.
Qed.

(* ---------- one reduction step, one UnSqueeze step ---------- *)

(* the factor a reduction over a dimension of size d contributes: SumAlong none, AvgAlong 1/d *)
Definition rdc (rd : bred) (d : nat) : R := match rd with RedSum => 1 | RedAvg => / INR d end.
Fixpoint rdcs (rd : bred) (l : list nat) : R :=
  match l with [] => 1 | d :: l' => rdc rd d * rdcs rd l' end.

Lemma map_Some_inj {X} (l1 l2 : list X) : map Some l1 = map Some l2 -> l1 = l2.
Proof.
  revert l2. induction l1 as [|a l1 IH]; intros [|b l2] H; cbn in H; try discriminate; [reflexivity|].
  inversion H. f_equal. apply IH. assumption.
Qed.

Lemma redAlong_repr rd (t : tensor R) ds f dim : repr t ds f -> (dim < length ds)%nat ->
  exists r, redAlong rd t (Z.of_nat dim) = Ok r /\
    repr r (del dim ds) (fun i' => rdc rd (nth dim ds 0%nat) * sumN (nth dim ds 0%nat) (fun k => f (ins dim k i'))).
Proof.
  intros (Hd & Hw & Hf) Hl. subst ds. unfold redAlong.
  set (red := match rd with RedSum => RdSum | RedAvg => RdAvg end).
  pose proof (v_reduceAlong_elems red t (Z.of_nat dim) Hw ltac:(lia)) as H. cbv zeta in H.
  rewrite Nat2Z.id in H. destruct H as (r & Er & Hdr & Hwr & Hel).
  exists r. split; [exact Er|]. split; [exact Hdr|]. split; [exact Hwr|].
  intros i' Hi'. destruct (Hel i' Hi') as (fibre & Hfib & Hget).
  set (d0 := nth dim (dims t) 0%nat) in *.
  assert (Efib : fibre = map (fun k => f (ins dim k i')) (seq 0 d0)).
  { apply map_Some_inj. rewrite Hfib, map_map. apply map_ext_in. intros k Hk. apply in_seq in Hk.
    assert (Hv : validIdx (dims t) (ins dim k i')) by (apply validIdx_ins; [exact Hl|exact Hi'|fold d0; lia]).
    change (firstn dim i' ++ k :: skipn dim i') with (ins dim k i').
    rewrite (elt_get t _ Hw Hv), (Hf _ Hv). reflexivity. }
  unfold elt. rewrite Hget.
  assert (Esum : fold_left Rplus fibre 0 = sumN d0 (fun k => f (ins dim k i'))).
  { rewrite fold_left_Rplus, Efib. unfold sumN. rewrite lsum_map. ring. }
  destruct rd; unfold red, rdc; cbn [redL].
  - unfold sumL. change (fold_left sadd fibre s0) with (fold_left Rplus fibre 0). rewrite Esum. ring.
  - unfold meanL, sumL. change (fold_left sadd fibre s0) with (fold_left Rplus fibre 0).
    rewrite Esum, sdiv_R, sofnat_R. rewrite Efib, map_length, seq_length. unfold Rdiv. ring.
Qed.

Lemma flatIdx_ins1 dim : forall ds j, (dim <= length ds)%nat -> validIdx (ins dim 1%nat ds) j ->
  flatIdx (ins dim 1%nat ds) j = flatIdx ds (del dim j) /\ validIdx ds (del dim j).
Proof.
  induction dim as [|dim IH]; intros ds j Hl Hv.
  - rewrite ins_0 in Hv. apply validIdx_cons in Hv as (k & r & -> & Hk & Hr).
    rewrite ins_0, del_0. split; [|exact Hr]. cbn [flatIdx]. assert (k = 0%nat) by lia. subst k. reflexivity.
  - destruct ds as [|d ds]; [cbn in Hl; lia|]. rewrite ins_S in Hv |- *.
    apply validIdx_cons in Hv as (k & r & -> & Hk & Hr). rewrite del_S.
    destruct (IH ds r ltac:(cbn in Hl; lia) Hr) as [E Hv']. split; [|constructor; assumption].
    cbn [flatIdx]. rewrite E. f_equal. f_equal.
    change (ins dim 1%nat ds) with (unsqueezeDims dim ds). apply unsqueezeDims_prodn.
Qed.

Lemma unsqueeze_repr (t : tensor R) ds f dim : repr t ds f -> (dim <= length ds)%nat ->
  exists r, v_unsqueeze t (Z.of_nat dim) = Ok r /\ repr r (ins dim 1%nat ds) (fun j => f (del dim j)).
Proof.
  intros (Hd & Hw & Hf) Hl. subst ds.
  destruct (v_unsqueeze_spec R t (Z.of_nat dim) Hw) as [H1 _].
  destruct H1 as (r & Er & Hr).
  { apply validateUnSqueezeDim_iff. lia. }
  rewrite Nat2Z.id in Hr. change (unsqueezeDims dim (dims t)) with (ins dim 1%nat (dims t)) in Hr.
  exists r. split; [exact Er|]. split; [apply Hr|]. split; [apply Hr|].
  intros j Hj. destruct (flatIdx_ins1 dim (dims t) j Hl Hj) as [E Hv].
  rewrite (reshaped_elt t r (ins dim 1%nat (dims t)) Hw Hr (unsqueezeDims_prodn dim (dims t)) j Hj).
  rewrite E, unflatIdx_flatIdx by exact Hv. apply Hf, Hv.
Qed.

(* ---------- phase 1: the leading extra dimensions are summed away one at a time ---------- *)

Lemma bcLead_repr rd : forall lead rest (t : tensor R) f, repr t (lead ++ rest) f ->
  exists r, bcLead rd (length lead) t = Ok r /\
    repr r rest (fun i => rdcs rd lead * push (lead ++ rest) (skipn (length lead)) f i).
Proof.
  induction lead as [|d lead IH]; intros rest t f Ht.
  - exists t. split; [reflexivity|]. destruct Ht as (Hd & Hw & Hf). split; [exact Hd|]. split; [exact Hw|].
    intros i Hi. cbn [app length rdcs]. rewrite (Hf i Hi).
    rewrite (push_ext rest (skipn 0) (fun j => j) f f i) by reflexivity. rewrite push_id by exact Hi. ring.
  - cbn [length bcLead].
    destruct (redAlong_repr rd t ((d :: lead) ++ rest) f 0 Ht ltac:(cbn; lia)) as (r1 & E1 & H1).
    change (Z.of_nat 0) with 0%Z in E1. rewrite E1. cbn [res_bind].
    cbn [app nth] in H1. rewrite del_0 in H1.
    destruct (IH rest r1 _ H1) as (r & Er & Hd & Hw & Hf). exists r. split; [exact Er|].
    split; [exact Hd|]. split; [exact Hw|]. intros i Hi. rewrite (Hf i Hi). cbn [rdcs app].
    set (ds := d :: lead ++ rest).
    rewrite (push_ext (lead ++ rest) (skipn (length lead)) (skipn (length lead)) _
               (fun i' => rdc rd d * push ds (del 0) f i') i); [|reflexivity|].
    2:{ intros i' Hi'. rewrite (sum_del 0 ds f i'); [reflexivity|cbn; lia|exact Hi']. }
    rewrite push_scal.
    rewrite (push_comp ds (lead ++ rest) (del 0) (skipn (length lead)) f i).
    2:{ intros j Hj. apply (validIdx_del 0 ds j Hj). }
    rewrite (push_ext ds (fun j => skipn (length lead) (del 0 j)) (skipn (S (length lead))) f f i); [ring| |reflexivity].
    intros j Hj. apply validIdx_cons in Hj as (k & q & -> & _ & _). rewrite del_0. reflexivity.
Qed.

(* ---------- phase 2: every aligned position where the operand had size 1 and the result
   a larger size is summed away and re-inserted as a dimension of size 1 ---------- *)

Definition proj (src q : list nat) : list nat :=
  map (fun p => if (fst p =? 1)%nat then 0%nat else snd p) (combine src q).
Definition pj (n : nat) (src j : list nat) : list nat := firstn n j ++ proj src (skipn n j).

(* the sizes of the dimensions that get reduced *)
Fixpoint redDims (src dst : list nat) : list nat :=
  match src, dst with
  | s :: src', d :: dst' => (if (s =? d)%nat then [] else [d]) ++ redDims src' dst'
  | _, _ => []
  end.

Lemma pj_app n src a q : length a = n -> pj n src (a ++ q) = a ++ proj src q.
Proof.
  intros <-. unfold pj. induction a as [|x a IH]; [reflexivity|].
  cbn [length app firstn skipn]. f_equal. exact IH.
Qed.

Lemma pj_S n src a k q : length a = n -> pj (S n) src (a ++ k :: q) = a ++ k :: proj src q.
Proof.
  intros La. change (a ++ k :: q) with (a ++ [k] ++ q). rewrite app_assoc.
  rewrite pj_app by (rewrite app_length; cbn; lia). rewrite <- app_assoc. reflexivity.
Qed.

Lemma pj_c n s src a k q : length a = n ->
  pj n (s :: src) (a ++ k :: q) = a ++ (if (s =? 1)%nat then 0%nat else k) :: proj src q.
Proof. intros La. rewrite pj_app by exact La. reflexivity. Qed.

Lemma bcDims_repr rd : forall src dst, Forall2 (fun s d => s = d \/ s = 1%nat) src dst ->
  forall pre (t : tensor R) f, repr t (pre ++ dst) f ->
  exists r, bcDims rd (length pre) src dst t = Ok r /\
    repr r (pre ++ src) (fun i => rdcs rd (redDims src dst) * push (pre ++ dst) (pj (length pre) src) f i).
Proof.
  intros src dst HF. induction HF as [|s d src dst Hsd HF IH]; intros pre t f Ht.
  - exists t. split; [reflexivity|]. destruct Ht as (Hd & Hw & Hf). split; [exact Hd|]. split; [exact Hw|].
    intros i Hi. cbn [redDims rdcs]. rewrite (Hf i Hi).
    rewrite (push_ext (pre ++ []) (pj (length pre) []) (fun j => j) f f i); [rewrite push_id by exact Hi; ring| |reflexivity].
    intros j Hj. rewrite <- (app_nil_r j) at 1. rewrite pj_app; [unfold proj; cbn [combine map]; apply app_nil_r|].
    rewrite (validIdx_length _ _ Hj), app_nil_r. reflexivity.
  - cbn [bcDims]. set (n := length pre) in *.
    assert (Ln : length (pre ++ [s]) = S n) by (rewrite app_length; cbn; lia).
    destruct (s =? d)%nat eqn:Esd.
    + (* the dimension is untouched *)
      apply Nat.eqb_eq in Esd. subst d. cbn [res_bind].
      assert (Ht' : repr t ((pre ++ [s]) ++ dst) f) by (rewrite <- app_assoc; exact Ht).
      destruct (IH (pre ++ [s]) t f Ht') as (r & Er & Hd & Hw & Hf). rewrite Ln in Er, Hf.
      assert (Ea : forall l : list nat, (pre ++ [s]) ++ l = pre ++ s :: l) by (intros l; rewrite <- app_assoc; reflexivity).
      exists r. split; [exact Er|]. rewrite !Ea in Hf. rewrite Ea in Hd.
      split; [exact Hd|]. split; [exact Hw|]. intros i Hi. rewrite (Hf i Hi).
      cbn [redDims]. rewrite Nat.eqb_refl. cbn [app]. f_equal.
      apply push_ext; [|reflexivity]. intros j Hj.
      apply validIdx_app_inv in Hj as (a & q0 & -> & Ha & Hq0).
      apply validIdx_cons in Hq0 as (k & q & -> & Hk & Hq).
      pose proof (validIdx_length _ _ Ha) as La.
      rewrite (pj_S n src a k q La), (pj_c n s src a k q La). f_equal. f_equal.
      destruct (Nat.eqb_spec s 1); [lia|reflexivity].
    + (* size 1 in the operand, d > 1 in the result: SumAlong(n) then UnSqueeze(n) *)
      apply Nat.eqb_neq in Esd. destruct Hsd as [Hsd|Hsd]; [contradiction|]. subst s.
      set (ds := pre ++ d :: dst) in *.
      assert (Ld : (n < length ds)%nat) by (unfold ds; rewrite app_length; cbn; lia).
      destruct (redAlong_repr rd t ds f n Ht Ld) as (r1 & E1 & H1). rewrite E1. cbn [res_bind].
      assert (End : nth n ds 0%nat = d) by (unfold ds, n; apply nth_middle).
      assert (Edel : del n ds = pre ++ dst) by (apply del_app_exact; reflexivity).
      rewrite End, Edel in H1.
      destruct (unsqueeze_repr r1 (pre ++ dst) _ n H1 ltac:(rewrite app_length; lia)) as (r2 & E2 & H2).
      rewrite E2. cbn [res_bind].
      rewrite (ins_app_exact pre 1%nat dst n eq_refl) in H2.
      change (pre ++ 1%nat :: dst) with (pre ++ [1%nat] ++ dst) in H2. rewrite app_assoc in H2.
      destruct (IH (pre ++ [1%nat]) r2 _ H2) as (r & Er & Hd & Hw & Hf). rewrite Ln in Er, Hf.
      assert (Ea : forall l : list nat, (pre ++ [1%nat]) ++ l = pre ++ 1%nat :: l) by (intros l; rewrite <- app_assoc; reflexivity).
      exists r. split; [exact Er|]. rewrite !Ea in Hf. rewrite Ea in Hd.
      split; [exact Hd|]. split; [exact Hw|]. intros i Hi. rewrite (Hf i Hi).
      cbn [redDims]. destruct (Nat.eqb_spec 1 d) as [Hc|_]; [contradiction|]. cbn [app rdcs].
      set (ds1 := pre ++ 1%nat :: dst).
      set (zeroAt := fun m : list nat => ins n 0%nat (del n m)).
      (* the tensor after the two steps, as a pushforward of the tensor before *)
      rewrite (push_ext ds1 (pj (S n) src) (pj (S n) src) _ (fun j => rdc rd d * push ds zeroAt f j) i); [|reflexivity|].
      2:{ intros j Hj.
          assert (Hdj : validIdx (pre ++ dst) (del n j)).
          { rewrite <- (del_app_exact pre 1%nat dst n eq_refl). apply validIdx_del, Hj. }
          rewrite <- Edel in Hdj. pose proof (sum_del n ds f (del n j) Ld Hdj) as Es. rewrite End in Es.
          rewrite <- Es. f_equal.
          apply sumIdx_ext. intros m Hm.
          assert (E : idx_eqb (del n m) (del n j) = idx_eqb (zeroAt m) j); [|rewrite E; reflexivity].
          pose proof Hj as Hj'. apply validIdx_app_inv in Hj' as (a & q0 & -> & Ha & Hq0).
          apply validIdx_cons in Hq0 as (k & q & -> & Hk & Hq). assert (k = 0%nat) by lia. subst k.
          pose proof (validIdx_length _ _ Ha) as La. fold n in La.
          apply bool_eq_iff. rewrite !idx_eqb_eq. unfold zeroAt. rewrite (del_app_exact a 0%nat q n La). split.
          - intros ->. apply ins_app_exact, La.
          - intros Ez. apply (f_equal (del n)) in Ez. rewrite (del_app_exact a 0%nat q n La) in Ez.
            rewrite del_ins in Ez; [exact Ez|].
            rewrite Edel in Hdj. pose proof (validIdx_length _ _ (validIdx_del n ds m Hm)) as Lm.
            rewrite Edel, app_length in Lm. lia. }
      rewrite push_scal.
      rewrite (push_comp ds ds1 zeroAt (pj (S n) src) f i).
      2:{ intros m Hm. apply validIdx_app_inv in Hm as (a & q0 & -> & Ha & Hq0).
          apply validIdx_cons in Hq0 as (k & q & -> & Hk & Hq).
          pose proof (validIdx_length _ _ Ha) as La. fold n in La.
          unfold zeroAt, ds1. rewrite (del_app_exact a k q n La), (ins_app_exact a 0%nat q n La).
          apply Forall2_app; [exact Ha|]. constructor; [lia|exact Hq]. }
      rewrite (push_ext ds (fun m => pj (S n) src (zeroAt m)) (pj n (1%nat :: src)) f f i); [ring| |reflexivity].
      intros m Hm. apply validIdx_app_inv in Hm as (a & q0 & -> & Ha & Hq0).
      apply validIdx_cons in Hq0 as (k & q & -> & Hk & Hq).
      pose proof (validIdx_length _ _ Ha) as La. fold n in La.
      unfold zeroAt. rewrite (del_app_exact a k q n La), (ins_app_exact a 0%nat q n La).
      rewrite (pj_S n src a 0%nat q La), (pj_c n 1%nat src a k q La). reflexivity.
Qed.

(* ---------- the whole back edge ---------- *)

Lemma validIdx_skipn n : forall ds j, validIdx ds j -> validIdx (skipn n ds) (skipn n j).
Proof.
  induction n as [|n IH]; intros ds j H; [exact H|].
  destruct H as [|k d j ds Hk H]; cbn [skipn]; [constructor|apply IH, H].
Qed.

(* the accumulated factor: 1 for SumAlong; for AvgAlong the inverse of the product of the reduced sizes *)
Definition bfac (rd : bred) (src shape : list nat) : R :=
  rdcs rd (firstn (length shape - length src) shape) *
  rdcs rd (redDims src (skipn (length shape - length src) shape)).

Theorem bcastBack_char rd (gy : tensor R) src shape : wf gy -> dims gy = shape -> bcompat src shape ->
  exists g, bcastBack rd gy src shape = Ok g /\ dims g = src /\ wf g /\
    forall i, validIdx src i ->
      elt g i = bfac rd src shape *
                sumIdx shape (fun j => if idx_eqb (bproj src shape j) i then elt gy j else 0).
Proof.
  intros Hw Hd [Hl HF]. unfold bcastBack, bfac. set (L := (length shape - length src)%nat) in *.
  assert (LL : length (firstn L shape) = L) by (apply firstn_length_le; lia).
  assert (Hr : repr gy (firstn L shape ++ skipn L shape) (elt gy)).
  { rewrite firstn_skipn, <- Hd. apply repr_self, Hw. }
  destruct (bcLead_repr rd (firstn L shape) (skipn L shape) gy (elt gy) Hr) as (g1 & E1 & H1).
  rewrite LL in E1, H1. rewrite E1. cbn [res_bind]. rewrite firstn_skipn in H1.
  destruct (bcDims_repr rd src (skipn L shape) HF [] g1 _ H1) as (g & Eg & Hdg & Hwg & Hg).
  cbn [length app] in Eg, Hdg, Hg. exists g. split; [exact Eg|]. split; [exact Hdg|]. split; [exact Hwg|].
  intros i Hi. rewrite (Hg i Hi), push_scal.
  rewrite (push_comp shape (skipn L shape) (skipn L) (pj 0 src) (elt gy) i) by (intros j Hj; apply validIdx_skipn, Hj).
  unfold push, pj, bproj, proj. cbn [firstn skipn app]. fold L. ring.
Qed.

Lemma rdcs_sum l : rdcs RedSum l = 1.
Proof. induction l as [|d l IH]; cbn [rdcs rdc]; [reflexivity|rewrite IH; ring]. Qed.

Lemma rdcs_avg l : rdcs RedAvg l = / INR (prodn l).
Proof.
  induction l as [|d l IH]; cbn [rdcs rdc].
  - change (prodn []) with 1%nat. change (INR 1) with 1. rewrite Rinv_1. reflexivity.
  - rewrite IH, prodn_cons, mult_INR, Rinv_mult. reflexivity.
Qed.

Lemma redDims_prodn src dst : Forall2 (fun s d => s = d \/ s = 1%nat) src dst ->
  (prodn (redDims src dst) * prodn src = prodn dst)%nat.
Proof.
  induction 1 as [|s d src dst Hsd HF IH]; [reflexivity|]. cbn [redDims].
  destruct (Nat.eqb_spec s d) as [->|Hne]; cbn [app]; rewrite !prodn_cons.
  - rewrite <- IH. lia.
  - destruct Hsd as [Hsd|Hsd]; [contradiction|]. subst s. rewrite <- IH. lia.
Qed.

Lemma bfac_sum src shape : bfac RedSum src shape = 1.
Proof. unfold bfac. rewrite !rdcs_sum. ring. Qed.

(* the expansion factor: how many positions of the result every operand element was copied to *)
Lemma bfac_avg src shape : bcompat src shape -> allpos shape ->
  bfac RedAvg src shape = / INR (prodn shape / prodn src).
Proof.
  intros [Hl HF] Hp. unfold bfac. set (L := (length shape - length src)%nat) in *.
  rewrite !rdcs_avg, <- Rinv_mult, <- mult_INR. f_equal. f_equal.
  pose proof (redDims_prodn src (skipn L shape) HF) as E.
  pose proof (prodn_split L shape) as E2.
  assert (Hpos : (0 < prodn (skipn L shape))%nat) by (apply prodn_pos, (allpos_split L shape Hp)).
  assert (Hs : prodn src <> 0%nat) by (intros Z; rewrite Z in E; lia).
  rewrite E2, <- E, Nat.mul_assoc. symmetry. apply Nat.div_mul, Hs.
Qed.

(* C07: with SumAlong the Broadcast back edge is the vector-Jacobian product: every operand
   element receives the sum of the upstream gradient over all positions it was copied to.
   Covers new leading dimensions, expanded size-1 dimensions, both, and neither (shape = dims xv). *)
Theorem vjp_broadcast_sum (h : heap) (y x : nat) (xv yv gy : tensor R) :
  valOf h x = Some xv -> valOf h y = Some yv -> gradOf h y = Some gy ->
  wf gy -> dims gy = dims yv -> bcompat (dims xv) (dims yv) ->
  exists g, eval_rule RedSum h (RBroadcast y x) = Ok g /\ dims g = dims xv /\ wf g /\
    (forall i, validIdx (dims xv) i ->
       elt g i = sumIdx (dims yv) (fun j => if idx_eqb (bproj (dims xv) (dims yv) j) i then elt gy j else 0)) /\
    is_vjp (dims xv) (dims yv) (fun a j => a (bproj (dims xv) (dims yv) j)) (elt xv) (elt gy) (elt g).
Proof.
  intros Ex Eyv Ey Hwg Hdg Hc. cbn [eval_rule].
  rewrite (heap_gy h y gy Ey), (heap_val h x xv Ex), (heap_val h y yv Eyv). cbn [res_bind].
  destruct (bcastBack_char RedSum gy (dims xv) (dims yv) Hwg Hdg Hc) as (g & Eg & Hd & Hw & Hel).
  exists g. split; [exact Eg|]. split; [exact Hd|]. split; [exact Hw|].
  assert (Hel' : forall i, validIdx (dims xv) i ->
     elt g i = sumIdx (dims yv) (fun j => if idx_eqb (bproj (dims xv) (dims yv) j) i then elt gy j else 0)).
  { intros i Hi. rewrite (Hel i Hi), bfac_sum. ring. }
  split; [exact Hel'|]. apply vjp_gather. exact Hel'.
Qed.

(* known finding D2: the pinned library reduces with AvgAlong; the result is the same sum divided by
   the expansion factor *)
Theorem broadcast_avg_char (h : heap) (y x : nat) (xv yv gy : tensor R) :
  valOf h x = Some xv -> valOf h y = Some yv -> gradOf h y = Some gy ->
  wf gy -> dims gy = dims yv -> bcompat (dims xv) (dims yv) ->
  exists g, eval_rule RedAvg h (RBroadcast y x) = Ok g /\ dims g = dims xv /\ wf g /\
    forall i, validIdx (dims xv) i ->
      elt g i = sumIdx (dims yv) (fun j => if idx_eqb (bproj (dims xv) (dims yv) j) i then elt gy j else 0)
                / INR (prodn (dims yv) / prodn (dims xv)).
Proof.
  intros Ex Eyv Ey Hwg Hdg Hc. cbn [eval_rule].
  rewrite (heap_gy h y gy Ey), (heap_val h x xv Ex), (heap_val h y yv Eyv). cbn [res_bind].
  destruct (bcastBack_char RedAvg gy (dims xv) (dims yv) Hwg Hdg Hc) as (g & Eg & Hd & Hw & Hel).
  exists g. split; [exact Eg|]. split; [exact Hd|]. split; [exact Hw|].
  intros i Hi. rewrite (Hel i Hi), bfac_avg; [unfold Rdiv; ring|exact Hc|].
  rewrite <- Hdg. exact (proj2 Hwg).
Qed.

(* hence the averaged gradient is a vector-Jacobian product only if it agrees with the sum *)
Corollary broadcast_avg_vjp_only_if (h : heap) (y x : nat) (xv yv gy ga : tensor R) :
  valOf h x = Some xv -> valOf h y = Some yv -> gradOf h y = Some gy ->
  wf gy -> dims gy = dims yv -> bcompat (dims xv) (dims yv) ->
  eval_rule RedAvg h (RBroadcast y x) = Ok ga ->
  is_vjp (dims xv) (dims yv) (fun a j => a (bproj (dims xv) (dims yv) j)) (elt xv) (elt gy) (elt ga) ->
  forall i, validIdx (dims xv) i ->
    let S := sumIdx (dims yv) (fun j => if idx_eqb (bproj (dims xv) (dims yv) j) i then elt gy j else 0) in
    S = S / INR (prodn (dims yv) / prodn (dims xv)).
Proof.
  intros Ex Eyv Ey Hwg Hdg Hc Ea Hv i Hi S.
  destruct (broadcast_avg_char h y x xv yv gy Ex Eyv Ey Hwg Hdg Hc) as (g & Eg & _ & _ & Hel).
  assert (g = ga) by congruence. subst g.
  subst S. rewrite <- (Hel i Hi). symmetry. apply (vjp_gather_inv _ _ _ _ _ _ Hv i Hi).
Qed.

(* ---------- a concrete refutation of the averaged rule (known finding D2) ---------- *)
(* operand of shape [2] broadcast to [3;2], upstream gradient all ones: the vector-Jacobian
   product is [3;3] (what SumAlong gives); the pinned AvgAlong gives [1;1] *)
Definition bx0 : tensor R := ofFun [2%nat] (fun _ => 0).
Definition by0 : tensor R := ofFun [3%nat; 2%nat] (fun _ => 0).
Definition bg0 : tensor R := ofFun [3%nat; 2%nat] (fun _ => 1).
Definition bh0 : heap :=
  [mkNode bx0 true false None [] None;
   mkNode by0 true false (Some bg0) [(0%nat, RBroadcast 1 0)] None].

Lemma lsum_bool {X} (l : list X) (hb : X -> bool) (c : R) :
  lsum l (fun j => if hb j then c else 0) = lsum (map hb l) (fun b : bool => if b then c else 0).
Proof. symmetry. apply lsum_map. Qed.

Lemma bsum0 (k : nat) : (k < 2)%nat ->
  sumIdx [3%nat; 2%nat] (fun j => if idx_eqb (bproj [2%nat] [3%nat; 2%nat] j) [k] then elt bg0 j else 0) = 3.
Proof.
  intros Hk.
  transitivity (sumIdx [3%nat; 2%nat] (fun j => if idx_eqb (bproj [2%nat] [3%nat; 2%nat] j) [k] then 1 else 0)).
  { apply sumIdx_ext. intros j Hj. unfold bg0. rewrite (elt_ofFun _ _ _ Hj). reflexivity. }
  change (lsum (allIdx [3%nat; 2%nat]) (fun j => if idx_eqb (bproj [2%nat] [3%nat; 2%nat] j) [k] then 1 else 0) = 3).
  rewrite (lsum_bool (allIdx [3%nat; 2%nat]) (fun j => idx_eqb (bproj [2%nat] [3%nat; 2%nat] j) [k]) 1).
  destruct k as [|[|k]]; [| |lia].
  - replace (map (fun j => idx_eqb (bproj [2%nat] [3%nat; 2%nat] j) [0%nat]) (allIdx [3%nat; 2%nat]))
      with [true; false; true; false; true; false] by (vm_compute; reflexivity).
    unfold lsum. cbn [map fold_right]. ring.
  - replace (map (fun j => idx_eqb (bproj [2%nat] [3%nat; 2%nat] j) [1%nat]) (allIdx [3%nat; 2%nat]))
      with [false; true; false; true; false; true] by (vm_compute; reflexivity).
    unfold lsum. cbn [map fold_right]. ring.
Qed.

Theorem broadcast_avg_refuted :
  exists gs ga,
    eval_rule RedSum bh0 (RBroadcast 1 0) = Ok gs /\ eval_rule RedAvg bh0 (RBroadcast 1 0) = Ok ga /\
    elt gs [0%nat] = 3 /\ elt gs [1%nat] = 3 /\ elt ga [0%nat] = 1 /\ elt ga [1%nat] = 1 /\
    is_vjp [2%nat] [3%nat; 2%nat] (fun a j => a (bproj [2%nat] [3%nat; 2%nat] j)) (elt bx0) (elt bg0) (elt gs) /\
    ~ is_vjp [2%nat] [3%nat; 2%nat] (fun a j => a (bproj [2%nat] [3%nat; 2%nat] j)) (elt bx0) (elt bg0) (elt ga).
Proof.
  assert (Hwg : wf bg0) by (apply ofFun_wf; repeat constructor).
  assert (Hc : bcompat (dims bx0) (dims by0)).
  { split; [cbn; lia|]. cbn. repeat constructor. }
  destruct (vjp_broadcast_sum bh0 1 0 bx0 by0 bg0 eq_refl eq_refl eq_refl Hwg eq_refl Hc) as (gs & Es & _ & _ & Hs & Hvs).
  destruct (broadcast_avg_char bh0 1 0 bx0 by0 bg0 eq_refl eq_refl eq_refl Hwg eq_refl Hc) as (ga & Ea & _ & _ & Ha).
  change (dims bx0) with [2%nat] in *. change (dims by0) with [3%nat; 2%nat] in *.
  assert (V0 : validIdx [2%nat] [0%nat]) by (repeat constructor).
  assert (V1 : validIdx [2%nat] [1%nat]) by (repeat constructor).
  assert (E3 : INR (prodn [3%nat; 2%nat] / prodn [2%nat]) = 3).
  { replace (prodn [3%nat; 2%nat] / prodn [2%nat])%nat with 3%nat by (vm_compute; reflexivity). simpl. lra. }
  assert (A0 : elt ga [0%nat] = 1) by (rewrite (Ha _ V0), bsum0, E3 by lia; lra).
  assert (A1 : elt ga [1%nat] = 1) by (rewrite (Ha _ V1), bsum0, E3 by lia; lra).
  exists gs, ga. split; [exact Es|]. split; [exact Ea|].
  split; [rewrite (Hs _ V0); apply bsum0; lia|]. split; [rewrite (Hs _ V1); apply bsum0; lia|].
  split; [exact A0|]. split; [exact A1|]. split; [exact Hvs|].
  intros Hv. pose proof (vjp_gather_inv _ _ _ _ _ _ Hv [0%nat] V0) as E. rewrite bsum0 in E by lia. lra.
Qed.

(* the general theorem at work on both phases: operand [2;1] broadcast to [4;2;3] *)
Definition bx1 : tensor R := ofFun [2%nat; 1%nat] (fun _ => 0).
Definition by1 : tensor R := ofFun [4%nat; 2%nat; 3%nat] (fun _ => 0).
Definition bg1 : tensor R := ofFun [4%nat; 2%nat; 3%nat] (fun j => INR (flatIdx [4%nat; 2%nat; 3%nat] j)).
Definition bh1 : heap :=
  [mkNode bx1 true false None [] None;
   mkNode by1 true false (Some bg1) [(0%nat, RBroadcast 1 0)] None].
Example vjp_broadcast_ex :
  wf bg1 /\ bcompat (dims bx1) (dims by1) /\
  exists g, eval_rule RedSum bh1 (RBroadcast 1 0) = Ok g /\ dims g = [2%nat; 1%nat] /\
    is_vjp [2%nat; 1%nat] [4%nat; 2%nat; 3%nat] (fun a j => a (bproj [2%nat; 1%nat] [4%nat; 2%nat; 3%nat] j))
           (elt bx1) (elt bg1) (elt g).
Proof.
  assert (Hwg : wf bg1) by (apply ofFun_wf; repeat constructor).
  assert (Hc : bcompat (dims bx1) (dims by1)).
  { split; [cbn; lia|]. cbn. constructor; [left; reflexivity|]. constructor; [right; reflexivity|constructor]. }
  split; [exact Hwg|]. split; [exact Hc|].
  destruct (vjp_broadcast_sum bh1 1 0 bx1 by1 bg1 eq_refl eq_refl eq_refl Hwg eq_refl Hc) as (g & Eg & Hd & _ & _ & Hv).
  exists g. split; [exact Eg|]. split; [exact Hd|exact Hv].
Qed.

(* ====================================================================== *)
(* 5. Patch (both operands), Concat, Transpose                            *)
(* ====================================================================== *)

Lemma region_of_ok : forall ci ds, Forall2 (fun r d => (fst r < snd r)%nat /\ (snd r <= d)%nat) ci ds ->
  region ci (sizes ci) ds.
Proof.
  induction 1 as [|r d ci ds Hr HF IH]; cbn [sizes map region]; [exact I|].
  split; [lia|exact IH].
Qed.

(* a slice of the upstream gradient is the vector-Jacobian product for an operand that was
   block-copied into the result: y_j = a_{j - From} inside the block, independent of a outside *)
Definition blockSigma (ci : list range) (dus : list nat) : list nat -> option (list nat) :=
  fun j => if inBlock ci dus j then Some (unshift j ci) else None.

Lemma sum_hits_block ci dus dts (gy : assignment) i : region ci dus dts -> validIdx dus i ->
  sumIdx dts (fun j => if hits (blockSigma ci dus) j i then gy j else 0) = gy (shift i ci).
Proof.
  intros Hreg Hi. destruct (region_shift ci dus dts Hreg i Hi) as (Hv & Hb & Hu).
  apply (sum_hits_one dts (fun j => hits (blockSigma ci dus) j i) gy (shift i ci) Hv).
  - unfold hits, blockSigma. rewrite Hb, Hu. apply idx_eqb_refl.
  - intros j Hj E. unfold hits, blockSigma in E. destruct (inBlock ci dus j) eqn:Eb; [|discriminate].
    apply idx_eqb_eq in E. destruct (inBlock_unshift ci dus dts Hreg j Hj Eb) as [_ Hs].
    rewrite <- Hs, E. reflexivity.
Qed.

Lemma vjp_slice_of_gy (gy : tensor R) (index : list zrange) (c x : assignment) :
  wf gy -> validateSliceIndexAgainstDims index (zdims gy) = true ->
  exists g, v_slice gy index = Ok g /\
    dims g = sizes (completeIndex (rangesOf index) (dims gy)) /\ wf g /\
    (forall i, validIdx (dims g) i -> elt g i = elt gy (shift i (completeIndex (rangesOf index) (dims gy)))) /\
    is_vjp (dims g) (dims gy)
           (gatherF (blockSigma (completeIndex (rangesOf index) (dims gy)) (dims g)) c) x (elt gy) (elt g).
Proof.
  intros Hwg V. destruct (v_slice_spec gy index Hwg) as [H1 _]. destruct (H1 V) as (g & Eg & Hd & Hw & Hg).
  exists g. split; [exact Eg|]. split; [exact Hd|]. split; [exact Hw|].
  set (ci := completeIndex (rangesOf index) (dims gy)) in *.
  assert (Hel : forall i, validIdx (dims g) i -> elt g i = elt gy (shift i ci)).
  { intros i Hi. unfold elt. rewrite (Hg i Hi). reflexivity. }
  split; [exact Hel|].
  assert (Hreg : region ci (dims g) (dims gy)).
  { rewrite Hd. apply region_of_ok. apply completeIndex_ok; [|exact (proj2 Hwg)].
    unfold zdims in V. apply validateSlice_iff in V. apply zsliceOk_nat, V. }
  apply vjp_gather_opt. intros i Hi. rewrite (Hel i Hi). symmetry.
  apply (sum_hits_block ci (dims g) (dims gy)); assumption.
Qed.

(* Concat, per operand: y.Gradient().Slice(index) *)
Theorem vjp_concat (rd : bred) (h : heap) (y : nat) (index : list zrange) (gy : tensor R) (c x : assignment) :
  gradOf h y = Some gy -> wf gy -> validateSliceIndexAgainstDims index (zdims gy) = true ->
  exists g, eval_rule rd h (RConcat y index) = Ok g /\
    dims g = sizes (completeIndex (rangesOf index) (dims gy)) /\ wf g /\
    (forall i, validIdx (dims g) i -> elt g i = elt gy (shift i (completeIndex (rangesOf index) (dims gy)))) /\
    is_vjp (dims g) (dims gy)
           (gatherF (blockSigma (completeIndex (rangesOf index) (dims gy)) (dims g)) c) x (elt gy) (elt g).
Proof.
  intros Ey Hwg V. cbn [eval_rule]. rewrite (heap_gy h y gy Ey). cbn [res_bind].
  apply vjp_slice_of_gy; assumption.
Qed.

(* Patch, source operand (the repaired rule F3): the explicit region the source occupied *)
Lemma patchedRegion_spec : forall dus dts, Forall2 le dus dts -> allpos dus ->
  forall index, zpatchOk index dus dts ->
    zsliceOk (patchedRegion index (map Z.of_nat dus)) dts /\
    completeIndex (rangesOf (patchedRegion index (map Z.of_nat dus))) dts = completeIndex (rangesOf index) dus.
Proof.
  intros dus dts HF. induction HF as [|du dt dus dts Hle HF IH]; intros Hp index Hz.
  - cbn. split; [exact I|reflexivity].
  - inversion Hp as [|? ? Hdu Hp']; subst. destruct index as [|[f t] index]; cbn [map patchedRegion].
    + destruct (IH Hp' [] I) as [I1 I2]. cbn [zsliceOk rangesOf map fst snd completeIndex] in *.
      split; [split; [lia|exact I1]|]. rewrite Nat2Z.id.
      replace ((Z.to_nat 0 =? 0)%nat && (du =? 0)%nat) with false by (symmetry; apply andb_false_iff; right; apply Nat.eqb_neq; lia).
      f_equal. exact I2.
    + cbn [zpatchOk] in Hz. destruct Hz as [H0 Hz]. destruct (IH Hp' index Hz) as [I1 I2].
      destruct ((f =? 0)%Z && (t =? 0)%Z) eqn:E; cbn [zsliceOk rangesOf map fst snd completeIndex] in *.
      * split; [split; [lia|exact I1]|]. rewrite Nat2Z.id.
        replace ((Z.to_nat 0 =? 0)%nat && (du =? 0)%nat) with false by (symmetry; apply andb_false_iff; right; apply Nat.eqb_neq; lia).
        replace ((Z.to_nat f =? 0)%nat && (Z.to_nat t =? 0)%nat) with true by (symmetry; apply andb_true_iff; split; apply Nat.eqb_eq; lia).
        f_equal. exact I2.
      * split; [split; [lia|exact I1]|].
        replace ((Z.to_nat f =? 0)%nat && (Z.to_nat t =? 0)%nat) with false by (symmetry; apply andb_false_iff; right; apply Nat.eqb_neq; lia).
        f_equal. exact I2.
Qed.

Theorem vjp_patch_src (rd : bred) (h : heap) (y p : nat) (index : list zrange) (xv pv gy : tensor R) :
  valOf h p = Some pv -> gradOf h y = Some gy -> wf pv -> wf gy -> dims gy = dims xv ->
  validatePatchIndexAgainstDims index (zdims pv) (zdims xv) = true ->
  exists g, eval_rule rd h (RPatchP y p index) = Ok g /\ dims g = dims pv /\ wf g /\
    (forall i, validIdx (dims pv) i -> elt g i = elt gy (shift i (completeIndex (rangesOf index) (dims pv)))) /\
    is_vjp (dims pv) (dims gy)
           (gatherF (blockSigma (completeIndex (rangesOf index) (dims pv)) (dims pv)) (elt xv))
           (elt pv) (elt gy) (elt g).
Proof.
  intros Ep Ey Hwp Hwg Hdg V. cbn [eval_rule]. rewrite (heap_gy h y gy Ey), (heap_val h p pv Ep). cbn [res_bind].
  unfold zdims in V. apply validatePatch_iff in V as [HF Hz].
  destruct (patchedRegion_spec (dims pv) (dims xv) HF (proj2 Hwp) index Hz) as [Hs Hci].
  rewrite <- Hdg in Hs, Hci, HF, Hz.
  destruct (vjp_slice_of_gy gy (patchedRegion index (zdims pv)) (elt xv) (elt pv) Hwg) as (g & Eg & Hd & Hw & Hel & Hv).
  { unfold zdims. apply validateSlice_iff. exact Hs. }
  unfold zdims in Hd, Hel, Hv at 1. rewrite Hci in Hd, Hel, Hv.
  assert (Hreg : region (completeIndex (rangesOf index) (dims pv)) (dims pv) (dims gy)).
  { apply completeIndex_region; [exact HF|]. apply zpatchOk_nat, Hz. }
  rewrite (region_sizes _ _ _ Hreg) in Hd. rewrite Hd in Hel, Hv.
  exists g. split; [exact Eg|]. split; [exact Hd|]. split; [exact Hw|]. split; [exact Hel|exact Hv].
Qed.

(* Patch, target operand: the upstream gradient with the patched block zeroed *)
Theorem vjp_patch_tgt (rd : bred) (h : heap) (y p : nat) (index : list zrange) (xv pv gy : tensor R) :
  valOf h p = Some pv -> gradOf h y = Some gy -> wf pv -> wf gy -> dims gy = dims xv ->
  validatePatchIndexAgainstDims index (zdims pv) (zdims xv) = true ->
  exists g, eval_rule rd h (RPatchX y p index) = Ok g /\ dims g = dims xv /\ wf g /\
    (forall i, validIdx (dims xv) i ->
       elt g i = if inBlock (completeIndex (rangesOf index) (dims pv)) (dims pv) i then 0 else elt gy i) /\
    is_vjp (dims xv) (dims gy)
           (gatherF (fun j => if inBlock (completeIndex (rangesOf index) (dims pv)) (dims pv) j then None else Some j)
                    (fun j => elt pv (unshift j (completeIndex (rangesOf index) (dims pv)))))
           (elt xv) (elt gy) (elt g).
Proof.
  intros Ep Ey Hwp Hwg Hdg V. cbn [eval_rule]. rewrite (heap_gy h y gy Ey), (heap_val h p pv Ep). cbn [res_bind].
  destruct (toZeros_spec pv Hwp) as (z & Ez & Hdz & Hwz & Hz0). rewrite Ez. cbn [res_bind].
  destruct (v_patch_spec gy z index Hwg Hwz) as [H1 _]. destruct H1 as (g & Eg & Hd & Hw & Hg).
  { unfold zdims. rewrite Hdz, Hdg. exact V. }
  rewrite Hdz in Hg. set (ci := completeIndex (rangesOf index) (dims pv)) in *.
  unfold zdims in V. apply validatePatch_iff in V as [HF Hzp].
  assert (Hreg : region ci (dims pv) (dims xv)).
  { apply completeIndex_region; [exact HF|]. apply zpatchOk_nat, Hzp. }
  exists g. split; [exact Eg|]. split; [congruence|]. split; [exact Hw|].
  assert (Hel : forall i, validIdx (dims xv) i -> elt g i = if inBlock ci (dims pv) i then 0 else elt gy i).
  { intros i Hi. unfold elt at 1. rewrite Hg by (rewrite Hdg; exact Hi).
    destruct (inBlock ci (dims pv) i) eqn:Eb; [|reflexivity].
    destruct (inBlock_unshift ci (dims pv) (dims xv) Hreg i Hi Eb) as [Hv _]. exact (Hz0 _ Hv). }
  split; [exact Hel|]. rewrite Hdg.
  apply vjp_gather_opt. intros i Hi. rewrite (Hel i Hi). symmetry.
  destruct (inBlock ci (dims pv) i) eqn:Eb.
  - apply sum_hits_none. intros j Hj. unfold hits. destruct (inBlock ci (dims pv) j) eqn:Ej; [reflexivity|].
    apply idx_eqb_neq. intros ->. congruence.
  - apply (sum_hits_one (dims xv) (fun j => hits (fun j0 => if inBlock ci (dims pv) j0 then None else Some j0) j i) (elt gy) i Hi).
    + unfold hits. rewrite Eb. apply idx_eqb_refl.
    + intros j Hj E. unfold hits in E. destruct (inBlock ci (dims pv) j); [discriminate|]. apply idx_eqb_eq, E.
Qed.

(* Transpose: y.Gradient().Transpose() *)
Theorem vjp_transpose (rd : bred) (h : heap) (y : nat) (xv gy : tensor R) :
  gradOf h y = Some gy -> wf gy -> (2 <= length (dims xv))%nat -> dims gy = transposeDims (dims xv) ->
  exists g, eval_rule rd h (RTranspose y) = Ok g /\ dims g = dims xv /\ wf g /\
    (forall i, validIdx (dims xv) i -> elt g i = elt gy (transposeDims i)) /\
    is_vjp (dims xv) (dims gy) (fun a j => a (transposeDims j)) (elt xv) (elt gy) (elt g).
Proof.
  intros Ey Hwg Hrank Hdg. cbn [eval_rule]. rewrite (heap_gy h y gy Ey). cbn [res_bind].
  unfold v_transpose, guard.
  assert (Hr : (2 <= length (dims gy))%nat) by (rewrite Hdg, transposeDims_length; exact Hrank).
  rewrite (proj2 (validateTransposeDims_rank R gy) Hr).
  destruct (transpose_get R gy Hwg) as (g & Eg & Hd & Hw & Hg). rewrite Eg. cbn [of_opt].
  rewrite Hdg, transposeDims_invol in Hd, Hg.
  exists g. split; [reflexivity|]. split; [exact Hd|]. split; [exact Hw|].
  assert (Hel : forall i, validIdx (dims xv) i -> elt g i = elt gy (transposeDims i)).
  { intros i Hi. unfold elt. rewrite (Hg i Hi). reflexivity. }
  split; [exact Hel|]. apply vjp_gather. intros i Hi. rewrite (Hel i Hi). symmetry.
  assert (Hv : validIdx (dims gy) (transposeDims i)) by (rewrite Hdg; apply validIdx_transposeDims, Hi).
  apply (sum_hits_one (dims gy) (fun j => idx_eqb (transposeDims j) i) (elt gy) (transposeDims i) Hv).
  - apply idx_eqb_eq, transposeDims_invol.
  - intros j Hj E. apply idx_eqb_eq in E. rewrite <- E. symmetry. apply transposeDims_invol.
Qed.

(* ====================================================================== *)
(* 6. the same theorems under the forward call's precondition             *)
(*    (the forward call returned Ok; the upstream gradient has the shape  *)
(*    of the forward result).  Each also states that the forward result   *)
(*    is the gather the VJP is taken of.                                  *)
(* ====================================================================== *)

Theorem vjp_slice_fwd (rd : bred) (h : heap) (y x : nat) (index : list zrange) (xv yv gy : tensor R) :
  valOf h x = Some xv -> gradOf h y = Some gy -> wf xv -> v_slice xv index = Ok yv ->
  wf gy -> dims gy = dims yv ->
  let ci := completeIndex (rangesOf index) (dims xv) in
  (forall j, validIdx (dims yv) j -> elt yv j = elt xv (shift j ci)) /\
  exists g, eval_rule rd h (RSliceX y x index) = Ok g /\ dims g = dims xv /\ wf g /\
    is_vjp (dims xv) (dims yv) (fun a j => a (shift j ci)) (elt xv) (elt gy) (elt g).
Proof.
  intros Ex Ey Hwx Ev Hwg Hdg ci. destruct (v_slice_spec xv index Hwx) as [H1 H2].
  destruct (validateSliceIndexAgainstDims index (zdims xv)) eqn:V; [|rewrite (H2 eq_refl) in Ev; discriminate].
  destruct (H1 eq_refl) as (r & Er & Hd & _ & Hg). assert (r = yv) by congruence. subst r. split.
  - intros j Hj. unfold elt. rewrite (Hg j Hj). reflexivity.
  - destruct (vjp_slice rd h y x index xv gy Ex Ey Hwx V Hwg ltac:(congruence)) as (g & Eg & Hdg' & Hw & _ & Hv).
    rewrite Hdg in Hv. exists g. split; [exact Eg|]. split; [assumption|]. split; [exact Hw|exact Hv].
Qed.

Lemma reshaped_prodn (xv yv : tensor R) shape : wf xv -> reshaped R xv yv shape -> prodn (dims yv) = prodn (dims xv).
Proof.
  intros [Hwx _] (_ & [Hwy _] & Hf).
  rewrite <- (flat_length R _ _ Hwy), <- (flat_length R _ _ Hwx), Hf. reflexivity.
Qed.

(* Reshape, UnSqueeze, Squeeze and Flatten all install the rule RReshape *)
Definition reshapeCall (xv yv : tensor R) : Prop :=
  (exists shape, v_reshape xv shape = Ok yv) \/ (exists dim, v_unsqueeze xv dim = Ok yv) \/
  (exists dim, v_squeeze xv dim = Ok yv) \/ (exists dim, v_flatten xv dim = Ok yv).

Lemma reshapeCall_reshaped (xv yv : tensor R) : wf xv -> reshapeCall xv yv -> exists shape, reshaped R xv yv shape.
Proof.
  intros Hwx [(shape & E)|[(dim & E)|[(dim & E)|(dim & E)]]].
  - destruct (v_reshape_spec R xv shape Hwx) as [H1 H2].
    destruct (validateInputDims shape && validateReshape (zdims xv) shape);
      [|rewrite (H2 eq_refl) in E; discriminate].
    destruct (H1 eq_refl) as (r & Er & Hr). assert (r = yv) by congruence. subst r. eexists; exact Hr.
  - destruct (v_unsqueeze_spec R xv dim Hwx) as [H1 H2].
    destruct (validateUnSqueezeDim dim (zdims xv)); [|rewrite (H2 eq_refl) in E; discriminate].
    destruct (H1 eq_refl) as (r & Er & Hr). assert (r = yv) by congruence. subst r. eexists; exact Hr.
  - destruct (v_squeeze_spec R xv dim Hwx) as [H1 H2].
    destruct (validateSqueezeDim dim (zdims xv)); [|rewrite (H2 eq_refl) in E; discriminate].
    destruct (H1 eq_refl) as (r & Er & Hr). assert (r = yv) by congruence. subst r. eexists; exact Hr.
  - destruct (v_flatten_spec R xv dim Hwx) as [H1 H2].
    destruct (validateFlattenDim dim (zdims xv)); [|rewrite (H2 eq_refl) in E; discriminate].
    destruct (H1 eq_refl) as (r & Er & Hr). assert (r = yv) by congruence. subst r. eexists; exact Hr.
Qed.

Theorem vjp_reshape_fwd (rd : bred) (h : heap) (y x : nat) (xv yv gy : tensor R) :
  valOf h x = Some xv -> gradOf h y = Some gy -> wf xv -> reshapeCall xv yv ->
  wf gy -> dims gy = dims yv ->
  (forall j, validIdx (dims yv) j -> elt yv j = elt xv (unflatIdx (dims xv) (flatIdx (dims yv) j))) /\
  exists g, eval_rule rd h (RReshape y x) = Ok g /\ dims g = dims xv /\ wf g /\
    is_vjp (dims xv) (dims yv) (fun a j => a (unflatIdx (dims xv) (flatIdx (dims yv) j)))
           (elt xv) (elt gy) (elt g).
Proof.
  intros Ex Ey Hwx Hcall Hwg Hdg. destruct (reshapeCall_reshaped xv yv Hwx Hcall) as (shape & Hr).
  pose proof (reshaped_prodn xv yv shape Hwx Hr) as Hn. split.
  - destruct Hr as (Hd & Hwy & Hf). rewrite Hd in *.
    apply (reshaped_elt xv yv shape Hwx); [split; [exact Hd|split; assumption]|exact Hn].
  - destruct (vjp_reshape rd h y x xv gy Ex Ey Hwx Hwg ltac:(congruence)) as (g & Eg & Hd & Hw & _ & Hv).
    rewrite Hdg in Hv. exists g. split; [exact Eg|]. split; [assumption|]. split; [exact Hw|exact Hv].
Qed.

Theorem vjp_broadcast_fwd (h : heap) (y x : nat) (shape : list Z) (xv yv gy : tensor R) :
  valOf h x = Some xv -> valOf h y = Some yv -> gradOf h y = Some gy -> wf xv ->
  v_broadcast xv shape = Ok yv -> wf gy -> dims gy = dims yv ->
  (forall j, validIdx (dims yv) j -> elt yv j = elt xv (bproj (dims xv) (dims yv) j)) /\
  (exists g, eval_rule RedSum h (RBroadcast y x) = Ok g /\ dims g = dims xv /\ wf g /\
     is_vjp (dims xv) (dims yv) (fun a j => a (bproj (dims xv) (dims yv) j)) (elt xv) (elt gy) (elt g)) /\
  (exists g, eval_rule RedAvg h (RBroadcast y x) = Ok g /\ dims g = dims xv /\ wf g /\
     forall i, validIdx (dims xv) i ->
       elt g i = sumIdx (dims yv) (fun j => if idx_eqb (bproj (dims xv) (dims yv) j) i then elt gy j else 0)
                 / INR (prodn (dims yv) / prodn (dims xv))).
Proof.
  intros Ex Eyv Ey Hwx Ev Hwg Hdg. destruct (v_broadcast_spec R xv shape Hwx) as [H1 H2].
  destruct (validateInputDims shape && validateBroadcast (zdims xv) shape) eqn:V;
    [|rewrite (H2 eq_refl) in Ev; discriminate].
  destruct (H1 eq_refl) as (r & Er & Hd & Hwy & Hg). assert (r = yv) by congruence. subst r.
  apply validateBroadcast_shape_iff in V as (ns & -> & _ & Hc). rewrite natsOf_of_nat in Hd, Hg. subst ns.
  split; [|split].
  - intros j Hj. unfold elt. rewrite (Hg j Hj). reflexivity.
  - destruct (vjp_broadcast_sum h y x xv yv gy Ex Eyv Ey Hwg Hdg Hc) as (g & Eg & Hd & Hw & _ & Hv).
    exists g. split; [exact Eg|]. split; [exact Hd|]. split; [exact Hw|exact Hv].
  - apply (broadcast_avg_char h y x xv yv gy Ex Eyv Ey Hwg Hdg Hc).
Qed.

Theorem vjp_patch_fwd (rd : bred) (h : heap) (y p : nat) (index : list zrange) (xv pv yv gy : tensor R) :
  valOf h p = Some pv -> gradOf h y = Some gy -> wf xv -> wf pv -> v_patch xv index pv = Ok yv ->
  wf gy -> dims gy = dims yv ->
  let ci := completeIndex (rangesOf index) (dims pv) in
  dims yv = dims xv /\
  (forall j, validIdx (dims yv) j ->
     elt yv j = if inBlock ci (dims pv) j then elt pv (unshift j ci) else elt xv j) /\
  (exists g, eval_rule rd h (RPatchX y p index) = Ok g /\ dims g = dims xv /\ wf g /\
     is_vjp (dims xv) (dims yv)
            (gatherF (fun j => if inBlock ci (dims pv) j then None else Some j) (fun j => elt pv (unshift j ci)))
            (elt xv) (elt gy) (elt g)) /\
  (exists g, eval_rule rd h (RPatchP y p index) = Ok g /\ dims g = dims pv /\ wf g /\
     is_vjp (dims pv) (dims yv) (gatherF (blockSigma ci (dims pv)) (elt xv)) (elt pv) (elt gy) (elt g)).
Proof.
  intros Ep Ey Hwx Hwp Ev Hwg Hdg ci. destruct (v_patch_spec xv pv index Hwx Hwp) as [H1 H2].
  destruct (validatePatchIndexAgainstDims index (zdims pv) (zdims xv)) eqn:V;
    [|rewrite (H2 eq_refl) in Ev; discriminate].
  destruct (H1 eq_refl) as (r & Er & Hd & _ & Hg). assert (r = yv) by congruence. subst r.
  rewrite Hd in Hdg. split; [exact Hd|]. split; [|split].
  - intros j Hj. rewrite Hd in Hj. unfold elt. rewrite (Hg j Hj). fold ci. destruct (inBlock ci (dims pv) j); reflexivity.
  - destruct (vjp_patch_tgt rd h y p index xv pv gy Ep Ey Hwp Hwg Hdg V) as (g & Eg & Hdg' & Hw & _ & Hv).
    rewrite Hdg in Hv. rewrite Hd. exists g. split; [exact Eg|]. split; [exact Hdg'|]. split; [exact Hw|exact Hv].
  - destruct (vjp_patch_src rd h y p index xv pv gy Ep Ey Hwp Hwg Hdg V) as (g & Eg & Hdg' & Hw & _ & Hv).
    rewrite Hdg in Hv. rewrite Hd. exists g. split; [exact Eg|]. split; [exact Hdg'|]. split; [exact Hw|exact Hv].
Qed.

Theorem vjp_transpose_fwd (rd : bred) (h : heap) (y : nat) (xv yv gy : tensor R) :
  gradOf h y = Some gy -> wf xv -> v_transpose xv = Ok yv -> wf gy -> dims gy = dims yv ->
  (forall j, validIdx (dims yv) j -> elt yv j = elt xv (transposeDims j)) /\
  exists g, eval_rule rd h (RTranspose y) = Ok g /\ dims g = dims xv /\ wf g /\
    is_vjp (dims xv) (dims yv) (fun a j => a (transposeDims j)) (elt xv) (elt gy) (elt g).
Proof.
  intros Ey Hwx Ev Hwg Hdg. unfold v_transpose, guard in Ev.
  destruct (validateTransposeDims (zdims xv)) eqn:V; [|discriminate].
  apply validateTransposeDims_rank in V.
  destruct (transpose_get R xv Hwx) as (r & Er & Hd & _ & Hg). rewrite Er in Ev. cbn [of_opt] in Ev.
  assert (r = yv) by congruence. subst r. split.
  - intros j Hj. rewrite Hd in Hj. unfold elt. rewrite (Hg j Hj). reflexivity.
  - destruct (vjp_transpose rd h y xv gy Ey Hwg V ltac:(congruence)) as (g & Eg & Hdg' & Hw & _ & Hv).
    rewrite Hdg in Hv. exists g. split; [exact Eg|]. split; [assumption|]. split; [exact Hw|exact Hv].
Qed.

(* Concat: the index gradtrack.Concat installs on the edge of the operand that occupies
   [base, base + n) along dimension [length pre] validates against the result's shape, and the
   slice has the operand's shape *)
Definition catIndex (dim : nat) (base sz : Z) (s len : nat) : list zrange :=
  map (fun i => if (i =? dim)%nat then (base, (base + sz)%Z) else (0, 0)%Z) (seq s len).

Lemma concatEdges_index (y dim : nat) (x : nat) (xv : tensor R) rest (base : Z) :
  concatEdges y dim ((x, xv) :: rest) base =
  (x, RConcat y (catIndex dim base (Z.of_nat (nth dim (dims xv) 0%nat)) 0 (length (dims xv))))
    :: concatEdges y dim rest (base + Z.of_nat (nth dim (dims xv) 0%nat))%Z.
Proof. reflexivity. Qed.

Lemma catIndex_post dim base sz : forall post s, (dim < s)%nat ->
  zsliceOk (catIndex dim base sz s (length post)) post /\
  completeIndex (rangesOf (catIndex dim base sz s (length post))) post = map (fun d => (0%nat, d)) post.
Proof.
  unfold catIndex. induction post as [|d post IH]; intros s Hs; cbn [length seq map]; [split; [exact I|reflexivity]|].
  destruct (Nat.eqb_spec s dim) as [E|_]; [lia|]. destruct (IH (S s) ltac:(lia)) as [I1 I2].
  cbn [zsliceOk rangesOf map fst snd completeIndex]. split; [split; [left; split; reflexivity|exact I1]|].
  cbn. f_equal. exact I2.
Qed.

Lemma catIndex_pre post n base total : (0 < n)%nat -> (base + n <= total)%nat -> forall pre s,
  let index := catIndex (s + length pre) (Z.of_nat base) (Z.of_nat n) s (length (pre ++ n :: post)) in
  zsliceOk index (pre ++ total :: post) /\
  completeIndex (rangesOf index) (pre ++ total :: post)
  = map (fun d => (0%nat, d)) pre ++ (base, (base + n)%nat) :: map (fun d => (0%nat, d)) post.
Proof.
  intros Hn Hb. induction pre as [|a pre IH]; intros s; cbn zeta.
  - cbn [app length]. rewrite Nat.add_0_r. unfold catIndex. cbn [seq map]. rewrite Nat.eqb_refl.
    destruct (catIndex_post s (Z.of_nat base) (Z.of_nat n) post (S s) ltac:(lia)) as [I1 I2].
    unfold catIndex in I1, I2. cbn [zsliceOk rangesOf map fst snd completeIndex]. split; [split; [right; lia|exact I1]|].
    replace ((Z.to_nat (Z.of_nat base) =? 0)%nat && (Z.to_nat (Z.of_nat base + Z.of_nat n) =? 0)%nat) with false
      by (symmetry; apply andb_false_iff; right; apply Nat.eqb_neq; lia).
    unfold rangesOf in I2. rewrite I2. rewrite <- Nat2Z.inj_add, !Nat2Z.id. reflexivity.
  - cbn [app length]. unfold catIndex. cbn [seq map].
    destruct (Nat.eqb_spec s (s + S (length pre))) as [E|_]; [lia|].
    specialize (IH (S s)). cbn zeta in IH. replace (S s + length pre)%nat with (s + S (length pre))%nat in IH by lia.
    destruct IH as [I1 I2]. unfold catIndex in I1, I2.
    cbn [zsliceOk rangesOf map fst snd completeIndex]. split; [split; [left; split; reflexivity|exact I1]|].
    cbn. f_equal. exact I2.
Qed.

Theorem vjp_concat_edge (rd : bred) (h : heap) (y : nat) (gy : tensor R) pre post (n base total : nat)
        (c x : assignment) :
  gradOf h y = Some gy -> wf gy -> dims gy = pre ++ total :: post -> (0 < n)%nat -> (base + n <= total)%nat ->
  let index := catIndex (length pre) (Z.of_nat base) (Z.of_nat n) 0 (length (pre ++ n :: post)) in
  let ci := map (fun d => (0%nat, d)) pre ++ (base, (base + n)%nat) :: map (fun d => (0%nat, d)) post in
  exists g, eval_rule rd h (RConcat y index) = Ok g /\ dims g = pre ++ n :: post /\ wf g /\
    (forall i, validIdx (pre ++ n :: post) i -> elt g i = elt gy (shift i ci)) /\
    is_vjp (pre ++ n :: post) (dims gy) (gatherF (blockSigma ci (pre ++ n :: post)) c) x (elt gy) (elt g).
Proof.
  intros Ey Hwg Hdg Hn Hb index ci.
  destruct (catIndex_pre post n base total Hn Hb pre 0) as [Hz Hci]. cbn zeta in Hz, Hci. cbn [Nat.add] in Hz, Hci.
  fold index in Hz, Hci. fold ci in Hci.
  destruct (vjp_concat rd h y index gy c x Ey Hwg) as (g & Eg & Hd & Hw & Hel & Hv).
  { unfold zdims. rewrite Hdg. apply validateSlice_iff, Hz. }
  rewrite Hdg, Hci in Hd, Hel, Hv.
  assert (Es : sizes ci = pre ++ n :: post).
  { pose proof (sizes_nil_index pre) as P1. pose proof (sizes_nil_index post) as P2.
    unfold ci. unfold sizes in P1, P2 |- *. rewrite map_app. cbn [map]. rewrite P1, P2. cbn [fst snd].
    f_equal. f_equal. lia. }
  rewrite Es in Hd. rewrite Hd in Hel, Hv. rewrite <- Hdg in Hv.
  exists g. split; [exact Eg|]. split; [exact Hd|]. split; [exact Hw|]. split; [exact Hel|exact Hv].
Qed.

(* ====================================================================== *)
(* non-vacuity: hand-built heaps satisfying the hypotheses                *)
(* ====================================================================== *)
Definition val2 (j : list nat) : R := INR (flatIdx [9%nat; 9%nat; 9%nat] j).
Definition mkLeaf (v : tensor R) : node := mkNode v true false None [] None.
Definition mkRes (v g : tensor R) (es : list (nat * rule)) : node := mkNode v true false (Some g) es None.

Lemma wf_ofFun_ex ds (f : assignment) : allpos ds -> wf (ofFun ds f).
Proof. apply ofFun_wf. Qed.

(* Reshape [2;3] -> [3;2] *)
Example vjp_reshape_ex :
  let xv := ofFun [2%nat; 3%nat] val2 in let gy := ofFun [3%nat; 2%nat] val2 in
  let h := [mkLeaf xv; mkRes (ofFun [3%nat; 2%nat] val2) gy [(0%nat, RReshape 1 0)]] in
  exists g, eval_rule RedSum h (RReshape 1 0) = Ok g /\ dims g = [2%nat; 3%nat] /\
            elt g [1%nat; 0%nat] = val2 [1%nat; 1%nat] /\
            is_vjp [2%nat; 3%nat] [3%nat; 2%nat]
                   (fun a j => a (unflatIdx [2%nat; 3%nat] (flatIdx [3%nat; 2%nat] j))) (elt xv) (elt gy) (elt g).
Proof.
  intros xv gy h.
  assert (Hwx : wf xv) by (apply wf_ofFun_ex; repeat constructor).
  assert (Hwg : wf gy) by (apply wf_ofFun_ex; repeat constructor).
  destruct (vjp_reshape RedSum h 1 0 xv gy eq_refl eq_refl Hwx Hwg eq_refl) as (g & Eg & Hd & _ & Hel & Hv).
  exists g. split; [exact Eg|]. split; [exact Hd|]. split; [|exact Hv].
  rewrite (Hel [1%nat; 0%nat]) by (repeat constructor).
  replace (unflatIdx (dims gy) (flatIdx (dims xv) [1%nat; 0%nat])) with [1%nat; 1%nat] by (vm_compute; reflexivity).
  apply elt_ofFun. repeat constructor.
Qed.

(* Slice of [3;4] at rows 1..3 (second range omitted = whole dimension) *)
Example vjp_slice_ex :
  let xv := ofFun [3%nat; 4%nat] val2 in let gy := ofFun [2%nat; 4%nat] val2 in
  let h := [mkLeaf xv; mkRes gy gy [(0%nat, RSliceX 1 0 [(1, 3)%Z])]] in
  exists g, eval_rule RedSum h (RSliceX 1 0 [(1, 3)%Z]) = Ok g /\ dims g = [3%nat; 4%nat] /\
            elt g [0%nat; 2%nat] = 0 /\ elt g [2%nat; 3%nat] = val2 [1%nat; 3%nat] /\
            is_vjp [3%nat; 4%nat] [2%nat; 4%nat]
                   (fun a j => a (shift j [(1, 3); (0, 4)]%nat)) (elt xv) (elt gy) (elt g).
Proof.
  intros xv gy h.
  assert (Hwx : wf xv) by (apply wf_ofFun_ex; repeat constructor).
  assert (Hwg : wf gy) by (apply wf_ofFun_ex; repeat constructor).
  destruct (vjp_slice RedSum h 1 0 [(1, 3)%Z] xv gy eq_refl eq_refl Hwx eq_refl Hwg eq_refl)
    as (g & Eg & Hd & _ & Hel & Hv).
  exists g. split; [exact Eg|]. split; [exact Hd|].
  split; [rewrite (Hel [0%nat; 2%nat]) by (repeat constructor); reflexivity|].
  split; [|exact Hv].
  rewrite (Hel [2%nat; 3%nat]) by (repeat constructor).
  replace (inBlock (completeIndex (rangesOf [(1, 3)%Z]) (dims xv)) (dims gy) [2%nat; 3%nat]) with true by (vm_compute; reflexivity).
  replace (unshift [2%nat; 3%nat] (completeIndex (rangesOf [(1, 3)%Z]) (dims xv))) with [1%nat; 3%nat] by (vm_compute; reflexivity).
  apply elt_ofFun. repeat constructor.
Qed.

(* Patch of a [2;2] source into a [3;4] target at rows 1..3, columns 2..4 *)
Example vjp_patch_ex :
  let xv := ofFun [3%nat; 4%nat] val2 in let pv := ofFun [2%nat; 2%nat] val2 in let gy := ofFun [3%nat; 4%nat] val2 in
  let index := [(1, 3); (2, 4)]%Z in
  let h := [mkLeaf xv; mkLeaf pv; mkRes xv gy [(0%nat, RPatchX 2 1 index); (1%nat, RPatchP 2 1 index)]] in
  (exists g, eval_rule RedSum h (RPatchX 2 1 index) = Ok g /\ dims g = [3%nat; 4%nat] /\
             elt g [1%nat; 2%nat] = 0 /\ elt g [0%nat; 2%nat] = val2 [0%nat; 2%nat]) /\
  (exists g, eval_rule RedSum h (RPatchP 2 1 index) = Ok g /\ dims g = [2%nat; 2%nat] /\
             elt g [1%nat; 0%nat] = val2 [2%nat; 2%nat]).
Proof.
  intros xv pv gy index h.
  assert (Hwp : wf pv) by (apply wf_ofFun_ex; repeat constructor).
  assert (Hwg : wf gy) by (apply wf_ofFun_ex; repeat constructor).
  split.
  - destruct (vjp_patch_tgt RedSum h 2 1 index xv pv gy eq_refl eq_refl Hwp Hwg eq_refl eq_refl)
      as (g & Eg & Hd & _ & Hel & _).
    exists g. split; [exact Eg|]. split; [exact Hd|]. split.
    + rewrite (Hel [1%nat; 2%nat]) by (repeat constructor). reflexivity.
    + rewrite (Hel [0%nat; 2%nat]) by (repeat constructor).
      replace (inBlock (completeIndex (rangesOf index) (dims pv)) (dims pv) [0%nat; 2%nat]) with false by (vm_compute; reflexivity).
      apply elt_ofFun. repeat constructor.
  - destruct (vjp_patch_src RedSum h 2 1 index xv pv gy eq_refl eq_refl Hwp Hwg eq_refl eq_refl)
      as (g & Eg & Hd & _ & Hel & _).
    exists g. split; [exact Eg|]. split; [exact Hd|].
    rewrite (Hel [1%nat; 0%nat]) by (repeat constructor).
    replace (shift [1%nat; 0%nat] (completeIndex (rangesOf index) (dims pv))) with [2%nat; 2%nat] by (vm_compute; reflexivity).
    apply elt_ofFun. repeat constructor.
Qed.

(* Transpose of [2;3] *)
Example vjp_transpose_ex :
  let xv := ofFun [2%nat; 3%nat] val2 in let gy := ofFun [3%nat; 2%nat] val2 in
  let h := [mkLeaf xv; mkRes gy gy [(0%nat, RTranspose 1)]] in
  exists g, eval_rule RedSum h (RTranspose 1) = Ok g /\ dims g = [2%nat; 3%nat] /\
            elt g [1%nat; 2%nat] = val2 [2%nat; 1%nat].
Proof.
  intros xv gy h.
  assert (Hwg : wf gy) by (apply wf_ofFun_ex; repeat constructor).
  assert (Hrk : (2 <= length (dims xv))%nat) by (cbn; lia).
  destruct (vjp_transpose RedSum h 1 xv gy eq_refl Hwg Hrk eq_refl) as (g & Eg & Hd & _ & Hel & _).
  exists g. split; [exact Eg|]. split; [exact Hd|].
  rewrite (Hel [1%nat; 2%nat]) by (repeat constructor).
  change (transposeDims [1%nat; 2%nat]) with [2%nat; 1%nat]. apply elt_ofFun. repeat constructor.
Qed.

(* Concat of [2;1;2], [2;2;2], [2;1;2] along dimension 1: the edge of the middle operand *)
Example vjp_concat_ex :
  let gy := ofFun [2%nat; 4%nat; 2%nat] val2 in
  let index := [(0, 0); (1, 3); (0, 0)]%Z in
  let h := [mkRes gy gy []] in
  exists g, eval_rule RedSum h (RConcat 0 index) = Ok g /\ dims g = [2%nat; 2%nat; 2%nat] /\
            elt g [1%nat; 0%nat; 1%nat] = val2 [1%nat; 1%nat; 1%nat].
Proof.
  intros gy index h.
  assert (Hwg : wf gy) by (apply wf_ofFun_ex; repeat constructor).
  destruct (vjp_concat RedSum h 0 index gy (fun _ => 0) (fun _ => 0) eq_refl Hwg eq_refl) as (g & Eg & Hd & _ & Hel & _).
  exists g. split; [exact Eg|]. split; [exact Hd|].
  rewrite (Hel [1%nat; 0%nat; 1%nat]) by (rewrite Hd; repeat constructor).
  replace (shift [1%nat; 0%nat; 1%nat] (completeIndex (rangesOf index) (dims gy))) with [1%nat; 1%nat; 1%nat] by (vm_compute; reflexivity).
  apply elt_ofFun. repeat constructor.
Qed.

End Inst.

Print Assumptions vjp_gather.
Print Assumptions vjp_gather_inv.
Print Assumptions vjp_reshape.
Print Assumptions vjp_slice.
Print Assumptions bcastBack_char.
Print Assumptions vjp_broadcast_sum.
Print Assumptions broadcast_avg_char.
Print Assumptions broadcast_avg_refuted.
Print Assumptions vjp_patch_src.
Print Assumptions vjp_patch_tgt.
Print Assumptions vjp_concat.
Print Assumptions vjp_transpose.
Print Assumptions vjp_concat_edge.
Print Assumptions vjp_broadcast_fwd.
Print Assumptions vjp_patch_fwd.
