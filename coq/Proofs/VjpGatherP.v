(* VjpGatherP.v — the backward rules of the "gather" operations are vector-Jacobian products
   (properties C02 and C07).  Every output element of a gather operation is a copy of one
   operand element, y_j = x_{sigma(j)} (Slice, Reshape/UnSqueeze/Squeeze/Flatten, Transpose,
   Broadcast, Concat per operand) or of one of two operands (Patch).  For such an operation the
   vector-Jacobian product is  g_i = Σ_{j : sigma(j) = i} gy_j.
   Instance: the reals, [R_scalar thr draw] for arbitrary thr, draw. *)
From Coq Require Import List Arith ZArith Bool Lia ZifyBool Reals Lra.
From Coquelicot Require Import Coquelicot.
From Qeep Require Import Model.Scalar Model.Nd Model.Fill Model.Data Model.Valid Model.Api Model.Grad.
From Qeep Require Import Spec.RScalar Spec.VjpSpec.
From Qeep Require Import Proofs.NdP Proofs.ElemP Proofs.SliceP Proofs.OdometerP Proofs.ReshapeP
  Proofs.BroadcastP Proofs.ReduceP.
Import ListNotations.
Local Open Scope R_scope.

(* ====================================================================== *)
(* 1. the generic lemma                                                   *)
(* ====================================================================== *)

Lemma sumIdx_zero ds : sumIdx ds (fun _ => 0) = 0.
Proof. unfold sumIdx. apply sum_zero. Qed.

Lemma idx_eqb_refl a : idx_eqb a a = true.
Proof. apply idx_eqb_eq. reflexivity. Qed.

Lemma idx_eqb_neq a b : a <> b -> idx_eqb a b = false.
Proof. intros H. destruct (idx_eqb a b) eqn:E; [|reflexivity]. apply idx_eqb_eq in E. contradiction. Qed.

(* an output element is a copy of the operand element [sigma j], or does not depend on the
   operand at all ([sigma j = None]: a constant [c j], e.g. an element of another operand) *)
Definition gatherF (sigma : list nat -> option (list nat)) (c : assignment) : assignment -> assignment :=
  fun a j => match sigma j with Some k => a k | None => c j end.

Definition hits (sigma : list nat -> option (list nat)) (j i : list nat) : bool :=
  match sigma j with Some k => idx_eqb k i | None => false end.

Lemma gather_partial sigma c x i j :
  is_partial (gatherF sigma c) x i j (if hits sigma j i then 1 else 0).
Proof.
  unfold is_partial, gatherF, hits, perturb. destruct (sigma j) as [k|].
  - destruct (idx_eqb k i).
    + auto_derive; [exact I|ring].
    + auto_derive; [exact I|ring].
  - auto_derive; [exact I|ring].
Qed.

Theorem vjp_gather_opt dsx dsy sigma c (x gy g : assignment) :
  (forall i, validIdx dsx i -> g i = sumIdx dsy (fun j => if hits sigma j i then gy j else 0)) ->
  is_vjp dsx dsy (gatherF sigma c) x gy g.
Proof.
  intros H i Hi. exists (fun j => if hits sigma j i then 1 else 0). split.
  - intros j _. apply gather_partial.
  - rewrite (H i Hi). apply sumIdx_ext. intros j _. destruct (hits sigma j i); ring.
Qed.

(* the converse: the partial derivatives are unique, so a vector-Jacobian product of a gather
   operation IS the sum of the upstream gradient over the copies *)
Theorem vjp_gather_opt_inv dsx dsy sigma c (x gy g : assignment) :
  is_vjp dsx dsy (gatherF sigma c) x gy g ->
  forall i, validIdx dsx i -> g i = sumIdx dsy (fun j => if hits sigma j i then gy j else 0).
Proof.
  intros H i Hi. destruct (H i Hi) as (D & HD & Hg). rewrite Hg. apply sumIdx_ext. intros j Hj.
  pose proof (is_derive_unique _ _ _ (HD j Hj)) as E1.
  pose proof (is_derive_unique _ _ _ (gather_partial sigma c x i j)) as E2.
  unfold is_partial in *. rewrite <- E1, E2. destruct (hits sigma j i); ring.
Qed.

(* total version: y_j = x_{sigma j} *)
Theorem vjp_gather dsx dsy (sigma : list nat -> list nat) (x gy g : assignment) :
  (forall i, validIdx dsx i -> g i = sumIdx dsy (fun j => if idx_eqb (sigma j) i then gy j else 0)) ->
  is_vjp dsx dsy (fun a j => a (sigma j)) x gy g.
Proof.
  intros H. apply (vjp_gather_opt dsx dsy (fun j => Some (sigma j)) (fun _ => 0)). exact H.
Qed.

Theorem vjp_gather_inv dsx dsy (sigma : list nat -> list nat) (x gy g : assignment) :
  is_vjp dsx dsy (fun a j => a (sigma j)) x gy g ->
  forall i, validIdx dsx i -> g i = sumIdx dsy (fun j => if idx_eqb (sigma j) i then gy j else 0).
Proof.
  intros H. apply (vjp_gather_opt_inv dsx dsy (fun j => Some (sigma j)) (fun _ => 0) x). exact H.
Qed.

(* the sum over the copies when there is exactly one copy / no copy *)
Lemma sum_hits_one dsy (hit : list nat -> bool) (gy : assignment) j0 :
  validIdx dsy j0 -> hit j0 = true -> (forall j, validIdx dsy j -> hit j = true -> j = j0) ->
  sumIdx dsy (fun j => if hit j then gy j else 0) = gy j0.
Proof.
  intros Hv H0 Hu. rewrite <- (sumIdx_single dsy j0 gy Hv). apply sumIdx_ext. intros j Hj.
  destruct (hit j) eqn:E.
  - rewrite (Hu j Hj E), idx_eqb_refl. reflexivity.
  - destruct (idx_eqb j j0) eqn:E'; [|reflexivity]. apply idx_eqb_eq in E'. subst j. congruence.
Qed.

Lemma sum_hits_none dsy (hit : list nat -> bool) (gy : assignment) :
  (forall j, validIdx dsy j -> hit j = false) ->
  sumIdx dsy (fun j => if hit j then gy j else 0) = 0.
Proof.
  intros H. transitivity (sumIdx dsy (fun _ => 0)); [|apply sumIdx_zero].
  apply sumIdx_ext. intros j Hj. rewrite (H j Hj). reflexivity.
Qed.

(* corollary for an injective sigma *)
Corollary vjp_gather_inj dsx dsy (sigma : list nat -> list nat) (x gy g : assignment) :
  (forall j j', validIdx dsy j -> validIdx dsy j' -> sigma j = sigma j' -> j = j') ->
  (forall j, validIdx dsy j -> g (sigma j) = gy j) ->
  (forall i, validIdx dsx i -> (forall j, validIdx dsy j -> sigma j <> i) -> g i = 0) ->
  (forall i, validIdx dsx i -> (exists j, validIdx dsy j /\ sigma j = i) \/ (forall j, validIdx dsy j -> sigma j <> i)) ->
  is_vjp dsx dsy (fun a j => a (sigma j)) x gy g.
Proof.
  intros Hinj Hhit Hmiss Hdec. apply vjp_gather. intros i Hi.
  destruct (Hdec i Hi) as [(j0 & Hj0 & E)|Hn].
  - rewrite (sum_hits_one dsy (fun j => idx_eqb (sigma j) i) gy j0 Hj0).
    + rewrite <- E. apply Hhit, Hj0.
    + apply idx_eqb_eq, E.
    + intros j Hj Ej. apply idx_eqb_eq in Ej. apply Hinj; [exact Hj|exact Hj0|congruence].
  - rewrite sum_hits_none; [apply Hmiss; assumption|].
    intros j Hj. apply idx_eqb_neq, Hn, Hj.
Qed.

(* ====================================================================== *)
(* the instance                                                           *)
(* ====================================================================== *)
Section Inst.
Variables (thr : R) (draw : bool -> nat -> R).
Local Instance RS : Scalar R := R_scalar thr draw.

Lemma smul_R a b : smul a b = a * b.  Proof. reflexivity. Qed.
Lemma sadd_R a b : sadd a b = a + b.  Proof. reflexivity. Qed.
Lemma sdiv_R a b : sdiv a b = a / b.  Proof. reflexivity. Qed.
Lemma s0_R : s0 = 0.                  Proof. reflexivity. Qed.
Lemma sofnat_R n : sofnat n = INR n.  Proof. reflexivity. Qed.
Lemma szero_R : sconst 0 0 = 0.
Proof. cbn. unfold dec2R. cbn. ring. Qed.

(* a tensor of reals, read through [elt], at a given shape *)
Definition repr (t : tensor R) (ds : list nat) (f : assignment) : Prop :=
  dims t = ds /\ wf t /\ forall i, validIdx ds i -> elt t i = f i.

Lemma elt_get (t : tensor R) idx : wf t -> validIdx (dims t) idx -> get (data t) idx = Some (elt t idx).
Proof.
  intros [Hw _] Hv. unfold elt. destruct (get_wf R _ _ _ Hw Hv) as (a & ->). reflexivity.
Qed.

Lemma repr_self (t : tensor R) : wf t -> repr t (dims t) (elt t).
Proof. intros H. split; [reflexivity|]. split; [exact H|]. reflexivity. Qed.

Lemma heap_gy (h : heap) y (gy : tensor R) : gradOf h y = Some gy -> gy_of h y = Ok gy.
Proof. intros E. unfold gy_of. rewrite E. reflexivity. Qed.
Lemma heap_val (h : heap) x (xv : tensor R) : valOf h x = Some xv -> val_of h x = Ok xv.
Proof. intros E. unfold val_of. rewrite E. reflexivity. Qed.

(* toZeros: never fails, same shape, every element 0 * x_i = 0 *)
Lemma toZeros_spec (t : tensor R) : wf t ->
  exists z, toZeros t = Ok z /\ repr z (dims t) (fun _ => 0).
Proof.
  intros Hw. unfold toZeros. destruct (v_unary_spec (UScale (sconst 0 0)) t Hw) as (z & Ez & Hd & Hwz & Hg).
  exists z. split; [exact Ez|]. split; [exact Hd|]. split; [exact Hwz|].
  intros i Hi. unfold elt. rewrite (Hg i Hi), (elt_get t i Hw Hi). cbn [option_map unaryF].
  rewrite smul_R, szero_R. ring.
Qed.

(* ====================================================================== *)
(* 3. Reshape / UnSqueeze / Squeeze / Flatten: gy.Reshape(x.Shape())      *)
(* ====================================================================== *)

Lemma unflatIdx_flatIdx ds i : validIdx ds i -> unflatIdx ds (flatIdx ds i) = i.
Proof.
  intros Hv. pose proof (OdometerP.validIdx_pos ds i Hv) as Hp.
  apply (flatIdx_inj ds); [apply unflatIdx_valid, Hp|exact Hv|].
  apply flatIdx_unflatIdx; [exact Hp|apply flatIdx_lt, Hv].
Qed.

(* a reshaped tensor, element by element *)
Lemma reshaped_elt (t r : tensor R) shape : wf t -> reshaped R t r shape -> prodn shape = prodn (dims t) ->
  forall i, validIdx shape i -> elt r i = elt t (unflatIdx (dims t) (flatIdx shape i)).
Proof.
  intros Hwt (Hd & Hwr & Hf) Hn i Hi. unfold elt.
  destruct Hwr as [Hwr _]. rewrite Hd in Hwr. destruct Hwt as [Hwt Hpt].
  pose proof (flatIdx_lt shape i Hi) as Hk. rewrite Hn in Hk.
  rewrite <- (flat_nth R shape (data r) i Hwr Hi), Hf.
  rewrite <- (flat_nth R (dims t) (data t) _ Hwt (unflatIdx_valid (dims t) _ Hpt)).
  rewrite flatIdx_unflatIdx by assumption. reflexivity.
Qed.

Theorem vjp_reshape (rd : bred) (h : heap) (y x : nat) (xv gy : tensor R) :
  valOf h x = Some xv -> gradOf h y = Some gy -> wf xv -> wf gy ->
  prodn (dims gy) = prodn (dims xv) ->
  exists g, eval_rule rd h (RReshape y x) = Ok g /\ dims g = dims xv /\ wf g /\
    (forall i, validIdx (dims xv) i -> elt g i = elt gy (unflatIdx (dims gy) (flatIdx (dims xv) i))) /\
    is_vjp (dims xv) (dims gy) (fun a j => a (unflatIdx (dims xv) (flatIdx (dims gy) j)))
           (elt xv) (elt gy) (elt g).
Proof.
  intros Ex Ey Hwx Hwg Hn. cbn [eval_rule]. rewrite (heap_gy h y gy Ey), (heap_val h x xv Ex). cbn [res_bind].
  destruct (v_reshape_spec R gy (zdims xv) Hwg) as [H1 _].
  destruct H1 as (g & Eg & Hr).
  { apply validateReshape_iff. exists (dims xv). split; [reflexivity|]. split; [exact (proj2 Hwx)|]. lia. }
  unfold zdims in Hr at 1. rewrite natsOf_of_nat in Hr.
  exists g. split; [exact Eg|]. destruct Hr as (Hd & Hwr & Hf). split; [exact Hd|]. split; [exact Hwr|].
  assert (Hel : forall i, validIdx (dims xv) i -> elt g i = elt gy (unflatIdx (dims gy) (flatIdx (dims xv) i))).
  { apply (reshaped_elt gy g (dims xv) Hwg); [split; [exact Hd|split; [exact Hwr|exact Hf]]|lia]. }
  split; [exact Hel|].
  apply vjp_gather. intros i Hi. rewrite (Hel i Hi).
  pose proof (flatIdx_lt _ _ Hi) as Hk. rewrite <- Hn in Hk.
  set (j0 := unflatIdx (dims gy) (flatIdx (dims xv) i)).
  assert (Hj0 : validIdx (dims gy) j0) by (apply unflatIdx_valid, Hwg).
  assert (Ej0 : flatIdx (dims gy) j0 = flatIdx (dims xv) i) by (apply flatIdx_unflatIdx; [apply Hwg|exact Hk]).
  symmetry. apply (sum_hits_one (dims gy) (fun j => idx_eqb (unflatIdx (dims xv) (flatIdx (dims gy) j)) i) (elt gy) j0 Hj0).
  - apply idx_eqb_eq. rewrite Ej0. apply unflatIdx_flatIdx, Hi.
  - intros j Hj E. apply idx_eqb_eq in E.
    apply (flatIdx_inj (dims gy)); [exact Hj|exact Hj0|]. rewrite Ej0, <- E.
    symmetry. apply flatIdx_unflatIdx; [apply Hwx|]. rewrite <- Hn. apply flatIdx_lt, Hj.
Qed.

(* ====================================================================== *)
(* 2. Slice: toZeros(x).Patch(index, gy)                                  *)
(* ====================================================================== *)

(* completing an index against the shape of the slice it produces gives the same ranges: an
   omitted range means "the whole dimension" for the Slice and for the Patch of the back edge *)
Lemma completeIndex_sizes index : forall ds,
  completeIndex index (sizes (completeIndex index ds)) = completeIndex index ds.
Proof.
  intros ds. revert index. induction ds as [|d ds IH]; intros [|[f t] index]; cbn [completeIndex sizes map]; try reflexivity.
  - fold (sizes (completeIndex [] ds)). rewrite IH. cbn [fst snd]. rewrite Nat.sub_0_r. reflexivity.
  - fold (sizes (completeIndex index ds)). rewrite IH.
    destruct ((f =? 0) && (t =? 0))%nat eqn:E; cbn [fst snd]; rewrite ?E, ?Nat.sub_0_r; reflexivity.
Qed.

(* the Patch validator accepts the Slice index against the slice's own shape *)
Lemma zslice_patch_ok : forall ds index, zsliceOk index ds ->
  Forall2 le (sizes (completeIndex (rangesOf index) ds)) ds /\
  zpatchOk index (sizes (completeIndex (rangesOf index) ds)) ds.
Proof.
  induction ds as [|d ds IH]; intros [|[f t] index] H; cbn [rangesOf map completeIndex sizes fst snd].
  - split; [constructor|exact I].
  - cbn in H. contradiction.
  - destruct (IH [] I) as [IH1 _]. split; [|exact I]. constructor; [lia|exact IH1].
  - cbn [zsliceOk] in H. destruct H as [H0 H]. destruct (IH index H) as [IH1 IH2].
    fold (rangesOf index). fold (sizes (completeIndex (rangesOf index) ds)).
    destruct ((Z.to_nat f =? 0) && (Z.to_nat t =? 0))%nat eqn:E; cbn [fst snd zpatchOk].
    + split; [constructor; [lia|exact IH1]|]. split; [|exact IH2]. lia.
    + split; [constructor; [lia|exact IH1]|]. split; [|exact IH2]. lia.
Qed.

Lemma inBlock_unshift : forall ci dus dts, region ci dus dts -> forall i, validIdx dts i ->
  inBlock ci dus i = true -> validIdx dus (unshift i ci) /\ shift (unshift i ci) ci = i.
Proof.
  induction ci as [|[f t] ci IH]; intros [|du dus] [|dt dts] H i Hv Hb; cbn in H; try contradiction.
  - apply validIdx_nil in Hv. subst i. split; [constructor|reflexivity].
  - destruct H as [[H1 H2] H]. apply validIdx_cons in Hv as (k & r & -> & Hk & Hr).
    cbn [inBlock] in Hb. apply andb_true_iff in Hb as [Hb Hb3]. apply andb_true_iff in Hb as [Hb1 Hb2].
    apply Nat.leb_le in Hb1. apply Nat.ltb_lt in Hb2.
    destruct (IH dus dts H r Hr Hb3) as [Ha Hc]. rewrite unshift_cons, shift_cons, Hc. split.
    + constructor; [lia|exact Ha].
    + f_equal. lia.
Qed.

(* the sum of the upstream gradient over the copies of element i, for a block copy
   y_j = x_{j + From}: the one element of gy at i - From inside the block, nothing outside *)
Lemma sum_hits_shift ci dus dts (gy : assignment) i : region ci dus dts -> validIdx dts i ->
  sumIdx dus (fun j => if idx_eqb (shift j ci) i then gy j else 0) =
  if inBlock ci dus i then gy (unshift i ci) else 0.
Proof.
  intros Hreg Hi. destruct (inBlock ci dus i) eqn:Eb.
  - destruct (inBlock_unshift ci dus dts Hreg i Hi Eb) as [Hv Hs].
    apply (sum_hits_one dus (fun j => idx_eqb (shift j ci) i) gy (unshift i ci) Hv).
    + apply idx_eqb_eq, Hs.
    + intros j Hj E. apply idx_eqb_eq in E. destruct (region_shift ci dus dts Hreg j Hj) as (_ & _ & Hu).
      rewrite <- E. symmetry. exact Hu.
  - apply sum_hits_none. intros j Hj. apply idx_eqb_neq. intros E.
    destruct (region_shift ci dus dts Hreg j Hj) as (_ & Hb & _). rewrite E in Hb. congruence.
Qed.

Theorem vjp_slice (rd : bred) (h : heap) (y x : nat) (index : list zrange) (xv gy : tensor R) :
  valOf h x = Some xv -> gradOf h y = Some gy -> wf xv ->
  validateSliceIndexAgainstDims index (zdims xv) = true ->
  wf gy -> dims gy = sizes (completeIndex (rangesOf index) (dims xv)) ->
  exists g, eval_rule rd h (RSliceX y x index) = Ok g /\ dims g = dims xv /\ wf g /\
    (forall i, validIdx (dims xv) i ->
       elt g i = if inBlock (completeIndex (rangesOf index) (dims xv)) (dims gy) i
                 then elt gy (unshift i (completeIndex (rangesOf index) (dims xv))) else 0) /\
    is_vjp (dims xv) (dims gy)
           (fun a j => a (shift j (completeIndex (rangesOf index) (dims xv))))
           (elt xv) (elt gy) (elt g).
Proof.
  intros Ex Ey Hwx V Hwg Hdg. cbn [eval_rule]. rewrite (heap_gy h y gy Ey), (heap_val h x xv Ex). cbn [res_bind].
  destruct (toZeros_spec xv Hwx) as (z & Ez & Hdz & Hwz & Hz). rewrite Ez. cbn [res_bind].
  unfold zdims in V. apply validateSlice_iff in V.
  destruct (zslice_patch_ok (dims xv) index V) as [HF Hzp].
  set (ci := completeIndex (rangesOf index) (dims xv)) in *.
  rewrite <- Hdg in HF, Hzp.
  destruct (v_patch_spec z gy index Hwz Hwg) as [H1 _].
  destruct H1 as (g & Eg & Hd & Hwr & Hg).
  { unfold zdims. rewrite Hdz. apply validatePatch_iff. split; assumption. }
  assert (Eci : completeIndex (rangesOf index) (dims gy) = ci).
  { rewrite Hdg. apply completeIndex_sizes. }
  rewrite Eci, Hdz in Hg. rewrite Hdz in Hd.
  assert (Hreg : region ci (dims gy) (dims xv)).
  { rewrite <- Eci. apply completeIndex_region; [exact HF|]. apply zpatchOk_nat, Hzp. }
  exists g. split; [exact Eg|]. split; [exact Hd|]. split; [exact Hwr|].
  assert (Hel : forall i, validIdx (dims xv) i ->
            elt g i = if inBlock ci (dims gy) i then elt gy (unshift i ci) else 0).
  { intros i Hi. unfold elt at 1. rewrite (Hg i Hi). destruct (inBlock ci (dims gy) i) eqn:Eb.
    - reflexivity.
    - exact (Hz i Hi). }
  split; [exact Hel|].
  apply vjp_gather. intros i Hi. rewrite (Hel i Hi). symmetry.
  apply (sum_hits_shift ci (dims gy) (dims xv)); assumption.
Qed.

(* ====================================================================== *)
(* 4. Broadcast (C07)                                                     *)
(* ====================================================================== *)

(* ---------- finite sums ---------- *)
Definition lsum {X} (l : list X) (h : X -> R) : R := fold_right Rplus 0 (map h l).
Definition sumN (n : nat) (h : nat -> R) : R := lsum (seq 0 n) h.

Lemma lsum_ext_in {X} (l : list X) f g : (forall x, In x l -> f x = g x) -> lsum l f = lsum l g.
Proof.
  unfold lsum. induction l as [|a l IH]; intros H; cbn; [reflexivity|].
  rewrite (H a (or_introl eq_refl)), IH; [reflexivity|]. intros x Hx. apply H. right. exact Hx.
Qed.

Lemma lsum_zero {X} (l : list X) : lsum l (fun _ => 0) = 0.
Proof. unfold lsum. induction l as [|a l IH]; cbn; [reflexivity|rewrite IH; ring]. Qed.

Lemma lsum_plus {X} (l : list X) f g : lsum l (fun x => f x + g x) = lsum l f + lsum l g.
Proof. unfold lsum. induction l as [|a l IH]; cbn; [ring|rewrite IH; ring]. Qed.

Lemma lsum_app {X} (l1 l2 : list X) f : lsum (l1 ++ l2) f = lsum l1 f + lsum l2 f.
Proof. unfold lsum. induction l1 as [|a l1 IH]; cbn; [ring|rewrite IH; ring]. Qed.

Lemma lsum_map {X Y} (u : X -> Y) (l : list X) f : lsum (map u l) f = lsum l (fun x => f (u x)).
Proof. unfold lsum. rewrite map_map. reflexivity. Qed.

Lemma lsum_swap {X Y} (l1 : list X) (l2 : list Y) (hh : X -> Y -> R) :
  lsum l1 (fun x => lsum l2 (fun y => hh x y)) = lsum l2 (fun y => lsum l1 (fun x => hh x y)).
Proof.
  induction l1 as [|a l1 IH].
  - cbn. symmetry. apply lsum_zero.
  - change (lsum (a :: l1) (fun x => lsum l2 (fun y => hh x y)))
      with (lsum l2 (fun y => hh a y) + lsum l1 (fun x => lsum l2 (fun y => hh x y))).
    rewrite IH, <- lsum_plus. apply lsum_ext_in. intros y _. reflexivity.
Qed.

Lemma lsum_single_nat (l : list nat) a (c : nat -> R) : NoDup l -> In a l ->
  lsum l (fun k => if (k =? a)%nat then c k else 0) = c a.
Proof.
  unfold lsum. induction l as [|b l IH]; intros Hnd Hin; [destruct Hin|].
  inversion Hnd as [|? ? Hna Hnd']; subst. cbn [map fold_right]. destruct Hin as [->|Hin].
  - rewrite Nat.eqb_refl.
    assert (Z : lsum l (fun k => if (k =? a)%nat then c k else 0) = 0).
    { transitivity (lsum l (fun _ : nat => 0)); [|apply lsum_zero]. apply lsum_ext_in. intros x Hx.
      destruct (Nat.eqb_spec x a) as [->|_]; [contradiction|reflexivity]. }
    unfold lsum in Z. rewrite Z. ring.
  - destruct (Nat.eqb_spec b a) as [->|_]; [contradiction|]. rewrite IH by assumption. ring.
Qed.

Lemma sumN_single n a (c : nat -> R) : (a < n)%nat -> sumN n (fun k => if (k =? a)%nat then c k else 0) = c a.
Proof. intros H. apply lsum_single_nat; [apply seq_NoDup|apply in_seq; lia]. Qed.

Lemma sumN_ext n f g : (forall k, (k < n)%nat -> f k = g k) -> sumN n f = sumN n g.
Proof. intros H. apply lsum_ext_in. intros k Hk. apply in_seq in Hk. apply H. lia. Qed.

Lemma sumIdx_swap ds1 ds2 (hh : list nat -> list nat -> R) :
  sumIdx ds1 (fun i => sumIdx ds2 (fun j => hh i j)) = sumIdx ds2 (fun j => sumIdx ds1 (fun i => hh i j)).
Proof. apply (lsum_swap (allIdx ds1) (allIdx ds2)). Qed.

Lemma sumIdx_cons d ds (f : assignment) :
  sumIdx (d :: ds) f = sumN d (fun k => sumIdx ds (fun r => f (k :: r))).
Proof.
  unfold sumIdx, sumN. cbn [allIdx]. fold (lsum (flat_map (fun i => map (cons i) (allIdx ds)) (seq 0 d)) f).
  generalize (seq 0 d) as l. induction l as [|a l IH]; [reflexivity|].
  cbn [flat_map]. rewrite lsum_app, IH, lsum_map. reflexivity.
Qed.

Lemma fold_left_Rplus l : forall a, fold_left Rplus l a = a + lsum l (fun x => x).
Proof.
  unfold lsum. induction l as [|b l IH]; intros a; cbn [fold_left map fold_right]; [ring|].
  rewrite IH. ring.
Qed.

Lemma idx_eqb_sym a b : idx_eqb a b = idx_eqb b a.
Proof.
  destruct (idx_eqb b a) eqn:E.
  - apply idx_eqb_eq in E. subst. apply idx_eqb_refl.
  - apply idx_eqb_neq. intros ->. rewrite idx_eqb_refl in E. discriminate.
Qed.

Lemma bool_eq_iff (a b : bool) : (a = true <-> b = true) -> a = b.
Proof. destruct a, b; intros [H1 H2]; try reflexivity; [symmetry; apply H1; reflexivity|apply H2; reflexivity]. Qed.

Lemma idx_eqb_cons a l b m : idx_eqb (a :: l) (b :: m) = (a =? b)%nat && idx_eqb l m.
Proof.
  apply bool_eq_iff. rewrite andb_true_iff, Nat.eqb_eq, !idx_eqb_eq. split.
  - intros H. inversion H. auto.
  - intros [-> ->]. reflexivity.
Qed.

(* ---------- the pushforward of an assignment along an index map ---------- *)
Definition push (ds : list nat) (p : list nat -> list nat) (g : assignment) : assignment :=
  fun i => sumIdx ds (fun j => if idx_eqb (p j) i then g j else 0).

Lemma push_ext ds p p' g g' i :
  (forall j, validIdx ds j -> p j = p' j) -> (forall j, validIdx ds j -> g j = g' j) ->
  push ds p g i = push ds p' g' i.
Proof. intros Hp Hg. apply sumIdx_ext. intros j Hj. rewrite (Hp j Hj), (Hg j Hj). reflexivity. Qed.

Lemma push_scal ds p c g i : push ds p (fun j => c * g j) i = c * push ds p g i.
Proof.
  unfold push. rewrite <- sumIdx_scal. apply sumIdx_ext. intros j _. destruct (idx_eqb (p j) i); ring.
Qed.

Lemma push_id ds g i : validIdx ds i -> push ds (fun j => j) g i = g i.
Proof. intros H. apply sumIdx_single, H. Qed.

Lemma push_comp ds ds' p1 p2 g i : (forall j, validIdx ds j -> validIdx ds' (p1 j)) ->
  push ds' p2 (push ds p1 g) i = push ds (fun j => p2 (p1 j)) g i.
Proof.
  intros Hv. unfold push.
  transitivity (sumIdx ds' (fun j' => sumIdx ds (fun j =>
                  if idx_eqb (p2 j') i then (if idx_eqb (p1 j) j' then g j else 0) else 0))).
  { apply sumIdx_ext. intros j' _. destruct (idx_eqb (p2 j') i); [reflexivity|]. symmetry. apply sumIdx_zero. }
  rewrite sumIdx_swap. apply sumIdx_ext. intros j Hj.
  rewrite <- (sumIdx_single ds' (p1 j) (fun j' => if idx_eqb (p2 j') i then g j else 0) (Hv j Hj)).
  apply sumIdx_ext. intros j' _. rewrite (idx_eqb_sym (p1 j) j').
  destruct (idx_eqb (p2 j') i); destruct (idx_eqb j' (p1 j)); reflexivity.
Qed.

(* ---------- deleting / inserting an index component ---------- *)
Lemma validIdx_del dim : forall ds j, validIdx ds j -> validIdx (del dim ds) (del dim j).
Proof.
  induction dim as [|dim IH]; intros ds j H; destruct H as [|k d j ds Hk H].
  - constructor.
  - rewrite !del_0. exact H.
  - constructor.
  - rewrite !del_S. constructor; [exact Hk|apply IH, H].
Qed.

Lemma validIdx_ins dim : forall ds i k, (dim < length ds)%nat -> validIdx (del dim ds) i -> (k < nth dim ds 0%nat)%nat ->
  validIdx ds (ins dim k i).
Proof.
  induction dim as [|dim IH]; intros [|d ds] i k Hl Hv Hk; cbn [length] in Hl; try lia.
  - rewrite del_0 in Hv. rewrite ins_0. constructor; [exact Hk|exact Hv].
  - rewrite del_S in Hv. apply validIdx_cons in Hv as (a & r & -> & Ha & Hr). rewrite ins_S.
    constructor; [exact Ha|]. apply IH; [lia|exact Hr|exact Hk].
Qed.

Lemma del_app_exact {X} (a : list X) v q n : length a = n -> del n (a ++ v :: q) = a ++ q.
Proof. intros <-. induction a as [|x a IH]; [reflexivity|]. cbn [app length]. rewrite del_S, IH. reflexivity. Qed.

Lemma ins_app_exact {X} (a : list X) v q n : length a = n -> ins n v (a ++ q) = a ++ v :: q.
Proof. intros <-. induction a as [|x a IH]; [apply ins_0|]. cbn [app length]. rewrite ins_S, IH. reflexivity. Qed.

Lemma validIdx_app_inv ds1 ds2 j : validIdx (ds1 ++ ds2) j ->
  exists a q, j = a ++ q /\ validIdx ds1 a /\ validIdx ds2 q.
Proof.
  intros H. apply Forall2_app_inv_r in H as (a & q & Ha & Hq & ->). exists a, q. auto.
Qed.

(* the sum over the positions that collapse onto i' when component [dim] is deleted *)
Lemma sum_del dim : forall ds (f : assignment) i', (dim < length ds)%nat -> validIdx (del dim ds) i' ->
  push ds (del dim) f i' = sumN (nth dim ds 0%nat) (fun k => f (ins dim k i')).
Proof.
  unfold push. induction dim as [|dim IH]; intros [|d ds] f i' Hl Hv; cbn [length] in Hl; try lia.
  - rewrite del_0 in Hv. rewrite sumIdx_cons. cbn [nth]. apply sumN_ext. intros k _.
    rewrite ins_0. rewrite <- (sumIdx_single ds i' (fun r => f (k :: r)) Hv).
    apply sumIdx_ext. intros r _. rewrite del_0. reflexivity.
  - rewrite del_S in Hv. apply validIdx_cons in Hv as (a & i'' & -> & Ha & Hr).
    rewrite sumIdx_cons. cbn [nth].
    transitivity (sumN d (fun k => if (k =? a)%nat
                    then sumIdx ds (fun r => if idx_eqb (del dim r) i'' then f (k :: r) else 0) else 0)).
    { apply sumN_ext. intros k _. destruct (k =? a)%nat eqn:E.
      - apply sumIdx_ext. intros r _. rewrite del_S, idx_eqb_cons, E. reflexivity.
      - transitivity (sumIdx ds (fun _ => 0)); [|apply sumIdx_zero].
        apply sumIdx_ext. intros r _. rewrite del_S, idx_eqb_cons, E. reflexivity. }
    rewrite (sumN_single d a _ Ha). rewrite (IH ds (fun r => f (a :: r)) i'' ltac:(lia) Hr).
    apply sumN_ext. intros k _. rewrite ins_S. reflexivity.
Qed.

(* ---------- one reduction step, one UnSqueeze step ---------- *)

(* the factor a reduction over a dimension of size d contributes: SumAlong none, AvgAlong 1/d *)
Definition rdc (rd : bred) (d : nat) : R := match rd with RedSum => 1 | RedAvg => / INR d end.
Fixpoint rdcs (rd : bred) (l : list nat) : R :=
  match l with [] => 1 | d :: l' => rdc rd d * rdcs rd l' end.

Lemma map_Some_inj {X} (l1 l2 : list X) : map Some l1 = map Some l2 -> l1 = l2.
Proof.
  revert l2. induction l1 as [|a l1 IH]; intros [|b l2] H; cbn in H; try discriminate; [reflexivity|].
  inversion H. f_equal. apply IH. assumption.
Qed.

Lemma redAlong_repr rd (t : tensor R) ds f dim : repr t ds f -> (dim < length ds)%nat ->
  exists r, redAlong rd t (Z.of_nat dim) = Ok r /\
    repr r (del dim ds) (fun i' => rdc rd (nth dim ds 0%nat) * sumN (nth dim ds 0%nat) (fun k => f (ins dim k i'))).
Proof.
  intros (Hd & Hw & Hf) Hl. subst ds. unfold redAlong.
  set (red := match rd with RedSum => RdSum | RedAvg => RdAvg end).
  pose proof (v_reduceAlong_elems red t (Z.of_nat dim) Hw ltac:(lia)) as H. cbv zeta in H.
  rewrite Nat2Z.id in H. destruct H as (r & Er & Hdr & Hwr & Hel).
  exists r. split; [exact Er|]. split; [exact Hdr|]. split; [exact Hwr|].
  intros i' Hi'. destruct (Hel i' Hi') as (fibre & Hfib & Hget).
  set (d0 := nth dim (dims t) 0%nat) in *.
  assert (Efib : fibre = map (fun k => f (ins dim k i')) (seq 0 d0)).
  { apply map_Some_inj. rewrite Hfib, map_map. apply map_ext_in. intros k Hk. apply in_seq in Hk.
    assert (Hv : validIdx (dims t) (ins dim k i')) by (apply validIdx_ins; [exact Hl|exact Hi'|fold d0; lia]).
    change (firstn dim i' ++ k :: skipn dim i') with (ins dim k i').
    rewrite (elt_get t _ Hw Hv), (Hf _ Hv). reflexivity. }
  unfold elt. rewrite Hget.
  assert (Esum : fold_left Rplus fibre 0 = sumN d0 (fun k => f (ins dim k i'))).
  { rewrite fold_left_Rplus, Efib. unfold sumN. rewrite lsum_map. ring. }
  destruct rd; unfold red, rdc; cbn [redL].
  - unfold sumL. change (fold_left sadd fibre s0) with (fold_left Rplus fibre 0). rewrite Esum. ring.
  - unfold meanL, sumL. change (fold_left sadd fibre s0) with (fold_left Rplus fibre 0).
    rewrite Esum, sdiv_R, sofnat_R. rewrite Efib, map_length, seq_length. unfold Rdiv. ring.
Qed.

Lemma flatIdx_ins1 dim : forall ds j, (dim <= length ds)%nat -> validIdx (ins dim 1%nat ds) j ->
  flatIdx (ins dim 1%nat ds) j = flatIdx ds (del dim j) /\ validIdx ds (del dim j).
Proof.
  induction dim as [|dim IH]; intros ds j Hl Hv.
  - rewrite ins_0 in Hv. apply validIdx_cons in Hv as (k & r & -> & Hk & Hr).
    rewrite ins_0, del_0. split; [|exact Hr]. cbn [flatIdx]. assert (k = 0%nat) by lia. subst k. reflexivity.
  - destruct ds as [|d ds]; [cbn in Hl; lia|]. rewrite ins_S in Hv |- *.
    apply validIdx_cons in Hv as (k & r & -> & Hk & Hr). rewrite del_S.
    destruct (IH ds r ltac:(cbn in Hl; lia) Hr) as [E Hv']. split; [|constructor; assumption].
    cbn [flatIdx]. rewrite E. f_equal. f_equal.
    change (ins dim 1%nat ds) with (unsqueezeDims dim ds). apply unsqueezeDims_prodn.
Qed.

Lemma unsqueeze_repr (t : tensor R) ds f dim : repr t ds f -> (dim <= length ds)%nat ->
  exists r, v_unsqueeze t (Z.of_nat dim) = Ok r /\ repr r (ins dim 1%nat ds) (fun j => f (del dim j)).
Proof.
  intros (Hd & Hw & Hf) Hl. subst ds.
  destruct (v_unsqueeze_spec R t (Z.of_nat dim) Hw) as [H1 _].
  destruct H1 as (r & Er & Hr).
  { apply validateUnSqueezeDim_iff. lia. }
  rewrite Nat2Z.id in Hr. change (unsqueezeDims dim (dims t)) with (ins dim 1%nat (dims t)) in Hr.
  exists r. split; [exact Er|]. split; [apply Hr|]. split; [apply Hr|].
  intros j Hj. destruct (flatIdx_ins1 dim (dims t) j Hl Hj) as [E Hv].
  rewrite (reshaped_elt t r (ins dim 1%nat (dims t)) Hw Hr (unsqueezeDims_prodn dim (dims t)) j Hj).
  rewrite E, unflatIdx_flatIdx by exact Hv. apply Hf, Hv.
Qed.

(* ---------- phase 1: the leading extra dimensions are summed away one at a time ---------- *)

Lemma bcLead_repr rd : forall lead rest (t : tensor R) f, repr t (lead ++ rest) f ->
  exists r, bcLead rd (length lead) t = Ok r /\
    repr r rest (fun i => rdcs rd lead * push (lead ++ rest) (skipn (length lead)) f i).
Proof.
  induction lead as [|d lead IH]; intros rest t f Ht.
  - exists t. split; [reflexivity|]. destruct Ht as (Hd & Hw & Hf). split; [exact Hd|]. split; [exact Hw|].
    intros i Hi. cbn [app length rdcs]. rewrite (Hf i Hi).
    rewrite (push_ext rest (skipn 0) (fun j => j) f f i) by reflexivity. rewrite push_id by exact Hi. ring.
  - cbn [length bcLead].
    destruct (redAlong_repr rd t ((d :: lead) ++ rest) f 0 Ht ltac:(cbn; lia)) as (r1 & E1 & H1).
    change (Z.of_nat 0) with 0%Z in E1. rewrite E1. cbn [res_bind].
    cbn [app nth] in H1. rewrite del_0 in H1.
    destruct (IH rest r1 _ H1) as (r & Er & Hd & Hw & Hf). exists r. split; [exact Er|].
    split; [exact Hd|]. split; [exact Hw|]. intros i Hi. rewrite (Hf i Hi). cbn [rdcs app].
    set (ds := d :: lead ++ rest).
    rewrite (push_ext (lead ++ rest) (skipn (length lead)) (skipn (length lead)) _
               (fun i' => rdc rd d * push ds (del 0) f i') i); [|reflexivity|].
    2:{ intros i' Hi'. rewrite (sum_del 0 ds f i'); [reflexivity|cbn; lia|exact Hi']. }
    rewrite push_scal.
    rewrite (push_comp ds (lead ++ rest) (del 0) (skipn (length lead)) f i).
    2:{ intros j Hj. apply (validIdx_del 0 ds j Hj). }
    rewrite (push_ext ds (fun j => skipn (length lead) (del 0 j)) (skipn (S (length lead))) f f i); [ring| |reflexivity].
    intros j Hj. apply validIdx_cons in Hj as (k & q & -> & _ & _). rewrite del_0. reflexivity.
Qed.

(* ---------- phase 2: every aligned position where the operand had size 1 and the result
   a larger size is summed away and re-inserted as a dimension of size 1 ---------- *)

Definition proj (src q : list nat) : list nat :=
  map (fun p => if (fst p =? 1)%nat then 0%nat else snd p) (combine src q).
Definition pj (n : nat) (src j : list nat) : list nat := firstn n j ++ proj src (skipn n j).

(* the sizes of the dimensions that get reduced *)
Fixpoint redDims (src dst : list nat) : list nat :=
  match src, dst with
  | s :: src', d :: dst' => (if (s =? d)%nat then [] else [d]) ++ redDims src' dst'
  | _, _ => []
  end.

Lemma pj_app n src a q : length a = n -> pj n src (a ++ q) = a ++ proj src q.
Proof.
  intros <-. unfold pj. induction a as [|x a IH]; [reflexivity|].
  cbn [length app firstn skipn]. f_equal. exact IH.
Qed.

Lemma pj_S n src a k q : length a = n -> pj (S n) src (a ++ k :: q) = a ++ k :: proj src q.
Proof.
  intros La. change (a ++ k :: q) with (a ++ [k] ++ q). rewrite app_assoc.
  rewrite pj_app by (rewrite app_length; cbn; lia). rewrite <- app_assoc. reflexivity.
Qed.

Lemma pj_c n s src a k q : length a = n ->
  pj n (s :: src) (a ++ k :: q) = a ++ (if (s =? 1)%nat then 0%nat else k) :: proj src q.
Proof. intros La. rewrite pj_app by exact La. reflexivity. Qed.

Lemma bcDims_repr rd : forall src dst, Forall2 (fun s d => s = d \/ s = 1%nat) src dst ->
  forall pre (t : tensor R) f, repr t (pre ++ dst) f ->
  exists r, bcDims rd (length pre) src dst t = Ok r /\
    repr r (pre ++ src) (fun i => rdcs rd (redDims src dst) * push (pre ++ dst) (pj (length pre) src) f i).
Proof.
  intros src dst HF. induction HF as [|s d src dst Hsd HF IH]; intros pre t f Ht.
  - exists t. split; [reflexivity|]. destruct Ht as (Hd & Hw & Hf). split; [exact Hd|]. split; [exact Hw|].
    intros i Hi. cbn [redDims rdcs]. rewrite (Hf i Hi).
    rewrite (push_ext (pre ++ []) (pj (length pre) []) (fun j => j) f f i); [rewrite push_id by exact Hi; ring| |reflexivity].
    intros j Hj. rewrite <- (app_nil_r j) at 1. rewrite pj_app; [unfold proj; cbn [combine map]; apply app_nil_r|].
    rewrite (validIdx_length _ _ Hj), app_nil_r. reflexivity.
  - cbn [bcDims]. set (n := length pre) in *.
    assert (Ln : length (pre ++ [s]) = S n) by (rewrite app_length; cbn; lia).
    destruct (s =? d)%nat eqn:Esd.
    + (* the dimension is untouched *)
      apply Nat.eqb_eq in Esd. subst d. cbn [res_bind].
      assert (Ht' : repr t ((pre ++ [s]) ++ dst) f) by (rewrite <- app_assoc; exact Ht).
      destruct (IH (pre ++ [s]) t f Ht') as (r & Er & Hd & Hw & Hf). rewrite Ln in Er, Hf.
      assert (Ea : forall l : list nat, (pre ++ [s]) ++ l = pre ++ s :: l) by (intros l; rewrite <- app_assoc; reflexivity).
      exists r. split; [exact Er|]. rewrite !Ea in Hf. rewrite Ea in Hd.
      split; [exact Hd|]. split; [exact Hw|]. intros i Hi. rewrite (Hf i Hi).
      cbn [redDims]. rewrite Nat.eqb_refl. cbn [app]. f_equal.
      apply push_ext; [|reflexivity]. intros j Hj.
      apply validIdx_app_inv in Hj as (a & q0 & -> & Ha & Hq0).
      apply validIdx_cons in Hq0 as (k & q & -> & Hk & Hq).
      pose proof (validIdx_length _ _ Ha) as La.
      rewrite (pj_S n src a k q La), (pj_c n s src a k q La). f_equal. f_equal.
      destruct (Nat.eqb_spec s 1); [lia|reflexivity].
    + (* size 1 in the operand, d > 1 in the result: SumAlong(n) then UnSqueeze(n) *)
      apply Nat.eqb_neq in Esd. destruct Hsd as [Hsd|Hsd]; [contradiction|]. subst s.
      set (ds := pre ++ d :: dst) in *.
      assert (Ld : (n < length ds)%nat) by (unfold ds; rewrite app_length; cbn; lia).
      destruct (redAlong_repr rd t ds f n Ht Ld) as (r1 & E1 & H1). rewrite E1. cbn [res_bind].
      assert (End : nth n ds 0%nat = d) by (unfold ds, n; apply nth_middle).
      assert (Edel : del n ds = pre ++ dst) by (apply del_app_exact; reflexivity).
      rewrite End, Edel in H1.
      destruct (unsqueeze_repr r1 (pre ++ dst) _ n H1 ltac:(rewrite app_length; lia)) as (r2 & E2 & H2).
      rewrite E2. cbn [res_bind].
      rewrite (ins_app_exact pre 1%nat dst n eq_refl) in H2.
      change (pre ++ 1%nat :: dst) with (pre ++ [1%nat] ++ dst) in H2. rewrite app_assoc in H2.
      destruct (IH (pre ++ [1%nat]) r2 _ H2) as (r & Er & Hd & Hw & Hf). rewrite Ln in Er, Hf.
      assert (Ea : forall l : list nat, (pre ++ [1%nat]) ++ l = pre ++ 1%nat :: l) by (intros l; rewrite <- app_assoc; reflexivity).
      exists r. split; [exact Er|]. rewrite !Ea in Hf. rewrite Ea in Hd.
      split; [exact Hd|]. split; [exact Hw|]. intros i Hi. rewrite (Hf i Hi).
      cbn [redDims]. destruct (Nat.eqb_spec 1 d) as [Hc|_]; [contradiction|]. cbn [app rdcs].
      set (ds1 := pre ++ 1%nat :: dst).
      set (zeroAt := fun m : list nat => ins n 0%nat (del n m)).
      (* the tensor after the two steps, as a pushforward of the tensor before *)
      rewrite (push_ext ds1 (pj (S n) src) (pj (S n) src) _ (fun j => rdc rd d * push ds zeroAt f j) i); [|reflexivity|].
      2:{ intros j Hj.
          assert (Hdj : validIdx (pre ++ dst) (del n j)).
          { rewrite <- (del_app_exact pre 1%nat dst n eq_refl). apply validIdx_del, Hj. }
          rewrite <- Edel in Hdj. pose proof (sum_del n ds f (del n j) Ld Hdj) as Es. rewrite End in Es.
          rewrite <- Es. f_equal.
          apply sumIdx_ext. intros m Hm.
          assert (E : idx_eqb (del n m) (del n j) = idx_eqb (zeroAt m) j); [|rewrite E; reflexivity].
          pose proof Hj as Hj'. apply validIdx_app_inv in Hj' as (a & q0 & -> & Ha & Hq0).
          apply validIdx_cons in Hq0 as (k & q & -> & Hk & Hq). assert (k = 0%nat) by lia. subst k.
          pose proof (validIdx_length _ _ Ha) as La. fold n in La.
          apply bool_eq_iff. rewrite !idx_eqb_eq. unfold zeroAt. rewrite (del_app_exact a 0%nat q n La). split.
          - intros ->. apply ins_app_exact, La.
          - intros Ez. apply (f_equal (del n)) in Ez. rewrite (del_app_exact a 0%nat q n La) in Ez.
            rewrite del_ins in Ez; [exact Ez|].
            rewrite Edel in Hdj. pose proof (validIdx_length _ _ (validIdx_del n ds m Hm)) as Lm.
            rewrite Edel, app_length in Lm. lia. }
      rewrite push_scal.
      rewrite (push_comp ds ds1 zeroAt (pj (S n) src) f i).
      2:{ intros m Hm. unfold zeroAt, ds1. rewrite <- (ins_app_exact pre 1%nat dst n eq_refl).
          pose proof (validIdx_del n ds m Hm) as Hdm. rewrite Edel in Hdm.
          rewrite <- (del_app_exact pre 1%nat dst n eq_refl) in Hdm.
          apply validIdx_ins; [rewrite ins_length, app_length; lia|exact Hdm|].
          rewrite nth_ins by (rewrite app_length; lia). lia. }
      rewrite (push_ext ds (fun m => pj (S n) src (zeroAt m)) (pj n (1%nat :: src)) f f i); [ring| |reflexivity].
      intros m Hm. apply validIdx_app_inv in Hm as (a & q0 & -> & Ha & Hq0).
      apply validIdx_cons in Hq0 as (k & q & -> & Hk & Hq).
      pose proof (validIdx_length _ _ Ha) as La. fold n in La.
      unfold zeroAt. rewrite (del_app_exact a k q n La), (ins_app_exact a 0%nat q n La).
      rewrite (pj_S n src a 0%nat q La), (pj_c n 1%nat src a k q La). reflexivity.
Qed.

End Inst.
