(* ConcatP.v — initConcatResultTensor.fillCat / concat: the result of concatenating
   well-formed tensors whose shapes agree off [dim] is well-formed, has the shape of
   [getConcatDims], and its element at an index whose component [dim] falls into the
   j-th piece is the j-th operand's element at the index shifted back by the sizes of the
   pieces before it. *)
From Coq Require Import List Arith ZArith Bool Lia.
From Qeep Require Import Model.Scalar Model.Nd Model.Fill Model.Data Model.Valid Model.Api
  Proofs.NdP.
Import ListNotations.

(* ---------- list helpers ---------- *)
Lemma Forall2_In_l {X Y} (R : X -> Y -> Prop) l1 l2 a :
  Forall2 R l1 l2 -> In a l1 -> exists b, In b l2 /\ R a b.
Proof.
  intros H. induction H as [|x y l1 l2 Hxy _ IH]; intros Hin; [destruct Hin|].
  destruct Hin as [->|Hin].
  - exists y. split; [left; reflexivity|exact Hxy].
  - destruct (IH Hin) as (b & Hb & Hr). exists b. split; [right; exact Hb|exact Hr].
Qed.

Lemma Forall2_nth_l {X Y} (R : X -> Y -> Prop) (dy : Y) l1 l2 :
  Forall2 R l1 l2 -> forall j a, nth_error l1 j = Some a -> R a (nth j l2 dy) /\ j < length l2.
Proof.
  intros H. induction H as [|x y l1 l2 Hxy _ IH]; intros j a Hj.
  - destruct j; discriminate.
  - destruct j as [|j]; cbn in Hj.
    + inversion Hj; subst. split; [exact Hxy|cbn; lia].
    + destruct (IH j a Hj) as [H1 H2]. split; [exact H1|cbn; lia].
Qed.

Lemma Forall2_map_l {X Y Z} (P : Z -> Y -> Prop) (g : X -> Z) l aux :
  Forall2 (fun x b => P (g x) b) l aux -> Forall2 P (map g l) aux.
Proof. intros H. induction H as [|x y l1 l2 Hxy _ IH]; cbn; constructor; assumption. Qed.

Lemma Forall2_weaken {X Y} (R1 R2 : X -> Y -> Prop) l1 l2 :
  (forall a b, R1 a b -> R2 a b) -> Forall2 R1 l1 l2 -> Forall2 R2 l1 l2.
Proof. intros Hi H. induction H as [|x y l1 l2 Hxy _ IH]; constructor; auto. Qed.

Lemma firstn_app_exact {X} (l1 l2 : list X) : firstn (length l1) (l1 ++ l2) = l1.
Proof. induction l1 as [|a l1 IH]; [reflexivity|]. cbn. rewrite IH. reflexivity. Qed.

Lemma setNth_app {X} (l1 : list X) a v l2 : setNth (l1 ++ a :: l2) (length l1) v = Some (l1 ++ v :: l2).
Proof. induction l1 as [|b l1 IH]; [reflexivity|]. cbn. rewrite IH. reflexivity. Qed.

Lemma nth_error_app_exact {X} (l1 : list X) a l2 : nth_error (l1 ++ a :: l2) (length l1) = Some a.
Proof. induction l1 as [|b l1 IH]; [reflexivity|exact IH]. Qed.

Section Concat.
Context {A : Type}.
Notation T := (tensor A).

(* the rows of a value (total version of [asV]) *)
Definition rowsOf (s : nd A) : list (nd A) := match s with Vec l => l | Sc _ => [] end.
Definition rowAt (i : nat) (s : nd A) : nd A := nth i (rowsOf s) (Vec []).

Lemma wf_row d sh s i : wfnd (d :: sh) s -> i < d ->
  wfnd sh (rowAt i s) /\
  (do l <- asV s; nth_error l i) = Some (rowAt i s) /\
  forall rest, get s (i :: rest) = get (rowAt i s) rest.
Proof.
  intros Hs Hi. apply wfnd_cons in Hs as (l & -> & Hl & Hf). unfold rowAt. cbn [rowsOf asV obind].
  destruct (nth_error l i) as [y|] eqn:E; [|apply nth_error_None in E; lia].
  rewrite (nth_error_nth _ _ _ E).
  split; [rewrite Forall_forall in Hf; apply Hf; eapply nth_error_In; eauto|].
  split; [reflexivity|]. intros rest. rewrite get_cons, E. reflexivity.
Qed.

(* ====================================================================== *)
(* 1. fillCat                                                             *)
(* ====================================================================== *)

(* concatenating the row lists at the concatenation depth *)
Lemma concat_parts post seeds ns :
  Forall2 (fun s n => wfnd (n :: post) s) seeds ns ->
  length (concat (map rowsOf seeds)) = list_sum ns /\
  Forall (wfnd post) (concat (map rowsOf seeds)) /\
  forall j s x, nth_error seeds j = Some s -> x < nth j ns 0 ->
    nth_error (concat (map rowsOf seeds)) (list_sum (firstn j ns) + x) = nth_error (rowsOf s) x.
Proof.
  intros H. induction H as [|s n seeds ns Hs _ IH].
  - split; [reflexivity|]. split; [constructor|]. intros j s x Hj. destruct j; discriminate.
  - destruct IH as (IH1 & IH2 & IH3). apply wfnd_cons in Hs as (l & -> & Hl & Hf).
    cbn [map concat rowsOf list_sum fold_right]. split; [|split].
    + rewrite app_length, IH1. unfold list_sum. lia.
    + apply Forall_app. split; assumption.
    + intros j s x Hj Hx. destruct j as [|j]; cbn in Hj.
      * inversion Hj; subst s. cbn [firstn list_sum fold_right nth rowsOf] in *.
        apply nth_error_app1. lia.
      * cbn [firstn nth] in *. cbn [list_sum fold_right]. fold (list_sum (firstn j ns)).
        rewrite nth_error_app2 by lia.
        replace (n + list_sum (firstn j ns) + x - length l) with (list_sum (firstn j ns) + x) by lia.
        apply IH3; assumption.
Qed.

Theorem fillCat_spec (pre post : list nat) : forall (ds : list nat) (seeds : list (nd A)) (ns : list nat),
  firstn (length pre) ds = pre ->
  Forall2 (fun s n => wfnd (pre ++ n :: post) s) seeds ns ->
  exists r, fillCat (length pre) ds seeds = Some r /\
    wfnd (pre ++ list_sum ns :: post) r /\
    forall j s i1 x i2, nth_error seeds j = Some s ->
      validIdx pre i1 -> x < nth j ns 0 -> validIdx post i2 ->
      get r (i1 ++ (list_sum (firstn j ns) + x) :: i2) = get s (i1 ++ x :: i2).
Proof.
  induction pre as [|d pre IH]; intros ds seeds ns Hds Hseeds.
  - cbn [length app fillCat] in *.
    assert (Hall : forall s, In s seeds -> asV s = Some (rowsOf s)).
    { intros s Hs. destruct (Forall2_In_l _ _ _ _ Hseeds Hs) as (n & _ & Hw).
      apply wfnd_cons in Hw as (l & -> & _). reflexivity. }
    rewrite (mapM_all_some asV rowsOf seeds Hall). cbn [obind].
    destruct (concat_parts post seeds ns Hseeds) as (H1 & H2 & H3).
    eexists; split; [reflexivity|]. split; [split; assumption|].
    intros j s i1 x i2 Hj Hi1 Hx Hi2. apply validIdx_nil in Hi1; subst i1. cbn [app].
    rewrite get_cons, (H3 j s x Hj Hx).
    destruct (Forall2_nth_l _ 0 _ _ Hseeds j s Hj) as [Hw _].
    apply wfnd_cons in Hw as (l & -> & _). rewrite get_cons. reflexivity.
  - destruct ds as [|d' ds]; cbn [length firstn] in Hds; [discriminate|].
    inversion Hds as [[Hd Hds']]; subst d'. rewrite Hds'.
    cbn [length fillCat app].
    set (sr := fun i => map (rowAt i) seeds).
    assert (Hsr : forall i, i < d -> Forall2 (fun s n => wfnd (pre ++ n :: post) s) (sr i) ns).
    { intros i Hi. unfold sr. apply Forall2_map_l. eapply Forall2_weaken; [|exact Hseeds].
      intros s n Hs. cbn beta in Hs. apply (wf_row _ _ _ i Hs Hi). }
    assert (Hrows : forall i, i < d ->
              mapM (fun s => do l <- asV s; nth_error l i) seeds = Some (sr i)).
    { intros i Hi. apply mapM_all_some. intros s Hs.
      destruct (Forall2_In_l _ _ _ _ Hseeds Hs) as (n & _ & Hw). apply (wf_row _ _ _ i Hw Hi). }
    set (g := fun i => match fillCat (length pre) ds (sr i) with Some r => r | None => Vec [] end).
    assert (Hg : forall i, i < d ->
              fillCat (length pre) ds (sr i) = Some (g i) /\
              wfnd (pre ++ list_sum ns :: post) (g i) /\
              forall j s i1 x i2, nth_error (sr i) j = Some s ->
                validIdx pre i1 -> x < nth j ns 0 -> validIdx post i2 ->
                get (g i) (i1 ++ (list_sum (firstn j ns) + x) :: i2) = get s (i1 ++ x :: i2)).
    { intros i Hi. destruct (IH ds (sr i) ns Hds' (Hsr i Hi)) as (r & Hr & Hw & He).
      unfold g. rewrite Hr. auto. }
    rewrite (mapM_seq_some _ g).
    2:{ intros i Hi. rewrite (Hrows i Hi). cbn [obind]. apply (Hg i Hi). }
    cbn [obind]. eexists; split; [reflexivity|]. split.
    + split; [rewrite map_length, seq_length; reflexivity|].
      apply Forall_forall. intros y Hy. apply in_map_iff in Hy as (i & <- & Hi). apply in_seq in Hi.
      apply (Hg i). lia.
    + intros j s i1 x i2 Hj Hi1 Hx Hi2.
      apply validIdx_cons in Hi1 as (i & r1 & -> & Hi & Hr1). cbn [app].
      rewrite get_cons, nth_error_map.
      rewrite (nth_error_nth' (seq 0 d) 0) by (rewrite seq_length; exact Hi).
      rewrite seq_nth by exact Hi. cbn [option_map Nat.add].
      destruct (Hg i Hi) as (_ & _ & He).
      rewrite (He j (rowAt i s) r1 x i2); [| |exact Hr1|exact Hx|exact Hi2].
      * destruct (Forall2_nth_l _ 0 _ _ Hseeds j s Hj) as [Hw _]. cbn [app] in Hw.
        symmetry. apply (wf_row _ _ _ i Hw Hi).
      * unfold sr. rewrite nth_error_map, Hj. reflexivity.
Qed.

(* ====================================================================== *)
(* 2. concat                                                              *)
(* ====================================================================== *)

Lemma completeIndex_nil (ds : list nat) : completeIndex [] ds = map (fun d => (0, d)) ds.
Proof. induction ds as [|d ds IH]; [reflexivity|]. cbn [completeIndex map]. rewrite IH. reflexivity. Qed.

(* copying with full ranges is the identity on well-formed data *)
Lemma sliceData_full_id ds : forall x : nd A, wfnd ds x -> sliceData (map (fun d => (0, d)) ds) x = Some x.
Proof.
  induction ds as [|d ds IH]; intros x Hx.
  - apply wfnd_nil in Hx as (a & ->). reflexivity.
  - apply wfnd_cons in Hx as (l & -> & Hl & Hf). cbn [map sliceData asV obind]. rewrite Nat.sub_0_r.
    rewrite (mapM_seq_some _ (fun i => nth i l (Vec []))).
    + cbn [obind]. do 2 f_equal. subst d. apply nth_error_ext_len.
      * rewrite map_length, seq_length. reflexivity.
      * intros i Hi. rewrite map_length, seq_length in Hi. rewrite nth_error_map.
        rewrite (nth_error_nth' (seq 0 (length l)) 0) by (rewrite seq_length; exact Hi).
        rewrite seq_nth by exact Hi. cbn [option_map Nat.add]. symmetry. apply nth_error_nth'. exact Hi.
    + intros i Hi. rewrite Nat.add_0_r.
      destruct (nth_error l i) as [y|] eqn:E; [|apply nth_error_None in E; lia].
      cbn [obind]. rewrite (nth_error_nth _ _ _ E). apply IH.
      rewrite Forall_forall in Hf. apply Hf. eapply nth_error_In; eauto.
Qed.

Lemma slice_nil (t : T) : wfnd (dims t) (data t) -> slice t [] = Some t.
Proof.
  intros H. unfold slice, copiedSliceOf. rewrite completeIndex_nil, (sliceData_full_id _ _ H). cbn [obind].
  rewrite map_map. cbn [fst snd]. destruct t as [ds x]. cbn [dims data]. do 2 f_equal.
  rewrite <- (map_id ds) at 2. apply map_ext. intros d. lia.
Qed.

Lemma getConcatDims_fold (pre post : list nat) (ts : list T) ns :
  Forall2 (fun t n => dims t = pre ++ n :: post) ts ns -> forall c,
  foldM (fun c t => do d <- nth_error (dims t) (length pre); Some (c + d)) ts c = Some (c + list_sum ns).
Proof.
  intros H. induction H as [|t n ts ns Ht _ IH]; intros c; cbn [foldM list_sum fold_right].
  - f_equal. lia.
  - rewrite Ht, nth_error_app_exact. cbn [obind]. rewrite IH. f_equal. unfold list_sum. lia.
Qed.

Lemma getConcatDims_spec (pre post : list nat) (ts : list T) ns :
  ts <> [] -> Forall2 (fun t n => dims t = pre ++ n :: post) ts ns ->
  getConcatDims ts (length pre) = Some (pre ++ list_sum ns :: post).
Proof.
  intros Hne H. unfold getConcatDims. rewrite (getConcatDims_fold pre post ts ns H). cbn [obind Nat.add].
  destruct H as [|t n ts ns Ht _]; [congruence|]. cbn [nth_error obind].
  rewrite Ht, setNth_app. reflexivity.
Qed.

Theorem concat_spec (pre post : list nat) (ts : list T) (ns : list nat) :
  ts <> [] ->
  Forall2 (fun t n => wf t /\ dims t = pre ++ n :: post) ts ns ->
  exists r, concatD ts (length pre) = Some r /\
    getConcatDims ts (length pre) = Some (dims r) /\
    dims r = pre ++ list_sum ns :: post /\
    wf r /\
    forall j t i1 x i2, nth_error ts j = Some t ->
      validIdx pre i1 -> x < nth j ns 0 -> validIdx post i2 ->
      get (data r) (i1 ++ (list_sum (firstn j ns) + x) :: i2) = get (data t) (i1 ++ x :: i2).
Proof.
  intros Hne H. unfold concatD.
  assert (Hcopies : mapM (fun t : T => do c <- slice t []; Some (data c)) ts = Some (map (@data A) ts)).
  { apply mapM_all_some. intros t Ht. destruct (Forall2_In_l _ _ _ _ H Ht) as (n & _ & [Hw _] & _).
    rewrite (slice_nil t Hw). reflexivity. }
  rewrite Hcopies. cbn [obind].
  assert (Hd : Forall2 (fun (t : T) n => dims t = pre ++ n :: post) ts ns).
  { eapply Forall2_weaken; [|exact H]. intros t n [_ E]. exact E. }
  rewrite (getConcatDims_spec pre post ts ns Hne Hd). cbn [obind].
  destruct (fillCat_spec pre post (pre ++ list_sum ns :: post) (map (@data A) ts) ns
              (firstn_app_exact _ _)) as (r & Hr & Hw & He).
  { apply Forall2_map_l. eapply Forall2_weaken; [|exact H]. intros t n [[Hw _] E]. cbn beta.
    rewrite <- E. exact Hw. }
  rewrite Hr. cbn [obind]. eexists; split; [reflexivity|]. cbn [dims data].
  split; [reflexivity|]. split; [reflexivity|]. split.
  - split; [exact Hw|]. cbn [dims].
    destruct H as [|t n ts ns [[_ Hp] Ht] _]; [congruence|]. rewrite Ht in Hp.
    apply Forall_app in Hp as [Hp1 Hp2]. inversion Hp2 as [|? ? Hn Hp3]; subst.
    apply Forall_app. split; [exact Hp1|]. constructor; [|exact Hp3].
    cbn [list_sum fold_right]. lia.
  - intros j t i1 x i2 Hj Hi1 Hx Hi2. apply (He j (data t) i1 x i2); try assumption.
    rewrite nth_error_map, Hj. reflexivity.
Qed.

End Concat.
