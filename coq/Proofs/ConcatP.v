(* ConcatP.v — initConcatResultTensor.fillCat / concat: the result of concatenating
   well-formed tensors whose shapes agree off [dim] is well-formed, has the shape of
   [getConcatDims], and its element at an index whose component [dim] falls into the
   j-th piece is the j-th operand's element at the index shifted back by the sizes of the
   pieces before it. *)
From Coq Require Import List Arith ZArith Bool Lia.
From Qeep Require Import Model.Scalar Model.Nd Model.Fill Model.Data Model.Valid Model.Api
  Proofs.NdP.
Import ListNotations.

(* ---------- list helpers ---------- *)
Lemma Forall2_In_l {X Y} (R : X -> Y -> Prop) l1 l2 a :
  Forall2 R l1 l2 -> In a l1 -> exists b, In b l2 /\ R a b.
Proof.
  intros H. induction H as [|x y l1 l2 Hxy _ IH]; intros Hin; [destruct Hin|].
  destruct Hin as [->|Hin].
  - exists y. split; [left; reflexivity|exact Hxy].
  - destruct (IH Hin) as (b & Hb & Hr). exists b. split; [right; exact Hb|exact Hr].
Qed.

Lemma Forall2_nth_l {X Y} (R : X -> Y -> Prop) (dy : Y) l1 l2 :
  Forall2 R l1 l2 -> forall j a, nth_error l1 j = Some a -> R a (nth j l2 dy) /\ j < length l2.
Proof.
  intros H. induction H as [|x y l1 l2 Hxy _ IH]; intros j a Hj.
  - destruct j; discriminate.
  - destruct j as [|j]; cbn in Hj.
    + inversion Hj; subst. split; [exact Hxy|cbn; lia].
    + destruct (IH j a Hj) as [H1 H2]. split; [exact H1|cbn; lia].
Qed.

Lemma Forall2_map_l {X Y Z} (P : Z -> Y -> Prop) (g : X -> Z) l aux :
  Forall2 (fun x b => P (g x) b) l aux -> Forall2 P (map g l) aux.
Proof. intros H. induction H as [|x y l1 l2 Hxy _ IH]; cbn; constructor; assumption. Qed.

Lemma Forall2_weaken {X Y} (R1 R2 : X -> Y -> Prop) l1 l2 :
  (forall a b, R1 a b -> R2 a b) -> Forall2 R1 l1 l2 -> Forall2 R2 l1 l2.
Proof. intros Hi H. induction H as [|x y l1 l2 Hxy _ IH]; constructor; auto. Qed.

Lemma firstn_app_exact {X} (l1 l2 : list X) : firstn (length l1) (l1 ++ l2) = l1.
Proof. induction l1 as [|a l1 IH]; [reflexivity|]. cbn. rewrite IH. reflexivity. Qed.

Lemma setNth_app {X} (l1 : list X) a v l2 : setNth (l1 ++ a :: l2) (length l1) v = Some (l1 ++ v :: l2).
Proof. induction l1 as [|b l1 IH]; [reflexivity|]. cbn. rewrite IH. reflexivity. Qed.

Lemma nth_error_app_exact {X} (l1 : list X) a l2 : nth_error (l1 ++ a :: l2) (length l1) = Some a.
Proof. induction l1 as [|b l1 IH]; [reflexivity|exact IH]. Qed.

Section Concat.
Context {A : Type}.
Notation T := (tensor A).

(* the rows of a value (total version of [asV]) *)
Definition rowsOf (s : nd A) : list (nd A) := match s with Vec l => l | Sc _ => [] end.
Definition rowAt (i : nat) (s : nd A) : nd A := nth i (rowsOf s) (Vec []).

Lemma wf_row d sh s i : wfnd (d :: sh) s -> i < d ->
  wfnd sh (rowAt i s) /\
  (do l <- asV s; nth_error l i) = Some (rowAt i s) /\
  forall rest, get s (i :: rest) = get (rowAt i s) rest.
Proof.
  intros Hs Hi. apply wfnd_cons in Hs as (l & -> & Hl & Hf). unfold rowAt. cbn [rowsOf asV obind].
  destruct (nth_error l i) as [y|] eqn:E; [|apply nth_error_None in E; lia].
  rewrite (nth_error_nth _ _ _ E).
  split; [rewrite Forall_forall in Hf; apply Hf; eapply nth_error_In; eauto|].
  split; [reflexivity|]. intros rest. rewrite get_cons, E. reflexivity.
Qed.

(* ====================================================================== *)
(* 1. fillCat                                                             *)
(* ====================================================================== *)

(* concatenating the row lists at the concatenation depth *)
Lemma concat_parts post seeds ns :
  Forall2 (fun s n => wfnd (n :: post) s) seeds ns ->
  length (concat (map rowsOf seeds)) = list_sum ns /\
  Forall (wfnd post) (concat (map rowsOf seeds)) /\
  forall j s x, nth_error seeds j = Some s -> x < nth j ns 0 ->
    nth_error (concat (map rowsOf seeds)) (list_sum (firstn j ns) + x) = nth_error (rowsOf s) x.
Proof.
  intros H. induction H as [|s n seeds ns Hs _ IH].
  - split; [reflexivity|]. split; [constructor|]. intros j s x Hj. destruct j; discriminate.
  - destruct IH as (IH1 & IH2 & IH3). apply wfnd_cons in Hs as (l & -> & Hl & Hf).
    cbn [map concat rowsOf list_sum fold_right]. split; [|split].
    + rewrite app_length, IH1. unfold list_sum. lia.
    + apply Forall_app. split; assumption.
    + intros j s x Hj Hx. destruct j as [|j]; cbn in Hj.
      * inversion Hj; subst s. cbn [firstn list_sum fold_right nth rowsOf] in *.
        apply nth_error_app1. lia.
      * cbn [firstn nth] in *. cbn [list_sum fold_right]. fold (list_sum (firstn j ns)).
        rewrite nth_error_app2 by lia.
        replace (n + list_sum (firstn j ns) + x - length l) with (list_sum (firstn j ns) + x) by lia.
        apply IH3; assumption.
Qed.

Theorem fillCat_spec (pre post : list nat) : forall (ds : list nat) (seeds : list (nd A)) (ns : list nat),
  firstn (length pre) ds = pre ->
  Forall2 (fun s n => wfnd (pre ++ n :: post) s) seeds ns ->
  exists r, fillCat (length pre) ds seeds = Some r /\
    wfnd (pre ++ list_sum ns :: post) r /\
    forall j s i1 x i2, nth_error seeds j = Some s ->
      validIdx pre i1 -> x < nth j ns 0 -> validIdx post i2 ->
      get r (i1 ++ (list_sum (firstn j ns) + x) :: i2) = get s (i1 ++ x :: i2).
Proof.
  induction pre as [|d pre IH]; intros ds seeds ns Hds Hseeds.
  - cbn [length app fillCat] in *.
    assert (Hall : forall s, In s seeds -> asV s = Some (rowsOf s)).
    { intros s Hs. destruct (Forall2_In_l _ _ _ _ Hseeds Hs) as (n & _ & Hw).
      apply wfnd_cons in Hw as (l & -> & _). reflexivity. }
    rewrite (mapM_all_some asV rowsOf seeds Hall). cbn [obind].
    destruct (concat_parts post seeds ns Hseeds) as (H1 & H2 & H3).
    eexists; split; [reflexivity|]. split; [split; assumption|].
    intros j s i1 x i2 Hj Hi1 Hx Hi2. apply validIdx_nil in Hi1; subst i1. cbn [app].
    rewrite get_cons, (H3 j s x Hj Hx).
    destruct (Forall2_nth_l _ 0 _ _ Hseeds j s Hj) as [Hw _].
    apply wfnd_cons in Hw as (l & -> & _). rewrite get_cons. reflexivity.
  - destruct ds as [|d' ds]; cbn [length firstn] in Hds; [discriminate|].
    inversion Hds as [[Hd Hds']]; subst d'. rewrite Hds'.
    cbn [length fillCat app].
    set (sr := fun i => map (rowAt i) seeds).
    assert (Hsr : forall i, i < d -> Forall2 (fun s n => wfnd (pre ++ n :: post) s) (sr i) ns).
    { intros i Hi. unfold sr. apply Forall2_map_l. eapply Forall2_weaken; [|exact Hseeds].
      intros s n Hs. cbn beta in Hs. apply (wf_row _ _ _ i Hs Hi). }
    assert (Hrows : forall i, i < d ->
              mapM (fun s => do l <- asV s; nth_error l i) seeds = Some (sr i)).
    { intros i Hi. apply mapM_all_some. intros s Hs.
      destruct (Forall2_In_l _ _ _ _ Hseeds Hs) as (n & _ & Hw). apply (wf_row _ _ _ i Hw Hi). }
    set (g := fun i => match fillCat (length pre) ds (sr i) with Some r => r | None => Vec [] end).
    assert (Hg : forall i, i < d ->
              fillCat (length pre) ds (sr i) = Some (g i) /\
              wfnd (pre ++ list_sum ns :: post) (g i) /\
              forall j s i1 x i2, nth_error (sr i) j = Some s ->
                validIdx pre i1 -> x < nth j ns 0 -> validIdx post i2 ->
                get (g i) (i1 ++ (list_sum (firstn j ns) + x) :: i2) = get s (i1 ++ x :: i2)).
    { intros i Hi. destruct (IH ds (sr i) ns Hds' (Hsr i Hi)) as (r & Hr & Hw & He).
      unfold g. rewrite Hr. auto. }
    rewrite (mapM_seq_some _ g).
    2:{ intros i Hi. rewrite (Hrows i Hi). cbn [obind]. apply (Hg i Hi). }
    cbn [obind]. eexists; split; [reflexivity|]. split.
    + split; [rewrite map_length, seq_length; reflexivity|].
      apply Forall_forall. intros y Hy. apply in_map_iff in Hy as (i & <- & Hi). apply in_seq in Hi.
      apply (Hg i). lia.
    + intros j s i1 x i2 Hj Hi1 Hx Hi2.
      apply validIdx_cons in Hi1 as (i & r1 & -> & Hi & Hr1). cbn [app].
      rewrite get_cons, nth_error_map.
      rewrite (nth_error_nth' (seq 0 d) 0) by (rewrite seq_length; exact Hi).
      rewrite seq_nth by exact Hi. cbn [option_map Nat.add].
      destruct (Hg i Hi) as (_ & _ & He).
      rewrite (He j (rowAt i s) r1 x i2); [| |exact Hr1|exact Hx|exact Hi2].
      * destruct (Forall2_nth_l _ 0 _ _ Hseeds j s Hj) as [Hw _]. cbn [app] in Hw.
        symmetry. apply (wf_row _ _ _ i Hw Hi).
      * unfold sr. rewrite nth_error_map, Hj. reflexivity.
Qed.

(* ====================================================================== *)
(* 2. concat                                                              *)
(* ====================================================================== *)

Lemma completeIndex_nil (ds : list nat) : completeIndex [] ds = map (fun d => (0, d)) ds.
Proof. induction ds as [|d ds IH]; [reflexivity|]. cbn [completeIndex map]. rewrite IH. reflexivity. Qed.

(* copying with full ranges is the identity on well-formed data *)
Lemma sliceData_full_id ds : forall x : nd A, wfnd ds x -> sliceData (map (fun d => (0, d)) ds) x = Some x.
Proof.
  induction ds as [|d ds IH]; intros x Hx.
  - apply wfnd_nil in Hx as (a & ->). reflexivity.
  - apply wfnd_cons in Hx as (l & -> & Hl & Hf). cbn [map sliceData asV obind]. rewrite Nat.sub_0_r.
    rewrite (mapM_seq_some _ (fun i => nth i l (Vec []))).
    + cbn [obind]. do 2 f_equal. subst d. apply nth_error_ext_len.
      * rewrite map_length, seq_length. reflexivity.
      * intros i Hi. rewrite map_length, seq_length in Hi. rewrite nth_error_map.
        rewrite (nth_error_nth' (seq 0 (length l)) 0) by (rewrite seq_length; exact Hi).
        rewrite seq_nth by exact Hi. cbn [option_map Nat.add]. symmetry. apply nth_error_nth'. exact Hi.
    + intros i Hi. rewrite Nat.add_0_r.
      destruct (nth_error l i) as [y|] eqn:E; [|apply nth_error_None in E; lia].
      cbn [obind]. rewrite (nth_error_nth _ _ _ E). apply IH.
      rewrite Forall_forall in Hf. apply Hf. eapply nth_error_In; eauto.
Qed.

Lemma slice_nil (t : T) : wfnd (dims t) (data t) -> slice t [] = Some t.
Proof.
  intros H. unfold slice, copiedSliceOf. rewrite completeIndex_nil, (sliceData_full_id _ _ H). cbn [obind].
  rewrite map_map. cbn [fst snd]. destruct t as [ds x]. cbn [dims data]. do 2 f_equal.
  rewrite <- (map_id ds) at 2. apply map_ext. intros d. lia.
Qed.

Lemma getConcatDims_fold (pre post : list nat) (ts : list T) ns :
  Forall2 (fun t n => dims t = pre ++ n :: post) ts ns -> forall c,
  foldM (fun c t => do d <- nth_error (dims t) (length pre); Some (c + d)) ts c = Some (c + list_sum ns).
Proof.
  intros H. induction H as [|t n ts ns Ht _ IH]; intros c; cbn [foldM list_sum fold_right].
  - f_equal. lia.
  - rewrite Ht, nth_error_app_exact. cbn [obind]. rewrite IH. f_equal. unfold list_sum. lia.
Qed.

Lemma getConcatDims_spec (pre post : list nat) (ts : list T) ns :
  ts <> [] -> Forall2 (fun t n => dims t = pre ++ n :: post) ts ns ->
  getConcatDims ts (length pre) = Some (pre ++ list_sum ns :: post).
Proof.
  intros Hne H. unfold getConcatDims. rewrite (getConcatDims_fold pre post ts ns H). cbn [obind Nat.add].
  destruct H as [|t n ts ns Ht _]; [congruence|]. cbn [nth_error obind].
  rewrite Ht, setNth_app. reflexivity.
Qed.

Theorem concat_spec (pre post : list nat) (ts : list T) (ns : list nat) :
  ts <> [] ->
  Forall2 (fun t n => wf t /\ dims t = pre ++ n :: post) ts ns ->
  exists r, concatD ts (length pre) = Some r /\
    getConcatDims ts (length pre) = Some (dims r) /\
    dims r = pre ++ list_sum ns :: post /\
    wf r /\
    forall j t i1 x i2, nth_error ts j = Some t ->
      validIdx pre i1 -> x < nth j ns 0 -> validIdx post i2 ->
      get (data r) (i1 ++ (list_sum (firstn j ns) + x) :: i2) = get (data t) (i1 ++ x :: i2).
Proof.
  intros Hne H. unfold concatD.
  assert (Hcopies : mapM (fun t : T => do c <- slice t []; Some (data c)) ts = Some (map (@data A) ts)).
  { apply mapM_all_some. intros t Ht. destruct (Forall2_In_l _ _ _ _ H Ht) as (n & _ & [Hw _] & _).
    rewrite (slice_nil t Hw). reflexivity. }
  rewrite Hcopies. cbn [obind].
  assert (Hd : Forall2 (fun (t : T) n => dims t = pre ++ n :: post) ts ns).
  { eapply Forall2_weaken; [|exact H]. intros t n [_ E]. exact E. }
  rewrite (getConcatDims_spec pre post ts ns Hne Hd). cbn [obind].
  destruct (fillCat_spec pre post (pre ++ list_sum ns :: post) (map (@data A) ts) ns
              (firstn_app_exact _ _)) as (r & Hr & Hw & He).
  { apply Forall2_map_l. eapply Forall2_weaken; [|exact H]. intros t n [[Hw _] E]. cbn beta.
    rewrite <- E. exact Hw. }
  rewrite Hr. cbn [obind]. eexists; split; [reflexivity|]. cbn [dims data].
  split; [reflexivity|]. split; [reflexivity|]. split.
  - split; [exact Hw|]. cbn [dims].
    destruct H as [|t n ts ns [[_ Hp] Ht] _]; [congruence|]. rewrite Ht in Hp.
    apply Forall_app in Hp as [Hp1 Hp2]. inversion Hp2 as [|? ? Hn Hp3]; subst.
    apply Forall_app. split; [exact Hp1|]. constructor; [|exact Hp3].
    cbn [list_sum fold_right]. lia.
  - intros j t i1 x i2 Hj Hi1 Hx Hi2. apply (He j (data t) i1 x i2); try assumption.
    rewrite nth_error_map, Hj. reflexivity.
Qed.

End Concat.

(* every position below the total falls into exactly one piece (coverage of the element equation) *)
Lemma sum_split : forall ns x, x < list_sum ns ->
  exists j x', j < length ns /\ x' < nth j ns 0 /\ x = list_sum (firstn j ns) + x'.
Proof.
  induction ns as [|n ns IH]; intros x Hx; cbn [list_sum fold_right] in Hx; [lia|].
  destruct (Nat.lt_ge_cases x n) as [Hlt|Hge].
  - exists 0, x. cbn. repeat split; lia.
  - destruct (IH (x - n)) as (j & x' & Hj & Hx' & E); [fold (list_sum ns) in Hx; lia|].
    exists (S j), x'. cbn [length nth firstn list_sum fold_right]. fold (list_sum (firstn j ns)).
    repeat split; lia.
Qed.

(* ---------- the validator ---------- *)
Definition offOk (dim : Z) (b0 : nat) (ds base : list nat) : bool :=
  forallb (fun p : Z * (Z * Z) => let '(j, (d, b)) := p in (j =? dim)%Z || (d =? b)%Z)
          (combine (map Z.of_nat (seq b0 (length ds))) (combine (map Z.of_nat ds) (map Z.of_nat base))).

Lemma offOk_cons dim b0 d ds b base :
  offOk dim b0 (d :: ds) (b :: base)
  = ((Z.of_nat b0 =? dim)%Z || (Z.of_nat d =? Z.of_nat b)%Z) && offOk dim (S b0) ds base.
Proof. reflexivity. Qed.

Lemma offOk_refl dim : forall ds b0, offOk dim b0 ds ds = true.
Proof.
  induction ds as [|d ds IH]; intros b0; [reflexivity|].
  rewrite offOk_cons, IH, Z.eqb_refl, orb_true_r. reflexivity.
Qed.

Lemma offOk_eq dim : forall ds base b0, length ds = length base -> (dim < Z.of_nat b0)%Z ->
  offOk dim b0 ds base = true -> ds = base.
Proof.
  induction ds as [|d ds IH]; intros [|b base] b0 Hl Hb H; cbn in Hl; try lia; [reflexivity|].
  rewrite offOk_cons in H. apply andb_true_iff in H as [H1 H2].
  apply orb_true_iff in H1 as [H1|H1]; [apply Z.eqb_eq in H1; lia|].
  apply Z.eqb_eq in H1. f_equal; [lia|]. apply (IH base (S b0)); [lia|lia|exact H2].
Qed.

(* shapes that differ at most at position [length pre] pass *)
Lemma offOk_app dim post n m : forall pre b0, dim = Z.of_nat (b0 + length pre) ->
  offOk dim b0 (pre ++ n :: post) (pre ++ m :: post) = true.
Proof.
  induction pre as [|a pre IH]; intros b0 Hd; cbn [app].
  - rewrite offOk_cons, offOk_refl. cbn [length] in Hd. rewrite Nat.add_0_r in Hd. subst dim.
    rewrite Z.eqb_refl. reflexivity.
  - rewrite offOk_cons, Z.eqb_refl, orb_true_r. cbn [andb]. apply IH. cbn [length] in Hd. lia.
Qed.

(* and conversely *)
Lemma offOk_inv dim : forall j ds base b0, length ds = length base -> j < length ds ->
  dim = Z.of_nat (b0 + j) -> offOk dim b0 ds base = true ->
  ds = firstn j base ++ nth j ds 0 :: skipn (S j) base.
Proof.
  induction j as [|j IH]; intros [|d ds] [|b base] b0 Hl Hj Hd H; cbn in Hl, Hj; try lia.
  - rewrite offOk_cons in H. apply andb_true_iff in H as [_ H2].
    cbn [firstn nth skipn app]. f_equal. apply (offOk_eq dim ds base (S b0)); [lia|lia|exact H2].
  - rewrite offOk_cons in H. apply andb_true_iff in H as [H1 H2].
    apply orb_true_iff in H1 as [H1|H1]; [apply Z.eqb_eq in H1; lia|]. apply Z.eqb_eq in H1.
    cbn [firstn nth skipn app]. f_equal; [lia|]. apply (IH ds base (S b0)); [lia|lia|lia|exact H2].
Qed.

Section ApiConcat.
Context {A : Type} {SA : Scalar A}.
Notation T := (tensor A).

(* the precondition of validateConcatTensorsDimsAlongDim: all operands have the same rank >= 1,
   0 <= dim < rank, and their shapes agree except at position dim *)
Definition concatPre (ts : list T) (dim : Z) : Prop :=
  exists pre post ns, dim = Z.of_nat (length pre) /\ Forall2 (fun t n => dims t = pre ++ n :: post) ts ns.

Lemma concatDimsOk_unfold (base : list nat) dim (t : T) rest :
  concatDimsOk (map Z.of_nat base) dim (zdims t :: rest)
  = negb (length (dims t) =? 0) && (length (dims t) =? length base)
    && ((0 <=? dim)%Z && (dim <? Z.of_nat (length base))%Z)
    && offOk dim 0 (dims t) base
    && concatDimsOk (map Z.of_nat base) dim rest.
Proof.
  cbn [concatDimsOk]. unfold zdims, zlen, offOk. rewrite !map_length. reflexivity.
Qed.

Lemma concatDimsOk_complete pre post n0 dim : dim = Z.of_nat (length pre) ->
  forall (ts : list T) ns, Forall2 (fun t n => dims t = pre ++ n :: post) ts ns ->
  concatDimsOk (map Z.of_nat (pre ++ n0 :: post)) dim (map zdims ts) = true.
Proof.
  intros Hd ts ns H. induction H as [|t n ts ns Ht _ IH]; [reflexivity|].
  cbn [map]. rewrite concatDimsOk_unfold, IH, Ht, offOk_app by (cbn; lia).
  rewrite !app_length. cbn [length]. rewrite Nat.eqb_refl.
  replace (length pre + S (length post) =? 0) with false by (symmetry; apply Nat.eqb_neq; lia).
  replace (0 <=? dim)%Z with true by (symmetry; apply Z.leb_le; lia).
  replace (dim <? Z.of_nat (length pre + S (length post)))%Z with true by (symmetry; apply Z.ltb_lt; lia).
  reflexivity.
Qed.

Lemma concatDimsOk_sound (base : list nat) dim : forall ts : list T,
  concatDimsOk (map Z.of_nat base) dim (map zdims ts) = true ->
  Forall2 (fun t n => dims t = firstn (Z.to_nat dim) base ++ n :: skipn (S (Z.to_nat dim)) base)
          ts (map (fun t => nth (Z.to_nat dim) (dims t) 0) ts)
  /\ (ts <> [] -> (0 <= dim < Z.of_nat (length base))%Z).
Proof.
  induction ts as [|t ts IH]; intros H; [split; [constructor|congruence]|].
  cbn [map] in H. rewrite concatDimsOk_unfold in H.
  apply andb_true_iff in H as [H H5]. apply andb_true_iff in H as [H H4].
  apply andb_true_iff in H as [H H3]. apply andb_true_iff in H as [H1 H2].
  apply andb_true_iff in H3 as [H3a H3b]. apply Z.leb_le in H3a. apply Z.ltb_lt in H3b.
  apply Nat.eqb_eq in H2. destruct (IH H5) as [IH1 _].
  split; [|intros _; lia]. cbn [map]. constructor; [|exact IH1].
  apply (offOk_inv dim (Z.to_nat dim) (dims t) base 0); [exact H2|lia|lia|exact H4].
Qed.

Theorem validateConcat_iff (ts : list T) dim : ts <> [] ->
  (validateConcatTensorsDimsAlongDim (map zdims ts) dim = Some true <-> concatPre ts dim) /\
  (validateConcatTensorsDimsAlongDim (map zdims ts) dim <> None).
Proof.
  intros Hne. destruct ts as [|t0 ts]; [congruence|]. cbn [map validateConcatTensorsDimsAlongDim].
  split; [|discriminate]. split.
  - intros H. inversion H as [H']. unfold zdims at 1 in H'.
    destruct (concatDimsOk_sound (dims t0) dim (t0 :: ts) H') as [H1 H2].
    specialize (H2 ltac:(discriminate)).
    exists (firstn (Z.to_nat dim) (dims t0)), (skipn (S (Z.to_nat dim)) (dims t0)), (map (fun t => nth (Z.to_nat dim) (dims t) 0) (t0 :: ts)).
    split; [|exact H1]. rewrite firstn_length. lia.
  - intros (pre & post & ns & Hd & H). f_equal.
    inversion H as [|t n ts' ns' Ht Hr]; subst. unfold zdims at 1. rewrite Ht.
    apply (concatDimsOk_complete pre post n (Z.of_nat (length pre)) eq_refl (t0 :: ts) (n :: ns')). exact H.
Qed.

Theorem v_concat_spec (ts : list T) (dim : Z) : Forall wf ts ->
  (length ts < 2 -> v_concat ts dim = Err) /\
  (2 <= length ts ->
     (concatPre ts dim ->
        exists r, v_concat ts dim = Ok r /\ concatD ts (Z.to_nat dim) = Some r /\
                  getConcatDims ts (Z.to_nat dim) = Some (dims r) /\ wf r) /\
     (~ concatPre ts dim -> v_concat ts dim = Err)).
Proof.
  intros Hw. unfold v_concat. split.
  - intros Hl. replace (length ts <? 2) with true by (symmetry; apply Nat.ltb_lt; exact Hl). reflexivity.
  - intros Hl. replace (length ts <? 2) with false by (symmetry; apply Nat.ltb_ge; exact Hl).
    assert (Hne : ts <> []) by (intros ->; cbn in Hl; lia).
    destruct (validateConcat_iff ts dim Hne) as [Hiff Hnn]. split.
    + intros Hpre. rewrite (proj2 Hiff Hpre). destruct Hpre as (pre & post & ns & Hd & H).
      assert (H' : Forall2 (fun t n => wf t /\ dims t = pre ++ n :: post) ts ns).
      { clear Hl Hne Hiff Hnn. induction H as [|t n ts ns Ht _ IH]; [constructor|].
        inversion Hw; subst. constructor; [split; assumption|apply IH; assumption]. }
      destruct (concat_spec pre post ts ns Hne H') as (r & H1 & H2 & _ & H4 & _).
      subst dim. rewrite Nat2Z.id. exists r. rewrite H1. auto.
    + intros Hn. destruct (validateConcatTensorsDimsAlongDim (map zdims ts) dim) as [[|]|] eqn:E.
      * exfalso. apply Hn, Hiff. reflexivity.
      * reflexivity.
      * congruence.
Qed.

Corollary v_concat_never_panics (ts : list T) (dim : Z) : Forall wf ts -> v_concat ts dim <> Panic.
Proof.
  intros Hw. unfold v_concat. destruct (length ts <? 2) eqn:El; [discriminate|].
  apply Nat.ltb_ge in El. assert (Hne : ts <> []) by (intros ->; cbn in El; lia).
  destruct (validateConcat_iff ts dim Hne) as [Hiff Hnn].
  destruct (validateConcatTensorsDimsAlongDim (map zdims ts) dim) as [[|]|] eqn:E; [|discriminate|congruence].
  destruct (v_concat_spec ts dim Hw) as [_ H]. destruct (H El) as [H1 _].
  destruct (H1 (proj1 Hiff eq_refl)) as (r & _ & -> & _). discriminate.
Qed.

End ApiConcat.

(* [concatPre] in elementary terms: same rank, 0 <= dim < rank, entries agree off [dim] *)
Lemma list_split_nth : forall d (l l' : list nat), length l = length l' -> d < length l ->
  (forall i, i <> d -> nth i l 0 = nth i l' 0) ->
  l = firstn d l' ++ nth d l 0 :: skipn (S d) l'.
Proof.
  induction d as [|d IH]; intros [|a l] [|b l'] Hl Hd H; cbn in Hl, Hd; try lia.
  - cbn [firstn nth skipn app]. f_equal. apply (nth_ext _ _ 0 0); [lia|].
    intros i _. apply (H (S i)). lia.
  - cbn [firstn nth skipn app]. f_equal; [apply (H 0); lia|].
    apply IH; [lia|lia|]. intros i Hi. apply (H (S i)). lia.
Qed.

Lemma nth_app_off (pre post : list nat) n m i : i <> length pre ->
  nth i (pre ++ n :: post) 0 = nth i (pre ++ m :: post) 0.
Proof.
  intros Hi. destruct (Nat.lt_ge_cases i (length pre)) as [Hlt|Hge].
  - rewrite !app_nth1 by exact Hlt. reflexivity.
  - rewrite !app_nth2 by exact Hge. destruct (i - length pre) as [|k] eqn:E; [lia|reflexivity].
Qed.

Theorem concatPre_iff {A} (ts : list (tensor A)) (dim : Z) : ts <> [] ->
  concatPre ts dim <->
  (0 <= dim)%Z /\
  forall t u, In t ts -> In u ts ->
    length (dims t) = length (dims u) /\ (dim < Z.of_nat (length (dims t)))%Z /\
    forall i, i <> Z.to_nat dim -> nth i (dims t) 0 = nth i (dims u) 0.
Proof.
  intros Hne. split.
  - intros (pre & post & ns & Hd & H). split; [lia|]. intros t u Ht Hu.
    destruct (Forall2_In_l _ _ _ _ H Ht) as (n & _ & En).
    destruct (Forall2_In_l _ _ _ _ H Hu) as (m & _ & Em).
    rewrite En, Em, !app_length. cbn [length]. split; [reflexivity|]. split; [lia|].
    intros i Hi. apply nth_app_off. subst dim. rewrite Nat2Z.id in Hi. exact Hi.
  - intros [H0 H]. destruct ts as [|t0 ts]; [congruence|].
    set (d := Z.to_nat dim).
    exists (firstn d (dims t0)), (skipn (S d) (dims t0)), (map (fun t => nth d (dims t) 0) (t0 :: ts)).
    destruct (H t0 t0 (or_introl eq_refl) (or_introl eq_refl)) as (_ & Hlt & _).
    split; [rewrite firstn_length; unfold d; lia|].
    assert (G : forall l : list (tensor A), (forall t, In t l -> In t (t0 :: ts)) ->
              Forall2 (fun t n => dims t = firstn d (dims t0) ++ n :: skipn (S d) (dims t0))
                      l (map (fun t => nth d (dims t) 0) l)).
    { induction l as [|t l IHl]; intros Hin; cbn [map]; constructor.
      - destruct (H t t0 (Hin t (or_introl eq_refl)) (or_introl eq_refl)) as (Hl & Hlt' & Hnth).
        apply list_split_nth; [exact Hl|unfold d; lia|exact Hnth].
      - apply IHl. intros u Hu. apply Hin. right. exact Hu. }
    apply G. auto.
Qed.

(* ====================================================================== *)
(* 3. slicing a piece back out of the concatenation                       *)
(* ====================================================================== *)
Fixpoint shiftI (idx : list nat) (index : list range) : list nat :=
  match idx, index with
  | i :: idx', (f, _) :: index' => (i + f) :: shiftI idx' index'
  | _, _ => []
  end.

Lemma shiftI_full ds : forall idx, length idx = length ds -> shiftI idx (map (fun d => (0, d)) ds) = idx.
Proof.
  induction ds as [|d ds IH]; intros [|i idx] H; cbn in H; try lia; [reflexivity|].
  cbn [map shiftI]. rewrite IH by lia. f_equal. lia.
Qed.

Lemma shiftI_app i1 : forall index1 i2 index2, length i1 = length index1 ->
  shiftI (i1 ++ i2) (index1 ++ index2) = shiftI i1 index1 ++ shiftI i2 index2.
Proof.
  induction i1 as [|i i1 IH]; intros [|[f t] index1] i2 index2 H; cbn in H; try lia; [reflexivity|].
  cbn [app shiftI]. rewrite IH by lia. reflexivity.
Qed.

Lemma list_sum_firstn_le : forall ns j, j < length ns -> list_sum (firstn j ns) + nth j ns 0 <= list_sum ns.
Proof.
  induction ns as [|n ns IH]; intros j Hj; cbn in Hj; [lia|].
  destruct j as [|j]; cbn [firstn nth list_sum fold_right]; [lia|].
  fold (list_sum (firstn j ns)). fold (list_sum ns). specialize (IH j ltac:(lia)). lia.
Qed.

Lemma list_sum_firstn_S : forall ns j, j < length ns ->
  list_sum (firstn (S j) ns) = list_sum (firstn j ns) + nth j ns 0.
Proof.
  induction ns as [|n ns IH]; intros j Hj; cbn in Hj; [lia|].
  destruct j as [|j]; [cbn; lia|].
  cbn [firstn nth list_sum fold_right] in *. fold (list_sum (firstn j ns)).
  specialize (IH j ltac:(lia)). cbn [firstn] in IH. unfold list_sum in *. lia.
Qed.

Section SliceConcat.
Context {A : Type}.
Notation T := (tensor A).

(* copying a block: element idx of the copy is element idx + From of the source *)
Lemma sliceData_shift : forall (index : list range) (ds : list nat) (x : nd A),
  wfnd ds x -> Forall2 (fun (r : range) d => fst r <= snd r /\ snd r <= d) index ds ->
  exists y, sliceData index x = Some y /\
    wfnd (map (fun r : range => snd r - fst r) index) y /\
    forall idx, validIdx (map (fun r : range => snd r - fst r) index) idx ->
      get y idx = get x (shiftI idx index).
Proof.
  induction index as [|[f t] index IH]; intros ds x Hx Hr.
  - inversion Hr; subst. apply wfnd_nil in Hx as (a & ->). exists (Sc a).
    split; [reflexivity|]. split; [exact I|]. intros idx Hv. apply validIdx_nil in Hv; subst. reflexivity.
  - inversion Hr as [|r d index' ds' [Hft Htd] Hr']; subst. cbn [fst snd] in Hft, Htd.
    apply wfnd_cons in Hx as (l & -> & Hl & Hf). cbn [sliceData asV obind].
    set (fi := fun i => do r <- nth_error l (i + f); sliceData index r).
    set (g := fun i => match fi i with Some y => y | None => Vec [] end).
    assert (Hg : forall i, i < t - f -> exists r, nth_error l (i + f) = Some r /\ fi i = Some (g i) /\
                 wfnd (map (fun r : range => snd r - fst r) index) (g i) /\
                 forall idx, validIdx (map (fun r : range => snd r - fst r) index) idx ->
                   get (g i) idx = get r (shiftI idx index)).
    { intros i Hi. destruct (nth_error l (i + f)) as [r|] eqn:E; [|apply nth_error_None in E; lia].
      assert (Hwr : wfnd ds' r) by (rewrite Forall_forall in Hf; apply Hf; eapply nth_error_In; eauto).
      destruct (IH ds' r Hwr Hr') as (y & Hy & Hwy & Hey).
      exists r. unfold g, fi. rewrite E. cbn [obind]. rewrite Hy. auto. }
    rewrite (mapM_seq_some fi g) by (intros i Hi; destruct (Hg i Hi) as (r & _ & H2 & _); exact H2).
    cbn [obind]. eexists; split; [reflexivity|]. cbn [map fst snd]. split.
    + split; [rewrite map_length, seq_length; reflexivity|].
      apply Forall_forall. intros y Hy. apply in_map_iff in Hy as (i & <- & Hi). apply in_seq in Hi.
      destruct (Hg i ltac:(lia)) as (r & _ & _ & H3 & _). exact H3.
    + intros idx Hv. apply validIdx_cons in Hv as (i & idx' & -> & Hi & Hv').
      rewrite get_cons, nth_error_map.
      rewrite (nth_error_nth' (seq 0 (t - f)) 0) by (rewrite seq_length; exact Hi).
      rewrite seq_nth by exact Hi. cbn [option_map Nat.add shiftI].
      destruct (Hg i Hi) as (r & H1 & _ & _ & H4). rewrite (H4 idx' Hv'), get_cons, H1. reflexivity.
Qed.

Lemma completeIndex_pre (pre : list nat) rest ds2 :
  completeIndex (repeat (0, 0) (length pre) ++ rest) (pre ++ ds2)
  = map (fun d => (0, d)) pre ++ completeIndex rest ds2.
Proof. induction pre as [|d pre IH]; [reflexivity|]. cbn [length repeat app completeIndex map]. rewrite IH. reflexivity. Qed.

Theorem slice_concat (pre post : list nat) (ts : list T) (ns : list nat) j t :
  ts <> [] ->
  Forall2 (fun t n => wf t /\ dims t = pre ++ n :: post) ts ns ->
  nth_error ts j = Some t ->
  exists r, concatD ts (length pre) = Some r /\
    slice r (repeat (0, 0) (length pre)
             ++ [(list_sum (firstn j ns), list_sum (firstn j ns) + nth j ns 0)]) = Some t.
Proof.
  intros Hne H Hj.
  destruct (concat_spec pre post ts ns Hne H) as (r & Hr & _ & Hdr & [Hwr Hposr] & He).
  exists r. split; [exact Hr|].
  destruct (Forall2_nth_l _ 0 _ _ H j t Hj) as [[[Hwt Hpost] Hdt] Hjl].
  set (off := list_sum (firstn j ns)) in *. set (n := nth j ns 0) in *.
  assert (Hn : 0 < n).
  { rewrite Hdt in Hpost. apply Forall_app in Hpost as [_ Hp]. inversion Hp; assumption. }
  unfold slice. rewrite Hdr, completeIndex_pre. cbn [completeIndex].
  replace ((off =? 0) && (off + n =? 0)) with false
    by (symmetry; apply andb_false_iff; right; apply Nat.eqb_neq; lia).
  rewrite completeIndex_nil.
  set (index := map (fun d => (0, d)) pre ++ (off, off + n) :: map (fun d => (0, d)) post).
  assert (Hsizes : map (fun r : range => snd r - fst r) index = dims t).
  { unfold index. rewrite map_app. cbn [map fst snd]. rewrite !map_map. cbn [fst snd]. rewrite Hdt.
    f_equal; [|f_equal].
    - rewrite <- (map_id pre) at 2. apply map_ext. intros d. lia.
    - lia.
    - rewrite <- (map_id post) at 2. apply map_ext. intros d. lia. }
  assert (Hrng : Forall2 (fun (r : range) d => fst r <= snd r /\ snd r <= d) index (pre ++ list_sum ns :: post)).
  { unfold index. apply Forall2_app; [|constructor].
    - clear. induction pre as [|d pre IH]; cbn [map]; constructor; [cbn; lia|exact IH].
    - cbn [fst snd]. pose proof (list_sum_firstn_le ns j Hjl). fold off n in H0. lia.
    - clear. induction post as [|d post IH]; cbn [map]; constructor; [cbn; lia|exact IH]. }
  rewrite Hdr in Hwr.
  destruct (sliceData_shift index _ (data r) Hwr Hrng) as (y & Hy & Hwy & Hey).
  unfold copiedSliceOf. rewrite Hy. cbn [obind].
  assert (Edata : y = data t).
  { apply (nd_ext A (dims t)); [rewrite <- Hsizes; exact Hwy|exact Hwt|].
    intros idx Hv. rewrite Hey by (rewrite Hsizes; exact Hv).
    rewrite Hdt in Hv. apply Forall2_app_inv_r in Hv as (i1 & i2' & Hi1 & Hi2' & ->).
    inversion Hi2' as [|x ? i2 ? Hx Hi2]; subst.
    unfold index. rewrite shiftI_app by (rewrite map_length; apply (validIdx_length _ _ Hi1)).
    rewrite shiftI_full by (apply (validIdx_length _ _ Hi1)).
    cbn [shiftI]. rewrite shiftI_full by (apply (validIdx_length _ _ Hi2)).
    rewrite (Nat.add_comm x off). apply (He j t i1 x i2 Hj Hi1 Hx Hi2). }
  rewrite Edata. destruct t as [dt xt]. cbn [dims data] in Hsizes |- *. do 2 f_equal. exact Hsizes.
Qed.

End SliceConcat.

(* ====================================================================== *)
(* non-vacuity                                                            *)
(* ====================================================================== *)
Module Ex.
Definition ta : tensor nat := mkT [2; 1; 2] (Vec [Vec [Vec [Sc 1; Sc 2]]; Vec [Vec [Sc 3; Sc 4]]]).
Definition tb : tensor nat := mkT [2; 2; 2] (Vec [Vec [Vec [Sc 5; Sc 6]; Vec [Sc 7; Sc 8]];
                                                  Vec [Vec [Sc 9; Sc 10]; Vec [Sc 11; Sc 12]]]).
Example ta_wf : wf ta. Proof. split; [apply wfndb_spec; reflexivity|repeat constructor]. Qed.
Example tb_wf : wf tb. Proof. split; [apply wfndb_spec; reflexivity|repeat constructor]. Qed.

Example ex_hyp : Forall2 (fun t n => wf t /\ dims t = [2] ++ n :: [2]) [ta; tb; ta] [1; 2; 1].
Proof. repeat constructor; try (apply wfndb_spec; reflexivity). Qed.

Example ex_concat :
  concatD [ta; tb; ta] 1
  = Some (mkT [2; 4; 2]
       (Vec [Vec [Vec [Sc 1; Sc 2]; Vec [Sc 5; Sc 6]; Vec [Sc 7; Sc 8]; Vec [Sc 1; Sc 2]];
             Vec [Vec [Sc 3; Sc 4]; Vec [Sc 9; Sc 10]; Vec [Sc 11; Sc 12]; Vec [Sc 3; Sc 4]]])) /\
  getConcatDims [ta; tb; ta] 1 = Some [2; 4; 2] /\
  v_concat [ta; tb; ta] 1 = of_opt (concatD [ta; tb; ta] 1) /\
  v_concat [ta] 1 = Err /\ v_concat [ta; tb] 0 = Err /\ v_concat [ta; tb] 3 = Err /\
  v_concat [ta; tb] (-1) = Err /\
  v_concat [ta; tb] 1 <> Err.
Proof. vm_compute. repeat split. discriminate. Qed.

Example ex_pre : concatPre [ta; tb; ta] 1.
Proof. exists [2], [2], [1; 2; 1]. split; [reflexivity|repeat constructor]. Qed.

(* the theorems instantiated *)
Example ex_slice_concat :
  exists r, concatD [ta; tb; ta] 1 = Some r /\ slice r [(0, 0); (1, 3)] = Some tb.
Proof. apply (slice_concat [2] [2] [ta; tb; ta] [1; 2; 1] 1 tb ltac:(discriminate) ex_hyp eq_refl). Qed.

Example ex_elem :
  exists r, concatD [ta; tb; ta] 1 = Some r /\ get (data r) [1; 2; 0] = Some 11.
Proof.
  destruct (concat_spec [2] [2] [ta; tb; ta] [1; 2; 1] ltac:(discriminate) ex_hyp) as (r & Hr & _ & _ & _ & He).
  exists r. split; [exact Hr|].
  apply (He 1 tb [1] 1 [0] eq_refl); repeat constructor.
Qed.
End Ex.

Print Assumptions fillCat_spec.
Print Assumptions concat_spec.
Print Assumptions validateConcat_iff.
Print Assumptions concatPre_iff.
Print Assumptions v_concat_spec.
Print Assumptions v_concat_never_panics.
Print Assumptions slice_concat.
