(* GoValidP2.v — the validators of tensor/internal/validator/{operators,reducers,shape_modifiers,initializers}.go
   as translated by harness/gox (Model/GoFns.v) compute the hand-written model functions of Model/Valid.v, for ALL
   inputs:  ValidateReducedDimAgainstDims, ValidateTransposeDims, ValidateDotProductDims, ValidateMatMulDims,
   ValidateBinaryFuncDimsMatch, ValidateConcatTensorsDimsAlongDim (see coq/GOIR_NOTES.md). *)
From Coq Require Import String List ZArith Bool Lia Arith.
From Qeep Require Import Model.GoIR Model.GoFns Model.Nd Model.Valid Proofs.GoIRP.
Import ListNotations.
Local Open Scope string_scope.
Local Open Scope Z_scope.
Local Open Scope list_scope.

(* decide the integer comparisons of the goal that lia can decide *)
Ltac zdec :=
  repeat match goal with
  | |- context [?a <? ?b] =>
      first [ replace (a <? b) with true by (symmetry; apply Z.ltb_lt; lia)
            | replace (a <? b) with false by (symmetry; apply Z.ltb_ge; lia) ]
  | |- context [?a <=? ?b] =>
      first [ replace (a <=? b) with true by (symmetry; apply Z.leb_le; lia)
            | replace (a <=? b) with false by (symmetry; apply Z.leb_gt; lia) ]
  end.

(* ------------------------------------------------------------------------------------------------ *)
(* 1. ValidateReducedDimAgainstDims, ValidateTransposeDims                                            *)
(* ------------------------------------------------------------------------------------------------ *)

Theorem go_ValidateReducedDimAgainstDims call fuel (dim : Z) (dims : list Z) :
  exec call fuel (fbody ValidateReducedDimAgainstDims) [("dim", VI dim); ("dims", ints dims)]
  = ORet [errOf (validateReducedDimAgainstDims dim dims)].
Proof.
  unfold validateReducedDimAgainstDims, ValidateReducedDimAgainstDims, zlen. cbn [fbody].
  gxs. rewrite !zlenV_map.
  destruct (0 <=? dim); gxs; [|reflexivity].
  destruct (dim <? Z.of_nat (length dims)); gxs; reflexivity.
Qed.

Corollary run_ValidateReducedDimAgainstDims fuel (dim : Z) (dims : list Z) :
  run ftab fuel ValidateReducedDimAgainstDims [VI dim; ints dims]
  = ORet [errOf (validateReducedDimAgainstDims dim dims)].
Proof. unfold run. cbn [fparams ValidateReducedDimAgainstDims bindArgs]. apply go_ValidateReducedDimAgainstDims. Qed.

Theorem go_ValidateTransposeDims call fuel (dims : list Z) :
  exec call fuel (fbody ValidateTransposeDims) [("dims", ints dims)]
  = ORet [errOf (validateTransposeDims dims)].
Proof.
  unfold validateTransposeDims, ValidateTransposeDims. cbn [fbody].
  gxs. rewrite !zlenV_map.
  destruct (2 <=? length dims)%nat eqn:E.
  - apply Nat.leb_le in E. zdec. gxs. reflexivity.
  - apply Nat.leb_gt in E. zdec. gxs. reflexivity.
Qed.

Corollary run_ValidateTransposeDims fuel (dims : list Z) :
  run ftab fuel ValidateTransposeDims [ints dims]
  = ORet [errOf (validateTransposeDims dims)].
Proof. unfold run. cbn [fparams ValidateTransposeDims bindArgs]. apply go_ValidateTransposeDims. Qed.

(* ------------------------------------------------------------------------------------------------ *)
(* 2. ValidateDotProductDims, ValidateMatMulDims                                                      *)
(* ------------------------------------------------------------------------------------------------ *)

Lemma rev_eq_nil {T} (l : list T) : rev l = [] -> l = [].
Proof. intros H. rewrite <- (rev_involutive l), H. reflexivity. Qed.

Lemma rev_eq_cons {T} (l : list T) a r : rev l = a :: r -> l = rev r ++ [a].
Proof. intros H. rewrite <- (rev_involutive l), H. reflexivity. Qed.

(* indexing a slice [p ++ s] at position len p *)
Lemma idx_app (p s : list Z) (z : Z) :
  z = Z.of_nat (length p) ->
  match idxOf z with Some n => nth_error (map VI (p ++ s)) n | None => None end = option_map VI (hd_error s).
Proof.
  intros ->. rewrite idxOf_nat, nth_error_map_VI, nth_error_app2, Nat.sub_diag by lia.
  destruct s; reflexivity.
Qed.

Theorem go_ValidateDotProductDims call fuel (dims1 dims2 : list Z) :
  exec call fuel (fbody ValidateDotProductDims) [("dims1", ints dims1); ("dims2", ints dims2)]
  = ORet [errOf (validateDotProductDims dims1 dims2)].
Proof.
  unfold validateDotProductDims, ValidateDotProductDims. cbn [fbody].
  gxs. rewrite !zlenV_map.
  destruct (rev dims1) as [|a r1] eqn:E1.
  { apply rev_eq_nil in E1; subst dims1. cbn [length Z.of_nat]. zdec. gxs. reflexivity. }
  apply rev_eq_cons in E1; subst dims1.
  destruct (rev dims2) as [|b r2] eqn:E2.
  { apply rev_eq_nil in E2; subst dims2. rewrite !app_length. cbn [length Z.of_nat]. zdec. gxs. reflexivity. }
  apply rev_eq_cons in E2; subst dims2.
  rewrite !app_length. cbn [length]. zdec. gxs.
  rewrite !idx_app by lia. cbn [hd_error option_map]. gxs.
  destruct (a =? b); gxs; reflexivity.
Qed.

Corollary run_ValidateDotProductDims fuel (dims1 dims2 : list Z) :
  run ftab fuel ValidateDotProductDims [ints dims1; ints dims2]
  = ORet [errOf (validateDotProductDims dims1 dims2)].
Proof. unfold run. cbn [fparams ValidateDotProductDims bindArgs]. apply go_ValidateDotProductDims. Qed.

Theorem go_ValidateMatMulDims call fuel (dims1 dims2 : list Z) :
  exec call fuel (fbody ValidateMatMulDims) [("dims1", ints dims1); ("dims2", ints dims2)]
  = ORet [errOf (validateMatMulDims dims1 dims2)].
Proof.
  unfold validateMatMulDims, ValidateMatMulDims. cbn [fbody].
  gxs. rewrite !zlenV_map.
  destruct (rev dims1) as [|a r1] eqn:E1.
  { apply rev_eq_nil in E1; subst dims1. cbn [length Z.of_nat]. zdec. gxs. reflexivity. }
  apply rev_eq_cons in E1; subst dims1.
  destruct r1 as [|a' r1].
  { cbn [rev app length Z.of_nat]. zdec. gxs. reflexivity. }
  destruct (rev dims2) as [|c r2] eqn:E2.
  { apply rev_eq_nil in E2; subst dims2. rewrite ?app_length, ?rev_length. cbn [length Z.of_nat]. zdec. gxs. reflexivity. }
  apply rev_eq_cons in E2; subst dims2.
  destruct r2 as [|b r2].
  { rewrite ?app_length, ?rev_length. cbn [rev app length Z.of_nat]. zdec. gxs. reflexivity. }
  cbn [rev]. rewrite <- (app_assoc (rev r2) [b] [c]). cbn [app].
  rewrite ?app_length, ?rev_length. cbn [length]. zdec. gxs.
  rewrite (idx_app (rev (a' :: r1)) [a]) by (rewrite rev_length; cbn [length]; lia).
  rewrite (idx_app (rev r2) [b; c]) by (rewrite rev_length; lia).
  cbn [hd_error option_map]. gxs.
  destruct (a =? b); gxs; reflexivity.
Qed.

Corollary run_ValidateMatMulDims fuel (dims1 dims2 : list Z) :
  run ftab fuel ValidateMatMulDims [ints dims1; ints dims2]
  = ORet [errOf (validateMatMulDims dims1 dims2)].
Proof. unfold run. cbn [fparams ValidateMatMulDims bindArgs]. apply go_ValidateMatMulDims. Qed.

(* ------------------------------------------------------------------------------------------------ *)
(* 3. ValidateBinaryFuncDimsMatch (counting for loop)                                                 *)
(* ------------------------------------------------------------------------------------------------ *)

Lemma dimsEq_length (a b : list Z) : dimsEq a b = true -> length a = length b.
Proof.
  revert b; induction a as [|x a IH]; intros [|y b] H; cbn in *; try discriminate; auto.
  apply andb_true_iff in H. destruct H as [_ H]. now rewrite (IH _ H).
Qed.

(* the loop of ValidateBinaryFuncDimsMatch, for any cond / body / post that behave like the Go ones *)
Lemma binmatch_loop (D1 D2 : list Z) (cond : env -> option val) (body post : env -> outcome) :
  (forall e k, lookup e "i" = Some (VI (Z.of_nat k)) ->
     lookup e "dims1" = Some (ints D1) -> lookup e "dims2" = Some (ints D2) ->
     cond e = Some (VB (Z.of_nat k <? Z.of_nat (length D1))) /\
     body e = match nth_error D1 k, nth_error D2 k with
              | Some a, Some b => if a =? b then ONormal e else ORet [VI 1]
              | _, _ => OPanic
              end /\
     post e = ONormal (upd e "i" (VI (Z.of_nat k + 1)))) ->
  forall (r1 r2 p1 p2 : list Z) (e : env) (fuel : nat),
  D1 = p1 ++ r1 -> D2 = p2 ++ r2 -> length p1 = length p2 -> length r1 = length r2 ->
  lookup e "i" = Some (VI (Z.of_nat (length p1))) ->
  lookup e "dims1" = Some (ints D1) -> lookup e "dims2" = Some (ints D2) ->
  (length r1 < fuel)%nat ->
  (dimsEq r1 r2 = true -> exists e', forLoop fuel cond body post e = ONormal e') /\
  (dimsEq r1 r2 = false -> forLoop fuel cond body post e = ORet [VI 1]).
Proof.
  intros Hs. induction r1 as [|a r1 IH]; intros [|b r2] p1 p2 e fuel H1 H2 Hp Hr Hi Hd1 Hd2 Hf;
    cbn [length] in Hr; try discriminate; (destruct fuel as [|fuel]; [lia|]);
    destruct (Hs e (length p1) Hi Hd1 Hd2) as [Hc [Hb Hpost]]; cbn [forLoop]; rewrite Hc.
  - subst D1. rewrite app_nil_r. rewrite Z.ltb_irrefl. cbn [dimsEq]. split; [eauto | discriminate].
  - assert (Hlt : Z.of_nat (length p1) <? Z.of_nat (length D1) = true).
    { apply Z.ltb_lt. subst D1. rewrite app_length. cbn [length]. lia. }
    rewrite Hlt, Hb.
    assert (Hn1 : nth_error D1 (length p1) = Some a).
    { subst D1. rewrite nth_error_app2, Nat.sub_diag by lia. reflexivity. }
    assert (Hn2 : nth_error D2 (length p1) = Some b).
    { subst D2. rewrite Hp, nth_error_app2, Nat.sub_diag by lia. reflexivity. }
    rewrite Hn1, Hn2. cbn [dimsEq].
    destruct (a =? b); cbn [andb].
    + rewrite Hpost.
      apply (IH r2 (p1 ++ [a]) (p2 ++ [b])).
      * subst D1. now rewrite <- app_assoc.
      * subst D2. now rewrite <- app_assoc.
      * rewrite !app_length. cbn [length]. lia.
      * cbn [length] in Hr. lia.
      * lk. rewrite app_length. cbn [length]. f_equal. f_equal. lia.
      * lk. exact Hd1.
      * lk. exact Hd2.
      * cbn [length] in Hf. lia.
    + split; [discriminate | reflexivity].
Qed.

Theorem go_ValidateBinaryFuncDimsMatch call fuel (dims1 dims2 : list Z) :
  (S (length dims1) <= fuel)%nat ->
  exec call fuel (fbody ValidateBinaryFuncDimsMatch) [("dims1", ints dims1); ("dims2", ints dims2)]
  = ORet [errOf (validateBinaryFuncDimsMatch dims1 dims2)].
Proof.
  intros Hfuel.
  unfold validateBinaryFuncDimsMatch, ValidateBinaryFuncDimsMatch. cbn [fbody].
  gxs. rewrite !zlenV_map.
  destruct (Z.of_nat (length dims1) =? Z.of_nat (length dims2)) eqn:El; gxs.
  - apply Z.eqb_eq in El. apply Nat2Z.inj in El.
    match goal with |- context [forLoop _ ?cnd ?bdy ?pst ?e0] =>
      assert (Hspec : forall e k, lookup e "i" = Some (VI (Z.of_nat k)) ->
         lookup e "dims1" = Some (ints dims1) -> lookup e "dims2" = Some (ints dims2) ->
         cnd e = Some (VB (Z.of_nat k <? Z.of_nat (length dims1))) /\
         bdy e = match nth_error dims1 k, nth_error dims2 k with
               | Some a, Some b => if a =? b then ONormal e else ORet [VI 1]
               | _, _ => OPanic
               end /\
         pst e = ONormal (upd e "i" (VI (Z.of_nat k + 1))));
      [| destruct (binmatch_loop dims1 dims2 cnd bdy pst Hspec dims1 dims2 [] [] e0 fuel
                     eq_refl eq_refl eq_refl El eq_refl eq_refl eq_refl Hfuel) as [HT HF]]
    end.
    + intros e k Hi H1 H2. split; [|split].
      * gxs. rewrite Hi, H1. gxs. rewrite zlenV_map. reflexivity.
      * gxs. rewrite Hi, H1, H2. gxs. rewrite idxOf_nat, !nth_error_map_VI.
        destruct (nth_error dims1 k) as [a|]; cbn [option_map]; [|reflexivity].
        destruct (nth_error dims2 k) as [b|]; cbn [option_map]; [|reflexivity].
        gxs. destruct (a =? b); gxs; [reflexivity|].
        rewrite ?Hi, ?H1, ?H2; gxs.
        reflexivity.
      * gxs. rewrite Hi. gxs. reflexivity.
    + destruct (dimsEq dims1 dims2).
      * destruct (HT eq_refl) as [e' He']. rewrite He'. gxs. reflexivity.
      * rewrite (HF eq_refl). reflexivity.
  - apply Z.eqb_neq in El.
    destruct (dimsEq dims1 dims2) eqn:Ed; [|reflexivity].
    apply dimsEq_length in Ed. lia.
Qed.

Corollary run_ValidateBinaryFuncDimsMatch fuel (dims1 dims2 : list Z) :
  (S (length dims1) <= fuel)%nat ->
  run ftab fuel ValidateBinaryFuncDimsMatch [ints dims1; ints dims2]
  = ORet [errOf (validateBinaryFuncDimsMatch dims1 dims2)].
Proof.
  intros H. unfold run. cbn [fparams ValidateBinaryFuncDimsMatch bindArgs].
  now apply go_ValidateBinaryFuncDimsMatch.
Qed.

(* ------------------------------------------------------------------------------------------------ *)
(* 4. ValidateConcatTensorsDimsAlongDim (nested range loops; tsDims[0] panics on the empty list)      *)
(* ------------------------------------------------------------------------------------------------ *)

(* one conjunct of concatDimsOk: the checks the Go loop body makes for one tensor *)
Definition concatRowOk (base : list Z) (dim : Z) (ds : list Z) : bool :=
  negb (length ds =? 0)%nat
  && (length ds =? length base)%nat
  && ((0 <=? dim) && (dim <? zlen base))
  && forallb (fun p : Z * (Z * Z) => let '(j, (d, b)) := p in (j =? dim) || (d =? b))
             (combine (map Z.of_nat (seq 0 (length ds))) (combine ds base)).

Lemma concatDimsOk_cons base dim ds rest :
  concatDimsOk base dim (ds :: rest) = concatRowOk base dim ds && concatDimsOk base dim rest.
Proof. reflexivity. Qed.

(* what the loops keep unchanged *)
Definition concatInv (base : list Z) (dim : Z) (e : env) : Prop :=
  lookup e "dim" = Some (VI dim) /\ lookup e "base" = Some (ints base).

(* ... and inside the inner loop also the outer loop variable (it is an argument of the error message) *)
Definition concatInvI (base : list Z) (dim zi : Z) (e : env) : Prop :=
  concatInv base dim e /\ lookup e "i" = Some (VI zi).

(* the inner loop (for j, d := range dims), for any body that behaves like the Go body *)
Lemma concat_inner (base : list Z) (dim zi : Z) (body : env -> outcome) :
  (forall e j d, concatInvI base dim zi e ->
     body (upd (upd e "j" (VI (Z.of_nat j))) "d" (VI d)) =
     if Z.of_nat j =? dim then OContinue (upd (upd e "j" (VI (Z.of_nat j))) "d" (VI d))
     else match nth_error base j with
          | Some b => if d =? b then ONormal (upd (upd e "j" (VI (Z.of_nat j))) "d" (VI d)) else ORet [VI 1]
          | None => OPanic
          end) ->
  forall (ds bpre brest : list Z) (e : env),
  base = bpre ++ brest -> (length ds <= length brest)%nat -> concatInvI base dim zi e ->
  let ok := forallb (fun p : Z * (Z * Z) => let '(j, (d, b)) := p in (j =? dim) || (d =? b))
                    (combine (map Z.of_nat (seq (length bpre) (length ds))) (combine ds brest)) in
  (ok = true -> exists e', rangeLoop body "j" "d" (map VI ds) (Z.of_nat (length bpre)) e = ONormal e'
                           /\ concatInvI base dim zi e') /\
  (ok = false -> rangeLoop body "j" "d" (map VI ds) (Z.of_nat (length bpre)) e = ORet [VI 1]).
Proof.
  intros Hb. induction ds as [|d ds IH]; intros bpre brest e HB Hl He.
  - cbn. split; [eauto | discriminate].
  - destruct brest as [|b brest]; [cbn in Hl; lia|].
    cbn [length seq map combine forallb rangeLoop].
    rewrite (Hb e (length bpre) d He).
    assert (Hn : nth_error base (length bpre) = Some b).
    { subst base. rewrite nth_error_app2, Nat.sub_diag by lia. reflexivity. }
    assert (He' : concatInvI base dim zi (upd (upd e "j" (VI (Z.of_nat (length bpre)))) "d" (VI d))).
    { destruct He as [[H1 H2] H3]. repeat split; lk; assumption. }
    assert (Hnext : forall e1, concatInvI base dim zi e1 ->
      let ok := forallb (fun p : Z * (Z * Z) => let '(j, (d, b)) := p in (j =? dim) || (d =? b))
                    (combine (map Z.of_nat (seq (S (length bpre)) (length ds))) (combine ds brest)) in
      (ok = true -> exists e', rangeLoop body "j" "d" (map VI ds) (Z.of_nat (length bpre) + 1) e1 = ONormal e'
                               /\ concatInvI base dim zi e') /\
      (ok = false -> rangeLoop body "j" "d" (map VI ds) (Z.of_nat (length bpre) + 1) e1 = ORet [VI 1])).
    { intros e1 He1.
      replace (Z.of_nat (length bpre) + 1) with (Z.of_nat (length (bpre ++ [b]))) by (rewrite app_length; cbn; lia).
      replace (S (length bpre)) with (length (bpre ++ [b])) by (rewrite app_length; cbn; lia).
      apply IH; [subst base; now rewrite <- app_assoc | cbn [length] in Hl; lia | exact He1]. }
    destruct (Z.of_nat (length bpre) =? dim) eqn:Ej; cbn [orb andb].
    + apply Hnext, He'.
    + rewrite Hn. destruct (d =? b); cbn [andb].
      * apply Hnext, He'.
      * split; [discriminate | reflexivity].
Qed.

(* the outer loop (for i, dims := range tsDims), for any body that performs the checks of one tensor *)
Lemma concat_outer (base : list Z) (dim : Z) (obody : env -> outcome) :
  (forall e z ds, concatInv base dim e ->
     (concatRowOk base dim ds = true ->
        exists e', obody (upd (upd e "i" (VI z)) "dims" (ints ds)) = ONormal e' /\ concatInv base dim e') /\
     (concatRowOk base dim ds = false -> obody (upd (upd e "i" (VI z)) "dims" (ints ds)) = ORet [VI 1])) ->
  forall (tsDims : list (list Z)) (z : Z) (e : env), concatInv base dim e ->
  (concatDimsOk base dim tsDims = true ->
     exists e', rangeLoop obody "i" "dims" (map ints tsDims) z e = ONormal e') /\
  (concatDimsOk base dim tsDims = false -> rangeLoop obody "i" "dims" (map ints tsDims) z e = ORet [VI 1]).
Proof.
  intros Hb. induction tsDims as [|ds rest IH]; intros z e He.
  - cbn. split; [eauto | discriminate].
  - rewrite concatDimsOk_cons. cbn [map rangeLoop].
    destruct (Hb e z ds He) as [HT HF].
    destruct (concatRowOk base dim ds); cbn [andb].
    + destruct (HT eq_refl) as [e1 [H1 He1]]. rewrite H1. apply IH, He1.
    + rewrite (HF eq_refl). split; [discriminate | reflexivity].
Qed.

Theorem go_ValidateConcatTensorsDimsAlongDim_cons call fuel (base : list Z) (rest : list (list Z)) (dim : Z) :
  exec call fuel (fbody ValidateConcatTensorsDimsAlongDim) [("tsDims", intss (base :: rest)); ("dim", VI dim)]
  = ORet [errOf (concatDimsOk base dim (base :: rest))].
Proof.
  unfold ValidateConcatTensorsDimsAlongDim. cbn [fbody].
  gxs. change (idxOf 0) with (Some 0%nat). cbn [map nth_error]. gxs.
  match goal with |- context [rangeLoop ?ob _ _ _ _ ?e0] =>
    assert (Hspec : forall e z ds, concatInv base dim e ->
       (concatRowOk base dim ds = true ->
          exists e', ob (upd (upd e "i" (VI z)) "dims" (ints ds)) = ONormal e' /\ concatInv base dim e') /\
       (concatRowOk base dim ds = false -> ob (upd (upd e "i" (VI z)) "dims" (ints ds)) = ORet [VI 1]));
    [| assert (He0 : concatInv base dim e0) by (split; reflexivity);
       destruct (concat_outer base dim ob Hspec (base :: rest) 0 e0 He0) as [HT HF]]
  end.
  - intros e z ds [Hdim Hbase]. unfold concatRowOk, zlen.
    gxs. rewrite ?Hdim, ?Hbase. gxs. rewrite !zlenV_map.
    destruct (length ds =? 0)%nat eqn:E0; [apply Nat.eqb_eq in E0 | apply Nat.eqb_neq in E0].
    { replace (Z.of_nat (length ds) =? 0) with true by (symmetry; apply Z.eqb_eq; lia).
      cbn [negb andb]. split; [discriminate | reflexivity]. }
    replace (Z.of_nat (length ds) =? 0) with false by (symmetry; apply Z.eqb_neq; lia).
    cbn [negb andb]. gxs. rewrite ?Hdim, ?Hbase. gxs. rewrite !zlenV_map.
    destruct (length ds =? length base)%nat eqn:E1; [apply Nat.eqb_eq in E1 | apply Nat.eqb_neq in E1].
    2:{ replace (Z.of_nat (length ds) =? Z.of_nat (length base)) with false by (symmetry; apply Z.eqb_neq; lia).
        cbn [negb andb]. gxs. rewrite ?Hdim, ?Hbase. gxs. split; [discriminate | reflexivity]. }
    replace (Z.of_nat (length ds) =? Z.of_nat (length base)) with true by (symmetry; apply Z.eqb_eq; lia).
    cbn [negb andb]. gxs. rewrite ?Hdim, ?Hbase. gxs. rewrite !zlenV_map.
    destruct (0 <=? dim); cbn [negb andb]; gxs; rewrite ?Hdim, ?Hbase; gxs.
    2:{ split; [discriminate | reflexivity]. }
    destruct (dim <? Z.of_nat (length base)); cbn [negb andb]; gxs; rewrite ?Hdim, ?Hbase; gxs.
    2:{ split; [discriminate | reflexivity]. }
    assert (HeI : concatInvI base dim z (upd (upd e "i" (VI z)) "dims" (ints ds))).
    { repeat split; lk; first [assumption | reflexivity]. }
    match goal with |- context [rangeLoop ?ib _ _ _ _ ?e1] =>
      assert (Hin : forall e j d, concatInvI base dim z e ->
         ib (upd (upd e "j" (VI (Z.of_nat j))) "d" (VI d)) =
         if Z.of_nat j =? dim then OContinue (upd (upd e "j" (VI (Z.of_nat j))) "d" (VI d))
         else match nth_error base j with
              | Some b => if d =? b then ONormal (upd (upd e "j" (VI (Z.of_nat j))) "d" (VI d)) else ORet [VI 1]
              | None => OPanic
              end);
      [| destruct (concat_inner base dim z ib Hin ds [] base e1 eq_refl ltac:(lia) HeI) as [HT HF]]
    end.
    + clear HeI. intros e' j d [[Hdim' Hbase'] Hi']. gxs. rewrite ?Hdim', ?Hbase', ?Hi'. gxs.
      destruct (Z.of_nat j =? dim); [reflexivity|].
      gxs. rewrite ?Hdim', ?Hbase', ?Hi'. gxs. rewrite idxOf_nat, nth_error_map_VI.
      destruct (nth_error base j) as [b|]; cbn [option_map]; [|reflexivity].
      gxs. destruct (d =? b); gxs; [reflexivity|].
      rewrite ?Hdim', ?Hbase', ?Hi'; gxs.
      reflexivity.
    + cbn [length Z.of_nat] in HT, HF. split.
      * intros H. destruct (HT H) as [e' [He' [Hinv _]]]. exists e'. split; assumption.
      * exact HF.
  - destruct (concatDimsOk base dim (base :: rest)).
    + destruct (HT eq_refl) as [e' He']. rewrite He'. gxs. reflexivity.
    + rewrite (HF eq_refl). reflexivity.
Qed.

Theorem go_ValidateConcatTensorsDimsAlongDim_empty call fuel (dim : Z) :
  exec call fuel (fbody ValidateConcatTensorsDimsAlongDim) [("tsDims", intss []); ("dim", VI dim)] = OPanic.
Proof.
  unfold ValidateConcatTensorsDimsAlongDim. cbn [fbody].
  gxs. change (idxOf 0) with (Some 0%nat). cbn [map nth_error]. reflexivity.
Qed.

(* both cases in one statement: the translated program computes the (partial) model function *)
Theorem go_ValidateConcatTensorsDimsAlongDim_total call fuel (tsDims : list (list Z)) (dim : Z) :
  exec call fuel (fbody ValidateConcatTensorsDimsAlongDim) [("tsDims", intss tsDims); ("dim", VI dim)]
  = match validateConcatTensorsDimsAlongDim tsDims dim with
    | Some b => ORet [errOf b]
    | None => OPanic
    end.
Proof.
  destruct tsDims as [|base rest]; cbn [validateConcatTensorsDimsAlongDim].
  - apply go_ValidateConcatTensorsDimsAlongDim_empty.
  - apply go_ValidateConcatTensorsDimsAlongDim_cons.
Qed.

Theorem go_ValidateConcatTensorsDimsAlongDim call fuel (tsDims : list (list Z)) (dim : Z) (b : bool) :
  validateConcatTensorsDimsAlongDim tsDims dim = Some b ->
  exec call fuel (fbody ValidateConcatTensorsDimsAlongDim) [("tsDims", intss tsDims); ("dim", VI dim)]
  = ORet [errOf b].
Proof. intros H. rewrite go_ValidateConcatTensorsDimsAlongDim_total, H. reflexivity. Qed.

(* the model is defined (Some) exactly on the non-empty lists, so the theorem above covers all of them *)
Lemma validateConcat_defined (tsDims : list (list Z)) (dim : Z) :
  tsDims <> [] -> exists b, validateConcatTensorsDimsAlongDim tsDims dim = Some b.
Proof. destruct tsDims; [congruence | intros _; eexists; reflexivity]. Qed.

Corollary run_ValidateConcatTensorsDimsAlongDim fuel (tsDims : list (list Z)) (dim : Z) (b : bool) :
  validateConcatTensorsDimsAlongDim tsDims dim = Some b ->
  run ftab fuel ValidateConcatTensorsDimsAlongDim [intss tsDims; VI dim] = ORet [errOf b].
Proof.
  intros H. unfold run. cbn [fparams ValidateConcatTensorsDimsAlongDim bindArgs].
  now apply go_ValidateConcatTensorsDimsAlongDim.
Qed.

Corollary run_ValidateConcatTensorsDimsAlongDim_empty fuel (dim : Z) :
  run ftab fuel ValidateConcatTensorsDimsAlongDim [intss []; VI dim] = OPanic.
Proof.
  unfold run. cbn [fparams ValidateConcatTensorsDimsAlongDim bindArgs].
  apply go_ValidateConcatTensorsDimsAlongDim_empty.
Qed.

(* ------------------------------------------------------------------------------------------------ *)
(* concrete runs of the translated programs                                                           *)
(* ------------------------------------------------------------------------------------------------ *)

Example ex_reduced_ok : run ftab 0 ValidateReducedDimAgainstDims [VI 2; ints [4; 5; 6]] = ORet [VI 0].
Proof. vm_compute; reflexivity. Qed.
Example ex_reduced_bad : run ftab 0 ValidateReducedDimAgainstDims [VI 3; ints [4; 5; 6]] = ORet [VI 1].
Proof. vm_compute; reflexivity. Qed.
Example ex_transpose_bad : run ftab 0 ValidateTransposeDims [ints [7]] = ORet [VI 1].
Proof. vm_compute; reflexivity. Qed.
Example ex_dot_ok : run ftab 0 ValidateDotProductDims [ints [2; 3; 4]; ints [4]] = ORet [VI 0].
Proof. vm_compute; reflexivity. Qed.
Example ex_dot_bad : run ftab 0 ValidateDotProductDims [ints [2; 3; 4]; ints [4; 3]] = ORet [VI 1].
Proof. vm_compute; reflexivity. Qed.
Example ex_matmul_ok : run ftab 0 ValidateMatMulDims [ints [5; 2; 3]; ints [7; 3; 4]] = ORet [VI 0].
Proof. vm_compute; reflexivity. Qed.
Example ex_matmul_bad : run ftab 0 ValidateMatMulDims [ints [5; 2; 3]; ints [3]] = ORet [VI 1].
Proof. vm_compute; reflexivity. Qed.
Example ex_binary_ok : run ftab 4 ValidateBinaryFuncDimsMatch [ints [2; 3; 4]; ints [2; 3; 4]] = ORet [VI 0].
Proof. vm_compute; reflexivity. Qed.
Example ex_binary_bad : run ftab 4 ValidateBinaryFuncDimsMatch [ints [2; 3; 4]; ints [2; 3; 5]] = ORet [VI 1].
Proof. vm_compute; reflexivity. Qed.
(* the fuel bound S (length dims1) is tight: with one unit less the loop runs out of fuel *)
Example ex_binary_fuel : run ftab 3 ValidateBinaryFuncDimsMatch [ints [2; 3; 4]; ints [2; 3; 4]] = OFuel.
Proof. vm_compute; reflexivity. Qed.
Example ex_concat_ok :
  run ftab 0 ValidateConcatTensorsDimsAlongDim [intss [[2; 3; 4]; [2; 7; 4]; [2; 1; 4]]; VI 1] = ORet [VI 0].
Proof. vm_compute; reflexivity. Qed.
Example ex_concat_bad :
  run ftab 0 ValidateConcatTensorsDimsAlongDim [intss [[2; 3; 4]; [2; 7; 5]]; VI 1] = ORet [VI 1].
Proof. vm_compute; reflexivity. Qed.
Example ex_concat_dim_bad :
  run ftab 0 ValidateConcatTensorsDimsAlongDim [intss [[2; 3; 4]; [2; 7; 4]]; VI 3] = ORet [VI 1].
Proof. vm_compute; reflexivity. Qed.
Example ex_concat_empty : run ftab 0 ValidateConcatTensorsDimsAlongDim [intss []; VI 0] = OPanic.
Proof. vm_compute; reflexivity. Qed.

Print Assumptions run_ValidateReducedDimAgainstDims.
Print Assumptions run_ValidateTransposeDims.
Print Assumptions run_ValidateDotProductDims.
Print Assumptions run_ValidateMatMulDims.
Print Assumptions go_ValidateBinaryFuncDimsMatch.
Print Assumptions run_ValidateBinaryFuncDimsMatch.
Print Assumptions go_ValidateConcatTensorsDimsAlongDim_total.
Print Assumptions go_ValidateConcatTensorsDimsAlongDim.
Print Assumptions run_ValidateConcatTensorsDimsAlongDim.
Print Assumptions run_ValidateConcatTensorsDimsAlongDim_empty.
