(* VjpLinalgP.v — the backward rules of the LINEAR-ALGEBRA operations are vector-Jacobian products
   (property C02), for the real-number instance [R_scalar thr draw]:
     MatMul (both operands), Dot (both operands), Transpose, Concat (per operand).
   Operands need no implicit expansion (equal batch shapes); expansion is a separate property.
   Every rule gets (a) an evaluation lemma [..._eval]: under well-formedness and the shape equations
   only, [eval_rule] is [Ok], the result has the operand's shape and the stated element formula
   ("never fails"), and (b) a theorem [vjp_...]: the result is the VJP  g_i = Σ_j gy_j ∂F_j/∂x_i
   of the forward map F.  Forward maps are quantified ([F] with its defining equation on valid
   indices); concrete instances [mmF], [dotF], [trF], [catF] are given, and [..._fwd] lemmas show
   that the model's forward operation computes them. *)
From Coq Require Import List Arith ZArith Bool Lia Reals Lra.
From Coquelicot Require Import Coquelicot.
From Qeep Require Import Model.Scalar Model.Nd Model.Fill Model.Data Model.Valid Model.Api Model.Grad.
From Qeep Require Import Proofs.NdP Proofs.OdometerP Proofs.ElemP Proofs.ReshapeP Proofs.BroadcastP Proofs.ArithP
  Proofs.TransposeP Proofs.MatMulP Proofs.SliceP Proofs.ConcatP.
From Qeep Require Import Spec.RScalar Spec.VjpSpec Proofs.VjpElemP.
Import ListNotations.
Local Open Scope R_scope.

(* ================================================================================= *)
(* 0. generic: maps that are affine along every coordinate line                       *)
(* ================================================================================= *)

Lemma partial_affine (F : assignment -> assignment) x i j d :
  (forall t, F (perturb x i t) j = F x j + d * t) -> is_partial F x i j d.
Proof.
  intros H. unfold is_partial. apply (is_derive_ext (fun t => F x j + d * t)).
  - intros t. symmetry. apply H.
  - auto_derive; [exact I|ring].
Qed.

(* for every input position i a column D of the Jacobian, read off the coordinate line *)
Lemma vjp_affine dsx dsy (F : assignment -> assignment) (x gy g : assignment) :
  (forall i, validIdx dsx i ->
     exists D : assignment,
       (forall j t, validIdx dsy j -> F (perturb x i t) j = F x j + D j * t) /\
       g i = sumIdx dsy (fun j => gy j * D j)) ->
  is_vjp dsx dsy F x gy g.
Proof.
  intros H i Hi. destruct (H i Hi) as (D & HD & Hg). exists D. split; [|exact Hg].
  intros j Hj. apply partial_affine. intros t. apply HD. exact Hj.
Qed.

(* the forward map only matters on the valid output positions *)
Lemma is_vjp_ext_valid dsx dsy (F G : assignment -> assignment) x gy g :
  (forall a j, validIdx dsy j -> F a j = G a j) -> is_vjp dsx dsy F x gy g -> is_vjp dsx dsy G x gy g.
Proof.
  intros E H i Hi. destruct (H i Hi) as (D & HD & Hg). exists D. split; [|exact Hg].
  intros j Hj. unfold is_partial. apply (is_derive_ext (fun t => F (perturb x i t) j)).
  - intros t. apply E. exact Hj.
  - apply HD. exact Hj.
Qed.

Lemma perturb_delta x i t k : perturb x i t k = x k + (if idx_eqb k i then t else 0).
Proof. unfold perturb. destruct (idx_eqb k i); ring. Qed.

(* F a j = Σ_i c i j * a i + k j *)
Lemma linear_partial dsx (c : list nat -> list nat -> R) (k : assignment) x i j : validIdx dsx i ->
  is_partial (fun a j => sumIdx dsx (fun i => c i j * a i) + k j) x i j (c i j).
Proof.
  intros Hi. apply partial_affine. intros t.
  rewrite (sumIdx_ext dsx _ (fun i' => c i' j * x i' + (if idx_eqb i' i then c i' j * t else 0))).
  - rewrite sumIdx_plus, (sumIdx_single dsx i (fun i' => c i' j * t) Hi). ring.
  - intros i' _. rewrite perturb_delta. destruct (idx_eqb i' i); ring.
Qed.

Theorem vjp_linear dsx dsy (c : list nat -> list nat -> R) (k : assignment) (x gy g : assignment) :
  (forall i, validIdx dsx i -> g i = sumIdx dsy (fun j => gy j * c i j)) ->
  is_vjp dsx dsy (fun a j => sumIdx dsx (fun i => c i j * a i) + k j) x gy g.
Proof.
  intros Hg i Hi. exists (fun j => c i j). split.
  - intros j _. apply linear_partial. exact Hi.
  - apply Hg. exact Hi.
Qed.

(* ================================================================================= *)
(* finite sums                                                                        *)
(* ================================================================================= *)

Definition sumN (n : nat) (f : nat -> R) : R := fold_right Rplus 0 (map f (seq 0 n)).

Lemma sumL_ext_in {X} (l : list X) (f g : X -> R) :
  (forall x, In x l -> f x = g x) -> fold_right Rplus 0 (map f l) = fold_right Rplus 0 (map g l).
Proof.
  induction l as [|a l IH]; intros H; cbn; [reflexivity|].
  rewrite (H a (or_introl eq_refl)), IH; [reflexivity|]. intros x Hx; apply H; right; exact Hx.
Qed.

Lemma sumN_ext n f g : (forall p, (p < n)%nat -> f p = g p) -> sumN n f = sumN n g.
Proof. intros H. apply sumL_ext_in. intros p Hp. apply in_seq in Hp. apply H. lia. Qed.

Lemma sumL_plus {X} (l : list X) (f g : X -> R) :
  fold_right Rplus 0 (map (fun x => f x + g x) l) = fold_right Rplus 0 (map f l) + fold_right Rplus 0 (map g l).
Proof. induction l as [|a l IH]; cbn; [ring|rewrite IH; ring]. Qed.

Lemma sumN_plus n f g : sumN n (fun p => f p + g p) = sumN n f + sumN n g.
Proof. apply sumL_plus. Qed.

Lemma sumL_zero {X} (l : list X) : fold_right Rplus 0 (map (fun _ => 0) l) = 0.
Proof. induction l as [|a l IH]; cbn; [reflexivity|rewrite IH; ring]. Qed.

Lemma sumN_zero n f : (forall p, (p < n)%nat -> f p = 0) -> sumN n f = 0.
Proof. intros H. rewrite (sumN_ext n f (fun _ => 0) H). apply sumL_zero. Qed.

Lemma sumN_scal n c f : sumN n (fun p => c * f p) = c * sumN n f.
Proof. unfold sumN. induction (seq 0 n) as [|a l IH]; cbn; [ring|rewrite IH; ring]. Qed.

(* Σ_p [p = a] * f p = f a *)
Lemma sumL_single_nat (l : list nat) a (f : nat -> R) : NoDup l -> In a l ->
  fold_right Rplus 0 (map (fun p => if (p =? a)%nat then f p else 0) l) = f a.
Proof.
  induction l as [|b l IH]; intros Hnd Hin; [destruct Hin|].
  inversion Hnd as [|? ? Hnb Hnd']; subst. cbn. destruct Hin as [->|Hin].
  - rewrite Nat.eqb_refl. rewrite (sumL_ext_in l _ (fun _ => 0)); [rewrite sumL_zero; ring|].
    intros x Hx. destruct (Nat.eqb_spec x a) as [->|_]; [contradiction|reflexivity].
  - destruct (Nat.eqb_spec b a) as [->|_]; [contradiction|]. rewrite IH by assumption. ring.
Qed.

Lemma sumN_single n a f : (a < n)%nat -> sumN n (fun p => if (p =? a)%nat then f p else 0) = f a.
Proof. intros H. apply sumL_single_nat; [apply seq_NoDup|apply in_seq; lia]. Qed.

(* the model's left fold is the finite sum *)
Lemma fold_left_sumL {X} (h : X -> R) (l : list X) : forall a,
  fold_left (fun s p => s + h p) l a = a + fold_right Rplus 0 (map h l).
Proof. induction l as [|x l IH]; intros a; cbn [fold_left map fold_right]; [ring|rewrite IH; ring]. Qed.

Lemma fold_left_sumN n (h : nat -> R) : fold_left (fun s p => s + h p) (seq 0 n) 0 = sumN n h.
Proof. rewrite fold_left_sumL. unfold sumN. ring. Qed.

(* sums over multi-indices, one dimension at a time *)
Lemma sumIdx_nil f : sumIdx [] f = f [].
Proof. unfold sumIdx. cbn. ring. Qed.

Lemma sumIdx_cons d ds f : sumIdx (d :: ds) f = sumN d (fun i => sumIdx ds (fun r => f (i :: r))).
Proof.
  unfold sumIdx, sumN. cbn [allIdx]. induction (seq 0 d) as [|a l IH]; cbn [flat_map map fold_right]; [reflexivity|].
  rewrite map_app, fold_right_app, map_map.
  assert (E : forall (l1 : list R) b, fold_right Rplus b l1 = fold_right Rplus 0 l1 + b).
  { induction l1 as [|y l1 IH1]; intros b; cbn; [ring|rewrite IH1; ring]. }
  rewrite E, IH. reflexivity.
Qed.

Lemma sumIdx_1 n f : sumIdx [n] f = sumN n (fun p => f [p]).
Proof. rewrite sumIdx_cons. apply sumN_ext. intros p _. apply sumIdx_nil. Qed.

Lemma sumIdx_app ds1 : forall ds2 f,
  sumIdx (ds1 ++ ds2) f = sumIdx ds1 (fun u => sumIdx ds2 (fun v => f (u ++ v))).
Proof.
  induction ds1 as [|d ds1 IH]; intros ds2 f; cbn [app].
  - rewrite sumIdx_nil. reflexivity.
  - rewrite !sumIdx_cons. apply sumN_ext. intros i _. rewrite IH. reflexivity.
Qed.

Lemma sumIdx_zero ds f : (forall j, validIdx ds j -> f j = 0) -> sumIdx ds f = 0.
Proof. intros H. rewrite (sumIdx_ext ds f (fun _ => 0) H). apply sum_zero. Qed.

(* ---------- index bookkeeping ---------- *)

Lemma idx_eqb_neq a b : a <> b -> idx_eqb a b = false.
Proof. intros H. destruct (idx_eqb a b) eqn:E; [|reflexivity]. apply idx_eqb_eq in E. contradiction. Qed.

Lemma idx_eqb_iff a b a' b' : (a = b <-> a' = b') -> idx_eqb a b = idx_eqb a' b'.
Proof.
  intros H. destruct (idx_eqb a b) eqn:E1, (idx_eqb a' b') eqn:E2; try reflexivity.
  - apply idx_eqb_eq in E1. apply H in E1. apply idx_eqb_eq in E1. congruence.
  - apply idx_eqb_eq in E2. apply H in E2. apply idx_eqb_eq in E2. congruence.
Qed.

Lemma app_inj_len {X} (a b c d : list X) : length a = length c -> a ++ b = c ++ d -> a = c /\ b = d.
Proof.
  revert c. induction a as [|x a IH]; intros [|y c] Hl E; cbn in Hl; try discriminate; cbn in E.
  - auto.
  - injection E as -> E'. destruct (IH c ltac:(lia) E') as [-> ->]. auto.
Qed.

(* a valid index of  batch ++ [m; k]  is  b ++ [i; j] *)
Lemma validIdx_snoc2_inv batch m k idx : validIdx (batch ++ [m; k]) idx ->
  exists b i j, idx = b ++ [i; j] /\ validIdx batch b /\ (i < m)%nat /\ (j < k)%nat.
Proof.
  revert idx. induction batch as [|d batch IH]; intros idx Hv; cbn [app] in Hv.
  - apply validIdx_cons in Hv as (i & r & -> & Hi & Hv). apply validIdx_cons in Hv as (j & r' & -> & Hj & Hv).
    apply validIdx_nil in Hv. subst r'. exists [], i, j. repeat split; try assumption. constructor.
  - apply validIdx_cons in Hv as (a & r & -> & Ha & Hv). destruct (IH r Hv) as (b & i & j & -> & Hb & Hi & Hj).
    exists (a :: b), i, j. repeat split; try assumption. constructor; assumption.
Qed.

Lemma validIdx_snoc1_inv batch n idx : validIdx (batch ++ [n]) idx ->
  exists b p, idx = b ++ [p] /\ validIdx batch b /\ (p < n)%nat.
Proof.
  revert idx. induction batch as [|d batch IH]; intros idx Hv; cbn [app] in Hv.
  - apply validIdx_cons in Hv as (i & r & -> & Hi & Hv). apply validIdx_nil in Hv. subst r.
    exists [], i. repeat split; try assumption. constructor.
  - apply validIdx_cons in Hv as (a & r & -> & Ha & Hv). destruct (IH r Hv) as (b & p & -> & Hb & Hp).
    exists (a :: b), p. repeat split; try assumption. constructor; assumption.
Qed.

Lemma validIdx_snoc2 batch m k b i j : validIdx batch b -> (i < m)%nat -> (j < k)%nat ->
  validIdx (batch ++ [m; k]) (b ++ [i; j]).
Proof. intros Hb Hi Hj. apply validIdx_app; [exact Hb|apply validIdx2; auto]. Qed.

Lemma validIdx_snoc1 batch n b p : validIdx batch b -> (p < n)%nat -> validIdx (batch ++ [n]) (b ++ [p]).
Proof. intros Hb Hp. apply validIdx_app; [exact Hb|apply validIdx1; auto]. Qed.

(* ================================================================================= *)
(* the instance                                                                       *)
(* ================================================================================= *)
Section VjpLinalg.
Variables (thr : R) (draw : bool -> nat -> R).
Local Hint Extern 0 (Scalar R) => exact (R_scalar thr draw) : typeclass_instances.
Notation T := (tensor R).
Notation RS := (R_scalar thr draw).

Implicit Types (rd : bred) (h : @heap R) (xv yv gy av bv ov : T).

Lemma melt_elt (t : T) idx : @MatMulP.elt R RS (data t) idx = elt t idx.
Proof. reflexivity. Qed.

Lemma elt_of_get (t : T) idx v : get (data t) idx = Some v -> elt t idx = v.
Proof. intros E. unfold elt. rewrite E. reflexivity. Qed.

Lemma get_elt (t : T) idx : wf t -> validIdx (dims t) idx -> get (data t) idx = Some (elt t idx).
Proof. intros [Hw _] Hv. unfold elt. destruct (get_wf R _ _ _ Hw Hv) as (a & ->). reflexivity. Qed.

Lemma fold_dot_sumN n (f g : nat -> R) :
  fold_left (fun s p => @sadd R RS s (@smul R RS (f p) (g p))) (seq 0 n) (@s0 R RS) = sumN n (fun p => f p * g p).
Proof. exact (fold_left_sumN n (fun p => f p * g p)). Qed.

(* ---------- value-level calls, read element by element over R ---------- *)

(* Transpose *)
Lemma tr_elt (t : T) batch m n : wf t -> dims t = batch ++ [m; n] ->
  exists r, v_transpose t = Ok r /\ dims r = batch ++ [n; m] /\ wf r /\
    forall b i j, validIdx batch b -> (i < m)%nat -> (j < n)%nat -> elt r (b ++ [j; i]) = elt t (b ++ [i; j]).
Proof.
  intros Ht E. destruct (transpose_spec R t batch m n Ht E) as (r & Er & Hd & Hw & Hg).
  exists r. unfold v_transpose, guard.
  rewrite (proj2 (validateTransposeDims_rank R t)) by (rewrite E, app_length; cbn; lia). rewrite Er.
  split; [reflexivity|]. split; [exact Hd|]. split; [exact Hw|].
  intros b i j Hb Hi Hj. unfold elt. rewrite (Hg b i j) by (apply validIdx_snoc2; assumption). reflexivity.
Qed.

(* MatMul with equal batch shapes *)
Lemma mm_elt (t u : T) batch m n k : wf t -> wf u -> dims t = batch ++ [m; n] -> dims u = batch ++ [n; k] ->
  exists r, v_matmul t u = Ok r /\ dims r = batch ++ [m; k] /\ wf r /\
    forall b i j, validIdx batch b -> (i < m)%nat -> (j < k)%nat ->
      elt r (b ++ [i; j]) = sumN n (fun p => elt t (b ++ [i; p]) * elt u (b ++ [p; j])).
Proof.
  intros Ht Hu E1 E2. destruct (v_matmul_spec t u Ht Hu) as (H & _).
  pose proof (H batch batch m n k E1 E2 (bcompat2_refl _)) as H'. cbv zeta in H'.
  rewrite targetBroadcastDims_id in H'. destruct H' as (r & Er & Hd & Hw & Hg).
  exists r. split; [exact Er|]. split; [exact Hd|]. split; [exact Hw|].
  intros b i j Hb Hi Hj. apply elt_of_get. rewrite (Hg b i j) by (apply validIdx_snoc2; assumption).
  rewrite (bproj_id batch b Hb). f_equal. apply fold_dot_sumN.
Qed.

(* open a rule on the heap *)
Ltac open_rule :=
  unfold eval_rule, gy_of, val_of;
  repeat match goal with H : valOf _ _ = Some _ |- _ => rewrite H end;
  repeat match goal with H : gradOf _ _ = Some _ |- _ => rewrite H end;
  cbn [of_opt res_bind].

(* ================================================================================= *)
(* 1. MatMul                                                                          *)
(* ================================================================================= *)

(* the forward map on assignments: element (b, i, j) is Σ_p a(b,i,p) * b(b,p,j); [L] = batch rank *)
Definition mmF (L n : nat) (a b : assignment) : assignment :=
  fun idx => sumN n (fun p => a (firstn L idx ++ [nth L idx 0%nat; p]) * b (firstn L idx ++ [p; nth (S L) idx 0%nat])).

Lemma nth_app_len {X} (l r : list X) d : nth (length l) (l ++ r) d = nth 0 r d.
Proof. rewrite app_nth2 by lia. rewrite Nat.sub_diag. reflexivity. Qed.
Lemma nth_app_Slen {X} (l r : list X) d : nth (S (length l)) (l ++ r) d = nth 1 r d.
Proof. rewrite app_nth2 by lia. replace (S (length l) - length l)%nat with 1%nat by lia. reflexivity. Qed.

Lemma mmF_app a b bi i j n :
  mmF (length bi) n a b (bi ++ [i; j]) = sumN n (fun p => a (bi ++ [i; p]) * b (bi ++ [p; j])).
Proof. unfold mmF. rewrite firstn_length_app, nth_app_len, nth_app_Slen. reflexivity. Qed.

(* the model's MatMul computes [mmF] *)
Lemma matmul_fwd av bv batch m n k : wf av -> wf bv -> dims av = batch ++ [m; n] -> dims bv = batch ++ [n; k] ->
  exists r, v_matmul av bv = Ok r /\ dims r = batch ++ [m; k] /\ wf r /\
    forall idx, validIdx (batch ++ [m; k]) idx -> elt r idx = mmF (length batch) n (elt av) (elt bv) idx.
Proof.
  intros Wa Wb Ea Eb. destruct (mm_elt av bv batch m n k Wa Wb Ea Eb) as (r & Er & Hd & Hw & Hg).
  exists r. split; [exact Er|]. split; [exact Hd|]. split; [exact Hw|].
  intros idx Hv. apply validIdx_snoc2_inv in Hv as (b & i & j & -> & Hb & Hi & Hj).
  rewrite (Hg b i j Hb Hi Hj). rewrite <- (validIdx_length _ _ Hb). symmetry. apply mmF_app.
Qed.

(* ---------- first operand: gy.MatMul(b^T) ---------- *)
Lemma rmatmula_eval rd h y b bv gy batch m n k :
  valOf h b = Some bv -> gradOf h y = Some gy -> wf bv -> wf gy ->
  dims bv = batch ++ [n; k] -> dims gy = batch ++ [m; k] ->
  exists g, eval_rule rd h (RMatMulA y b) = Ok g /\ dims g = batch ++ [m; n] /\ wf g /\
    forall bi i p, validIdx batch bi -> (i < m)%nat -> (p < n)%nat ->
      elt g (bi ++ [i; p]) = sumN k (fun j => elt gy (bi ++ [i; j]) * elt bv (bi ++ [p; j])).
Proof.
  intros Hb Hg Wb Wg Eb Eg. open_rule.
  destruct (tr_elt bv batch n k Wb Eb) as (bt & Ebt & Dbt & Wbt & Gbt). rewrite Ebt. cbn [res_bind].
  destruct (mm_elt gy bt batch m k n Wg Wbt Eg Dbt) as (g & Egg & Dg & Wg' & Gg).
  exists g. split; [exact Egg|]. split; [exact Dg|]. split; [exact Wg'|].
  intros bi i p Hbi Hi Hp. rewrite (Gg bi i p Hbi Hi Hp). apply sumN_ext. intros j Hj.
  rewrite (Gbt bi p j Hbi Hp Hj). reflexivity.
Qed.

Theorem vjp_matmul_a rd h y b av bv gy batch m n k (F : assignment -> assignment) :
  valOf h b = Some bv -> gradOf h y = Some gy -> wf bv -> wf gy ->
  dims av = batch ++ [m; n] -> dims bv = batch ++ [n; k] -> dims gy = batch ++ [m; k] ->
  (forall a' bi i j, validIdx batch bi -> (i < m)%nat -> (j < k)%nat ->
     F a' (bi ++ [i; j]) = sumN n (fun p => a' (bi ++ [i; p]) * elt bv (bi ++ [p; j]))) ->
  exists g, eval_rule rd h (RMatMulA y b) = Ok g /\ dims g = dims av /\ wf g /\
    is_vjp (dims av) (dims gy) F (elt av) (elt gy) (elt g).
Proof.
  intros Hb Hg Wb Wg Ea Eb Eg HF.
  destruct (rmatmula_eval rd h y b bv gy batch m n k Hb Hg Wb Wg Eb Eg) as (g & E & D & W & G).
  exists g. split; [exact E|]. split; [congruence|]. split; [exact W|].
  rewrite Ea, Eg. apply vjp_affine. intros i0 Hi0.
  apply validIdx_snoc2_inv in Hi0 as (b0 & i0' & p0 & -> & Hb0 & Hi0' & Hp0).
  set (L := length batch).
  assert (Lb0 : length b0 = L) by (apply validIdx_length; exact Hb0).
  (* column (b0, i0', p0) of the Jacobian: output (bi, i, j) has entry [bi = b0][i = i0'] * b(b0, p0, j) *)
  exists (fun jj => if idx_eqb (firstn (S L) jj) (b0 ++ [i0']) then elt bv (b0 ++ [p0; nth (S L) jj 0%nat]) else 0).
  split.
  - intros jj t Hjj. apply validIdx_snoc2_inv in Hjj as (bi & i & j & -> & Hbi & Hi & Hj).
    assert (Lbi : length bi = L) by (apply validIdx_length; exact Hbi).
    rewrite !(HF _ bi i j Hbi Hi Hj).
    replace (firstn (S L) (bi ++ [i; j])) with (bi ++ [i]).
    2:{ change (bi ++ [i; j]) with (bi ++ [i] ++ [j]). rewrite app_assoc.
        replace (S L) with (length (bi ++ [i])) by (rewrite app_length; cbn; lia).
        rewrite firstn_length_app. reflexivity. }
    replace (nth (S L) (bi ++ [i; j]) 0%nat) with j by (rewrite <- Lbi, nth_app_Slen; reflexivity).
    rewrite (sumN_ext n _ (fun p => elt av (bi ++ [i; p]) * elt bv (bi ++ [p; j]) +
                                    (if (p =? p0)%nat
                                     then (if idx_eqb (bi ++ [i]) (b0 ++ [i0']) then elt bv (b0 ++ [p; j]) else 0) * t
                                     else 0))).
    + rewrite sumN_plus, (sumN_single n p0 _ Hp0). reflexivity.
    + intros p _. rewrite perturb_delta.
      destruct (Nat.eqb_spec p p0) as [->|Np].
      * rewrite (idx_eqb_iff (bi ++ [i; p0]) (b0 ++ [i0'; p0]) (bi ++ [i]) (b0 ++ [i0'])).
        -- destruct (idx_eqb (bi ++ [i]) (b0 ++ [i0'])) eqn:Eq; [|ring].
           apply idx_eqb_eq in Eq. apply app_inj_len in Eq as [-> _]; [ring|congruence].
        -- split; intros Eq.
           ++ apply snoc2_inj in Eq as (-> & -> & _). reflexivity.
           ++ apply app_inj_len in Eq as [-> Eq']; [|congruence]. inversion Eq'. reflexivity.
      * rewrite idx_eqb_neq; [ring|]. intros Eq. apply snoc2_inj in Eq as (_ & _ & Eq). contradiction.
  - rewrite (G b0 i0' p0 Hb0 Hi0' Hp0).
    change (batch ++ [m; k]) with (batch ++ [m] ++ [k]). rewrite app_assoc, sumIdx_app.
    rewrite (sumIdx_ext (batch ++ [m]) _
               (fun u => if idx_eqb u (b0 ++ [i0'])
                         then sumN k (fun j => elt gy (u ++ [j]) * elt bv (b0 ++ [p0; j])) else 0)).
    + rewrite sumIdx_single by (apply validIdx_snoc1; assumption).
      apply sumN_ext. intros j _. rewrite <- app_assoc. reflexivity.
    + intros u Hu. rewrite sumIdx_1.
      assert (Lu : length u = S L) by (rewrite (validIdx_length _ _ Hu), app_length; cbn; lia).
      destruct (idx_eqb u (b0 ++ [i0'])) eqn:Eq.
      * apply sumN_ext. intros j _. rewrite <- Lu, firstn_length_app, Eq.
        rewrite app_nth2 by lia. rewrite Nat.sub_diag. reflexivity.
      * apply sumN_zero. intros j _. rewrite <- Lu, firstn_length_app, Eq. ring.
Qed.



(* ---------- second operand: a^T.MatMul(gy) ---------- *)
Lemma rmatmulb_eval rd h y a av gy batch m n k :
  valOf h a = Some av -> gradOf h y = Some gy -> wf av -> wf gy ->
  dims av = batch ++ [m; n] -> dims gy = batch ++ [m; k] ->
  exists g, eval_rule rd h (RMatMulB y a) = Ok g /\ dims g = batch ++ [n; k] /\ wf g /\
    forall bi p j, validIdx batch bi -> (p < n)%nat -> (j < k)%nat ->
      elt g (bi ++ [p; j]) = sumN m (fun i => elt av (bi ++ [i; p]) * elt gy (bi ++ [i; j])).
Proof.
  intros Ha Hg Wa Wg Ea Eg. open_rule.
  destruct (tr_elt av batch m n Wa Ea) as (at_ & Eat & Dat & Wat & Gat). rewrite Eat. cbn [res_bind].
  destruct (mm_elt at_ gy batch n m k Wat Wg Dat Eg) as (g & Egg & Dg & Wg' & Gg).
  exists g. split; [exact Egg|]. split; [exact Dg|]. split; [exact Wg'|].
  intros bi p j Hbi Hp Hj. rewrite (Gg bi p j Hbi Hp Hj). apply sumN_ext. intros i Hi.
  rewrite (Gat bi i p Hbi Hi Hp). reflexivity.
Qed.

Theorem vjp_matmul_b rd h y a av bv gy batch m n k (F : assignment -> assignment) :
  valOf h a = Some av -> gradOf h y = Some gy -> wf av -> wf gy ->
  dims av = batch ++ [m; n] -> dims bv = batch ++ [n; k] -> dims gy = batch ++ [m; k] ->
  (forall b' bi i j, validIdx batch bi -> (i < m)%nat -> (j < k)%nat ->
     F b' (bi ++ [i; j]) = sumN n (fun p => elt av (bi ++ [i; p]) * b' (bi ++ [p; j]))) ->
  exists g, eval_rule rd h (RMatMulB y a) = Ok g /\ dims g = dims bv /\ wf g /\
    is_vjp (dims bv) (dims gy) F (elt bv) (elt gy) (elt g).
Proof.
  intros Ha Hg Wa Wg Ea Eb Eg HF.
  destruct (rmatmulb_eval rd h y a av gy batch m n k Ha Hg Wa Wg Ea Eg) as (g & E & D & W & G).
  exists g. split; [exact E|]. split; [congruence|]. split; [exact W|].
  rewrite Eb, Eg. apply vjp_affine. intros i0 Hi0.
  apply validIdx_snoc2_inv in Hi0 as (b0 & p0 & j0 & -> & Hb0 & Hp0 & Hj0).
  set (L := length batch).
  assert (Lb0 : length b0 = L) by (apply validIdx_length; exact Hb0).
  (* column (b0, p0, j0): output (bi, i, j) has entry [bi = b0][j = j0] * a(b0, i, p0) *)
  exists (fun jj => if idx_eqb (firstn L jj) b0 && (nth (S L) jj 0 =? j0)%nat
                    then elt av (b0 ++ [nth L jj 0%nat; p0]) else 0).
  split.
  - intros jj t Hjj. apply validIdx_snoc2_inv in Hjj as (bi & i & j & -> & Hbi & Hi & Hj).
    assert (Lbi : length bi = L) by (apply validIdx_length; exact Hbi).
    rewrite !(HF _ bi i j Hbi Hi Hj).
    rewrite <- Lbi, firstn_length_app, nth_app_len, nth_app_Slen. cbn [nth].
    rewrite (sumN_ext n _ (fun p => elt av (bi ++ [i; p]) * elt bv (bi ++ [p; j]) +
                                    (if (p =? p0)%nat
                                     then (if idx_eqb bi b0 && (j =? j0)%nat then elt av (b0 ++ [i; p]) else 0) * t
                                     else 0))).
    + rewrite sumN_plus, (sumN_single n p0 _ Hp0). reflexivity.
    + intros p _. rewrite perturb_delta.
      destruct (Nat.eqb_spec p p0) as [->|Np].
      * destruct (idx_eqb bi b0) eqn:Eq; cbn [andb].
        -- apply idx_eqb_eq in Eq. subst bi. destruct (Nat.eqb_spec j j0) as [->|Nj].
           ++ rewrite idx_eqb_refl. ring.
           ++ rewrite idx_eqb_neq; [ring|]. intros Eq. apply snoc2_inj in Eq as (_ & _ & Eq). contradiction.
        -- rewrite idx_eqb_neq; [ring|]. intros Eq'. apply snoc2_inj in Eq' as (-> & _ & _).
           rewrite idx_eqb_refl in Eq. discriminate.
      * rewrite idx_eqb_neq; [ring|]. intros Eq. apply snoc2_inj in Eq as (_ & Eq & _). contradiction.
  - rewrite (G b0 p0 j0 Hb0 Hp0 Hj0). rewrite sumIdx_app.
    rewrite (sumIdx_ext batch _
               (fun u => if idx_eqb u b0
                         then sumN m (fun i => elt av (b0 ++ [i; p0]) * elt gy (u ++ [i; j0])) else 0)).
    + rewrite sumIdx_single by exact Hb0. reflexivity.
    + intros u Hu.
      assert (Lu : length u = L) by (apply validIdx_length; exact Hu).
      rewrite !sumIdx_cons. destruct (idx_eqb u b0) eqn:Eq.
      * apply sumN_ext. intros i _. rewrite sumIdx_cons.
        rewrite (sumN_ext k _ (fun j => if (j =? j0)%nat then elt gy (u ++ [i; j]) * elt av (b0 ++ [i; p0]) else 0)).
        -- rewrite (sumN_single k j0 _ Hj0). ring.
        -- intros j _. rewrite sumIdx_nil. rewrite <- Lu, firstn_length_app, nth_app_len, nth_app_Slen, Eq.
           cbn [nth andb]. destruct (j =? j0)%nat; ring.
      * apply sumN_zero. intros i _. rewrite sumIdx_cons. apply sumN_zero. intros j _. rewrite sumIdx_nil.
        rewrite <- Lu, firstn_length_app, Eq. cbn [andb]. ring.
Qed.

(* the plain case: matrices *)
Corollary vjp_matmul_a_2d rd h y b av bv gy m n k (F : assignment -> assignment) :
  valOf h b = Some bv -> gradOf h y = Some gy -> wf bv -> wf gy ->
  dims av = [m; n] -> dims bv = [n; k] -> dims gy = [m; k] ->
  (forall a' i j, (i < m)%nat -> (j < k)%nat -> F a' [i; j] = sumN n (fun p => a' [i; p] * elt bv [p; j])) ->
  exists g, eval_rule rd h (RMatMulA y b) = Ok g /\ dims g = [m; n] /\ wf g /\
    (forall i p, (i < m)%nat -> (p < n)%nat -> elt g [i; p] = sumN k (fun j => elt gy [i; j] * elt bv [p; j])) /\
    is_vjp [m; n] [m; k] F (elt av) (elt gy) (elt g).
Proof.
  intros Hb Hg Wb Wg Ea Eb Eg HF.
  destruct (rmatmula_eval rd h y b bv gy [] m n k Hb Hg Wb Wg Eb Eg) as (g & E & D & W & G).
  destruct (vjp_matmul_a rd h y b av bv gy [] m n k F Hb Hg Wb Wg Ea Eb Eg) as (g' & E' & _ & _ & V).
  { intros a' bi i j Hbi Hi Hj. apply validIdx_nil in Hbi. subst bi. apply HF; assumption. }
  assert (g' = g) by congruence. subst g'. rewrite Ea, Eg in V.
  exists g. split; [exact E|]. split; [exact D|]. split; [exact W|]. split; [|exact V].
  intros i p Hi Hp. apply (G [] i p); [constructor|exact Hi|exact Hp].
Qed.

Corollary vjp_matmul_b_2d rd h y a av bv gy m n k (F : assignment -> assignment) :
  valOf h a = Some av -> gradOf h y = Some gy -> wf av -> wf gy ->
  dims av = [m; n] -> dims bv = [n; k] -> dims gy = [m; k] ->
  (forall b' i j, (i < m)%nat -> (j < k)%nat -> F b' [i; j] = sumN n (fun p => elt av [i; p] * b' [p; j])) ->
  exists g, eval_rule rd h (RMatMulB y a) = Ok g /\ dims g = [n; k] /\ wf g /\
    (forall p j, (p < n)%nat -> (j < k)%nat -> elt g [p; j] = sumN m (fun i => elt av [i; p] * elt gy [i; j])) /\
    is_vjp [n; k] [m; k] F (elt bv) (elt gy) (elt g).
Proof.
  intros Ha Hg Wa Wg Ea Eb Eg HF.
  destruct (rmatmulb_eval rd h y a av gy [] m n k Ha Hg Wa Wg Ea Eg) as (g & E & D & W & G).
  destruct (vjp_matmul_b rd h y a av bv gy [] m n k F Ha Hg Wa Wg Ea Eb Eg) as (g' & E' & _ & _ & V).
  { intros b' bi i j Hbi Hi Hj. apply validIdx_nil in Hbi. subst bi. apply HF; assumption. }
  assert (g' = g) by congruence. subst g'. rewrite Eb, Eg in V.
  exists g. split; [exact E|]. split; [exact D|]. split; [exact W|]. split; [|exact V].
  intros p j Hp Hj. apply (G [] p j); [constructor|exact Hp|exact Hj].
Qed.

(* ================================================================================= *)
(* 3. Transpose: y.Gradient().Transpose()                                             *)
(* ================================================================================= *)

Definition trF (a : assignment) : assignment := fun idx => a (transposeDims idx).

Lemma trF_app a b i j : trF a (b ++ [j; i]) = a (b ++ [i; j]).
Proof. unfold trF. rewrite transposeDims_snoc2. reflexivity. Qed.

Lemma transpose_fwd xv batch m n : wf xv -> dims xv = batch ++ [m; n] ->
  exists r, v_transpose xv = Ok r /\ dims r = batch ++ [n; m] /\ wf r /\
    forall idx, validIdx (batch ++ [n; m]) idx -> elt r idx = trF (elt xv) idx.
Proof.
  intros Wx Ex. destruct (tr_elt xv batch m n Wx Ex) as (r & Er & Hd & Hw & Hg).
  exists r. split; [exact Er|]. split; [exact Hd|]. split; [exact Hw|].
  intros idx Hv. apply validIdx_snoc2_inv in Hv as (b & j & i & -> & Hb & Hj & Hi).
  rewrite trF_app. apply Hg; assumption.
Qed.

Lemma rtranspose_eval rd h y gy batch m n :
  gradOf h y = Some gy -> wf gy -> dims gy = batch ++ [n; m] ->
  exists g, eval_rule rd h (RTranspose y) = Ok g /\ dims g = batch ++ [m; n] /\ wf g /\
    forall b i j, validIdx batch b -> (i < m)%nat -> (j < n)%nat -> elt g (b ++ [i; j]) = elt gy (b ++ [j; i]).
Proof.
  intros Hg Wg Eg. open_rule.
  destruct (tr_elt gy batch n m Wg Eg) as (g & Egg & Dg & Wg' & Gg).
  exists g. split; [exact Egg|]. split; [exact Dg|]. split; [exact Wg'|].
  intros b i j Hb Hi Hj. apply Gg; assumption.
Qed.

Theorem vjp_transpose rd h y xv gy batch m n (F : assignment -> assignment) :
  gradOf h y = Some gy -> wf gy -> dims xv = batch ++ [m; n] -> dims gy = batch ++ [n; m] ->
  (forall a' b i j, validIdx batch b -> (i < m)%nat -> (j < n)%nat -> F a' (b ++ [j; i]) = a' (b ++ [i; j])) ->
  exists g, eval_rule rd h (RTranspose y) = Ok g /\ dims g = dims xv /\ wf g /\
    is_vjp (dims xv) (dims gy) F (elt xv) (elt gy) (elt g).
Proof.
  intros Hg Wg Ex Eg HF.
  destruct (rtranspose_eval rd h y gy batch m n Hg Wg Eg) as (g & E & D & W & G).
  exists g. split; [exact E|]. split; [congruence|]. split; [exact W|].
  rewrite Ex, Eg. apply vjp_affine. intros i0 Hi0.
  apply validIdx_snoc2_inv in Hi0 as (b0 & i0' & j0 & -> & Hb0 & Hi0' & Hj0).
  exists (fun jj => if idx_eqb jj (b0 ++ [j0; i0']) then 1 else 0). split.
  - intros jj t Hjj. apply validIdx_snoc2_inv in Hjj as (b & j & i & -> & Hb & Hj & Hi).
    rewrite !(HF _ b i j Hb Hi Hj), perturb_delta.
    rewrite (idx_eqb_iff (b ++ [i; j]) (b0 ++ [i0'; j0]) (b ++ [j; i]) (b0 ++ [j0; i0'])).
    + destruct (idx_eqb (b ++ [j; i]) (b0 ++ [j0; i0'])); ring.
    + split; intros Eq; apply snoc2_inj in Eq as (-> & -> & ->); reflexivity.
  - rewrite (G b0 i0' j0 Hb0 Hi0' Hj0).
    rewrite (sumIdx_ext _ _ (fun jj => if idx_eqb jj (b0 ++ [j0; i0']) then elt gy jj else 0)).
    + rewrite sumIdx_single by (apply validIdx_snoc2; assumption). reflexivity.
    + intros jj _. destruct (idx_eqb jj (b0 ++ [j0; i0'])); ring.
Qed.

(* with the concrete forward map (every rank >= 2) *)
Corollary vjp_transpose_trF rd h y xv gy :
  gradOf h y = Some gy -> wf gy -> (2 <= length (dims xv))%nat -> dims gy = transposeDims (dims xv) ->
  exists g, eval_rule rd h (RTranspose y) = Ok g /\ dims g = dims xv /\ wf g /\
    (forall idx, validIdx (dims xv) idx -> elt g idx = elt gy (transposeDims idx)) /\
    is_vjp (dims xv) (dims gy) trF (elt xv) (elt gy) (elt g).
Proof.
  intros Hg Wg Hr Eg. destruct (snoc2_of_rank (dims xv) Hr) as (batch & m & n & Ex).
  rewrite Ex, transposeDims_snoc2 in Eg.
  destruct (rtranspose_eval rd h y gy batch m n Hg Wg Eg) as (g & E & D & W & G).
  destruct (vjp_transpose rd h y xv gy batch m n trF Hg Wg Ex Eg) as (g' & E' & _ & _ & V).
  { intros a' b i j _ _ _. apply trF_app. }
  assert (g' = g) by congruence. subst g'.
  exists g. split; [exact E|]. split; [congruence|]. split; [exact W|]. split; [|exact V].
  intros idx Hv. rewrite Ex in Hv. apply validIdx_snoc2_inv in Hv as (b & i & j & -> & Hb & Hi & Hj).
  rewrite transposeDims_snoc2. apply G; assumption.
Qed.

(* ================================================================================= *)
(* 2. Dot: gy.UnSqueeze(rank y).Mul(other operand)                                    *)
(* ================================================================================= *)

Lemma flatIdx_snoc1 batch b : validIdx batch b -> flatIdx (batch ++ [1%nat]) (b ++ [0%nat]) = flatIdx batch b.
Proof.
  intros Hb. unfold validIdx in Hb. induction Hb as [|i d b batch Hi _ IH]; [reflexivity|].
  cbn [app flatIdx]. rewrite IH, prodn_app. cbn [prodn fold_right]. f_equal. lia.
Qed.

Lemma unsqueezeDims_end (ds : list nat) : unsqueezeDims (length ds) ds = ds ++ [1%nat].
Proof. unfold unsqueezeDims. rewrite firstn_all, skipn_all. reflexivity. Qed.

(* UnSqueeze at the end: element (b, 0) of the result is element b of the argument *)
Lemma unsq_elt (t : T) batch : wf t -> dims t = batch ->
  exists r, v_unsqueeze t (Z.of_nat (length batch)) = Ok r /\ dims r = batch ++ [1%nat] /\ wf r /\
    forall b, validIdx batch b -> elt r (b ++ [0%nat]) = elt t b.
Proof.
  intros Wt Et. destruct (v_unsqueeze_spec R t (Z.of_nat (length batch)) Wt) as [H _].
  destruct H as (r & Er & Hd & Wr & Hf).
  { apply validateUnSqueezeDim_iff. rewrite Et. lia. }
  rewrite Nat2Z.id, Et, unsqueezeDims_end in Hd.
  exists r. split; [exact Er|]. split; [exact Hd|]. split; [exact Wr|].
  intros b Hb. unfold elt.
  assert (Hv : validIdx (batch ++ [1%nat]) (b ++ [0%nat])) by (apply validIdx_snoc1; [exact Hb|lia]).
  pose proof (proj1 Wr) as Wr'. rewrite Hd in Wr'.
  rewrite <- (flat_nth R _ _ _ Wr' Hv), Hf, flatIdx_snoc1 by exact Hb.
  pose proof (proj1 Wt) as Wt'. rewrite Et in Wt'.
  rewrite (flat_nth R _ _ _ Wt' Hb). reflexivity.
Qed.

Lemma bproj_snoc1 batch n b p : validIdx batch b -> bproj (batch ++ [1%nat]) (batch ++ [n]) (b ++ [p]) = b ++ [0%nat].
Proof.
  intros Hb. pose proof (bproj_id batch b Hb) as Hid. unfold bproj in *.
  rewrite Nat.sub_diag in Hid. cbn [skipn] in Hid.
  rewrite !app_length. cbn [length]. rewrite Nat.sub_diag. cbn [skipn].
  rewrite combine_app_eq by (symmetry; apply validIdx_length; exact Hb).
  rewrite map_app, Hid. reflexivity.
Qed.

(* Mul of a [batch, 1] tensor with a [batch, n] tensor *)
Lemma mul_col_elt (c u : T) batch n : wf c -> wf u -> dims c = batch ++ [1%nat] -> dims u = batch ++ [n] ->
  exists r, v_arith BiMul c u = Ok r /\ dims r = batch ++ [n] /\ wf r /\
    forall b p, validIdx batch b -> (p < n)%nat -> elt r (b ++ [p]) = elt c (b ++ [0%nat]) * elt u (b ++ [p]).
Proof.
  intros Wc Wu Ec Eu.
  assert (Hn : (0 < n)%nat).
  { pose proof (proj2 Wu) as Hp. rewrite Eu in Hp. apply Forall_app in Hp as [_ Hp]. inversion Hp; assumption. }
  pose proof (v_arith_spec BiMul c u Wc Wu) as H. cbv zeta in H. destruct H as [H _].
  rewrite Ec, Eu, tbd_snoc, targetBroadcastDims_id in H.
  replace (Nat.max 1 n) with n in H by lia.
  destruct H as (r & Er & Hd & Wr & Hg).
  { unfold bcompat2. rewrite !rev_app_distr. cbn [rev app compat2R]. split; [auto|apply compat2R_refl]. }
  exists r. split; [exact Er|]. split; [exact Hd|]. split; [exact Wr|].
  intros b p Hb Hp.
  assert (Hv : validIdx (batch ++ [n]) (b ++ [p])) by (apply validIdx_snoc1; assumption).
  apply elt_of_get. rewrite (Hg _ Hv), bproj_snoc1 by exact Hb. rewrite (bproj_id _ _ Hv).
  rewrite (get_elt c (b ++ [0%nat]) Wc) by (rewrite Ec; apply validIdx_snoc1; [exact Hb|lia]).
  rewrite (get_elt u (b ++ [p]) Wu) by (rewrite Eu; exact Hv). reflexivity.
Qed.

(* the forward map: element b is Σ_p a(b,p) * o(b,p) *)
Definition dotF (n : nat) (a o : assignment) : assignment :=
  fun b => sumN n (fun p => a (b ++ [p]) * o (b ++ [p])).

(* Dot with equal shapes *)
Lemma dot_fwd av ov batch n : wf av -> wf ov -> dims av = batch ++ [n] -> dims ov = batch ++ [n] ->
  exists r, v_dot av ov = Ok r /\ dims r = batch /\ wf r /\
    forall b, validIdx batch b -> elt r b = dotF n (elt av) (elt ov) b.
Proof.
  intros Wa Wo Ea Eo. pose proof (v_dot_spec av ov Wa Wo) as H. cbv zeta in H. destruct H as [H _].
  destruct (H batch batch n Ea Eo) as (r & Er & _ & _ & Hd & Wr & Hg).
  { rewrite Ea, Eo. apply bcompat2_refl. }
  rewrite targetBroadcastDims_id in Hd.
  exists r. split; [exact Er|]. split; [exact Hd|]. split; [exact Wr|].
  intros b Hb. apply elt_of_get. rewrite Hg by (rewrite Hd; exact Hb). f_equal.
  rewrite Ea, Eo, targetBroadcastDims_id. unfold dotF. rewrite <- fold_dot_sumN.
  apply fold_left_ext_in. intros p s Hp. apply in_seq in Hp.
  rewrite bproj_id by (apply validIdx_snoc1; [exact Hb|lia]). reflexivity.
Qed.

Lemma rdot_eval rd h y o yv ov gy batch n :
  valOf h y = Some yv -> valOf h o = Some ov -> gradOf h y = Some gy -> wf ov -> wf gy ->
  dims yv = batch -> dims gy = batch -> dims ov = batch ++ [n] ->
  exists g, eval_rule rd h (RDot y o) = Ok g /\ dims g = batch ++ [n] /\ wf g /\
    forall b p, validIdx batch b -> (p < n)%nat -> elt g (b ++ [p]) = elt gy b * elt ov (b ++ [p]).
Proof.
  intros Hy Ho Hg Wo Wg Ey Eg Eo. open_rule.
  unfold zlen. rewrite Ey.
  destruct (unsq_elt gy batch Wg Eg) as (gyu & Eu & Du & Wu & Gu). rewrite Eu. cbn [res_bind].
  destruct (mul_col_elt gyu ov batch n Wu Wo Du Eo) as (g & Egg & Dg & Wg' & Gg).
  exists g. split; [exact Egg|]. split; [exact Dg|]. split; [exact Wg'|].
  intros b p Hb Hp. rewrite (Gg b p Hb Hp), (Gu b Hb). reflexivity.
Qed.

(* the same rule serves both operands ([h_dot] records (a1, RDot y a2) and (a2, RDot y a1)) *)
Theorem vjp_dot rd h y o yv xv ov gy batch n (F1 F2 : assignment -> assignment) :
  valOf h y = Some yv -> valOf h o = Some ov -> gradOf h y = Some gy -> wf ov -> wf gy ->
  dims yv = batch -> dims gy = batch -> dims xv = batch ++ [n] -> dims ov = batch ++ [n] ->
  (forall a' b, validIdx batch b -> F1 a' b = sumN n (fun p => a' (b ++ [p]) * elt ov (b ++ [p]))) ->
  (forall b' b, validIdx batch b -> F2 b' b = sumN n (fun p => elt ov (b ++ [p]) * b' (b ++ [p]))) ->
  exists g, eval_rule rd h (RDot y o) = Ok g /\ dims g = dims xv /\ wf g /\
    is_vjp (dims xv) (dims gy) F1 (elt xv) (elt gy) (elt g) /\     (* x is the first operand *)
    is_vjp (dims xv) (dims gy) F2 (elt xv) (elt gy) (elt g).       (* x is the second operand *)
Proof.
  intros Hy Ho Hg Wo Wg Ey Eg Ex Eo HF1 HF2.
  destruct (rdot_eval rd h y o yv ov gy batch n Hy Ho Hg Wo Wg Ey Eg Eo) as (g & E & D & W & G).
  exists g. split; [exact E|]. split; [congruence|]. split; [exact W|].
  assert (V1 : is_vjp (dims xv) (dims gy) F1 (elt xv) (elt gy) (elt g)).
  { rewrite Ex, Eg. apply vjp_affine. intros i0 Hi0.
    apply validIdx_snoc1_inv in Hi0 as (b0 & p0 & -> & Hb0 & Hp0).
    exists (fun j => if idx_eqb j b0 then elt ov (b0 ++ [p0]) else 0). split.
    - intros b t Hb. rewrite !(HF1 _ b Hb).
      rewrite (sumN_ext n _ (fun p => elt xv (b ++ [p]) * elt ov (b ++ [p]) +
                                      (if (p =? p0)%nat
                                       then (if idx_eqb b b0 then elt ov (b0 ++ [p]) else 0) * t else 0))).
      + rewrite sumN_plus, (sumN_single n p0 _ Hp0). reflexivity.
      + intros p _. rewrite perturb_delta. destruct (Nat.eqb_spec p p0) as [->|Np].
        * rewrite (idx_eqb_iff (b ++ [p0]) (b0 ++ [p0]) b b0).
          -- destruct (idx_eqb b b0) eqn:Eq; [|ring]. apply idx_eqb_eq in Eq. subst b. ring.
          -- split; [intros Eq; apply app_inj_tail in Eq as [-> _]; reflexivity|intros ->; reflexivity].
        * rewrite idx_eqb_neq; [ring|]. intros Eq. apply app_inj_tail in Eq as [_ Eq]. contradiction.
    - rewrite (G b0 p0 Hb0 Hp0).
      rewrite (sumIdx_ext batch _ (fun j => if idx_eqb j b0 then elt gy j * elt ov (b0 ++ [p0]) else 0)).
      + rewrite sumIdx_single by exact Hb0. reflexivity.
      + intros j _. destruct (idx_eqb j b0); ring. }
  split; [exact V1|].
  rewrite Eg in *. apply (is_vjp_ext_valid _ _ F1); [|exact V1].
  intros a' b Hb. rewrite (HF1 a' b Hb), (HF2 a' b Hb). apply sumN_ext. intros p _. ring.
Qed.

(* ================================================================================= *)
(* 4. Concat, per operand: y.Gradient().Slice(index)                                  *)
(* ================================================================================= *)

(* the index recorded by [concatEdges] for an operand of shape  pre ++ nj :: post  placed at
   offset [off] along dimension [length pre]: {0,0} everywhere except {off, off + nj} there *)
Definition catIndex (pre post : list nat) (off nj : nat) : list zrange :=
  repeat (0%Z, 0%Z) (length pre) ++ (Z.of_nat off, (Z.of_nat off + Z.of_nat nj)%Z) :: repeat (0%Z, 0%Z) (length post).

Lemma map_seq_const {X} (f : nat -> X) z n : forall s,
  (forall i, (s <= i < s + n)%nat -> f i = z) -> map f (seq s n) = repeat z n.
Proof.
  induction n as [|n IH]; intros s H; cbn [seq map repeat]; [reflexivity|].
  rewrite (H s) by lia. f_equal. apply IH. intros i Hi. apply H. lia.
Qed.

(* ... which is literally the list built in Grad.concatEdges *)
Lemma catIndex_edges pre post off nj :
  map (fun i => if (i =? length pre)%nat then (Z.of_nat off, (Z.of_nat off + Z.of_nat nj)%Z) else (0%Z, 0%Z))
      (seq 0 (length (pre ++ nj :: post)))
  = catIndex pre post off nj.
Proof.
  unfold catIndex. rewrite app_length. cbn [length]. rewrite seq_app, map_app. cbn [Nat.add seq map].
  rewrite Nat.eqb_refl. f_equal; [|f_equal].
  - apply map_seq_const. intros i Hi. destruct (Nat.eqb_spec i (length pre)); [lia|reflexivity].
  - apply map_seq_const. intros i Hi. destruct (Nat.eqb_spec i (length pre)); [lia|reflexivity].
Qed.

Lemma concatEdges_index y pre post nj (x : nat) (xv : T) rest off : dims xv = pre ++ nj :: post ->
  @concatEdges R y (length pre) ((x, xv) :: rest) (Z.of_nat off)
  = (x, RConcat y (catIndex pre post off nj)) :: @concatEdges R y (length pre) rest (Z.of_nat (off + nj)).
Proof.
  intros E. cbn [concatEdges]. rewrite E, nth_app_len. cbn [nth]. rewrite catIndex_edges, Nat2Z.inj_add. reflexivity.
Qed.

Lemma rangesOf_repeat00 n : rangesOf (repeat (0%Z, 0%Z) n) = repeat (0%nat, 0%nat) n.
Proof. unfold rangesOf. induction n as [|n IH]; cbn [repeat map]; [reflexivity|]. rewrite IH. reflexivity. Qed.

Lemma completeIndex_repeat00 ds : completeIndex (repeat (0%nat, 0%nat) (length ds)) ds = map (fun d => (0%nat, d)) ds.
Proof. induction ds as [|d ds IH]; cbn [length repeat completeIndex map]; [reflexivity|]. rewrite IH. reflexivity. Qed.

Lemma catIndex_complete pre post off nj N : (0 < nj)%nat ->
  completeIndex (rangesOf (catIndex pre post off nj)) (pre ++ N :: post)
  = map (fun d => (0%nat, d)) pre ++ (off, (off + nj)%nat) :: map (fun d => (0%nat, d)) post.
Proof.
  intros Hn. unfold catIndex, rangesOf. rewrite map_app. cbn [map fst snd]. fold (rangesOf (repeat (0%Z, 0%Z) (length pre))).
  fold (rangesOf (repeat (0%Z, 0%Z) (length post))). rewrite !rangesOf_repeat00.
  rewrite completeIndex_pre. cbn [completeIndex]. rewrite Nat2Z.id.
  replace (Z.to_nat (Z.of_nat off + Z.of_nat nj)) with (off + nj)%nat by lia.
  replace ((off =? 0)%nat && (off + nj =? 0)%nat) with false
    by (symmetry; apply andb_false_iff; right; apply Nat.eqb_neq; lia).
  rewrite completeIndex_repeat00. reflexivity.
Qed.

Lemma zsliceOk_repeat00 n : forall ds, (n <= length ds)%nat -> zsliceOk (repeat (0%Z, 0%Z) n) ds.
Proof.
  induction n as [|n IH]; intros ds H; cbn [repeat zsliceOk]; [exact I|].
  destruct ds as [|d ds]; cbn [length] in H; [lia|]. split; [left; auto|apply IH; lia].
Qed.

Lemma catIndex_ok pre post off nj N : (0 < nj)%nat -> (off + nj <= N)%nat ->
  zsliceOk (catIndex pre post off nj) (pre ++ N :: post).
Proof.
  intros Hn Hle. unfold catIndex. induction pre as [|d pre IH]; cbn [length repeat app zsliceOk].
  - split; [right; lia|apply zsliceOk_repeat00; lia].
  - split; [left; auto|exact IH].
Qed.

Lemma validIdx_mid_inv pre n post idx : validIdx (pre ++ n :: post) idx ->
  exists i1 x i2, idx = i1 ++ x :: i2 /\ validIdx pre i1 /\ (x < n)%nat /\ validIdx post i2.
Proof.
  intros Hv. unfold validIdx in Hv. apply Forall2_app_inv_r in Hv as (i1 & i2' & Hi1 & Hi2' & ->).
  inversion Hi2' as [|x ? i2 ? Hx Hi2]; subst. exists i1, x, i2. auto.
Qed.

Lemma validIdx_mid pre n post i1 x i2 : validIdx pre i1 -> (x < n)%nat -> validIdx post i2 ->
  validIdx (pre ++ n :: post) (i1 ++ x :: i2).
Proof. intros H1 Hx H2. apply validIdx_app; [exact H1|constructor; assumption]. Qed.

Lemma mid_inj {X} (a c : list X) x y b d : length a = length c -> a ++ x :: b = c ++ y :: d -> a = c /\ x = y /\ b = d.
Proof. intros Hl E. apply app_inj_len in E as [-> E]; [|exact Hl]. inversion E. auto. Qed.

Lemma shift_mid pre post off nj i1 x i2 : validIdx pre i1 -> validIdx post i2 ->
  shift (i1 ++ x :: i2) (map (fun d => (0%nat, d)) pre ++ (off, (off + nj)%nat) :: map (fun d => (0%nat, d)) post)
  = i1 ++ (off + x)%nat :: i2.
Proof.
  intros H1 H2. unfold shift.
  rewrite combine_app_eq by (rewrite map_length; apply validIdx_length; exact H1).
  rewrite map_app.
  change (shift i1 (map (fun d => (0%nat, d)) pre) ++
          shift (x :: i2) ((off, (off + nj)%nat) :: map (fun d => (0%nat, d)) post) = i1 ++ (off + x)%nat :: i2).
  rewrite shift_cons, !shift_nil_index by assumption. f_equal. f_equal. lia.
Qed.

Lemma rconcat_eval rd h y gy pre post off nj N :
  gradOf h y = Some gy -> wf gy -> dims gy = pre ++ N :: post -> (0 < nj)%nat -> (off + nj <= N)%nat ->
  exists g, eval_rule rd h (RConcat y (catIndex pre post off nj)) = Ok g /\ dims g = pre ++ nj :: post /\ wf g /\
    forall i1 x i2, validIdx pre i1 -> (x < nj)%nat -> validIdx post i2 ->
      elt g (i1 ++ x :: i2) = elt gy (i1 ++ (off + x)%nat :: i2).
Proof.
  intros Hg Wg Eg Hn Hle. open_rule.
  destruct (v_slice_spec gy (catIndex pre post off nj) Wg) as [H _].
  destruct H as (g & Egg & Dg & Wg' & Gg).
  { unfold zdims. apply validateSlice_iff. rewrite Eg. apply catIndex_ok; assumption. }
  rewrite Eg, (catIndex_complete pre post off nj N Hn) in Dg, Gg.
  assert (Dg' : dims g = pre ++ nj :: post).
  { rewrite Dg. unfold sizes. rewrite map_app. cbn [map fst snd].
    pose proof (sizes_nil_index pre) as E1. pose proof (sizes_nil_index post) as E2. unfold sizes in E1, E2.
    rewrite E1, E2. f_equal. f_equal. lia. }
  exists g. split; [exact Egg|]. split; [exact Dg'|]. split; [exact Wg'|].
  intros i1 x i2 H1 Hx H2. unfold elt.
  rewrite Gg by (rewrite Dg'; apply validIdx_mid; assumption).
  rewrite shift_mid by assumption. reflexivity.
Qed.

(* the forward map as a function of ONE operand (the others fixed): inside the operand's block the
   output is a copy of the operand, outside it does not depend on the operand *)
Theorem vjp_concat rd h y xv gy pre post off nj N (F : assignment -> assignment) :
  gradOf h y = Some gy -> wf gy -> dims xv = pre ++ nj :: post -> dims gy = pre ++ N :: post ->
  (0 < nj)%nat -> (off + nj <= N)%nat ->
  (forall a' i1 x i2, validIdx pre i1 -> (x < nj)%nat -> validIdx post i2 ->
     F a' (i1 ++ (off + x)%nat :: i2) = a' (i1 ++ x :: i2)) ->
  (forall a' a'' i1 z i2, validIdx pre i1 -> (z < N)%nat -> validIdx post i2 -> (z < off \/ off + nj <= z)%nat ->
     F a' (i1 ++ z :: i2) = F a'' (i1 ++ z :: i2)) ->
  exists g, eval_rule rd h (RConcat y (catIndex pre post off nj)) = Ok g /\ dims g = dims xv /\ wf g /\
    is_vjp (dims xv) (dims gy) F (elt xv) (elt gy) (elt g).
Proof.
  intros Hg Wg Ex Eg Hn Hle HF1 HF2.
  destruct (rconcat_eval rd h y gy pre post off nj N Hg Wg Eg Hn Hle) as (g & E & D & W & G).
  exists g. split; [exact E|]. split; [congruence|]. split; [exact W|].
  rewrite Ex, Eg. apply vjp_affine. intros i0 Hi0.
  apply validIdx_mid_inv in Hi0 as (a0 & x0 & c0 & -> & Ha0 & Hx0 & Hc0).
  exists (fun jj => if idx_eqb jj (a0 ++ (off + x0)%nat :: c0) then 1 else 0). split.
  - intros jj t Hjj. apply validIdx_mid_inv in Hjj as (i1 & z & i2 & -> & H1 & Hz & H2).
    assert (Ll : length i1 = length a0) by (rewrite (validIdx_length _ _ H1), (validIdx_length _ _ Ha0); reflexivity).
    destruct (le_lt_dec off z) as [Hlo|Hlo]; [destruct (le_lt_dec (off + nj) z) as [Hhi|Hhi]|].
    + rewrite (HF2 _ (elt xv) i1 z i2 H1 Hz H2) by lia.
      rewrite idx_eqb_neq; [ring|]. intros Eq. apply mid_inj in Eq as (_ & Eq & _); [lia|exact Ll].
    + replace z with (off + (z - off))%nat by lia.
      rewrite !(HF1 _ i1 (z - off)%nat i2 H1) by (try assumption; lia). rewrite perturb_delta.
      rewrite (idx_eqb_iff (i1 ++ (z - off)%nat :: i2) (a0 ++ x0 :: c0)
                           (i1 ++ (off + (z - off))%nat :: i2) (a0 ++ (off + x0)%nat :: c0)).
      * destruct (idx_eqb (i1 ++ (off + (z - off))%nat :: i2) (a0 ++ (off + x0)%nat :: c0)); ring.
      * split; intros Eq; apply mid_inj in Eq as (-> & Eq & ->); try exact Ll; f_equal; f_equal; lia.
    + rewrite (HF2 _ (elt xv) i1 z i2 H1 Hz H2) by lia.
      rewrite idx_eqb_neq; [ring|]. intros Eq. apply mid_inj in Eq as (_ & Eq & _); [lia|exact Ll].
  - rewrite (G a0 x0 c0 Ha0 Hx0 Hc0).
    rewrite (sumIdx_ext _ _ (fun jj => if idx_eqb jj (a0 ++ (off + x0)%nat :: c0) then elt gy jj else 0)).
    + rewrite sumIdx_single by (apply validIdx_mid; [exact Ha0|lia|exact Hc0]). reflexivity.
    + intros jj _. destruct (idx_eqb jj (a0 ++ (off + x0)%nat :: c0)); ring.
Qed.

(* ---------- the concrete forward map of Concat in one operand ---------- *)

(* [c] = the elements contributed by the other operands (any assignment: it is only read outside
   the operand's block), [a] = the operand placed at [off .. off + nj) along dimension [L] *)
Definition catF (L off nj : nat) (c a : assignment) : assignment :=
  fun idx => let z := nth L idx 0%nat in
    if ((off <=? z) && (z <? off + nj))%nat
    then a (firstn L idx ++ (z - off)%nat :: skipn (S L) idx) else c idx.

Lemma skipn_S_mid {X} (i1 : list X) z i2 : skipn (S (length i1)) (i1 ++ z :: i2) = i2.
Proof. induction i1 as [|a i1 IH]; [reflexivity|exact IH]. Qed.

Lemma catF_in off nj c a i1 x i2 : (x < nj)%nat ->
  catF (length i1) off nj c a (i1 ++ (off + x)%nat :: i2) = a (i1 ++ x :: i2).
Proof.
  intros Hx. unfold catF. rewrite nth_app_len. cbn [nth].
  replace ((off <=? off + x) && (off + x <? off + nj))%nat with true
    by (symmetry; apply andb_true_iff; split; [apply Nat.leb_le|apply Nat.ltb_lt]; lia).
  change (i1 ++ (off + x)%nat :: i2) with (i1 ++ [(off + x)%nat] ++ i2) at 1.
  rewrite firstn_length_app, skipn_S_mid. do 3 f_equal. lia.
Qed.

Lemma catF_out off nj c a i1 z i2 : (z < off \/ off + nj <= z)%nat ->
  catF (length i1) off nj c a (i1 ++ z :: i2) = c (i1 ++ z :: i2).
Proof.
  intros Hz. unfold catF. rewrite nth_app_len. cbn [nth].
  replace ((off <=? z) && (z <? off + nj))%nat with false; [reflexivity|].
  symmetry. apply andb_false_iff. destruct Hz as [Hz|Hz]; [left; apply Nat.leb_gt|right; apply Nat.ltb_ge]; lia.
Qed.

(* the rule recorded for operand j of a concatenation of operands of sizes [ns] along [length pre] *)
Corollary vjp_concat_operand rd h y xv gy pre post ns j (c : assignment) :
  gradOf h y = Some gy -> wf gy -> dims gy = pre ++ list_sum ns :: post ->
  (j < length ns)%nat -> dims xv = pre ++ nth j ns 0%nat :: post -> (0 < nth j ns 0)%nat ->
  let off := list_sum (firstn j ns) in let nj := nth j ns 0%nat in
  exists g, eval_rule rd h (RConcat y (catIndex pre post off nj)) = Ok g /\ dims g = dims xv /\ wf g /\
    (forall i1 x i2, validIdx pre i1 -> (x < nj)%nat -> validIdx post i2 ->
       elt g (i1 ++ x :: i2) = elt gy (i1 ++ (off + x)%nat :: i2)) /\
    is_vjp (dims xv) (dims gy) (catF (length pre) off nj c) (elt xv) (elt gy) (elt g).
Proof.
  intros Hg Wg Eg Hj Ex Hn. cbv zeta.
  pose proof (list_sum_firstn_le ns j Hj) as Hle.
  destruct (rconcat_eval rd h y gy pre post _ _ _ Hg Wg Eg Hn Hle) as (g & E & D & W & G).
  destruct (vjp_concat rd h y xv gy pre post _ _ _ (catF (length pre) (list_sum (firstn j ns)) (nth j ns 0%nat) c)
              Hg Wg Ex Eg Hn Hle) as (g' & E' & _ & _ & V).
  - intros a' i1 x i2 H1 Hx H2. rewrite <- (validIdx_length _ _ H1). apply catF_in. exact Hx.
  - intros a' a'' i1 z i2 H1 Hz H2 Ho. rewrite <- (validIdx_length _ _ H1). rewrite !catF_out by exact Ho. reflexivity.
  - assert (g' = g) by congruence. subst g'.
    exists g. split; [exact E|]. split; [congruence|]. split; [exact W|]. split; [exact G|exact V].
Qed.

(* ---------- ... and the model's Concat computes it ---------- *)

Lemma Forall2_replace {X Y} (P : X -> Y -> Prop) l1 l2 : Forall2 P l1 l2 ->
  forall j x x', nth_error l1 j = Some x -> (forall y', P x y' -> P x' y') ->
  Forall2 P (firstn j l1 ++ x' :: skipn (S j) l1) l2.
Proof.
  induction 1 as [|a b l1 l2 Hab HF IH]; intros j x x' Hj Hx; [destruct j; discriminate|].
  destruct j as [|j]; cbn in Hj.
  - inversion Hj; subst. cbn. constructor; [apply Hx; exact Hab|exact HF].
  - cbn [firstn skipn app]. constructor; [exact Hab|]. apply (IH j x x' Hj Hx).
Qed.

Lemma nth_error_replace {X} (l : list X) : forall j x' k, (j < length l)%nat ->
  nth_error (firstn j l ++ x' :: skipn (S j) l) k = if (k =? j)%nat then Some x' else nth_error l k.
Proof.
  induction l as [|a l IH]; intros j x' k Hj; cbn in Hj; [lia|].
  destruct j as [|j]; destruct k as [|k]; cbn; try reflexivity. apply IH. lia.
Qed.

Lemma list_sum_firstn_mono ns : forall a b, (a <= b)%nat -> (list_sum (firstn a ns) <= list_sum (firstn b ns))%nat.
Proof.
  induction ns as [|n ns IH]; intros a b Hab; [rewrite !firstn_nil; lia|].
  destruct a as [|a]; destruct b as [|b]; cbn [firstn list_sum fold_right]; try lia.
  fold (list_sum (firstn a ns)). fold (list_sum (firstn b ns)). specialize (IH a b ltac:(lia)). lia.
Qed.

Theorem concat_fwd pre post (ts : list T) ns j t :
  ts <> [] -> Forall2 (fun t n => wf t /\ dims t = pre ++ n :: post) ts ns -> nth_error ts j = Some t ->
  exists r, concatD ts (length pre) = Some r /\ dims r = pre ++ list_sum ns :: post /\ wf r /\
    forall t', wf t' -> dims t' = dims t ->
      exists r', concatD (firstn j ts ++ t' :: skipn (S j) ts) (length pre) = Some r' /\ dims r' = dims r /\ wf r' /\
        forall idx, validIdx (dims r) idx ->
          elt r' idx = catF (length pre) (list_sum (firstn j ns)) (nth j ns 0%nat) (elt r) (elt t') idx.
Proof.
  intros Hne H Hj.
  destruct (concat_spec pre post ts ns Hne H) as (r & Er & _ & Dr & Wr & Gr).
  exists r. split; [exact Er|]. split; [exact Dr|]. split; [exact Wr|].
  intros t' Wt' Dt'.
  pose proof (Forall2_len _ _ _ H) as Hlen.
  assert (Hjl : (j < length ts)%nat) by (apply nth_error_Some; congruence).
  set (ts' := firstn j ts ++ t' :: skipn (S j) ts).
  assert (H' : Forall2 (fun t n => wf t /\ dims t = pre ++ n :: post) ts' ns).
  { apply (Forall2_replace _ ts ns H j t t' Hj). intros n [_ Dn]. split; [exact Wt'|congruence]. }
  assert (Hne' : ts' <> []) by (unfold ts'; destruct (firstn j ts); discriminate).
  destruct (concat_spec pre post ts' ns Hne' H') as (r' & Er' & _ & Dr' & Wr' & Gr').
  exists r'. split; [exact Er'|]. split; [congruence|]. split; [exact Wr'|].
  intros idx Hv. rewrite Dr in Hv. apply validIdx_mid_inv in Hv as (i1 & z & i2 & -> & H1 & Hz & H2).
  destruct (sum_split ns z Hz) as (j' & x' & Hj' & Hx' & ->).
  assert (Ej' : nth_error ts' j' = if (j' =? j)%nat then Some t' else nth_error ts j')
    by (apply nth_error_replace; exact Hjl).
  rewrite <- (validIdx_length _ _ H1).
  destruct (Nat.eqb_spec j' j) as [->|Nj].
  - rewrite catF_in by exact Hx'. unfold elt. rewrite (Gr' j t' i1 x' i2 Ej' H1 Hx' H2). reflexivity.
  - destruct (nth_error_lt_some ts j' ltac:(lia)) as (t'' & Et'').
    rewrite Et'' in Ej'. rewrite catF_out.
    + unfold elt. rewrite (Gr' j' t'' i1 x' i2 Ej' H1 Hx' H2), (Gr j' t'' i1 x' i2 Et'' H1 Hx' H2). reflexivity.
    + destruct (Nat.lt_ge_cases j' j) as [Hlt|Hge].
      * left. pose proof (list_sum_firstn_mono ns (S j') j ltac:(lia)) as Hm.
        rewrite (list_sum_firstn_S ns j' Hj') in Hm. lia.
      * right. pose proof (list_sum_firstn_mono ns (S j) j' ltac:(lia)) as Hm.
        rewrite (list_sum_firstn_S ns j ltac:(lia)) in Hm. lia.
Qed.


End VjpLinalg.

(* ================================================================================= *)
(* 5. examples: the hypotheses are satisfiable, the conclusions non-trivial           *)
(* ================================================================================= *)
Module VjpLinalgExamples.
Section Ex.
Variables (thr : R) (draw : bool -> nat -> R).
Local Hint Extern 0 (Scalar R) => exact (R_scalar thr draw) : typeclass_instances.

Definition exv (j : list nat) : R := INR (flatIdx [9%nat; 9%nat; 9%nat] j).
Definition mkLeaf (v : tensor R) : node := mkNode v true false None [] None.
Definition mkRes (v g : tensor R) (es : list (nat * rule)) : node := mkNode v true false (Some g) es None.

Lemma wf_of ds (f : assignment) : List.Forall (fun d => (0 < d)%nat) ds -> wf (ofFun ds f).
Proof. apply ofFun_wf. Qed.

(* ---- MatMul, batch [2]: a : [2;2;3], b : [2;3;2], y = a.b : [2;2;2] ---- *)
Definition ma : tensor R := ofFun [2%nat; 2%nat; 3%nat] exv.
Definition mb : tensor R := ofFun [2%nat; 3%nat; 2%nat] exv.
Definition my : tensor R := ofFun [2%nat; 2%nat; 2%nat] (mmF 1 3 (elt ma) (elt mb)).
Definition mg : tensor R := ofFun [2%nat; 2%nat; 2%nat] exv.
Definition hMM : @heap R :=
  [mkLeaf ma; mkLeaf mb; mkRes my mg [(0%nat, RMatMulA 2 1); (1%nat, RMatMulB 2 0)]].

(* the value stored for y is what the model's MatMul computes *)
Example matmul_fwd_ex : exists r, v_matmul ma mb = Ok r /\ dims r = [2%nat; 2%nat; 2%nat] /\
  forall idx, validIdx [2%nat; 2%nat; 2%nat] idx -> elt r idx = elt my idx.
Proof.
  destruct (matmul_fwd thr draw ma mb [2%nat] 2 3 2) as (r & Er & Dr & _ & Gr);
    try reflexivity; try (apply wf_of; repeat constructor).
  exists r. split; [exact Er|]. split; [exact Dr|]. intros idx Hv. rewrite (Gr idx Hv).
  symmetry. apply elt_ofFun. exact Hv.
Qed.

Example matmul_a_ex rd : exists g, eval_rule rd hMM (RMatMulA 2 1) = Ok g /\ dims g = [2%nat; 2%nat; 3%nat] /\ wf g /\
  elt g [1%nat; 0%nat; 2%nat] = exv [1%nat; 0%nat; 0%nat] * exv [1%nat; 2%nat; 0%nat]
                              + (exv [1%nat; 0%nat; 1%nat] * exv [1%nat; 2%nat; 1%nat] + 0) /\
  is_vjp [2%nat; 2%nat; 3%nat] [2%nat; 2%nat; 2%nat] (fun a' => mmF 1 3 a' (elt mb)) (elt ma) (elt mg) (elt g).
Proof.
  assert (Wb : wf mb) by (apply wf_of; repeat constructor).
  assert (Wg : wf mg) by (apply wf_of; repeat constructor).
  destruct (rmatmula_eval thr draw rd hMM 2 1 mb mg [2%nat] 2 3 2 eq_refl eq_refl Wb Wg eq_refl eq_refl)
    as (g & E & D & W & G).
  destruct (vjp_matmul_a thr draw rd hMM 2 1 ma mb mg [2%nat] 2 3 2 (fun a' => mmF 1 3 a' (elt mb))
              eq_refl eq_refl Wb Wg eq_refl eq_refl eq_refl) as (g' & E' & _ & _ & V).
  { intros a' bi i j Hbi _ _. apply validIdx_cons in Hbi as (b0 & r & -> & _ & Hr). apply validIdx_nil in Hr. subst r.
    apply (mmF_app a' (elt mb) [b0] i j 3). }
  assert (g' = g) by congruence. subst g'.
  exists g. split; [exact E|]. split; [exact D|]. split; [exact W|]. split; [|exact V].
  pose proof (G [1%nat] 0%nat 2%nat ltac:(repeat constructor) ltac:(lia) ltac:(lia)) as Gx. cbn [app] in Gx. rewrite Gx.
  unfold sumN. cbn [seq map fold_right app].
  unfold mg, mb. rewrite !elt_ofFun by (repeat constructor). reflexivity.
Qed.

Example matmul_b_ex rd : exists g, eval_rule rd hMM (RMatMulB 2 0) = Ok g /\ dims g = [2%nat; 3%nat; 2%nat] /\ wf g /\
  elt g [0%nat; 2%nat; 1%nat] = exv [0%nat; 0%nat; 2%nat] * exv [0%nat; 0%nat; 1%nat]
                              + (exv [0%nat; 1%nat; 2%nat] * exv [0%nat; 1%nat; 1%nat] + 0) /\
  is_vjp [2%nat; 3%nat; 2%nat] [2%nat; 2%nat; 2%nat] (fun b' => mmF 1 3 (elt ma) b') (elt mb) (elt mg) (elt g).
Proof.
  assert (Wa : wf ma) by (apply wf_of; repeat constructor).
  assert (Wg : wf mg) by (apply wf_of; repeat constructor).
  destruct (rmatmulb_eval thr draw rd hMM 2 0 ma mg [2%nat] 2 3 2 eq_refl eq_refl Wa Wg eq_refl eq_refl)
    as (g & E & D & W & G).
  destruct (vjp_matmul_b thr draw rd hMM 2 0 ma mb mg [2%nat] 2 3 2 (fun b' => mmF 1 3 (elt ma) b')
              eq_refl eq_refl Wa Wg eq_refl eq_refl eq_refl) as (g' & E' & _ & _ & V).
  { intros b' bi i j Hbi _ _. apply validIdx_cons in Hbi as (b0 & r & -> & _ & Hr). apply validIdx_nil in Hr. subst r.
    apply (mmF_app (elt ma) b' [b0] i j 3). }
  assert (g' = g) by congruence. subst g'.
  exists g. split; [exact E|]. split; [exact D|]. split; [exact W|]. split; [|exact V].
  pose proof (G [0%nat] 2%nat 1%nat ltac:(repeat constructor) ltac:(lia) ltac:(lia)) as Gx. cbn [app] in Gx. rewrite Gx.
  unfold sumN. cbn [seq map fold_right app].
  unfold mg, ma. rewrite !elt_ofFun by (repeat constructor). reflexivity.
Qed.

(* ---- MatMul of matrices ---- *)
Definition a2 : tensor R := ofFun [2%nat; 3%nat] exv.
Definition b2 : tensor R := ofFun [3%nat; 2%nat] exv.
Definition g2 : tensor R := ofFun [2%nat; 2%nat] exv.
Definition hMM2 : @heap R :=
  [mkLeaf a2; mkLeaf b2; mkRes g2 g2 [(0%nat, RMatMulA 2 1); (1%nat, RMatMulB 2 0)]].
Example matmul_2d_ex rd :
  (exists g, eval_rule rd hMM2 (RMatMulA 2 1) = Ok g /\ dims g = [2%nat; 3%nat] /\ wf g /\
     is_vjp [2%nat; 3%nat] [2%nat; 2%nat] (fun a' => mmF 0 3 a' (elt b2)) (elt a2) (elt g2) (elt g)) /\
  (exists g, eval_rule rd hMM2 (RMatMulB 2 0) = Ok g /\ dims g = [3%nat; 2%nat] /\ wf g /\
     is_vjp [3%nat; 2%nat] [2%nat; 2%nat] (fun b' => mmF 0 3 (elt a2) b') (elt b2) (elt g2) (elt g)).
Proof.
  assert (Wa : wf a2) by (apply wf_of; repeat constructor).
  assert (Wb : wf b2) by (apply wf_of; repeat constructor).
  assert (Wg : wf g2) by (apply wf_of; repeat constructor).
  split.
  - destruct (vjp_matmul_a_2d thr draw rd hMM2 2 1 a2 b2 g2 2 3 2 (fun a' => mmF 0 3 a' (elt b2))
                eq_refl eq_refl Wb Wg eq_refl eq_refl eq_refl) as (g & E & D & W & _ & V).
    { intros a' i j _ _. apply (mmF_app a' (elt b2) [] i j 3). }
    exists g. auto.
  - destruct (vjp_matmul_b_2d thr draw rd hMM2 2 0 a2 b2 g2 2 3 2 (fun b' => mmF 0 3 (elt a2) b')
                eq_refl eq_refl Wa Wg eq_refl eq_refl eq_refl) as (g & E & D & W & _ & V).
    { intros b' i j _ _. apply (mmF_app (elt a2) b' [] i j 3). }
    exists g. auto.
Qed.

(* ---- Transpose: x : [2;2;3], y : [2;3;2] ---- *)
Definition tx : tensor R := ofFun [2%nat; 2%nat; 3%nat] exv.
Definition tg : tensor R := ofFun [2%nat; 3%nat; 2%nat] exv.
Definition hT : @heap R := [mkLeaf tx; mkRes tg tg [(0%nat, RTranspose 1)]].
Example transpose_ex rd : exists g, eval_rule rd hT (RTranspose 1) = Ok g /\ dims g = [2%nat; 2%nat; 3%nat] /\ wf g /\
  elt g [1%nat; 0%nat; 2%nat] = exv [1%nat; 2%nat; 0%nat] /\
  is_vjp [2%nat; 2%nat; 3%nat] [2%nat; 3%nat; 2%nat] trF (elt tx) (elt tg) (elt g).
Proof.
  assert (Wg : wf tg) by (apply wf_of; repeat constructor).
  destruct (vjp_transpose_trF thr draw rd hT 1 tx tg eq_refl Wg ltac:(cbn; lia) eq_refl) as (g & E & D & W & G & V).
  exists g. split; [exact E|]. split; [exact D|]. split; [exact W|]. split; [|exact V].
  rewrite G by (repeat constructor). change (transposeDims [1%nat; 0%nat; 2%nat]) with [1%nat; 2%nat; 0%nat].
  apply elt_ofFun. repeat constructor.
Qed.

(* ---- Dot, batch [2]: operands [2;3], y : [2] ---- *)
Definition dx : tensor R := ofFun [2%nat; 3%nat] exv.
Definition dov : tensor R := ofFun [2%nat; 3%nat] (fun j => exv j + 1).
Definition dy : tensor R := ofFun [2%nat] (dotF 3 (elt dx) (elt dov)).
Definition dg : tensor R := ofFun [2%nat] exv.
Definition hD : @heap R := [mkLeaf dx; mkLeaf dov; mkRes dy dg [(0%nat, RDot 2 1); (1%nat, RDot 2 0)]].
Example dot_ex rd : exists g, eval_rule rd hD (RDot 2 1) = Ok g /\ dims g = [2%nat; 3%nat] /\ wf g /\
  elt g [1%nat; 2%nat] = exv [1%nat] * (exv [1%nat; 2%nat] + 1) /\
  is_vjp [2%nat; 3%nat] [2%nat] (fun a' => dotF 3 a' (elt dov)) (elt dx) (elt dg) (elt g).
Proof.
  assert (Wo : wf dov) by (apply wf_of; repeat constructor).
  assert (Wg : wf dg) by (apply wf_of; repeat constructor).
  destruct (rdot_eval thr draw rd hD 2 1 dy dov dg [2%nat] 3 eq_refl eq_refl eq_refl Wo Wg eq_refl eq_refl eq_refl)
    as (g & E & D & W & G).
  destruct (vjp_dot thr draw rd hD 2 1 dy dx dov dg [2%nat] 3 (fun a' => dotF 3 a' (elt dov)) (fun b' => dotF 3 (elt dov) b')
              eq_refl eq_refl eq_refl Wo Wg eq_refl eq_refl eq_refl eq_refl) as (g' & E' & _ & _ & V & _).
  { intros a' b _. reflexivity. }
  { intros b' b _. reflexivity. }
  assert (g' = g) by congruence. subst g'.
  exists g. split; [exact E|]. split; [exact D|]. split; [exact W|]. split; [|exact V].
  pose proof (G [1%nat] 2%nat ltac:(repeat constructor) ltac:(lia)) as Gx. cbn [app] in Gx. rewrite Gx. unfold dg, dov.
  rewrite !elt_ofFun by (repeat constructor). reflexivity.
Qed.

(* Dot of two vectors: the result and its gradient have rank 0 (UnSqueeze at position 0) *)
Definition vx : tensor R := ofFun [3%nat] exv.
Definition vg : tensor R := ofFun [] (fun _ => 5).
Definition hD0 : @heap R := [mkLeaf vx; mkLeaf vx; mkRes vg vg [(0%nat, RDot 2 1); (1%nat, RDot 2 0)]].
Example dot_rank0_ex rd : exists g, eval_rule rd hD0 (RDot 2 1) = Ok g /\ dims g = [3%nat] /\ wf g /\
  elt g [2%nat] = 5 * exv [2%nat] /\
  is_vjp [3%nat] [] (fun a' => dotF 3 a' (elt vx)) (elt vx) (elt vg) (elt g).
Proof.
  assert (Wo : wf vx) by (apply wf_of; repeat constructor).
  assert (Wg : wf vg) by (apply wf_of; repeat constructor).
  destruct (rdot_eval thr draw rd hD0 2 1 vg vx vg [] 3 eq_refl eq_refl eq_refl Wo Wg eq_refl eq_refl eq_refl)
    as (g & E & D & W & G).
  destruct (vjp_dot thr draw rd hD0 2 1 vg vx vx vg [] 3 (fun a' => dotF 3 a' (elt vx)) (fun b' => dotF 3 (elt vx) b')
              eq_refl eq_refl eq_refl Wo Wg eq_refl eq_refl eq_refl eq_refl) as (g' & E' & _ & _ & V & _).
  { intros a' b _. reflexivity. }
  { intros b' b _. reflexivity. }
  assert (g' = g) by congruence. subst g'.
  exists g. split; [exact E|]. split; [exact D|]. split; [exact W|]. split; [|exact V].
  pose proof (G [] 2%nat ltac:(repeat constructor) ltac:(lia)) as Gx. cbn [app] in Gx. rewrite Gx. unfold vx.
  rewrite (elt_ofFun [3%nat]) by (repeat constructor). reflexivity.
Qed.

(* ---- Concat of [2;1;2], [2;2;2], [2;1;2] along dimension 1: the edge of the middle operand ---- *)
Definition c0 : tensor R := ofFun [2%nat; 1%nat; 2%nat] exv.
Definition c1 : tensor R := ofFun [2%nat; 2%nat; 2%nat] exv.
Definition cg : tensor R := ofFun [2%nat; 4%nat; 2%nat] exv.
Definition hC : @heap R :=
  [mkLeaf c0; mkLeaf c1; mkLeaf c0;
   mkRes cg cg (concatEdges 3 1 [(0%nat, c0); (1%nat, c1); (2%nat, c0)] 0%Z)].

(* the edges recorded by the tracked Concat carry exactly the indices of [catIndex] *)
Example concat_edges_ex :
  @concatEdges R 3 1 [(0%nat, c0); (1%nat, c1); (2%nat, c0)] 0%Z =
  [(0%nat, RConcat 3 (catIndex [2%nat] [2%nat] 0 1)); (1%nat, RConcat 3 (catIndex [2%nat] [2%nat] 1 2));
   (2%nat, RConcat 3 (catIndex [2%nat] [2%nat] 3 1))].
Proof. reflexivity. Qed.

Example concat_ex rd (c : assignment) :
  exists g, eval_rule rd hC (RConcat 3 (catIndex [2%nat] [2%nat] 1 2)) = Ok g /\ dims g = [2%nat; 2%nat; 2%nat] /\ wf g /\
  elt g [1%nat; 0%nat; 1%nat] = exv [1%nat; 1%nat; 1%nat] /\
  is_vjp [2%nat; 2%nat; 2%nat] [2%nat; 4%nat; 2%nat] (catF 1 1 2 c) (elt c1) (elt cg) (elt g).
Proof.
  assert (Wg : wf cg) by (apply wf_of; repeat constructor).
  pose proof (vjp_concat_operand thr draw rd hC 3 c1 cg [2%nat] [2%nat] [1%nat; 2%nat; 1%nat] 1 c
                eq_refl Wg eq_refl ltac:(cbn; lia) eq_refl ltac:(cbn; lia)) as H.
  cbv zeta in H. cbn [firstn list_sum fold_right nth Nat.add length] in H.
  destruct H as (g & E & D & W & G & V).
  exists g. split; [exact E|]. split; [exact D|]. split; [exact W|]. split; [|exact V].
  pose proof (G [1%nat] 0%nat [1%nat] ltac:(repeat constructor) ltac:(lia) ltac:(repeat constructor)) as Gx.
  cbn [app Nat.add] in Gx. rewrite Gx. apply elt_ofFun. repeat constructor.
Qed.

End Ex.
End VjpLinalgExamples.

Print Assumptions vjp_affine.
Print Assumptions vjp_linear.
Print Assumptions matmul_fwd.
Print Assumptions rmatmula_eval.
Print Assumptions vjp_matmul_a.
Print Assumptions rmatmulb_eval.
Print Assumptions vjp_matmul_b.
Print Assumptions vjp_matmul_a_2d.
Print Assumptions vjp_matmul_b_2d.
Print Assumptions transpose_fwd.
Print Assumptions rtranspose_eval.
Print Assumptions vjp_transpose.
Print Assumptions vjp_transpose_trF.
Print Assumptions dot_fwd.
Print Assumptions rdot_eval.
Print Assumptions vjp_dot.
Print Assumptions rconcat_eval.
Print Assumptions vjp_concat.
Print Assumptions vjp_concat_operand.
Print Assumptions concat_fwd.
