(* TrainP.v — property C11: the training loop as a state machine.

   The loop body [train_iter]: forward pass of the model  FC -> activation -> loss  ([forward_loss],
   5 activations x 3 losses; MSE/BCE see the [B,O] prediction through Flatten(0)), back-propagation
   [bp_topo] from the loss, SGD update of weight and bias, ResetGradContext(true) on the two new
   tensors.  [train] iterates it over a list of batches (node ids of input and target).

   PART I — wiring (any scalar type, any rd, any eps/ome/lr, any activation and loss)
     1. [sgd_update_spec] (w - lr * g element-wise), [sgd_update_nograd], [sgd_update_nil], [sgd_ok_inv]
     2. [reset_fresh]
     3. [spent_forward_untracked]: a spent weight or bias makes the loss untracked and spent, so
        back-propagation from it is the identity
     4. [train_iter_spent], [missing_reset_errors], [noreset_next_errors]: the next iteration after a
        forgotten reset returns Err from the update of the weight; heap = what the forward pass left
     5. [iter_no_leak]: one successful iteration returns two FRESH tensors (tracked, not spent, no
        gradient, no edges), keeps [hinv], never changes a value, keeps every datum a datum, and the
        new values are  sgd_val lr (old value) (gradient this back-propagation delivered)
     6. [train_trajectory]: any number of steps, [Traj] = chain of [train_iter] steps with the
        gradients [delivers] exposes
   PART II — shapes.  No lemma "a delivered gradient has the shape of its node" existed; it is proved
     here for every tracked method the loop uses, generically in the scalar type:
     [sinv rd h] (values well formed, every back edge shape-sound [edge_ok], gradients shaped),
     [sinv_unsqueeze/flatten/reduceAlong/scale/pow/math/broadcast/elsel/arith/matmul], [bp_sinv],
     [forward_loss_sinv], then [iter_shapes] and [train_trajectory_shapes] ([TrajE]: the recurrence
     w_{k+1}[i] = w_k[i] - lr * G_k[i] element by element, dims and well-formedness kept).
   PART III — examples on the throw-away [Scalar Z] of CompP.v.

   Hypotheses.  [hinv h] (StepP.v: back edges point at older tensors, every rule stored at node c
   reads the gradient of c) for Part I — it holds in every heap reachable by API calls
   ([StepP.reachable_hinv]); [sinv rd h] for Part II — [sinv_nil], [sinv_leaf] and the [sinv_*]
   lemmas build it for heaps made of leaves and the methods above.
   Findings while stating the theorems:
   * [datum h x] needs [x < length h]: with the two flags alone an id that does not exist yet is a
     datum vacuously, and the iteration may allocate it as a tracked tensor.
   * no hypothesis "the loss is tracked" is needed: if it were not, back-propagation would be the
     identity, the fresh weight would have no gradient and the update would return Err.
   * weight and bias may be the same tensor (w = b); nothing above excludes it. *)
From Coq Require Import List Arith ZArith Bool Lia.
From Qeep Require Import Model.Scalar Model.Nd Model.Fill Model.Data Model.Valid Model.Api Model.Grad
     Model.Backprop Model.Components.
From Qeep Require Import Proofs.NdP Proofs.ElemP Proofs.ReshapeP Proofs.BroadcastP Proofs.ReduceP Proofs.ArithP
     Proofs.TransposeP Proofs.MatMulP Proofs.TrackP Proofs.DfsP Proofs.BpFlagsP Proofs.CompP Proofs.StepP.
From Qeep Require Proofs.BackpropP.
Import ListNotations.

Notation "'doh' ( h , x ) <- a ; b" := (hbind a (fun h x => b)) (at level 200, h name, x name, a at level 100, b at level 200).

Section TrainP.
Context {A : Type} {SA : Scalar A}.
Notation T := (tensor A).
Notation heap := (@heap A).
Notation node := (@node A).
Notation rule := (@rule A).
Notation hres := (@hres A).
Notation idseal := (fun (_ : option nat) (g : T) => g).

(* ================================================================== *)
(*  0. definitions                                                     *)
(* ================================================================== *)

(* a trainable tensor ready for a forward pass *)
Definition fresh (h : heap) (w : nat) : Prop :=
  trackedOf h w = true /\ dirtyOf h w = false /\ gradOf h w = None /\ edgesOf h w = [].
(* what an optimizer update returns: computed from a (spent) gradient tensor *)
Definition spentN (h : heap) (w : nat) : Prop :=
  trackedOf h w = false /\ dirtyOf h w = true /\ gradOf h w = None /\ edgesOf h w = [].
(* an input / target tensor of the data set (an existing tensor: [x < length h] is needed,
   otherwise an id allocated later would be a datum vacuously) *)
Definition datum (h : heap) (x : nat) : Prop :=
  x < length h /\ trackedOf h x = false /\ dirtyOf h x = false.

Inductive actK := KRelu | KLeaky (m : A) | KSigmoid | KTanh | KSoftmax (dim : nat).
Inductive lossK := KMse | KBce | KCe.

Definition act_forward (ak : actK) (h : heap) (y : nat) : hres :=
  match ak with
  | KRelu => relu_forward h [Some y] None
  | KLeaky m => leaky_forward h m [Some y] None
  | KSigmoid => sigmoid_forward h [Some y] None
  | KTanh => tanh_forward h [Some y] None
  | KSoftmax d => softmax_forward h d [Some y] None
  end.

(* MSE and BCE take rank-1 arguments: the [B,O] prediction is flattened; CE takes it as it is *)
Definition loss_forward (eps ome : A) (lk : lossK) (h : heap) (p t : nat) : hres :=
  match lk with
  | KMse => doh (h1, pf) <- h_flatten h p 0%Z None; mse_compute h1 (Some pf) (Some t) None
  | KBce => doh (h1, pf) <- h_flatten h p 0%Z None; bce_compute eps ome h1 (Some pf) (Some t) None
  | KCe => ce_compute eps ome h (Some p) (Some t) None
  end.

Definition forward_loss (eps ome : A) (ak : actK) (lk : lossK) (h : heap) (w b x t : nat) : hres :=
  doh (h1, y) <- fc_forward h w b [Some x] None;
  doh (h2, a) <- act_forward ak h1 y;
  loss_forward eps ome lk h2 a t.

Definition train_iter (rd : bred) (eps ome lr : A) (ak : actK) (lk : lossK) (h : heap) (w b x t : nat)
  : heap * res (nat * nat) :=
  match forward_loss eps ome ak lk h w b x t with
  | (h1, Ok l) =>
      match bp_topo rd idseal h1 l with
      | (h2, _, Ok _) =>
          match sgd_update h2 lr (Some w) None with
          | (h3, Ok w') =>
              match sgd_update h3 lr (Some b) None with
              | (h4, Ok b') => (h_reset (h_reset h4 w' true) b' true, Ok (w', b'))
              | (h4, Err) => (h4, Err)
              | (h4, Panic) => (h4, Panic)
              end
          | (h3, Err) => (h3, Err)
          | (h3, Panic) => (h3, Panic)
          end
      | (h2, _, Err) => (h2, Err)
      | (h2, _, Panic) => (h2, Panic)
      end
  | (h1, Err) => (h1, Err)
  | (h1, Panic) => (h1, Panic)
  end.

(* the same loop body with the two ResetGradContext calls forgotten *)
Definition train_iter_noreset (rd : bred) (eps ome lr : A) (ak : actK) (lk : lossK) (h : heap) (w b x t : nat)
  : heap * res (nat * nat) :=
  match forward_loss eps ome ak lk h w b x t with
  | (h1, Ok l) =>
      match bp_topo rd idseal h1 l with
      | (h2, _, Ok _) =>
          match sgd_update h2 lr (Some w) None with
          | (h3, Ok w') =>
              match sgd_update h3 lr (Some b) None with
              | (h4, Ok b') => (h4, Ok (w', b'))
              | (h4, Err) => (h4, Err)
              | (h4, Panic) => (h4, Panic)
              end
          | (h3, Err) => (h3, Err)
          | (h3, Panic) => (h3, Panic)
          end
      | (h2, _, Err) => (h2, Err)
      | (h2, _, Panic) => (h2, Panic)
      end
  | (h1, Err) => (h1, Err)
  | (h1, Panic) => (h1, Panic)
  end.

Fixpoint train (rd : bred) (eps ome lr : A) (ak : actK) (lk : lossK) (h : heap) (w b : nat)
               (batches : list (nat * nat)) : heap * res (nat * nat) :=
  match batches with
  | [] => (h, Ok (w, b))
  | (x, t) :: rest =>
      match train_iter rd eps ome lr ak lk h w b x t with
      | (h', Ok (w', b')) => train rd eps ome lr ak lk h' w' b' rest
      | (h', Err) => (h', Err)
      | (h', Panic) => (h', Panic)
      end
  end.

(* the value of an optimizer step:  wv.Sub(g.Scale(lr)) *)
Definition sgd_val (lr : A) (wv g : T) : res T := dor delta <- v_unary (UScale lr) g; v_arith BiSub wv delta.

(* ================================================================== *)
(*  0'. small tools                                                    *)
(* ================================================================== *)

(* every observer of a node is a function of [nth_error] *)
Lemma acc_eq (h h' : heap) i j : nth_error h' j = nth_error h i ->
  valOf h' j = valOf h i /\ trackedOf h' j = trackedOf h i /\ dirtyOf h' j = dirtyOf h i /\
  gradOf h' j = gradOf h i /\ edgesOf h' j = edgesOf h i.
Proof. intros E. unfold valOf, trackedOf, dirtyOf, gradOf, edgesOf. rewrite E. repeat split. Qed.

Lemma ext_nth (h h' : heap) i : extends h h' -> i < length h -> nth_error h' i = nth_error h i.
Proof. intros [l ->] Hi. apply nth_error_app1. exact Hi. Qed.

Lemma fresh_lt (h : heap) w : fresh h w -> w < length h.
Proof. intros [Ht _]. apply trackedOf_true_lt. exact Ht. Qed.

Lemma fresh_of_nth (h : heap) w v nm : nth_error h w = Some (mkNode v true false None [] nm) -> fresh h w.
Proof. intros E. unfold fresh, trackedOf, dirtyOf, gradOf, edgesOf. rewrite E. cbn. auto. Qed.

Lemma hbind_ok (r : hres) (f : heap -> nat -> hres) h' id : hbind r f = (h', Ok id) ->
  exists h1 id1, r = (h1, Ok id1) /\ f h1 id1 = (h', Ok id).
Proof. destruct r as [h1 [id1| |]]; cbn [hbind]; intros E; [exists h1, id1; auto|discriminate|discriminate]. Qed.

Lemma atomically_ok (h0 : heap) (r : hres) h' id : atomically h0 r = (h', Ok id) -> r = (h', Ok id).
Proof. destruct r as [h1 [id1| |]]; cbn [atomically]; intros E; [exact E|discriminate|discriminate]. Qed.

Lemma okw_ok (h : heap) (hr : hres) h' id : okw h hr -> hr = (h', Ok id) ->
  extends h h' /\ length h <= id /\ S id = length h' /\ (hinv h -> hinv h').
Proof.
  intros (He & Hid & Hi) ->. cbn [fst snd] in *. destruct (Hid id eq_refl) as [L1 L2]. auto.
Qed.

(* ================================================================== *)
(*  1. the optimizer step                                              *)
(* ================================================================== *)

Theorem sgd_update_spec (h : heap) (lr : A) (w : nat) nm (wv g : T) :
  valOf h w = Some wv -> wf wv -> gradOf h w = Some g -> wf g -> dims g = dims wv ->
  exists v, sgd_update h lr (Some w) nm = (h ++ [mkNode v false true None [] nm], Ok (length h)) /\
    sgd_val lr wv g = Ok v /\ dims v = dims wv /\ wf v /\
    forall idx, validIdx (dims wv) idx ->
      exists a gx, get (data wv) idx = Some a /\ get (data g) idx = Some gx /\
                   get (data v) idx = Some (ssub a (smul lr gx)).
Proof.
  intros Hw Wwv Hg Wg Ed.
  destruct (v_unary_spec (UScale lr) g Wg) as (delta & Edl & Hdd & Wd & Hgd).
  destruct (CompP.v_arith_same_dims BiSub wv delta Wwv Wd ltac:(congruence)) as (r & Er & Hdr & Wr & Hgr).
  exists r. unfold sgd_update, sgd_val. rewrite Hw, Hg, Edl. cbn [res_bind]. rewrite Er. cbn [alloc].
  split; [reflexivity|]. split; [reflexivity|]. split; [exact Hdr|]. split; [exact Wr|].
  intros idx Hv. destruct (get_wf A _ _ _ (proj1 Wwv) Hv) as (a & Ea).
  assert (Hv' : validIdx (dims g) idx) by (rewrite Ed; exact Hv).
  destruct (get_wf A _ _ _ (proj1 Wg) Hv') as (gx & Egx).
  exists a, gx. split; [exact Ea|]. split; [exact Egx|].
  rewrite Hgr by exact Hv. rewrite Hgd by exact Hv'. rewrite Ea, Egx. reflexivity.
Qed.

Theorem sgd_update_nograd (h : heap) (lr : A) w nm wv :
  gradOf h w = None -> valOf h w = Some wv -> sgd_update h lr (Some w) nm = (h, Err).
Proof. intros Hg Hw. unfold sgd_update. rewrite Hw, Hg. reflexivity. Qed.

Theorem sgd_update_nil (h : heap) (lr : A) nm : sgd_update h lr None nm = (h, Err).
Proof. reflexivity. Qed.

(* a successful update, read backwards *)
Lemma sgd_ok_inv (h : heap) (lr : A) w nm h' id : sgd_update h lr (Some w) nm = (h', Ok id) ->
  exists wv g v, valOf h w = Some wv /\ gradOf h w = Some g /\ sgd_val lr wv g = Ok v /\
    h' = h ++ [mkNode v false true None [] nm] /\ id = length h.
Proof.
  unfold sgd_update, sgd_val. destruct (valOf h w) as [wv|]; [|discriminate].
  destruct (gradOf h w) as [g|]; [|discriminate].
  destruct (dor delta <- v_unary (UScale lr) g; v_arith BiSub wv delta) as [v| |] eqn:Ev; [|discriminate|discriminate].
  cbn [alloc]. intros E. inversion E; subst. exists wv, g, v. auto.
Qed.

Lemma sgd_result_spent (h : heap) (lr : A) w nm h' id : sgd_update h lr (Some w) nm = (h', Ok id) ->
  spentN h' id /\ extends h h' /\ id = length h /\ length h' = S (length h).
Proof.
  intros E. apply sgd_ok_inv in E as (wv & g & v & _ & _ & _ & -> & ->).
  split; [|split; [eexists; reflexivity|split; [reflexivity|rewrite app_length; cbn; lia]]].
  unfold spentN, trackedOf, dirtyOf, gradOf, edgesOf. rewrite nth_error_snoc_new. cbn. auto.
Qed.

(* ================================================================== *)
(*  2. ResetGradContext(true)                                          *)
(* ================================================================== *)

Theorem reset_fresh (h : heap) w : w < length h ->
  fresh (h_reset h w true) w /\
  length (h_reset h w true) = length h /\
  (forall i, valOf (h_reset h w true) i = valOf h i) /\
  (forall i, i <> w -> nth_error (h_reset h w true) i = nth_error h i).
Proof.
  intros Hw. destruct (h_reset_spec h w true) as (Hl & Hs & Ho & He).
  destruct (h_reset_flags h w true Hw) as (F1 & F2 & F3 & F4 & _).
  split; [unfold fresh; auto|]. split; [exact Hl|]. split; [|exact Ho].
  intros i. apply valOf_erase_eq. exact He.
Qed.

(* ================================================================== *)
(*  3. a spent operand poisons everything computed from it             *)
(* ================================================================== *)

Lemma spent_ext (h h' : heap) i : extends h h' -> dirtyOf h i = true -> dirtyOf h' i = true.
Proof.
  intros X D. pose proof (dirtyOf_true_lt h i D) as Hi.
  destruct (acc_eq h h' i i (ext_nth h h' i X Hi)) as (_ & _ & E & _). rewrite E. exact D.
Qed.

Definition poisoned (h : heap) (i : nat) : Prop := dirtyOf h i = true /\ trackedOf h i = false.

Lemma isolated_poisoned (h : heap) i : isolated h i -> poisoned h i.
Proof. intros H. destruct (isolated_flags h i H) as (H1 & H2 & _). split; assumption. Qed.

Lemma frame_ext (h : heap) (hr : hres) h' id : frame_ok h hr -> hr = (h', Ok id) -> extends h h'.
Proof. intros (He & _) ->. exact He. Qed.

Lemma d_op1 (h : heap) x f mk nm h' id : h_op1 h x f mk nm = (h', Ok id) ->
  extends h h' /\ (dirtyOf h x = true -> poisoned h' id).
Proof.
  intros E. split; [exact (frame_ext _ _ _ _ (h_op1_frame h x f mk nm) E)|].
  intros D. apply isolated_poisoned. eapply spent_op1; eauto.
Qed.

Lemma d_elsel (h : heap) b x u nm h' id : h_elsel h b x u nm = (h', Ok id) ->
  extends h h' /\ (dirtyOf h x = true \/ dirtyOf h u = true -> poisoned h' id).
Proof.
  intros E. split; [exact (frame_ext _ _ _ _ (h_elsel_frame h b x u nm) E)|].
  intros D. apply isolated_poisoned. eapply spent_elsel; eauto.
Qed.

Lemma d_arith (h : heap) b x u nm h' id : h_arith h b x u nm = (h', Ok id) ->
  extends h h' /\ (dirtyOf h x = true \/ dirtyOf h u = true -> poisoned h' id).
Proof.
  intros E. split; [exact (frame_ext _ _ _ _ (h_arith_frame h b x u nm) E)|].
  intros D. apply isolated_poisoned. eapply spent_arith; eauto.
Qed.

Lemma d_matmul (h : heap) x u nm h' id : h_matmul h x u nm = (h', Ok id) ->
  extends h h' /\ (dirtyOf h x = true \/ dirtyOf h u = true -> poisoned h' id).
Proof.
  intros E. split; [exact (frame_ext _ _ _ _ (h_matmul_frame h x u nm) E)|].
  intros D. apply isolated_poisoned. eapply spent_matmul; eauto.
Qed.

(* --- chains of tracked methods: invert one [hbind] at a time, push every known spent flag to
       the newest heap, and derive the spent flag of the new result when an operand is spent --- *)
Ltac dapply E :=
  first [ apply d_op1 in E | apply d_elsel in E | apply d_arith in E | apply d_matmul in E ].

Ltac dfact E :=
  dapply E;
  let X := fresh "X" in let D := fresh "D" in
  destruct E as [X D];
  try (match type of D with _ -> ?C => let N := fresh "N" in assert (N : C) by (apply D; auto); destruct N as [? ?] end);
  repeat match goal with F : dirtyOf ?h ?i = true |- _ =>
           match type of X with extends h _ => apply (spent_ext _ _ _ X) in F end end;
  clear D.

Ltac run E :=
  repeat (match type of E with hbind _ _ = _ => idtac end;
          let hh := fresh "hh" in let ii := fresh "ii" in let E1 := fresh "E" in
          apply hbind_ok in E; destruct E as (hh & ii & E1 & E); cbv beta in E; dfact E1);
  dfact E.

Lemma d_clip (h : heap) x lo up h' y : clip h x lo up = (h', Ok y) ->
  extends h h' /\ (dirtyOf h x = true -> poisoned h' y).
Proof.
  intros E. split; [exact (proj1 (okw_ok _ _ _ _ (okw_clip h x lo up) E))|].
  unfold clip in E. intros D. run E. split; assumption.
Qed.

Ltac dapply E ::=
  first [ apply d_op1 in E | apply d_elsel in E | apply d_arith in E | apply d_matmul in E | apply d_clip in E ].

Lemma d_fc (h : heap) w b x nm h' y : fc_forward h w b [Some x] nm = (h', Ok y) ->
  extends h h' /\ (dirtyOf h w = true \/ dirtyOf h b = true -> poisoned h' y).
Proof.
  intros E. split; [exact (proj1 (okw_ok _ _ _ _ (okw_fc_forward h w b [Some x] nm) E))|].
  unfold fc_forward in E. cbn [oneInput] in E.
  destruct (negb (rankOf h x =? 2)); [discriminate|]. apply atomically_ok in E.
  intros [Dw|Db]; run E; split; assumption.
Qed.

Lemma okw_act ak (h : heap) y : okw h (act_forward ak h y).
Proof.
  destruct ak; cbn [act_forward];
    [apply okw_relu|apply okw_leaky|apply okw_sigmoid|apply okw_tanh|apply okw_softmax].
Qed.

Lemma okw_loss eps ome lk (h : heap) p t : okw h (loss_forward eps ome lk h p t).
Proof.
  destruct lk; cbn [loss_forward].
  - apply okw_bind; [apply okw_flatten|]. intros h1 pf. apply okw_mse.
  - apply okw_bind; [apply okw_flatten|]. intros h1 pf. apply okw_bce.
  - apply okw_ce.
Qed.

Lemma forward_loss_okw eps ome ak lk (h : heap) w b x t : okw h (forward_loss eps ome ak lk h w b x t).
Proof.
  unfold forward_loss. apply okw_bind; [apply okw_fc_forward|]. intros h1 y.
  apply okw_bind; [apply okw_act|]. intros h2 a. apply okw_loss.
Qed.

Lemma d_act ak (h : heap) y h' a : act_forward ak h y = (h', Ok a) ->
  extends h h' /\ (dirtyOf h y = true -> poisoned h' a).
Proof.
  intros E. split; [exact (proj1 (okw_ok _ _ _ _ (okw_act ak h y) E))|].
  intros D. destruct ak as [|m| | |dim]; cbn [act_forward] in E.
  - unfold relu_forward in E. cbn [oneInput] in E. apply atomically_ok in E. run E. split; assumption.
  - unfold leaky_forward in E. cbn [oneInput] in E. apply atomically_ok in E. run E. split; assumption.
  - unfold sigmoid_forward in E. cbn [oneInput] in E. apply atomically_ok in E. run E. split; assumption.
  - unfold tanh_forward in E. cbn [oneInput] in E. run E. split; assumption.
  - unfold softmax_forward in E. cbn [oneInput] in E.
    destruct (rankOf h y <=? dim); [discriminate|]. apply atomically_ok in E. run E. split; assumption.
Qed.

Lemma lossArgs1_inv (h : heap) p t p' t' : lossArgs1 h (Some p) (Some t) = Some (p', t') -> p' = p /\ t' = t.
Proof.
  unfold lossArgs1. destruct ((rankOf h p =? 1) && (rankOf h t =? 1) && (dim0Of h p =? dim0Of h t)); [|discriminate].
  intros E. inversion E. auto.
Qed.

Lemma d_mse (h : heap) p t nm h' l : mse_compute h (Some p) (Some t) nm = (h', Ok l) ->
  dirtyOf h p = true -> poisoned h' l.
Proof.
  unfold mse_compute. destruct (lossArgs1 h (Some p) (Some t)) as [[p' t']|] eqn:EL; [|discriminate].
  apply lossArgs1_inv in EL as [-> ->]. intros E D. apply atomically_ok in E. run E. split; assumption.
Qed.

Lemma d_bce eps ome (h : heap) p t nm h' l : bce_compute eps ome h (Some p) (Some t) nm = (h', Ok l) ->
  dirtyOf h p = true -> poisoned h' l.
Proof.
  unfold bce_compute. destruct (lossArgs1 h (Some p) (Some t)) as [[p' t']|] eqn:EL; [|discriminate].
  apply lossArgs1_inv in EL as [-> ->]. intros E D. apply atomically_ok in E. run E. split; assumption.
Qed.

Lemma d_ce eps ome (h : heap) p t nm h' l : ce_compute eps ome h (Some p) (Some t) nm = (h', Ok l) ->
  dirtyOf h p = true -> poisoned h' l.
Proof.
  unfold ce_compute.
  destruct ((rankOf h p =? 2) && (rankOf h t =? 2) && (dim0Of h p =? dim0Of h t) && (dim1Of h p =? dim1Of h t)); [|discriminate].
  intros E D. apply atomically_ok in E. run E. split; assumption.
Qed.

Lemma d_loss eps ome lk (h : heap) p t h' l : loss_forward eps ome lk h p t = (h', Ok l) ->
  extends h h' /\ (dirtyOf h p = true -> poisoned h' l).
Proof.
  intros E. split; [exact (proj1 (okw_ok _ _ _ _ (okw_loss eps ome lk h p t) E))|].
  intros D. destruct lk; cbn [loss_forward] in E.
  - apply hbind_ok in E as (h1 & pf & E1 & E). dfact E1. eapply d_mse; eauto.
  - apply hbind_ok in E as (h1 & pf & E1 & E). dfact E1. eapply d_bce; eauto.
  - eapply d_ce; eauto.
Qed.

(* the three stages of a successful forward pass *)
Lemma forward_loss_inv eps ome ak lk (h : heap) w b x t h3 l :
  forward_loss eps ome ak lk h w b x t = (h3, Ok l) ->
  exists h1 y h2 a, fc_forward h w b [Some x] None = (h1, Ok y) /\ act_forward ak h1 y = (h2, Ok a) /\
                    loss_forward eps ome lk h2 a t = (h3, Ok l).
Proof.
  unfold forward_loss. intros E. apply hbind_ok in E as (h1 & y & E1 & E). apply hbind_ok in E as (h2 & a & E2 & E).
  exists h1, y, h2, a. auto.
Qed.

Theorem spent_forward_untracked eps ome ak lk (h : heap) w b x t h1 l :
  dirtyOf h w = true \/ dirtyOf h b = true ->
  forward_loss eps ome ak lk h w b x t = (h1, Ok l) ->
  trackedOf h1 l = false /\ dirtyOf h1 l = true /\
  forall rd sealg, bp_topo rd sealg h1 l = (h1, [], Ok tt).
Proof.
  intros D E. apply forward_loss_inv in E as (ha & y & hb & a & E1 & E2 & E3).
  apply d_fc in E1 as [_ P1]. destruct (P1 D) as [Dy _].
  apply d_act in E2 as [_ P2]. destruct (P2 Dy) as [Da _].
  apply d_loss in E3 as [_ P3]. destruct (P3 Da) as [Dl Tl].
  split; [exact Tl|]. split; [exact Dl|]. intros rd sealg. apply bp_untracked_root. exact Tl.
Qed.

(* ================================================================== *)
(*  4. a missing reset is an error of the next update                  *)
(* ================================================================== *)

(* back-propagation, whatever its outcome, seen from the nodes it does not reach *)
Lemma bp_step rd sealg (h1 : heap) l h2 log r : hinv h1 -> bp_topo rd sealg h1 l = (h2, log, r) ->
  length h2 = length h1 /\ (forall i, valOf h2 i = valOf h1 i) /\ (forall i, trackedOf h2 i = trackedOf h1 i) /\
  (forall i, edgesOf h2 i = edgesOf h1 i) /\
  (forall i, trackedOf h1 i = false -> dirtyOf h2 i = dirtyOf h1 i /\ gradOf h2 i = gradOf h1 i) /\
  hinv h2.
Proof.
  intros HI E. assert (HI2 : hinv h2) by (eapply bp_hinv; eauto).
  destruct (trackedOf h1 l) eqn:Tl.
  - pose proof (hinv_wf h1 HI) as W.
    destruct (bp_topo_frame rd sealg h1 l h2 log r W Tl E) as (L & _ & V & Tk & Ed & D & G).
    repeat (split; [assumption|]). split; [|exact HI2]. intros i Hi.
    assert (Hn : ~ In i (topoOrder h1 l)).
    { intros X. apply (topoOrder_tracked h1 l i W) in X. congruence. }
    split; [|apply G; exact Hn]. rewrite D. apply memb_false in Hn. rewrite Hn. cbn. apply orb_false_r.
  - rewrite bp_untracked_root in E by exact Tl. inversion E; subst.
    repeat (split; [reflexivity|]). split; [|exact HI2]. intros i _. split; reflexivity.
Qed.

(* with a spent weight or bias, and no gradient on the weight, the iteration stops at the weight
   update with an error: nothing is trained, the heap is the one the forward pass left *)
Theorem train_iter_spent rd eps ome lr ak lk (h : heap) w b x t h1 l :
  dirtyOf h w = true \/ dirtyOf h b = true -> gradOf h w = None ->
  forward_loss eps ome ak lk h w b x t = (h1, Ok l) ->
  bp_topo rd idseal h1 l = (h1, [], Ok tt) /\ gradOf h1 w = None /\
  (forall lr' nm, sgd_update h1 lr' (Some w) nm = (h1, Err)) /\
  train_iter rd eps ome lr ak lk h w b x t = (h1, Err) /\
  train_iter_noreset rd eps ome lr ak lk h w b x t = (h1, Err).
Proof.
  intros D G E. destruct (spent_forward_untracked eps ome ak lk h w b x t h1 l D E) as (Tl & Dl & Hbp).
  destruct (okw_ok _ _ _ _ (forward_loss_okw eps ome ak lk h w b x t) E) as (X & _ & _ & _).
  pose proof (forward_loss_inv _ _ _ _ _ _ _ _ _ _ _ E) as (ha & y & hb & a & E1 & _ & _).
  assert (Hw : exists wv, valOf h w = Some wv).
  { unfold fc_forward in E1. cbn [oneInput] in E1. destruct (negb (rankOf h x =? 2)); [discriminate|].
    apply atomically_ok in E1. apply hbind_ok in E1 as (hh & w1 & E1 & _).
    apply h_op1_inv in E1 as (wv & v & Hv & _). exists wv. exact Hv. }
  destruct Hw as (wv & Hw). pose proof (valOf_some_lt h w wv Hw) as Lw.
  destruct (acc_eq h h1 w w (ext_nth h h1 w X Lw)) as (Vw & _ & _ & Gw & _).
  rewrite G in Gw. rewrite Hw in Vw.
  assert (S : forall lr' nm, sgd_update h1 lr' (Some w) nm = (h1, Err)).
  { intros lr' nm. eapply sgd_update_nograd; eauto. }
  split; [apply Hbp|]. split; [exact Gw|]. split; [exact S|].
  unfold train_iter, train_iter_noreset. rewrite E, Hbp, S. split; reflexivity.
Qed.

(* in the terms of the loop: [w'] is what an update returned and nobody reset it *)
Theorem missing_reset_errors rd eps ome lr lr' ak lk (h : heap) w nm h3 w' b x t :
  sgd_update h lr (Some w) nm = (h3, Ok w') ->
  spentN h3 w' /\
  forall h4 l, forward_loss eps ome ak lk h3 w' b x t = (h4, Ok l) ->
    trackedOf h4 l = false /\
    bp_topo rd idseal h4 l = (h4, [], Ok tt) /\ gradOf h4 w' = None /\
    (forall nm', sgd_update h4 lr' (Some w') nm' = (h4, Err)) /\
    train_iter rd eps ome lr' ak lk h3 w' b x t = (h4, Err).
Proof.
  intros E. destruct (sgd_result_spent h lr w nm h3 w' E) as (Sp & _). split; [exact Sp|].
  intros h4 l EF. destruct Sp as (_ & Dw & Gw & _).
  destruct (train_iter_spent rd eps ome lr' ak lk h3 w' b x t h4 l (or_introl Dw) Gw EF) as (B & G & S & TI & _).
  destruct (spent_forward_untracked eps ome ak lk h3 w' b x t h4 l (or_introl Dw) EF) as (Tl & _).
  split; [exact Tl|]. split; [exact B|]. split; [exact G|]. split; [intros nm'; apply S|exact TI].
Qed.

(* ================================================================== *)
(*  5. one iteration                                                   *)
(* ================================================================== *)

(* the gradients the back-propagation of this iteration delivers to w and b *)
Definition delivers rd eps ome ak lk (h : heap) (w b x t : nat) (gW gB : T) : Prop :=
  exists h1 l h2 log, forward_loss eps ome ak lk h w b x t = (h1, Ok l) /\ trackedOf h1 l = true /\
     bp_topo rd idseal h1 l = (h2, log, Ok tt) /\ gradOf h2 w = Some gW /\ gradOf h2 b = Some gB.

(* [w'] in [h'] holds  (value of w in h) - lr * g *)
Definition sgd_step (lr : A) (h : heap) (w : nat) (g : T) (h' : heap) (w' : nat) : Prop :=
  exists wv v, valOf h w = Some wv /\ sgd_val lr wv g = Ok v /\ valOf h' w' = Some v.

Lemma delivers_fun rd eps ome ak lk (h : heap) w b x t gW gB gW' gB' :
  delivers rd eps ome ak lk h w b x t gW gB -> delivers rd eps ome ak lk h w b x t gW' gB' -> gW' = gW /\ gB' = gB.
Proof.
  intros (h1 & l & h2 & log & E1 & _ & E2 & G1 & G2) (h1' & l' & h2' & log' & E1' & _ & E2' & G1' & G2').
  rewrite E1 in E1'. inversion E1'; subst h1' l'. rewrite E2 in E2'. inversion E2'; subst h2' log'.
  split; congruence.
Qed.

(* the heap after the two updates and the two resets *)
Lemma final_heap (h2 : heap) (vW vB : T) nmW nmB :
  let HF := h_reset (h_reset ((h2 ++ [mkNode vW false true None [] nmW]) ++ [mkNode vB false true None [] nmB])
                             (length h2) true) (S (length h2)) true in
  length HF = S (S (length h2)) /\
  (forall i, i < length h2 -> nth_error HF i = nth_error h2 i) /\
  nth_error HF (length h2) = Some (mkNode vW true false None [] nmW) /\
  nth_error HF (S (length h2)) = Some (mkNode vB true false None [] nmB).
Proof.
  set (nW := mkNode vW false true None [] nmW). set (nB := mkNode vB false true None [] nmB).
  set (H4 := (h2 ++ [nW]) ++ [nB]). set (H5 := h_reset H4 (length h2) true). intros HF.
  destruct (h_reset_spec H4 (length h2) true) as (L5 & S5 & O5 & _). fold H5 in L5, S5, O5.
  destruct (h_reset_spec H5 (S (length h2)) true) as (LF & SF & OF & _). fold HF in LF, SF, OF.
  assert (L4 : length H4 = S (S (length h2))) by (unfold H4; rewrite !app_length; cbn; lia).
  assert (N4w : nth_error H4 (length h2) = Some nW).
  { unfold H4. rewrite nth_error_app1 by (rewrite app_length; cbn; lia). apply nth_error_snoc_new. }
  assert (N4b : nth_error H4 (S (length h2)) = Some nB).
  { unfold H4. replace (S (length h2)) with (length (h2 ++ [nW])) by (rewrite app_length; cbn; lia).
    apply nth_error_snoc_new. }
  split; [lia|]. split; [|split].
  - intros i Hi. rewrite OF by lia. rewrite O5 by lia. unfold H4.
    rewrite nth_error_app1 by (rewrite app_length; lia). apply nth_error_app1. exact Hi.
  - rewrite OF by lia. rewrite (S5 nW N4w). reflexivity.
  - assert (N5b : nth_error H5 (S (length h2)) = Some nB) by (rewrite O5 by lia; exact N4b).
    rewrite (SF nB N5b). reflexivity.
Qed.

Theorem iter_no_leak rd eps ome lr ak lk (h : heap) w b x t h' w' b' :
  hinv h -> fresh h w -> fresh h b ->
  train_iter rd eps ome lr ak lk h w b x t = (h', Ok (w', b')) ->
  (* the new weight and bias are clean trainable tensors, distinct, allocated by this iteration *)
  fresh h' w' /\ fresh h' b' /\ w' <> b' /\ length h <= w' /\ length h <= b' /\
  (* the heap invariant is kept *)
  hinv h' /\
  (* values never change *)
  (forall i, i < length h -> valOf h' i = valOf h i) /\
  (* data stay data *)
  (forall z, datum h z -> datum h' z) /\
  (* w' = w - lr * gW,  b' = b - lr * gB  for the gradients this back-propagation delivered *)
  exists gW gB, delivers rd eps ome ak lk h w b x t gW gB /\
                sgd_step lr h w gW h' w' /\ sgd_step lr h b gB h' b'.
Proof.
  intros HI Fw Fb E. unfold train_iter in E.
  destruct (forward_loss eps ome ak lk h w b x t) as [h1 [l| |]] eqn:EF; try discriminate.
  destruct (bp_topo rd idseal h1 l) as [[h2 log] [[]| |]] eqn:EB; try discriminate.
  destruct (sgd_update h2 lr (Some w) None) as [h3 [w1| |]] eqn:ES1; try discriminate.
  destruct (sgd_update h3 lr (Some b) None) as [h4 [b1| |]] eqn:ES2; try discriminate.
  inversion E; subst h' w' b'. clear E.
  destruct (okw_ok _ _ _ _ (forward_loss_okw eps ome ak lk h w b x t) EF) as (X1 & Ll & Sl & HI1).
  specialize (HI1 HI).
  destruct (bp_step rd idseal h1 l h2 log (Ok tt) HI1 EB) as (L2 & V2 & T2 & Ed2 & U2 & HI2).
  destruct (okw_ok _ _ _ _ (okw_sgd h2 lr (Some w) None) ES1) as (_ & _ & _ & HI3). specialize (HI3 HI2).
  destruct (okw_ok _ _ _ _ (okw_sgd h3 lr (Some b) None) ES2) as (_ & _ & _ & HI4). specialize (HI4 HI3).
  apply sgd_ok_inv in ES1 as (wv2 & gW & vW & Vw & Gw & Sw & -> & ->).
  apply sgd_ok_inv in ES2 as (bv2 & gB & vB & Vb & Gb & Sb & -> & ->).
  assert (Lb1 : length (h2 ++ [mkNode vW false true None [] None]) = S (length h2))
    by (rewrite app_length; cbn; lia).
  rewrite Lb1 in *.
  pose proof (extends_length _ _ X1) as L1.
  assert (A1 : length h2 <> S (length h2)) by lia.
  assert (A2 : length h <= length h2) by lia.
  assert (A3 : length h <= S (length h2)) by lia.
  destruct (final_heap h2 vW vB None None) as (LF & OF & NFw & NFb).
  set (HF := h_reset (h_reset ((h2 ++ [mkNode vW false true None [] None]) ++ [mkNode vB false true None [] None])
                              (length h2) true) (S (length h2)) true) in *.
  pose proof (fresh_lt h w Fw) as Lw. pose proof (fresh_lt h b Fb) as Lbb.
  (* every old node: h -> h1 by extension, h1 -> h2 by bp_step, h2 -> HF untouched *)
  assert (Old1 : forall i, i < length h -> nth_error h1 i = nth_error h i) by (intros i Hi; apply ext_nth; assumption).
  assert (OldF : forall i, i < length h -> nth_error HF i = nth_error h2 i) by (intros i Hi; apply OF; lia).
  assert (Val : forall i, i < length h -> valOf HF i = valOf h i).
  { intros i Hi. destruct (acc_eq h2 HF i i (OldF i Hi)) as (-> & _). rewrite V2.
    destruct (acc_eq h h1 i i (Old1 i Hi)) as (-> & _). reflexivity. }
  (* the weight had no gradient before: what it holds now was delivered by this back-propagation *)
  assert (Tl : trackedOf h1 l = true).
  { destruct (trackedOf h1 l) eqn:Tl; [reflexivity|exfalso].
    rewrite bp_untracked_root in EB by exact Tl. inversion EB; subst h2.
    destruct (acc_eq h h1 w w (Old1 w Lw)) as (_ & _ & _ & G & _). destruct Fw as (_ & _ & G0 & _). congruence. }
  assert (Gb2 : gradOf h2 b = Some gB).
  { rewrite <- Gb. unfold gradOf. rewrite nth_error_app1 by lia. reflexivity. }
  assert (Vw0 : valOf h w = Some wv2).
  { rewrite <- Vw, V2. destruct (acc_eq h h1 w w (Old1 w Lw)) as (-> & _). reflexivity. }
  assert (Vb0 : valOf h b = Some bv2).
  { rewrite <- Vb. unfold valOf at 2. rewrite nth_error_app1 by lia. fold (valOf h2 b). rewrite V2.
    destruct (acc_eq h h1 b b (Old1 b Lbb)) as (-> & _). reflexivity. }
  split; [eapply fresh_of_nth; exact NFw|]. split; [eapply fresh_of_nth; exact NFb|].
  split; [exact A1|]. split; [exact A2|]. split; [exact A3|].
  split.
  { destruct HI4 as [W4 O4]. split.
    - apply BackpropP.wf_heap_reset, BackpropP.wf_heap_reset. exact W4.
    - apply BackpropP.rules_own_reset, BackpropP.rules_own_reset. exact O4. }
  split; [exact Val|]. split.
  { intros z (Lz & Tz & Dz).
    destruct (acc_eq h h1 z z (Old1 z Lz)) as (_ & T1 & D1 & _).
    destruct (acc_eq h2 HF z z (OldF z Lz)) as (_ & TF & DF & _).
    assert (T1' : trackedOf h1 z = false) by congruence.
    destruct (U2 z T1') as [D2 _].
    split; [rewrite LF; clear - Lz A2; lia|]. split; [rewrite TF, T2; exact T1'|]. rewrite DF, D2, D1. exact Dz. }
  exists gW, gB. split.
  { exists h1, l, h2, log. auto. }
  split.
  - exists wv2, vW. split; [exact Vw0|]. split; [exact Sw|]. unfold valOf. rewrite NFw. reflexivity.
  - exists bv2, vB. split; [exact Vb0|]. split; [exact Sb|]. unfold valOf. rewrite NFb. reflexivity.
Qed.

(* the statement with the data hypotheses spelled out *)
Corollary iter_no_leak_data rd eps ome lr ak lk (h : heap) w b x t h' w' b' :
  hinv h -> fresh h w -> fresh h b -> datum h x -> datum h t ->
  train_iter rd eps ome lr ak lk h w b x t = (h', Ok (w', b')) ->
  fresh h' w' /\ fresh h' b' /\ datum h' x /\ datum h' t /\
  (forall i, i < length h -> valOf h' i = valOf h i) /\
  exists gW gB, delivers rd eps ome ak lk h w b x t gW gB /\
                sgd_step lr h w gW h' w' /\ sgd_step lr h b gB h' b'.
Proof.
  intros HI Fw Fb Dx Dt E.
  destruct (iter_no_leak rd eps ome lr ak lk h w b x t h' w' b' HI Fw Fb E) as (F1 & F2 & _ & _ & _ & _ & V & D & G).
  auto 10.
Qed.

(* forgetting the resets: the loop body still returns two tensors, but they are spent, and the next
   iteration (with or without resets) is an error at its first update, whatever the data *)
Theorem noreset_next_errors rd eps ome lr ak lk (h : heap) w b x t h' w' b' :
  train_iter_noreset rd eps ome lr ak lk h w b x t = (h', Ok (w', b')) ->
  spentN h' w' /\ spentN h' b' /\
  forall x2 t2 h1 l, forward_loss eps ome ak lk h' w' b' x2 t2 = (h1, Ok l) ->
    train_iter rd eps ome lr ak lk h' w' b' x2 t2 = (h1, Err) /\
    train_iter_noreset rd eps ome lr ak lk h' w' b' x2 t2 = (h1, Err).
Proof.
  intros E. unfold train_iter_noreset in E.
  destruct (forward_loss eps ome ak lk h w b x t) as [h1 [l| |]] eqn:EF; try discriminate.
  destruct (bp_topo rd idseal h1 l) as [[h2 log] [[]| |]] eqn:EB; try discriminate.
  destruct (sgd_update h2 lr (Some w) None) as [h3 [w1| |]] eqn:ES1; try discriminate.
  destruct (sgd_update h3 lr (Some b) None) as [h4 [b1| |]] eqn:ES2; try discriminate.
  inversion E; subst h' w' b'. clear E.
  destruct (sgd_result_spent _ _ _ _ _ _ ES1) as (Sw & _ & Ew & L3).
  destruct (sgd_result_spent _ _ _ _ _ _ ES2) as (Sb & X4 & Eb & L4).
  assert (Sw4 : spentN h4 w1).
  { assert (Lw : w1 < length h3) by lia.
    destruct (acc_eq h3 h4 w1 w1 (ext_nth h3 h4 w1 X4 Lw)) as (_ & a & b0 & c & d).
    destruct Sw as (S1 & S2 & S3 & S4). unfold spentN. rewrite a, b0, c, d. auto. }
  split; [exact Sw4|]. split; [exact Sb|].
  intros x2 t2 h5 l2 EF2. destruct Sw4 as (_ & Dw & Gw & _).
  destruct (train_iter_spent rd eps ome lr ak lk h4 w1 b1 x2 t2 h5 l2 (or_introl Dw) Gw EF2) as (_ & _ & _ & R1 & R2).
  split; assumption.
Qed.

(* ================================================================== *)
(*  6. any number of iterations                                        *)
(* ================================================================== *)

(* consecutive (heap, weight, bias) triples, each obtained from the previous one by one iteration
   on the next batch:  w_{k+1} = w_k - lr * G_k  with G_k delivered by the back-propagation of
   step k on the loss of batch k built from w_k, b_k *)
Inductive Traj (rd : bred) (eps ome lr : A) (ak : actK) (lk : lossK)
  : heap -> nat -> nat -> list (nat * nat) -> heap -> nat -> nat -> Prop :=
| Traj_nil h w b : Traj rd eps ome lr ak lk h w b [] h w b
| Traj_cons h w b x t rest h1 w1 b1 hE wE bE gW gB :
    train_iter rd eps ome lr ak lk h w b x t = (h1, Ok (w1, b1)) ->
    delivers rd eps ome ak lk h w b x t gW gB ->
    sgd_step lr h w gW h1 w1 -> sgd_step lr h b gB h1 b1 ->
    Traj rd eps ome lr ak lk h1 w1 b1 rest hE wE bE ->
    Traj rd eps ome lr ak lk h w b ((x, t) :: rest) hE wE bE.

Theorem train_trajectory rd eps ome lr ak lk batches : forall (h : heap) w b h' w' b',
  hinv h -> fresh h w -> fresh h b ->
  train rd eps ome lr ak lk h w b batches = (h', Ok (w', b')) ->
  Traj rd eps ome lr ak lk h w b batches h' w' b' /\
  fresh h' w' /\ fresh h' b' /\ hinv h' /\ length h <= length h' /\
  (forall i, i < length h -> valOf h' i = valOf h i) /\
  (forall z, datum h z -> datum h' z).
Proof.
  induction batches as [|[x t] rest IH]; intros h w b h' w' b' HI Fw Fb E.
  - cbn [train] in E. inversion E; subst. split; [constructor|]. repeat (split; [assumption|]).
    split; [lia|]. split; auto.
  - cbn [train] in E.
    destruct (train_iter rd eps ome lr ak lk h w b x t) as [h1 [[w1 b1]| |]] eqn:EI; try discriminate.
    destruct (iter_no_leak rd eps ome lr ak lk h w b x t h1 w1 b1 HI Fw Fb EI)
      as (F1 & F2 & _ & Lw1 & _ & HI1 & V1 & D1 & gW & gB & Dl & S1 & S2).
    destruct (IH h1 w1 b1 h' w' b' HI1 F1 F2 E) as (Tr & F1' & F2' & HI' & L' & V' & D').
    pose proof (fresh_lt h1 w1 F1) as Lw1'.
    split; [econstructor; eauto|]. repeat (split; [assumption|]).
    split; [lia|]. split.
    + intros i Hi. rewrite V' by lia. apply V1. exact Hi.
    + intros z Hz. apply D', D1, Hz.
Qed.

End TrainP.

(* ====================================================================================== *)
(*  PART II.  "weights keep their shapes": every gradient that back-propagation delivers   *)
(*  is a well-formed tensor of the shape of its node.                                      *)
(*                                                                                        *)
(*  [shp ds g]      g is well formed and has dims ds                                       *)
(*  [edge_ok]       a back edge is shape-sound (semantic, on every heap with these values) *)
(*  [sinv rd h]     hinv h, every value well formed, every edge shape-sound, every         *)
(*                  gradient present has the shape of its node                             *)
(*  [sinv_*]        each tracked method used by FC / activations / losses keeps [sinv]     *)
(*  [bp_sinv]       back-propagation keeps [sinv], whatever its outcome                    *)
(*  [iter_shapes], [train_trajectory_shapes]   the loop                                    *)
(* ====================================================================================== *)

(* ---------------- II.1 value level ---------------- *)
Section ShapeV.
Context {A : Type} {SA : Scalar A}.
Notation T := (tensor A).

Definition shp (ds : list nat) (g : T) : Prop := wf g /\ dims g = ds.

Lemma shp_self (t : T) : wf t -> shp (dims t) t.
Proof. intros W. split; [exact W|reflexivity]. Qed.

Lemma un_shp u (t r : T) ds : shp ds t -> v_unary u t = Ok r -> shp ds r.
Proof.
  intros [W D] E. destruct (v_unary_spec u t W) as (r' & E' & D' & W' & _).
  rewrite E' in E. inversion E; subst r'. split; [exact W'|congruence].
Qed.

Lemma ar_shp b (t u r : T) ds : shp ds t -> shp ds u -> v_arith b t u = Ok r -> shp ds r.
Proof.
  intros [Wt Dt] [Wu Du] E. destruct (CompP.v_arith_same_dims b t u Wt Wu ltac:(congruence)) as (r' & E' & D' & W' & _).
  rewrite E' in E. inversion E; subst r'. split; [exact W'|congruence].
Qed.

Lemma same_shp b (t u r : T) ds : shp ds t -> wf u -> v_same b t u = Ok r -> shp ds r /\ dims u = ds.
Proof.
  intros [Wt Dt] Wu E. destruct (v_same_spec b t u Wt Wu) as [H1 H2].
  destruct (list_eq_dec Nat.eq_dec (dims t) (dims u)) as [Eq|Ne].
  - destruct (H1 Eq) as (r' & E' & D' & W' & _). rewrite E' in E. inversion E; subst r'.
    split; [split; [exact W'|congruence]|congruence].
  - rewrite (H2 Ne) in E. discriminate.
Qed.

Lemma apply2_shp (f : A -> A -> A) (t u r : T) ds : shp ds t -> shp ds u -> apply2 f t u = Some r -> shp ds r.
Proof.
  intros [Wt Dt] [Wu Du] E. destruct (apply2_spec f t u Wt Wu ltac:(congruence)) as (r' & E' & D' & W' & _).
  rewrite E' in E. inversion E; subst r'. split; [exact W'|congruence].
Qed.

Lemma reshape_shp (t r : T) shape : wf t -> v_reshape t shape = Ok r -> shp (natsOf shape) r.
Proof.
  intros W E. destruct (v_reshape_spec A t shape W) as [H1 H2].
  destruct (validateInputDims shape && validateReshape (zdims t) shape).
  - destruct (H1 eq_refl) as (r' & E' & D' & W' & _). rewrite E' in E. inversion E; subst r'. split; assumption.
  - rewrite (H2 eq_refl) in E. discriminate.
Qed.

Lemma unsq_shp (t r : T) dim : wf t -> v_unsqueeze t dim = Ok r ->
  shp (unsqueezeDims (Z.to_nat dim) (dims t)) r /\ (0 <= dim <= Z.of_nat (length (dims t)))%Z.
Proof.
  intros W E. destruct (v_unsqueeze_spec A t dim W) as [H1 H2].
  destruct (validateUnSqueezeDim dim (zdims t)) eqn:V.
  - destruct (H1 eq_refl) as (r' & E' & D' & W' & _). rewrite E' in E. inversion E; subst r'.
    split; [split; assumption|]. apply validateUnSqueezeDim_iff. exact V.
  - rewrite (H2 eq_refl) in E. discriminate.
Qed.

Lemma flatten_shp (t r : T) dim : wf t -> v_flatten t dim = Ok r -> wf r.
Proof.
  intros W E. destruct (v_flatten_spec A t dim W) as [H1 H2].
  destruct (validateFlattenDim dim (zdims t)) eqn:V.
  - destruct (H1 eq_refl) as (r' & E' & D' & W' & _). rewrite E' in E. inversion E; subst r'. exact W'.
  - rewrite (H2 eq_refl) in E. discriminate.
Qed.

Lemma bc_shp (t r : T) shape : wf t -> v_broadcast t shape = Ok r ->
  shp (natsOf shape) r /\ bcompat (dims t) (natsOf shape).
Proof.
  intros W E. pose proof (v_broadcast_ok_inv t r shape W E) as (D & Wr & _).
  split; [split; assumption|].
  destruct (v_broadcast_spec A t shape W) as [H1 H2].
  destruct (validateInputDims shape && validateBroadcast (zdims t) shape) eqn:V.
  - apply validateBroadcast_shape_iff in V as (ns & -> & _ & Hc). rewrite natsOf_of_nat. exact Hc.
  - rewrite (H2 eq_refl) in E. discriminate.
Qed.

Lemma red_shp rd (t r : T) dim : wf t -> v_reduceAlong rd t dim = Ok r ->
  shp (squeezeDims (Z.to_nat dim) (dims t)) r /\ (0 <= dim < Z.of_nat (length (dims t)))%Z.
Proof.
  intros W E. destruct (v_reduceAlong_spec rd t dim W) as [H1 H2].
  destruct (Z_le_dec 0 dim) as [Ha|Ha]; [destruct (Z_lt_dec dim (Z.of_nat (length (dims t)))) as [Hb|Hb]|].
  - destruct (H1 (conj Ha Hb)) as (r' & E' & _ & D' & W'). rewrite E' in E. inversion E; subst r'.
    split; [split; assumption|lia].
  - rewrite H2 in E by lia. discriminate.
  - rewrite H2 in E by lia. discriminate.
Qed.

Lemma tr_shp (t r : T) : wf t -> v_transpose t = Ok r ->
  exists batch m n, dims t = batch ++ [m; n] /\ shp (batch ++ [n; m]) r.
Proof.
  intros W E. destruct (v_transpose_spec A t W) as [H1 H2].
  destruct (le_lt_dec 2 (length (dims t))) as [H|H].
  - destruct (H1 H) as (batch & m & n & r' & D & E' & D' & W' & _). rewrite E' in E. inversion E; subst r'.
    exists batch, m, n. split; [exact D|split; assumption].
  - rewrite (H2 H) in E. discriminate.
Qed.

Lemma mm_shp (t u r : T) : wf t -> wf u -> v_matmul t u = Ok r ->
  exists p1 p2 m n k, dims t = p1 ++ [m; n] /\ dims u = p2 ++ [n; k] /\ bcompat2 p1 p2 /\
    shp (targetBroadcastDims p1 p2 ++ [m; k]) r.
Proof.
  intros Wt Wu E. destruct (v_matmul_ok_iff t u Wt Wu) as [[H _] _].
  destruct (H (ex_intro _ r E)) as (p1 & p2 & m & n & k & E1 & E2 & Hc).
  destruct (v_matmul_spec t u Wt Wu) as (Hs & _). pose proof (Hs p1 p2 m n k E1 E2 Hc) as Hs'. cbv zeta in Hs'.
  destruct Hs' as (r' & E' & D' & W' & _). rewrite E' in E. inversion E; subst r'.
  exists p1, p2, m, n, k. split; [exact E1|]. split; [exact E2|]. split; [exact Hc|]. split; [exact W'|exact D'].
Qed.

(* equation-first variants, for proof search *)
Lemma un_shp' u (t r : T) ds : v_unary u t = Ok r -> shp ds t -> shp ds r.
Proof. intros E H. exact (un_shp u t r ds H E). Qed.
Lemma ar_shp' b (t u r : T) ds : v_arith b t u = Ok r -> shp ds t -> shp ds u -> shp ds r.
Proof. intros E H1 H2. exact (ar_shp b t u r ds H1 H2 E). Qed.
Lemma same_shp' b (t u r : T) ds : v_same b t u = Ok r -> shp ds t -> shp ds u -> shp ds r.
Proof. intros E H1 [H2 _]. exact (proj1 (same_shp b t u r ds H1 H2 E)). Qed.
Lemma toZeros_shp (t r : T) ds : toZeros t = Ok r -> shp ds t -> shp ds r.
Proof. apply un_shp'. Qed.

Lemma sq_at (pre : list nat) d l : squeezeDims (length pre) (pre ++ d :: l) = pre ++ l.
Proof. unfold squeezeDims. induction pre as [|a pre IH]; cbn; [reflexivity|]. f_equal. exact IH. Qed.
Lemma unsq_at (pre : list nat) l : unsqueezeDims (length pre) (pre ++ l) = pre ++ 1 :: l.
Proof. unfold unsqueezeDims. induction pre as [|a pre IH]; cbn; [destruct l; reflexivity|]. f_equal. exact IH. Qed.

(* ---- the Broadcast back edge returns a tensor of the source shape ---- *)
Lemma redAlong_shp rd (gy g : T) dim ds : shp ds gy -> redAlong rd gy dim = Ok g ->
  shp (squeezeDims (Z.to_nat dim) ds) g /\ (0 <= dim < Z.of_nat (length ds))%Z.
Proof. intros [W D] E. unfold redAlong in E. subst ds. eapply red_shp; eauto. Qed.

Lemma bcLead_shp rd : forall n (gy g : T) ds, shp ds gy -> bcLead rd n gy = Ok g -> shp (skipn n ds) g.
Proof.
  induction n as [|n IH]; intros gy g ds H E; cbn [bcLead] in E.
  - inversion E; subst. exact H.
  - destruct (redAlong rd gy 0%Z) as [g1| |] eqn:E1; cbn [res_bind] in E; try discriminate.
    destruct (redAlong_shp rd gy g1 0%Z ds H E1) as [H1 _]. cbn in H1.
    pose proof (IH g1 g _ H1 E) as H2. unfold squeezeDims in H2. cbn [firstn app] in H2.
    replace (skipn (S n) ds) with (skipn n (skipn 1 ds)); [exact H2|].
    destruct ds as [|a l]; [destruct n; reflexivity|reflexivity].
Qed.

Lemma bcDims_shp rd : forall src dst, Forall2 (fun s d => s = d \/ s = 1) src dst ->
  forall j (gy g : T) pre, length pre = j -> shp (pre ++ dst) gy -> bcDims rd j src dst gy = Ok g -> shp (pre ++ src) g.
Proof.
  induction 1 as [|s d src dst Hsd F IH]; intros j gy g pre Hj H E; cbn [bcDims] in E.
  - inversion E; subst. exact H.
  - destruct (s =? d) eqn:Esd; cbn [res_bind] in E.
    + apply Nat.eqb_eq in Esd. subst d.
      replace (pre ++ s :: src) with ((pre ++ [s]) ++ src) by (rewrite <- app_assoc; reflexivity).
      apply (IH (S j) gy g (pre ++ [s])); [rewrite app_length; cbn; lia| |exact E].
      rewrite <- app_assoc. exact H.
    + apply Nat.eqb_neq in Esd. destruct Hsd as [Hsd|Hsd]; [contradiction|]. subst s.
      destruct (redAlong rd gy (Z.of_nat j)) as [g1| |] eqn:E1; cbn [res_bind] in E; try discriminate.
      destruct (v_unsqueeze g1 (Z.of_nat j)) as [g2| |] eqn:E2; cbn [res_bind] in E; try discriminate.
      destruct (redAlong_shp rd gy g1 (Z.of_nat j) _ H E1) as [[W1 D1] _].
      rewrite Nat2Z.id in D1. subst j. rewrite sq_at in D1.
      destruct (unsq_shp g1 g2 _ W1 E2) as [[W2 D2] _]. rewrite Nat2Z.id, D1, unsq_at in D2.
      replace (pre ++ 1 :: src) with ((pre ++ [1]) ++ src) by (rewrite <- app_assoc; reflexivity).
      apply (IH (S (length pre)) g2 g (pre ++ [1])); [rewrite app_length; cbn; lia| |exact E].
      rewrite <- app_assoc. split; assumption.
Qed.

Lemma bcastBack_shp rd (gy g : T) src dst : shp dst gy -> bcompat src dst -> bcastBack rd gy src dst = Ok g -> shp src g.
Proof.
  intros H [Hl F] E. unfold bcastBack in E.
  destruct (bcLead rd (length dst - length src) gy) as [g1| |] eqn:E1; cbn [res_bind] in E; try discriminate.
  pose proof (bcLead_shp rd _ gy g1 dst H E1) as H1.
  apply (bcDims_shp rd src _ F 0 g1 g [] eq_refl H1 E).
Qed.

(* ---- the MatMul back edges ---- *)
Lemma mmA_shp (gy bv bt g : T) tb m n k : shp (tb ++ [m; k]) gy -> shp (tb ++ [n; k]) bv ->
  v_transpose bv = Ok bt -> v_matmul gy bt = Ok g -> shp (tb ++ [m; n]) g.
Proof.
  intros [Wg Dg] [Wb Db] Et Em.
  destruct (tr_shp bv bt Wb Et) as (batch & m' & n' & Db' & [Wt Dt]).
  rewrite Db in Db'. apply snoc2_inj in Db' as (<- & <- & <-).
  destruct (mm_shp gy bt g Wg Wt Em) as (p1 & p2 & m1 & n1 & k1 & D1 & D2 & _ & [Wr Dr]).
  rewrite Dg in D1. apply snoc2_inj in D1 as (<- & <- & <-).
  rewrite Dt in D2. apply snoc2_inj in D2 as (<- & _ & <-).
  rewrite targetBroadcastDims_same in Dr. split; assumption.
Qed.

Lemma mmB_shp (gy av at_ g : T) tb m n k : shp (tb ++ [m; k]) gy -> shp (tb ++ [m; n]) av ->
  v_transpose av = Ok at_ -> v_matmul at_ gy = Ok g -> shp (tb ++ [n; k]) g.
Proof.
  intros [Wg Dg] [Wa Da] Et Em.
  destruct (tr_shp av at_ Wa Et) as (batch & m' & n' & Da' & [Wt Dt]).
  rewrite Da in Da'. apply snoc2_inj in Da' as (<- & <- & <-).
  destruct (mm_shp at_ gy g Wt Wg Em) as (p1 & p2 & m1 & n1 & k1 & D1 & D2 & _ & [Wr Dr]).
  rewrite Dt in D1. apply snoc2_inj in D1 as (<- & <- & <-).
  rewrite Dg in D2. apply snoc2_inj in D2 as (<- & _ & <-).
  rewrite targetBroadcastDims_same in Dr. split; assumption.
Qed.

End ShapeV.

(* ---------------- II.2 the invariant and the tracked methods ---------------- *)
Section ShapeH.
Context {A : Type} {SA : Scalar A}.
Notation T := (tensor A).
Notation heap := (@heap A).
Notation node := (@node A).
Notation rule := (@rule A).
Notation hres := (@hres A).
Variable rd : bred.

Definition Dm (h : heap) (i : nat) : list nat := match valOf h i with Some v => dims v | None => [] end.

(* back edge e of node c is shape-sound: whenever the gradient of c (if any) has the shape of c,
   the rule, if it evaluates, returns a well-formed tensor of the shape of its target.  Only
   the values of nodes up to c matter. *)
Definition edge_ok (h : heap) (c : nat) (e : nat * rule) : Prop :=
  forall (hh : heap) g, (forall i, i <= c -> valOf hh i = valOf h i) ->
    (forall gy, gradOf hh c = Some gy -> shp (Dm h c) gy) ->
    eval_rule rd hh (snd e) = Ok g -> shp (Dm h (fst e)) g.

Definition sinv (h : heap) : Prop :=
  hinv h /\ (forall i v, valOf h i = Some v -> wf v) /\
  (forall c e, In e (edgesOf h c) -> edge_ok h c e) /\
  (forall i g, gradOf h i = Some g -> shp (Dm h i) g).

Lemma Dm_val (h : heap) i v : valOf h i = Some v -> Dm h i = dims v.
Proof. intros E. unfold Dm. rewrite E. reflexivity. Qed.

Lemma Dm_app (h l : heap) i : i < length h -> Dm (h ++ l) i = Dm h i.
Proof. intros Hi. unfold Dm. rewrite valOf_app by exact Hi. reflexivity. Qed.

Lemma edge_ok_ext (h l : heap) c e : edge_ok h c e -> c < length h -> fst e < length h -> edge_ok (h ++ l) c e.
Proof.
  intros H Hc He hh g Hv Hg E. rewrite Dm_app by exact He. apply (H hh g).
  - intros i Hi. rewrite Hv by exact Hi. apply valOf_app. lia.
  - intros gy Hgy. rewrite <- (Dm_app h l c Hc). apply Hg. exact Hgy.
  - exact E.
Qed.

Lemma nth_snoc_cases {X} (h : list X) n c n' : nth_error (h ++ [n]) c = Some n' ->
  (c < length h /\ nth_error h c = Some n') \/ (c = length h /\ n' = n).
Proof.
  intros E. destruct (Nat.lt_ge_cases c (length h)) as [Hlt|Hge].
  - left. split; [exact Hlt|]. rewrite nth_error_app1 in E by exact Hlt. exact E.
  - right. assert (c < length (h ++ [n])) by (apply nth_error_Some; congruence).
    rewrite app_length in H. cbn in H. assert (c = length h) by lia. subst c.
    rewrite nth_error_snoc_new in E. inversion E. auto.
Qed.

Lemma sinv_snoc (h : heap) (n : node) : sinv h -> wf (nval n) -> ngrad n = None ->
  (forall e, In e (nedges n) ->
     fst e < length h /\ BackpropP.rule_y (snd e) = length h /\ edge_ok (h ++ [n]) (length h) e) ->
  sinv (h ++ [n]).
Proof.
  intros ([W O] & Vw & Ek & Gk) Wn Gn Hn. split; [split|split; [|split]].
  - intros c n' e Hc He. apply nth_snoc_cases in Hc as [[Hlt Hc]|[-> ->]].
    + eapply W; eauto.
    + apply (Hn e He).
  - intros c n' e Hc He. apply nth_snoc_cases in Hc as [[Hlt Hc]|[-> ->]].
    + eapply O; eauto.
    + apply (Hn e He).
  - intros i v Hv. unfold valOf in Hv. destruct (nth_error (h ++ [n]) i) as [n'|] eqn:En; [|discriminate].
    cbn in Hv. inversion Hv; subst v. apply nth_snoc_cases in En as [[Hlt Hc]|[-> ->]]; [|exact Wn].
    apply (Vw i). unfold valOf. rewrite Hc. reflexivity.
  - intros c e He. unfold edgesOf in He. destruct (nth_error (h ++ [n]) c) as [n'|] eqn:En; [|destruct He].
    apply nth_snoc_cases in En as [[Hlt Hc]|[-> ->]]; [|apply (Hn e He)].
    assert (He' : In e (edgesOf h c)) by (unfold edgesOf; rewrite Hc; exact He).
    apply edge_ok_ext; [apply Ek; exact He'|exact Hlt|].
    pose proof (W c n' e Hc He). lia.
  - intros i g Hg. unfold gradOf in Hg. destruct (nth_error (h ++ [n]) i) as [n'|] eqn:En; [|discriminate].
    cbn in Hg. apply nth_snoc_cases in En as [[Hlt Hc]|[-> ->]]; [|congruence].
    rewrite Dm_app by exact Hlt. apply Gk. unfold gradOf. rewrite Hc. exact Hg.
Qed.

(* reading a rule evaluation backwards *)
Lemma gy_ok (hh : heap) y g : gy_of hh y = Ok g -> gradOf hh y = Some g.
Proof. unfold gy_of. destruct (gradOf hh y); cbn; intros E; inversion E; reflexivity. Qed.
Lemma val_ok (hh : heap) x v : val_of hh x = Ok v -> valOf hh x = Some v.
Proof. unfold val_of. destruct (valOf hh x); cbn; intros E; inversion E; reflexivity. Qed.

End ShapeH.

Ltac inv_res E :=
  repeat (cbn [res_bind] in E;
          match type of E with
          | res_bind ?r _ = Ok _ =>
              let t := fresh "t" in let Et := fresh "Et" in
              destruct r as [t| |] eqn:Et; [|discriminate E|discriminate E]
          end);
  cbn [res_bind] in E.

(* normalise [gy_of]/[val_of] equations against known values *)
Ltac norm_reads :=
  repeat match goal with
         | H : gy_of _ _ = Ok _ |- _ => apply gy_ok in H
         | H : val_of _ _ = Ok _ |- _ => apply val_ok in H
         end;
  repeat match goal with
         | H : valOf ?hh ?x = Some ?v, K : valOf ?hh ?x = Some ?w |- _ =>
             assert (v = w) by congruence; subst v; clear H
         end.

Section ShapeOps.
Context {A : Type} {SA : Scalar A}.
Notation T := (tensor A).
Notation heap := (@heap A).
Notation node := (@node A).
Notation rule := (@rule A).
Notation hres := (@hres A).
Variable rd : bred.

(* one-operand methods: the new value is well formed and the single back edge is shape-sound *)
Lemma sinv_op1 (h : heap) x f mk nm h' id :
  sinv rd h -> h_op1 h x f mk nm = (h', Ok id) ->
  BackpropP.rule_y (mk (length h)) = length h ->
  (forall xv v, valOf h x = Some xv -> wf xv -> f xv = Ok v ->
     wf v /\
     forall (hh : heap) g, valOf hh x = Some xv -> valOf hh (length h) = Some v ->
       (forall gy, gradOf hh (length h) = Some gy -> shp (dims v) gy) ->
       eval_rule rd hh (mk (length h)) = Ok g -> shp (dims xv) g) ->
  sinv rd h'.
Proof.
  intros S E Hy Hf. apply h_op1_inv in E as (xv & v & Hx & Hfv & -> & ->).
  pose proof (valOf_some_lt h x xv Hx) as Lx.
  destruct S as (HI & Vw & Ek & Gk). destruct (Hf xv v Hx (Vw x xv Hx) Hfv) as [Wv Hr].
  apply sinv_snoc; [split; [exact HI|split; [exact Vw|split; assumption]]|exact Wv|reflexivity|].
  intros e He. apply ctxNode_edges_incl in He. destruct He as [<-|[]]. cbn [fst snd].
  split; [exact Lx|]. split; [exact Hy|].
  intros hh g Hv Hg Ev. cbn [fst snd] in *.
  set (n := ctxNode v (mkCtx h [x] [(x, mk (length h))]) nm) in *.
  assert (Vn : valOf (h ++ [n]) (length h) = Some v) by (rewrite valOf_new; reflexivity).
  assert (Vx : valOf (h ++ [n]) x = Some xv) by (rewrite valOf_app by exact Lx; exact Hx).
  rewrite (Dm_val _ _ _ Vx). apply (Hr hh g).
  - rewrite Hv by lia. exact Vx.
  - rewrite Hv by lia. exact Vn.
  - intros gy Hgy. rewrite <- (Dm_val _ _ _ Vn). apply Hg. exact Hgy.
  - exact Ev.
Qed.

(* ---- shape soundness of the individual rules, on any heap [hh] ---- *)
Lemma rreshape_ok (hh : heap) y x xv ds g : valOf hh x = Some xv ->
  (forall gy, gradOf hh y = Some gy -> shp ds gy) -> eval_rule rd hh (RReshape y x) = Ok g -> shp (dims xv) g.
Proof.
  intros Vx Hg Ev. cbn [eval_rule] in Ev. inv_res Ev. norm_reads.
  destruct (Hg _ Et) as [Wt _]. pose proof (reshape_shp _ _ _ Wt Ev) as H.
  unfold zdims in H. rewrite natsOf_of_nat in H. exact H.
Qed.

Lemma redB_shp (gy xv g : T) dim : wf gy -> reducerBroadcasted gy xv dim = Ok g -> shp (dims xv) g.
Proof.
  intros Wg E. unfold reducerBroadcasted in E. inv_res E.
  destruct (unsq_shp gy t dim Wg Et) as [[Wt _] _].
  destruct (bc_shp t g _ Wt E) as [H _]. unfold zdims in H. rewrite natsOf_of_nat in H. exact H.
Qed.

Lemma rsum_ok (hh : heap) y x dim xv ds g : valOf hh x = Some xv ->
  (forall gy, gradOf hh y = Some gy -> shp ds gy) -> eval_rule rd hh (RSumAlong y x dim) = Ok g -> shp (dims xv) g.
Proof.
  intros Vx Hg Ev. cbn [eval_rule] in Ev. inv_res Ev. norm_reads.
  destruct (Hg _ Et) as [Wt _]. eapply redB_shp; eauto.
Qed.

Lemma ravg_ok (hh : heap) y x dim xv ds g : valOf hh x = Some xv ->
  (forall gy, gradOf hh y = Some gy -> shp ds gy) -> eval_rule rd hh (RAvgAlong y x dim) = Ok g -> shp (dims xv) g.
Proof.
  intros Vx Hg Ev. cbn [eval_rule] in Ev. inv_res Ev. norm_reads.
  destruct (Hg _ Et) as [Wt _]. eapply un_shp; [|exact Ev]. eapply redB_shp; eauto.
Qed.

Lemma sinv_unsqueeze (h : heap) x dim nm h' id : sinv rd h -> h_unsqueeze h x dim nm = (h', Ok id) -> sinv rd h'.
Proof.
  intros S E. eapply sinv_op1; [exact S|exact E|reflexivity|].
  intros xv v Hx Wx Hf. destruct (unsq_shp xv v dim Wx Hf) as [[Wv _] _]. split; [exact Wv|].
  intros hh g Vx Vy Hg Ev. eapply rreshape_ok; eauto.
Qed.

Lemma sinv_flatten (h : heap) x dim nm h' id : sinv rd h -> h_flatten h x dim nm = (h', Ok id) -> sinv rd h'.
Proof.
  intros S E. eapply sinv_op1; [exact S|exact E|reflexivity|].
  intros xv v Hx Wx Hf. split; [exact (flatten_shp xv v dim Wx Hf)|].
  intros hh g Vx Vy Hg Ev. eapply rreshape_ok; eauto.
Qed.

Lemma sinv_reduceAlong (h : heap) r x dim nm h' id : r = RdSum \/ r = RdAvg \/ r = RdMean ->
  sinv rd h -> h_reduceAlong h r x dim nm = (h', Ok id) -> sinv rd h'.
Proof.
  intros Hr S E. eapply sinv_op1; [exact S|exact E|destruct r; reflexivity|].
  intros xv v Hx Wx Hf. destruct (red_shp r xv v dim Wx Hf) as [[Wv _] _]. split; [exact Wv|].
  intros hh g Vx Vy Hg Ev.
  destruct Hr as [->|[->| ->]]; cbn [alongRule] in Ev; [eapply rsum_ok|eapply ravg_ok|eapply ravg_ok]; eauto.
Qed.

(* element-wise methods: every tensor in sight has the shape of the operand *)
Ltac elem := unfold toZeros, toOnes in *; eauto 12 using un_shp', ar_shp', same_shp'.

Lemma sinv_elem1 (h : heap) x (u : unary) mk nm h' id :
  BackpropP.rule_y (mk (length h)) = length h ->
  (forall (hh : heap) xv v g, valOf hh x = Some xv -> valOf hh (length h) = Some v ->
     shp (dims xv) xv -> shp (dims xv) v ->
     (forall gy, gradOf hh (length h) = Some gy -> shp (dims xv) gy) ->
     eval_rule rd hh (mk (length h)) = Ok g -> shp (dims xv) g) ->
  sinv rd h -> h_op1 h x (v_unary u) mk nm = (h', Ok id) -> sinv rd h'.
Proof.
  intros Hy Hr S E. eapply sinv_op1; [exact S|exact E|exact Hy|].
  intros xv v Hx Wx Hf. pose proof (un_shp u xv v _ (shp_self xv Wx) Hf) as [Wv Dv]. split; [exact Wv|].
  intros hh g Vx Vy Hg Ev. apply (Hr hh xv v g Vx Vy (shp_self xv Wx) (conj Wv Dv)); [|exact Ev].
  intros gy Hgy. rewrite <- Dv. apply Hg. exact Hgy.
Qed.

Lemma sinv_scale (h : heap) x a nm h' id : sinv rd h -> h_scale h x a nm = (h', Ok id) -> sinv rd h'.
Proof.
  apply sinv_elem1; [reflexivity|].
  intros hh xv v g Vx Vy Sx Sv Hg Ev. cbn [eval_rule] in Ev. inv_res Ev. norm_reads. pose proof (Hg _ Et). elem.
Qed.

Lemma sinv_pow (h : heap) x a az nm h' id : sinv rd h -> h_pow h x a az nm = (h', Ok id) -> sinv rd h'.
Proof.
  apply sinv_elem1; [reflexivity|].
  intros hh xv v g Vx Vy Sx Sv Hg Ev. cbn [eval_rule] in Ev. inv_res Ev. norm_reads. pose proof (Hg _ Et).
  destruct az; [elem|]. inv_res Ev. elem.
Qed.

Lemma sinv_math (h : heap) fn x nm h' id : sinv rd h -> h_math h fn x nm = (h', Ok id) -> sinv rd h'.
Proof.
  apply sinv_elem1; [destruct fn; reflexivity|].
  intros hh xv v g Vx Vy Sx Sv Hg Ev.
  destruct fn; cbn [mathRule eval_rule] in Ev; inv_res Ev; norm_reads;
    match goal with Et : gradOf hh (length h) = Some _ |- _ => pose proof (Hg _ Et) end; elem.
Qed.

(* Broadcast *)
Lemma sinv_broadcast (h : heap) x shape nm h' id : sinv rd h -> h_broadcast h x shape nm = (h', Ok id) -> sinv rd h'.
Proof.
  intros S E. eapply sinv_op1; [exact S|exact E|reflexivity|].
  intros xv v Hx Wx Hf. destruct (bc_shp xv v shape Wx Hf) as [[Wv Dv] Hc]. split; [exact Wv|].
  intros hh g Vx Vy Hg Ev. cbn [eval_rule] in Ev. inv_res Ev. norm_reads.
  eapply bcastBack_shp; [apply Hg; exact Et| |exact Ev]. rewrite Dv. exact Hc.
Qed.

(* two-operand nodes *)
Lemma sinv_op2 (h : heap) a1 a2 (v1 v2 v : T) es nm :
  sinv rd h -> valOf h a1 = Some v1 -> valOf h a2 = Some v2 -> wf v ->
  (forall e, In e es -> (fst e = a1 \/ fst e = a2) /\ BackpropP.rule_y (snd e) = length h /\
     forall (hh : heap) g, valOf hh a1 = Some v1 -> valOf hh a2 = Some v2 -> valOf hh (length h) = Some v ->
       (forall gy, gradOf hh (length h) = Some gy -> shp (dims v) gy) ->
       eval_rule rd hh (snd e) = Ok g -> shp (Dm h (fst e)) g) ->
  sinv rd (h ++ [ctxNode v (mkCtx h [a1; a2] es) nm]).
Proof.
  intros S V1 V2 Wv He.
  pose proof (valOf_some_lt h a1 v1 V1) as L1. pose proof (valOf_some_lt h a2 v2 V2) as L2.
  apply sinv_snoc; [exact S|exact Wv|reflexivity|].
  intros e Hin. apply ctxNode_edges_incl in Hin. destruct (He e Hin) as (Hf & Hy & Hr).
  assert (Lf : fst e < length h) by (destruct Hf as [-> | ->]; assumption).
  split; [exact Lf|]. split; [exact Hy|].
  set (n := ctxNode v (mkCtx h [a1; a2] es) nm).
  intros hh g Hv Hg Ev. rewrite Dm_app by exact Lf.
  assert (Vn : valOf (h ++ [n]) (length h) = Some v) by (rewrite valOf_new; reflexivity).
  apply (Hr hh g).
  - rewrite Hv by lia. rewrite valOf_app by exact L1. exact V1.
  - rewrite Hv by lia. rewrite valOf_app by exact L2. exact V2.
  - rewrite Hv by lia. exact Vn.
  - intros gy Hgy. rewrite <- (Dm_val _ _ _ Vn). apply Hg. exact Hgy.
  - exact Ev.
Qed.

Lemma sinv_elsel (h : heap) b x u nm h' id : sinv rd h -> h_elsel h b x u nm = (h', Ok id) -> sinv rd h'.
Proof.
  intros S E. apply h_elsel_inv in E as (xv & uv & v & Hx & Hu & Hf & -> & ->).
  pose proof S as (_ & Vw & _).
  pose proof (Vw x xv Hx) as Wx. pose proof (Vw u uv Hu) as Wu.
  destruct (same_shp b xv uv v _ (shp_self xv Wx) Wu Hf) as [Sv Du].
  assert (Sx : shp (dims xv) xv) by (apply shp_self; exact Wx).
  assert (Su : shp (dims xv) uv) by (split; assumption).
  apply (sinv_op2 h x u xv uv v); [exact S|exact Hx|exact Hu|exact (proj1 Sv)|].
  intros e [<-|[<-|[]]]; cbn [fst snd]; (split; [auto|]); (split; [reflexivity|]);
    intros hh g V1 V2 Vy Hg Ev; cbn [eval_rule] in Ev; inv_res Ev; norm_reads.
  - rewrite (Dm_val _ _ _ Hx). pose proof (Hg _ Et) as Sg. rewrite (proj2 Sv) in Sg. elem.
  - rewrite (Dm_val _ _ _ Hu), Du. pose proof (Hg _ Et) as Sg. rewrite (proj2 Sv) in Sg. elem.
Qed.

(* the two internal Broadcast nodes of a binary operator *)
Lemma bcast2_sinv (h : heap) x u s1 s2 h2 b1 b2 : sinv rd h -> u < length h -> h_bcast2 h x u s1 s2 = (h2, Ok (b1, b2)) ->
  sinv rd h2 /\ exists xv uv v1 v2, valOf h x = Some xv /\ valOf h u = Some uv /\
    v_broadcast xv s1 = Ok v1 /\ v_broadcast uv s2 = Ok v2 /\
    valOf h2 b1 = Some v1 /\ valOf h2 b2 = Some v2 /\ b1 < length h2 /\ b2 < length h2.
Proof.
  intros S Lu E. unfold h_bcast2 in E.
  destruct (h_broadcast h x s1 None) as [h1 [c1| |]] eqn:E1; try discriminate.
  destruct (h_broadcast h1 u s2 None) as [h2' [c2| |]] eqn:E2; try discriminate.
  inversion E; subst h2' c1 c2. clear E.
  pose proof (sinv_broadcast _ _ _ _ _ _ S E1) as S1. pose proof (sinv_broadcast _ _ _ _ _ _ S1 E2) as S2.
  split; [exact S2|].
  apply h_op1_inv in E1 as (xv & v1 & Hx & Hv1 & -> & ->).
  apply h_op1_inv in E2 as (uv & v2 & Hu & Hv2 & -> & ->).
  pose proof (valOf_some_lt h x xv Hx) as Lx.
  exists xv, uv, v1, v2. split; [exact Hx|]. split.
  { rewrite valOf_app in Hu by exact Lu. exact Hu. }
  split; [exact Hv1|]. split; [exact Hv2|].
  split; [rewrite valOf_app by (rewrite app_length; cbn; lia); rewrite valOf_new; reflexivity|].
  split; [rewrite valOf_new; reflexivity|]. rewrite !app_length. cbn. lia.
Qed.

Ltac grad_fact Hg Sg :=
  match goal with Eg : gradOf _ _ = Some ?gy |- _ => pose proof (Hg _ Eg) as Sg end.

Lemma sinv_arith (h : heap) b x u nm h' id : sinv rd h -> h_arith h b x u nm = (h', Ok id) -> sinv rd h'.
Proof.
  intros S E. unfold h_arith in E.
  destruct (valOf h x) as [xv|] eqn:Hx; [|discriminate]. destruct (valOf h u) as [uv|] eqn:Hu; [|discriminate].
  set (shape := map Z.of_nat (targetBroadcastDims (dims xv) (dims uv))) in E.
  unfold h_binop in E. destruct (h_bcast2 h x u shape shape) as [h2 [[b1 b2]| |]] eqn:EB; try discriminate.
  destruct (bcast2_sinv h x u shape shape h2 b1 b2 S (valOf_some_lt _ _ _ Hu) EB)
    as (S2 & xv' & uv' & v1 & v2 & Hx' & Hu' & B1 & B2 & V1 & V2 & L1 & L2).
  rewrite V1, V2 in E. destruct (apply2 (binaryF b) v1 v2) as [v|] eqn:Ef; [|discriminate].
  rewrite alloc_eq in E. inversion E; subst h' id. clear E.
  pose proof S as (_ & Vw & _).
  assert (xv' = xv) by congruence. assert (uv' = uv) by congruence. subst xv' uv'.
  destruct (bc_shp xv v1 shape (Vw _ _ Hx) B1) as [S1 _]. destruct (bc_shp uv v2 shape (Vw _ _ Hu) B2) as [Sv2 _].
  pose proof (apply2_shp _ v1 v2 v _ S1 Sv2 Ef) as Sv.
  apply (sinv_op2 h2 b1 b2 v1 v2 v); [exact S2|exact V1|exact V2|exact (proj1 Sv)|].
  intros e He.
  destruct b; cbn [arithEdges] in He; try contradiction; destruct He as [<-|[<-|[]]]; cbn [fst snd];
    (split; [auto|]); (split; [reflexivity|]);
    intros hh g W1 W2 Vy Hg Ev; cbn [eval_rule] in Ev; inv_res Ev; norm_reads; grad_fact Hg Sg;
    rewrite (proj2 Sv) in Sg;
    first [rewrite (Dm_val _ _ _ V1), (proj2 S1)|rewrite (Dm_val _ _ _ V2), (proj2 Sv2)]; elem.
Qed.

Lemma mmShape_l p1 p2 m n n' k :
  mmShape (targetBroadcastDims (p1 ++ [m; n]) (p2 ++ [n'; k])) (p1 ++ [m; n]) = targetBroadcastDims p1 p2 ++ [m; n].
Proof.
  rewrite tbd_snoc2. unfold mmShape. rewrite !app_length. cbn [length].
  replace (length (targetBroadcastDims p1 p2) + 2 - 2) with (length (targetBroadcastDims p1 p2)) by lia.
  replace (length p1 + 2 - 2) with (length p1) by lia.
  rewrite firstn_length_app, skipn_length_app. reflexivity.
Qed.

Lemma mmShape_r p1 p2 m n n' k :
  mmShape (targetBroadcastDims (p1 ++ [m; n]) (p2 ++ [n'; k])) (p2 ++ [n'; k]) = targetBroadcastDims p1 p2 ++ [n'; k].
Proof.
  rewrite tbd_snoc2. unfold mmShape. rewrite !app_length. cbn [length].
  replace (length (targetBroadcastDims p1 p2) + 2 - 2) with (length (targetBroadcastDims p1 p2)) by lia.
  replace (length p2 + 2 - 2) with (length p2) by lia.
  rewrite firstn_length_app, skipn_length_app. reflexivity.
Qed.

Lemma sinv_matmul (h : heap) x u nm h' id : sinv rd h -> h_matmul h x u nm = (h', Ok id) -> sinv rd h'.
Proof.
  intros S E. unfold h_matmul in E.
  destruct (valOf h x) as [xv|] eqn:Hx; [|discriminate]. destruct (valOf h u) as [uv|] eqn:Hu; [|discriminate].
  destruct (validateMatMulDims (zdims xv) (zdims uv)) eqn:V; [|discriminate].
  unfold zdims in V. apply validateMatMul_nat in V as (p1 & p2 & m & n & k & D1 & D2).
  set (s1 := map Z.of_nat (mmShape (targetBroadcastDims (dims xv) (dims uv)) (dims xv))) in E.
  set (s2 := map Z.of_nat (mmShape (targetBroadcastDims (dims xv) (dims uv)) (dims uv))) in E.
  unfold h_binop in E. destruct (h_bcast2 h x u s1 s2) as [h2 [[b1 b2]| |]] eqn:EB; try discriminate.
  destruct (bcast2_sinv h x u s1 s2 h2 b1 b2 S (valOf_some_lt _ _ _ Hu) EB)
    as (S2 & xv' & uv' & v1 & v2 & Hx' & Hu' & B1 & B2 & V1 & V2 & L1 & L2).
  rewrite V1, V2 in E. destruct (matMul v1 v2) as [v|] eqn:Ef; [|discriminate].
  rewrite alloc_eq in E. inversion E; subst h' id. clear E.
  pose proof S as (_ & Vw & _).
  assert (xv' = xv) by congruence. assert (uv' = uv) by congruence. subst xv' uv'.
  set (tb := targetBroadcastDims p1 p2).
  destruct (bc_shp xv v1 s1 (Vw _ _ Hx) B1) as [S1 _]. destruct (bc_shp uv v2 s2 (Vw _ _ Hu) B2) as [Sv2 _].
  unfold s1 in S1. unfold s2 in Sv2. rewrite natsOf_of_nat, D1, D2 in S1, Sv2.
  rewrite mmShape_l in S1. rewrite mmShape_r in Sv2. fold tb in S1, Sv2.
  destruct (matMul_spec v1 v2 tb m n k (proj1 S1) (proj1 Sv2) (proj2 S1) (proj2 Sv2)) as (r & Er & Dr & Wr & _).
  assert (r = v) by congruence. subst r.
  apply (sinv_op2 h2 b1 b2 v1 v2 v); [exact S2|exact V1|exact V2|exact Wr|].
  intros e [<-|[<-|[]]]; cbn [fst snd]; (split; [auto|]); (split; [reflexivity|]);
    intros hh g W1 W2 Vy Hg Ev; cbn [eval_rule] in Ev; inv_res Ev; norm_reads; grad_fact Hg Sg; rewrite Dr in Sg.
  - rewrite (Dm_val _ _ _ V1), (proj2 S1). eapply mmA_shp; eauto.
  - rewrite (Dm_val _ _ _ V2), (proj2 Sv2). eapply mmB_shp; eauto.
Qed.

End ShapeOps.

(* ---------------- II.3 back-propagation ---------------- *)
Section ShapeBp.
Context {A : Type} {SA : Scalar A}.
Notation T := (tensor A).
Notation heap := (@heap A).
Notation node := (@node A).
Notation rule := (@rule A).
Notation hres := (@hres A).
Notation idseal := (fun (_ : option nat) (g : T) => g).
Variable rd : bred.

(* hh has the values and edges of h, and every gradient it holds has the shape of its node *)
Definition Ginv (h hh : heap) : Prop :=
  (forall i, valOf hh i = valOf h i) /\ (forall i, edgesOf hh i = edgesOf h i) /\
  (forall i g, gradOf hh i = Some g -> shp (Dm h i) g).

Lemma Ginv_setGrad (h hh : heap) i g : Ginv h hh -> shp (Dm h i) g -> Ginv h (setGrad hh i (Some g)).
Proof.
  intros (V & E & G) Hg. split; [|split].
  - intros j. rewrite BackpropP.valOf_setGrad. apply V.
  - intros j. rewrite BackpropP.edgesOf_setGrad. apply E.
  - intros j g' Hj. rewrite BackpropP.gradOf_setGrad in Hj. destruct (j =? i) eqn:Eji.
    + apply Nat.eqb_eq in Eji. subst j. destruct (i <? length hh); [|discriminate]. inversion Hj; subst g'. exact Hg.
    + apply G. exact Hj.
Qed.

Lemma Ginv_accumulate (h hh : heap) i g hh' r : Ginv h hh -> shp (Dm h i) g ->
  accumulate hh i g = (hh', r) -> Ginv h hh'.
Proof.
  intros GI Hg E. unfold accumulate in E. destruct (gradOf hh i) as [g0|] eqn:E0.
  - destruct (v_arith BiAdd g0 g) as [s| |] eqn:Es; inversion E; subst; try exact GI.
    apply Ginv_setGrad; [exact GI|]. eapply ar_shp; [|exact Hg|exact Es]. destruct GI as (_ & _ & G). apply G. exact E0.
  - inversion E; subst. apply Ginv_setGrad; assumption.
Qed.

Lemma Ginv_edges (h : heap) c : (forall e, In e (edgesOf h c) -> edge_ok rd h c e) ->
  forall es, incl es (edgesOf h c) -> forall (hh : heap) r hh' r', Ginv h hh ->
  fold_left (process_edge rd c) es (hh, r) = (hh', r') -> Ginv h hh'.
Proof.
  intros Hok. induction es as [|e es IH]; intros Hin hh r hh' r' GI E; cbn [fold_left] in E.
  - inversion E; subst. exact GI.
  - destruct (process_edge rd c (hh, r) e) as [h1 r1] eqn:E1.
    apply (IH (fun x Hx => Hin x (or_intror Hx)) h1 r1 hh' r'); [|exact E].
    unfold process_edge in E1. destruct r as [u| |]; [|inversion E1; subst; exact GI|inversion E1; subst; exact GI].
    destruct (trackedOf hh (fst e)); [|inversion E1; subst; exact GI].
    destruct (eval_rule rd hh (snd e)) as [g| |] eqn:Ev; [|inversion E1; subst; exact GI|inversion E1; subst; exact GI].
    eapply Ginv_accumulate; [exact GI| |exact E1].
    destruct GI as (V & Ed & G). apply (Hok e (Hin e (or_introl eq_refl)) hh g).
    + intros i _. apply V.
    + intros gy Hgy. apply (G c gy Hgy).
    + exact Ev.
Qed.

Lemma Ginv_node (h : heap) : (forall c e, In e (edgesOf h c) -> edge_ok rd h c e) ->
  forall (hh : heap) log r c hh' log' r', Ginv h hh ->
  process_node rd idseal (hh, log, r) c = (hh', log', r') -> Ginv h hh'.
Proof.
  intros Hok hh log r c hh' log' r' GI E. unfold process_node in E.
  destruct r as [u| |]; [|inversion E; subst; exact GI|inversion E; subst; exact GI].
  destruct (nth_error hh c) as [n|] eqn:En; [|inversion E; subst; exact GI].
  destruct (ngrad n) as [g|] eqn:Eg; [|inversion E; subst; exact GI].
  destruct (fold_left (process_edge rd c) (nedges n) (setGrad hh c (Some g), Ok tt)) as [h2 r2] eqn:Ef.
  inversion E; subst hh' log' r'. clear E.
  assert (Hgc : gradOf hh c = Some g) by (unfold gradOf; rewrite En; exact Eg).
  assert (Hec : edgesOf hh c = nedges n) by (unfold edgesOf; rewrite En; reflexivity).
  pose proof GI as (V & Ed & G).
  eapply (Ginv_edges h c (Hok c) (nedges n)); [|apply Ginv_setGrad; [exact GI|apply (G c g Hgc)]|exact Ef].
  rewrite <- Hec, Ed. apply incl_refl.
Qed.

Lemma Ginv_nodes (h : heap) : (forall c e, In e (edgesOf h c) -> edge_ok rd h c e) ->
  forall l (hh : heap) log r hh' log' r', Ginv h hh ->
  fold_left (process_node rd idseal) l (hh, log, r) = (hh', log', r') -> Ginv h hh'.
Proof.
  intros Hok. induction l as [|c l IH]; intros hh log r hh' log' r' GI E; cbn [fold_left] in E.
  - inversion E; subst. exact GI.
  - destruct (process_node rd idseal (hh, log, r) c) as [[h1 log1] r1] eqn:E1.
    eapply IH; [|exact E]. eapply Ginv_node; eauto.
Qed.

(* back-propagation, whatever its outcome, keeps the shape invariant: in particular every
   gradient it delivers is a well-formed tensor of the shape of its node *)
Theorem bp_sinv (h : heap) root h' log r : sinv rd h -> bp_topo rd idseal h root = (h', log, r) -> sinv rd h'.
Proof.
  intros S E. pose proof S as (HI & Vw & Ek & Gk).
  assert (GI : Ginv h h').
  { assert (G0 : Ginv h h) by (split; [|split]; auto).
    unfold bp_topo in E. destruct (negb (trackedOf h root)); [inversion E; subst; exact G0|].
    set (order := topoOrder h root) in *. set (h1 := markDirty h order) in *.
    assert (G1 : Ginv h h1).
    { split; [|split].
      - intros i. apply BackpropP.valOf_markDirty.
      - intros i. apply BackpropP.edgesOf_markDirty.
      - intros i g Hg. unfold h1 in Hg. rewrite BackpropP.gradOf_markDirty in Hg. apply Gk. exact Hg. }
    destruct (valOf h1 root) as [rv|] eqn:Ev; [|inversion E; subst; exact G0].
    assert (Ev0 : valOf h root = Some rv) by (rewrite <- Ev; symmetry; apply (proj1 G1)).
    destruct (toOnes rv) as [ones| |] eqn:Eo; [|inversion E; subst; exact G1|inversion E; subst; exact G1].
    assert (So : shp (Dm h root) ones).
    { rewrite (Dm_val _ _ _ Ev0). eapply un_shp; [|exact Eo]. apply shp_self. eapply Vw; eauto. }
    destruct (accumulate h1 root ones) as [h2 r2] eqn:Ea.
    pose proof (Ginv_accumulate h h1 root ones h2 r2 G1 So Ea) as G2.
    destruct r2 as [u| |]; [|inversion E; subst; exact G2|inversion E; subst; exact G2].
    eapply Ginv_nodes; [exact Ek|exact G2|exact E]. }
  destruct GI as (V & Ed & G).
  assert (DmE : forall i, Dm h' i = Dm h i) by (intros i; unfold Dm; rewrite V; reflexivity).
  split; [eapply bp_hinv; eauto|]. split; [|split].
  - intros i v Hv. rewrite V in Hv. eapply Vw; eauto.
  - intros c e He. rewrite Ed in He. intros hh g Hv Hg Ev. rewrite DmE. apply (Ek c e He hh g).
    + intros i Hi. rewrite Hv by exact Hi. apply V.
    + intros gy Hgy. rewrite <- DmE. apply Hg. exact Hgy.
    + exact Ev.
  - intros i g Hg. rewrite DmE. apply G. exact Hg.
Qed.

End ShapeBp.

(* ---------------- II.4 the training loop ---------------- *)
Section ShapeLoop.
Context {A : Type} {SA : Scalar A}.
Notation T := (tensor A).
Notation heap := (@heap A).
Notation node := (@node A).
Notation rule := (@rule A).
Notation hres := (@hres A).
Notation idseal := (fun (_ : option nat) (g : T) => g).
Variable rd : bred.

(* ---- chains of tracked methods keep the shape invariant ---- *)
Definition oks (hr : hres) (h : heap) : Prop := forall h' id, hr = (h', Ok id) -> sinv rd h -> sinv rd h'.

Lemma oks_bind (h : heap) (r : hres) (f : heap -> nat -> hres) :
  oks r h -> (forall h1 id, oks (f h1 id) h1) -> oks (hbind r f) h.
Proof.
  intros H1 H2 h' id E S. apply hbind_ok in E as (h1 & id1 & E1 & E2).
  apply (H2 h1 id1 h' id E2). apply (H1 h1 id1 E1 S).
Qed.
Lemma oks_atomically (h0 h : heap) (r : hres) : oks r h -> oks (atomically h0 r) h.
Proof. intros H h' id E. apply atomically_ok in E. exact (H h' id E). Qed.
Lemma oks_fail (h0 h : heap) (r : res nat) : (forall id, r <> Ok id) -> oks (h0, r) h.
Proof. intros Hr h' id E. inversion E; subst. exfalso. eapply Hr; reflexivity. Qed.

Lemma oks_unsqueeze h x d nm : oks (h_unsqueeze h x d nm) h.
Proof. intros h' id E S. eapply sinv_unsqueeze; eauto. Qed.
Lemma oks_flatten h x d nm : oks (h_flatten h x d nm) h.
Proof. intros h' id E S. eapply sinv_flatten; eauto. Qed.
Lemma oks_sum h x d nm : oks (h_reduceAlong h RdSum x d nm) h.
Proof. intros h' id E S. exact (sinv_reduceAlong rd h RdSum x d nm h' id (or_introl eq_refl) S E). Qed.
Lemma oks_mean h x d nm : oks (h_reduceAlong h RdMean x d nm) h.
Proof. intros h' id E S. exact (sinv_reduceAlong rd h RdMean x d nm h' id (or_intror (or_intror eq_refl)) S E). Qed.
Lemma oks_scale h x a nm : oks (h_scale h x a nm) h.
Proof. intros h' id E S. eapply sinv_scale; eauto. Qed.
Lemma oks_pow h x a az nm : oks (h_pow h x a az nm) h.
Proof. intros h' id E S. eapply sinv_pow; eauto. Qed.
Lemma oks_math h f x nm : oks (h_math h f x nm) h.
Proof. intros h' id E S. eapply sinv_math; eauto. Qed.
Lemma oks_elsel h b x u nm : oks (h_elsel h b x u nm) h.
Proof. intros h' id E S. eapply sinv_elsel; eauto. Qed.
Lemma oks_arith h b x u nm : oks (h_arith h b x u nm) h.
Proof. intros h' id E S. eapply sinv_arith; eauto. Qed.
Lemma oks_matmul h x u nm : oks (h_matmul h x u nm) h.
Proof. intros h' id E S. eapply sinv_matmul; eauto. Qed.

Ltac schain :=
  repeat (apply oks_bind; [|intros ? ?]);
  first [apply oks_scale|apply oks_pow|apply oks_math|apply oks_unsqueeze|apply oks_matmul|apply oks_sum|apply oks_mean
        |apply oks_arith|apply oks_elsel|apply oks_flatten].

Lemma oks_fc h w b xs nm : oks (fc_forward h w b xs nm) h.
Proof.
  unfold fc_forward. destruct (oneInput xs) as [x|]; [|apply oks_fail; intros id; discriminate].
  destruct (negb (rankOf h x =? 2)); [apply oks_fail; intros id; discriminate|].
  apply oks_atomically. schain.
Qed.

Lemma oks_act ak h y : oks (act_forward ak h y) h.
Proof.
  destruct ak as [|m| | |dim]; cbn [act_forward].
  - unfold relu_forward. cbn [oneInput]. apply oks_atomically. schain.
  - unfold leaky_forward. cbn [oneInput]. apply oks_atomically. schain.
  - unfold sigmoid_forward. cbn [oneInput]. apply oks_atomically. schain.
  - unfold tanh_forward. cbn [oneInput]. apply oks_math.
  - unfold softmax_forward. cbn [oneInput].
    destruct (rankOf h y <=? dim); [apply oks_fail; intros id; discriminate|]. apply oks_atomically. schain.
Qed.

Lemma oks_clip h x l u : oks (clip h x l u) h.
Proof. unfold clip. schain. Qed.

Ltac schain2 :=
  repeat (apply oks_bind; [|intros ? ?]);
  first [apply oks_clip|apply oks_scale|apply oks_pow|apply oks_math|apply oks_sum|apply oks_mean|apply oks_arith|apply oks_elsel].

Lemma oks_mse h yp yt nm : oks (mse_compute h yp yt nm) h.
Proof.
  unfold mse_compute. destruct (lossArgs1 h yp yt) as [[p t]|]; [|apply oks_fail; intros id; discriminate].
  apply oks_atomically. schain2.
Qed.
Lemma oks_bce e1 e2 h yp yt nm : oks (bce_compute e1 e2 h yp yt nm) h.
Proof.
  unfold bce_compute. destruct (lossArgs1 h yp yt) as [[p t]|]; [|apply oks_fail; intros id; discriminate].
  apply oks_atomically. schain2.
Qed.
Lemma oks_ce e1 e2 h yp yt nm : oks (ce_compute e1 e2 h yp yt nm) h.
Proof.
  unfold ce_compute. destruct yp as [p|]; [|apply oks_fail; intros id; discriminate].
  destruct yt as [t|]; [|apply oks_fail; intros id; discriminate].
  match goal with |- context [if ?c then _ else _] => destruct c end; [|apply oks_fail; intros id; discriminate].
  apply oks_atomically. schain2.
Qed.

Lemma oks_loss eps ome lk h p t : oks (loss_forward eps ome lk h p t) h.
Proof.
  destruct lk; cbn [loss_forward].
  - apply oks_bind; [apply oks_flatten|]. intros h1 pf. apply oks_mse.
  - apply oks_bind; [apply oks_flatten|]. intros h1 pf. apply oks_bce.
  - apply oks_ce.
Qed.

Theorem forward_loss_sinv eps ome ak lk (h : heap) w b x t h1 l :
  sinv rd h -> forward_loss eps ome ak lk h w b x t = (h1, Ok l) -> sinv rd h1.
Proof.
  intros S E. revert h1 l E S. change (oks (forward_loss eps ome ak lk h w b x t) h).
  unfold forward_loss. apply oks_bind; [apply oks_fc|]. intros h1 y.
  apply oks_bind; [apply oks_act|]. intros h2 a. apply oks_loss.
Qed.

(* ---- the optimizer step and the resets ---- *)

(* v = wv - lr * g, element by element, for a gradient of the shape of wv *)
Definition upd_elem (lr : A) (wv g v : T) : Prop :=
  shp (dims wv) g /\ shp (dims wv) v /\
  forall idx, validIdx (dims wv) idx ->
    exists a gx, get (data wv) idx = Some a /\ get (data g) idx = Some gx /\
                 get (data v) idx = Some (ssub a (smul lr gx)).

Lemma sgd_val_spec (lr : A) (wv g v : T) : wf wv -> shp (dims wv) g -> sgd_val lr wv g = Ok v -> upd_elem lr wv g v.
Proof.
  intros Wwv [Wg Ed] E. unfold sgd_val in E.
  destruct (v_unary_spec (UScale lr) g Wg) as (delta & Edl & Hdd & Wd & Hgd). rewrite Edl in E. cbn [res_bind] in E.
  destruct (CompP.v_arith_same_dims BiSub wv delta Wwv Wd ltac:(congruence)) as (r & Er & Hdr & Wr & Hgr).
  rewrite Er in E. inversion E; subst r. split; [split; assumption|]. split; [split; assumption|].
  intros idx Hv. destruct (get_wf A _ _ _ (proj1 Wwv) Hv) as (a & Ea).
  assert (Hv' : validIdx (dims g) idx) by (rewrite Ed; exact Hv).
  destruct (get_wf A _ _ _ (proj1 Wg) Hv') as (gx & Egx).
  exists a, gx. split; [exact Ea|]. split; [exact Egx|].
  rewrite Hgr by exact Hv. rewrite Hgd by exact Hv'. rewrite Ea, Egx. reflexivity.
Qed.

Lemma sinv_noedge (h : heap) v tr di nm : sinv rd h -> wf v -> sinv rd (h ++ [mkNode v tr di None [] nm]).
Proof. intros S W. apply sinv_snoc; [exact S|exact W|reflexivity|intros e []]. Qed.

Lemma sinv_nil : sinv rd [].
Proof.
  split; [apply hinv_nil|]. split; [|split].
  - intros i v H. destruct i; discriminate.
  - intros c e H. destruct c; destruct H.
  - intros i g H. destruct i; discriminate.
Qed.

Lemma sinv_leaf (h : heap) v tr nm : sinv rd h -> wf v -> sinv rd (fst (leaf h v tr nm)).
Proof. intros S W. rewrite leaf_eq. cbn [fst]. apply sinv_noedge; assumption. Qed.

(* same values, fewer edges, fewer gradients *)
Lemma sinv_sub (h h' : heap) : sinv rd h -> hinv h' -> (forall i, valOf h' i = valOf h i) ->
  (forall c e, In e (edgesOf h' c) -> In e (edgesOf h c)) ->
  (forall i g, gradOf h' i = Some g -> gradOf h i = Some g) -> sinv rd h'.
Proof.
  intros (HI & Vw & Ek & Gk) HI' V Ed G.
  assert (DmE : forall i, Dm h' i = Dm h i) by (intros i; unfold Dm; rewrite V; reflexivity).
  split; [exact HI'|]. split; [|split].
  - intros i v Hv. rewrite V in Hv. eapply Vw; eauto.
  - intros c e He. apply Ed in He. intros hh g Hv Hg Ev. rewrite DmE. apply (Ek c e He hh g).
    + intros i Hi. rewrite Hv by exact Hi. apply V.
    + intros gy Hgy. rewrite <- DmE. apply Hg. exact Hgy.
    + exact Ev.
  - intros i g Hg. rewrite DmE. apply Gk. apply G. exact Hg.
Qed.

Lemma sinv_reset (h : heap) x tr : sinv rd h -> sinv rd (h_reset h x tr).
Proof.
  intros S. destruct (h_reset_spec h x tr) as (Hl & Hs & Ho & He).
  assert (Cases : forall i, nth_error (h_reset h x tr) i = nth_error h i \/
            exists n, i = x /\ nth_error h x = Some n /\
                      nth_error (h_reset h x tr) x = Some (mkNode (nval n) tr false None [] (nname n))).
  { intros i. destruct (Nat.eq_dec i x) as [->|Hne]; [|left; apply Ho; exact Hne].
    destruct (nth_error h x) as [n|] eqn:En.
    - right. exists n. split; [reflexivity|]. split; [reflexivity|]. apply Hs. reflexivity.
    - left. apply nth_error_None. rewrite Hl. apply nth_error_None. exact En. }
  apply (sinv_sub h); [exact S| | | |].
  - destruct S as ([W O] & _). split; [apply BackpropP.wf_heap_reset; exact W|apply BackpropP.rules_own_reset; exact O].
  - intros i. apply valOf_erase_eq. exact He.
  - intros c e Hin. destruct (Cases c) as [E|(n & -> & En & E)].
    + unfold edgesOf in *. rewrite E in Hin. exact Hin.
    + unfold edgesOf in Hin. rewrite E in Hin. destruct Hin.
  - intros i g Hg. destruct (Cases i) as [E|(n & -> & En & E)].
    + unfold gradOf in *. rewrite E in Hg. exact Hg.
    + unfold gradOf in Hg. rewrite E in Hg. discriminate.
Qed.

(* ---- one iteration, with shapes ---- *)
Theorem iter_shapes eps ome lr ak lk (h : heap) w b x t h' w' b' :
  sinv rd h -> fresh h w -> fresh h b ->
  train_iter rd eps ome lr ak lk h w b x t = (h', Ok (w', b')) ->
  sinv rd h' /\
  exists wv bv gW gB vW vB,
    valOf h w = Some wv /\ valOf h b = Some bv /\
    delivers rd eps ome ak lk h w b x t gW gB /\
    valOf h' w' = Some vW /\ valOf h' b' = Some vB /\
    upd_elem lr wv gW vW /\ upd_elem lr bv gB vB.
Proof.
  intros S Fw Fb E. pose proof S as (HI & _).
  destruct (iter_no_leak rd eps ome lr ak lk h w b x t h' w' b' HI Fw Fb E)
    as (_ & _ & _ & _ & _ & _ & _ & _ & gW & gB & Dl & (wv & vW & Vw & Sw & VW') & (bv & vB & Vb & Sb & VB')).
  pose proof Dl as (h1 & l & h2 & log & EF & Tl & EB & Gw & Gb).
  pose proof (forward_loss_sinv eps ome ak lk h w b x t h1 l S EF) as S1.
  pose proof (bp_sinv rd h1 l h2 log (Ok tt) S1 EB) as S2.
  destruct (okw_ok _ _ _ _ (forward_loss_okw eps ome ak lk h w b x t) EF) as (X1 & _ & _ & HI1).
  destruct (bp_step rd idseal h1 l h2 log (Ok tt) (HI1 HI) EB) as (L2 & V2 & _).
  pose proof (fresh_lt h w Fw) as Lw. pose proof (fresh_lt h b Fb) as Lb.
  assert (Vw2 : valOf h2 w = Some wv).
  { rewrite V2. destruct (acc_eq h h1 w w (ext_nth h h1 w X1 Lw)) as (-> & _). exact Vw. }
  assert (Vb2 : valOf h2 b = Some bv).
  { rewrite V2. destruct (acc_eq h h1 b b (ext_nth h h1 b X1 Lb)) as (-> & _). exact Vb. }
  pose proof S2 as (_ & Vwf & _ & Gk).
  pose proof (Gk w gW Gw) as SgW. rewrite (Dm_val _ _ _ Vw2) in SgW.
  pose proof (Gk b gB Gb) as SgB. rewrite (Dm_val _ _ _ Vb2) in SgB.
  pose proof (sgd_val_spec lr wv gW vW (Vwf _ _ Vw2) SgW Sw) as UW.
  pose proof (sgd_val_spec lr bv gB vB (Vwf _ _ Vb2) SgB Sb) as UB.
  split.
  - (* the final heap: two edge-free nodes appended to h2, then two resets *)
    unfold train_iter in E. rewrite EF, EB in E.
    destruct (sgd_update h2 lr (Some w) None) as [h3 [w1| |]] eqn:ES1; try discriminate.
    destruct (sgd_update h3 lr (Some b) None) as [h4 [b1| |]] eqn:ES2; try discriminate.
    inversion E; subst h' w' b'. clear E.
    apply sgd_ok_inv in ES1 as (wv2 & gW2 & vW2 & Vw' & Gw' & Sw' & -> & ->).
    assert (wv2 = wv) by congruence. assert (gW2 = gW) by congruence. subst wv2 gW2.
    assert (vW2 = vW) by congruence. subst vW2.
    pose proof (sinv_noedge h2 vW false true None S2 (proj1 (proj1 (proj2 UW)))) as S3.
    apply sgd_ok_inv in ES2 as (bv2 & gB2 & vB2 & Vb' & Gb' & Sb' & -> & ->).
    assert (Lb2 : b < length h2) by (rewrite L2; pose proof (extends_length _ _ X1); lia).
    rewrite valOf_app in Vb' by exact Lb2.
    unfold gradOf in Gb'. rewrite nth_error_app1 in Gb' by exact Lb2. fold (gradOf h2 b) in Gb'.
    assert (bv2 = bv) by congruence. assert (gB2 = gB) by congruence. subst bv2 gB2.
    assert (vB2 = vB) by congruence. subst vB2.
    pose proof (sinv_noedge _ vB false true None S3 (proj1 (proj1 (proj2 UB)))) as S4.
    apply sinv_reset, sinv_reset. exact S4.
  - exists wv, bv, gW, gB, vW, vB. split; [exact Vw|]. split; [exact Vb|]. split; [exact Dl|].
    split; [exact VW'|]. split; [exact VB'|]. split; [exact UW|exact UB].
Qed.

(* ---- any number of iterations, with shapes ---- *)
Inductive TrajE (eps ome lr : A) (ak : actK) (lk : lossK)
  : heap -> nat -> nat -> list (nat * nat) -> heap -> nat -> nat -> Prop :=
| TrajE_nil h w b : TrajE eps ome lr ak lk h w b [] h w b
| TrajE_cons h w b x t rest h1 w1 b1 hE wE bE gW gB wv bv vW vB :
    train_iter rd eps ome lr ak lk h w b x t = (h1, Ok (w1, b1)) ->
    delivers rd eps ome ak lk h w b x t gW gB ->
    valOf h w = Some wv -> valOf h b = Some bv -> valOf h1 w1 = Some vW -> valOf h1 b1 = Some vB ->
    upd_elem lr wv gW vW -> upd_elem lr bv gB vB ->
    TrajE eps ome lr ak lk h1 w1 b1 rest hE wE bE ->
    TrajE eps ome lr ak lk h w b ((x, t) :: rest) hE wE bE.

Theorem train_trajectory_shapes eps ome lr ak lk batches : forall (h : heap) w b h' w' b',
  sinv rd h -> fresh h w -> fresh h b ->
  train rd eps ome lr ak lk h w b batches = (h', Ok (w', b')) ->
  TrajE eps ome lr ak lk h w b batches h' w' b' /\ sinv rd h' /\ fresh h' w' /\ fresh h' b' /\
  exists wv bv wvE bvE, valOf h w = Some wv /\ valOf h b = Some bv /\
    valOf h' w' = Some wvE /\ valOf h' b' = Some bvE /\
    wf wvE /\ wf bvE /\ dims wvE = dims wv /\ dims bvE = dims bv.
Proof.
  induction batches as [|[x t] rest IH]; intros h w b h' w' b' S Fw Fb E.
  - cbn [train] in E. inversion E as [[Eh Ew Eb]]. subst h' w' b'.
    split; [constructor|]. split; [exact S|]. split; [exact Fw|]. split; [exact Fb|].
    destruct (lt_nth_some h w (fresh_lt _ _ Fw)) as [nw Hnw]. destruct (lt_nth_some h b (fresh_lt _ _ Fb)) as [nb Hnb].
    assert (Vw : valOf h w = Some (nval nw)) by (unfold valOf; rewrite Hnw; reflexivity).
    assert (Vb : valOf h b = Some (nval nb)) by (unfold valOf; rewrite Hnb; reflexivity).
    destruct S as (_ & Vwf & _).
    exists (nval nw), (nval nb), (nval nw), (nval nb).
    split; [exact Vw|]. split; [exact Vb|]. split; [exact Vw|]. split; [exact Vb|].
    split; [eapply Vwf; exact Vw|]. split; [eapply Vwf; exact Vb|]. split; reflexivity.
  - cbn [train] in E.
    destruct (train_iter rd eps ome lr ak lk h w b x t) as [h1 [[w1 b1]| |]] eqn:EI; try discriminate.
    destruct (iter_shapes eps ome lr ak lk h w b x t h1 w1 b1 S Fw Fb EI)
      as (S1 & wv & bv & gW & gB & vW & vB & Vw & Vb & Dl & VW1 & VB1 & UW & UB).
    destruct (iter_no_leak rd eps ome lr ak lk h w b x t h1 w1 b1 (proj1 S) Fw Fb EI) as (F1 & F2 & _).
    destruct (IH h1 w1 b1 h' w' b' S1 F1 F2 E)
      as (Tr & S' & F1' & F2' & wv1 & bv1 & wvE & bvE & Vw1 & Vb1 & VwE & VbE & WwE & WbE & DwE & DbE).
    assert (wv1 = vW) by congruence. assert (bv1 = vB) by congruence. subst wv1 bv1.
    split; [econstructor; eauto|]. split; [exact S'|]. split; [exact F1'|]. split; [exact F2'|].
    exists wv, bv, wvE, bvE. repeat (split; [assumption|]).
    destruct UW as (_ & [_ DW] & _). destruct UB as (_ & [_ DB] & _). split; congruence.
Qed.

End ShapeLoop.

(* ====================================================================================== *)
(*  PART III.  non-vacuity, on the throw-away [Scalar Z] of CompP.v                        *)
(* ====================================================================================== *)
Module TrainExamples.
Import CompExamples.
Local Open Scope nat_scope.

Definition mk1 (l : list Z) : tensor Z := mkT [length l] (Vec (map Sc l)).
Definition tW : tensor Z := mk1 [2; 3]%Z.
Definition tB : tensor Z := mk1 [10; 20]%Z.
Definition tX : tensor Z := mkT [1%nat; 3%nat] (Vec [Vec [Sc 1; Sc 2; Sc 3]])%Z.
Definition tT : tensor Z := mk1 [5; 7]%Z.
Definition tW1 : tensor Z := mk1 [2]%Z.
Definition tB1 : tensor Z := mk1 [10]%Z.
Definition tT1 : tensor Z := mk1 [5]%Z.
Lemma wf_tW : wf tW. Proof. split; [apply wfndb_spec; reflexivity|repeat constructor]. Qed.
Lemma wf_tB : wf tB. Proof. split; [apply wfndb_spec; reflexivity|repeat constructor]. Qed.
Lemma wf_tX : wf tX. Proof. split; [apply wfndb_spec; reflexivity|repeat constructor]. Qed.
Lemma wf_tT : wf tT. Proof. split; [apply wfndb_spec; reflexivity|repeat constructor]. Qed.
Lemma wf_tW1 : wf tW1. Proof. split; [apply wfndb_spec; reflexivity|repeat constructor]. Qed.
Lemma wf_tB1 : wf tB1. Proof. split; [apply wfndb_spec; reflexivity|repeat constructor]. Qed.
Lemma wf_tT1 : wf tT1. Proof. split; [apply wfndb_spec; reflexivity|repeat constructor]. Qed.

(* weight 0 and bias 1 as the initializers return them (tracked leaves); input 2 and target 3 *)
Definition mkHeap (w b x t : tensor Z) : @heap Z :=
  fst (leaf (fst (leaf (fst (leaf (fst (leaf [] w true None)) b true None)) x false None)) t false None).
Definition h0 : @heap Z := mkHeap tW tB tX tT.        (* FC with O = 2, x : [1,3] *)
Definition g0 : @heap Z := mkHeap tW1 tB1 tX tT1.     (* FC with O = 1: a non-zero integer gradient *)

(* a heap built by API calls satisfies the hypotheses of every theorem of this file *)
Lemma mkHeap_sinv rd w b x t : wf w -> wf b -> wf x -> wf t -> sinv rd (mkHeap w b x t).
Proof. intros Hw Hb Hx Ht. unfold mkHeap. repeat (apply sinv_leaf; [|assumption]). apply sinv_nil. Qed.

Lemma mkHeap_roles w b x t :
  fresh (mkHeap w b x t) 0 /\ fresh (mkHeap w b x t) 1 /\ datum (mkHeap w b x t) 2 /\ datum (mkHeap w b x t) 3.
Proof. unfold fresh, datum. cbn. repeat split; lia. Qed.

Example ex_sinv rd : sinv rd h0.
Proof. apply mkHeap_sinv; [apply wf_tW|apply wf_tB|apply wf_tX|apply wf_tT]. Qed.

(* 1. one iteration of FC([2]) -> Tanh -> MSE on x : [1,3] succeeds and yields fresh weights *)
Definition it1 := train_iter RedSum 0%Z 1%Z 1%Z KTanh KMse h0 0 1 2 3.

Example ex_iter_run : snd it1 = Ok (20, 21) /\ length (fst it1) = 22.
Proof. vm_compute. auto. Qed.

Example ex_iter_thm :
  exists h', train_iter RedSum 0%Z 1%Z 1%Z KTanh KMse h0 0 1 2 3 = (h', Ok (20, 21)) /\
    fresh h' 20 /\ fresh h' 21 /\ datum h' 2 /\ datum h' 3 /\ sinv RedSum h' /\
    exists vW vB, valOf h' 20 = Some vW /\ valOf h' 21 = Some vB /\ dims vW = [2] /\ dims vB = [2].
Proof.
  exists (fst it1).
  assert (E : train_iter RedSum 0%Z 1%Z 1%Z KTanh KMse h0 0 1 2 3 = (fst it1, Ok (20, 21))) by (vm_compute; reflexivity).
  destruct (mkHeap_roles tW tB tX tT) as (F0 & F1 & D2 & D3). fold h0 in F0, F1, D2, D3.
  destruct (iter_no_leak RedSum 0%Z 1%Z 1%Z KTanh KMse h0 0 1 2 3 _ _ _ (proj1 (ex_sinv RedSum)) F0 F1 E)
    as (A1 & A2 & _ & _ & _ & _ & _ & AD & _).
  destruct (iter_shapes RedSum 0%Z 1%Z 1%Z KTanh KMse h0 0 1 2 3 _ _ _ (ex_sinv RedSum) F0 F1 E)
    as (S & wv & bv & gW & gB & vW & vB & Vw & Vb & _ & VW & VB & (_ & [_ DW] & _) & (_ & [_ DB] & _)).
  split; [exact E|]. split; [exact A1|]. split; [exact A2|]. split; [apply AD; exact D2|]. split; [apply AD; exact D3|].
  split; [exact S|]. exists vW, vB. split; [exact VW|]. split; [exact VB|].
  change (Some tW = Some wv) in Vw. change (Some tB = Some bv) in Vb. inversion Vw; subst wv. inversion Vb; subst bv.
  split; [exact DW|exact DB].
Qed.

(* 2. the update really is  w - lr * g : O = 1, Relu, MSE, lr = 3;  dLoss/dw = 204, dLoss/db = 34 *)
Definition it2 := train_iter RedSum 0%Z 1%Z 3%Z KRelu KMse g0 0 1 2 3.

Example ex_update :
  snd it2 = Ok (21, 22) /\
  valOf (fst it2) 21 = Some (mk1 [2 - 3 * 204]%Z) /\ valOf (fst it2) 22 = Some (mk1 [10 - 3 * 34]%Z) /\
  fresh (fst it2) 21 /\ fresh (fst it2) 22 /\
  (* the spent tensors of this step keep their gradients and flags; they are not used again *)
  gradOf (fst it2) 0 = Some (mk1 [204]%Z) /\ gradOf (fst it2) 1 = Some (mk1 [34]%Z) /\
  dirtyOf (fst it2) 0 = true /\ dirtyOf (fst it2) 1 = true /\
  (* the old values are still there *)
  valOf (fst it2) 0 = Some tW1 /\ valOf (fst it2) 1 = Some tB1.
Proof. vm_compute. repeat split. Qed.

(* 3. three steps: the trajectory theorem applies, shapes are kept *)
Example ex_train :
  exists h' w' b', train RedSum 0%Z 1%Z 3%Z KRelu KMse g0 0 1 [(2, 3); (2, 3); (2, 3)] = (h', Ok (w', b')) /\
    TrajE RedSum 0%Z 1%Z 3%Z KRelu KMse g0 0 1 [(2, 3); (2, 3); (2, 3)] h' w' b' /\
    fresh h' w' /\ fresh h' b' /\
    exists wvE bvE, valOf h' w' = Some wvE /\ valOf h' b' = Some bvE /\ dims wvE = [1] /\ dims bvE = [1].
Proof.
  destruct (train RedSum 0%Z 1%Z 3%Z KRelu KMse g0 0 1 [(2, 3); (2, 3); (2, 3)]) as [h' [[w' b']| |]] eqn:E;
    [|vm_compute in E; discriminate|vm_compute in E; discriminate].
  exists h', w', b'. split; [reflexivity|].
  destruct (mkHeap_roles tW1 tB1 tX tT1) as (F0 & F1 & _). fold g0 in F0, F1.
  assert (S : sinv RedSum g0) by (apply mkHeap_sinv; [apply wf_tW1|apply wf_tB1|apply wf_tX|apply wf_tT1]).
  destruct (train_trajectory_shapes RedSum 0%Z 1%Z 3%Z KRelu KMse _ g0 0 1 h' w' b' S F0 F1 E)
    as (Tr & _ & F0' & F1' & wv & bv & wvE & bvE & Vw & Vb & VwE & VbE & _ & _ & DW & DB).
  split; [exact Tr|]. split; [exact F0'|]. split; [exact F1'|].
  exists wvE, bvE. split; [exact VwE|]. split; [exact VbE|].
  change (Some tW1 = Some wv) in Vw. change (Some tB1 = Some bv) in Vb. inversion Vw; subst wv. inversion Vb; subst bv.
  split; [exact DW|exact DB].
Qed.

(* 4. the reset forgotten: the loop body returns spent tensors, the next iteration is an error
      raised by the update of the weight (the loss is untracked, back-propagation does nothing) *)
Definition nr := train_iter_noreset RedSum 0%Z 1%Z 3%Z KRelu KMse g0 0 1 2 3.

Example ex_noreset :
  snd nr = Ok (21, 22) /\ spentN (fst nr) 21 /\ spentN (fst nr) 22 /\
  snd (train_iter RedSum 0%Z 1%Z 3%Z KRelu KMse (fst nr) 21 22 2 3) = Err /\
  snd (train_iter_noreset RedSum 0%Z 1%Z 3%Z KRelu KMse (fst nr) 21 22 2 3) = Err /\
  exists h1 l, forward_loss 0%Z 1%Z KRelu KMse (fst nr) 21 22 2 3 = (h1, Ok l) /\ trackedOf h1 l = false /\
               bp_topo RedSum (fun _ g => g) h1 l = (h1, [], Ok tt) /\
               sgd_update h1 3%Z (Some 21) None = (h1, Err).
Proof.
  split; [vm_compute; reflexivity|]. split; [vm_compute; auto|]. split; [vm_compute; auto|].
  split; [vm_compute; reflexivity|]. split; [vm_compute; reflexivity|].
  eexists (fst (forward_loss 0%Z 1%Z KRelu KMse (fst nr) 21 22 2 3)), 39. vm_compute. auto.
Qed.

(* the same through the theorem *)
Example ex_noreset_thm x2 t2 h1 l :
  forward_loss 0%Z 1%Z KRelu KMse (fst nr) 21 22 x2 t2 = (h1, Ok l) ->
  train_iter RedSum 0%Z 1%Z 3%Z KRelu KMse (fst nr) 21 22 x2 t2 = (h1, Err).
Proof.
  assert (E : train_iter_noreset RedSum 0%Z 1%Z 3%Z KRelu KMse g0 0 1 2 3 = (fst nr, Ok (21, 22))) by (vm_compute; reflexivity).
  destruct (noreset_next_errors RedSum 0%Z 1%Z 3%Z KRelu KMse g0 0 1 2 3 _ _ _ E) as (_ & _ & H).
  intros EF. apply (H x2 t2 h1 l EF).
Qed.

End TrainExamples.

Print Assumptions sgd_update_spec.
Print Assumptions sgd_update_nograd.
Print Assumptions reset_fresh.
Print Assumptions spent_forward_untracked.
Print Assumptions train_iter_spent.
Print Assumptions missing_reset_errors.
Print Assumptions noreset_next_errors.
Print Assumptions iter_no_leak.
Print Assumptions train_trajectory.
Print Assumptions bp_sinv.
Print Assumptions forward_loss_sinv.
Print Assumptions iter_shapes.
Print Assumptions train_trajectory_shapes.
Print Assumptions TrainExamples.ex_iter_thm.
Print Assumptions TrainExamples.ex_train.
