(* TrainP.v — property C11: the training loop as a state machine.

   forward pass (FC -> activation -> loss), back-propagation, SGD update of weight and bias,
   ResetGradContext(true) on the two new tensors; repeated over a list of batches.

   1. [sgd_update_spec], [sgd_update_nograd], [sgd_update_nil]      the optimizer step, w - lr * g
   2. [reset_fresh]                                                 ResetGradContext(true)
   3. [spent_forward_untracked]                                     a spent weight/bias poisons the loss
   4. [missing_reset_errors], [train_iter_spent], [noreset_next_errors]
   5. [iter_no_leak]                                                one iteration
   6. [train_trajectory]                                            any number of iterations ([Traj])
   7. examples on the throw-away [Scalar Z] of CompP

   Everything is generic in the scalar type; the heap hypothesis is [hinv] of StepP.v (back edges
   point at older tensors and every rule stored at node c reads the gradient of c), which holds in
   every heap reachable by API calls ([StepP.reachable_hinv]). *)
From Coq Require Import List Arith ZArith Bool Lia.
From Qeep Require Import Model.Scalar Model.Nd Model.Fill Model.Data Model.Valid Model.Api Model.Grad
     Model.Backprop Model.Components.
From Qeep Require Import Proofs.NdP Proofs.ElemP Proofs.TrackP Proofs.DfsP Proofs.BpFlagsP Proofs.CompP Proofs.StepP.
From Qeep Require Proofs.BackpropP.
Import ListNotations.

Notation "'doh' ( h , x ) <- a ; b" := (hbind a (fun h x => b)) (at level 200, h name, x name, a at level 100, b at level 200).

Section TrainP.
Context {A : Type} {SA : Scalar A}.
Notation T := (tensor A).
Notation heap := (@heap A).
Notation node := (@node A).
Notation rule := (@rule A).
Notation hres := (@hres A).
Notation idseal := (fun (_ : option nat) (g : T) => g).

(* ================================================================== *)
(*  0. definitions                                                     *)
(* ================================================================== *)

(* a trainable tensor ready for a forward pass *)
Definition fresh (h : heap) (w : nat) : Prop :=
  trackedOf h w = true /\ dirtyOf h w = false /\ gradOf h w = None /\ edgesOf h w = [].
(* what an optimizer update returns: computed from a (spent) gradient tensor *)
Definition spentN (h : heap) (w : nat) : Prop :=
  trackedOf h w = false /\ dirtyOf h w = true /\ gradOf h w = None /\ edgesOf h w = [].
(* an input / target tensor of the data set (an existing tensor: [x < length h] is needed,
   otherwise an id allocated later would be a datum vacuously) *)
Definition datum (h : heap) (x : nat) : Prop :=
  x < length h /\ trackedOf h x = false /\ dirtyOf h x = false.

Inductive actK := KRelu | KLeaky (m : A) | KSigmoid | KTanh | KSoftmax (dim : nat).
Inductive lossK := KMse | KBce | KCe.

Definition act_forward (ak : actK) (h : heap) (y : nat) : hres :=
  match ak with
  | KRelu => relu_forward h [Some y] None
  | KLeaky m => leaky_forward h m [Some y] None
  | KSigmoid => sigmoid_forward h [Some y] None
  | KTanh => tanh_forward h [Some y] None
  | KSoftmax d => softmax_forward h d [Some y] None
  end.

(* MSE and BCE take rank-1 arguments: the [B,O] prediction is flattened; CE takes it as it is *)
Definition loss_forward (eps ome : A) (lk : lossK) (h : heap) (p t : nat) : hres :=
  match lk with
  | KMse => doh (h1, pf) <- h_flatten h p 0%Z None; mse_compute h1 (Some pf) (Some t) None
  | KBce => doh (h1, pf) <- h_flatten h p 0%Z None; bce_compute eps ome h1 (Some pf) (Some t) None
  | KCe => ce_compute eps ome h (Some p) (Some t) None
  end.

Definition forward_loss (eps ome : A) (ak : actK) (lk : lossK) (h : heap) (w b x t : nat) : hres :=
  doh (h1, y) <- fc_forward h w b [Some x] None;
  doh (h2, a) <- act_forward ak h1 y;
  loss_forward eps ome lk h2 a t.

Definition train_iter (rd : bred) (eps ome lr : A) (ak : actK) (lk : lossK) (h : heap) (w b x t : nat)
  : heap * res (nat * nat) :=
  match forward_loss eps ome ak lk h w b x t with
  | (h1, Ok l) =>
      match bp_topo rd idseal h1 l with
      | (h2, _, Ok _) =>
          match sgd_update h2 lr (Some w) None with
          | (h3, Ok w') =>
              match sgd_update h3 lr (Some b) None with
              | (h4, Ok b') => (h_reset (h_reset h4 w' true) b' true, Ok (w', b'))
              | (h4, Err) => (h4, Err)
              | (h4, Panic) => (h4, Panic)
              end
          | (h3, Err) => (h3, Err)
          | (h3, Panic) => (h3, Panic)
          end
      | (h2, _, Err) => (h2, Err)
      | (h2, _, Panic) => (h2, Panic)
      end
  | (h1, Err) => (h1, Err)
  | (h1, Panic) => (h1, Panic)
  end.

(* the same loop body with the two ResetGradContext calls forgotten *)
Definition train_iter_noreset (rd : bred) (eps ome lr : A) (ak : actK) (lk : lossK) (h : heap) (w b x t : nat)
  : heap * res (nat * nat) :=
  match forward_loss eps ome ak lk h w b x t with
  | (h1, Ok l) =>
      match bp_topo rd idseal h1 l with
      | (h2, _, Ok _) =>
          match sgd_update h2 lr (Some w) None with
          | (h3, Ok w') =>
              match sgd_update h3 lr (Some b) None with
              | (h4, Ok b') => (h4, Ok (w', b'))
              | (h4, Err) => (h4, Err)
              | (h4, Panic) => (h4, Panic)
              end
          | (h3, Err) => (h3, Err)
          | (h3, Panic) => (h3, Panic)
          end
      | (h2, _, Err) => (h2, Err)
      | (h2, _, Panic) => (h2, Panic)
      end
  | (h1, Err) => (h1, Err)
  | (h1, Panic) => (h1, Panic)
  end.

Fixpoint train (rd : bred) (eps ome lr : A) (ak : actK) (lk : lossK) (h : heap) (w b : nat)
               (batches : list (nat * nat)) : heap * res (nat * nat) :=
  match batches with
  | [] => (h, Ok (w, b))
  | (x, t) :: rest =>
      match train_iter rd eps ome lr ak lk h w b x t with
      | (h', Ok (w', b')) => train rd eps ome lr ak lk h' w' b' rest
      | (h', Err) => (h', Err)
      | (h', Panic) => (h', Panic)
      end
  end.

(* the value of an optimizer step:  wv.Sub(g.Scale(lr)) *)
Definition sgd_val (lr : A) (wv g : T) : res T := dor delta <- v_unary (UScale lr) g; v_arith BiSub wv delta.

(* ================================================================== *)
(*  0'. small tools                                                    *)
(* ================================================================== *)

(* every observer of a node is a function of [nth_error] *)
Lemma acc_eq (h h' : heap) i j : nth_error h' j = nth_error h i ->
  valOf h' j = valOf h i /\ trackedOf h' j = trackedOf h i /\ dirtyOf h' j = dirtyOf h i /\
  gradOf h' j = gradOf h i /\ edgesOf h' j = edgesOf h i.
Proof. intros E. unfold valOf, trackedOf, dirtyOf, gradOf, edgesOf. rewrite E. repeat split. Qed.

Lemma ext_nth (h h' : heap) i : extends h h' -> i < length h -> nth_error h' i = nth_error h i.
Proof. intros [l ->] Hi. apply nth_error_app1. exact Hi. Qed.

Lemma fresh_lt (h : heap) w : fresh h w -> w < length h.
Proof. intros [Ht _]. apply trackedOf_true_lt. exact Ht. Qed.

Lemma fresh_of_nth (h : heap) w v nm : nth_error h w = Some (mkNode v true false None [] nm) -> fresh h w.
Proof. intros E. unfold fresh, trackedOf, dirtyOf, gradOf, edgesOf. rewrite E. cbn. auto. Qed.

Lemma hbind_ok (r : hres) (f : heap -> nat -> hres) h' id : hbind r f = (h', Ok id) ->
  exists h1 id1, r = (h1, Ok id1) /\ f h1 id1 = (h', Ok id).
Proof. destruct r as [h1 [id1| |]]; cbn [hbind]; intros E; [exists h1, id1; auto|discriminate|discriminate]. Qed.

Lemma atomically_ok (h0 : heap) (r : hres) h' id : atomically h0 r = (h', Ok id) -> r = (h', Ok id).
Proof. destruct r as [h1 [id1| |]]; cbn [atomically]; intros E; [exact E|discriminate|discriminate]. Qed.

Lemma okw_ok (h : heap) (hr : hres) h' id : okw h hr -> hr = (h', Ok id) ->
  extends h h' /\ length h <= id /\ S id = length h' /\ (hinv h -> hinv h').
Proof.
  intros (He & Hid & Hi) ->. cbn [fst snd] in *. destruct (Hid id eq_refl) as [L1 L2]. auto.
Qed.

(* ================================================================== *)
(*  1. the optimizer step                                              *)
(* ================================================================== *)

Theorem sgd_update_spec (h : heap) (lr : A) (w : nat) nm (wv g : T) :
  valOf h w = Some wv -> wf wv -> gradOf h w = Some g -> wf g -> dims g = dims wv ->
  exists v, sgd_update h lr (Some w) nm = (h ++ [mkNode v false true None [] nm], Ok (length h)) /\
    sgd_val lr wv g = Ok v /\ dims v = dims wv /\ wf v /\
    forall idx, validIdx (dims wv) idx ->
      exists a gx, get (data wv) idx = Some a /\ get (data g) idx = Some gx /\
                   get (data v) idx = Some (ssub a (smul lr gx)).
Proof.
  intros Hw Wwv Hg Wg Ed.
  destruct (v_unary_spec (UScale lr) g Wg) as (delta & Edl & Hdd & Wd & Hgd).
  destruct (v_arith_same_dims BiSub wv delta Wwv Wd ltac:(congruence)) as (r & Er & Hdr & Wr & Hgr).
  exists r. unfold sgd_update, sgd_val. rewrite Hw, Hg, Edl. cbn [res_bind]. rewrite Er. cbn [alloc].
  split; [reflexivity|]. split; [reflexivity|]. split; [exact Hdr|]. split; [exact Wr|].
  intros idx Hv. destruct (get_wf A _ _ _ (proj1 Wwv) Hv) as (a & Ea).
  assert (Hv' : validIdx (dims g) idx) by (rewrite Ed; exact Hv).
  destruct (get_wf A _ _ _ (proj1 Wg) Hv') as (gx & Egx).
  exists a, gx. split; [exact Ea|]. split; [exact Egx|].
  rewrite Hgr by exact Hv. rewrite Hgd by exact Hv'. rewrite Ea, Egx. reflexivity.
Qed.

Theorem sgd_update_nograd (h : heap) (lr : A) w nm wv :
  gradOf h w = None -> valOf h w = Some wv -> sgd_update h lr (Some w) nm = (h, Err).
Proof. intros Hg Hw. unfold sgd_update. rewrite Hw, Hg. reflexivity. Qed.

Theorem sgd_update_nil (h : heap) (lr : A) nm : sgd_update h lr None nm = (h, Err).
Proof. reflexivity. Qed.

(* a successful update, read backwards *)
Lemma sgd_ok_inv (h : heap) (lr : A) w nm h' id : sgd_update h lr (Some w) nm = (h', Ok id) ->
  exists wv g v, valOf h w = Some wv /\ gradOf h w = Some g /\ sgd_val lr wv g = Ok v /\
    h' = h ++ [mkNode v false true None [] nm] /\ id = length h.
Proof.
  unfold sgd_update, sgd_val. destruct (valOf h w) as [wv|]; [|discriminate].
  destruct (gradOf h w) as [g|]; [|discriminate].
  destruct (dor delta <- v_unary (UScale lr) g; v_arith BiSub wv delta) as [v| |] eqn:Ev; [|discriminate|discriminate].
  cbn [alloc]. intros E. inversion E; subst. exists wv, g, v. auto.
Qed.

Lemma sgd_result_spent (h : heap) (lr : A) w nm h' id : sgd_update h lr (Some w) nm = (h', Ok id) ->
  spentN h' id /\ extends h h' /\ id = length h /\ length h' = S (length h).
Proof.
  intros E. apply sgd_ok_inv in E as (wv & g & v & _ & _ & _ & -> & ->).
  split; [|split; [eexists; reflexivity|split; [reflexivity|rewrite app_length; cbn; lia]]].
  unfold spentN, trackedOf, dirtyOf, gradOf, edgesOf. rewrite nth_error_snoc_new. cbn. auto.
Qed.

(* ================================================================== *)
(*  2. ResetGradContext(true)                                          *)
(* ================================================================== *)

Theorem reset_fresh (h : heap) w : w < length h ->
  fresh (h_reset h w true) w /\
  length (h_reset h w true) = length h /\
  (forall i, valOf (h_reset h w true) i = valOf h i) /\
  (forall i, i <> w -> nth_error (h_reset h w true) i = nth_error h i).
Proof.
  intros Hw. destruct (h_reset_spec h w true) as (Hl & Hs & Ho & He).
  destruct (h_reset_flags h w true Hw) as (F1 & F2 & F3 & F4 & _).
  split; [unfold fresh; auto|]. split; [exact Hl|]. split; [|exact Ho].
  intros i. apply valOf_erase_eq. exact He.
Qed.

(* ================================================================== *)
(*  3. a spent operand poisons everything computed from it             *)
(* ================================================================== *)

Lemma spent_ext (h h' : heap) i : extends h h' -> dirtyOf h i = true -> dirtyOf h' i = true.
Proof.
  intros X D. pose proof (dirtyOf_true_lt h i D) as Hi.
  destruct (acc_eq h h' i i (ext_nth h h' i X Hi)) as (_ & _ & E & _). rewrite E. exact D.
Qed.

Definition poisoned (h : heap) (i : nat) : Prop := dirtyOf h i = true /\ trackedOf h i = false.

Lemma isolated_poisoned (h : heap) i : isolated h i -> poisoned h i.
Proof. intros H. destruct (isolated_flags h i H) as (H1 & H2 & _). split; assumption. Qed.

Lemma frame_ext (h : heap) (hr : hres) h' id : frame_ok h hr -> hr = (h', Ok id) -> extends h h'.
Proof. intros (He & _) ->. exact He. Qed.

Lemma d_op1 (h : heap) x f mk nm h' id : h_op1 h x f mk nm = (h', Ok id) ->
  extends h h' /\ (dirtyOf h x = true -> poisoned h' id).
Proof.
  intros E. split; [exact (frame_ext _ _ _ _ (h_op1_frame h x f mk nm) E)|].
  intros D. apply isolated_poisoned. eapply spent_op1; eauto.
Qed.

Lemma d_elsel (h : heap) b x u nm h' id : h_elsel h b x u nm = (h', Ok id) ->
  extends h h' /\ (dirtyOf h x = true \/ dirtyOf h u = true -> poisoned h' id).
Proof.
  intros E. split; [exact (frame_ext _ _ _ _ (h_elsel_frame h b x u nm) E)|].
  intros D. apply isolated_poisoned. eapply spent_elsel; eauto.
Qed.

Lemma d_arith (h : heap) b x u nm h' id : h_arith h b x u nm = (h', Ok id) ->
  extends h h' /\ (dirtyOf h x = true \/ dirtyOf h u = true -> poisoned h' id).
Proof.
  intros E. split; [exact (frame_ext _ _ _ _ (h_arith_frame h b x u nm) E)|].
  intros D. apply isolated_poisoned. eapply spent_arith; eauto.
Qed.

Lemma d_matmul (h : heap) x u nm h' id : h_matmul h x u nm = (h', Ok id) ->
  extends h h' /\ (dirtyOf h x = true \/ dirtyOf h u = true -> poisoned h' id).
Proof.
  intros E. split; [exact (frame_ext _ _ _ _ (h_matmul_frame h x u nm) E)|].
  intros D. apply isolated_poisoned. eapply spent_matmul; eauto.
Qed.

(* --- chains of tracked methods: invert one [hbind] at a time, push every known spent flag to
       the newest heap, and derive the spent flag of the new result when an operand is spent --- *)
Ltac dapply E :=
  first [ apply d_op1 in E | apply d_elsel in E | apply d_arith in E | apply d_matmul in E ].

Ltac dfact E :=
  dapply E;
  let X := fresh "X" in let D := fresh "D" in
  destruct E as [X D];
  try (match type of D with _ -> ?C => let N := fresh "N" in assert (N : C) by (apply D; auto); destruct N as [? ?] end);
  repeat match goal with F : dirtyOf ?h ?i = true |- _ =>
           match type of X with extends h _ => apply (spent_ext _ _ _ X) in F end end;
  clear D.

Ltac run E :=
  repeat (match type of E with hbind _ _ = _ => idtac end;
          let hh := fresh "hh" in let ii := fresh "ii" in let E1 := fresh "E" in
          apply hbind_ok in E; destruct E as (hh & ii & E1 & E); cbv beta in E; dfact E1);
  dfact E.

Lemma d_clip (h : heap) x lo up h' y : clip h x lo up = (h', Ok y) ->
  extends h h' /\ (dirtyOf h x = true -> poisoned h' y).
Proof.
  intros E. split; [exact (proj1 (okw_ok _ _ _ _ (okw_clip h x lo up) E))|].
  unfold clip in E. intros D. run E. split; assumption.
Qed.

Ltac dapply E ::=
  first [ apply d_op1 in E | apply d_elsel in E | apply d_arith in E | apply d_matmul in E | apply d_clip in E ].

Lemma d_fc (h : heap) w b x nm h' y : fc_forward h w b [Some x] nm = (h', Ok y) ->
  extends h h' /\ (dirtyOf h w = true \/ dirtyOf h b = true -> poisoned h' y).
Proof.
  intros E. split; [exact (proj1 (okw_ok _ _ _ _ (okw_fc_forward h w b [Some x] nm) E))|].
  unfold fc_forward in E. cbn [oneInput] in E.
  destruct (negb (rankOf h x =? 2)); [discriminate|]. apply atomically_ok in E.
  intros [Dw|Db]; run E; split; assumption.
Qed.

Lemma okw_act ak (h : heap) y : okw h (act_forward ak h y).
Proof.
  destruct ak; cbn [act_forward];
    [apply okw_relu|apply okw_leaky|apply okw_sigmoid|apply okw_tanh|apply okw_softmax].
Qed.

Lemma okw_loss eps ome lk (h : heap) p t : okw h (loss_forward eps ome lk h p t).
Proof.
  destruct lk; cbn [loss_forward].
  - apply okw_bind; [apply okw_flatten|]. intros h1 pf. apply okw_mse.
  - apply okw_bind; [apply okw_flatten|]. intros h1 pf. apply okw_bce.
  - apply okw_ce.
Qed.

Lemma forward_loss_okw eps ome ak lk (h : heap) w b x t : okw h (forward_loss eps ome ak lk h w b x t).
Proof.
  unfold forward_loss. apply okw_bind; [apply okw_fc_forward|]. intros h1 y.
  apply okw_bind; [apply okw_act|]. intros h2 a. apply okw_loss.
Qed.

Lemma d_act ak (h : heap) y h' a : act_forward ak h y = (h', Ok a) ->
  extends h h' /\ (dirtyOf h y = true -> poisoned h' a).
Proof.
  intros E. split; [exact (proj1 (okw_ok _ _ _ _ (okw_act ak h y) E))|].
  intros D. destruct ak as [|m| | |dim]; cbn [act_forward] in E.
  - unfold relu_forward in E. cbn [oneInput] in E. apply atomically_ok in E. run E. split; assumption.
  - unfold leaky_forward in E. cbn [oneInput] in E. apply atomically_ok in E. run E. split; assumption.
  - unfold sigmoid_forward in E. cbn [oneInput] in E. apply atomically_ok in E. run E. split; assumption.
  - unfold tanh_forward in E. cbn [oneInput] in E. run E. split; assumption.
  - unfold softmax_forward in E. cbn [oneInput] in E.
    destruct (rankOf h y <=? dim); [discriminate|]. apply atomically_ok in E. run E. split; assumption.
Qed.

Lemma lossArgs1_inv (h : heap) p t p' t' : lossArgs1 h (Some p) (Some t) = Some (p', t') -> p' = p /\ t' = t.
Proof.
  unfold lossArgs1. destruct ((rankOf h p =? 1) && (rankOf h t =? 1) && (dim0Of h p =? dim0Of h t)); [|discriminate].
  intros E. inversion E. auto.
Qed.

Lemma d_mse (h : heap) p t nm h' l : mse_compute h (Some p) (Some t) nm = (h', Ok l) ->
  dirtyOf h p = true -> poisoned h' l.
Proof.
  unfold mse_compute. destruct (lossArgs1 h (Some p) (Some t)) as [[p' t']|] eqn:EL; [|discriminate].
  apply lossArgs1_inv in EL as [-> ->]. intros E D. apply atomically_ok in E. run E. split; assumption.
Qed.

Lemma d_bce eps ome (h : heap) p t nm h' l : bce_compute eps ome h (Some p) (Some t) nm = (h', Ok l) ->
  dirtyOf h p = true -> poisoned h' l.
Proof.
  unfold bce_compute. destruct (lossArgs1 h (Some p) (Some t)) as [[p' t']|] eqn:EL; [|discriminate].
  apply lossArgs1_inv in EL as [-> ->]. intros E D. apply atomically_ok in E. run E. split; assumption.
Qed.

Lemma d_ce eps ome (h : heap) p t nm h' l : ce_compute eps ome h (Some p) (Some t) nm = (h', Ok l) ->
  dirtyOf h p = true -> poisoned h' l.
Proof.
  unfold ce_compute.
  destruct ((rankOf h p =? 2) && (rankOf h t =? 2) && (dim0Of h p =? dim0Of h t) && (dim1Of h p =? dim1Of h t)); [|discriminate].
  intros E D. apply atomically_ok in E. run E. split; assumption.
Qed.

Lemma d_loss eps ome lk (h : heap) p t h' l : loss_forward eps ome lk h p t = (h', Ok l) ->
  extends h h' /\ (dirtyOf h p = true -> poisoned h' l).
Proof.
  intros E. split; [exact (proj1 (okw_ok _ _ _ _ (okw_loss eps ome lk h p t) E))|].
  intros D. destruct lk; cbn [loss_forward] in E.
  - apply hbind_ok in E as (h1 & pf & E1 & E). dfact E1. eapply d_mse; eauto.
  - apply hbind_ok in E as (h1 & pf & E1 & E). dfact E1. eapply d_bce; eauto.
  - eapply d_ce; eauto.
Qed.

(* the three stages of a successful forward pass *)
Lemma forward_loss_inv eps ome ak lk (h : heap) w b x t h3 l :
  forward_loss eps ome ak lk h w b x t = (h3, Ok l) ->
  exists h1 y h2 a, fc_forward h w b [Some x] None = (h1, Ok y) /\ act_forward ak h1 y = (h2, Ok a) /\
                    loss_forward eps ome lk h2 a t = (h3, Ok l).
Proof.
  unfold forward_loss. intros E. apply hbind_ok in E as (h1 & y & E1 & E). apply hbind_ok in E as (h2 & a & E2 & E).
  exists h1, y, h2, a. auto.
Qed.

Theorem spent_forward_untracked eps ome ak lk (h : heap) w b x t h1 l :
  dirtyOf h w = true \/ dirtyOf h b = true ->
  forward_loss eps ome ak lk h w b x t = (h1, Ok l) ->
  trackedOf h1 l = false /\ dirtyOf h1 l = true /\
  forall rd sealg, bp_topo rd sealg h1 l = (h1, [], Ok tt).
Proof.
  intros D E. apply forward_loss_inv in E as (ha & y & hb & a & E1 & E2 & E3).
  apply d_fc in E1 as [_ P1]. destruct (P1 D) as [Dy _].
  apply d_act in E2 as [_ P2]. destruct (P2 Dy) as [Da _].
  apply d_loss in E3 as [_ P3]. destruct (P3 Da) as [Dl Tl].
  split; [exact Tl|]. split; [exact Dl|]. intros rd sealg. apply bp_untracked_root. exact Tl.
Qed.

(* ================================================================== *)
(*  4. a missing reset is an error of the next update                  *)
(* ================================================================== *)

(* back-propagation, whatever its outcome, seen from the nodes it does not reach *)
Lemma bp_step rd sealg (h1 : heap) l h2 log r : hinv h1 -> bp_topo rd sealg h1 l = (h2, log, r) ->
  length h2 = length h1 /\ (forall i, valOf h2 i = valOf h1 i) /\ (forall i, trackedOf h2 i = trackedOf h1 i) /\
  (forall i, edgesOf h2 i = edgesOf h1 i) /\
  (forall i, trackedOf h1 i = false -> dirtyOf h2 i = dirtyOf h1 i /\ gradOf h2 i = gradOf h1 i) /\
  hinv h2.
Proof.
  intros HI E. assert (HI2 : hinv h2) by (eapply bp_hinv; eauto).
  destruct (trackedOf h1 l) eqn:Tl.
  - pose proof (hinv_wf h1 HI) as W.
    destruct (bp_topo_frame rd sealg h1 l h2 log r W Tl E) as (L & _ & V & Tk & Ed & D & G).
    repeat (split; [assumption|]). split; [|exact HI2]. intros i Hi.
    assert (Hn : ~ In i (topoOrder h1 l)).
    { intros X. apply (topoOrder_tracked h1 l i W) in X. congruence. }
    split; [|apply G; exact Hn]. rewrite D. apply memb_false in Hn. rewrite Hn. cbn. apply orb_false_r.
  - rewrite bp_untracked_root in E by exact Tl. inversion E; subst.
    repeat (split; [reflexivity|]). split; [|exact HI2]. intros i _. split; reflexivity.
Qed.

(* with a spent weight or bias, and no gradient on the weight, the iteration stops at the weight
   update with an error: nothing is trained, the heap is the one the forward pass left *)
Theorem train_iter_spent rd eps ome lr ak lk (h : heap) w b x t h1 l :
  dirtyOf h w = true \/ dirtyOf h b = true -> gradOf h w = None ->
  forward_loss eps ome ak lk h w b x t = (h1, Ok l) ->
  bp_topo rd idseal h1 l = (h1, [], Ok tt) /\ gradOf h1 w = None /\
  (forall lr' nm, sgd_update h1 lr' (Some w) nm = (h1, Err)) /\
  train_iter rd eps ome lr ak lk h w b x t = (h1, Err) /\
  train_iter_noreset rd eps ome lr ak lk h w b x t = (h1, Err).
Proof.
  intros D G E. destruct (spent_forward_untracked eps ome ak lk h w b x t h1 l D E) as (Tl & Dl & Hbp).
  destruct (okw_ok _ _ _ _ (forward_loss_okw eps ome ak lk h w b x t) E) as (X & _ & _ & _).
  pose proof (forward_loss_inv _ _ _ _ _ _ _ _ _ _ _ E) as (ha & y & hb & a & E1 & _ & _).
  assert (Hw : exists wv, valOf h w = Some wv).
  { unfold fc_forward in E1. cbn [oneInput] in E1. destruct (negb (rankOf h x =? 2)); [discriminate|].
    apply atomically_ok in E1. apply hbind_ok in E1 as (hh & w1 & E1 & _).
    apply h_op1_inv in E1 as (wv & v & Hv & _). exists wv. exact Hv. }
  destruct Hw as (wv & Hw). pose proof (valOf_some_lt h w wv Hw) as Lw.
  destruct (acc_eq h h1 w w (ext_nth h h1 w X Lw)) as (Vw & _ & _ & Gw & _).
  rewrite G in Gw. rewrite Hw in Vw.
  assert (S : forall lr' nm, sgd_update h1 lr' (Some w) nm = (h1, Err)).
  { intros lr' nm. eapply sgd_update_nograd; eauto. }
  split; [apply Hbp|]. split; [exact Gw|]. split; [exact S|].
  unfold train_iter, train_iter_noreset. rewrite E, Hbp, S. split; reflexivity.
Qed.

(* in the terms of the loop: [w'] is what an update returned and nobody reset it *)
Theorem missing_reset_errors rd eps ome lr lr' ak lk (h : heap) w nm h3 w' b x t :
  sgd_update h lr (Some w) nm = (h3, Ok w') ->
  spentN h3 w' /\
  forall h4 l, forward_loss eps ome ak lk h3 w' b x t = (h4, Ok l) ->
    trackedOf h4 l = false /\
    bp_topo rd idseal h4 l = (h4, [], Ok tt) /\ gradOf h4 w' = None /\
    (forall nm', sgd_update h4 lr' (Some w') nm' = (h4, Err)) /\
    train_iter rd eps ome lr' ak lk h3 w' b x t = (h4, Err).
Proof.
  intros E. destruct (sgd_result_spent h lr w nm h3 w' E) as (Sp & _). split; [exact Sp|].
  intros h4 l EF. destruct Sp as (_ & Dw & Gw & _).
  destruct (train_iter_spent rd eps ome lr' ak lk h3 w' b x t h4 l (or_introl Dw) Gw EF) as (B & G & S & TI & _).
  destruct (spent_forward_untracked eps ome ak lk h3 w' b x t h4 l (or_introl Dw) EF) as (Tl & _).
  split; [exact Tl|]. split; [exact B|]. split; [exact G|]. split; [intros nm'; apply S|exact TI].
Qed.

(* ================================================================== *)
(*  5. one iteration                                                   *)
(* ================================================================== *)

(* the gradients the back-propagation of this iteration delivers to w and b *)
Definition delivers rd eps ome ak lk (h : heap) (w b x t : nat) (gW gB : T) : Prop :=
  exists h1 l h2 log, forward_loss eps ome ak lk h w b x t = (h1, Ok l) /\ trackedOf h1 l = true /\
     bp_topo rd idseal h1 l = (h2, log, Ok tt) /\ gradOf h2 w = Some gW /\ gradOf h2 b = Some gB.

(* [w'] in [h'] holds  (value of w in h) - lr * g *)
Definition sgd_step (lr : A) (h : heap) (w : nat) (g : T) (h' : heap) (w' : nat) : Prop :=
  exists wv v, valOf h w = Some wv /\ sgd_val lr wv g = Ok v /\ valOf h' w' = Some v.

Lemma delivers_fun rd eps ome ak lk (h : heap) w b x t gW gB gW' gB' :
  delivers rd eps ome ak lk h w b x t gW gB -> delivers rd eps ome ak lk h w b x t gW' gB' -> gW' = gW /\ gB' = gB.
Proof.
  intros (h1 & l & h2 & log & E1 & _ & E2 & G1 & G2) (h1' & l' & h2' & log' & E1' & _ & E2' & G1' & G2').
  rewrite E1 in E1'. inversion E1'; subst h1' l'. rewrite E2 in E2'. inversion E2'; subst h2' log'.
  split; congruence.
Qed.

(* the heap after the two updates and the two resets *)
Lemma final_heap (h2 : heap) (vW vB : T) nmW nmB :
  let HF := h_reset (h_reset ((h2 ++ [mkNode vW false true None [] nmW]) ++ [mkNode vB false true None [] nmB])
                             (length h2) true) (S (length h2)) true in
  length HF = S (S (length h2)) /\
  (forall i, i < length h2 -> nth_error HF i = nth_error h2 i) /\
  nth_error HF (length h2) = Some (mkNode vW true false None [] nmW) /\
  nth_error HF (S (length h2)) = Some (mkNode vB true false None [] nmB).
Proof.
  set (nW := mkNode vW false true None [] nmW). set (nB := mkNode vB false true None [] nmB).
  set (H4 := (h2 ++ [nW]) ++ [nB]). set (H5 := h_reset H4 (length h2) true). intros HF.
  destruct (h_reset_spec H4 (length h2) true) as (L5 & S5 & O5 & _). fold H5 in L5, S5, O5.
  destruct (h_reset_spec H5 (S (length h2)) true) as (LF & SF & OF & _). fold HF in LF, SF, OF.
  assert (L4 : length H4 = S (S (length h2))) by (unfold H4; rewrite !app_length; cbn; lia).
  assert (N4w : nth_error H4 (length h2) = Some nW).
  { unfold H4. rewrite nth_error_app1 by (rewrite app_length; cbn; lia). apply nth_error_snoc_new. }
  assert (N4b : nth_error H4 (S (length h2)) = Some nB).
  { unfold H4. replace (S (length h2)) with (length (h2 ++ [nW])) by (rewrite app_length; cbn; lia).
    apply nth_error_snoc_new. }
  split; [lia|]. split; [|split].
  - intros i Hi. rewrite OF by lia. rewrite O5 by lia. unfold H4.
    rewrite nth_error_app1 by (rewrite app_length; lia). apply nth_error_app1. exact Hi.
  - rewrite OF by lia. rewrite (S5 nW N4w). reflexivity.
  - assert (N5b : nth_error H5 (S (length h2)) = Some nB) by (rewrite O5 by lia; exact N4b).
    rewrite (SF nB N5b). reflexivity.
Qed.

Theorem iter_no_leak rd eps ome lr ak lk (h : heap) w b x t h' w' b' :
  hinv h -> fresh h w -> fresh h b ->
  train_iter rd eps ome lr ak lk h w b x t = (h', Ok (w', b')) ->
  (* the new weight and bias are clean trainable tensors, distinct, allocated by this iteration *)
  fresh h' w' /\ fresh h' b' /\ w' <> b' /\ length h <= w' /\ length h <= b' /\
  (* the heap invariant is kept *)
  hinv h' /\
  (* values never change *)
  (forall i, i < length h -> valOf h' i = valOf h i) /\
  (* data stay data *)
  (forall z, datum h z -> datum h' z) /\
  (* w' = w - lr * gW,  b' = b - lr * gB  for the gradients this back-propagation delivered *)
  exists gW gB, delivers rd eps ome ak lk h w b x t gW gB /\
                sgd_step lr h w gW h' w' /\ sgd_step lr h b gB h' b'.
Proof.
  intros HI Fw Fb E. unfold train_iter in E.
  destruct (forward_loss eps ome ak lk h w b x t) as [h1 [l| |]] eqn:EF; try discriminate.
  destruct (bp_topo rd idseal h1 l) as [[h2 log] [[]| |]] eqn:EB; try discriminate.
  destruct (sgd_update h2 lr (Some w) None) as [h3 [w1| |]] eqn:ES1; try discriminate.
  destruct (sgd_update h3 lr (Some b) None) as [h4 [b1| |]] eqn:ES2; try discriminate.
  inversion E; subst h' w' b'. clear E.
  destruct (okw_ok _ _ _ _ (forward_loss_okw eps ome ak lk h w b x t) EF) as (X1 & Ll & Sl & HI1).
  specialize (HI1 HI).
  destruct (bp_step rd idseal h1 l h2 log (Ok tt) HI1 EB) as (L2 & V2 & T2 & Ed2 & U2 & HI2).
  destruct (okw_ok _ _ _ _ (okw_sgd h2 lr (Some w) None) ES1) as (_ & _ & _ & HI3). specialize (HI3 HI2).
  destruct (okw_ok _ _ _ _ (okw_sgd h3 lr (Some b) None) ES2) as (_ & _ & _ & HI4). specialize (HI4 HI3).
  apply sgd_ok_inv in ES1 as (wv2 & gW & vW & Vw & Gw & Sw & -> & ->).
  apply sgd_ok_inv in ES2 as (bv2 & gB & vB & Vb & Gb & Sb & -> & ->).
  assert (Lb1 : length (h2 ++ [mkNode vW false true None [] None]) = S (length h2))
    by (rewrite app_length; cbn; lia).
  rewrite Lb1 in *.
  destruct (final_heap h2 vW vB None None) as (LF & OF & NFw & NFb).
  set (HF := h_reset (h_reset ((h2 ++ [mkNode vW false true None [] None]) ++ [mkNode vB false true None [] None])
                              (length h2) true) (S (length h2)) true) in *.
  pose proof (extends_length _ _ X1) as L1.
  pose proof (fresh_lt h w Fw) as Lw. pose proof (fresh_lt h b Fb) as Lbb.
  (* every old node: h -> h1 by extension, h1 -> h2 by bp_step, h2 -> HF untouched *)
  assert (Old1 : forall i, i < length h -> nth_error h1 i = nth_error h i) by (intros i Hi; apply ext_nth; assumption).
  assert (OldF : forall i, i < length h -> nth_error HF i = nth_error h2 i) by (intros i Hi; apply OF; lia).
  assert (Val : forall i, i < length h -> valOf HF i = valOf h i).
  { intros i Hi. destruct (acc_eq h2 HF i i (OldF i Hi)) as (-> & _). rewrite V2.
    destruct (acc_eq h h1 i i (Old1 i Hi)) as (-> & _). reflexivity. }
  (* the weight had no gradient before: what it holds now was delivered by this back-propagation *)
  assert (Tl : trackedOf h1 l = true).
  { destruct (trackedOf h1 l) eqn:Tl; [reflexivity|exfalso].
    rewrite bp_untracked_root in EB by exact Tl. inversion EB; subst h2.
    destruct (acc_eq h h1 w w (Old1 w Lw)) as (_ & _ & _ & G & _). destruct Fw as (_ & _ & G0 & _). congruence. }
  assert (Gb2 : gradOf h2 b = Some gB).
  { rewrite <- Gb. unfold gradOf. rewrite nth_error_app1 by lia. reflexivity. }
  assert (Vw0 : valOf h w = Some wv2).
  { rewrite <- Vw, V2. destruct (acc_eq h h1 w w (Old1 w Lw)) as (-> & _). reflexivity. }
  assert (Vb0 : valOf h b = Some bv2).
  { rewrite <- Vb. unfold valOf at 2. rewrite nth_error_app1 by lia. fold (valOf h2 b). rewrite V2.
    destruct (acc_eq h h1 b b (Old1 b Lbb)) as (-> & _). reflexivity. }
  split; [eapply fresh_of_nth; exact NFw|]. split; [eapply fresh_of_nth; exact NFb|].
  split; [lia|]. split; [lia|]. split; [lia|].
  split.
  { destruct HI4 as [W4 O4]. split.
    - apply BackpropP.wf_heap_reset, BackpropP.wf_heap_reset. exact W4.
    - apply BackpropP.rules_own_reset, BackpropP.rules_own_reset. exact O4. }
  split; [exact Val|]. split.
  { intros z (Lz & Tz & Dz).
    destruct (acc_eq h h1 z z (Old1 z Lz)) as (_ & T1 & D1 & _).
    destruct (acc_eq h2 HF z z (OldF z Lz)) as (_ & TF & DF & _).
    assert (T1' : trackedOf h1 z = false) by congruence.
    destruct (U2 z T1') as [D2 _].
    split; [lia|]. split; [rewrite TF, T2; exact T1'|]. rewrite DF, D2, D1. exact Dz. }
  exists gW, gB. split.
  { exists h1, l, h2, log. auto. }
  split.
  - exists wv2, vW. split; [exact Vw0|]. split; [exact Sw|]. unfold valOf. rewrite NFw. reflexivity.
  - exists bv2, vB. split; [exact Vb0|]. split; [exact Sb|]. unfold valOf. rewrite NFb. reflexivity.
Qed.

(* the statement with the data hypotheses spelled out *)
Corollary iter_no_leak_data rd eps ome lr ak lk (h : heap) w b x t h' w' b' :
  hinv h -> fresh h w -> fresh h b -> datum h x -> datum h t ->
  train_iter rd eps ome lr ak lk h w b x t = (h', Ok (w', b')) ->
  fresh h' w' /\ fresh h' b' /\ datum h' x /\ datum h' t /\
  (forall i, i < length h -> valOf h' i = valOf h i) /\
  exists gW gB, delivers rd eps ome ak lk h w b x t gW gB /\
                sgd_step lr h w gW h' w' /\ sgd_step lr h b gB h' b'.
Proof.
  intros HI Fw Fb Dx Dt E.
  destruct (iter_no_leak rd eps ome lr ak lk h w b x t h' w' b' HI Fw Fb E) as (F1 & F2 & _ & _ & _ & _ & V & D & G).
  auto 10.
Qed.

(* forgetting the resets: the loop body still returns two tensors, but they are spent, and the next
   iteration (with or without resets) is an error at its first update, whatever the data *)
Theorem noreset_next_errors rd eps ome lr ak lk (h : heap) w b x t h' w' b' :
  train_iter_noreset rd eps ome lr ak lk h w b x t = (h', Ok (w', b')) ->
  spentN h' w' /\ spentN h' b' /\
  forall x2 t2 h1 l, forward_loss eps ome ak lk h' w' b' x2 t2 = (h1, Ok l) ->
    train_iter rd eps ome lr ak lk h' w' b' x2 t2 = (h1, Err) /\
    train_iter_noreset rd eps ome lr ak lk h' w' b' x2 t2 = (h1, Err).
Proof.
  intros E. unfold train_iter_noreset in E.
  destruct (forward_loss eps ome ak lk h w b x t) as [h1 [l| |]] eqn:EF; try discriminate.
  destruct (bp_topo rd idseal h1 l) as [[h2 log] [[]| |]] eqn:EB; try discriminate.
  destruct (sgd_update h2 lr (Some w) None) as [h3 [w1| |]] eqn:ES1; try discriminate.
  destruct (sgd_update h3 lr (Some b) None) as [h4 [b1| |]] eqn:ES2; try discriminate.
  inversion E; subst h' w' b'. clear E.
  destruct (sgd_result_spent _ _ _ _ _ _ ES1) as (Sw & _ & Ew & L3).
  destruct (sgd_result_spent _ _ _ _ _ _ ES2) as (Sb & X4 & Eb & L4).
  assert (Sw4 : spentN h4 w1).
  { assert (Lw : w1 < length h3) by lia.
    destruct (acc_eq h3 h4 w1 w1 (ext_nth h3 h4 w1 X4 Lw)) as (_ & a & b0 & c & d).
    destruct Sw as (S1 & S2 & S3 & S4). unfold spentN. rewrite a, b0, c, d. auto. }
  split; [exact Sw4|]. split; [exact Sb|].
  intros x2 t2 h5 l2 EF2. destruct Sw4 as (_ & Dw & Gw & _).
  destruct (train_iter_spent rd eps ome lr ak lk h4 w1 b1 x2 t2 h5 l2 (or_introl Dw) Gw EF2) as (_ & _ & _ & R1 & R2).
  split; assumption.
Qed.

(* ================================================================== *)
(*  6. any number of iterations                                        *)
(* ================================================================== *)

(* consecutive (heap, weight, bias) triples, each obtained from the previous one by one iteration
   on the next batch:  w_{k+1} = w_k - lr * G_k  with G_k delivered by the back-propagation of
   step k on the loss of batch k built from w_k, b_k *)
Inductive Traj (rd : bred) (eps ome lr : A) (ak : actK) (lk : lossK)
  : heap -> nat -> nat -> list (nat * nat) -> heap -> nat -> nat -> Prop :=
| Traj_nil h w b : Traj rd eps ome lr ak lk h w b [] h w b
| Traj_cons h w b x t rest h1 w1 b1 hE wE bE gW gB :
    train_iter rd eps ome lr ak lk h w b x t = (h1, Ok (w1, b1)) ->
    delivers rd eps ome ak lk h w b x t gW gB ->
    sgd_step lr h w gW h1 w1 -> sgd_step lr h b gB h1 b1 ->
    Traj rd eps ome lr ak lk h1 w1 b1 rest hE wE bE ->
    Traj rd eps ome lr ak lk h w b ((x, t) :: rest) hE wE bE.

Theorem train_trajectory rd eps ome lr ak lk batches : forall (h : heap) w b h' w' b',
  hinv h -> fresh h w -> fresh h b ->
  train rd eps ome lr ak lk h w b batches = (h', Ok (w', b')) ->
  Traj rd eps ome lr ak lk h w b batches h' w' b' /\
  fresh h' w' /\ fresh h' b' /\ hinv h' /\ length h <= length h' /\
  (forall i, i < length h -> valOf h' i = valOf h i) /\
  (forall z, datum h z -> datum h' z).
Proof.
  induction batches as [|[x t] rest IH]; intros h w b h' w' b' HI Fw Fb E.
  - cbn [train] in E. inversion E; subst. split; [constructor|]. repeat (split; [assumption|]).
    split; [lia|]. split; auto.
  - cbn [train] in E.
    destruct (train_iter rd eps ome lr ak lk h w b x t) as [h1 [[w1 b1]| |]] eqn:EI; try discriminate.
    destruct (iter_no_leak rd eps ome lr ak lk h w b x t h1 w1 b1 HI Fw Fb EI)
      as (F1 & F2 & _ & Lw1 & _ & HI1 & V1 & D1 & gW & gB & Dl & S1 & S2).
    destruct (IH h1 w1 b1 h' w' b' HI1 F1 F2 E) as (Tr & F1' & F2' & HI' & L' & V' & D').
    pose proof (fresh_lt h1 w1 F1) as Lw1'.
    split; [econstructor; eauto|]. repeat (split; [assumption|]).
    split; [lia|]. split.
    + intros i Hi. rewrite V' by lia. apply V1. exact Hi.
    + intros z Hz. apply D', D1, Hz.
Qed.

End TrainP.

Print Assumptions sgd_update_spec.
Print Assumptions reset_fresh.
Print Assumptions spent_forward_untracked.
Print Assumptions missing_reset_errors.
Print Assumptions train_iter_spent.
Print Assumptions noreset_next_errors.
Print Assumptions iter_no_leak.
Print Assumptions train_trajectory.
