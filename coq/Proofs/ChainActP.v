(* ChainActP.v — the five activations' forward functions are their source chains  (see ChainBaseP.v for the scheme). *)
From Coq Require Import String List ZArith Bool Arith.
From Qeep Require Import Model.Scalar Model.Nd Model.Fill Model.Data Model.Valid Model.Api Model.Grad
  Model.Components Model.ChainIR.
From Qeep Require Model.Chains.
Import ListNotations.
Local Open Scope string_scope.
From Qeep Require Import Proofs.ChainBaseP.

Section Act.
Context {A : Type} {SA : Scalar A}.
Notation heap := (@heap A).
Notation hres := (@hres A).

Theorem relu_chain h x nm :
  relu_forward h [Some x] nm =
  atomically h (asHres (runFun (hooksH rsNone noUser nm noGuard) Chains.relu_forward h [("x", x)])).
Proof. unfold relu_forward, oneInput. f_equal. unfold cst. chain_go. Qed.

Theorem sigmoid_chain h x nm :
  sigmoid_forward h [Some x] nm =
  atomically h (asHres (runFun (hooksH rsNone noUser nm noGuard) Chains.sigmoid_forward h [("x", x)])).
Proof. unfold sigmoid_forward, oneInput. f_equal. unfold cst. chain_go. Qed.

Theorem tanh_chain h x nm :
  tanh_forward h [Some x] nm = asHres (runFun (hooksH rsNone noUser nm noGuard) Chains.tanh_forward h [("x", x)]).
Proof. unfold tanh_forward, oneInput. unfold cst. chain_go. Qed.

(* c.m is the configured slope *)
Definition rsLeaky (m : A) : @hres_resolver A :=
  mkHR (fun _ t => if String.eqb t "c.m" then Some m else None) (fun _ _ => None).

Theorem leaky_chain h m x nm :
  leaky_forward h m [Some x] nm =
  atomically h (asHres (runFun (hooksH (rsLeaky m) noUser nm noGuard) Chains.leaky_forward h [("x", x)])).
Proof. unfold leaky_forward, oneInput. f_equal. unfold cst. chain_go. Qed.

(* c.dim is the configured dimension; toValidInputs has accepted the rank *)
Definition rsSoftmax (dim : nat) : @hres_resolver A :=
  mkHR (fun _ _ => None) (fun _ t => if String.eqb t "c.dim" then Some (Z.of_nat dim) else None).

Theorem softmax_chain h dim x nm : (rankOf h x <=? dim)%nat = false ->
  softmax_forward h dim [Some x] nm =
  atomically h (asHres (runFun (hooksH (rsSoftmax dim) noUser nm noGuard) Chains.softmax_forward h [("x", x)])).
Proof. intros E. unfold softmax_forward, oneInput. rewrite E. f_equal. unfold cst. chain_go. Qed.

End Act.
