(* DataLinalgP.v — dotProductOf1DInputs and matMulDataOf2DInputs (tensor/internal/cputensor/operators.go) as
   translated by harness/gox into the DataIR programs GoData.d_dotProductOf1DInputs / GoData.d_matMulDataOf2DInputs
   compute Model/Data.v dot1d / matmul2d (and panic exactly where the model returns None). *)
From Coq Require Import String List ZArith Bool Lia Arith.
From Qeep Require Import Model.Scalar Model.Nd Model.Fill Model.Data Model.DataIR Model.GoData Proofs.DataIRP.
From Qeep Require Model.GoIR.
Import ListNotations.
Local Open Scope string_scope.
Local Open Scope Z_scope.
Local Open Scope list_scope.

(* stepping without unfolding [vlookup]/[vassign] (abstract environments) *)
Ltac dy := autorewrite with dataexec;
           cbn [tseq deval devals devalBin negb andb orb String.eqb Ascii.eqb Bool.eqb fopF].

Section Linalg.
Context {A : Type} {SA : Scalar A}.
Variable fapp : string -> list A -> option A.
Variables (St : Type) (ext : string -> list (@dval A) -> St -> option (list (@dval A) * St)).
Notation dval := (@dval A).
Notation denv := (@denv A).
Notation doutcome := (@DataIR.doutcome A St).

Lemma emb_Vec (l : list (nd A)) : emb (Vec l) = DL (map emb l).
Proof. cbn [emb]. apply f_equal. induction l as [|y r IH]; cbn [map]; [reflexivity | f_equal; exact IH]. Qed.

Lemma nth_error_map_emb (l : list (nd A)) n : nth_error (map emb l) n = option_map emb (nth_error l n).
Proof. revert n; induction l as [|a l IH]; intros [|n]; cbn; auto. Qed.

(* an assignment / a definition in the main frame (l = []), seen through lookups only *)
Lemma vassign_main (g : denv) (x : string) (v : dval) :
  let '(g1, l1) := vassign true g [] x v in
  l1 = [] /\ forall y, vlookup g1 l1 y = if String.eqb y x then Some v else vlookup g [] y.
Proof.
  pose proof (fun y => vlookup_vassign true g [] x y v) as H.
  assert (Hl : snd (vassign true g [] x v) = []).
  { unfold vassign. cbn [dhas dlookup]. destruct (dhas g x); reflexivity. }
  destruct (vassign true g [] x v) as [g1 l1]. cbn [snd] in Hl. split; assumption.
Qed.

Lemma vdefine_main (g : denv) (x : string) (v : dval) :
  let '(g1, l1) := vdefine true g [] x v in
  l1 = [] /\ forall y, vlookup g1 l1 y = if String.eqb y x then Some v else vlookup g [] y.
Proof.
  pose proof (fun y => vlookup_vdefine_main g x y v) as H.
  destruct (vdefine true g [] x v) as [g1 l1]. split; [exact (proj1 (H x)) | intros y; exact (proj2 (H y))].
Qed.

(* ---------- a counting loop  for i = i0; i < n; i++  is a foldM over seq ---------- *)
Section CountLoop.
Variables (T : Type) (f : T -> nat -> option T) (n : nat).
Variable Inv : nat -> T -> denv -> denv -> Prop.
Variables (cond : denv -> denv -> option dval) (body post : St -> denv -> denv -> doutcome).
Hypothesis Hcond : forall i acc g l, Inv i acc g l -> cond g l = Some (DB (Z.of_nat i <? Z.of_nat n)).
Hypothesis Hstep : forall i acc s g l, Inv i acc g l -> (i < n)%nat ->
  match f acc i with
  | Some acc' => exists g1 l1, body s g l = DNormal St s g1 l1 /\
                 exists g2 l2, post s g1 l1 = DNormal St s g2 l2 /\ Inv (S i) acc' g2 l2
  | None => body s g l = DPanic St
  end.

Lemma count_loop : forall r i acc s g l fuel, (i + r = n)%nat -> Inv i acc g l -> (r < fuel)%nat ->
  match foldM f (seq i r) acc with
  | Some res => exists g' l', dforLoop St fuel cond body post s g l = DNormal St s g' l' /\ Inv n res g' l'
  | None => dforLoop St fuel cond body post s g l = DPanic St
  end.
Proof.
  induction r as [|r IH]; intros i acc s g l fuel Hn HI Hf; (destruct fuel as [|fuel]; [lia|]);
    cbn [dforLoop]; rewrite (Hcond i acc g l HI).
  - replace (Z.of_nat i <? Z.of_nat n) with false by (symmetry; apply Z.ltb_ge; lia).
    cbn [seq foldM]. assert (i = n) by lia. subst i. eauto.
  - replace (Z.of_nat i <? Z.of_nat n) with true by (symmetry; apply Z.ltb_lt; lia).
    cbn [seq foldM]. pose proof (Hstep i acc s g l HI ltac:(lia)) as Hs.
    destruct (f acc i) as [acc'|]; cbn [obind].
    + destruct Hs as [g1 [l1 [Hb [g2 [l2 [Hp HI2]]]]]]. rewrite Hb, Hp.
      apply IH; [lia | exact HI2 | lia].
    + rewrite Hs. reflexivity.
Qed.
End CountLoop.

(* mapM as a foldM that appends *)
Lemma foldM_mapM {U} (h : nat -> option U) (l : list nat) (acc : list U) :
  foldM (fun a i => do y <- h i; Some (a ++ [y])) l acc = do ys <- mapM h l; Some (acc ++ ys).
Proof.
  revert acc; induction l as [|x l IH]; intros acc; cbn [foldM mapM obind].
  - now rewrite app_nil_r.
  - destruct (h x) as [y|]; cbn [obind]; [|reflexivity].
    rewrite IH. destruct (mapM h l) as [ys|]; cbn [obind]; [|reflexivity].
    now rewrite <- app_assoc.
Qed.

Definition ndlen (x : nd A) : nat := match x with Vec l => List.length l | Sc _ => 0%nat end.
Definition ndlen0 (x : nd A) : nat := match x with Vec (r :: _) => ndlen r | _ => 0%nat end.

Ltac vstep :=
  let H := fresh "HV" in let E := fresh "El" in let g1 := fresh "g" in let l1 := fresh "l" in
  match goal with
  | |- context [vassign true ?g [] ?x ?v] =>
      pose proof (vassign_main g x v) as H; destruct (vassign true g [] x v) as [g1 l1]; destruct H as [E H]; subst l1
  | |- context [vdefine true ?g [] ?x ?v] =>
      pose proof (vdefine_main g x v) as H; destruct (vdefine true g [] x v) as [g1 l1]; destruct H as [E H]; subst l1
  end.
Ltac lk :=
  repeat first
    [ match goal with H : vlookup ?g ?l ?x = _ |- context [vlookup ?g ?l ?x] => rewrite H end
    | match goal with H : forall y, vlookup ?g ?l y = _ |- context [vlookup ?g ?l _] =>
        rewrite H; cbn [String.eqb Ascii.eqb Bool.eqb] end ].

(* ---------- dotProductOf1DInputs ---------- *)

Definition dotInv (v1 v2 : list (nd A)) (i : nat) (acc : A) (g l : denv) : Prop :=
  l = [] /\ vlookup g l "v1" = Some (DL (map emb v1)) /\ vlookup g l "v2" = Some (DL (map emb v2)) /\
  vlookup g l "n" = Some (DI (Z.of_nat (List.length v1))) /\
  vlookup g l "s" = Some (DF acc) /\ vlookup g l "i" = Some (DI (Z.of_nat i)).

Definition dotStep (v1 v2 : list (nd A)) (s : A) (i : nat) : option A :=
  do e1 <- nth_error v1 i; do x1 <- asF e1; do e2 <- nth_error v2 i; do x2 <- asF e2; Some (sadd s (smul x1 x2)).

Theorem data_dot1d (callL : string -> list dval -> St -> denv -> cres St) fuel (a b : nd A) (s : St) :
  sconst 0 0 = s0 -> (S (ndlen a) <= fuel)%nat ->
  match dot1d a b with
  | Some r => exists g l, dexec fapp St ext callL fuel true (dbody (pmain d_dotProductOf1DInputs)) s
                            [("a", emb a); ("b", emb b)] [] = DRet St [emb r] s g l
  | None => dexec fapp St ext callL fuel true (dbody (pmain d_dotProductOf1DInputs)) s
                            [("a", emb a); ("b", emb b)] [] = DPanic St
  end.
Proof.
  intros Hz Hf. unfold d_dotProductOf1DInputs, dot1d. cbn [pmain dbody].
  destruct a as [x|v1]; [cbn [asV obind emb]; dxs; reflexivity|].
  destruct b as [y|v2]; [cbn [asV obind]; rewrite emb_Vec; cbn [emb]; dxs; reflexivity|].
  cbn [asV obind ndlen] in *. rewrite !emb_Vec. dxs. rewrite Hz. unfold dlen. rewrite map_length.
  match goal with |- context [dforLoop St fuel ?c ?bd ?p s ?g0 ?l0] =>
    pose proof (count_loop A (dotStep v1 v2) (List.length v1) (dotInv v1 v2) c bd p) as HL
  end. unfold dotStep in HL.
  match type of HL with ?P -> ?Q -> _ => assert (Hc : P); [|assert (Hs : Q)] end.
  { intros i acc g l [El [H1 [H2 [H3 [H4 H5]]]]]. subst l. dy. lk. reflexivity. }
  { intros i acc s0' g l [El [H1 [H2 [H3 [H4 H5]]]]] Hi. subst l. dy. lk. rewrite didx_nat, !nth_error_map_emb.
    destruct (nth_error v1 i) as [e1|] eqn:E1; [|apply nth_error_None in E1; lia].
    cbn [option_map obind]. destruct e1 as [x1|?]; cbn [emb asF obind]; [|reflexivity].
    vstep. dy. lk. rewrite didx_nat, !nth_error_map_emb.
    destruct (nth_error v2 i) as [e2|]; cbn [option_map obind]; [|reflexivity].
    destruct e2 as [x2|?]; cbn [emb asF obind]; [|reflexivity].
    vstep. dy. lk. vstep. dy. do 2 eexists. split; [reflexivity|].
    dy. lk. dy. vstep. do 2 eexists. split; [reflexivity|].
    unfold dotInv. lk. repeat split; try reflexivity. do 2 f_equal. lia. }
  specialize (HL Hc Hs (List.length v1) 0%nat s0 s).
  match goal with |- context [dforLoop St fuel _ _ _ s ?g0 ?l0] => specialize (HL g0 l0 fuel) end.
  cbn [seq] in HL.
  specialize (HL eq_refl).
  match type of HL with ?P -> _ => assert (HI : P) by (unfold dotInv; repeat split; reflexivity) end.
  specialize (HL HI ltac:(lia)).
  destruct (foldM _ (seq 0 (List.length v1)) s0) as [res|]; cbn [obind].
  - destruct HL as [g' [l' [HL [_ [_ [_ [_ [H4 _]]]]]]]]. rewrite HL. dy. rewrite H4. cbn [emb]. eauto.
  - rewrite HL. reflexivity.
Qed.

(* ---------- matMulDataOf2DInputs ---------- *)

Lemma zle0 (n : nat) : (0 <=? Z.of_nat n) = true.
Proof. apply Z.leb_le. lia. Qed.

Lemma setNthD_app (xs ys : list dval) (y v : dval) (n : nat) :
  List.length xs = n -> setNthD (xs ++ y :: ys) n v = Some (xs ++ v :: ys).
Proof.
  intros <-. induction xs as [|x xs IH]; cbn [List.length app setNthD]; [reflexivity | now rewrite IH].
Qed.

Definition snocM {U} (h : nat -> option U) (a : list U) (i : nat) : option (list U) := do y <- h i; Some (a ++ [y]).

Definition pStep (m1 m2 : list (nd A)) (i j : nat) (eij : A) (p : nat) : option A :=
  do mi <- nth_error m1 i; do rim1 <- asV mi;
  do mp <- nth_error m2 p; do rpm2 <- asV mp;
  do e1 <- nth_error rim1 p; do x1 <- asF e1;
  do e2 <- nth_error rpm2 j; do x2 <- asF e2;
  Some (sadd eij (smul x1 x2)).
Definition elemOf (m1 m2 : list (nd A)) (n i j : nat) : option (nd A) :=
  do e <- foldM (pStep m1 m2 i j) (seq 0 n) s0; Some (Sc e).
Definition rowOf (m1 m2 : list (nd A)) (n k i : nat) : option (nd A) :=
  do row <- mapM (elemOf m1 m2 n i) (seq 0 k); Some (Vec row).

Lemma matmul2d_eq (a b : nd A) :
  matmul2d a b =
  (do m1 <- asV a; do m2 <- asV b;
   do r01 <- nth_error m1 0; do r0m1 <- asV r01;
   do r02 <- nth_error m2 0; do r0m2 <- asV r02;
   do rows <- mapM (rowOf m1 m2 (List.length r0m1) (List.length r0m2)) (seq 0 (List.length m1));
   Some (Vec rows)).
Proof. reflexivity. Qed.

Section MM.
Variables (m1 m2 : list (nd A)) (n k : nat).
Notation m := (List.length m1).

Definition mmBase (g l : denv) : Prop :=
  l = [] /\ vlookup g l "m1" = Some (DL (map emb m1)) /\ vlookup g l "m2" = Some (DL (map emb m2)) /\
  vlookup g l "m" = Some (DI (Z.of_nat m)) /\ vlookup g l "n" = Some (DI (Z.of_nat n)) /\
  vlookup g l "k" = Some (DI (Z.of_nat k)).

Definition iInv (i : nat) (acc : list (nd A)) (g l : denv) : Prop :=
  mmBase g l /\ List.length acc = i /\
  vlookup g l "cRows" = Some (DL (map emb acc ++ repeat DNil (m - i))) /\
  vlookup g l "i" = Some (DI (Z.of_nat i)).

Definition jInv (i : nat) (crv : dval) (j : nat) (acc : list (nd A)) (g l : denv) : Prop :=
  mmBase g l /\ List.length acc = j /\
  vlookup g l "cRows" = Some crv /\ vlookup g l "i" = Some (DI (Z.of_nat i)) /\
  vlookup g l "row" = Some (DL (map emb acc ++ repeat DNil (k - j))) /\
  vlookup g l "j" = Some (DI (Z.of_nat j)).

Definition pInv (i j : nat) (crv rowv : dval) (p : nat) (acc : A) (g l : denv) : Prop :=
  mmBase g l /\
  vlookup g l "cRows" = Some crv /\ vlookup g l "i" = Some (DI (Z.of_nat i)) /\
  vlookup g l "row" = Some rowv /\ vlookup g l "j" = Some (DI (Z.of_nat j)) /\
  vlookup g l "eij" = Some (DF acc) /\ vlookup g l "p" = Some (DI (Z.of_nat p)).
End MM.

Ltac inv_intro H := unfold iInv, jInv, pInv, mmBase in H; decompose [and] H; clear H;
  repeat match goal with E : ?l = [] |- _ => is_var l; subst l end.
Ltac inv_solve := unfold iInv, jInv, pInv, mmBase; repeat split; lk; try reflexivity.

Theorem data_matmul2d (callL : string -> list dval -> St -> denv -> cres St) fuel (a b : nd A) (s : St) :
  sconst 0 0 = s0 -> (S (Nat.max (ndlen a) (Nat.max (ndlen0 a) (ndlen0 b))) <= fuel)%nat ->
  match matmul2d a b with
  | Some r => exists g l, dexec fapp St ext callL fuel true (dbody (pmain d_matMulDataOf2DInputs)) s
                            [("a", emb a); ("b", emb b)] [] = DRet St [emb r] s g l
  | None => dexec fapp St ext callL fuel true (dbody (pmain d_matMulDataOf2DInputs)) s
                            [("a", emb a); ("b", emb b)] [] = DPanic St
  end.
Proof.
  intros Hz Hf. rewrite matmul2d_eq. unfold d_matMulDataOf2DInputs. cbn [pmain dbody].
  destruct a as [x|m1]; [cbn [asV obind emb]; dxs; reflexivity|].
  destruct b as [y|m2]; [cbn [asV obind]; rewrite emb_Vec; cbn [emb]; dxs; reflexivity|].
  cbn [asV obind]. rewrite !emb_Vec. dxs.
  change (didx 0) with (Some 0%nat). cbv beta iota. rewrite !nth_error_map_emb.
  assert (Hn : ndlen0 (Vec m1) = match nth_error m1 0 with Some r => ndlen r | None => 0%nat end)
    by (destruct m1; reflexivity).
  assert (Hk : ndlen0 (Vec m2) = match nth_error m2 0 with Some r => ndlen r | None => 0%nat end)
    by (destruct m2; reflexivity).
  rewrite Hn, Hk in Hf. clear Hn Hk. cbn [ndlen] in Hf.
  destruct (nth_error m1 0) as [r01|]; cbn [option_map obind]; [|reflexivity].
  destruct r01 as [?|r0m1]; [cbn [emb asV obind]; dxs; reflexivity|].
  rewrite emb_Vec. cbn [asV obind]. dxs.
  change (didx 0) with (Some 0%nat). cbv beta iota. rewrite !nth_error_map_emb.
  destruct (nth_error m2 0) as [r02|]; cbn [option_map obind]; [|reflexivity].
  destruct r02 as [?|r0m2]; [cbn [emb asV obind]; dxs; reflexivity|].
  rewrite emb_Vec. cbn [asV obind ndlen] in *. dxs.
  unfold dlen. rewrite !map_length. rewrite zle0, Nat2Z.id. dxs.
  set (n := List.length r0m1) in *. set (k := List.length r0m2) in *.
  (* the i loop *)
  match goal with |- context [dforLoop St fuel ?c ?bd ?p s ?g0 ?l0] =>
    pose proof (count_loop (list (nd A)) (snocM (rowOf m1 m2 n k)) (List.length m1) (iInv m1 m2 n k) c bd p) as HL
  end.
  match type of HL with ?P -> ?Q -> _ => assert (Hc : P); [|assert (Hs : Q)] end.
  { intros i acc g l HI. inv_intro HI. dy. lk. reflexivity. }
  { intros i acc s' g l HI Hi. inv_intro HI. dy. lk. rewrite zle0, Nat2Z.id. vstep. dy. vstep. dy.
    (* the j loop *)
    match goal with |- context [dforLoop St fuel ?c ?bd ?p s' ?g0 ?l0] =>
      pose proof (count_loop (list (nd A)) (snocM (elemOf m1 m2 n i)) k
                    (jInv m1 m2 n k i (DL (map emb acc ++ repeat DNil (List.length m1 - i)))) c bd p) as HJ
    end.
    match type of HJ with ?P -> ?Q -> _ => assert (Hcj : P); [|assert (Hsj : Q)] end.
    { intros j accj g' l' HI. inv_intro HI. dy. lk. reflexivity. }
    { intros j accj s'' g' l' HI Hj. inv_intro HI. dy. rewrite Hz. vstep. dy. vstep. dy.
      (* the p loop *)
      match goal with |- context [dforLoop St fuel ?c ?bd ?p s'' ?g0 ?l0] =>
        pose proof (count_loop A (pStep m1 m2 i j) n
                      (pInv m1 m2 n k i j (DL (map emb acc ++ repeat DNil (List.length m1 - i)))
                            (DL (map emb accj ++ repeat DNil (k - j)))) c bd p) as HP
      end.
      match type of HP with ?P -> ?Q -> _ => assert (Hcp : P); [|assert (Hsp : Q)] end.
      { intros p accp g'' l'' HI. inv_intro HI. dy. lk. reflexivity. }
      { intros p accp s3 g'' l'' HI Hp. inv_intro HI. unfold pStep. dy. lk.
        rewrite didx_nat, nth_error_map_emb.
        destruct (nth_error m1 i) as [mi|]; cbn [option_map obind]; [|reflexivity].
        destruct mi as [?|rim1]; [cbn [emb asV obind]; reflexivity|].
        rewrite emb_Vec. cbn [asV obind]. vstep. dy. lk.
        rewrite didx_nat, nth_error_map_emb.
        destruct (nth_error m2 p) as [mp|]; cbn [option_map obind]; [|reflexivity].
        destruct mp as [?|rpm2]; [cbn [emb asV obind]; reflexivity|].
        rewrite emb_Vec. cbn [asV obind]. vstep. dy. lk.
        rewrite didx_nat, nth_error_map_emb.
        destruct (nth_error rim1 p) as [e1|]; cbn [option_map obind]; [|reflexivity].
        destruct e1 as [x1|?]; [|rewrite emb_Vec; cbn [asF obind]; reflexivity].
        cbn [emb asF obind]. vstep. dy. lk.
        rewrite didx_nat, nth_error_map_emb.
        destruct (nth_error rpm2 j) as [e2|]; cbn [option_map obind]; [|reflexivity].
        destruct e2 as [x2|?]; [|rewrite emb_Vec; cbn [asF obind]; reflexivity].
        cbn [emb asF obind]. vstep. dy. lk. vstep. dy.
        do 2 eexists. split; [reflexivity|]. dy. lk. dy. vstep.
        do 2 eexists. split; [reflexivity|]. inv_solve. do 2 f_equal. lia. }
      specialize (HP Hcp Hsp n 0%nat s0 s'').
      match goal with |- context [dforLoop St fuel _ _ _ s'' ?g0 ?l0] => specialize (HP g0 l0 fuel) end.
      specialize (HP eq_refl). 
      match type of HP with ?P -> _ => assert (HI0 : P) by inv_solve end.
      specialize (HP HI0 ltac:(lia)). clear HI0.
      unfold snocM, elemOf.
      destruct (foldM (pStep m1 m2 i j) (seq 0 n) s0) as [e|]; cbn [obind].
      - destruct HP as [gf [lf [HP HI3]]]. rewrite HP. inv_intro HI3. dy. lk. rewrite didx_nat.
        unfold setSlot. lk.
        replace (k - j)%nat with (S (k - S j)) by lia. cbn [repeat].
        rewrite (setNthD_app _ _ _ _ j) by (now rewrite map_length).
        vstep. do 2 eexists. split; [reflexivity|]. dy. lk. dy. vstep.
        do 2 eexists. split; [reflexivity|]. inv_solve.
        + rewrite app_length. cbn [List.length]. lia.
        + rewrite map_app, <- app_assoc. reflexivity.
        + do 2 f_equal. lia.
      - rewrite HP. reflexivity. }
    specialize (HJ Hcj Hsj k 0%nat [] s').
    match goal with |- context [dforLoop St fuel _ _ _ s' ?g0 ?l0] => specialize (HJ g0 l0 fuel) end.
    specialize (HJ eq_refl).
    match type of HJ with ?P -> _ => assert (HI0 : P) by (inv_solve; now rewrite Nat.sub_0_r) end.
    specialize (HJ HI0 ltac:(lia)). clear HI0.
    fold (snocM (elemOf m1 m2 n i)) in HJ. unfold snocM in HJ at 1.
    rewrite foldM_mapM in HJ. unfold snocM, rowOf.
    destruct (mapM (elemOf m1 m2 n i) (seq 0 k)) as [row|]; cbn [obind app] in HJ |- *.
    - destruct HJ as [gf [lf [HJ HI3]]]. rewrite HJ. inv_intro HI3. dy. lk. rewrite didx_nat.
      unfold setSlot. lk.
      replace (List.length m1 - i)%nat with (S (List.length m1 - S i)) by lia. cbn [repeat].
      rewrite (setNthD_app _ _ _ _ i) by (now rewrite map_length).
      vstep. do 2 eexists. split; [reflexivity|]. dy. lk. dy. vstep.
      do 2 eexists. split; [reflexivity|]. inv_solve.
      + rewrite app_length. cbn [List.length]. lia.
      + rewrite map_app, <- app_assoc. cbn [map app]. rewrite emb_Vec, Nat.sub_diag. cbn [repeat].
        now rewrite app_nil_r.
      + do 2 f_equal. lia.
    - rewrite HJ. reflexivity. }
  specialize (HL Hc Hs (List.length m1) 0%nat [] s).
  match goal with |- context [dforLoop St fuel _ _ _ s ?g0 ?l0] => specialize (HL g0 l0 fuel) end.
  specialize (HL eq_refl).
  match type of HL with ?P -> _ =>
    assert (HI0 : P) by (unfold iInv, mmBase; repeat split; try reflexivity; now rewrite Nat.sub_0_r) end.
  specialize (HL HI0 ltac:(lia)). clear HI0.
  unfold snocM in HL at 1. rewrite foldM_mapM in HL.
  destruct (mapM (rowOf m1 m2 n k) (seq 0 (List.length m1))) as [rows|]; cbn [obind app] in HL |- *.
  - destruct HL as [gf [lf [HL HI3]]]. rewrite HL. inv_intro HI3. dy. lk.
    rewrite Nat.sub_diag. cbn [repeat]. rewrite app_nil_r, emb_Vec. eauto.
  - rewrite HL. reflexivity.
Qed.

(* the same at the level of [drun] (no closures: any depth) *)
Corollary drun_dot1d fuel depth (a b : nd A) (s : St) :
  sconst 0 0 = s0 -> (S (ndlen a) <= fuel)%nat ->
  match dot1d a b with
  | Some r => exists g l, drun fapp St ext d_dotProductOf1DInputs fuel depth [emb a; emb b] s = DRet St [emb r] s g l
  | None => drun fapp St ext d_dotProductOf1DInputs fuel depth [emb a; emb b] s = DPanic St
  end.
Proof. intros Hz Hf. unfold drun. cbn [d_dotProductOf1DInputs pmain dparams dbind]. now apply data_dot1d. Qed.

Corollary drun_matmul2d fuel depth (a b : nd A) (s : St) :
  sconst 0 0 = s0 -> (S (Nat.max (ndlen a) (Nat.max (ndlen0 a) (ndlen0 b))) <= fuel)%nat ->
  match matmul2d a b with
  | Some r => exists g l, drun fapp St ext d_matMulDataOf2DInputs fuel depth [emb a; emb b] s = DRet St [emb r] s g l
  | None => drun fapp St ext d_matMulDataOf2DInputs fuel depth [emb a; emb b] s = DPanic St
  end.
Proof. intros Hz Hf. unfold drun. cbn [d_matMulDataOf2DInputs pmain dparams dbind]. now apply data_matmul2d. Qed.

End Linalg.

(* ---------- the hypothesis holds for the free term instance; the programs run ---------- *)
Example term_zero : @sconst term _ 0 0 = s0.
Proof. reflexivity. Qed.

Definition retVals {A St} (o : @doutcome A St) : option (list (@dval A)) :=
  match o with DRet _ vs _ _ _ => Some vs | _ => None end.
Definition tv (n k : nat) : nd term := Sc (TVal n k).
Definition noF : string -> list term -> option term := fun _ _ => None.
Definition noExt : string -> list (@dval term) -> unit -> option (list (@dval term) * unit) := fun _ _ _ => None.

Example ex_dot :
  retVals (drun noF unit noExt d_dotProductOf1DInputs 4 0
             [emb (Vec [tv 0 0; tv 0 1; tv 0 2]); emb (Vec [tv 1 0; tv 1 1; tv 1 2])] tt)
  = option_map (fun r => [emb r]) (dot1d (Vec [tv 0 0; tv 0 1; tv 0 2]) (Vec [tv 1 0; tv 1 1; tv 1 2]))
  /\ dot1d (Vec [tv 0 0; tv 0 1; tv 0 2]) (Vec [tv 1 0; tv 1 1; tv 1 2]) <> None.
Proof. split; [vm_compute; reflexivity | vm_compute; discriminate]. Qed.

(* second vector too short: v2[2] is out of range *)
Example ex_dot_panic :
  drun noF unit noExt d_dotProductOf1DInputs 4 0 [emb (Vec [tv 0 0; tv 0 1; tv 0 2]); emb (Vec [tv 1 0; tv 1 1])] tt
  = DPanic unit
  /\ dot1d (Vec [tv 0 0; tv 0 1; tv 0 2]) (Vec [tv 1 0; tv 1 1]) = None.
Proof. split; vm_compute; reflexivity. Qed.

(* 2x3 times 3x2 *)
Definition exA : nd term := Vec [Vec [tv 0 0; tv 0 1; tv 0 2]; Vec [tv 0 3; tv 0 4; tv 0 5]].
Definition exB : nd term := Vec [Vec [tv 1 0; tv 1 1]; Vec [tv 1 2; tv 1 3]; Vec [tv 1 4; tv 1 5]].
Example ex_matmul :
  retVals (drun noF unit noExt d_matMulDataOf2DInputs 4 0 [emb exA; emb exB] tt)
  = option_map (fun r => [emb r]) (matmul2d exA exB)
  /\ matmul2d exA exB <> None.
Proof. split; [vm_compute; reflexivity | vm_compute; discriminate]. Qed.

(* inner sizes disagree (2x3 times 2x2): m2[2] is out of range *)
Example ex_matmul_panic :
  drun noF unit noExt d_matMulDataOf2DInputs 4 0 [emb exA; emb (Vec [Vec [tv 1 0; tv 1 1]; Vec [tv 1 2; tv 1 3]])] tt
  = DPanic unit
  /\ matmul2d exA (Vec [Vec [tv 1 0; tv 1 1]; Vec [tv 1 2; tv 1 3]]) = None.
Proof. split; vm_compute; reflexivity. Qed.

Print Assumptions data_dot1d.
Print Assumptions data_matmul2d.
Print Assumptions drun_dot1d.
Print Assumptions drun_matmul2d.
