(* CompRP.v — the components read over the reals (C14 activations, C12 losses, C17 SGD).
   CompP.v / LossP.v give, for an ARBITRARY scalar type, the exact expression every component
   computes.  Here the scalar type is [R] ([R_scalar thr draw], any threshold, any random source)
   and the expressions are shown to be the defining mathematical functions:
     Relu = max(0,x), LeakyRelu = max(0,x) + m*min(0,x), Sigmoid = 1/(1+e^-x), Tanh = tanh,
     clip = max(l, min(x,u)) in [l,u], MSE = mean (t-p)^2 >= 0,
     BCE = mean -(tc ln pc + (1-tc) ln(1-pc)) >= 0 with both logarithm arguments in [eps, 1-eps],
     CE = (Σ_i -Σ_j tc ln pc)/m >= 0, SGD: x - lr*g,
   together with the values of the constants read from the Go sources (Consts.v).
   (Accuracy, C19, is in AccRP.v.) *)
From Coq Require Import List Arith ZArith Lia Reals Lra.
From Qeep Require Import Model.Scalar Model.Nd Model.Fill Model.Data Model.Valid Model.Api Model.Grad
  Model.Components Model.Consts Spec.RScalar.
From Qeep Require Import Proofs.NdP Proofs.ElemP Proofs.CompP Proofs.LossP Proofs.ReduceRP Proofs.VjpElemP.
Import ListNotations.
Open Scope R_scope.

(* ================================================================== *)
(*  the constants of the Go sources, as real numbers                   *)
(* ================================================================== *)
Definition epsR : R := dec2R (fst c_epsilon) (snd c_epsilon).
Definition omeR : R := dec2R (fst c_one_minus_epsilon) (snd c_one_minus_epsilon).

Lemma epsilon_value : epsR = / 10 ^ 12.
Proof.
  unfold epsR, dec2R, c_epsilon; cbn [fst snd].
  change (powerRZ 10 (-12)) with (/ 10 ^ 12). ring.
Qed.

Lemma epsilon_value_powerRZ : epsR = powerRZ 10 (-12).
Proof. unfold epsR, dec2R, c_epsilon; cbn [fst snd]. ring. Qed.

Lemma one_minus_epsilon_value : omeR = 1 - epsR.
Proof.
  rewrite epsilon_value. unfold omeR, dec2R, c_one_minus_epsilon; cbn [fst snd].
  change (powerRZ 10 (-12)) with (/ 10 ^ 12). lra.
Qed.

Lemma epsilon_pos : 0 < epsR.
Proof. rewrite epsilon_value. lra. Qed.

Lemma epsilon_order : epsR < 1 - epsR /\ 1 - epsR < 1.
Proof. rewrite epsilon_value. lra. Qed.

Lemma epsilon_lt_ome : 0 < epsR /\ epsR < omeR /\ omeR < 1.
Proof. rewrite one_minus_epsilon_value. pose proof epsilon_pos. pose proof epsilon_order. lra. Qed.

Lemma leaky_default_slope : dec2R (fst c_leaky_m) (snd c_leaky_m) = 0.01.
Proof.
  unfold dec2R, c_leaky_m; cbn [fst snd]. change (powerRZ 10 (-2)) with (/ 10 ^ 2). lra.
Qed.

Lemma sgd_default_learning_rate : dec2R (fst c_sgd_lr) (snd c_sgd_lr) = 0.01.
Proof.
  unfold dec2R, c_sgd_lr; cbn [fst snd]. change (powerRZ 10 (-2)) with (/ 10 ^ 2). lra.
Qed.

(* ================================================================== *)
(*  real-number facts                                                  *)
(* ================================================================== *)
Lemma Rpow_m1 x : Rpow x (-1) = / x.
Proof. rewrite (Rpow_IZR x (-1)). change (powerRZ x (-1)) with (/ x ^ 1). rewrite pow_1. reflexivity. Qed.

Lemma ln_le_0 x : 0 < x -> x <= 1 -> ln x <= 0.
Proof.
  intros H0 [H1| ->]; [|rewrite ln_1; lra].
  pose proof (ln_increasing x 1 H0 H1) as H. rewrite ln_1 in H. lra.
Qed.

Lemma ln_lt_0 x : 0 < x -> x < 1 -> ln x < 0.
Proof. intros H0 H1. pose proof (ln_increasing x 1 H0 H1) as H. rewrite ln_1 in H. exact H. Qed.

Lemma Rsum_nonneg xs : Forall (fun x => 0 <= x) xs -> 0 <= Rsum xs.
Proof.
  induction 1 as [|x xs Hx _ IH]; unfold Rsum in *; cbn [fold_right]; lra.
Qed.

Lemma Rsum_nonpos xs : Forall (fun x => x <= 0) xs -> Rsum xs <= 0.
Proof.
  induction 1 as [|x xs Hx _ IH]; unfold Rsum in *; cbn [fold_right]; lra.
Qed.

Lemma Rsum_map_ext {X} (f g : X -> R) l : (forall x, In x l -> f x = g x) -> Rsum (map f l) = Rsum (map g l).
Proof. intros H. f_equal. apply map_ext_in. exact H. Qed.

Lemma Rsum_map_opp {X} (f : X -> R) l : Rsum (map (fun x => - f x) l) = - Rsum (map f l).
Proof. induction l as [|x l IH]; unfold Rsum in *; cbn [map fold_right]; [ring|rewrite IH; ring]. Qed.

Lemma clamp_range l u e : l <= u -> l <= Rmax l (Rmin e u) <= u.
Proof.
  intros H. split; [apply Rmax_l|]. apply Rmax_lub; [exact H|apply Rmin_r].
Qed.

Lemma clamp_id l u e : l <= e <= u -> Rmax l (Rmin e u) = e.
Proof. intros [H1 H2]. rewrite Rmin_left by exact H2. apply Rmax_right. exact H1. Qed.

(* element-wise descriptions only matter up to pointwise equality *)
Lemma pw1_ext {A} (F G : A -> A) (x r : tensor A) : (forall e, F e = G e) -> pw1 F x r -> pw1 G x r.
Proof.
  intros E (Hd & Hw & Hg). split; [exact Hd|]. split; [exact Hw|]. intros idx Hv.
  rewrite (Hg idx Hv). destruct (get (data x) idx) as [a|]; cbn [option_map]; [rewrite E|]; reflexivity.
Qed.

Section R.
Variable thr : R.
Variable draw : bool -> nat -> R.
Local Instance RS : Scalar R := R_scalar thr draw.
Notation T := (tensor R).
Notation heap := (@heap R).

(* ---- the fields of the instance, folded ---- *)
Lemma s0_R : s0 = 0.                                 Proof. reflexivity. Qed.
Lemma s1_R : s1 = 1.                                 Proof. reflexivity. Qed.
Lemma sadd_R a b : sadd a b = a + b.                 Proof. reflexivity. Qed.
Lemma ssub_R a b : ssub a b = a - b.                 Proof. reflexivity. Qed.
Lemma smul_R a b : smul a b = a * b.                 Proof. reflexivity. Qed.
Lemma sdiv_R a b : sdiv a b = a / b.                 Proof. reflexivity. Qed.
Lemma spow_R a b : spow a b = Rpow a b.              Proof. reflexivity. Qed.
Lemma sexp_R a : sexp a = exp a.                     Proof. reflexivity. Qed.
Lemma slog_R a : slog a = ln a.                      Proof. reflexivity. Qed.
Lemma stanh_R a : stanh a = tanh a.                  Proof. reflexivity. Qed.
Lemma smax_R a b : smax a b = Rmax a b.              Proof. reflexivity. Qed.
Lemma smin_R a b : smin a b = Rmin a b.              Proof. reflexivity. Qed.
Lemma sofnat_R n : sofnat n = INR n.                 Proof. reflexivity. Qed.
Lemma sconst_R m e : sconst m e = dec2R m e.         Proof. reflexivity. Qed.

Lemma fold_sadd_R xs a : fold_left sadd xs a = a + Rsum xs.
Proof. apply fold_left_Rplus. Qed.

(* all of them at once (rewriting with [sconst_R] twice in a row is fragile: the instance fields are
   convertible to their values) *)
Ltac inR := cbn [s0 s1 sadd ssub smul sdiv spow sexp slog stanh smax smin sofnat sconst RS R_scalar].

(* ================================================================== *)
(*  C14  activation values                                             *)
(* ================================================================== *)

Theorem relu_is_max0 e : reluF e = Rmax 0 e.
Proof.
  unfold reluF. inR. rewrite dec2R_0. f_equal. ring.
Qed.

Corollary relu_cases e : (0 <= e -> reluF e = e) /\ (e <= 0 -> reluF e = 0).
Proof.
  rewrite relu_is_max0. split; intros H; [apply Rmax_right|apply Rmax_left]; exact H.
Qed.

Theorem leaky_is m e : leakyF m e = Rmax 0 e + m * Rmin 0 e.
Proof.
  unfold leakyF. inR. rewrite dec2R_0.
  replace (0 * e) with 0 by ring. reflexivity.
Qed.

Corollary leaky_cases m e : (0 <= e -> leakyF m e = e) /\ (e <= 0 -> leakyF m e = m * e).
Proof.
  rewrite leaky_is. split; intros H.
  - rewrite Rmax_right, Rmin_left by exact H. ring.
  - rewrite Rmax_left, Rmin_right by exact H. ring.
Qed.

Theorem sigmoid_is_logistic e : sigmoidF e = / (1 + exp (- e)).
Proof.
  unfold sigmoidF. inR. rewrite dec2R_0, dec2R_m1.
  rewrite Rpow_0, Rpow_m1. do 3 f_equal. ring.
Qed.

Theorem sigmoid_range e : 0 < sigmoidF e < 1.
Proof.
  rewrite sigmoid_is_logistic. pose proof (exp_pos (- e)) as H.
  split.
  - apply Rinv_0_lt_compat. lra.
  - rewrite <- Rinv_1 at 2. apply Rinv_lt_contravar; lra.
Qed.

Theorem tanh_is_tanh e : stanh e = tanh e.
Proof. reflexivity. Qed.

(* heap level: the layers' outputs are these functions of the input's elements *)
Theorem relu_forward_real (h : heap) x name xv : valOf h x = Some xv -> wf xv ->
  exists r, produces h (relu_forward h [Some x] name) r name /\ pw1 (fun e => Rmax 0 e) xv r.
Proof.
  intros Hx W. destruct (relu_forward_spec h x name xv Hx W) as (r & H & Hr). exists r. split; [exact H|].
  exact (pw1_ext _ _ _ _ relu_is_max0 Hr).
Qed.

Theorem leaky_forward_real (h : heap) m x name xv : valOf h x = Some xv -> wf xv ->
  exists r, produces h (leaky_forward h m [Some x] name) r name /\
            pw1 (fun e => Rmax 0 e + m * Rmin 0 e) xv r.
Proof.
  intros Hx W. destruct (leaky_forward_spec h m x name xv Hx W) as (r & H & Hr). exists r. split; [exact H|].
  exact (pw1_ext _ _ _ _ (leaky_is m) Hr).
Qed.

Theorem sigmoid_forward_real (h : heap) x name xv : valOf h x = Some xv -> wf xv ->
  exists r, produces h (sigmoid_forward h [Some x] name) r name /\ pw1 (fun e => / (1 + exp (- e))) xv r.
Proof.
  intros Hx W. destruct (sigmoid_forward_spec h x name xv Hx W) as (r & H & Hr). exists r. split; [exact H|].
  exact (pw1_ext _ _ _ _ sigmoid_is_logistic Hr).
Qed.

Theorem tanh_forward_real (h : heap) x name xv : valOf h x = Some xv -> wf xv ->
  exists r, produces h (tanh_forward h [Some x] name) r name /\ pw1 tanh xv r.
Proof. exact (tanh_forward_spec h x name xv). Qed.

(* ================================================================== *)
(*  C17  SGD                                                           *)
(* ================================================================== *)
Theorem sgd_is x lr gx : ssub x (smul lr gx) = x - lr * gx.
Proof. reflexivity. Qed.

Theorem sgd_update_real (h : heap) (lr : R) (w : nat) name (wv g : T) :
  valOf h w = Some wv -> gradOf h w = Some g -> wf wv -> wf g -> dims g = dims wv ->
  exists n, sgd_update h lr (Some w) name = (h ++ [n], Ok (length h)) /\
    dims (nval n) = dims wv /\ wf (nval n) /\
    forall idx, validIdx (dims wv) idx ->
      get (data (nval n)) idx =
      match get (data wv) idx, get (data g) idx with
      | Some x, Some gx => Some (x - lr * gx) | _, _ => None end.
Proof.
  intros Hw Hg Wwv Wg Ed.
  destruct (sgd_update_spec h lr w name wv g Hw Hg Wwv Wg Ed) as (n & E & _ & _ & _ & _ & _ & Hd & Wn & Hgn).
  exists n. split; [exact E|]. split; [exact Hd|]. split; [exact Wn|]. exact Hgn.
Qed.

(* ================================================================== *)
(*  C12  loss values                                                   *)
(* ================================================================== *)

(* ---- clip ---- *)
Theorem clip_eq l u e : clipF l u e = Rmax l (Rmin e u).
Proof.
  unfold clipF. inR. rewrite dec2R_0, Rpow_0, !Rmult_1_r. reflexivity.
Qed.

Theorem clip_is l u e : l <= u -> clipF l u e = Rmax l (Rmin e u) /\ l <= clipF l u e <= u.
Proof. intros H. rewrite clip_eq. split; [reflexivity|apply clamp_range, H]. Qed.

Theorem clip_inside l u e : l <= e <= u -> clipF l u e = e.
Proof. intros H. rewrite clip_eq. apply clamp_id, H. Qed.

Corollary clip_below l u e : l <= u -> e <= l -> clipF l u e = l.
Proof. intros H1 H2. rewrite clip_eq. rewrite Rmin_left by lra. apply Rmax_left. exact H2. Qed.

Corollary clip_above l u e : l <= u -> u <= e -> clipF l u e = u.
Proof. intros H1 H2. rewrite clip_eq. rewrite Rmin_right by exact H2. apply Rmax_right. exact H1. Qed.

(* ---- MSE ---- *)
Lemma mseF_is p t : mseF p t = (t - p) ^ 2.
Proof. unfold mseF. inR. rewrite ReduceRP.Rpow_2. ring. Qed.

Lemma map2_ext (f g : R -> R -> R) xs ys : (forall x y, f x y = g x y) -> map2 f xs ys = map2 g xs ys.
Proof. intros E. unfold map2. apply map_ext. intros [x y]. apply E. Qed.

Theorem mse_is ps ts n :
  sdiv (fold_left sadd (map2 mseF ps ts) s0) (sofnat n) = Rsum (map2 (fun p t => (t - p) ^ 2) ps ts) / INR n.
Proof.
  rewrite fold_sadd_R. inR. rewrite Rplus_0_l. rewrite (map2_ext mseF _ ps ts mseF_is). reflexivity.
Qed.

Theorem mse_nonneg ps ts n : (0 < n)%nat ->
  0 <= sdiv (fold_left sadd (map2 mseF ps ts) s0) (sofnat n).
Proof.
  intros Hn. rewrite mse_is. apply Rmult_le_pos.
  - apply Rsum_nonneg. unfold map2. apply Forall_forall. intros v Hv. apply in_map_iff in Hv as ([p t] & <- & _).
    cbn [fst snd]. apply pow2_ge_0.
  - left. apply Rinv_0_lt_compat. apply lt_0_INR. exact Hn.
Qed.

(* the mean is zero exactly when predictions and targets coincide position by position *)
Theorem mse_zero_iff ps ts n : (0 < n)%nat -> length ps = length ts ->
  (sdiv (fold_left sadd (map2 mseF ps ts) s0) (sofnat n) = 0 <-> ps = ts).
Proof.
  intros Hn Hl. rewrite mse_is.
  assert (Hi : 0 < / INR n) by (apply Rinv_0_lt_compat, lt_0_INR, Hn).
  assert (E : Rsum (map2 (fun p t => (t - p) ^ 2) ps ts) = 0 <-> ps = ts).
  { clear -Hl. revert ts Hl. induction ps as [|p ps IH]; intros [|t ts] Hl; cbn in Hl; try discriminate.
    - split; reflexivity.
    - unfold map2, Rsum in *. cbn [combine map fold_right fst snd].
      assert (Hs : 0 <= fold_right Rplus 0 (map (fun q => (snd q - fst q) ^ 2) (combine ps ts))).
      { apply (Rsum_nonneg (map _ _)). apply Forall_forall. intros v Hv. apply in_map_iff in Hv as (q & <- & _).
        apply pow2_ge_0. }
      pose proof (pow2_ge_0 (t - p)) as Hp. split.
      + intros H. assert (H1 : (t - p) ^ 2 = 0) by lra.
        assert (H2 : fold_right Rplus 0 (map (fun q => (snd q - fst q) ^ 2) (combine ps ts)) = 0) by lra.
        apply (IH ts ltac:(lia)) in H2. subst ts. f_equal.
        assert (t - p = 0) by (destruct (Req_dec (t - p) 0) as [Z|Z]; [exact Z|exfalso; apply (pow_nonzero _ 2) in Z; lra]).
        lra.
      + intros H. inversion H; subst. assert (H2 : ts = ts) by reflexivity.
        apply (IH ts ltac:(lia)) in H2. rewrite H2. replace (t - t) with 0 by ring. ring. }
  split.
  - intros H. apply E. apply Rmult_integral in H as [H|H]; [exact H|lra].
  - intros H. apply E in H. unfold Rdiv. rewrite H. ring.
Qed.

(* ---- BCE ---- *)
Section Eps.
Variables (eps ome : R).

Theorem bce_is p t :
  let pc := Rmax eps (Rmin p ome) in
  let tc := Rmax 0 (Rmin t 1) in
  bceF eps ome p t = - (tc * ln pc + (1 - tc) * ln (1 - pc)).
Proof.
  cbv zeta. unfold bceF. rewrite !clip_eq.
  inR. rewrite dec2R_0, dec2R_1, dec2R_m1, Rpow_0. ring.
Qed.

Theorem ce_is p t :
  let pc := Rmax eps (Rmin p ome) in
  let tc := Rmax 0 (Rmin t 1) in
  ceElF eps ome p t = tc * ln pc.
Proof.
  cbv zeta. unfold ceElF. rewrite !clip_eq. inR. rewrite dec2R_0, dec2R_1. reflexivity.
Qed.

Hypothesis eps_pos : 0 < eps.
Hypothesis eps_le_ome : eps <= ome.
Hypothesis ome_lt_1 : ome < 1.

(* the arguments of both logarithms are bounded away from 0 (and from 1), for EVERY real p *)
Theorem log_arguments_finite p :
  let pc := Rmax eps (Rmin p ome) in
  eps <= pc <= ome /\ 1 - ome <= 1 - pc <= 1 - eps /\ 0 < pc < 1 /\ 0 < 1 - pc < 1.
Proof.
  cbv zeta. pose proof (clamp_range eps ome p eps_le_ome) as [H1 H2]. repeat split; lra.
Qed.

Theorem target_clip_range t : 0 <= Rmax 0 (Rmin t 1) <= 1.
Proof. apply clamp_range. lra. Qed.

Theorem bce_elem_nonneg p t : 0 <= bceF eps ome p t.
Proof.
  rewrite bce_is. cbv zeta.
  destruct (log_arguments_finite p) as (_ & _ & [Hp0 Hp1] & [Hq0 Hq1]). cbv zeta in *.
  destruct (target_clip_range t) as [Ht0 Ht1].
  set (pc := Rmax eps (Rmin p ome)) in *. set (tc := Rmax 0 (Rmin t 1)) in *.
  pose proof (ln_lt_0 pc Hp0 Hp1) as L1. pose proof (ln_lt_0 (1 - pc) Hq0 Hq1) as L2.
  assert (A1 : tc * ln pc <= 0) by (rewrite <- (Rmult_0_r tc); apply Rmult_le_compat_l; lra).
  assert (A2 : (1 - tc) * ln (1 - pc) <= 0) by (rewrite <- (Rmult_0_r (1 - tc)); apply Rmult_le_compat_l; lra).
  lra.
Qed.

(* strictly positive, in fact: a clipped prediction never reaches 0 or 1 *)
Theorem bce_elem_pos p t : 0 < bceF eps ome p t.
Proof.
  rewrite bce_is. cbv zeta.
  destruct (log_arguments_finite p) as (_ & _ & [Hp0 Hp1] & [Hq0 Hq1]). cbv zeta in *.
  destruct (target_clip_range t) as [Ht0 Ht1].
  set (pc := Rmax eps (Rmin p ome)) in *. set (tc := Rmax 0 (Rmin t 1)) in *.
  pose proof (ln_lt_0 pc Hp0 Hp1) as L1. pose proof (ln_lt_0 (1 - pc) Hq0 Hq1) as L2.
  assert (A1 : tc * ln pc <= 0) by (rewrite <- (Rmult_0_r tc); apply Rmult_le_compat_l; lra).
  assert (A2 : (1 - tc) * ln (1 - pc) <= 0) by (rewrite <- (Rmult_0_r (1 - tc)); apply Rmult_le_compat_l; lra).
  destruct (Rle_lt_dec tc (/ 2)) as [Hs|Hs].
  - assert ((1 - tc) * ln (1 - pc) < 0); [|lra].
    rewrite <- (Rmult_0_r (1 - tc)). apply Rmult_lt_compat_l; lra.
  - assert (tc * ln pc < 0); [|lra].
    rewrite <- (Rmult_0_r tc). apply Rmult_lt_compat_l; lra.
Qed.

Theorem bce_is_mean ps ts n :
  sdiv (fold_left sadd (map2 (bceF eps ome) ps ts) s0) (sofnat n) =
  Rsum (map2 (fun p t => let pc := Rmax eps (Rmin p ome) in let tc := Rmax 0 (Rmin t 1) in
                         - (tc * ln pc + (1 - tc) * ln (1 - pc))) ps ts) / INR n.
Proof.
  rewrite fold_sadd_R. inR. rewrite Rplus_0_l. rewrite (map2_ext (bceF eps ome) _ ps ts bce_is). reflexivity.
Qed.

Theorem bce_nonneg ps ts n : (0 < n)%nat ->
  0 <= sdiv (fold_left sadd (map2 (bceF eps ome) ps ts) s0) (sofnat n).
Proof.
  intros Hn. rewrite fold_sadd_R. inR. rewrite Rplus_0_l. apply Rmult_le_pos.
  - apply Rsum_nonneg. unfold map2. apply Forall_forall. intros v Hv. apply in_map_iff in Hv as ([p t] & <- & _).
    cbn [fst snd]. apply bce_elem_nonneg.
  - left. apply Rinv_0_lt_compat. apply lt_0_INR. exact Hn.
Qed.

(* ---- CE ---- *)
Theorem ce_elem_nonpos p t : ceElF eps ome p t <= 0.
Proof.
  rewrite ce_is. cbv zeta.
  destruct (log_arguments_finite p) as (_ & _ & [Hp0 Hp1] & _). cbv zeta in *.
  destruct (target_clip_range t) as [Ht0 Ht1].
  pose proof (ln_lt_0 _ Hp0 Hp1) as L1.
  set (pc := Rmax eps (Rmin p ome)) in *. set (tc := Rmax 0 (Rmin t 1)) in *.
  assert (A1 : tc * ln pc <= tc * 0) by (apply Rmult_le_compat_l; lra). lra.
Qed.

(* the expression of [ce_compute_spec] *)
Definition ceExpr (m k : nat) (P Tm : nat -> nat -> R) : R :=
  sdiv (fold_left sadd
          (map (fun i => smul (sconst (-1) 0) (fold_left sadd (map (fun j => ceElF eps ome (P i j) (Tm i j)) (seq 0 k)) s0))
               (seq 0 m)) s0)
       (sofnat m).

Theorem ce_is_mean m k P Tm :
  ceExpr m k P Tm =
  Rsum (map (fun i => - Rsum (map (fun j => Rmax 0 (Rmin (Tm i j) 1) * ln (Rmax eps (Rmin (P i j) ome))) (seq 0 k)))
            (seq 0 m)) / INR m.
Proof.
  unfold ceExpr. rewrite fold_sadd_R. inR. rewrite Rplus_0_l. f_equal. apply Rsum_map_ext.
  intros i _. rewrite fold_sadd_R. inR. rewrite dec2R_m1, Rplus_0_l.
  rewrite (Rsum_map_ext (fun j => ceElF eps ome (P i j) (Tm i j))
             (fun j => Rmax 0 (Rmin (Tm i j) 1) * ln (Rmax eps (Rmin (P i j) ome)))).
  - ring.
  - intros j _. apply ce_is.
Qed.

Theorem ce_nonneg m k P Tm : 0 <= ceExpr m k P Tm.
Proof.
  unfold ceExpr. rewrite fold_sadd_R. inR. rewrite Rplus_0_l.
  destruct m as [|m].
  - cbn [seq map]. unfold Rsum. cbn [fold_right]. unfold Rdiv. rewrite Rmult_0_l. lra.
  - apply Rmult_le_pos.
    + apply Rsum_nonneg. apply Forall_forall. intros v Hv. apply in_map_iff in Hv as (i & <- & _).
      rewrite fold_sadd_R. inR. rewrite dec2R_m1, Rplus_0_l.
      assert (Rsum (map (fun j => ceElF eps ome (P i j) (Tm i j)) (seq 0 k)) <= 0); [|lra].
      apply Rsum_nonpos. apply Forall_forall. intros w Hw. apply in_map_iff in Hw as (j & <- & _).
      apply ce_elem_nonpos.
    + left. apply Rinv_0_lt_compat. apply lt_0_INR. lia.
Qed.

End Eps.

(* ---- with the constants of the Go sources ---- *)
Theorem bce_log_arguments_go p :
  let pc := clipF epsR omeR p in
  pc = Rmax epsR (Rmin p (1 - epsR)) /\ epsR <= pc <= 1 - epsR /\ epsR <= 1 - pc <= 1 - epsR.
Proof.
  cbv zeta. rewrite clip_eq. rewrite one_minus_epsilon_value. split; [reflexivity|].
  pose proof epsilon_order as [H1 H2].
  pose proof (clamp_range epsR (1 - epsR) p ltac:(lra)) as [H3 H4]. repeat split; lra.
Qed.

Theorem bce_nonneg_go ps ts n : (0 < n)%nat ->
  0 <= sdiv (fold_left sadd (map2 (bceF epsR omeR) ps ts) s0) (sofnat n).
Proof. destruct epsilon_lt_ome as (H1 & H2 & H3). apply bce_nonneg; lra. Qed.

Theorem ce_nonneg_go m k P Tm : 0 <= ceExpr epsR omeR m k P Tm.
Proof. destruct epsilon_lt_ome as (H1 & H2 & H3). apply ce_nonneg; lra. Qed.

(* heap level: what MSE.Compute / BCE.Compute / CE.Compute return on accepted arguments *)
Theorem mse_compute_real (h : heap) yp yt p t name pv tv :
  lossArgs1 h yp yt = Some (p, t) -> valOf h p = Some pv -> valOf h t = Some tv -> wf pv -> wf tv ->
  exists n r v, dims pv = [n] /\ dims tv = [n] /\
    produces h (mse_compute h yp yt name) r name /\ dims r = [] /\ get (data r) [] = Some v /\
    v = Rsum (map2 (fun p t => (t - p) ^ 2) (flat (data pv)) (flat (data tv))) / INR n /\
    ((0 < n)%nat -> 0 <= v).
Proof.
  intros E Hp Ht Wp Wt.
  destruct (mse_compute_spec h yp yt p t name pv tv E Hp Ht Wp Wt) as (n & r & Ep & Et & H & Hd & _ & Hg).
  exists n, r, (sdiv (fold_left sadd (map2 mseF (flat (data pv)) (flat (data tv))) s0) (sofnat n)).
  split; [exact Ep|]. split; [exact Et|]. split; [exact H|]. split; [exact Hd|]. split; [exact Hg|].
  split; [apply mse_is|apply mse_nonneg].
Qed.

Theorem bce_compute_real (h : heap) yp yt p t name pv tv :
  lossArgs1 h yp yt = Some (p, t) -> valOf h p = Some pv -> valOf h t = Some tv -> wf pv -> wf tv ->
  exists n r v, dims pv = [n] /\ dims tv = [n] /\
    produces h (bce_compute epsR omeR h yp yt name) r name /\ dims r = [] /\ get (data r) [] = Some v /\
    v = Rsum (map2 (fun p t => let pc := Rmax epsR (Rmin p omeR) in let tc := Rmax 0 (Rmin t 1) in
                               - (tc * ln pc + (1 - tc) * ln (1 - pc))) (flat (data pv)) (flat (data tv))) / INR n /\
    ((0 < n)%nat -> 0 <= v).
Proof.
  intros E Hp Ht Wp Wt.
  destruct (bce_compute_spec epsR omeR h yp yt p t name pv tv E Hp Ht Wp Wt) as (n & r & Ep & Et & H & Hd & _ & Hg).
  exists n, r, (sdiv (fold_left sadd (map2 (bceF epsR omeR) (flat (data pv)) (flat (data tv))) s0) (sofnat n)).
  split; [exact Ep|]. split; [exact Et|]. split; [exact H|]. split; [exact Hd|]. split; [exact Hg|].
  split; [apply bce_is_mean|apply bce_nonneg_go].
Qed.

Theorem ce_compute_real (h : heap) yp yt p t name pv tv m k (P Tm : nat -> nat -> R) :
  ceArgs h yp yt = Some (p, t) -> valOf h p = Some pv -> valOf h t = Some tv -> wf pv -> wf tv ->
  dims pv = [m; k] ->
  (forall i j, (i < m)%nat -> (j < k)%nat -> get (data pv) [i; j] = Some (P i j)) ->
  (forall i j, (i < m)%nat -> (j < k)%nat -> get (data tv) [i; j] = Some (Tm i j)) ->
  exists r v, produces h (ce_compute epsR omeR h yp yt name) r name /\ dims r = [] /\ get (data r) [] = Some v /\
    v = Rsum (map (fun i => - Rsum (map (fun j => Rmax 0 (Rmin (Tm i j) 1) * ln (Rmax epsR (Rmin (P i j) omeR)))
                                        (seq 0 k))) (seq 0 m)) / INR m /\
    0 <= v.
Proof.
  intros E Hp Ht Wp Wt Ep HP HT.
  destruct (ce_compute_spec epsR omeR h yp yt p t name pv tv m k P Tm E Hp Ht Wp Wt Ep HP HT) as (r & H & Hd & _ & Hg).
  exists r, (ceExpr epsR omeR m k P Tm). split; [exact H|]. split; [exact Hd|]. split; [exact Hg|].
  split; [apply ce_is_mean|apply ce_nonneg_go].
Qed.

End R.

(* ================================================================== *)
(*  examples                                                           *)
(* ================================================================== *)
Section Examples.
Variables (thr : R) (draw : bool -> nat -> R).
Local Hint Extern 0 (Scalar R) => exact (R_scalar thr draw) : typeclass_instances.

Example relu_ex : reluF 3 = 3 /\ reluF (-3) = 0 /\ reluF 0 = 0.
Proof.
  repeat split; [apply relu_cases; lra|apply relu_cases; lra|apply relu_cases; lra].
Qed.

Example leaky_ex : leakyF (dec2R (fst c_leaky_m) (snd c_leaky_m)) (-3) = -0.03 /\
                   leakyF (dec2R (fst c_leaky_m) (snd c_leaky_m)) 3 = 3.
Proof.
  rewrite leaky_default_slope. split.
  - rewrite (proj2 (leaky_cases thr draw _ _)); lra.
  - apply leaky_cases; lra.
Qed.

Example sigmoid_ex : sigmoidF 0 = / 2.
Proof. rewrite sigmoid_is_logistic. rewrite Ropp_0, exp_0. f_equal. Qed.

(* predictions 0 and 1 (and anything outside [0,1]) are clipped: the logarithms see eps or 1 - eps *)
Example clip_ex :
  clipF epsR omeR 0 = epsR /\ clipF epsR omeR 1 = 1 - epsR /\ clipF epsR omeR (-7) = epsR /\
  clipF epsR omeR 7 = 1 - epsR /\ clipF epsR omeR (/ 2) = / 2.
Proof.
  destruct epsilon_lt_ome as (H1 & H2 & H3). pose proof one_minus_epsilon_value as E.
  pose proof epsilon_value as V.
  repeat split.
  - apply clip_below; lra.
  - rewrite <- E. apply clip_above; lra.
  - apply clip_below; lra.
  - rewrite <- E. apply clip_above; lra.
  - apply clip_inside. lra.
Qed.

(* a perfect confident prediction still has a (tiny) positive loss: -ln(1 - eps) *)
Example bce_ex : bceF epsR omeR 1 1 = - ln (1 - epsR).
Proof.
  destruct epsilon_lt_ome as (H1 & H2 & H3). rewrite bce_is. cbv zeta.
  rewrite (Rmin_right 1 omeR) by lra. rewrite (Rmax_right epsR omeR) by lra.
  rewrite (Rmin_left 1 1) by lra. rewrite (Rmax_right 0 1) by lra. rewrite one_minus_epsilon_value. ring.
Qed.

Example mse_ex : sdiv (fold_left sadd (map2 mseF [1; 5; 9] [2; 3; 3]) s0) (sofnat 3) = 41 / 3.
Proof. rewrite mse_is. unfold map2, Rsum. cbn. lra. Qed.

Example sgd_ex : ssub 30 (smul (dec2R (fst c_sgd_lr) (snd c_sgd_lr)) (-300)) = 33.
Proof. rewrite sgd_is, sgd_default_learning_rate. lra. Qed.

End Examples.

Print Assumptions epsilon_value.
Print Assumptions one_minus_epsilon_value.
Print Assumptions epsilon_order.
Print Assumptions leaky_default_slope.
Print Assumptions sgd_default_learning_rate.
Print Assumptions relu_is_max0.
Print Assumptions leaky_is.
Print Assumptions sigmoid_is_logistic.
Print Assumptions sigmoid_range.
Print Assumptions relu_forward_real.
Print Assumptions leaky_forward_real.
Print Assumptions sigmoid_forward_real.
Print Assumptions tanh_forward_real.
Print Assumptions sgd_is.
Print Assumptions sgd_update_real.
Print Assumptions clip_is.
Print Assumptions clip_inside.
Print Assumptions mse_is.
Print Assumptions mse_nonneg.
Print Assumptions mse_zero_iff.
Print Assumptions bce_is.
Print Assumptions log_arguments_finite.
Print Assumptions bce_elem_nonneg.
Print Assumptions bce_elem_pos.
Print Assumptions bce_nonneg.
Print Assumptions ce_is.
Print Assumptions ce_elem_nonpos.
Print Assumptions ce_is_mean.
Print Assumptions ce_nonneg.
Print Assumptions bce_log_arguments_go.
Print Assumptions bce_nonneg_go.
Print Assumptions ce_nonneg_go.
Print Assumptions mse_compute_real.
Print Assumptions bce_compute_real.
Print Assumptions ce_compute_real.
