(* AccP.v — metrics/accuracy.go (C19): one Accumulate call adds the number of rows to the total
   and the truncated sum of the equality indicators to the matched count; a rejected call changes
   nothing; over a history of calls the counters are the sums over the accepted calls, and the
   rejected calls can be deleted.  Arbitrary [Scalar A], no laws: exact expressions. *)
From Coq Require Import List Arith ZArith Bool Lia.
From Qeep Require Import Model.Scalar Model.Nd Model.Fill Model.Data Model.Valid Model.Api Model.Grad Model.Components.
From Qeep Require Import Proofs.NdP Proofs.ElemP Proofs.TrackP Spec.ValidSpec Proofs.ValidP Proofs.CompP.
Import ListNotations.

Section AccP.
Context {A : Type} {SA : Scalar A}.
Notation T := (tensor A).
Notation heap := (@heap A).
Notation accuracy := (@accuracy A).

(* every tensor of the heap is well formed *)
Definition vals_wf (h : heap) : Prop := forall i v, valOf h i = Some v -> wf v.

(* sum of the equality indicators of two element sequences *)
Definition matchedL (pv tv : T) : A :=
  fold_left sadd (map2 seqt (flat (data pv)) (flat (data tv))) s0.

(* row-major view of v_same *)
Lemma v_same_flat (b : binary) (t u r : T) : wf t -> wf u -> v_same b t u = Ok r ->
  dims t = dims u /\ dims r = dims t /\ wf r /\
  flat (data r) = map2 (binaryF b) (flat (data t)) (flat (data u)).
Proof.
  intros Ht Hu E. destruct (v_same_spec b t u Ht Hu) as [H1 H2].
  destruct (list_eq_dec Nat.eq_dec (dims t) (dims u)) as [Ed|Nd]; [|rewrite (H2 Nd) in E; discriminate].
  destruct (H1 Ed) as (r' & Er & Hd & Hw & Hg). assert (r' = r) by congruence. subst r'.
  split; [exact Ed|]. split; [exact Hd|]. split; [exact Hw|].
  apply (pw2_flat (binaryF b) t u r Ht Hu Ed). split; [exact Hd|]. split; [exact Hw|exact Hg].
Qed.

Lemma rank1_flat_length (v : T) n : wf v -> dims v = [n] -> length (flat (data v)) = n.
Proof.
  intros [Hw _] Ed. rewrite (flat_length A (dims v) (data v) Hw), Ed. cbn. lia.
Qed.

(* ---------- one call ---------- *)
Theorem acc_accumulate_spec (h : heap) (a : accuracy) (yp yt : targ) : vals_wf h ->
  match lossArgs1 h yp yt with
  | Some (p, t) =>
      exists pv tv n, yp = Some p /\ yt = Some t /\ valOf h p = Some pv /\ valOf h t = Some tv /\
        dims pv = [n] /\ dims tv = [n] /\ length (flat (data pv)) = n /\ length (flat (data tv)) = n /\
        acc_accumulate h a yp yt =
          (mkAcc (acc_total a + n) (sadd (acc_correct a) (strunc (matchedL pv tv))), Ok tt)
  | None => acc_accumulate h a yp yt = (a, Err)
  end.
Proof.
  intros W. unfold acc_accumulate. destruct (lossArgs1 h yp yt) as [[p t]|] eqn:E; [|reflexivity].
  apply lossArgs1_spec in E as (-> & -> & pv & tv & n & Hp & Ht & Hdp & Hdt).
  pose proof (W _ _ Hp) as Wp. pose proof (W _ _ Ht) as Wt.
  exists pv, tv, n. rewrite Hp, Ht.
  do 6 (split; [first [reflexivity|assumption]|]).
  split; [apply rank1_flat_length; assumption|]. split; [apply rank1_flat_length; assumption|].
  destruct (v_same_spec BiEq pv tv Wp Wt) as [H _].
  destruct (H ltac:(congruence)) as (eq & Eeq & Hd & Hw & Hg). rewrite Eeq.
  destruct (v_same_flat BiEq pv tv eq Wp Wt Eeq) as (_ & _ & _ & Hfl).
  unfold r_sum. rewrite reduceBy_spec by apply Hw. rewrite Hfl, Hd, Hdp. reflexivity.
Qed.

(* which calls are rejected *)
Lemma lossArgs1_none_iff (h : heap) (yp yt : targ) :
  lossArgs1 h yp yt = None <-> forall p t, ~ lossArgs1Pre h yp yt p t.
Proof.
  split.
  - intros E p t H. apply lossArgs1_spec in H. congruence.
  - intros H. destruct (lossArgs1 h yp yt) as [[p t]|] eqn:E; [|reflexivity].
    apply lossArgs1_spec in E. exfalso. apply (H p t E).
Qed.

Corollary acc_accumulate_rejected (h : heap) (a : accuracy) (yp yt : targ) :
  (forall p t, ~ lossArgs1Pre h yp yt p t) -> acc_accumulate h a yp yt = (a, Err).
Proof. intros H. apply lossArgs1_none_iff in H. unfold acc_accumulate. rewrite H. reflexivity. Qed.

(* whatever the arguments and the heap: a call that does not succeed leaves the counts alone *)
Theorem acc_accumulate_unchanged (h : heap) (a : accuracy) (yp yt : targ) :
  snd (acc_accumulate h a yp yt) <> Ok tt -> fst (acc_accumulate h a yp yt) = a.
Proof.
  unfold acc_accumulate. destruct (lossArgs1 h yp yt) as [[p t]|]; [|reflexivity].
  destruct (valOf h p) as [pv|]; [destruct (valOf h t) as [tv|]|]; try reflexivity.
  destruct (v_same BiEq pv tv) as [eq| |]; try reflexivity.
  destruct (r_sum eq); [|reflexivity]. cbn. intros H. exfalso. apply H. reflexivity.
Qed.

Theorem acc_accumulate_never_panics (h : heap) (a : accuracy) (yp yt : targ) : vals_wf h ->
  snd (acc_accumulate h a yp yt) <> Panic.
Proof.
  intros W. pose proof (acc_accumulate_spec h a yp yt W) as H.
  destruct (lossArgs1 h yp yt) as [[p t]|].
  - destruct H as (pv & tv & n & _ & _ & _ & _ & _ & _ & _ & _ & ->). discriminate.
  - rewrite H. discriminate.
Qed.

Lemma acc_result_eq (a : accuracy) :
  acc_result a = if acc_total a =? 0 then sconst 0 0 else sdiv (acc_correct a) (sofnat (acc_total a)).
Proof. reflexivity. Qed.

(* ---------- a history of calls ---------- *)
Definition acc_run (h : heap) (calls : list (targ * targ)) (a : accuracy) : accuracy :=
  fold_left (fun a c => fst (acc_accumulate h a (fst c) (snd c))) calls a.

Definition accepted (h : heap) (c : targ * targ) : bool :=
  match lossArgs1 h (fst c) (snd c) with Some _ => true | None => false end.
(* number of rows of an accepted call *)
Definition call_len (h : heap) (c : targ * targ) : nat :=
  match lossArgs1 h (fst c) (snd c) with Some (p, _) => dim0Of h p | None => 0 end.
(* matched rows of an accepted call: float64(int(sum of indicators)) *)
Definition call_matched (h : heap) (c : targ * targ) : A :=
  match lossArgs1 h (fst c) (snd c) with
  | Some (p, t) =>
      match valOf h p, valOf h t with Some pv, Some tv => strunc (matchedL pv tv) | _, _ => s0 end
  | None => s0
  end.

Lemma accepted_iff (h : heap) (c : targ * targ) :
  accepted h c = true <-> exists p t, lossArgs1Pre h (fst c) (snd c) p t.
Proof.
  unfold accepted. destruct (lossArgs1 h (fst c) (snd c)) as [[p t]|] eqn:E.
  - split; [|reflexivity]. intros _. exists p, t. apply lossArgs1_spec, E.
  - split; [discriminate|]. intros (p & t & H). apply lossArgs1_spec in H. congruence.
Qed.

Lemma acc_step (h : heap) (a : accuracy) (c : targ * targ) : vals_wf h ->
  fst (acc_accumulate h a (fst c) (snd c)) =
  if accepted h c then mkAcc (acc_total a + call_len h c) (sadd (acc_correct a) (call_matched h c)) else a.
Proof.
  intros W. pose proof (acc_accumulate_spec h a (fst c) (snd c) W) as H.
  unfold accepted, call_len, call_matched. destruct (lossArgs1 h (fst c) (snd c)) as [[p t]|].
  - destruct H as (pv & tv & n & _ & _ & Hp & Ht & Hdp & _ & _ & _ & ->). cbn [fst].
    unfold dim0Of. rewrite Hp, Ht, Hdp. reflexivity.
  - rewrite H. reflexivity.
Qed.

(* rejected calls can be deleted *)
Theorem acc_run_filter (h : heap) (calls : list (targ * targ)) : vals_wf h ->
  forall a, acc_run h calls a = acc_run h (filter (accepted h) calls) a.
Proof.
  intros W. unfold acc_run. induction calls as [|c calls IH]; intros a; cbn [fold_left filter]; [reflexivity|].
  rewrite acc_step by exact W. destruct (accepted h c) eqn:E; cbn [fold_left].
  - rewrite acc_step by exact W. rewrite E. apply IH.
  - apply IH.
Qed.

Corollary acc_run_delete (h : heap) (l1 l2 : list (targ * targ)) (c : targ * targ) (a : accuracy) :
  vals_wf h -> accepted h c = false -> acc_run h (l1 ++ c :: l2) a = acc_run h (l1 ++ l2) a.
Proof.
  intros W E. rewrite (acc_run_filter h (l1 ++ c :: l2) W), (acc_run_filter h (l1 ++ l2) W).
  rewrite !filter_app. cbn [filter]. rewrite E. reflexivity.
Qed.

(* the counters after a history: sums over the accepted calls, in order *)
Theorem acc_history (h : heap) (calls : list (targ * targ)) : vals_wf h ->
  forall a, acc_run h calls a =
    mkAcc (acc_total a + list_sum (map (call_len h) (filter (accepted h) calls)))
          (fold_left sadd (map (call_matched h) (filter (accepted h) calls)) (acc_correct a)).
Proof.
  intros W. induction calls as [|c calls IH]; intros a.
  - cbn. rewrite Nat.add_0_r. destruct a; reflexivity.
  - unfold acc_run in *. cbn [fold_left filter]. rewrite acc_step by exact W.
    destruct (accepted h c) eqn:E.
    + rewrite IH. cbn [acc_total acc_correct map list_sum fold_left]. f_equal. unfold list_sum. cbn [fold_right]. lia.
    + apply IH.
Qed.

Corollary acc_history_new (h : heap) (calls : list (targ * targ)) : vals_wf h ->
  let acc := filter (accepted h) calls in
  let total := list_sum (map (call_len h) acc) in
  let matched := fold_left sadd (map (call_matched h) acc) (sconst 0 0) in
  acc_total (acc_run h calls acc_new) = total /\
  acc_correct (acc_run h calls acc_new) = matched /\
  acc_result (acc_run h calls acc_new) = if total =? 0 then sconst 0 0 else sdiv matched (sofnat total).
Proof.
  intros W. cbv zeta. rewrite (acc_history h calls W acc_new). cbn [acc_total acc_correct acc_new Nat.add].
  split; [reflexivity|]. split; reflexivity.
Qed.

End AccP.

(* ---------- non-vacuity ---------- *)
Module AccExamples.
Import CompExamples.
Open Scope Z_scope.

Definition v4 (a b c d : Z) : tensor Z := mkT [4%nat] (Vec [Sc a; Sc b; Sc c; Sc d]).
Definition v3 (a b c : Z) : tensor Z := mkT [3%nat] (Vec [Sc a; Sc b; Sc c]).
(* 0: predictions, 1: targets (2 of 4 match), 2: targets (all match), 3: wrong length, 4: rank 2 *)
Definition hA : @heap Z :=
  [mkNode (v4 1 2 3 4) false false None [] None; mkNode (v4 1 0 3 9) false false None [] None;
   mkNode (v4 1 2 3 4) false false None [] None; mkNode (v3 1 2 3) false false None [] None;
   mkNode CompExamples.tw false false None [] None].

Lemma hA_wf : vals_wf hA.
Proof.
  intros i v H. do 5 (destruct i as [|i]; [inversion H; subst; split; [apply wfndb_spec; reflexivity|repeat constructor]|]).
  destruct i; discriminate.
Qed.

Definition calls : list (targ * targ) :=
  [(Some 0, Some 1); (Some 0, Some 3); (None, Some 1); (Some 0, Some 2); (Some 4, Some 4); (Some 0, None)]%nat.

Example acc_ex : acc_run hA calls acc_new = mkAcc 8 6.
Proof. vm_compute. reflexivity. Qed.
Example acc_filter_ex : filter (accepted hA) calls = [(Some 0, Some 1); (Some 0, Some 2)]%nat.
Proof. vm_compute. reflexivity. Qed.
Example acc_rej_ex :
  acc_accumulate hA (mkAcc 8 6) (Some 0%nat) (Some 3%nat) = (mkAcc 8 6, Err) /\
  acc_accumulate hA (mkAcc 8 6) None (Some 3%nat) = (mkAcc 8 6, Err) /\
  acc_accumulate hA (mkAcc 8 6) (Some 0%nat) (Some 1%nat) = (mkAcc 12 8, Ok tt).
Proof. vm_compute. auto. Qed.
Example acc_history_inst :
  acc_total (acc_run hA calls acc_new) = 8%nat /\ acc_correct (acc_run hA calls acc_new) = 6.
Proof.
  destruct (acc_history_new hA calls hA_wf) as (H1 & H2 & _). rewrite H1, H2. vm_compute. auto.
Qed.
Example acc_result_ex : acc_result (@acc_new Z _) = 0 /\ acc_result (mkAcc 8 16) = 2.
Proof. vm_compute. auto. Qed.

End AccExamples.

Print Assumptions acc_accumulate_spec.
Print Assumptions acc_accumulate_rejected.
Print Assumptions acc_accumulate_unchanged.
Print Assumptions acc_accumulate_never_panics.
Print Assumptions acc_run_filter.
Print Assumptions acc_run_delete.
Print Assumptions acc_history.
Print Assumptions acc_history_new.
