(* CompFcP.v — the FC constructor (component/layers/fc.go: toValidFCConfig, NewFC) as translated by harness/gox into
   the DataIR programs GoComp.c_FC_toValidFCConfig / c_FC_NewFC, run with the linked oracles CompExt.cext2 / cext3
   (initializers.NewXavierUniform, initializers.NewFull, validateInitializedWeights, toValidFCConfig are their own
   translated programs; only the interface method call win.Init(shape) stays with [lib]):
   1. toValidFCConfig rejects exactly when the model's fc_new does at its validation stage, otherwise returns a copy
      of the config whose map holds the caller's initializers or the defaults XavierUniform(inputs, outputs) /
      Full(0) — the initSpecs fc_new uses;
   2. NewFC calls Init on the weight initializer first, then on the bias initializer, both with shape [outputs],
      threads the heap, stops at the first error, and accepts exactly when both results are rank-1 tensors of size
      outputs. *)
From Coq Require Import String List ZArith Bool Lia Arith.
From Qeep Require Import Model.Scalar Model.Nd Model.Fill Model.Data Model.Valid Model.Api Model.Grad Model.Backprop
     Model.Components Model.Consts Model.DataIR Model.HeapExt Model.GoComp Model.CompExt Proofs.DataIRP Proofs.HeapAccP.
From Qeep Require Proofs.CompInitP Proofs.CompValidP.
From Qeep Require Model.GoIR.
Import ListNotations.
Local Open Scope string_scope.
Local Open Scope Z_scope.
Local Open Scope list_scope.

Section CompFc.
Context {A : Type} {SA : Scalar A}.
Notation heap := (@heap A).
Notation dval := (@dval A).
Variables (fltb fleb : A -> A -> bool) (lib : string -> list dval -> heap -> option (list dval * heap)).
Notation run0 p := (drun cfapp heap (cext0 fltb fleb lib) p).
Notation run1 p := (drun cfapp heap (cext fltb fleb lib) p).
Notation run2 p := (drun cfapp heap (cext2 fltb fleb lib) p).   (* toValidFCConfig *)
Notation run3 p := (drun cfapp heap (cext3 fltb fleb lib) p).   (* NewFC *)

(* the observable part of an outcome: returned values and final heap *)
Definition outcome (o : @doutcome A heap) : option (list dval * heap) :=
  match o with DRet _ vs s _ _ => Some (vs, s) | _ => None end.

(* ... together with the final value of the parameter [iconf] (the caller's config as the translation sees it) *)
Definition outcomeI (o : @doutcome A heap) : option (list dval * heap * option dval) :=
  match o with DRet _ vs s g l => Some (vs, s, vlookup g l "iconf") | _ => None end.
Lemma outcomeI_outcome o vs s x : outcomeI o = Some (vs, s, x) -> outcome o = Some (vs, s).
Proof. destruct o; cbn [outcomeI outcome]; intros H; try discriminate. inversion H; reflexivity. Qed.

Lemma outcome_Init o : CompInitP.outcome o = outcome o.
Proof. reflexivity. Qed.
Lemma outcome_Valid o : CompValidP.outcome o = outcome o.
Proof. reflexivity. Qed.

(* ---------- representation of *FCConfig ---------- *)

(* a map slot: key absent, or present with a value (DNil = nil initializer) *)
Definition slot (o : option dval) : dval := match o with None => DNil | Some v => DL [v] end.

(* the map Initializers: nil, or one slot per key ("Weight", "Bias") *)
Definition fcMap (mp : option (option dval * option dval)) : dval :=
  match mp with None => DNil | Some (wi, bi) => DL [slot wi; slot bi] end.
Definition mapW (mp : option (option dval * option dval)) : option dval :=
  match mp with Some (wi, _) => wi | None => None end.
Definition mapB (mp : option (option dval * option dval)) : option dval :=
  match mp with Some (_, bi) => bi | None => None end.

Definition fcConf (inputs outputs : Z) (m : dval) : dval := DL [DI inputs; DI outputs; m].

(* the default initializers, as constructed components *)
Definition xavierC (inputs outputs : Z) : dval := DL [DI inputs; DI outputs].   (* XavierUniform{fanIn, fanOut} *)
Definition fullC : dval := DL [DF (sconst 0 0)].                                  (* Full{value: 0} *)

Definition wvOf (inputs outputs : Z) (wi : option dval) : dval :=
  match wi with Some v => v | None => xavierC inputs outputs end.
Definition bvOf (bi : option dval) : dval := match bi with Some v => v | None => fullC end.

(* key present with a nil value *)
Definition isNilD (v : dval) : bool := match v with DNil => true | _ => false end.
Definition isNilV (o : option dval) : bool := match o with Some v => isNilD v | None => false end.

Lemma isNil_eval (v : dval) :
  match v with DNil => Some (@DB A true) | _ => Some (DB false) end = Some (DB (isNilD v)).
Proof. destruct v; reflexivity. Qed.
Lemma isNilD_false v : isNilD v = false -> v <> DNil.
Proof. intros H E. subst v. discriminate. Qed.

Lemma isNilV_true o : isNilV o = true <-> o = Some DNil.
Proof.
  destruct o as [v|]; cbn [isNilV]; [|split; discriminate].
  destruct v; cbn [isNilD]; split; intros H; try discriminate; try reflexivity; inversion H.
Qed.
Lemma isNilV_false o : isNilV o = false <-> o <> Some DNil.
Proof.
  rewrite <- isNilV_true. destruct (isNilV o); split; intros H; try discriminate; try reflexivity; try congruence.
Qed.

(* what toValidFCConfig returns for a non-nil config: the config and the error flag *)
Definition fcValidated (inputs outputs : Z) (mp : option (option dval * option dval)) : dval * Z :=
  if (inputs <=? 0) || (outputs <=? 0) then (fcConf inputs outputs (fcMap mp), 1)
  else if isNilV (mapW mp) then (fcConf inputs outputs (fcMap mp), 1)
  else if isNilV (mapB mp)
       then (fcConf inputs outputs (DL [DL [wvOf inputs outputs (mapW mp)]; DL [DNil]]), 1)
       else (fcConf inputs outputs (DL [DL [wvOf inputs outputs (mapW mp)]; DL [bvOf (mapB mp)]]), 0).

Ltac start p := unfold drun, p; cbn [pmain dbody plocals dparams dbind]; dxs.
Ltac zb := cbn [Z.eqb Z.leb Z.ltb Z.compare Pos.compare Pos.compare_cont Pos.eqb negb didx Z.to_nat nth_error app dlen length];
  try change (Pos.to_nat 1) with 1%nat; try change (Pos.to_nat 2) with 2%nat; cbn [nth_error setNthD].
Ltac go := repeat (progress (dxs; zb)).

(* ---------- the linked callees ---------- *)

Lemma cext2_NewXavierUniform args (h : heap) :
  cext2 fltb fleb lib "initializers.NewXavierUniform" args h
  = outcome (run1 c_XavierUniform_NewXavierUniform sibFuel sibFuel args h).
Proof. reflexivity. Qed.
Lemma cext2_NewFull args (h : heap) :
  cext2 fltb fleb lib "initializers.NewFull" args h = outcome (run1 c_Full_NewFull sibFuel sibFuel args h).
Proof. reflexivity. Qed.

Lemma NewXavierUniform_pos fuel depth inputs outputs (h : heap) :
  0 < inputs -> 0 < outputs ->
  outcome (run1 c_XavierUniform_NewXavierUniform fuel depth [DL [DI inputs; DI outputs]] h)
  = Some ([xavierC inputs outputs; DI 0], h).
Proof.
  intros Hi Ho.
  pose proof (CompInitP.NewXavierUniform fltb fleb lib (0, 0) (0, 0) (0, 0) fuel depth (Some (inputs, outputs)) h) as E.
  cbn [CompInitP.cfgI2 init_valid] in E. rewrite outcome_Init in E. rewrite E.
  apply Z.ltb_lt in Hi, Ho. rewrite Hi, Ho. reflexivity.
Qed.

Lemma NewFull_zero fuel depth (h : heap) :
  outcome (run1 c_Full_NewFull fuel depth [DL [DF (sconst 0 0)]] h) = Some ([fullC], h).
Proof.
  pose proof (CompInitP.NewFull fltb fleb lib fuel depth (Some (sconst 0 0)) h) as E.
  cbn [CompInitP.cfgF1] in E. rewrite outcome_Init in E. exact E.
Qed.

(* ================= 1. toValidFCConfig ================= *)

Theorem toValidFCConfig_nil fuel depth (h : heap) :
  outcome (run2 c_FC_toValidFCConfig fuel depth [DNil] h) = Some ([DNil; DI 1], h).
Proof. start c_FC_toValidFCConfig. reflexivity. Qed.

(* reject flag of a non-nil config *)
Definition fcReject (inputs outputs : Z) (mp : option (option dval * option dval)) : bool :=
  (inputs <=? 0) || (outputs <=? 0) || isNilV (mapW mp) || isNilV (mapB mp).

Lemma fcValidated_flag inputs outputs mp :
  snd (fcValidated inputs outputs mp) = if fcReject inputs outputs mp then 1 else 0.
Proof.
  unfold fcValidated, fcReject.
  destruct ((inputs <=? 0) || (outputs <=? 0)); cbn [orb]; [reflexivity|].
  destruct (isNilV (mapW mp)); cbn [orb]; [reflexivity|].
  destruct (isNilV (mapB mp)); reflexivity.
Qed.

Lemma fcValidated_accept inputs outputs mp :
  fcReject inputs outputs mp = false ->
  fcValidated inputs outputs mp
  = (fcConf inputs outputs (DL [DL [wvOf inputs outputs (mapW mp)]; DL [bvOf (mapB mp)]]), 0).
Proof.
  unfold fcValidated, fcReject. intros H.
  destruct ((inputs <=? 0) || (outputs <=? 0)); cbn [orb] in H; [discriminate|].
  destruct (isNilV (mapW mp)); cbn [orb] in H; [discriminate|].
  destruct (isNilV (mapB mp)); [discriminate|reflexivity].
Qed.

(* main statement: results, heap, and the final value of the parameter [iconf] *)
Theorem toValidFCConfig_run fuel depth (inputs outputs : Z) (mp : option (option dval * option dval)) (h : heap) :
  outcomeI (run2 c_FC_toValidFCConfig fuel depth [fcConf inputs outputs (fcMap mp)] h)
  = Some ([fst (fcValidated inputs outputs mp); DI (snd (fcValidated inputs outputs mp))], h,
          Some (fcConf inputs outputs (fcMap mp))).
Proof.
  start c_FC_toValidFCConfig. unfold fcValidated, fcConf. go.
  destruct (inputs <=? 0) eqn:Ei; cbn [orb fst snd]; go; [reflexivity|].
  destruct (outputs <=? 0) eqn:Eo; cbn [orb fst snd]; go; [reflexivity|].
  apply Z.leb_gt in Ei, Eo.
  destruct mp as [[wi bi]|]; cbn [fcMap mapW mapB slot isNilV wvOf bvOf].
  - destruct wi as [wv|]; cbn [slot isNilV wvOf]; go.
    + rewrite isNil_eval. destruct (isNilD wv) eqn:Ew; cbn [fst snd]; go; [reflexivity|].
      destruct bi as [bv|]; cbn [slot isNilV bvOf]; go.
      * rewrite isNil_eval. destruct (isNilD bv) eqn:Eb; cbn [fst snd]; go; [|reflexivity].
        destruct bv; try discriminate. reflexivity.
      * rewrite cext2_NewFull, NewFull_zero. go. reflexivity.
    + rewrite cext2_NewXavierUniform, NewXavierUniform_pos by assumption. go.
      destruct bi as [bv|]; cbn [slot isNilV bvOf]; go.
      * rewrite isNil_eval. destruct (isNilD bv) eqn:Eb; cbn [fst snd]; go; [|reflexivity].
        destruct bv; try discriminate. reflexivity.
      * rewrite cext2_NewFull, NewFull_zero. go. reflexivity.
  - go. rewrite cext2_NewXavierUniform, NewXavierUniform_pos by assumption. go.
    rewrite cext2_NewFull, NewFull_zero. go. reflexivity.
Qed.

Theorem toValidFCConfig_spec fuel depth (inputs outputs : Z) (mp : option (option dval * option dval)) (h : heap) :
  outcome (run2 c_FC_toValidFCConfig fuel depth [fcConf inputs outputs (fcMap mp)] h)
  = Some ([fst (fcValidated inputs outputs mp); DI (snd (fcValidated inputs outputs mp))], h).
Proof. eapply outcomeI_outcome, toValidFCConfig_run. Qed.

(* the cases, one by one *)

(* a non-positive size: the copy is returned with the flag; the map is not looked at (any value [m]) *)
Theorem toValidFCConfig_nonpos fuel depth (inputs outputs : Z) (m : dval) (h : heap) :
  inputs <= 0 \/ outputs <= 0 ->
  outcome (run2 c_FC_toValidFCConfig fuel depth [fcConf inputs outputs m] h)
  = Some ([fcConf inputs outputs m; DI 1], h).
Proof.
  intros H. start c_FC_toValidFCConfig. unfold fcConf. go.
  destruct (inputs <=? 0) eqn:Ei; go; [reflexivity|].
  destruct (outputs <=? 0) eqn:Eo; go; [reflexivity|].
  apply Z.leb_gt in Ei, Eo. lia.
Qed.

Theorem toValidFCConfig_nilWeight fuel depth (inputs outputs : Z) mp (h : heap) :
  0 < inputs -> 0 < outputs -> mapW mp = Some DNil ->
  outcome (run2 c_FC_toValidFCConfig fuel depth [fcConf inputs outputs (fcMap mp)] h)
  = Some ([fcConf inputs outputs (fcMap mp); DI 1], h).
Proof.
  intros Hi Ho Hw. rewrite toValidFCConfig_spec. unfold fcValidated.
  apply Z.leb_gt in Hi, Ho. apply isNilV_true in Hw. rewrite Hi, Ho, Hw. reflexivity.
Qed.

(* nil bias initializer: the flag, and the config in which the weight default has already been stored *)
Theorem toValidFCConfig_nilBias fuel depth (inputs outputs : Z) mp (h : heap) :
  0 < inputs -> 0 < outputs -> mapW mp <> Some DNil -> mapB mp = Some DNil ->
  outcome (run2 c_FC_toValidFCConfig fuel depth [fcConf inputs outputs (fcMap mp)] h)
  = Some ([fcConf inputs outputs (DL [DL [wvOf inputs outputs (mapW mp)]; DL [DNil]]); DI 1], h).
Proof.
  intros Hi Ho Hw Hb. rewrite toValidFCConfig_spec. unfold fcValidated.
  apply Z.leb_gt in Hi, Ho. apply isNilV_false in Hw. apply isNilV_true in Hb. rewrite Hi, Ho, Hw, Hb. reflexivity.
Qed.

Theorem toValidFCConfig_ok fuel depth (inputs outputs : Z) mp (h : heap) :
  0 < inputs -> 0 < outputs -> mapW mp <> Some DNil -> mapB mp <> Some DNil ->
  outcome (run2 c_FC_toValidFCConfig fuel depth [fcConf inputs outputs (fcMap mp)] h)
  = Some ([fcConf inputs outputs (DL [DL [wvOf inputs outputs (mapW mp)]; DL [bvOf (mapB mp)]]); DI 0], h).
Proof.
  intros Hi Ho Hw Hb. rewrite toValidFCConfig_spec. unfold fcValidated.
  apply Z.leb_gt in Hi, Ho. apply isNilV_false in Hw, Hb. rewrite Hi, Ho, Hw, Hb. reflexivity.
Qed.

(* the error flag is 0 exactly in the last case *)
Corollary toValidFCConfig_accepts_iff fuel depth (inputs outputs : Z) mp (h : heap) :
  (exists c, outcome (run2 c_FC_toValidFCConfig fuel depth [fcConf inputs outputs (fcMap mp)] h) = Some ([c; DI 0], h))
  <-> (0 < inputs /\ 0 < outputs /\ mapW mp <> Some DNil /\ mapB mp <> Some DNil).
Proof.
  rewrite toValidFCConfig_spec, fcValidated_flag. unfold fcReject. split.
  - intros [c H].
    destruct (inputs <=? 0) eqn:Ei; cbn [orb] in H; [inversion H|].
    destruct (outputs <=? 0) eqn:Eo; cbn [orb] in H; [inversion H|].
    destruct (isNilV (mapW mp)) eqn:Ew; cbn [orb] in H; [inversion H|].
    destruct (isNilV (mapB mp)) eqn:Eb; cbn [orb] in H; [inversion H|].
    apply Z.leb_gt in Ei, Eo. apply isNilV_false in Ew, Eb. repeat split; assumption.
  - intros [Hi [Ho [Hw Hb]]]. apply Z.leb_gt in Hi, Ho. apply isNilV_false in Hw, Hb.
    rewrite Hi, Ho, Hw, Hb. eexists. reflexivity.
Qed.

(* what the translation shows about the caller's config: the parameter keeps its value — the copy [*conf = *iconf] is
   a copy of the VALUE, map included; the sharing of the map between the caller's config and the returned one that Go
   has is not represented (see the report) *)
Corollary toValidFCConfig_param_unchanged fuel depth (inputs outputs : Z) mp (h : heap) :
  exists vs, outcomeI (run2 c_FC_toValidFCConfig fuel depth [fcConf inputs outputs (fcMap mp)] h)
             = Some (vs, h, Some (fcConf inputs outputs (fcMap mp))).
Proof. eexists. apply toValidFCConfig_run. Qed.

(* ================= 2. NewFC ================= *)

Lemma cext3_toValidFCConfig args (h : heap) :
  cext3 fltb fleb lib "toValidFCConfig" args h = outcome (run2 c_FC_toValidFCConfig sibFuel sibFuel args h).
Proof. reflexivity. Qed.
Lemma cext3_Init args (h : heap) : cext3 fltb fleb lib "Init" args h = lib "Init" args h.
Proof. reflexivity. Qed.
Lemma cext3_validate args (h : heap) :
  cext3 fltb fleb lib "validateInitializedWeights" args h
  = outcome (run1 c_FC_validateInitializedWeights sibFuel sibFuel args h).
Proof. reflexivity. Qed.
Lemma cext_Shape v (h : heap) : cext fltb fleb lib "Shape" [v] h = cext0 fltb fleb lib "Shape" [v] h.
Proof. reflexivity. Qed.

(* CompValidP.FC_validateInitializedWeights_spec, for the oracle [cext] the linked callee runs with *)
Lemma validateInitializedWeights_cext fuel depth (h : heap) (w b : targ) (inputs outputs : Z) (rest : dval) :
  CompValidP.targOk h w -> CompValidP.targOk h b ->
  outcome (run1 c_FC_validateInitializedWeights fuel depth [dtarg w; dtarg b; DL [DI inputs; DI outputs; rest]] h) =
  Some ([DI (if CompValidP.initWeightsOk h w b outputs then 0 else 1)], h).
Proof.
  intros Hw Hb. unfold c_FC_validateInitializedWeights, drun. cbn [pmain dbody dparams plocals dbind].
  destruct w as [wn|]; [|destruct b; cbn [dtarg CompValidP.initWeightsOk]; dxs; reflexivity].
  destruct b as [bn|]; [|cbn [dtarg CompValidP.initWeightsOk]; dxs; reflexivity].
  pose proof (Hw wn eq_refl) as Hwn. pose proof (Hb bn eq_refl) as Hbn.
  destruct (CompValidP.valOf_valid h wn Hwn) as [wv Hwv]. destruct (CompValidP.valOf_valid h bn Hbn) as [bv Hbv].
  unfold CompValidP.initWeightsOk, rankOf, dim0Of. rewrite Hwv, Hbv. cbn [dtarg].
  dxs.
  rewrite cext_Shape, (CompValidP.cext0_Shape_node fltb fleb lib h wn wv Hwn Hwv). dxs.
  rewrite cext_Shape, (CompValidP.cext0_Shape_node fltb fleb lib h bn bv Hbn Hbv). dxs.
  rewrite !CompValidP.dlen_nats_eqb1.
  destruct (Nat.eqb (length (dims wv)) 1) eqn:E1; cbn [negb andb]; [|dxs; reflexivity].
  destruct (Nat.eqb (length (dims bv)) 1) eqn:E2; cbn [negb andb]; [|dxs; reflexivity].
  apply Nat.eqb_eq in E1, E2.
  dxs. rewrite CompValidP.didx_0, CompValidP.didx_1, !CompValidP.nth_error_nats by lia. cbn [nth_error]. dxs.
  destruct (Z.of_nat (nth 0 (dims wv) 0%nat) =? outputs); cbn [negb andb]; dxs; [|reflexivity].
  rewrite CompValidP.didx_0, CompValidP.didx_1, !CompValidP.nth_error_nats by lia. cbn [nth_error]. dxs.
  destruct (Z.of_nat (nth 0 (dims bv) 0%nat) =? outputs); cbn [negb]; dxs; reflexivity.
Qed.

Theorem NewFC_nil fuel depth (h : heap) :
  outcome (run3 c_FC_NewFC fuel depth [DNil] h) = Some ([DNil; DI 1], h).
Proof.
  start c_FC_NewFC. rewrite cext3_toValidFCConfig, toValidFCConfig_nil. go. reflexivity.
Qed.

(* rejected by toValidFCConfig: error, no component, nothing called *)
Theorem NewFC_reject fuel depth (inputs outputs : Z) mp (h : heap) :
  fcReject inputs outputs mp = true ->
  outcome (run3 c_FC_NewFC fuel depth [fcConf inputs outputs (fcMap mp)] h) = Some ([DNil; DI 1], h).
Proof.
  intros Hr. start c_FC_NewFC. rewrite cext3_toValidFCConfig, toValidFCConfig_spec, fcValidated_flag, Hr.
  go. reflexivity.
Qed.

Section Accepted.
Variables (inputs outputs : Z) (mp : option (option dval * option dval)).
Hypothesis Hacc : fcReject inputs outputs mp = false.
Let wv := wvOf inputs outputs (mapW mp).
Let bv := bvOf (mapB mp).
Let sh : dval := DL [DI outputs].

(* the run up to the first Init call *)
Ltac toInit :=
  start c_FC_NewFC; rewrite cext3_toValidFCConfig, toValidFCConfig_spec, (fcValidated_accept _ _ _ Hacc);
  cbn [fst snd]; unfold fcConf; go; rewrite cext3_Init; fold wv sh.

(* Init of the weight initializer comes first, on the caller's heap, with shape [outputs] *)
Theorem NewFC_weightInit_panics fuel depth (h : heap) :
  lib "Init" [wv; sh] h = None ->
  run3 c_FC_NewFC fuel depth [fcConf inputs outputs (fcMap mp)] h = DPanic heap.
Proof. intros H1. toInit. rewrite H1. reflexivity. Qed.

Theorem NewFC_weightInit_fails fuel depth (h h1 : heap) (w : dval) (e1 : Z) :
  lib "Init" [wv; sh] h = Some ([w; DI e1], h1) -> e1 <> 0 ->
  outcome (run3 c_FC_NewFC fuel depth [fcConf inputs outputs (fcMap mp)] h) = Some ([DNil; DI e1], h1).
Proof.
  intros H1 He. toInit. rewrite H1. go.
  apply Z.eqb_neq in He. rewrite He. go. reflexivity.
Qed.

(* then Init of the bias initializer, on the heap the first call returned, with the same shape *)
Theorem NewFC_biasInit_panics fuel depth (h h1 : heap) (w : dval) :
  lib "Init" [wv; sh] h = Some ([w; DI 0], h1) ->
  lib "Init" [bv; sh] h1 = None ->
  run3 c_FC_NewFC fuel depth [fcConf inputs outputs (fcMap mp)] h = DPanic heap.
Proof. intros H1 H2. toInit. rewrite H1. go. rewrite cext3_Init. fold bv sh. rewrite H2. reflexivity. Qed.

Theorem NewFC_biasInit_fails fuel depth (h h1 h2 : heap) (w b : dval) (e2 : Z) :
  lib "Init" [wv; sh] h = Some ([w; DI 0], h1) ->
  lib "Init" [bv; sh] h1 = Some ([b; DI e2], h2) -> e2 <> 0 ->
  outcome (run3 c_FC_NewFC fuel depth [fcConf inputs outputs (fcMap mp)] h) = Some ([DNil; DI e2], h2).
Proof.
  intros H1 H2 He. toInit. rewrite H1. go. rewrite cext3_Init. fold bv sh. rewrite H2. go.
  apply Z.eqb_neq in He. rewrite He. go. reflexivity.
Qed.

(* both succeed: the linked validateInitializedWeights decides *)
Theorem NewFC_initialized fuel depth (h h1 h2 : heap) (w b : targ) :
  lib "Init" [wv; sh] h = Some ([dtarg w; DI 0], h1) ->
  lib "Init" [bv; sh] h1 = Some ([dtarg b; DI 0], h2) ->
  CompValidP.targOk h2 w -> CompValidP.targOk h2 b ->
  outcome (run3 c_FC_NewFC fuel depth [fcConf inputs outputs (fcMap mp)] h)
  = Some (if CompValidP.initWeightsOk h2 w b outputs then [DL [dtarg w; dtarg b]; DI 0] else [DNil; DI 1], h2).
Proof.
  intros H1 H2 Hw Hb. toInit. rewrite H1. go. rewrite cext3_Init. fold bv sh. rewrite H2. go.
  rewrite cext3_validate, (validateInitializedWeights_cext _ _ h2 w b inputs outputs _ Hw Hb).
  destruct (CompValidP.initWeightsOk h2 w b outputs); go; reflexivity.
Qed.

(* ... i.e. the component is returned iff both are tensors of rank 1 and size [outputs] *)
Corollary NewFC_ok_iff fuel depth (h h1 h2 : heap) (w b : targ) :
  lib "Init" [wv; sh] h = Some ([dtarg w; DI 0], h1) ->
  lib "Init" [bv; sh] h1 = Some ([dtarg b; DI 0], h2) ->
  CompValidP.targOk h2 w -> CompValidP.targOk h2 b ->
  (outcome (run3 c_FC_NewFC fuel depth [fcConf inputs outputs (fcMap mp)] h)
   = Some ([DL [dtarg w; dtarg b]; DI 0], h2)
   <-> exists wn bn, w = Some wn /\ b = Some bn /\ rankOf h2 wn = 1%nat /\ rankOf h2 bn = 1%nat /\
                     Z.of_nat (dim0Of h2 wn) = outputs /\ Z.of_nat (dim0Of h2 bn) = outputs).
Proof.
  intros H1 H2 Hw Hb. rewrite (NewFC_initialized fuel depth h h1 h2 w b H1 H2 Hw Hb).
  unfold CompValidP.initWeightsOk. split.
  - destruct w as [wn|]; [|discriminate]. destruct b as [bn|]; [|discriminate].
    destruct (Nat.eqb (rankOf h2 wn) 1) eqn:E1; cbn [andb]; [|discriminate].
    destruct (Nat.eqb (rankOf h2 bn) 1) eqn:E2; cbn [andb]; [|discriminate].
    destruct (Z.of_nat (dim0Of h2 wn) =? outputs) eqn:E3; cbn [andb]; [|discriminate].
    destruct (Z.of_nat (dim0Of h2 bn) =? outputs) eqn:E4; [|discriminate].
    intros _. apply Nat.eqb_eq in E1, E2. apply Z.eqb_eq in E3, E4.
    exists wn, bn. repeat split; assumption.
  - intros [wn [bn [Hwn [Hbn [R1 [R2 [D1 D2]]]]]]]. subst w b.
    rewrite R1, R2, D1, D2, Z.eqb_refl. reflexivity.
Qed.
End Accepted.

(* ================= 3. the model's fc_new ================= *)

(* a slot of the model ([None] key absent, [Some None] nil value, [Some (Some s)] an initializer of spec s) is
   represented by a slot content of the program: nil value = DNil, an initializer = a non-nil component *)
Definition slotRep (m : option (option initSpec)) (d : option dval) : Prop :=
  match m, d with
  | None, None => True
  | Some None, Some DNil => True
  | Some (Some _), Some v => v <> DNil
  | _, _ => False
  end.

Definition specNil (o : option (option initSpec)) : bool := match o with Some None => true | _ => false end.
Definition wsOf (inputs outputs : Z) (wi : option (option initSpec)) : initSpec :=
  match wi with Some (Some s) => s | _ => IXavierUniform (Some (inputs, outputs)) end.
Definition bsOf (bi : option (option initSpec)) : initSpec :=
  match bi with Some (Some s) => s | _ => IFull (Some (0, 0)) end.

Lemma slotRep_nil m d : slotRep m d -> isNilV d = specNil m.
Proof.
  destruct m as [[s|]|], d as [v|]; cbn [slotRep isNilV specNil]; intros H; try contradiction; try reflexivity.
  - destruct v; try reflexivity. contradiction H; reflexivity.
  - destruct v; try contradiction; reflexivity.
Qed.

(* the program rejects exactly the configs the model rejects before initializing anything *)
Lemma fcReject_model inputs outputs wi bi wd bd :
  slotRep wi wd -> slotRep bi bd ->
  fcReject inputs outputs (Some (wd, bd)) = (inputs <=? 0) || (outputs <=? 0) || specNil wi || specNil bi.
Proof.
  intros Hw Hb. unfold fcReject. cbn [mapW mapB]. rewrite (slotRep_nil _ _ Hw), (slotRep_nil _ _ Hb). reflexivity.
Qed.
(* a nil map is a map without keys *)
Lemma fcReject_model_nilmap inputs outputs :
  fcReject inputs outputs None = (inputs <=? 0) || (outputs <=? 0) || specNil None || specNil None.
Proof. unfold fcReject. cbn [mapW mapB isNilV specNil]. reflexivity. Qed.

Lemma fc_new_reject dF dL dU dM dS (h : heap) inputs outputs wi bi pos :
  (inputs <=? 0) || (outputs <=? 0) || specNil wi || specNil bi = true ->
  fc_new dF dL dU dM dS h inputs outputs wi bi pos = (h, Err, pos).
Proof.
  unfold fc_new. destruct ((inputs <=? 0) || (outputs <=? 0)); cbn [orb]; [reflexivity|].
  destruct wi as [[ws|]|], bi as [[bs|]|]; cbn [specNil orb]; intros H; try discriminate; reflexivity.
Qed.

(* otherwise: init_run of the weight spec first, then of the bias spec on the heap (and source position) the first
   returned, both with shape [outputs] — the two lib "Init" calls of NewFC *)
Lemma fc_new_accept dF dL dU dM dS (h : heap) inputs outputs wi bi pos :
  (inputs <=? 0) || (outputs <=? 0) || specNil wi || specNil bi = false ->
  fc_new dF dL dU dM dS h inputs outputs wi bi pos =
  match init_run dF dL dU dM dS h (wsOf inputs outputs wi) [outputs] pos None with
  | (h1, Ok w, pos1) =>
      match init_run dF dL dU dM dS h1 (bsOf bi) [outputs] pos1 None with
      | (h2, Ok b, pos2) => (h2, Ok (w, b), pos2)
      | (_, Err, _) => (h, Err, pos)
      | (_, Panic, _) => (h, Panic, pos)
      end
  | (_, Err, _) => (h, Err, pos)
  | (_, Panic, _) => (h, Panic, pos)
  end.
Proof.
  unfold fc_new. destruct ((inputs <=? 0) || (outputs <=? 0)); cbn [orb]; [discriminate|].
  destruct wi as [[ws|]|], bi as [[bs|]|]; cbn [specNil orb wsOf bsOf]; intros H; try discriminate; reflexivity.
Qed.

(* the two defaults of the program are the components the linked constructors build for the default specs of the
   model, and these specs are valid *)
Lemma default_weight_spec dL dU dS fuel depth inputs outputs (h : heap) :
  0 < inputs -> 0 < outputs ->
  init_valid dL dU dS (wsOf inputs outputs None) = true /\
  outcome (run1 c_XavierUniform_NewXavierUniform fuel depth [CompInitP.cfgI2 (Some (inputs, outputs))] h)
  = Some ([wvOf inputs outputs None; DI 0], h).
Proof.
  intros Hi Ho. split.
  - cbn [wsOf init_valid]. apply Z.ltb_lt in Hi, Ho. rewrite Hi, Ho. reflexivity.
  - exact (NewXavierUniform_pos fuel depth inputs outputs h Hi Ho).
Qed.

Lemma default_bias_spec dL dU dS fuel depth (h : heap) :
  init_valid dL dU dS (bsOf None) = true /\
  outcome (run1 c_Full_NewFull fuel depth [CompInitP.cfgD1 (Some (0, 0))] h) = Some ([bvOf None], h).
Proof. split; [reflexivity|]. exact (NewFull_zero fuel depth h). Qed.

(* ... and Init on the default weight component draws from U(-r, r), r = sqrtOver 6 (inputs + outputs): the value
   init_value gives to IXavierUniform (Some (inputs, outputs)) (CompInitP.XavierUniform_Init, init_value_XavierUniform);
   on the default bias component it is tensor.Full with the literal 0 (CompInitP.Full_Init, init_value_Full) *)
Lemma default_weight_Init fuel depth inputs outputs (sh cfg : dval) (h h1 : heap) :
  0 < inputs -> 0 < outputs ->
  lib "tensorInitConf" [] h = Some ([cfg], h1) ->
  match wvOf inputs outputs None with
  | DL fields =>
      let r := sqrtOver 6 (inputs + outputs) in
      CompInitP.isCall (run0 c_XavierUniform_Init fuel depth (fields ++ [sh]) h)
                       (lib "tensor.RandU" [sh; DF (ssub (sconst 0 0) r); DF r; cfg] h1)
  | _ => False
  end.
Proof.
  intros Hi Ho Hc. cbn [wvOf xavierC app].
  apply (CompInitP.XavierUniform_Init fltb fleb lib fuel depth inputs outputs sh cfg h h1); [lia|exact Hc].
Qed.

Lemma default_bias_Init fuel depth (sh cfg : dval) (h h1 : heap) :
  lib "tensorInitConf" [] h = Some ([cfg], h1) ->
  match bvOf None with
  | DL fields =>
      CompInitP.isCall (run0 c_Full_Init fuel depth (fields ++ [sh]) h)
                       (lib "tensor.Full" [sh; DF (dcst (0, 0)); cfg] h1)
  | _ => False
  end.
Proof.
  intros Hc. cbn [bvOf fullC app].
  exact (CompInitP.Full_Init fltb fleb lib fuel depth (sconst 0 0) sh cfg h h1 Hc).
Qed.

End CompFc.

Print Assumptions toValidFCConfig_nil.
Print Assumptions toValidFCConfig_run.
Print Assumptions toValidFCConfig_spec.
Print Assumptions toValidFCConfig_nonpos.
Print Assumptions toValidFCConfig_nilWeight.
Print Assumptions toValidFCConfig_nilBias.
Print Assumptions toValidFCConfig_ok.
Print Assumptions toValidFCConfig_accepts_iff.
Print Assumptions toValidFCConfig_param_unchanged.
Print Assumptions NewFC_nil.
Print Assumptions NewFC_reject.
Print Assumptions NewFC_weightInit_panics.
Print Assumptions NewFC_weightInit_fails.
Print Assumptions NewFC_biasInit_panics.
Print Assumptions NewFC_biasInit_fails.
Print Assumptions NewFC_initialized.
Print Assumptions NewFC_ok_iff.
Print Assumptions fcReject_model.
Print Assumptions fc_new_reject.
Print Assumptions fc_new_accept.
Print Assumptions default_weight_spec.
Print Assumptions default_bias_spec.
Print Assumptions default_weight_Init.
Print Assumptions default_bias_Init.

(* ================= examples over the free scalar algebra [term] ================= *)
Module Examples.
Definition tb (a b : term) : bool := true.
(* a library whose Init allocates a vector of zeros of the requested size and names the initializer it was called
   on in the node (2 = a component with two fields, 1 = with one field); any other shape: error 7 *)
Definition zeros (n : nat) : tensor term := mkT [n] (Vec (repeat (Sc (TConst 0 0)) n)).
Definition elib (f : string) (args : list (@dval term)) (h : @heap term)
  : option (list (@dval term) * @heap term) :=
  if String.eqb f "Init" then
    match args with
    | [DL fields; DL [DI n]] =>
        let '(h', id) := leaf h (zeros (Z.to_nat n)) true (Some (length fields)) in
        Some ([DI (Z.of_nat id); DI 0], h')
    | [_; _] => Some ([DNil; DI 7], h)
    | _ => None
    end
  else None.
Definition h0 : @heap term := [].
Notation erun2 p := (drun cfapp (@heap term) (cext2 tb tb elib) p 0%nat 0%nat).
Notation erun3 p := (drun cfapp (@heap term) (cext3 tb tb elib) p 0%nat 0%nat).

(* nil map: both defaults *)
Example ex_toValid_nilmap :
  outcome (erun2 c_FC_toValidFCConfig [fcConf 4 3 (fcMap None)] h0)
  = Some ([DL [DI 4; DI 3; DL [DL [DL [DI 4; DI 3]]; DL [DL [DF (TConst 0 0)]]]]; DI 0], h0).
Proof. vm_compute. reflexivity. Qed.

(* a caller-provided map with only a bias initializer (some component with fields 9, 9, 9) *)
Example ex_toValid_bias_only :
  outcome (erun2 c_FC_toValidFCConfig [fcConf 4 3 (fcMap (Some (None, Some (DL [DI 9; DI 9; DI 9]))))] h0)
  = Some ([DL [DI 4; DI 3; DL [DL [DL [DI 4; DI 3]]; DL [DL [DI 9; DI 9; DI 9]]]]; DI 0], h0).
Proof. vm_compute. reflexivity. Qed.

(* nil bias initializer: rejected, but the weight default is already in the returned config's map *)
Example ex_toValid_nil_bias :
  outcome (erun2 c_FC_toValidFCConfig [fcConf 4 3 (fcMap (Some (None, Some DNil)))] h0)
  = Some ([DL [DI 4; DI 3; DL [DL [DL [DI 4; DI 3]]; DL [DNil]]]; DI 1], h0).
Proof. vm_compute. reflexivity. Qed.

Example ex_toValid_nonpos :
  outcome (erun2 c_FC_toValidFCConfig [fcConf 4 0 (fcMap None)] h0) = Some ([DL [DI 4; DI 0; DNil]; DI 1], h0).
Proof. vm_compute. reflexivity. Qed.

(* NewFC with a nil map: node 0 is made by the two-field (XavierUniform) component, node 1 by the one-field (Full)
   one — weight first *)
Example ex_NewFC :
  outcome (erun3 c_FC_NewFC [fcConf 4 3 (fcMap None)] h0)
  = Some ([DL [DI 0; DI 1]; DI 0],
          [mkNode (zeros 3) true false None [] (Some 2%nat); mkNode (zeros 3) true false None [] (Some 1%nat)]).
Proof. vm_compute. reflexivity. Qed.

Example ex_NewFC_reject : outcome (erun3 c_FC_NewFC [fcConf 0 3 (fcMap None)] h0) = Some ([DNil; DI 1], h0).
Proof. vm_compute. reflexivity. Qed.

(* a weight initializer that fails (not a component: error 7 of the library): the bias Init is not called *)
Example ex_NewFC_weight_fails :
  outcome (erun3 c_FC_NewFC [fcConf 4 3 (fcMap (Some (Some (DI 5), None)))] h0) = Some ([DNil; DI 7], h0).
Proof. vm_compute. reflexivity. Qed.

(* the general theorem instantiated: hypotheses satisfiable, conclusion non-trivial *)
Example ex_NewFC_by_theorem fuel depth :
  outcome (drun cfapp (@heap term) (cext3 tb tb elib) c_FC_NewFC fuel depth [fcConf 4 3 (fcMap None)] h0)
  = Some ([DL [DI 0; DI 1]; DI 0],
          [mkNode (zeros 3) true false None [] (Some 2%nat); mkNode (zeros 3) true false None [] (Some 1%nat)]).
Proof.
  pose proof (NewFC_initialized tb tb elib 4 3 None eq_refl fuel depth h0
                [mkNode (zeros 3) true false None [] (Some 2%nat)]
                [mkNode (zeros 3) true false None [] (Some 2%nat); mkNode (zeros 3) true false None [] (Some 1%nat)]
                (Some 0%nat) (Some 1%nat) eq_refl eq_refl) as E.
  rewrite E.
  - reflexivity.
  - intros n Hn. inversion Hn. cbn. lia.
  - intros n Hn. inversion Hn. cbn. lia.
Qed.
End Examples.
