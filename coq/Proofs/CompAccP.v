(* CompAccP.v — component/metrics/accuracy.go (NewAccuracy, Accumulate, Result, validateInputs) and the six Forward
   entry points of component/layers{,/activations} as translated by harness/gox into the DataIR programs
   GoComp.c_Accuracy_*, c_*_Forward, run with the LINKED oracle CompExt.cext (sibling calls run the sibling's own
   translated program), ARE the hand-written model Components.acc_new / acc_accumulate / acc_result and the input
   tests (oneInput, rankOf) of Components.*_forward.  History theorem: any sequence of batches (property C19). *)
From Coq Require Import String List ZArith Bool Lia Arith ZifyBool.
From Qeep Require Import Model.Scalar Model.Nd Model.Fill Model.Data Model.Valid Model.Api Model.Grad Model.Backprop
     Model.Components Model.DataIR Model.HeapExt Model.GoComp Model.CompExt
     Proofs.NdP Proofs.DataIRP Proofs.DataAtP Proofs.HeapAccP.
From Qeep Require Model.GoIR.
Import ListNotations.
Local Open Scope string_scope.
Local Open Scope Z_scope.
Local Open Scope list_scope.

Section CompAcc.
Context {A : Type} {SA : Scalar A}.
Variables (fltb fleb : A -> A -> bool)
          (lib : string -> list (@dval A) -> @heap A -> option (list (@dval A) * @heap A)).
Notation T := (tensor A).
Notation heap := (@heap A).
Notation dval := (@dval A).
Notation denv := (@denv A).
Notation accuracy := (@accuracy A).
Notation run0 p := (drun cfapp heap (cext0 fltb fleb lib) p).
Notation run p := (drun cfapp heap (cext fltb fleb lib) p).

(* a caller-side tensor argument denotes a node of the heap *)
Definition targOk (h : heap) (x : targ) : Prop :=
  match x with Some n => (n < length h)%nat | None => True end.

Lemma valOf_lt (h : heap) (n : nat) : (n < length h)%nat -> exists v, valOf h n = Some v.
Proof.
  intros H. unfold valOf. destruct (nth_error h n) as [nd|] eqn:E.
  - cbn [obind]. eauto.
  - apply nth_error_None in E. lia.
Qed.

Lemma tens_node (h : heap) (n : nat) (v : T) :
  (n < length h)%nat -> valOf h n = Some v -> tens h (DI (Z.of_nat n)) = Some v.
Proof. intros Hn Hv. unfold tens. rewrite (nodeId_nat _ _ Hn). cbn [obind]. exact Hv. Qed.

Lemma tens_embT (h : heap) (t : T) : tens h (embT t) = Some t.
Proof. unfold tens, embT. apply (unembT_embT t). Qed.

(* ================= the oracle entries used, one equation each ================= *)

Lemma cext0_Shape v (h : heap) :
  cext0 fltb fleb lib "Shape" [v] h = do t <- tens h v; Some ([dnats (dims t)], h).
Proof. reflexivity. Qed.
Lemma cext0_Eq a b (h : heap) :
  cext0 fltb fleb lib "Eq" [a; b] h =
  do x <- tens h a; do y <- tens h b; do r <- retT (v_same BiEq x y); Some (r, h).
Proof. reflexivity. Qed.
Lemma cext0_Sum v (h : heap) :
  cext0 fltb fleb lib "Sum" [v] h = do t <- tens h v; do s <- r_sum t; Some ([DF s], h).
Proof. reflexivity. Qed.
Lemma cext0_float64 z (h : heap) :
  cext0 fltb fleb lib "float64" [DI z] h = if 0 <=? z then Some ([DF (sofnat (Z.to_nat z))], h) else None.
Proof. reflexivity. Qed.

Lemma cext_Shape v (h : heap) : cext fltb fleb lib "Shape" [v] h = cext0 fltb fleb lib "Shape" [v] h.
Proof. reflexivity. Qed.
Lemma cext_Eq a b (h : heap) : cext fltb fleb lib "Eq" [a; b] h = cext0 fltb fleb lib "Eq" [a; b] h.
Proof. reflexivity. Qed.
Lemma cext_Sum v (h : heap) : cext fltb fleb lib "Sum" [v] h = cext0 fltb fleb lib "Sum" [v] h.
Proof. reflexivity. Qed.
Lemma cext_float64 v (h : heap) : cext fltb fleb lib "float64" [v] h = cext0 fltb fleb lib "float64" [v] h.
Proof. reflexivity. Qed.

Definition linked (p : dprog) (args : list dval) (h : heap) : option (list dval * heap) :=
  match run0 p sibFuel sibFuel args h with
  | DRet _ vs h1 _ _ => Some (vs, h1)
  | _ => None
  end.

Lemma cext_AccValidate args (h : heap) :
  cext fltb fleb lib "Accuracy.validateInputs" args h = linked c_Accuracy_validateInputs args h.
Proof. reflexivity. Qed.

(* ================= (1) NewAccuracy ================= *)

Lemma cst_sconst (m e : Z) : @cst A SA m e = sconst m e.
Proof. reflexivity. Qed.

Theorem NewAccuracy_run fuel depth (h : heap) :
  exists g l, run c_Accuracy_NewAccuracy fuel depth [] h
              = DRet heap [DL [DI (Z.of_nat (acc_total (@acc_new A SA))); DF (acc_correct acc_new)]] h g l.
Proof.
  unfold drun, c_Accuracy_NewAccuracy. cbn [pmain dbody plocals dparams dbind]. dxs.
  cbn [app]. eauto.
Qed.

(* ================= Accuracy.validateInputs = lossArgs1 ================= *)

Definition okCode (b : bool) : Z := if b then 0 else 1.

Lemma lossArgs1_some (h : heap) (yp yt : targ) p t :
  lossArgs1 h yp yt = Some (p, t) -> yp = Some p /\ yt = Some t.
Proof.
  unfold lossArgs1. destruct yp as [p'|], yt as [t'|]; try discriminate.
  destruct (_ && _); [|discriminate]. intros E; inversion E; subst; auto.
Qed.

Theorem AccValidate_run0 fuel depth (h : heap) (tot cor : dval) (yp yt : targ) :
  targOk h yp -> targOk h yt ->
  exists g l, run0 c_Accuracy_validateInputs fuel depth [tot; cor; dtarg yp; dtarg yt] h
              = DRet heap [DI (match lossArgs1 h yp yt with Some _ => 0 | None => 1 end)] h g l.
Proof.
  intros Hp Ht.
  unfold drun, c_Accuracy_validateInputs. cbn [pmain dbody plocals dparams dbind].
  destruct yp as [p|]; cbn [dtarg lossArgs1]; [|dxs; eauto].
  destruct yt as [t|]; cbn [dtarg lossArgs1]; [|dxs; eauto].
  cbn [targOk] in Hp, Ht.
  destruct (valOf_lt _ _ Hp) as [pv Hpv]. destruct (valOf_lt _ _ Ht) as [tv Htv].
  dxs.
  rewrite cext0_Shape, (tens_node _ _ _ Hp Hpv). cbn [obind]. dxs.
  rewrite cext0_Shape, (tens_node _ _ _ Ht Htv). cbn [obind]. dxs.
  unfold rankOf, dim0Of. rewrite Hpv, Htv.
  unfold dnats. dxs. rewrite !dlen_map.
  assert (E1 : (Z.of_nat (length (dims pv)) =? 1) = (length (dims pv) =? 1)%nat) by lia.
  assert (E2 : (Z.of_nat (length (dims tv)) =? 1) = (length (dims tv) =? 1)%nat) by lia.
  rewrite E1, E2. clear E1 E2.
  destruct (dims pv) as [|d0 [|d1 dr]]; cbn [length Nat.eqb negb andb]; try (dxs; eauto; fail).
  destruct (dims tv) as [|e0 [|e1 er]]; cbn [length Nat.eqb negb andb]; try (dxs; eauto; fail).
  dxs. cbn [didx Z.leb Z.compare Z.to_nat map nth_error nth]. dxs.
  assert (E3 : (Z.of_nat d0 =? Z.of_nat e0) = (d0 =? e0)%nat) by lia.
  rewrite E3. destruct (d0 =? e0)%nat; dxs; eauto.
Qed.

Lemma cext_AccValidate_spec (h : heap) (tot cor : dval) (yp yt : targ) :
  targOk h yp -> targOk h yt ->
  cext fltb fleb lib "Accuracy.validateInputs" [tot; cor; dtarg yp; dtarg yt] h
  = Some ([DI (match lossArgs1 h yp yt with Some _ => 0 | None => 1 end)], h).
Proof.
  intros Hp Ht. rewrite cext_AccValidate. unfold linked.
  destruct (AccValidate_run0 sibFuel sibFuel h tot cor yp yt Hp Ht) as [g [l E]]. rewrite E. reflexivity.
Qed.


(* ================= (2) Accumulate = acc_accumulate ================= *)

Lemma v_same_dims (b : binary) (t u r : T) : v_same b t u = Ok r -> dims r = dims t.
Proof.
  unfold v_same, guard, apply2. destruct (validateBinaryFuncDimsMatch _ _); [|discriminate].
  destruct (calc2 _ _ _ _) as [d|]; cbn [obind of_opt]; [|discriminate].
  intros E; inversion E; subst; reflexivity.
Qed.

Lemma lossArgs1_rank (h : heap) (yp yt : targ) p t :
  lossArgs1 h yp yt = Some (p, t) -> rankOf h p = 1%nat.
Proof.
  unfold lossArgs1. destruct yp as [p'|], yt as [t'|]; try discriminate.
  destruct (rankOf h p' =? 1)%nat eqn:E; cbn [andb]; [|discriminate].
  destruct (_ && _); [|discriminate]. intros E'; inversion E'; subst. now apply Nat.eqb_eq.
Qed.

Lemma acc_accumulate_Err (h : heap) (a a' : accuracy) (yp yt : targ) :
  acc_accumulate h a yp yt = (a', Err) -> a' = a.
Proof.
  unfold acc_accumulate. destruct (lossArgs1 h yp yt) as [[p t]|]; [|congruence].
  destruct (valOf h p); [|congruence]. destruct (valOf h t); [|congruence].
  destruct (v_same BiEq _ _); [|congruence|congruence].
  destruct (r_sum _); congruence.
Qed.

Theorem Accumulate_run fuel depth (h : heap) (a : accuracy) (yp yt : targ) :
  targOk h yp -> targOk h yt ->
  let o := run c_Accuracy_Accumulate fuel depth
               [DI (Z.of_nat (acc_total a)); DF (acc_correct a); dtarg yp; dtarg yt] h in
  match acc_accumulate h a yp yt with
  | (a', Ok _) => exists g l, o = DRet heap [DI 0] h g l /\
                              vlookup g l "c.total" = Some (DI (Z.of_nat (acc_total a'))) /\
                              vlookup g l "c.correct" = Some (DF (acc_correct a'))
  | (a', Err) => exists g l, o = DRet heap [DI 1] h g l /\
                             vlookup g l "c.total" = Some (DI (Z.of_nat (acc_total a))) /\
                             vlookup g l "c.correct" = Some (DF (acc_correct a))
  | (_, Panic) => o = DPanic heap
  end.
Proof.
  intros Hp Ht o. subst o.
  unfold drun, c_Accuracy_Accumulate. cbn [pmain dbody plocals dparams dbind]. dxs.
  rewrite (cext_AccValidate_spec h _ _ yp yt Hp Ht).
  unfold acc_accumulate.
  destruct (lossArgs1 h yp yt) as [[p t]|] eqn:EL.
  2:{ dxs. cbn [Z.eqb]. dxs. do 2 eexists. split; [reflexivity|]. split; reflexivity. }
  pose proof (lossArgs1_rank _ _ _ _ _ EL) as Hrk.
  destruct (lossArgs1_some _ _ _ _ _ EL) as [-> ->]. cbn [dtarg targOk] in *.
  destruct (valOf_lt _ _ Hp) as [pv Hpv]. destruct (valOf_lt _ _ Ht) as [tv Htv].
  rewrite Hpv, Htv.
  dxs. cbn [Z.eqb]. dxs.
  rewrite cext_Eq, cext0_Eq, (tens_node _ _ _ Hp Hpv), (tens_node _ _ _ Ht Htv). cbn [obind].
  destruct (v_same BiEq pv tv) as [eq| |] eqn:Ev; cbn [retT obind].
  3:{ reflexivity. }
  2:{ dxs. cbn [Z.eqb]. dxs. do 2 eexists. split; [reflexivity|]. split; reflexivity. }
  dxs. cbn [Z.eqb]. dxs.
  rewrite cext_Shape, cext0_Shape, tens_embT. cbn [obind]. dxs.
  pose proof (v_same_dims _ _ _ _ Ev) as Hd.
  unfold rankOf in Hrk. rewrite Hpv in Hrk.
  destruct (dims eq) as [|d0 dr] eqn:Ed.
  { rewrite <- Hd in Hrk. discriminate. }
  unfold dnats. dxs. cbn [didx Z.leb Z.compare Z.to_nat map nth_error nth]. dxs.
  rewrite cext_Sum, cext0_Sum, tens_embT. cbn [obind].
  destruct (r_sum eq) as [s|]; cbn [obind]; [|reflexivity].
  dxs. cbn [asFloats cfapp String.eqb Ascii.eqb Bool.eqb]. dxs.
  do 2 eexists. split; [reflexivity|]. cbn [acc_total acc_correct].
  rewrite Nat2Z.inj_add. split; reflexivity.
Qed.


(* remark: once validateInputs has accepted the batch, Eq cannot fail with an error (the shapes are equal), so the
   only source of Err in the model is the input validation *)
Lemma acc_accumulate_Err_validation (h : heap) (a a' : accuracy) (yp yt : targ) :
  acc_accumulate h a yp yt = (a', Err) -> lossArgs1 h yp yt = None.
Proof.
  unfold acc_accumulate. destruct (lossArgs1 h yp yt) as [[p t]|] eqn:EL; [|reflexivity].
  intros H. exfalso. revert H.
  unfold lossArgs1 in EL. destruct yp as [p'|], yt as [t'|]; try discriminate.
  destruct ((rankOf h p' =? 1)%nat && (rankOf h t' =? 1)%nat && (dim0Of h p' =? dim0Of h t')%nat) eqn:EC; [|discriminate].
  inversion EL; subst p' t'. clear EL.
  apply andb_prop in EC. destruct EC as [EC E3]. apply andb_prop in EC. destruct EC as [E1 E2].
  apply Nat.eqb_eq in E1, E2, E3. unfold rankOf, dim0Of in *.
  destruct (valOf h p) as [pv|]; [|discriminate]. destruct (valOf h t) as [tv|]; [|discriminate].
  unfold v_same, guard, validateBinaryFuncDimsMatch, zdims.
  destruct (dims pv) as [|d0 [|d1 dr]]; try discriminate.
  destruct (dims tv) as [|e0 [|e1 er]]; try discriminate.
  cbn [nth] in E3. subst e0. cbn [map dimsEq]. rewrite Z.eqb_refl. cbn [andb].
  destruct (apply2 _ _ _) as [eq|]; cbn [of_opt]; [|discriminate].
  destruct (r_sum eq); discriminate.
Qed.

(* ================= (3) Result = acc_result ================= *)

Theorem Result_run fuel depth (h : heap) (a : accuracy) :
  exists g l, run c_Accuracy_Result fuel depth [DI (Z.of_nat (acc_total a)); DF (acc_correct a)] h
              = DRet heap [DF (acc_result a); DI 0] h g l.
Proof.
  unfold drun, c_Accuracy_Result. cbn [pmain dbody plocals dparams dbind]. dxs.
  unfold acc_result.
  assert (E : (Z.of_nat (acc_total a) =? 0) = (acc_total a =? 0)%nat) by lia.
  rewrite E. destruct (acc_total a =? 0)%nat; dxs.
  - eauto.
  - rewrite cext_float64, cext0_float64.
    assert (E0 : (0 <=? Z.of_nat (acc_total a)) = true) by lia.
    rewrite E0, Nat2Z.id. dxs. eauto.
Qed.


(* ================= (4) history: any sequence of batches (C19) ================= *)

(* the flattened receiver *Accuracy between two calls: the values of c.total and c.correct *)
Definition accSt : Type := (dval * dval)%type.
(* a batch: the heap at the time of the call, predictions, targets *)
Definition batch : Type := (heap * targ * targ)%type.

Definition encAcc (a : accuracy) : accSt := (DI (Z.of_nat (acc_total a)), DF (acc_correct a)).

(* NewAccuracy(): the fields of the constructed struct *)
Definition accProg_new (fuel depth : nat) (h : heap) : option accSt :=
  match run c_Accuracy_NewAccuracy fuel depth [] h with
  | DRet _ [DL [t; c]] _ _ _ => Some (t, c)
  | _ => None
  end.

(* one Accumulate call from the state left by the previous call; the new state is read back from the final
   environment of the program (the receiver fields are pointer parameters) *)
Definition accProg_step (fuel depth : nat) (st : accSt) (b : batch) : option accSt :=
  let '(h, yp, yt) := b in
  match run c_Accuracy_Accumulate fuel depth [fst st; snd st; dtarg yp; dtarg yt] h with
  | DRet _ _ h' g l =>
      match vlookup g l "c.total", vlookup g l "c.correct" with
      | Some t, Some c => Some (t, c)
      | _, _ => None
      end
  | _ => None
  end.

Fixpoint accProg_fold (fuel depth : nat) (st : accSt) (bs : list batch) : option accSt :=
  match bs with
  | [] => Some st
  | b :: r => match accProg_step fuel depth st b with
              | Some st' => accProg_fold fuel depth st' r
              | None => None
              end
  end.

Definition accProg_result (fuel depth : nat) (st : accSt) (h : heap) : option (list dval) :=
  match run c_Accuracy_Result fuel depth [fst st; snd st] h with
  | DRet _ vs _ _ _ => Some vs
  | _ => None
  end.

(* the whole life of an Accuracy value: NewAccuracy, Accumulate on every batch, Result *)
Definition accProg_history (fuel depth : nat) (h0 : heap) (bs : list batch) (hr : heap) : option (list dval) :=
  do st0 <- accProg_new fuel depth h0;
  do st <- accProg_fold fuel depth st0 bs;
  accProg_result fuel depth st hr.

(* the model: batches rejected with Err are skipped (state unchanged), a Panic ends the history *)
Fixpoint acc_fold (a : accuracy) (bs : list batch) : option accuracy :=
  match bs with
  | [] => Some a
  | (h, yp, yt) :: r =>
      match acc_accumulate h a yp yt with
      | (a', Ok _) => acc_fold a' r
      | (_, Err) => acc_fold a r
      | (_, Panic) => None
      end
  end.

Definition batchOk (b : batch) : Prop := let '(h, yp, yt) := b in targOk h yp /\ targOk h yt.

Lemma accProg_new_spec fuel depth (h : heap) : accProg_new fuel depth h = Some (encAcc acc_new).
Proof.
  unfold accProg_new. destruct (NewAccuracy_run fuel depth h) as [g [l E]]. rewrite E. reflexivity.
Qed.

Lemma accProg_step_spec fuel depth (a : accuracy) (h : heap) (yp yt : targ) :
  targOk h yp -> targOk h yt ->
  accProg_step fuel depth (encAcc a) (h, yp, yt) =
  match acc_accumulate h a yp yt with
  | (a', Ok _) => Some (encAcc a')
  | (_, Err) => Some (encAcc a)
  | (_, Panic) => None
  end.
Proof.
  intros Hp Ht. unfold accProg_step, encAcc. cbn [fst snd].
  pose proof (Accumulate_run fuel depth h a yp yt Hp Ht) as H. cbv zeta in H.
  destruct (acc_accumulate h a yp yt) as [a' [[]| |]].
  - destruct H as [g [l [E [E1 E2]]]]. rewrite E, E1, E2. reflexivity.
  - destruct H as [g [l [E [E1 E2]]]]. rewrite E, E1, E2. reflexivity.
  - rewrite H. reflexivity.
Qed.

Lemma accProg_fold_spec fuel depth (bs : list batch) :
  Forall batchOk bs -> forall a : accuracy,
  accProg_fold fuel depth (encAcc a) bs = option_map encAcc (acc_fold a bs).
Proof.
  induction 1 as [|[[h yp] yt] bs [Hp Ht] Hbs IH]; intros a; [reflexivity|].
  cbn [accProg_fold acc_fold]. rewrite (accProg_step_spec fuel depth a h yp yt Hp Ht).
  destruct (acc_accumulate h a yp yt) as [a' [[]| |]]; [apply IH | apply IH | reflexivity].
Qed.

Lemma accProg_result_spec fuel depth (a : accuracy) (h : heap) :
  accProg_result fuel depth (encAcc a) h = Some [DF (acc_result a); DI 0].
Proof.
  unfold accProg_result, encAcc. cbn [fst snd].
  destruct (Result_run fuel depth h a) as [g [l E]]. rewrite E. reflexivity.
Qed.

(* C19 at the level of the translated source: for EVERY list of batches (any length, each with its own heap),
   constructing, accumulating every batch and asking for the result returns the model's accuracy of the fold,
   with nil error; if the model panics on some batch the program panics too *)
Theorem Accuracy_history fuel depth (h0 hr : heap) (bs : list batch) :
  Forall batchOk bs ->
  accProg_history fuel depth h0 bs hr =
  match acc_fold acc_new bs with
  | Some a => Some [DF (acc_result a); DI 0]
  | None => None
  end.
Proof.
  intros Hbs. unfold accProg_history.
  rewrite accProg_new_spec. cbn [obind].
  rewrite (accProg_fold_spec fuel depth bs Hbs acc_new).
  destruct (acc_fold acc_new bs) as [a|]; cbn [option_map obind]; [|reflexivity].
  apply accProg_result_spec.
Qed.

(* the same over one fixed heap, batches given as pairs (yp, yt) *)
Corollary Accuracy_history_fixed fuel depth (h : heap) (ps : list (targ * targ)) :
  Forall (fun p => targOk h (fst p) /\ targOk h (snd p)) ps ->
  let bs := map (fun p => (h, fst p, snd p)) ps in
  forall a, acc_fold acc_new bs = Some a ->
  accProg_history fuel depth h bs h = Some [DF (acc_result a); DI 0].
Proof.
  intros Hps bs.
  assert (Hbs : Forall batchOk bs).
  { subst bs. induction Hps as [|[yp yt] ps Hp Hps IH]; cbn [map]; constructor; [exact Hp | exact IH]. }
  intros a Ha.
  rewrite (Accuracy_history fuel depth h h bs Hbs), Ha. reflexivity.
Qed.


(* ================= (5) the Forward entry points ================= *)

(* the outcome of a call that is handed over to [lib] and must return (tensor, error) *)
Definition libOut (r : option (list dval * heap)) (o : @doutcome A heap) : Prop :=
  match r with
  | Some ([r0; r1], h') => exists g l, o = DRet heap [r0; r1] h' g l
  | _ => o = DPanic heap
  end.

Definition dtargs (xs : list targ) : dval := DL (map dtarg xs).

Lemma len1 (xs : list targ) : (Z.of_nat (length xs) =? 1) = (length xs =? 1)%nat.
Proof. lia. Qed.

(* ---- the siblings toValidInputs ---- *)

Ltac toValid_simple :=
  cbn [pmain dbody plocals dparams dbind]; unfold dtargs; dxs; rewrite dlen_map, len1;
  match goal with xs : list targ |- _ => destruct xs as [|[x|] [|y r]] end;
  cbn [length Nat.eqb negb oneInput map dtarg]; dxs;
  cbn [didx Z.leb Z.compare Z.to_nat nth_error]; dxs; eauto.

Lemma Relu_toValid_run0 fuel depth (h : heap) (xs : list targ) :
  exists g l, run0 c_Relu_toValidInputs fuel depth [dtargs xs] h
              = DRet heap (match oneInput xs with Some x => [DI (Z.of_nat x); DI 0] | None => [DNil; DI 1] end) h g l.
Proof. unfold drun, c_Relu_toValidInputs. toValid_simple. Qed.

Lemma Sigmoid_toValid_run0 fuel depth (h : heap) (xs : list targ) :
  exists g l, run0 c_Sigmoid_toValidInputs fuel depth [dtargs xs] h
              = DRet heap (match oneInput xs with Some x => [DI (Z.of_nat x); DI 0] | None => [DNil; DI 1] end) h g l.
Proof. unfold drun, c_Sigmoid_toValidInputs. toValid_simple. Qed.

Lemma Tanh_toValid_run0 fuel depth (h : heap) (xs : list targ) :
  exists g l, run0 c_Tanh_toValidInputs fuel depth [dtargs xs] h
              = DRet heap (match oneInput xs with Some x => [DI (Z.of_nat x); DI 0] | None => [DNil; DI 1] end) h g l.
Proof. unfold drun, c_Tanh_toValidInputs. toValid_simple. Qed.

Lemma LeakyRelu_toValid_run0 fuel depth (h : heap) (m : dval) (xs : list targ) :
  exists g l, run0 c_LeakyRelu_toValidInputs fuel depth [m; dtargs xs] h
              = DRet heap (match oneInput xs with Some x => [DI (Z.of_nat x); DI 0] | None => [DNil; DI 1] end) h g l.
Proof. unfold drun, c_LeakyRelu_toValidInputs. toValid_simple. Qed.

(* the one input, when there is one, is a node of the heap *)
Definition inputOk (h : heap) (xs : list targ) : Prop :=
  match oneInput xs with Some x => (x < length h)%nat | None => True end.

Lemma Softmax_toValid_run0 fuel depth (h : heap) (dim : Z) (xs : list targ) :
  inputOk h xs ->
  exists g l, run0 c_Softmax_toValidInputs fuel depth [DI dim; dtargs xs] h
              = DRet heap (match oneInput xs with
                           | Some x => [DI (Z.of_nat x); DI (if Z.of_nat (rankOf h x) <=? dim then 1 else 0)]
                           | None => [DNil; DI 1]
                           end) h g l.
Proof.
  intros Hx. unfold drun, c_Softmax_toValidInputs.
  cbn [pmain dbody plocals dparams dbind]; unfold dtargs; dxs; rewrite dlen_map, len1.
  unfold inputOk in Hx.
  destruct xs as [|[x|] [|y r]];
  cbn [length Nat.eqb negb oneInput map dtarg] in *; dxs;
  cbn [didx Z.leb Z.compare Z.to_nat nth_error]; dxs; eauto.
  destruct (valOf_lt _ _ Hx) as [xv Hxv].
  rewrite cext0_Shape, (tens_node _ _ _ Hx Hxv). cbn [obind]. dxs.
  unfold rankOf. rewrite Hxv. unfold dnats. dxs. rewrite dlen_map.
  destruct (Z.of_nat (length (dims xv)) <=? dim); dxs; eauto.
Qed.

Lemma FC_toValid_run0 fuel depth (h : heap) (w b : dval) (xs : list targ) :
  inputOk h xs ->
  exists g l, run0 c_FC_toValidInputs fuel depth [w; b; dtargs xs] h
              = DRet heap (match oneInput xs with
                           | Some x => [DI (Z.of_nat x); DI (if (rankOf h x =? 2)%nat then 0 else 1)]
                           | None => [DNil; DI 1]
                           end) h g l.
Proof.
  intros Hx. unfold drun, c_FC_toValidInputs.
  cbn [pmain dbody plocals dparams dbind]; unfold dtargs; dxs; rewrite dlen_map, len1.
  unfold inputOk in Hx.
  destruct xs as [|[x|] [|y r]];
  cbn [length Nat.eqb negb oneInput map dtarg] in *; dxs;
  cbn [didx Z.leb Z.compare Z.to_nat nth_error]; dxs; eauto.
  destruct (valOf_lt _ _ Hx) as [xv Hxv].
  rewrite cext0_Shape, (tens_node _ _ _ Hx Hxv). cbn [obind]. dxs.
  unfold rankOf. rewrite Hxv. unfold dnats. dxs. rewrite dlen_map.
  assert (E : (Z.of_nat (length (dims xv)) =? 2) = (length (dims xv) =? 2)%nat) by lia.
  rewrite E. destruct (length (dims xv) =? 2)%nat; dxs; eauto.
Qed.

(* ---- linking: the sibling names run the sibling programs, the forward bodies go to [lib] ---- *)

Lemma cext_Relu_toValid args (h : heap) :
  cext fltb fleb lib "Relu.toValidInputs" args h = linked c_Relu_toValidInputs args h.
Proof. reflexivity. Qed.
Lemma cext_Sigmoid_toValid args (h : heap) :
  cext fltb fleb lib "Sigmoid.toValidInputs" args h = linked c_Sigmoid_toValidInputs args h.
Proof. reflexivity. Qed.
Lemma cext_Tanh_toValid args (h : heap) :
  cext fltb fleb lib "Tanh.toValidInputs" args h = linked c_Tanh_toValidInputs args h.
Proof. reflexivity. Qed.
Lemma cext_LeakyRelu_toValid args (h : heap) :
  cext fltb fleb lib "LeakyRelu.toValidInputs" args h = linked c_LeakyRelu_toValidInputs args h.
Proof. reflexivity. Qed.
Lemma cext_Softmax_toValid args (h : heap) :
  cext fltb fleb lib "Softmax.toValidInputs" args h = linked c_Softmax_toValidInputs args h.
Proof. reflexivity. Qed.
Lemma cext_FC_toValid args (h : heap) :
  cext fltb fleb lib "FC.toValidInputs" args h = linked c_FC_toValidInputs args h.
Proof. reflexivity. Qed.

Lemma cext_Relu_forward args (h : heap) : cext fltb fleb lib "Relu.forward" args h = lib "Relu.forward" args h.
Proof. reflexivity. Qed.
Lemma cext_Sigmoid_forward args (h : heap) : cext fltb fleb lib "Sigmoid.forward" args h = lib "Sigmoid.forward" args h.
Proof. reflexivity. Qed.
Lemma cext_Tanh_forward args (h : heap) : cext fltb fleb lib "Tanh.forward" args h = lib "Tanh.forward" args h.
Proof. reflexivity. Qed.
Lemma cext_LeakyRelu_forward args (h : heap) : cext fltb fleb lib "LeakyRelu.forward" args h = lib "LeakyRelu.forward" args h.
Proof. reflexivity. Qed.
Lemma cext_Softmax_forward args (h : heap) : cext fltb fleb lib "Softmax.forward" args h = lib "Softmax.forward" args h.
Proof. reflexivity. Qed.
Lemma cext_FC_forward args (h : heap) : cext fltb fleb lib "FC.forward" args h = lib "FC.forward" args h.
Proof. reflexivity. Qed.

(* after the call of forward: exactly two results, returned as they are *)
Ltac finish_lib :=
  match goal with |- context [lib ?f ?args ?h] => destruct (lib f args h) as [[[|r0 [|r1 [|r2 rs]]] h']|] end;
  cbn [libOut]; dxs; try reflexivity; eauto.

Theorem Relu_Forward_run fuel depth (h : heap) (xs : list targ) :
  let o := run c_Relu_Forward fuel depth [dtargs xs] h in
  match oneInput xs with
  | None => exists g l, o = DRet heap [DNil; DI 1] h g l
  | Some x => libOut (lib "Relu.forward" [DI (Z.of_nat x)] h) o
  end.
Proof.
  intros o. subst o. unfold drun, c_Relu_Forward. cbn [pmain dbody plocals dparams dbind]. dxs.
  rewrite cext_Relu_toValid. unfold linked.
  destruct (Relu_toValid_run0 sibFuel sibFuel h xs) as [g0 [l0 E]]. rewrite E. clear E.
  destruct (oneInput xs) as [x|]; dxs; cbn [Z.eqb]; dxs; eauto.
  rewrite cext_Relu_forward. finish_lib.
Qed.

Theorem Sigmoid_Forward_run fuel depth (h : heap) (xs : list targ) :
  let o := run c_Sigmoid_Forward fuel depth [dtargs xs] h in
  match oneInput xs with
  | None => exists g l, o = DRet heap [DNil; DI 1] h g l
  | Some x => libOut (lib "Sigmoid.forward" [DI (Z.of_nat x)] h) o
  end.
Proof.
  intros o. subst o. unfold drun, c_Sigmoid_Forward. cbn [pmain dbody plocals dparams dbind]. dxs.
  rewrite cext_Sigmoid_toValid. unfold linked.
  destruct (Sigmoid_toValid_run0 sibFuel sibFuel h xs) as [g0 [l0 E]]. rewrite E. clear E.
  destruct (oneInput xs) as [x|]; dxs; cbn [Z.eqb]; dxs; eauto.
  rewrite cext_Sigmoid_forward. finish_lib.
Qed.

Theorem Tanh_Forward_run fuel depth (h : heap) (xs : list targ) :
  let o := run c_Tanh_Forward fuel depth [dtargs xs] h in
  match oneInput xs with
  | None => exists g l, o = DRet heap [DNil; DI 1] h g l
  | Some x => libOut (lib "Tanh.forward" [DI (Z.of_nat x)] h) o
  end.
Proof.
  intros o. subst o. unfold drun, c_Tanh_Forward. cbn [pmain dbody plocals dparams dbind]. dxs.
  rewrite cext_Tanh_toValid. unfold linked.
  destruct (Tanh_toValid_run0 sibFuel sibFuel h xs) as [g0 [l0 E]]. rewrite E. clear E.
  destruct (oneInput xs) as [x|]; dxs; cbn [Z.eqb]; dxs; eauto.
  rewrite cext_Tanh_forward. finish_lib.
Qed.

Theorem LeakyRelu_Forward_run fuel depth (h : heap) (m : A) (xs : list targ) :
  let o := run c_LeakyRelu_Forward fuel depth [DF m; dtargs xs] h in
  match oneInput xs with
  | None => exists g l, o = DRet heap [DNil; DI 1] h g l
  | Some x => libOut (lib "LeakyRelu.forward" [DF m; DI (Z.of_nat x)] h) o
  end.
Proof.
  intros o. subst o. unfold drun, c_LeakyRelu_Forward. cbn [pmain dbody plocals dparams dbind]. dxs.
  rewrite cext_LeakyRelu_toValid. unfold linked.
  destruct (LeakyRelu_toValid_run0 sibFuel sibFuel h (DF m) xs) as [g0 [l0 E]]. rewrite E. clear E.
  destruct (oneInput xs) as [x|]; dxs; cbn [Z.eqb]; dxs; eauto.
  rewrite cext_LeakyRelu_forward. finish_lib.
Qed.

Theorem Softmax_Forward_run fuel depth (h : heap) (dim : Z) (xs : list targ) :
  inputOk h xs ->
  let o := run c_Softmax_Forward fuel depth [DI dim; dtargs xs] h in
  match oneInput xs with
  | None => exists g l, o = DRet heap [DNil; DI 1] h g l
  | Some x => if Z.of_nat (rankOf h x) <=? dim
              then exists g l, o = DRet heap [DNil; DI 1] h g l
              else libOut (lib "Softmax.forward" [DI dim; DI (Z.of_nat x)] h) o
  end.
Proof.
  intros Hx o. subst o. unfold drun, c_Softmax_Forward. cbn [pmain dbody plocals dparams dbind]. dxs.
  rewrite cext_Softmax_toValid. unfold linked.
  destruct (Softmax_toValid_run0 sibFuel sibFuel h dim xs Hx) as [g0 [l0 E]]. rewrite E. clear E.
  destruct (oneInput xs) as [x|]; [|dxs; cbn [Z.eqb]; dxs; eauto].
  destruct (Z.of_nat (rankOf h x) <=? dim); dxs; cbn [Z.eqb]; dxs; eauto.
  rewrite cext_Softmax_forward. finish_lib.
Qed.

(* with the model's natural-number dimension (Components.softmax_forward tests [rankOf h x <=? dim]) *)
Corollary Softmax_Forward_run_nat fuel depth (h : heap) (dim : nat) (xs : list targ) :
  inputOk h xs ->
  let o := run c_Softmax_Forward fuel depth [DI (Z.of_nat dim); dtargs xs] h in
  match oneInput xs with
  | None => exists g l, o = DRet heap [DNil; DI 1] h g l
  | Some x => if (rankOf h x <=? dim)%nat
              then exists g l, o = DRet heap [DNil; DI 1] h g l
              else libOut (lib "Softmax.forward" [DI (Z.of_nat dim); DI (Z.of_nat x)] h) o
  end.
Proof.
  intros Hx o. pose proof (Softmax_Forward_run fuel depth h (Z.of_nat dim) xs Hx) as H. cbv zeta in H.
  destruct (oneInput xs) as [x|]; [|exact H].
  assert (E : (Z.of_nat (rankOf h x) <=? Z.of_nat dim) = (rankOf h x <=? dim)%nat) by lia.
  rewrite E in H. exact H.
Qed.

Theorem FC_Forward_run fuel depth (h : heap) (w b : dval) (xs : list targ) :
  inputOk h xs ->
  let o := run c_FC_Forward fuel depth [w; b; dtargs xs] h in
  match oneInput xs with
  | None => exists g l, o = DRet heap [DNil; DI 1] h g l
  | Some x => if (rankOf h x =? 2)%nat
              then libOut (lib "FC.forward" [w; b; DI (Z.of_nat x)] h) o
              else exists g l, o = DRet heap [DNil; DI 1] h g l
  end.
Proof.
  intros Hx o. subst o. unfold drun, c_FC_Forward. cbn [pmain dbody plocals dparams dbind]. dxs.
  rewrite cext_FC_toValid. unfold linked.
  destruct (FC_toValid_run0 sibFuel sibFuel h w b xs Hx) as [g0 [l0 E]]. rewrite E. clear E.
  destruct (oneInput xs) as [x|]; [|dxs; cbn [Z.eqb]; dxs; eauto].
  destruct (rankOf h x =? 2)%nat; dxs; cbn [Z.eqb]; dxs; eauto.
  rewrite cext_FC_forward. finish_lib.
Qed.

End CompAcc.

Print Assumptions NewAccuracy_run.
Print Assumptions AccValidate_run0.
Print Assumptions cext_AccValidate_spec.
Print Assumptions Accumulate_run.
Print Assumptions Result_run.
Print Assumptions Accuracy_history.
Print Assumptions Accuracy_history_fixed.
Print Assumptions Relu_Forward_run.
Print Assumptions Sigmoid_Forward_run.
Print Assumptions Tanh_Forward_run.
Print Assumptions LeakyRelu_Forward_run.
Print Assumptions Softmax_Forward_run.
Print Assumptions Softmax_Forward_run_nat.
Print Assumptions FC_Forward_run.
Print Assumptions acc_accumulate_Err_validation.

(* ================= concrete runs over the free term algebra ================= *)
Definition ex_tb (a b : term) : bool := true.
(* a library in which Relu.forward returns its input with a nil error and FC.forward returns three values *)
Definition ex_lib (f : string) (args : list (@dval term)) (h : @heap term) : option (list (@dval term) * @heap term) :=
  if String.eqb f "Relu.forward" then match args with [x] => Some ([x; DI 0], h) | _ => None end
  else if String.eqb f "FC.forward" then Some ([DNil; DI 0; DI 0], h)
  else None.
Definition ex_v (a b : Z) : tensor term := mkT [2%nat] (Vec [Sc (TConst a 0); Sc (TConst b 0)]).
Definition ex_m : tensor term := mkT [1%nat; 2%nat] (Vec [Vec [Sc (TConst 1 0); Sc (TConst 2 0)]]).
(* node 0 = [1, 2], node 1 = [1, 3], node 2 = [[1, 2]] *)
Definition ex_h : @heap term :=
  fst (leaf (fst (leaf (fst (leaf [] (ex_v 1 2) false None)) (ex_v 1 3) false None)) ex_m false None).
Definition ex_batches : list (@batch term) :=
  [(ex_h, Some 0%nat, Some 1%nat); (ex_h, None, Some 1%nat); (ex_h, Some 2%nat, Some 1%nat); (ex_h, Some 1%nat, Some 1%nat)].

(* two accepted batches of size 2, two rejected ones (nil prediction, rank 2) *)
Example history_example :
  Forall batchOk ex_batches /\
  option_map acc_total (acc_fold acc_new ex_batches) = Some 4%nat /\
  accProg_history ex_tb ex_tb ex_lib 1 1 ex_h ex_batches ex_h =
  option_map (fun a => [DF (acc_result a); DI 0]) (acc_fold acc_new ex_batches) /\
  accProg_history ex_tb ex_tb ex_lib 1 1 ex_h ex_batches ex_h <> None.
Proof.
  split; [|split; [|split]].
  - repeat constructor; cbn; lia.
  - vm_compute. reflexivity.
  - vm_compute. reflexivity.
  - vm_compute. discriminate.
Qed.

Example accumulate_example :
  match drun cfapp (@heap term) (cext ex_tb ex_tb ex_lib) c_Accuracy_Accumulate 1 1
             [DI 0; DF (TConst 0 0); DI 0; DI 1] ex_h with
  | DRet _ [DI 0] h' g l =>
      h' = ex_h /\ vlookup g l "c.total" = Some (DI 2) /\
      vlookup g l "c.correct" = Some (DF (acc_correct (fst (acc_accumulate ex_h acc_new (Some 0%nat) (Some 1%nat)))))
  | _ => False
  end.
Proof. vm_compute. repeat split; reflexivity. Qed.

Example forward_examples :
  (exists g l, drun cfapp (@heap term) (cext ex_tb ex_tb ex_lib) c_Relu_Forward 1 1 [dtargs [Some 1%nat]] ex_h
               = DRet _ [DI 1; DI 0] ex_h g l) /\
  (exists g l, drun cfapp (@heap term) (cext ex_tb ex_tb ex_lib) c_Relu_Forward 1 1 [dtargs [None]] ex_h
               = DRet _ [DNil; DI 1] ex_h g l) /\
  (exists g l, drun cfapp (@heap term) (cext ex_tb ex_tb ex_lib) c_Softmax_Forward 1 1 [DI 1; dtargs [Some 0%nat]] ex_h
               = DRet _ [DNil; DI 1] ex_h g l) /\
  drun cfapp (@heap term) (cext ex_tb ex_tb ex_lib) c_Softmax_Forward 1 1 [DI 0; dtargs [Some 0%nat]] ex_h = DPanic _ /\
  (exists g l, drun cfapp (@heap term) (cext ex_tb ex_tb ex_lib) c_FC_Forward 1 1 [DI 0; DI 1; dtargs [Some 0%nat]] ex_h
               = DRet _ [DNil; DI 1] ex_h g l) /\
  drun cfapp (@heap term) (cext ex_tb ex_tb ex_lib) c_FC_Forward 1 1 [DI 0; DI 1; dtargs [Some 2%nat]] ex_h = DPanic _.
Proof. vm_compute. repeat split; try (do 2 eexists; reflexivity). Qed.
