(* StepP.v — invariants of the scenario interpreter [step] over ALL commands and all states
   (C10 first half, the heap part of C08/C20):
     1. a generic frame calculus for [hbind] chains / [atomically] (every component entry point),
     2. [step_rel]: the complete case analysis of what one command may do to heap and environment,
     3. [step_frame_values], [step_frame_tracking], [step_frame_grad],
     4. the lift to histories ([exec], [run_from_app]) and well-formedness of every reachable heap.
   Everything is proved for arbitrary [rd], arbitrary sealing functions [sealv]/[sealg] (the
   identity sealing of the properties is an instance) and arbitrary constants. *)
From Coq Require Import List Arith ZArith Bool Lia.
From Qeep Require Import Model.Scalar Model.Nd Model.Fill Model.Data Model.Valid Model.Api Model.Grad
     Model.Backprop Model.Components Model.Scenario.
From Qeep Require Import Proofs.NdP Proofs.TrackP Proofs.DfsP Proofs.BpFlagsP.
From Qeep Require Proofs.BackpropP.
Import ListNotations.

Section StepP.
Context {A : Type} {SA : Scalar A}.
Notation T := (tensor A).
Notation heap := (@heap A).
Notation node := (@node A).
Notation rule := (@rule A).
Notation hres := (@hres A).
Notation state := (@state A).
Notation cmd := (@cmd A).
Notation obj := (@obj A).
Notation obs := (@obs A).

(* ================================================================== *)
(*  0. the heap invariant: back edges point at older tensors and every *)
(*     rule stored at node c reads the gradient of c                   *)
(* ================================================================== *)
Definition hinv (h : heap) : Prop := BackpropP.wf_heap h /\ BackpropP.rules_own h.

Lemma hinv_wf (h : heap) : hinv h -> wf_heap h.
Proof. intros [W _]. exact (proj1 (BackpropP.wf_heap_Forall h) W). Qed.

Lemma wf_of_track (h : heap) : wf_heap h -> BackpropP.wf_heap h.
Proof. intros W. exact (proj2 (BackpropP.wf_heap_Forall h) W). Qed.

Lemma hinv_nil : hinv [].
Proof. split; [apply BackpropP.wf_heap_nil|apply BackpropP.rules_own_nil]. Qed.

Lemma hinv_updNode (h : heap) i f : (forall n, nedges (f n) = nedges n) -> hinv h -> hinv (updNode h i f).
Proof.
  intros Hf [W O]. split; apply BackpropP.edges_ok_updNode; try assumption;
    intros n e He; rewrite Hf in He; exact He.
Qed.

Lemma hinv_alloc_noedges (h : heap) v tr di name : hinv h -> hinv (fst (alloc h v (tr, di, []) name)).
Proof. intros [W O]. split; apply BackpropP.edges_ok_alloc; try assumption; intros e []. Qed.

(* ================================================================== *)
(*  1. frame calculus for chains of tracked methods                    *)
(* ================================================================== *)

(* what a (possibly failing, possibly non-atomic) chain of tracked methods may do *)
Definition okw (h : heap) (hr : hres) : Prop :=
  extends h (fst hr) /\
  (forall id, snd hr = Ok id -> length h <= id /\ S id = length (fst hr)) /\
  (hinv h -> hinv (fst hr)).

Lemma okw_of_frame (h : heap) (hr : hres) : frame_ok h hr -> (hinv h -> hinv (fst hr)) -> okw h hr.
Proof.
  intros (He & _ & Hid & _) Hi. split; [exact He|]. split; [|exact Hi].
  intros id E. destruct (Hid id E) as (H1 & _ & H3). split; assumption.
Qed.

Lemma okw_fail (h : heap) (r : res nat) : (forall id, r <> Ok id) -> okw h (h, r).
Proof.
  intros Hr. split; [apply extends_refl|]. split; [|intros H; exact H].
  intros id E. exfalso. apply (Hr id E).
Qed.

(* every step of a chain is fine -> the chain is fine *)
Lemma okw_bind (h : heap) (r : hres) (f : heap -> nat -> hres) :
  okw h r -> (forall h1 id, okw h1 (f h1 id)) -> okw h (hbind r f).
Proof.
  intros (He & Hid & Hi) Hf. destruct r as [h1 [id| |]]; cbn [hbind fst snd] in *.
  - destruct (Hf h1 id) as (He2 & Hid2 & Hi2). split; [eapply extends_trans; eauto|]. split.
    + intros id' E. destruct (Hid2 id' E) as [L1 L2]. split; [|exact L2].
      pose proof (extends_length _ _ He). lia.
    + intros H. apply Hi2, Hi, H.
  - split; [exact He|]. split; [intros id E; discriminate|exact Hi].
  - split; [exact He|]. split; [intros id E; discriminate|exact Hi].
Qed.

(* [atomically]: same guarantees, and the original heap on failure: together this is [frame_ok] *)
Lemma okw_atomically (h : heap) (r : hres) : okw h r -> okw h (atomically h r).
Proof.
  intros (He & Hid & Hi). destruct r as [h1 [id| |]]; cbn [atomically fst snd] in *.
  - split; [exact He|]. split; [exact Hid|exact Hi].
  - apply okw_fail. intros id; discriminate.
  - apply okw_fail. intros id; discriminate.
Qed.

Lemma atomically_fail (h : heap) (r : hres) : (forall id, snd (atomically h r) <> Ok id) -> fst (atomically h r) = h.
Proof.
  destruct r as [h1 [id| |]]; cbn [atomically fst snd]; intros H; [|reflexivity|reflexivity].
  exfalso. apply (H id). reflexivity.
Qed.

Theorem atomically_frame (h : heap) (r : hres) : okw h r -> frame_ok h (atomically h r).
Proof.
  intros H. pose proof (okw_atomically h r H) as (He & Hid & _).
  split; [exact He|]. split; [apply extends_nth; exact He|]. split.
  - intros id E. destruct (Hid id E) as [L1 L2]. repeat split; try assumption. lia.
  - intros E. apply atomically_fail. intros id X. rewrite X in E. destruct E; discriminate.
Qed.

(* --- the primitives --- *)
Ltac prim f w o := apply okw_of_frame; [f|intros [HW HO]; split; [w; exact HW|o; exact HO]].

Lemma okw_scale h x a nm : okw h (h_scale h x a nm).
Proof. prim ltac:(apply h_scale_frame) ltac:(apply BackpropP.wf_heap_op1) ltac:(apply BackpropP.rules_own_scale). Qed.
Lemma okw_pow h x a az nm : okw h (h_pow h x a az nm).
Proof. prim ltac:(apply h_pow_frame) ltac:(apply BackpropP.wf_heap_op1) ltac:(apply BackpropP.rules_own_pow). Qed.
Lemma okw_math h f x nm : okw h (h_math h f x nm).
Proof. prim ltac:(apply h_math_frame) ltac:(apply BackpropP.wf_heap_op1) ltac:(apply BackpropP.rules_own_math). Qed.
Lemma okw_transpose h x nm : okw h (h_transpose h x nm).
Proof. prim ltac:(apply h_transpose_frame) ltac:(apply BackpropP.wf_heap_op1) ltac:(apply BackpropP.rules_own_transpose). Qed.
Lemma okw_reshape h x sh nm : okw h (h_reshape h x sh nm).
Proof. prim ltac:(apply h_reshape_frame) ltac:(apply BackpropP.wf_heap_op1) ltac:(apply BackpropP.rules_own_reshape). Qed.
Lemma okw_broadcast h x sh nm : okw h (h_broadcast h x sh nm).
Proof. prim ltac:(apply h_broadcast_frame) ltac:(apply BackpropP.wf_heap_op1) ltac:(apply BackpropP.rules_own_broadcast). Qed.
Lemma okw_unsqueeze h x d nm : okw h (h_unsqueeze h x d nm).
Proof. prim ltac:(apply h_unsqueeze_frame) ltac:(apply BackpropP.wf_heap_op1) ltac:(apply BackpropP.rules_own_unsqueeze). Qed.
Lemma okw_squeeze h x d nm : okw h (h_squeeze h x d nm).
Proof. prim ltac:(apply h_squeeze_frame) ltac:(apply BackpropP.wf_heap_op1) ltac:(apply BackpropP.rules_own_squeeze). Qed.
Lemma okw_flatten h x d nm : okw h (h_flatten h x d nm).
Proof. prim ltac:(apply h_flatten_frame) ltac:(apply BackpropP.wf_heap_op1) ltac:(apply BackpropP.rules_own_flatten). Qed.
Lemma okw_reduceAlong h r x d nm : okw h (h_reduceAlong h r x d nm).
Proof. prim ltac:(apply h_reduceAlong_frame) ltac:(apply BackpropP.wf_heap_op1) ltac:(apply BackpropP.rules_own_reduceAlong). Qed.
Lemma okw_slice h x idx nm : okw h (h_slice h x idx nm).
Proof. prim ltac:(apply h_slice_frame) ltac:(apply BackpropP.wf_heap_op1) ltac:(apply BackpropP.rules_own_slice). Qed.
Lemma okw_cmp h b x u nm : okw h (h_cmp h b x u nm).
Proof. prim ltac:(apply h_cmp_frame) ltac:(apply BackpropP.wf_heap_cmp) ltac:(apply BackpropP.rules_own_cmp). Qed.
Lemma okw_elsel h b x u nm : okw h (h_elsel h b x u nm).
Proof. prim ltac:(apply h_elsel_frame) ltac:(apply BackpropP.wf_heap_elsel) ltac:(apply BackpropP.rules_own_elsel). Qed.
Lemma okw_arith h b x u nm : okw h (h_arith h b x u nm).
Proof. prim ltac:(apply h_arith_frame) ltac:(apply BackpropP.wf_heap_arith) ltac:(apply BackpropP.rules_own_arith). Qed.
Lemma okw_dot h x u nm : okw h (h_dot h x u nm).
Proof. prim ltac:(apply h_dot_frame) ltac:(apply BackpropP.wf_heap_dot) ltac:(apply BackpropP.rules_own_dot). Qed.
Lemma okw_matmul h x u nm : okw h (h_matmul h x u nm).
Proof. prim ltac:(apply h_matmul_frame) ltac:(apply BackpropP.wf_heap_matmul) ltac:(apply BackpropP.rules_own_matmul). Qed.
Lemma okw_patch h x idx p nm : okw h (h_patch h x idx p nm).
Proof. prim ltac:(apply h_patch_frame) ltac:(apply BackpropP.wf_heap_patch) ltac:(apply BackpropP.rules_own_patch). Qed.
Lemma okw_concat h xs d nm : okw h (h_concat h xs d nm).
Proof. prim ltac:(apply h_concat_frame) ltac:(apply BackpropP.wf_heap_concat) ltac:(apply BackpropP.rules_own_concat). Qed.

(* allocation of an edge-free node: leaves, gradient tensors, SGD results, initializers *)
Lemma okw_alloc0 (h : heap) v tr di nm : okw h (let '(h', id) := alloc h v (tr, di, []) nm in (h', Ok id)).
Proof.
  pose proof (hinv_alloc_noedges h v tr di nm) as Hi. rewrite alloc_eq in *. cbn [fst] in Hi.
  split; [eexists; reflexivity|]. split; [|exact Hi].
  cbn [fst snd]. intros id E. inversion E; subst id. rewrite app_length. cbn. lia.
Qed.

(* --- the component entry points --- *)
Ltac chain :=
  repeat (apply okw_bind; [|intros ? ?]);
  first [apply okw_scale|apply okw_pow|apply okw_math|apply okw_unsqueeze|apply okw_matmul|apply okw_reduceAlong
        |apply okw_arith|apply okw_elsel].

Lemma okw_fc_forward h w b xs nm : okw h (fc_forward h w b xs nm).
Proof.
  unfold fc_forward. destruct (oneInput xs) as [x|]; [|apply okw_fail; intros id; discriminate].
  destruct (negb (rankOf h x =? 2)); [apply okw_fail; intros id; discriminate|].
  apply okw_atomically. chain.
Qed.

Lemma okw_relu h xs nm : okw h (relu_forward h xs nm).
Proof.
  unfold relu_forward. destruct (oneInput xs) as [x|]; [|apply okw_fail; intros id; discriminate].
  apply okw_atomically. chain.
Qed.

Lemma okw_leaky h m xs nm : okw h (leaky_forward h m xs nm).
Proof.
  unfold leaky_forward. destruct (oneInput xs) as [x|]; [|apply okw_fail; intros id; discriminate].
  apply okw_atomically. chain.
Qed.

Lemma okw_sigmoid h xs nm : okw h (sigmoid_forward h xs nm).
Proof.
  unfold sigmoid_forward. destruct (oneInput xs) as [x|]; [|apply okw_fail; intros id; discriminate].
  apply okw_atomically. chain.
Qed.

Lemma okw_tanh h xs nm : okw h (tanh_forward h xs nm).
Proof.
  unfold tanh_forward. destruct (oneInput xs) as [x|]; [|apply okw_fail; intros id; discriminate].
  apply okw_math.
Qed.

Lemma okw_softmax h d xs nm : okw h (softmax_forward h d xs nm).
Proof.
  unfold softmax_forward. destruct (oneInput xs) as [x|]; [|apply okw_fail; intros id; discriminate].
  destruct (rankOf h x <=? d); [apply okw_fail; intros id; discriminate|].
  apply okw_atomically. chain.
Qed.

Lemma okw_clip h x l u : okw h (clip h x l u).
Proof. unfold clip. chain. Qed.

Ltac chain2 :=
  repeat (apply okw_bind; [|intros ? ?]);
  first [apply okw_clip|apply okw_scale|apply okw_pow|apply okw_math|apply okw_reduceAlong|apply okw_arith|apply okw_elsel].

Lemma okw_mse h yp yt nm : okw h (mse_compute h yp yt nm).
Proof.
  unfold mse_compute. destruct (lossArgs1 h yp yt) as [[p t]|]; [|apply okw_fail; intros id; discriminate].
  apply okw_atomically. chain2.
Qed.

Lemma okw_bce e1 e2 h yp yt nm : okw h (bce_compute e1 e2 h yp yt nm).
Proof.
  unfold bce_compute. destruct (lossArgs1 h yp yt) as [[p t]|]; [|apply okw_fail; intros id; discriminate].
  apply okw_atomically. chain2.
Qed.

Lemma okw_ce e1 e2 h yp yt nm : okw h (ce_compute e1 e2 h yp yt nm).
Proof.
  unfold ce_compute. destruct yp as [p|]; [|apply okw_fail; intros id; discriminate].
  destruct yt as [t|]; [|apply okw_fail; intros id; discriminate].
  match goal with |- context [if ?c then _ else _] => destruct c end; [|apply okw_fail; intros id; discriminate].
  apply okw_atomically. chain2.
Qed.

Lemma okw_sgd h lr cell nm : okw h (sgd_update h lr cell nm).
Proof.
  unfold sgd_update. destruct cell as [w|]; [|apply okw_fail; intros id; discriminate].
  destruct (valOf h w) as [wv|]; [|apply okw_fail; intros id; discriminate].
  destruct (gradOf h w) as [g|]; [|apply okw_fail; intros id; discriminate].
  match goal with |- context [match ?c with Ok _ => _ | Err => _ | Panic => _ end] => destruct c end.
  - apply okw_alloc0.
  - apply okw_fail; intros id; discriminate.
  - apply okw_fail; intros id; discriminate.
Qed.

Lemma okw_init d1 d2 d3 d4 d5 h sp shape pos nm h' r pos' :
  init_run d1 d2 d3 d4 d5 h sp shape pos nm = (h', r, pos') -> okw h (h', r).
Proof.
  unfold init_run. destruct (negb (init_valid d2 d3 d5 sp)).
  - intros E. inversion E; subst. apply okw_fail. intros id; discriminate.
  - destruct (init_value d1 d2 d3 d4 d5 sp shape pos) as [v| |].
    + unfold leaf. pose proof (okw_alloc0 h v true false nm) as H. rewrite alloc_eq in *.
      intros E. inversion E; subst. exact H.
    + intros E. inversion E; subst. apply okw_fail. intros id; discriminate.
    + intros E. inversion E; subst. apply okw_fail. intros id; discriminate.
Qed.

Lemma fc_new_ext d1 d2 d3 d4 d5 h i o wi bi pos h' r pos' :
  fc_new d1 d2 d3 d4 d5 h i o wi bi pos = (h', r, pos') ->
  extends h h' /\ (hinv h -> hinv h') /\
  (forall w b, r = Ok (w, b) -> length h <= w /\ length h <= b).
Proof.
  assert (Same : forall (r0 : res (nat * nat)) p0, (forall wb, r0 <> Ok wb) -> (h, r0, p0) = (h', r, pos') ->
            extends h h' /\ (hinv h -> hinv h') /\ (forall w b, r = Ok (w, b) -> length h <= w /\ length h <= b)).
  { intros r0 p0 Hr E. inversion E; subst. split; [apply extends_refl|]. split; [auto|].
    intros w b X. exfalso. apply (Hr _ X). }
  unfold fc_new. destruct ((i <=? 0)%Z || (o <=? 0)%Z); [apply Same; intros wb; discriminate|].
  set (ws := match wi with Some (Some s) => s | _ => IXavierUniform (Some (i, o)) end).
  set (bs := match bi with Some (Some s) => s | _ => IFull (Some (0%Z, 0%Z)) end).
  assert (Main : match init_run d1 d2 d3 d4 d5 h ws [o] pos None with
      | (h1, Ok w, pos1) =>
          match init_run d1 d2 d3 d4 d5 h1 bs [o] pos1 None with
          | (h2, Ok b, pos2) => (h2, Ok (w, b), pos2)
          | (_, Err, _) => (h, Err, pos)
          | (_, Panic, _) => (h, Panic, pos)
          end
      | (_, Err, _) => (h, Err, pos)
      | (_, Panic, _) => (h, Panic, pos)
      end = (h', r, pos') ->
      extends h h' /\ (hinv h -> hinv h') /\ (forall w b, r = Ok (w, b) -> length h <= w /\ length h <= b)).
  { destruct (init_run d1 d2 d3 d4 d5 h ws [o] pos None) as [[h1 r1] p1] eqn:E1. apply okw_init in E1.
    destruct r1 as [w| |]; [|apply Same; intros wb; discriminate|apply Same; intros wb; discriminate].
    destruct (init_run d1 d2 d3 d4 d5 h1 bs [o] p1 None) as [[h2 r2] p2] eqn:E2. apply okw_init in E2.
    destruct r2 as [b| |]; [|apply Same; intros wb; discriminate|apply Same; intros wb; discriminate].
    intros E. inversion E; subst. destruct E1 as (X1 & I1 & J1). destruct E2 as (X2 & I2 & J2).
    cbn [fst snd] in *. split; [eapply extends_trans; eauto|]. split; [auto|].
    intros w' b' Ewb. inversion Ewb; subst. destruct (I1 _ eq_refl) as [L1 L2]. destruct (I2 _ eq_refl) as [L3 L4].
    split; [exact L1|]. pose proof (extends_length _ _ X1). lia. }
  destruct wi as [[s1|]|]; destruct bi as [[s2|]|]; try exact Main; apply Same; intros wb; discriminate.
Qed.

(* ================================================================== *)
(*  2. one command: the complete case analysis                         *)
(* ================================================================== *)
Variable rd : bred.
Variable sealv : nat -> T -> T.
Variable sealg : nat -> option nat -> T -> T.
Variables (c_eps c_one_m_eps : A) (c_leaky c_sgd_lr dFull dUniL dUniU dNorM dNorS : dec) (c_softmax_dim : Z).
Notation step := (step rd sealv sealg c_eps c_one_m_eps c_leaky c_sgd_lr dFull dUniL dUniU dNorM dNorS c_softmax_dim).
Notation run_from := (run_from rd sealv sealg c_eps c_one_m_eps c_leaky c_sgd_lr dFull dUniL dUniU dNorM dNorS c_softmax_dim).

(* the only environment entries a command can overwrite *)
Definition writes (c : cmd) (k : nat) : Prop :=
  match c with
  | CFCSet fc _ _ => k = fc
  | CSGDUpdate _ (CrFCW fc) => k = fc
  | CSGDUpdate _ (CrFCB fc) => k = fc
  | CSGDUpdate _ (CrCell cl) => k = cl
  | CAccumulate acc _ _ => k = acc
  | _ => False
  end.

Definition env_rel (c : cmd) (env env' : list obj) : Prop :=
  exists o, env' = env ++ [o] \/ exists k o', writes c k /\ env' = setNthObj env k o' ++ [o].

(* the only things a command can do to the heap *)
Inductive heap_rel (s : state) (c : cmd) (h' : heap) : Prop :=
| HrExt : extends (st_heap s) h' -> (hinv (st_heap s) -> hinv h') -> heap_rel s c h'
| HrReset t b x : c = CReset t b -> lookupT s t = Some x -> h' = h_reset (st_heap s) x b -> heap_rel s c h'
| HrBp t x log : c = CBackprop (Some t) -> lookupT s t = Some x ->
    bp_topo rd (sealg (length (st_env s))) (st_heap s) x = (h', log, Ok tt) -> heap_rel s c h'.

Definition R (s : state) (c : cmd) (s' : state) : Prop :=
  heap_rel s c (st_heap s') /\ env_rel c (st_env s) (st_env s').

Lemma sealNode_ext (h0 h : heap) id name : extends h0 h -> length h0 <= id -> extends h0 (sealNode sealv h id name).
Proof.
  intros He Hid. apply extends_iff_nth. intros i n Hn. unfold sealNode. rewrite updNode_nth_other.
  - eapply extends_nth; eauto.
  - assert (i < length h0) by (apply nth_error_Some; congruence). lia.
Qed.

Lemma sealNode_hinv (h : heap) id name : hinv h -> hinv (sealNode sealv h id name).
Proof. apply hinv_updNode. reflexivity. Qed.

Lemma R_push s c h o rng : extends (st_heap s) h -> (hinv (st_heap s) -> hinv h) -> R s c (push s h o rng).
Proof. intros He Hi. split; [apply HrExt; assumption|]. exists o. left. reflexivity. Qed.

Lemma R_plain s c o : R s c (fst (plain s o)).
Proof. apply R_push; [apply extends_refl|auto]. Qed.

Lemma R_bad s c : R s c (fst (bad s)).
Proof. apply R_push; [apply extends_refl|auto]. Qed.

Lemma R_scalarObs s c r : R s c (fst (scalarObs s r)).
Proof. apply R_plain. Qed.

Lemma R_fin s c r : okw (st_heap s) r -> R s c (fst (fin sealv s r)).
Proof.
  intros (He & Hid & Hi). unfold fin. destruct r as [h [id| |]]; cbn [fst snd] in *.
  - destruct (Hid id eq_refl) as [L1 L2]. apply R_push.
    + apply sealNode_ext; assumption.
    + intros H. apply sealNode_hinv. auto.
  - apply R_push; [apply extends_refl|auto].
  - apply R_push; [apply extends_refl|auto].
Qed.

Lemma R_of_value s c v tr : R s c (fst (of_value sealv s v tr)).
Proof.
  unfold of_value. destruct v as [t| |]; apply R_fin.
  - unfold leaf. apply okw_alloc0.
  - apply okw_fail. intros id; discriminate.
  - apply okw_fail. intros id; discriminate.
Qed.

Lemma R_same s c s1 s2 : R s c s1 -> st_heap s2 = st_heap s1 -> st_env s2 = st_env s1 -> R s c s2.
Proof. unfold R. intros H E1 E2. rewrite E1, E2. exact H. Qed.

Lemma lookupArg_some (s : state) (a : targ) x : lookupArg s a = Some (Some x) -> exists t, a = Some t /\ lookupT s t = Some x.
Proof.
  unfold lookupArg. destruct a as [t|]; [|discriminate]. destruct (lookupT s t) as [y|] eqn:E; [|discriminate].
  cbn. intros X. inversion X; subst. exists t. auto.
Qed.

Ltac okw_any :=
  first [apply okw_scale|apply okw_pow|apply okw_math|apply okw_cmp|apply okw_elsel|apply okw_arith|apply okw_dot
        |apply okw_matmul|apply okw_transpose|apply okw_reshape|apply okw_broadcast|apply okw_unsqueeze
        |apply okw_squeeze|apply okw_flatten|apply okw_reduceAlong|apply okw_slice|apply okw_patch|apply okw_concat
        |apply okw_fc_forward|apply okw_relu|apply okw_sigmoid|apply okw_tanh|apply okw_leaky|apply okw_softmax
        |apply okw_mse|apply okw_bce|apply okw_ce|apply okw_alloc0].

Ltac R_term :=
  first [apply R_fin; okw_any | apply R_plain | apply R_bad | apply R_of_value | apply R_scalarObs
        | cbn [fst]; apply R_push; [apply extends_refl|tauto] ].

Ltac R_auto :=
  repeat first
    [ R_term
    | match goal with
      | |- R _ _ (fst (match ?x with _ => _ end)) => destruct x eqn:?; cbv beta iota
      | |- R _ _ (fst (if ?x then _ else _)) => destruct x eqn:?
      end ].

Theorem step_rel (s : state) (c : cmd) : R s c (fst (step s c)).
Proof.
  destruct c; unfold Scenario.step; cbv beta iota zeta.
  all: try solve [R_auto].
  - (* CRandU *)
    destruct (negb (cfg_ok c)); [apply R_plain|].
    pose proof (R_of_value s (CRandU ds l u c) (v_randu ds (dcst l) (dcst u) (dec_lt l u) (st_rng s)) (cfg_track c)) as H.
    destruct (of_value sealv s (v_randu ds (dcst l) (dcst u) (dec_lt l u) (st_rng s)) (cfg_track c)) as [s' o].
    cbn [fst] in *. eapply R_same; [exact H|reflexivity|reflexivity].
  - (* CRandN *)
    destruct (negb (cfg_ok c)); [apply R_plain|].
    pose proof (R_of_value s (CRandN ds m s0 c) (v_randn ds (dcst m) (dcst s0) (dec_pos s0) (st_rng s)) (cfg_track c)) as H.
    destruct (of_value sealv s (v_randn ds (dcst m) (dcst s0) (dec_pos s0) (st_rng s)) (cfg_track c)) as [s' o].
    cbn [fst] in *. eapply R_same; [exact H|reflexivity|reflexivity].
  - (* CBackprop *)
    destruct (lookupArg s t) as [[x|]|] eqn:El; [|apply R_plain|apply R_bad].
    destruct (lookupArg_some _ _ _ El) as (t0 & -> & Ht0).
    destruct (bp_topo rd (sealg (length (st_env s))) (st_heap s) x) as [[h' log] r] eqn:Eb.
    destruct r as [[]| |]; [|apply R_plain|apply R_plain].
    cbn [fst]. split; [|exists ONone; left; reflexivity].
    eapply HrBp; [reflexivity|exact Ht0|exact Eb].
  - (* CReset *)
    destruct (lookupT s t) as [x|] eqn:El; [|apply R_bad].
    cbn [fst]. split; [|exists ONone; left; reflexivity].
    eapply HrReset; [reflexivity|exact El|reflexivity].
  - (* CFCNew *)
    destruct (fc_new dFull dUniL dUniU dNorM dNorS (st_heap s) inputs outputs wi bi (st_rng s)) as [[h' r] rng] eqn:E.
    apply fc_new_ext in E. destruct E as (He & Hi & _).
    destruct r as [[w b]| |]; [|apply R_plain|apply R_plain].
    cbn [fst]. apply R_push; assumption.
  - (* CFCSet *)
    destruct (nth_error (st_env s) fc) as [[| |w b| | |]|]; try apply R_bad.
    destruct (lookupT s t) as [x|]; [|apply R_bad].
    cbn [fst]. split; [apply HrExt; [apply extends_refl|auto]|].
    eexists. right. eexists _, _. split; [reflexivity|reflexivity].
  - (* CSGDUpdate *)
    assert (Upd : forall k (content : option nat) (store : nat -> obj), writes (CSGDUpdate sgd cell) k -> forall lr,
      R s (CSGDUpdate sgd cell) (fst (
        let (h', r) := sgd_update (st_heap s) lr content (Some (length (st_env s))) in
        match r with
        | Ok id => ({| st_heap := sealNode sealv h' id (length (st_env s));
                      st_env := setNthObj (st_env s) k (store id) ++ [OTensor id];
                      st_rng := st_rng s |}, tensorObs h' id)
        | Err => plain s ObErr
        | Panic => plain s ObPanic
        end))).
    { intros k content store Hw lr.
      pose proof (okw_sgd (st_heap s) lr content (Some (length (st_env s)))) as H.
      destruct (sgd_update (st_heap s) lr content (Some (length (st_env s)))) as [h' r].
      destruct H as (He & Hid & Hi). cbn [fst snd] in *.
      destruct r as [id| |]; [|apply R_plain|apply R_plain].
      destruct (Hid id eq_refl) as [L1 L2]. cbn [fst]. split.
      - apply HrExt; cbn [st_heap]; [apply sealNode_ext; assumption|intros H; apply sealNode_hinv; auto].
      - eexists. right. exists k. eexists. split; [exact Hw|reflexivity]. }
    destruct (nth_error (st_env s) sgd) as [[| | |lr| |]|]; try apply R_bad.
    destruct cell as [fc|fc|cl|]; [| | |apply R_plain].
    + destruct (nth_error (st_env s) fc) as [[| |w b| | |]|]; try apply R_bad.
      apply (Upd fc w (fun id => OFC (Some id) b)). reflexivity.
    + destruct (nth_error (st_env s) fc) as [[| |w b| | |]|]; try apply R_bad.
      apply (Upd fc b (fun id => OFC w (Some id))). reflexivity.
    + destruct (nth_error (st_env s) cl) as [[| | | | |t]|]; try apply R_bad.
      apply (Upd cl t (fun id => OCell (Some id))). reflexivity.
  - (* CAccumulate *)
    destruct (nth_error (st_env s) acc) as [[| | | |a|]|]; try apply R_bad.
    destruct (lookupArg s yp) as [p|]; [|apply R_bad]. destruct (lookupArg s yt) as [t|]; [|apply R_bad].
    destruct (acc_accumulate (st_heap s) a p t) as [a' r].
    destruct r as [u| |]; [|apply R_plain|apply R_plain].
    cbn [fst]. split; [apply HrExt; [apply extends_refl|auto]|].
    eexists. right. eexists _, _. split; [reflexivity|reflexivity].
  - (* CInit *)
    destruct (init_run dFull dUniL dUniU dNorM dNorS (st_heap s) s0 shape (st_rng s) (Some (length (st_env s))))
      as [[h' r] rng] eqn:E.
    apply okw_init in E. destruct r as [id| |]; [|apply R_plain|apply R_plain].
    unfold fin_rng. pose proof (R_fin s (CInit s0 shape) (h', Ok id) E) as H.
    destruct (fin sealv s (h', Ok id)) as [s' o]. cbn [fst snd] in *.
    eapply R_same; [exact H|reflexivity|reflexivity].
Qed.

(* ================================================================== *)
(*  3. what back-propagation does to the nodes, without any hypothesis *)
(*     on the heap: only the spent flag and the gradient may change    *)
(* ================================================================== *)
Lemma bp_nodes (sg : option nat -> T -> T) (h : heap) root h' log r : bp_topo rd sg h root = (h', log, r) ->
  length h' = length h /\
  forall i n, nth_error h i = Some n ->
    exists n', nth_error h' i = Some n' /\ nval n' = nval n /\ ntracked n' = ntracked n /\
               nedges n' = nedges n /\ nname n' = nname n.
Proof.
  assert (Refl : length h = length h /\ forall i n, nth_error h i = Some n ->
    exists n', nth_error h i = Some n' /\ nval n' = nval n /\ ntracked n' = ntracked n /\
               nedges n' = nedges n /\ nname n' = nname n).
  { split; [reflexivity|]. intros i n Hn. exists n. auto. }
  assert (Skel : forall k, same_skel (markDirty h (topoOrder h root)) k ->
    length k = length h /\ forall i n, nth_error h i = Some n ->
    exists n', nth_error k i = Some n' /\ nval n' = nval n /\ ntracked n' = ntracked n /\
               nedges n' = nedges n /\ nname n' = nname n).
  { intros k Sk. split; [rewrite <- (same_skel_length _ _ Sk); apply markDirty_length|].
    intros i n Hn. destruct (markDirty_node h (topoOrder h root) i n Hn) as (m & Hm & M1 & M2 & M3 & M4 & _).
    destruct (same_skel_node _ _ i m Sk Hm) as (n' & Hn' & Hs). unfold skel in Hs. inversion Hs.
    exists n'. split; [exact Hn'|]. repeat split; congruence. }
  unfold bp_topo. destruct (negb (trackedOf h root)); [intros E; inversion E; subst; exact Refl|].
  set (order := topoOrder h root) in *. set (h1 := markDirty h order) in *.
  destruct (valOf h1 root) as [rv|]; [|intros E; inversion E; subst; exact Refl].
  destruct (toOnes rv) as [ones| |].
  - destruct (accumulate h1 root ones) as [h2 r2] eqn:Ea. apply accumulate_ok in Ea. destruct Ea as [(Sa & _) _].
    destruct r2 as [u| |].
    + intros E. destruct u.
      assert (Htriv : forall (n : nat) (e : nat * rule), True -> In e (edgesOf h1 n) -> trackedOf h1 (fst e) = true -> True) by auto.
      destruct (fold_nodes_frame rd sg (fun _ => True) h1 Htriv order h2 [] (Ok tt) h' log r
                  (same_skel_sym _ _ Sa) (fun _ _ => I) E) as ((Sf & _) & _).
      apply Skel. eapply same_skel_trans; eauto.
    + intros E. inversion E; subst. apply Skel. exact Sa.
    + intros E. inversion E; subst. apply Skel. exact Sa.
  - intros E. inversion E; subst. apply Skel. apply same_skel_refl.
  - intros E. inversion E; subst. apply Skel. apply same_skel_refl.
Qed.

Lemma bp_hinv (sg : option nat -> T -> T) (h : heap) root h' log r :
  bp_topo rd sg h root = (h', log, r) -> hinv h -> hinv h'.
Proof.
  intros E [W O]. destruct (bp_nodes sg h root h' log r E) as [Hl Hn].
  assert (Back : forall c n', nth_error h' c = Some n' -> exists n, nth_error h c = Some n /\ nedges n' = nedges n).
  { intros c n' Hc. assert (Hlt : c < length h) by (rewrite <- Hl; apply nth_error_Some; congruence).
    destruct (lt_nth_some h c Hlt) as [n En]. destruct (Hn c n En) as (n'' & Hn'' & _ & _ & V & _).
    exists n. split; [exact En|]. congruence. }
  split.
  - intros c n' e Hc He. destruct (Back c n' Hc) as (n & En & Ee). rewrite Ee in He. eapply W; eauto.
  - intros c n' e Hc He. destruct (Back c n' Hc) as (n & En & Ee). rewrite Ee in He. eapply O; eauto.
Qed.

(* ================================================================== *)
(*  4. C10 for one command                                             *)
(* ================================================================== *)

(* the heap only grows *)
Theorem step_heap_length (s : state) (c : cmd) : length (st_heap s) <= length (st_heap (fst (step s c))).
Proof.
  destruct (step_rel s c) as [[He _|t b x _ _ ->|t x log _ _ Eb] _].
  - apply extends_length. exact He.
  - destruct (h_reset_spec (st_heap s) x b) as (Hl & _). rewrite Hl. lia.
  - destruct (bp_nodes _ _ _ _ _ _ Eb) as [Hl _]. rewrite Hl. lia.
Qed.

(* every command reserves exactly one name *)
Lemma setNthObj_length (l : list obj) k o : length (setNthObj l k o) = length l.
Proof. unfold setNthObj. apply mapi_length. Qed.

Lemma setNthObj_nth (l : list obj) k o j :
  nth_error (setNthObj l k o) j = option_map (fun x => if j =? k then o else x) (nth_error l j).
Proof. unfold setNthObj. rewrite mapi_nth. reflexivity. Qed.

Theorem step_env_length (s : state) (c : cmd) : length (st_env (fst (step s c))) = S (length (st_env s)).
Proof.
  destruct (step_rel s c) as [_ (o & [E|(k & o' & _ & E)])]; rewrite E, app_length; cbn [length];
    rewrite ?setNthObj_length; lia.
Qed.

(* (a) no command changes the value (shape and elements) or the name of an existing tensor *)
Theorem step_frame_values (s : state) (c : cmd) i n : nth_error (st_heap s) i = Some n ->
  exists n', nth_error (st_heap (fst (step s c))) i = Some n' /\ nval n' = nval n /\ nname n' = nname n.
Proof.
  intros Hn. destruct (step_rel s c) as [[He _|t b x _ _ E|t x log _ _ Eb] _].
  - exists n. split; [eapply extends_nth; eauto|auto].
  - rewrite E. destruct (h_reset_spec (st_heap s) x b) as (_ & Hs & Ho & _).
    destruct (Nat.eq_dec i x) as [->|Hne].
    + eexists. split; [apply Hs; exact Hn|]. cbn. auto.
    + exists n. rewrite Ho by exact Hne. auto.
  - destruct (bp_nodes _ _ _ _ _ _ Eb) as [_ Hb]. destruct (Hb i n Hn) as (n' & Hn' & V1 & _ & _ & V4).
    exists n'. auto.
Qed.

(* (b) only ResetGradContext changes tracking (flag and back edges), and only of its receiver *)
Theorem step_frame_tracking (s : state) (c : cmd) i n n' :
  nth_error (st_heap s) i = Some n -> nth_error (st_heap (fst (step s c))) i = Some n' ->
  (forall t b, c = CReset t b -> lookupT s t <> Some i) ->
  ntracked n' = ntracked n /\ nedges n' = nedges n.
Proof.
  intros Hn Hn' Hc. destruct (step_rel s c) as [[He _|t b x Ec El E|t x log _ _ Eb] _].
  - rewrite (extends_nth _ _ He _ _ Hn) in Hn'. inversion Hn'; subst. auto.
  - rewrite E in Hn'. destruct (h_reset_spec (st_heap s) x b) as (_ & _ & Ho & _).
    assert (Hne : i <> x) by (intros ->; apply (Hc t b Ec El)).
    rewrite Ho, Hn in Hn' by exact Hne. inversion Hn'; subst. auto.
  - destruct (bp_nodes _ _ _ _ _ _ Eb) as [_ Hb]. destruct (Hb i n Hn) as (n'' & Hn'' & _ & V2 & V3 & _).
    assert (n'' = n') by congruence. subst n''. auto.
Qed.

(* the receiver of ResetGradContext becomes a fresh leaf *)
Theorem step_reset_spec (s : state) t b x n : lookupT s t = Some x -> nth_error (st_heap s) x = Some n ->
  nth_error (st_heap (fst (step s (CReset t b)))) x = Some (mkNode (nval n) b false None [] (nname n)) /\
  (forall j, j <> x -> nth_error (st_heap (fst (step s (CReset t b)))) j = nth_error (st_heap s) j) /\
  snd (step s (CReset t b)) = ObOk.
Proof.
  intros El Hn. unfold Scenario.step. rewrite El. cbn [fst snd push st_heap].
  destruct (h_reset_spec (st_heap s) x b) as (_ & Hs & Ho & _). split; [apply Hs; exact Hn|]. split; [exact Ho|reflexivity].
Qed.

(* (c) only BackPropagate assigns gradients / spends tensors, only ResetGradContext clears them *)
Theorem step_frame_grad (s : state) (c : cmd) i n n' :
  nth_error (st_heap s) i = Some n -> nth_error (st_heap (fst (step s c))) i = Some n' ->
  (forall t, c <> CBackprop t) -> (forall t b, c = CReset t b -> lookupT s t <> Some i) ->
  ngrad n' = ngrad n /\ ndirty n' = ndirty n.
Proof.
  intros Hn Hn' Hb Hc. destruct (step_rel s c) as [[He _|t b x Ec El E|t x log Ec _ _] _].
  - rewrite (extends_nth _ _ He _ _ Hn) in Hn'. inversion Hn'; subst. auto.
  - rewrite E in Hn'. destruct (h_reset_spec (st_heap s) x b) as (_ & _ & Ho & _).
    assert (Hne : i <> x) by (intros ->; apply (Hc t b Ec El)).
    rewrite Ho, Hn in Hn' by exact Hne. inversion Hn'; subst. auto.
  - exfalso. apply (Hb _ Ec).
Qed.

(* commands other than BackPropagate / ResetGradContext leave every existing node exactly as it is *)
Theorem step_frame_exact (s : state) (c : cmd) : (forall t, c <> CBackprop t) -> (forall t b, c <> CReset t b) ->
  extends (st_heap s) (st_heap (fst (step s c))).
Proof.
  intros Hb Hr. destruct (step_rel s c) as [[He _|t b x Ec _ _|t x log Ec _ _] _]; [exact He| |].
  - exfalso. apply (Hr _ _ Ec).
  - exfalso. apply (Hb _ Ec).
Qed.

(* BackPropagate: the outcome decides; on success the changes are those of [bp_topo_flags] *)
Theorem step_frame_bp (s : state) t x : wf_heap (st_heap s) -> lookupT s t = Some x ->
  let h := st_heap s in
  let s' := fst (step s (CBackprop (Some t))) in
  let order := topoOrder h x in
  match snd (step s (CBackprop (Some t))) with
  | ObGrads _ _ =>
      length (st_heap s') = length h /\
      forall i n, nth_error h i = Some n ->
        exists n', nth_error (st_heap s') i = Some n' /\
          nval n' = nval n /\ ntracked n' = ntracked n /\ nedges n' = nedges n /\ nname n' = nname n /\
          ndirty n' = ndirty n || memb i order /\
          (~ In i order -> ngrad n' = ngrad n) /\
          (In i order -> ngrad n' <> None)
  | _ => st_heap s' = h
  end.
Proof.
  intros W El. cbv zeta. unfold Scenario.step, lookupArg. rewrite El. cbn [obind].
  destruct (bp_topo rd (sealg (length (st_env s))) (st_heap s) x) as [[h' log] r] eqn:Eb.
  destruct r as [[]| |]; [|reflexivity|reflexivity]. cbn [fst snd push st_heap].
  destruct (trackedOf (st_heap s) x) eqn:Ht.
  - destruct (bp_topo_flags _ _ _ _ _ _ _ W Ht Eb) as (Hl & Hn & Hg). split; [exact Hl|].
    intros i n Hi. destruct (Hn i n Hi) as (n' & Hn' & V1 & V2 & V3 & V4 & V5 & V6).
    exists n'. repeat (split; [assumption|]). intros Hin. specialize (Hg eq_refl i Hin).
    unfold gradOf in Hg. rewrite Hn' in Hg. exact Hg.
  - rewrite bp_untracked_root in Eb by exact Ht. inversion Eb; subst. split; [reflexivity|].
    rewrite topoOrder_untracked by exact Ht. intros i n Hi. exists n. cbn [memb existsb In].
    rewrite orb_false_r. repeat (split; [auto|]). intros [].
Qed.

(* the heap invariant is preserved by every command *)
Theorem step_hinv (s : state) (c : cmd) : hinv (st_heap s) -> hinv (st_heap (fst (step s c))).
Proof.
  intros H. destruct (step_rel s c) as [[_ Hi|t b x _ _ E|t x log _ _ Eb] _].
  - apply Hi, H.
  - rewrite E. destruct H as [W O]. split; apply BackpropP.edges_ok_reset; assumption.
  - eapply bp_hinv; eauto.
Qed.

(* ================================================================== *)
(*  5. histories                                                       *)
(* ================================================================== *)
Fixpoint exec (s : state) (cs : list cmd) : state :=
  match cs with [] => s | c :: r => exec (fst (step s c)) r end.

(* s' is the state after executing cs from s *)
Definition reach (s : state) (cs : list cmd) (s' : state) : Prop := exec s cs = s'.

Lemma exec_app s cs1 cs2 : exec s (cs1 ++ cs2) = exec (exec s cs1) cs2.
Proof. revert s. induction cs1 as [|c cs1 IH]; intros s; cbn; [reflexivity|apply IH]. Qed.

Lemma run_from_app s cs1 cs2 : run_from s (cs1 ++ cs2) = run_from s cs1 ++ run_from (exec s cs1) cs2.
Proof.
  revert s. induction cs1 as [|c cs1 IH]; intros s; cbn [app Scenario.run_from exec]; [reflexivity|].
  destruct (step s c) as [s' o]. cbn [fst]. rewrite IH. reflexivity.
Qed.

Lemma run_from_length s cs : length (run_from s cs) = length cs.
Proof.
  revert s. induction cs as [|c cs IH]; intros s; cbn [Scenario.run_from]; [reflexivity|].
  destruct (step s c) as [s' o]. cbn [length]. rewrite IH. reflexivity.
Qed.

(* the k-th observable is the observable of the k-th command in the state reached by the first k *)
Lemma run_from_nth s cs k c : nth_error cs k = Some c ->
  nth_error (run_from s cs) k = Some (snd (step (exec s (firstn k cs)) c)).
Proof.
  revert s k. induction cs as [|c0 cs IH]; intros s k Hk; [destruct k; discriminate|].
  cbn [Scenario.run_from]. destruct (step s c0) as [s' o] eqn:E. destruct k as [|k]; cbn in *.
  - inversion Hk; subst. rewrite E. reflexivity.
  - rewrite E. cbn [fst]. apply IH. exact Hk.
Qed.

Theorem exec_hinv s cs : hinv (st_heap s) -> hinv (st_heap (exec s cs)).
Proof. revert s. induction cs as [|c cs IH]; intros s H; cbn [exec]; [exact H|]. apply IH, step_hinv, H. Qed.

(* every heap reachable from the empty state is well formed *)
Corollary reachable_hinv cs : hinv (st_heap (exec init_state cs)).
Proof. apply exec_hinv. apply hinv_nil. Qed.

Corollary reachable_wf cs : wf_heap (st_heap (exec init_state cs)).
Proof. apply hinv_wf, reachable_hinv. Qed.

Corollary reachable_rules_own cs : BackpropP.rules_own (st_heap (exec init_state cs)).
Proof. apply reachable_hinv. Qed.

Theorem exec_heap_length s cs : length (st_heap s) <= length (st_heap (exec s cs)).
Proof.
  revert s. induction cs as [|c cs IH]; intros s; cbn [exec]; [lia|].
  pose proof (step_heap_length s c). pose proof (IH (fst (step s c))). lia.
Qed.

Theorem exec_env_length s cs : length (st_env (exec s cs)) = length (st_env s) + length cs.
Proof.
  revert s. induction cs as [|c cs IH]; intros s; cbn [exec length]; [lia|].
  rewrite IH, step_env_length. lia.
Qed.

(* (a) lifted: after ANY history every tensor still has its shape, elements and name *)
Theorem exec_frame_values s cs i n : nth_error (st_heap s) i = Some n ->
  exists n', nth_error (st_heap (exec s cs)) i = Some n' /\ nval n' = nval n /\ nname n' = nname n.
Proof.
  revert s n. induction cs as [|c cs IH]; intros s n Hn; cbn [exec]; [exists n; auto|].
  destruct (step_frame_values s c i n Hn) as (n1 & Hn1 & V1 & N1).
  destruct (IH _ n1 Hn1) as (n' & Hn' & V & N). exists n'. split; [exact Hn'|]. split; congruence.
Qed.

Corollary exec_frame_valOf s cs i v : valOf (st_heap s) i = Some v -> valOf (st_heap (exec s cs)) i = Some v.
Proof.
  unfold valOf. destruct (nth_error (st_heap s) i) as [n|] eqn:En; [|discriminate]. cbn. intros E.
  destruct (exec_frame_values s cs i n En) as (n' & Hn' & V & _). rewrite Hn'. cbn. congruence.
Qed.

Definition is_reset (c : cmd) : bool := match c with CReset _ _ => true | _ => false end.
Definition is_bp (c : cmd) : bool := match c with CBackprop _ => true | _ => false end.

(* (b) lifted: histories without ResetGradContext never change tracking flags or back edges *)
Theorem exec_frame_tracking s cs i n : forallb (fun c => negb (is_reset c)) cs = true ->
  nth_error (st_heap s) i = Some n ->
  exists n', nth_error (st_heap (exec s cs)) i = Some n' /\ ntracked n' = ntracked n /\ nedges n' = nedges n.
Proof.
  revert s n. induction cs as [|c cs IH]; intros s n Hcs Hn; cbn [exec]; [exists n; auto|].
  cbn [forallb] in Hcs. apply andb_true_iff in Hcs. destruct Hcs as [Hc Hcs].
  destruct (step_frame_values s c i n Hn) as (n1 & Hn1 & _).
  destruct (step_frame_tracking s c i n n1 Hn Hn1) as [T1 E1].
  { intros t b ->. discriminate. }
  destruct (IH _ n1 Hcs Hn1) as (n' & Hn' & T & E). exists n'. split; [exact Hn'|]. split; congruence.
Qed.

(* (c) lifted: histories without BackPropagate and ResetGradContext leave every node untouched *)
Theorem exec_frame_exact s cs : forallb (fun c => negb (is_reset c) && negb (is_bp c)) cs = true ->
  extends (st_heap s) (st_heap (exec s cs)).
Proof.
  revert s. induction cs as [|c cs IH]; intros s Hcs; cbn [exec]; [apply extends_refl|].
  cbn [forallb] in Hcs. apply andb_true_iff in Hcs. destruct Hcs as [Hc Hcs]. apply andb_true_iff in Hc. destruct Hc as [H1 H2].
  eapply extends_trans; [|apply IH; exact Hcs]. apply step_frame_exact.
  - intros t ->. discriminate.
  - intros t b ->. discriminate.
Qed.

Corollary exec_frame_grad s cs i n : forallb (fun c => negb (is_reset c) && negb (is_bp c)) cs = true ->
  nth_error (st_heap s) i = Some n -> nth_error (st_heap (exec s cs)) i = Some n.
Proof. intros Hcs Hn. eapply extends_nth; [apply exec_frame_exact; exact Hcs|exact Hn]. Qed.

(* the same two statements for one tensor [i] in histories that may reset / back-propagate OTHER tensors *)
Fixpoint never_resets (i : nat) (s : state) (cs : list cmd) : Prop :=
  match cs with
  | [] => True
  | c :: r => (forall t b, c = CReset t b -> lookupT s t <> Some i) /\ never_resets i (fst (step s c)) r
  end.

Theorem exec_frame_tracking_gen s cs i n : never_resets i s cs -> nth_error (st_heap s) i = Some n ->
  exists n', nth_error (st_heap (exec s cs)) i = Some n' /\ ntracked n' = ntracked n /\ nedges n' = nedges n.
Proof.
  revert s n. induction cs as [|c cs IH]; intros s n Hcs Hn; cbn [exec]; [exists n; auto|].
  destruct Hcs as [Hc Hcs]. destruct (step_frame_values s c i n Hn) as (n1 & Hn1 & _).
  destruct (step_frame_tracking s c i n n1 Hn Hn1 Hc) as [T1 E1].
  destruct (IH _ n1 Hcs Hn1) as (n' & Hn' & T & E). exists n'. split; [exact Hn'|]. split; congruence.
Qed.

Theorem exec_frame_grad_gen s cs i n : never_resets i s cs -> forallb (fun c => negb (is_bp c)) cs = true ->
  nth_error (st_heap s) i = Some n ->
  exists n', nth_error (st_heap (exec s cs)) i = Some n' /\ ngrad n' = ngrad n /\ ndirty n' = ndirty n.
Proof.
  revert s n. induction cs as [|c cs IH]; intros s n Hcs Hb Hn; cbn [exec]; [exists n; auto|].
  destruct Hcs as [Hc Hcs]. cbn [forallb] in Hb. apply andb_true_iff in Hb. destruct Hb as [Hb1 Hb].
  destruct (step_frame_values s c i n Hn) as (n1 & Hn1 & _).
  destruct (step_frame_grad s c i n n1 Hn Hn1) as [T1 E1]; [intros t ->; discriminate|exact Hc|].
  destruct (IH _ n1 Hcs Hb Hn1) as (n' & Hn' & T & E). exists n'. split; [exact Hn'|]. split; congruence.
Qed.

End StepP.

(* ================================================================== *)
(*  Examples: a history with every kind of command that touches flags  *)
(* ================================================================== *)
Module StepEx.
Import TrackEx.
#[local] Existing Instance Z_scalar.
Local Open Scope Z_scope.

Definition idv : nat -> tensor Z -> tensor Z := fun _ t => t.
Definition idg : nat -> option nat -> tensor Z -> tensor Z := fun _ _ g => g.
Definition d0 : dec := (0, 0).
Notation stepZ := (step RedSum idv idg 0 1 d0 d0 d0 d0 d0 d0 d0 0).
Notation runZ := (run_from RedSum idv idg 0 1 d0 d0 d0 d0 d0 d0 d0 0).
Notation execZ := (exec RedSum idv idg 0 1 d0 d0 d0 d0 d0 d0 d0 0).

(* names: 0 x=[3;5] tracked, 1 c=[1;1], 2 m=x*2, 3 y=m+c, 4 BackPropagate(y), 5 x.Gradient(),
   6 x.ResetGradContext(true), 7 x*3 *)
Definition hist : list (@cmd Z) :=
  [CLeaf [2%nat] [3; 5] true; CLeaf [2%nat] [1; 1] false; CScale 0 (2, 0); CBin BiAdd 2 (Some 1%nat);
   CBackprop (Some 3%nat); CGradOf 0; CReset 0 true; CScale 0 (3, 0)].

Definition flagsOf (h : @heap Z) := map (fun n => (ntracked n, ndirty n, match ngrad n with Some _ => true | None => false end)) h.

Example ex_run :
  runZ init_state hist =
    [ObTensor [2%nat] [3; 5]; ObTensor [2%nat] [1; 1]; ObTensor [2%nat] [6; 10]; ObTensor [2%nat] [7; 11];
     ObGrads 4 [(0%nat, Some ([2%nat], [2; 2])); (1%nat, None); (2%nat, Some ([2%nat], [1; 1])); (3%nat, Some ([2%nat], [1; 1]))];
     ObTensor [2%nat] [2; 2]; ObOk; ObTensor [2%nat] [9; 15]] /\
  flagsOf (st_heap (execZ init_state (firstn 4 hist))) =
    [(true, false, false); (false, false, false); (true, false, false); (true, false, false); (false, false, false); (true, false, false)] /\
  flagsOf (st_heap (execZ init_state (firstn 5 hist))) =
    [(true, true, true); (false, false, false); (true, true, true); (true, true, true); (false, false, false); (true, true, true)] /\
  flagsOf (st_heap (execZ init_state hist)) =
    [(true, false, false); (false, false, false); (true, true, true); (true, true, true); (false, false, false); (true, true, true);
     (false, true, false); (true, false, false)] /\
  erase (firstn 6 (st_heap (execZ init_state hist))) = erase (st_heap (execZ init_state (firstn 4 hist))).
Proof. vm_compute. repeat split. Qed.

(* the theorems applied to the example: hypotheses satisfiable, conclusions informative *)
Example ex_values : forall i n, nth_error (st_heap (execZ init_state (firstn 4 hist))) i = Some n ->
  exists n', nth_error (st_heap (execZ init_state hist)) i = Some n' /\ nval n' = nval n /\ nname n' = nname n.
Proof.
  intros i n Hn. change hist with (firstn 4 hist ++ skipn 4 hist). rewrite exec_app.
  apply exec_frame_values. exact Hn.
Qed.

Example ex_wf : wf_heap (st_heap (execZ init_state hist)).
Proof. apply reachable_wf. Qed.

(* node 2 (m) is never reset in the history: its tracking flag survives although x is reset *)
Example ex_tracking : exists n', nth_error (st_heap (execZ init_state hist)) 2 = Some n' /\ ntracked n' = true.
Proof.
  destruct (exec_frame_tracking_gen RedSum idv idg 0 1 d0 d0 d0 d0 d0 d0 d0 0
              (execZ init_state (firstn 4 hist)) (skipn 4 hist) 2
              (mkNode (vec2 6 10) true false None [(0%nat, RScale 2 2)] (Some 2%nat))) as (n' & Hn' & Ht & _).
  - cbn [skipn hist never_resets]. repeat split; intros t b E; inversion E; subst; vm_compute; discriminate.
  - vm_compute. reflexivity.
  - exists n'. rewrite <- exec_app in Hn'. split; [exact Hn'|exact Ht].
Qed.
End StepEx.

Print Assumptions atomically_frame.
Print Assumptions step_rel.
Print Assumptions step_frame_values.
Print Assumptions step_frame_tracking.
Print Assumptions step_frame_grad.
Print Assumptions step_reset_spec.
Print Assumptions step_frame_bp.
Print Assumptions step_hinv.
Print Assumptions reachable_wf.
Print Assumptions reachable_rules_own.
Print Assumptions exec_frame_values.
Print Assumptions exec_frame_tracking.
Print Assumptions exec_frame_exact.
Print Assumptions exec_frame_tracking_gen.
Print Assumptions exec_frame_grad_gen.
Print Assumptions run_from_app.
